/-
  C01 / C02 at the driver level for PROGRAM-scoped tags: `LogixDriver.read("Program:P.tag")` and
  `LogixDriver.write(("Program:P.tag", value))` of an elementary scalar tag of the program `P`, through the whole stack
  of the model against the reference controller.

  A program-scoped request takes its own route through the library: `_parse_tag_request` joins `Program:P` and the
  first attribute into the base tag and looks the WHOLE string up in the tag database; `tag_request_path` ignores the
  instance id of the entry (the path is symbolic whatever `use_instance_ids` says): ANSI symbol segment `Program:P`,
  ANSI symbol segment `tag`; the controller resolves the first segment to the program scope and the second inside
  that program's symbol table — not in the controller scope, which may hold a tag of the same name.

  Layers (lemmas usable on their own):
    (a) LDProg1  `ldp_parse_scalar`
    (b) LDProg1  `ldp_tagRequestPath_symbolic`, `ldp_requestPath`
    (d) LDProg1  `ldp_resolve`, `ldp_symbolOf`, `ldp_readBytes`
    effect: LDProg2  `ldp_written_eq`, `ldp_progs_other`, `ldp_mem_progs`, `ldp_progs_uniq`
    transfer: LDProg3  `ldp_resolveMembers_scope`, `ldp_resolve_view`, `ldp_readBytes_view` — the controller resolves
              `Program:P` ++ address like the address alone in the project whose controller scope is the symbol table of `P`
              (`ldp_view`), so every addressing lemma about controller-scope tags (elements, members) is reused
    indexes / members: LDProg4  `ldp_requestPath_levels`, `ldp_parse_level`, `ldp_parse_member`
    two requests: LDProg5  `ldp_exchange`, `ldp_read_ctl_prog`
    tag database after `open()`: LDProg6  `ldp_tagDb_get`
    composed over LDRead2Core `ldr2_read_single`, LDWrite2Core `ldw2_write_single` (any resolvable tag address)
-/
import PycommProofs.LDProg1
import PycommProofs.LDProg2
import PycommProofs.LDProg3
import PycommProofs.LDProg4
import PycommProofs.LDProg5
import PycommProofs.LDProg6
namespace Pycomm.Lgx.Drv
open Pycomm Pycomm.Tgt Pycomm.Path Pycomm.Reply Pycomm.Encap Pycomm.Lgx Pycomm.Lgx.E2E

/-- what the tag database says under the key `Program:P.tag`: an atomic tag of that elementary type. The instance id
    of the entry is irrelevant (`tag_request_path` ignores it for program-scoped tags), so nothing is asked of it. -/
structure ldp_InfoOf (info : TagInfo) (name : Name) (t : Ty) : Prop where
  kind : info.core.tagType = .atomic
  typeName : info.core.dataTypeName = name
  ty : info.core.ty = t
  struct : info.core.struct = none

-- PROPERTY THEOREMS

/-- C01, driver level, program scope: reading ONE elementary (non-bit-string) scalar tag `t` of the program `P` as
    `read("Program:P.t")` on a healthy connected driver returns exactly one error-free Tag carrying the request string,
    the type name and the value the codec decodes from the memory of THAT PROGRAM'S symbol `t`; exactly one frame is
    written, one sequence number is drawn, the controller's project is unchanged (only the schedule counter of the
    Logix state advances), and the resulting world is healthy again.

    Non-interference with the controller scope: no hypothesis mentions `st.proj.controller`, `cfg.useInstanceIds` or
    the instance id of the tag-database entry — the statement holds whatever the controller scope holds, in particular
    when it holds a tag of the same name `t` with another value (see `read_program_not_controller_e2e` and the
    evaluated example in `ExP`), and whether or not the driver uses instance ids.

    Hypotheses:
    * `hw`, `hlogix`  as in `read_atomic_scalar_e2e`;
    * `hP`, `hPl`  the program name `P` is a plain identifier of at most 240 characters (`Program:P` fits one symbolic
                  segment and the two segments fit the one-byte path size; Logix names have at most 40 characters);
    * `hprog`, `hprogU`  the controller holds the program scope `Program:P` with symbol table `syms`, and no other scope
                  of that name;
    * `hs`, `hbytes`, `huniqN`, `huniqI`  `s` is a symbol of that table; its name and instance id are unique IN THAT
                  TABLE; names are byte strings;
    * `hid`       the tag name is a plain identifier;
    * `hty` … `hlen`  type code, the driver's type table, memory size — as in `read_atomic_scalar_e2e`;
    * `hget`, `hinfo`  the tag database maps the key `Program:P.t` to an atomic entry of that type;
    * `hdec`      `v` is what the codec decodes from the program symbol's memory;
    * `hC`, `hT`  request and answer fit (`|P| + |t| + 30` bytes suffice). -/
theorem read_program_scalar_e2e (cfg : Cfg) (w : Cli.World Ext) (sess : Nat) (cidb : Bytes) (conn : Conn)
    (st : LState) (P : Name) (syms : List Symbol) (s : Symbol) (info : TagInfo) (c sz : Nat) (name : Name) (t : Ty)
    (v : PyVal) (rest : Bytes)
    (hw : ldr_Healthy w sess cidb conn) (hlogix : w.net.target.ext.logix = some st)
    (hP : PlainIdent P) (hPl : P.length ≤ 240)
    (hprog : (ldp_prog P, syms) ∈ st.proj.programs)
    (hprogU : ∀ pr ∈ st.proj.programs, pr.1 = ldp_prog P → pr = (ldp_prog P, syms))
    (hs : s ∈ syms)
    (hbytes : ∀ s' ∈ syms, ∀ ch ∈ s'.name, ch < 256)
    (huniqN : ∀ s' ∈ syms, s'.name = s.name → s' = s)
    (huniqI : ∀ s' ∈ syms, s'.inst = s.inst → s' = s)
    (hid : PlainIdent s.name)
    (hty : elTyOfWord s.symbolType = .atomic c) (hat : atomicOfCode c = some (name, t)) (hb : t.isBits = none)
    (hsz : atomicSize c = some sz) (hlen : s.mem.length = sz)
    (hget : cfg.tags.get? (ldp_tagStr P s.name) = some info) (hinfo : ldp_InfoOf info name t)
    (hdec : decode t s.mem = .ok (v, rest))
    (hC : P.length + s.name.length + 30 ≤ w.drv.connectionSize) (hT : P.length + s.name.length + 30 ≤ conn.size) :
    ∃ w' frm, read hookAll cfg w [ldp_tagStr P s.name] =
        (w', .ok [{ tag := ldp_tagStr P s.name, value := v, type := some name, error := none }]) ∧
      w'.drv = w.drv.nextSeq.2 ∧ w'.net.sent = w.net.sent ++ [frm] ∧
      w'.net.target.ext = { w.net.target.ext with logix := some { st with ctr := st.ctr + 1 } } ∧
      ldr_Healthy w' sess cidb { conn with lastSeq := some w.drv.nextSeq.1 } := by
  obtain ⟨haty, hentry, hndw, hpos, hle8⟩ := ldr_atomic_table c sz name t hat hb hsz
  have hnl := hid.2.1
  have hnd : isDword info = false := by
    have : (name == Drv.nm "DWORD") = false := by simpa using hndw
    simp [isDword, hinfo.typeName, this]
  have hparse := ldp_parse_scalar cfg.tags false 0 P s.name info hP hid hget hnd
  obtain ⟨path, hpath, hpl, hden⟩ := ldp_requestPath cfg P s.name info hP (by omega) hid (by omega)
  have hmem : s.mem ≠ [] := by
    intro h; rw [h, List.length_nil] at hlen; omega
  have hr := ldp_resolve st.proj P syms s c sz hP hprog hprogU hs hbytes huniqN hty hsz hmem
  have hrb := ldp_readBytes st.proj (ldp_prog P) syms s c sz hprog hprogU hs huniqI hsz hlen
  have hreply := ldr_parseReadReply info c t name s.mem rest v hinfo.ty hinfo.typeName hndw haty hb hdec
  have hrs : tagReturnSize info 1 = sz := by
    simp [tagReturnSize, hinfo.struct, hinfo.typeName, hentry]
  obtain ⟨w', frm, hread, hd, hsent, hext, hh⟩ := ldr2_read_single cfg w sess cidb conn st (ldp_tagStr P s.name)
    (ldp_parsed 0 P s.name info) info path (ldp_segs P s.name) (ldp_loc (ldp_prog P) s c) c 1 s.mem v name hw hlogix
    hparse rfl rfl rfl rfl hpath hden (by omega) hr rfl ⟨Nat.le_refl 1, ldr_dimsProduct_pos s.dims, by omega⟩ hrb hreply
    (by rw [hrs]; omega) (by omega) (by omega)
  have hresult := ldr_readResult (ldp_parsed 0 P s.name info) info
    { tag := ldp_tagStr P s.name, value := v, type := some name, error := none } rfl rfl rfl
    (by rw [hinfo.typeName]; exact hndw) (ldr_decode_not_none c t haty hb s.mem rest v hdec) rfl
  refine ⟨w', frm, ?_, hd, hsent, hext, hh⟩
  rw [hread]
  dsimp only [ldp_parsed] at hresult ⊢
  rw [hresult]

/-- the same with the value given by its encoding: if the program symbol's memory is the encoding of the canonical
    value `v` of the tag's type, `read("Program:P.t")` returns `v` -/
theorem read_program_scalar_e2e_encoded (cfg : Cfg) (w : Cli.World Ext) (sess : Nat) (cidb : Bytes) (conn : Conn)
    (st : LState) (P : Name) (syms : List Symbol) (s : Symbol) (info : TagInfo) (c sz : Nat) (name : Name) (t : Ty)
    (v : PyVal)
    (hw : ldr_Healthy w sess cidb conn) (hlogix : w.net.target.ext.logix = some st)
    (hP : PlainIdent P) (hPl : P.length ≤ 240)
    (hprog : (ldp_prog P, syms) ∈ st.proj.programs)
    (hprogU : ∀ pr ∈ st.proj.programs, pr.1 = ldp_prog P → pr = (ldp_prog P, syms))
    (hs : s ∈ syms)
    (hbytes : ∀ s' ∈ syms, ∀ ch ∈ s'.name, ch < 256)
    (huniqN : ∀ s' ∈ syms, s'.name = s.name → s' = s)
    (huniqI : ∀ s' ∈ syms, s'.inst = s.inst → s' = s)
    (hid : PlainIdent s.name)
    (hty : elTyOfWord s.symbolType = .atomic c) (hat : atomicOfCode c = some (name, t)) (hb : t.isBits = none)
    (hsz : atomicSize c = some sz) (hlen : s.mem.length = sz)
    (hget : cfg.tags.get? (ldp_tagStr P s.name) = some info) (hinfo : ldp_InfoOf info name t)
    (hcanon : Canon t v) (henc : encode t v = .ok s.mem)
    (hC : P.length + s.name.length + 30 ≤ w.drv.connectionSize) (hT : P.length + s.name.length + 30 ≤ conn.size) :
    ∃ w' frm, read hookAll cfg w [ldp_tagStr P s.name] =
        (w', .ok [{ tag := ldp_tagStr P s.name, value := v, type := some name, error := none }]) ∧
      w'.drv = w.drv.nextSeq.2 ∧ w'.net.sent = w.net.sent ++ [frm] ∧
      w'.net.target.ext = { w.net.target.ext with logix := some { st with ctr := st.ctr + 1 } } ∧
      ldr_Healthy w' sess cidb { conn with lastSeq := some w.drv.nextSeq.1 } := by
  obtain ⟨bs, h1, h2⟩ := decode_encode t v hcanon
  rw [henc] at h1
  cases h1
  have hdec : decode t s.mem = .ok (v, []) := by
    have := h2 []
    rwa [List.append_nil] at this
  exact read_program_scalar_e2e cfg w sess cidb conn st P syms s info c sz name t v [] hw hlogix hP hPl hprog hprogU hs
    hbytes huniqN huniqI hid hty hat hb hsz hlen hget hinfo hdec hC hT

/-- C01, non-interference of the scopes, stated explicitly: the controller scope holds an elementary scalar tag `s0`
    and the program `P` holds a tag `s` OF THE SAME NAME (`hsame`), each with its own memory (and possibly its own
    type). On a healthy connected driver `read("t")` returns the value decoded from the CONTROLLER symbol's memory and
    the following `read("Program:P.t")` returns the value decoded from the PROGRAM symbol's memory; two frames, the
    project is unchanged. Hypotheses: those of `read_atomic_scalar_e2e` for `s0` and of `read_program_scalar_e2e` for
    `s`. -/
theorem read_program_not_controller_e2e (cfg : Cfg) (w : Cli.World Ext) (sess : Nat) (cidb : Bytes) (conn : Conn)
    (st : LState) (P : Name) (syms : List Symbol) (s s0 : Symbol) (info info0 : TagInfo) (c sz c0 sz0 : Nat)
    (name name0 : Name) (t t0 : Ty) (v v0 : PyVal) (rest rest0 : Bytes)
    (hw : ldr_Healthy w sess cidb conn) (hlogix : w.net.target.ext.logix = some st)
    (hsame : s0.name = s.name)
    -- the controller-scope tag
    (hs0 : s0 ∈ st.proj.controller)
    (hbytes0 : ∀ s' ∈ st.proj.controller, ∀ ch ∈ s'.name, ch < 256)
    (huniqN0 : ∀ s' ∈ st.proj.controller, s'.name = s0.name → s' = s0)
    (huniqI0 : ∀ s' ∈ st.proj.controller, s'.inst = s0.inst → s' = s0)
    (hinst0 : s0.inst < 2 ^ 32)
    (hty0 : elTyOfWord s0.symbolType = .atomic c0) (hat0 : atomicOfCode c0 = some (name0, t0)) (hb0 : t0.isBits = none)
    (hsz0 : atomicSize c0 = some sz0) (hlen0 : s0.mem.length = sz0)
    (hget0 : cfg.tags.get? s0.name = some info0) (hinfo0 : ldr_InfoOf info0 name0 t0 s0.inst)
    (hdec0 : decode t0 s0.mem = .ok (v0, rest0))
    -- the program-scope tag
    (hP : PlainIdent P) (hPl : P.length ≤ 240)
    (hprog : (ldp_prog P, syms) ∈ st.proj.programs)
    (hprogU : ∀ pr ∈ st.proj.programs, pr.1 = ldp_prog P → pr = (ldp_prog P, syms))
    (hs : s ∈ syms)
    (hbytes : ∀ s' ∈ syms, ∀ ch ∈ s'.name, ch < 256)
    (huniqN : ∀ s' ∈ syms, s'.name = s.name → s' = s)
    (huniqI : ∀ s' ∈ syms, s'.inst = s.inst → s' = s)
    (hid : PlainIdent s.name)
    (hty : elTyOfWord s.symbolType = .atomic c) (hat : atomicOfCode c = some (name, t)) (hb : t.isBits = none)
    (hsz : atomicSize c = some sz) (hlen : s.mem.length = sz)
    (hget : cfg.tags.get? (ldp_tagStr P s.name) = some info) (hinfo : ldp_InfoOf info name t)
    (hdec : decode t s.mem = .ok (v, rest))
    (hC : P.length + s.name.length + 30 ≤ w.drv.connectionSize) (hT : P.length + s.name.length + 30 ≤ conn.size) :
    ∃ w1 w2 frm1 frm2,
      read hookAll cfg w [s.name] = (w1, .ok [{ tag := s.name, value := v0, type := some name0, error := none }]) ∧
      read hookAll cfg w1 [ldp_tagStr P s.name] =
        (w2, .ok [{ tag := ldp_tagStr P s.name, value := v, type := some name, error := none }]) ∧
      w2.net.sent = w.net.sent ++ [frm1, frm2] ∧
      w2.net.target.ext = { w.net.target.ext with logix := some { st with ctr := st.ctr + 2 } } ∧
      ldr_Healthy w2 sess cidb { conn with lastSeq := some w.drv.nextSeq.2.nextSeq.1 } := by
  have hid0 : PlainIdent s0.name := by rw [hsame]; exact hid
  obtain ⟨w1, frm1, hr1, hd1, hsent1, hext1, hh1⟩ := read_atomic_scalar_e2e cfg w sess cidb conn st s0 info0 c0 sz0 name0 t0
    v0 rest0 hw hlogix hs0 hbytes0 huniqN0 huniqI0 hid0 hinst0 hty0 hat0 hb0 hsz0 hlen0 hget0 hinfo0 hdec0
    (by rw [hsame]; omega) (by rw [hsame]; omega)
  rw [hsame] at hr1
  have hlogix1 : w1.net.target.ext.logix = some { st with ctr := st.ctr + 1 } := by rw [hext1]
  have hcs : w1.drv.connectionSize = w.drv.connectionSize := by rw [hd1, (Cli.lcs_nextSeq w.drv).2]
  obtain ⟨w2, frm2, hr2, hd2, hsent2, hext2, hh2⟩ := read_program_scalar_e2e cfg w1 sess cidb
    { conn with lastSeq := some w.drv.nextSeq.1 } { st with ctr := st.ctr + 1 } P syms s info c sz name t v rest hh1 hlogix1
    hP hPl hprog hprogU hs hbytes huniqN huniqI hid hty hat hb hsz hlen hget hinfo hdec (by rw [hcs]; exact hC) hT
  refine ⟨w1, w2, frm1, frm2, hr1, hr2, ?_, ?_, ?_⟩
  · rw [hsent2, hsent1, List.append_assoc]; rfl
  · rw [hext2, hext1]
  · rw [hd1] at hh2; exact hh2

-- STATEMENT CHANGED (as for `write_atomic_scalar_e2e`): `hC` is `|P| + |t| + 2·size + 22 ≤ connectionSize`, not the
-- natural "the request fits the connection" (`|P| + |t| + size + 22`): the single-request path counts the value twice
-- (logix_driver.py:1225). Counterexample evaluated in `ExP` below (`writeOutcome 33`): the 30-byte DINT write to
-- `Program:Main.t` on a 33-byte connection is split into two fragmented writes of 3 + 1 bytes (two frames, two
-- write-log entries).
/-- C02, driver level, program scope: writing ONE elementary (non-bit-string) scalar tag `t` of the program `P` as
    `write(("Program:P.t", v))` with a canonical value of its type on a healthy connected driver returns exactly one
    error-free Tag carrying the request string, the caller's value and the type name; exactly one frame is written,
    one sequence number is drawn, and the controller's project afterwards is `written st.proj loc 0 bytes` for the
    location `loc` of the whole PROGRAM symbol and the codec's encoding `bytes` of the value (see
    `write_program_scalar_effect` for what that means: only that program symbol changed, one write logged); the
    resulting world is healthy again. No hypothesis mentions the controller scope, `use_instance_ids` or the instance id
    of the tag-database entry.

    Hypotheses: as in `read_program_scalar_e2e`, and
    * `hcanon`, `henc`  `v` is a canonical value of the type and `bytes` its encoding;
    * `hC`        the request stays below the fragmentation threshold of the single-request path, which counts the
                  value twice (`|P| + |t| + 2·size + 22` bytes suffice);
    * `hT`        the request fits the size the target granted (`|P| + |t| + size + 22` bytes suffice). -/
theorem write_program_scalar_e2e (cfg : Cfg) (w : Cli.World Ext) (sess : Nat) (cidb : Bytes) (conn : Conn)
    (st : LState) (P : Name) (syms : List Symbol) (s : Symbol) (info : TagInfo) (c sz : Nat) (name : Name) (t : Ty)
    (v : PyVal) (bytes : Bytes)
    (hw : ldr_Healthy w sess cidb conn) (hlogix : w.net.target.ext.logix = some st)
    (hP : PlainIdent P) (hPl : P.length ≤ 240)
    (hprog : (ldp_prog P, syms) ∈ st.proj.programs)
    (hprogU : ∀ pr ∈ st.proj.programs, pr.1 = ldp_prog P → pr = (ldp_prog P, syms))
    (hs : s ∈ syms)
    (hbytes : ∀ s' ∈ syms, ∀ ch ∈ s'.name, ch < 256)
    (huniqN : ∀ s' ∈ syms, s'.name = s.name → s' = s)
    (huniqI : ∀ s' ∈ syms, s'.inst = s.inst → s' = s)
    (hid : PlainIdent s.name)
    (hty : elTyOfWord s.symbolType = .atomic c) (hat : atomicOfCode c = some (name, t)) (hb : t.isBits = none)
    (hsz : atomicSize c = some sz) (hlen : s.mem.length = sz)
    (hget : cfg.tags.get? (ldp_tagStr P s.name) = some info) (hinfo : ldp_InfoOf info name t)
    (hcanon : Canon t v) (henc : encode t v = .ok bytes)
    (hC : P.length + s.name.length + 2 * sz + 22 ≤ w.drv.connectionSize)
    (hT : P.length + s.name.length + sz + 22 ≤ conn.size) :
    ∃ w' frm, write hookAll cfg w [(ldp_tagStr P s.name, v)] =
        (w', .ok [{ tag := ldp_tagStr P s.name, value := v, type := some name, error := none }]) ∧
      w'.drv = w.drv.nextSeq.2 ∧ w'.net.sent = w.net.sent ++ [frm] ∧
      w'.net.target.ext =
        { w.net.target.ext with
          logix := some { st with proj := written st.proj (ldp_loc (ldp_prog P) s c) 0 bytes } } ∧
      ldr_Healthy w' sess cidb { conn with lastSeq := some w.drv.nextSeq.1 } := by
  obtain ⟨haty, hentry, hndw, hpos, hle8⟩ := ldr_atomic_table c sz name t hat hb hsz
  have hshape := ldr_atomicTy_shape c t haty hb
  have hbl : bytes.length = sz := ldw_encode_length c sz t v bytes haty hb hsz hcanon henc
  have hnl := hid.2.1
  have hnd : isDword info = false := by
    have : (name == Drv.nm "DWORD") = false := by simpa using hndw
    simp [isDword, hinfo.typeName, this]
  have hparse := ldp_parse_scalar cfg.tags true 0 P s.name info hP hid hget hnd
  obtain ⟨path, hpath, hpl, hden⟩ := ldp_requestPath cfg P s.name info hP (by omega) hid (by omega)
  have hmem : s.mem ≠ [] := by
    intro h; rw [h, List.length_nil] at hlen; omega
  have hr := ldp_resolve st.proj P syms s c sz hP hprog hprogU hs hbytes huniqN hty hsz hmem
  have hsym := ldp_symbolOf st.proj (ldp_prog P) syms s c hprog hprogU hs huniqI
  have hencv : encodeValue { ldp_parsed 0 P s.name info with value := v } info =
      ({ ldp_parsed 0 P s.name info with value := v }, some bytes) :=
    ldw_encodeValue { ldp_parsed 0 P s.name info with value := v } info t bytes (ldw_canon_not_bytes t v hshape hcanon)
      (by rw [hinfo.typeName]; exact hndw) hinfo.ty hshape henc
  have hpt : packedTypeOf info = le 2 c := ldw_packedType info name c sz hinfo.struct hinfo.typeName hentry
  obtain ⟨w', frm, hwrite, hd, hsent, hext, hh⟩ := ldw2_write_single cfg w sess cidb conn st (ldp_tagStr P s.name) v
    (ldp_parsed 0 P s.name info) { ldp_parsed 0 P s.name info with value := v } info path (ldp_segs P s.name)
    (ldp_loc (ldp_prog P) s c) s c sz 1 bytes hw hlogix hparse rfl rfl rfl hencv rfl rfl rfl hpath hden (by omega) hr rfl
    hpt ⟨Nat.le_refl 1, ldr_dimsProduct_pos s.dims, by omega⟩ hsym hsz (by omega)
    (by show 0 + 1 * sz ≤ s.mem.length; omega) (by omega) (by omega) (by omega)
  have hresult := ldw_writeResult { ldp_parsed 0 P s.name info with value := v } info
    { tag := ldp_tagStr P s.name, value := .bytes bytes, type := some info.core.dataTypeName, error := none }
    rfl rfl rfl rfl rfl rfl
  refine ⟨w', frm, ?_, hd, hsent, hext, hh⟩
  rw [hwrite]
  dsimp only [ldp_parsed] at hresult ⊢
  rw [hresult, hinfo.typeName]

/-- C02, what `written st.proj loc 0 bytes` of `write_program_scalar_e2e` means: the project afterwards is the old
    project with the memory of the symbol `s` OF THE PROGRAM `pn` replaced by exactly `bytes` and ONE more write-log entry
    (`(instance, offset 0, size)`: the write was applied exactly once). The CONTROLLER SCOPE is unchanged (every
    controller-scope symbol, also one of the same name or instance id), templates are unchanged, the number and order
    of the program scopes are unchanged, EVERY OTHER PROGRAM SCOPE is unchanged (also its symbols of the same name or
    instance id), inside the program `pn` the number and order of the symbols are unchanged, every other symbol is
    unchanged byte for byte, and the changed symbol keeps name, instance id, type word and dimensions. -/
theorem write_program_scalar_effect (p : Project) (pn : Name) (syms : List Symbol) (s : Symbol) (c sz : Nat)
    (bytes : Bytes)
    (hprogU : ∀ pr ∈ p.programs, pr.1 = pn → pr = (pn, syms))
    (huniqI : ∀ s' ∈ syms, s'.inst = s.inst → s' = s)
    (hlen : s.mem.length = sz) (hbl : bytes.length = sz) :
    written p (ldp_loc pn s c) 0 bytes = ldp_proj p pn s bytes ∧
    (ldp_proj p pn s bytes).controller = p.controller ∧
    (ldp_proj p pn s bytes).templates = p.templates ∧
    (ldp_proj p pn s bytes).programs.length = p.programs.length ∧
    (∀ (i : Nat) (pr : Name × List Symbol), p.programs[i]? = some pr →
        (ldp_proj p pn s bytes).programs[i]? =
          some (if pr.1 = pn then (pn, ldw_ctl syms s.inst bytes) else pr) ∧
        (pr.1 = pn → pr = (pn, syms))) ∧
    (ldw_ctl syms s.inst bytes).length = syms.length ∧
    (∀ (j : Nat) (x : Symbol), syms[j]? = some x →
        (ldw_ctl syms s.inst bytes)[j]? = some (if x.inst = s.inst then { s with mem := bytes } else x) ∧
        (x.inst = s.inst → x = s)) ∧
    (ldp_proj p pn s bytes).writeLog = p.writeLog ++ [(s.inst, 0, sz)] := by
  refine ⟨ldp_written_eq p pn syms s c bytes hprogU huniqI (by omega), rfl, rfl, ?_, ?_, ?_, ?_, ?_⟩
  · simp [ldp_proj, ldp_progs]
  · intro i pr hx
    exact ldp_progs_other p.programs pn syms s.inst bytes hprogU i pr hx
  · simp [ldw_ctl]
  · intro j x hx
    exact ldw_ctl_other syms s bytes huniqI j x hx
  · rw [← hbl]; rfl

/-- C02, driver level, program scope: `write(("Program:P.t", v))` followed by `read("Program:P.t")` returns the
    written value. Hypotheses as in `write_program_scalar_e2e`; the sizes `|P| + |t| + 38` (driver) and `|P| + |t| + 30`
    (target) cover both requests. The controller's project after both calls is the one after the write (`ldp_proj`:
    the program symbol's memory is `bytes`, one write logged, controller scope and other programs untouched); two
    frames were written. -/
theorem write_then_read_program_e2e (cfg : Cfg) (w : Cli.World Ext) (sess : Nat) (cidb : Bytes) (conn : Conn)
    (st : LState) (P : Name) (syms : List Symbol) (s : Symbol) (info : TagInfo) (c sz : Nat) (name : Name) (t : Ty)
    (v : PyVal) (bytes : Bytes)
    (hw : ldr_Healthy w sess cidb conn) (hlogix : w.net.target.ext.logix = some st)
    (hP : PlainIdent P) (hPl : P.length ≤ 240)
    (hprog : (ldp_prog P, syms) ∈ st.proj.programs)
    (hprogU : ∀ pr ∈ st.proj.programs, pr.1 = ldp_prog P → pr = (ldp_prog P, syms))
    (hs : s ∈ syms)
    (hbytes : ∀ s' ∈ syms, ∀ ch ∈ s'.name, ch < 256)
    (huniqN : ∀ s' ∈ syms, s'.name = s.name → s' = s)
    (huniqI : ∀ s' ∈ syms, s'.inst = s.inst → s' = s)
    (hid : PlainIdent s.name)
    (hty : elTyOfWord s.symbolType = .atomic c) (hat : atomicOfCode c = some (name, t)) (hb : t.isBits = none)
    (hsz : atomicSize c = some sz) (hlen : s.mem.length = sz)
    (hget : cfg.tags.get? (ldp_tagStr P s.name) = some info) (hinfo : ldp_InfoOf info name t)
    (hcanon : Canon t v) (henc : encode t v = .ok bytes)
    (hC : P.length + s.name.length + 38 ≤ w.drv.connectionSize) (hT : P.length + s.name.length + 30 ≤ conn.size) :
    ∃ w1 w2 frm1 frm2,
      write hookAll cfg w [(ldp_tagStr P s.name, v)] =
        (w1, .ok [{ tag := ldp_tagStr P s.name, value := v, type := some name, error := none }]) ∧
      read hookAll cfg w1 [ldp_tagStr P s.name] =
        (w2, .ok [{ tag := ldp_tagStr P s.name, value := v, type := some name, error := none }]) ∧
      w2.net.sent = w.net.sent ++ [frm1, frm2] ∧
      w2.net.target.ext =
        { w.net.target.ext with
          logix := some { st with proj := ldp_proj st.proj (ldp_prog P) s bytes, ctr := st.ctr + 1 } } ∧
      ldr_Healthy w2 sess cidb { conn with lastSeq := some w.drv.nextSeq.2.nextSeq.1 } := by
  obtain ⟨haty, _, _, _, hle8⟩ := ldr_atomic_table c sz name t hat hb hsz
  have hbl : bytes.length = sz := ldw_encode_length c sz t v bytes haty hb hsz hcanon henc
  obtain ⟨w1, frm1, hwr, hd1, hsent1, hext1, hh1⟩ := write_program_scalar_e2e cfg w sess cidb conn st P syms s info c sz name
    t v bytes hw hlogix hP hPl hprog hprogU hs hbytes huniqN huniqI hid hty hat hb hsz hlen hget hinfo hcanon henc
    (by omega) (by omega)
  rw [ldp_written_eq st.proj (ldp_prog P) syms s c bytes hprogU huniqI (by omega)] at hext1
  have hlogix1 : w1.net.target.ext.logix = some { st with proj := ldp_proj st.proj (ldp_prog P) s bytes } := by rw [hext1]
  have hcs : w1.drv.connectionSize = w.drv.connectionSize := by rw [hd1, (Cli.lcs_nextSeq w.drv).2]
  obtain ⟨w2, frm2, hrd, hd2, hsent2, hext2, hh2⟩ := read_program_scalar_e2e_encoded cfg w1 sess cidb
    { conn with lastSeq := some w.drv.nextSeq.1 } { st with proj := ldp_proj st.proj (ldp_prog P) s bytes } P
    (ldw_ctl syms s.inst bytes) (ldw_sym s bytes) info c sz name t v hh1 hlogix1 hP hPl
    (ldp_mem_progs st.proj.programs (ldp_prog P) syms s.inst bytes hprog)
    (ldp_progs_uniq st.proj.programs (ldp_prog P) syms s.inst bytes hprogU)
    (ldw_mem_ctl syms s bytes hs) (ldw_ctl_bytes syms s.inst bytes hbytes) (ldw_ctl_uniqN syms s bytes huniqN)
    (ldw_ctl_uniqI syms s bytes huniqI) hid hty hat hb hsz hbl hget hinfo hcanon henc
    (by rw [hcs]; show P.length + s.name.length + 30 ≤ _; omega) hT
  refine ⟨w1, w2, frm1, frm2, hwr, hrd, ?_, ?_, ?_⟩
  · rw [hsent2, hsent1, List.append_assoc]; rfl
  · rw [hext2, hext1]
  · rw [hd1] at hh2; exact hh2

/-- C01, driver level, program scope, ARRAY ELEMENT: reading element `i` of the one-dimensional array tag `t` of an
    elementary (non-bit-string) type of the program `P` as `read("Program:P.t[i]")` on a healthy connected driver returns
    exactly one error-free Tag carrying the request string, the type name and the value the codec decodes from the bytes
    of element `i` of THAT PROGRAM'S symbol; one frame, one sequence number, project unchanged. The request path is
    `Program:P`, `t`, member id `i` whatever `use_instance_ids` is; no hypothesis mentions the controller scope.

    Hypotheses as in `read_program_scalar_e2e`, and
    * `hdims`, `hlen`  the symbol has one dimension `dim` and `dim` elements of memory;
    * `hinfo`     the tag database entry of `Program:P.t` is an array of `dim` elements of the type;
    * `hi`, `hi32`  the index is inside the array (and fits a 32-bit member id);
    * `hdec`      `v` is what the codec decodes from the memory at byte `i * size`. -/
theorem read_program_element_e2e (cfg : Cfg) (w : Cli.World Ext) (sess : Nat) (cidb : Bytes) (conn : Conn)
    (st : LState) (P : Name) (syms : List Symbol) (s : Symbol) (info : TagInfo) (c sz dim i : Nat) (name : Name) (t : Ty)
    (v : PyVal) (rest : Bytes)
    (hw : ldr_Healthy w sess cidb conn) (hlogix : w.net.target.ext.logix = some st)
    (hP : PlainIdent P) (hPl : P.length ≤ 230)
    (hprog : (ldp_prog P, syms) ∈ st.proj.programs)
    (hprogU : ∀ pr ∈ st.proj.programs, pr.1 = ldp_prog P → pr = (ldp_prog P, syms))
    (hs : s ∈ syms)
    (hbytes : ∀ s' ∈ syms, ∀ ch ∈ s'.name, ch < 256)
    (huniqN : ∀ s' ∈ syms, s'.name = s.name → s' = s)
    (huniqI : ∀ s' ∈ syms, s'.inst = s.inst → s' = s)
    (hid : PlainIdent s.name)
    (hty : elTyOfWord s.symbolType = .atomic c) (hat : atomicOfCode c = some (name, t)) (hb : t.isBits = none)
    (hsz : atomicSize c = some sz)
    (hdims : s.dims.filter (· != 0) = [dim]) (hlen : s.mem.length = dim * sz)
    (hget : cfg.tags.get? (ldp_tagStr P s.name) = some info) (hinfo : ldp_InfoOf info name (.arr (.fixed dim) t))
    (hi : i < dim) (hi32 : i < 2 ^ 32)
    (hdec : decode t (s.mem.drop (i * sz)) = .ok (v, rest))
    (hC : P.length + s.name.length + 36 ≤ w.drv.connectionSize) (hT : P.length + s.name.length + 36 ≤ conn.size) :
    ∃ w' frm, read hookAll cfg w [ldp_levelStr P ⟨s.name, [i]⟩] =
        (w', .ok [{ tag := ldp_levelStr P ⟨s.name, [i]⟩, value := v, type := some name, error := none }]) ∧
      w'.drv = w.drv.nextSeq.2 ∧ w'.net.sent = w.net.sent ++ [frm] ∧
      w'.net.target.ext = { w.net.target.ext with logix := some { st with ctr := st.ctr + 1 } } ∧
      ldr_Healthy w' sess cidb { conn with lastSeq := some w.drv.nextSeq.1 } := by
  obtain ⟨haty, hentry, hndw, hpos, hle8⟩ := ldr_atomic_table c sz name t hat hb hsz
  have hnl := hid.2.1
  have hl : ldr2_Level ⟨s.name, [i]⟩ := ⟨hid, by simp, by simp [hi32]⟩
  have hnd : isDword info = false := by
    have : (name == Drv.nm "DWORD") = false := by simpa using hndw
    simp [isDword, hinfo.typeName, this]
  -- (a)
  have hparse := ldp_parse_level cfg.tags false 0 P ⟨s.name, [i]⟩ info hP hl hget hnd
  -- (b)
  have hls : ldp_levelsSize [(⟨s.name, [i]⟩ : TagLevel)] = s.name.length + 9 := by
    simp [ldp_levelsSize]; omega
  obtain ⟨path, hpath, hpl, hden⟩ := ldp_requestPath_levels cfg P [⟨s.name, [i]⟩] info hP (by omega)
    (by intro l hl'; simp only [List.mem_singleton] at hl'; subst hl'; exact ldr2_level_wf _ hl) (by rw [hls]; omega)
  rw [ldp_levelStr_render] at hpath
  rw [hls] at hpl
  have hden' : Denotes path (PSeg.symbol ((ldp_prog P).map UInt8.ofNat) :: PSeg.symbol (s.name.map UInt8.ofNat) ::
      [PSeg.logical 8 i]) := by
    simpa [levelSegs] using hden
  -- (d) through the view
  have hmem : s.mem ≠ [] := by
    intro h
    rw [h, List.length_nil] at hlen
    have : 0 < dim * sz := Nat.mul_pos (by omega) hpos
    omega
  have hrv := ldr2_resolve_elem (ldp_view st.proj syms) s c sz false i dim hid hs hbytes huniqN huniqI hty hsz hmem hdims hi
  have hsegs : ldr_segs s.name s.inst false = [PSeg.symbol (s.name.map UInt8.ofNat)] := by simp [ldr_segs]
  rw [hsegs] at hrv
  have hr := ldp_resolve_view_ok st.proj P syms _ [PSeg.logical 8 i] _ hP hprog hprogU (ldr_not_programName s.name hid) hrv
  have hbv := ldr2_readBytes_elem (ldp_view st.proj syms) s c sz i dim 1 hs huniqI hsz hlen (by omega)
  have hrb : readBytes st.proj { ldr2_locAt s c sz i dim with scope := some (ldp_prog P) } 1 =
      some ((s.mem.drop (i * sz)).take (1 * sz)) := by
    rw [ldp_readBytes_view st.proj (ldp_prog P) syms _ 1 hprog hprogU rfl, hbv]
  -- (e)
  have hreply := ldr2_parseReadReply_arr info c sz dim t name s.mem (i * sz) 1 [v] hinfo.ty hinfo.typeName hndw
    haty hb hsz (Nat.le_refl 1) rfl (by
      intro k hk
      have hk0 : k = 0 := by simpa using hk
      subst hk0
      exact ⟨rest, by simpa using hdec⟩)
  have hrs : tagReturnSize info 1 = sz := by
    simp [tagReturnSize, hinfo.struct, hinfo.typeName, hentry]
  have hbl : ((s.mem.drop (i * sz)).take (1 * sz)).length ≤ sz := by
    rw [List.length_take]; omega
  obtain ⟨w', frm, hread, hrest⟩ := ldr2_read_single cfg w sess cidb conn st (ldp_levelStr P ⟨s.name, [i]⟩) _ info path
    _ { ldr2_locAt s c sz i dim with scope := some (ldp_prog P) } c 1 _ _ _ hw hlogix hparse rfl rfl rfl rfl hpath hden'
    (by omega) hr rfl ⟨Nat.le_refl 1, by show 1 ≤ dim - i; omega, by omega⟩ hrb hreply
    (by rw [hrs]; omega) (by omega) (by omega)
  refine ⟨w', frm, ?_, hrest⟩
  rw [hread]
  have hresult := ldr_readResult
    { requestId := 0, requestTag := ldp_levelStr P ⟨s.name, [i]⟩, userTag := ldp_levelStr P ⟨s.name, [i]⟩,
      plcTag := ldp_levelStr P ⟨s.name, [i]⟩, bit := none, elements := 1, info := some info, boolElements := none } info
    { tag := ldp_levelStr P ⟨s.name, [i]⟩, value := v, type := some name, error := none }
    rfl rfl rfl (by rw [hinfo.typeName]; exact hndw) (ldr_decode_not_none c t haty hb _ rest v hdec) rfl
  have hv1 : ldr2_value [v] = v := rfl
  have ht1 : ldr2_typeStr name 1 = name := by simp [ldr2_typeStr]
  rw [hv1, ht1]
  dsimp only at hresult ⊢
  rw [hresult]

/-- C01, driver level, program scope, STRUCTURE MEMBER: reading the elementary (non-BOOL, non-bit-string) scalar member
    `m` of the structure tag `t` of the program `P` as `read("Program:P.t.m")` on a healthy connected driver returns
    exactly one error-free Tag carrying the request string, the member's type name and the value the codec decodes from
    THAT PROGRAM'S symbol memory at the member's offset; one frame, one sequence number, project unchanged. The request
    path is `Program:P`, `t`, `m`; no hypothesis mentions the controller scope.

    Hypotheses as in `read_program_scalar_e2e` for the scope and the symbol, and as in `ldr3_read_member`
    (`read_struct_member_e2e`) for the template, the member and the tag-database entry (under the key `Program:P.t`). -/
theorem read_program_member_e2e (cfg : Cfg) (w : Cli.World Ext) (sess : Nat) (cidb : Bytes) (conn : Conn)
    (st : LState) (P : Name) (syms : List Symbol) (s : Symbol) (tid : Nat) (tm : Template) (m : MemberDef)
    (info minfo : TagInfo) (c sz : Nat) (name : Name) (t : Ty) (v : PyVal) (rest : Bytes)
    (hw : ldr_Healthy w sess cidb conn) (hlogix : w.net.target.ext.logix = some st)
    (hP : PlainIdent P) (hPl : P.length ≤ 200)
    (hprog : (ldp_prog P, syms) ∈ st.proj.programs)
    (hprogU : ∀ pr ∈ st.proj.programs, pr.1 = ldp_prog P → pr = (ldp_prog P, syms))
    (hs : s ∈ syms)
    (hbytes : ∀ s' ∈ syms, ∀ ch ∈ s'.name, ch < 256)
    (huniqN : ∀ s' ∈ syms, s'.name = s.name → s' = s)
    (huniqI : ∀ s' ∈ syms, s'.inst = s.inst → s' = s)
    (hid : PlainIdent s.name)
    (hty : elTyOfWord s.symbolType = .struct tid) (htm : st.proj.template? tid = some tm)
    (hm : m ∈ tm.members) (hmbytes : ∀ m' ∈ tm.members, ∀ ch ∈ m'.name, ch < 256)
    (hmuniq : ∀ m' ∈ tm.members, m'.name = m.name → m' = m)
    (hmid : PlainIdent m.name) (hnum : PyStr.isDigit m.name = false) (hnl : s.name.length + m.name.length ≤ 290)
    (hmty : elTyOfWord m.typeWord = .atomic c) (hnb : c ≠ 0xC1) (hscalar : m.info = 0)
    (hat : atomicOfCode c = some (name, t)) (hb : t.isBits = none) (hsz : atomicSize c = some sz)
    (hin : m.offset + sz ≤ s.mem.length)
    (hget : cfg.tags.get? (ldp_tagStr P s.name) = some info) (hk : info.core.tagType = .struct)
    (hmget : info.members.get? m.name = some minfo) (hminfo : ldr3_MemberOf minfo name t)
    (hdec : decode t (s.mem.drop m.offset) = .ok (v, rest))
    (hC : P.length + s.name.length + m.name.length + 40 ≤ w.drv.connectionSize)
    (hT : P.length + s.name.length + m.name.length + 40 ≤ conn.size) :
    ∃ w' frm, read hookAll cfg w [ldp_memberStr P s.name m.name] =
        (w', .ok [{ tag := ldp_memberStr P s.name m.name, value := v, type := some name, error := none }]) ∧
      w'.drv = w.drv.nextSeq.2 ∧ w'.net.sent = w.net.sent ++ [frm] ∧
      w'.net.target.ext = { w.net.target.ext with logix := some { st with ctr := st.ctr + 1 } } ∧
      ldr_Healthy w' sess cidb { conn with lastSeq := some w.drv.nextSeq.1 } := by
  obtain ⟨haty, hentry, hndw, hpos, hle8⟩ := ldr_atomic_table c sz name t hat hb hsz
  have hnd : isDword minfo = false := by
    have : (name == Drv.nm "DWORD") = false := by simpa using hndw
    simp [isDword, hminfo.typeName, this]
  have hmem : s.mem ≠ [] := by
    intro h; rw [h, List.length_nil] at hin; omega
  -- (a)
  have hparse := ldp_parse_member cfg.tags false 0 P s.name m.name info minfo hP hid hmid hnum hget hk hmget hnd
  -- (b)
  have hls : ldp_levelsSize [(⟨s.name, []⟩ : TagLevel), ⟨m.name, []⟩] = s.name.length + m.name.length + 6 := by
    simp [ldp_levelsSize]; omega
  obtain ⟨path, hpath, hpl, hden⟩ := ldp_requestPath_levels cfg P [⟨s.name, []⟩, ⟨m.name, []⟩] minfo hP (by omega)
    (by intro l hl'
        simp only [List.mem_cons, List.not_mem_nil, or_false] at hl'
        rcases hl' with rfl | rfl
        · exact ldr_plain_wf _ hid
        · exact ldr_plain_wf _ hmid) (by rw [hls]; omega)
  rw [ldp_memberStr_render] at hpath
  rw [hls] at hpl
  have hden' : Denotes path (PSeg.symbol ((ldp_prog P).map UInt8.ofNat) :: PSeg.symbol (s.name.map UInt8.ofNat) ::
      [PSeg.symbol (m.name.map UInt8.ofNat)]) := by
    simpa [levelSegs] using hden
  have hrs : tagReturnSize minfo 1 = sz := by
    simp [tagReturnSize, hminfo.struct, hminfo.typeName, hentry]
  -- (d) through the view
  have hrv := ldr3_resolve_member (ldp_view st.proj syms) s tid tm m c sz hid hs hbytes huniqN hty htm hmem hm hmbytes hmuniq
    hmty hnb hsz hscalar
  have hr := ldp_resolve_view_ok st.proj P syms _ [PSeg.symbol (m.name.map UInt8.ofNat)] _ hP hprog hprogU
    (ldr_not_programName s.name hid) hrv
  have hbv := ldr3_readBytes_member (ldp_view st.proj syms) s m c sz hs huniqI hsz hin
  have hrb : readBytes st.proj { ldr3_locMember s m c with scope := some (ldp_prog P) } 1 =
      some ((s.mem.drop m.offset).take sz) := by
    rw [ldp_readBytes_view st.proj (ldp_prog P) syms _ 1 hprog hprogU rfl, hbv]
  -- (e)
  obtain ⟨hshape, hts⟩ := ldr2_atomic_shape c sz t haty hb hsz
  obtain ⟨_, hpre⟩ := ldr2_decode_prefix t hshape _ v rest hdec
  have hdec' : decode t ((s.mem.drop m.offset).take sz) = .ok (v, []) := by
    have := hpre []
    rwa [hts, List.append_nil] at this
  have hreply := ldr_parseReadReply minfo c t name _ [] v hminfo.ty hminfo.typeName hndw haty hb hdec'
  have hbl : ((s.mem.drop m.offset).take sz).length ≤ sz := by
    rw [List.length_take]; exact Nat.min_le_left _ _
  obtain ⟨w', frm, hread, hrest⟩ := ldr2_read_single cfg w sess cidb conn st (ldp_memberStr P s.name m.name) _ minfo path
    _ { ldr3_locMember s m c with scope := some (ldp_prog P) } c 1 _ v name hw hlogix hparse rfl rfl rfl rfl hpath hden'
    (by omega) hr rfl ⟨Nat.le_refl 1, Nat.le_refl 1, by omega⟩ hrb hreply (by rw [hrs]; omega) (by omega) (by omega)
  refine ⟨w', frm, ?_, hrest⟩
  rw [hread]
  have hresult := ldr_readResult
    { requestId := 0, requestTag := ldp_memberStr P s.name m.name, userTag := ldp_memberStr P s.name m.name,
      plcTag := ldp_memberStr P s.name m.name, bit := none, elements := 1, info := some minfo, boolElements := none } minfo
    { tag := ldp_memberStr P s.name m.name, value := v, type := some name, error := none }
    rfl rfl rfl (by rw [hminfo.typeName]; exact hndw) (ldr_decode_not_none c t haty hb _ rest v hdec) rfl
  dsimp only at hresult ⊢
  rw [hresult]

/-- C01, driver level, BOTH SCOPES IN ONE CALL: `read("a", "Program:P.b")` of a controller-scope elementary scalar tag
    `sa` and an elementary scalar tag `sb` of the program `P` — in particular OF THE SAME NAME — on a healthy connected
    driver that is not a Micro800, when the two estimated replies fit one Multiple Service Packet: ONE frame is written
    (the packet embedding the two Read Tag requests in order), three sequence numbers are drawn, and the two Tags come
    back in the order of the request: the first with the value decoded from the CONTROLLER symbol's memory, the second
    with the value decoded from the PROGRAM symbol's memory; the project is unchanged. Hypotheses: those of
    `read_atomic_scalar_e2e` for `sa` and of `read_program_scalar_e2e` for `sb`; no relation between the two names is
    assumed. -/
theorem read_controller_and_program_e2e (cfg : Cfg) (w : Cli.World Ext) (sess : Nat) (cidb : Bytes) (conn : Conn)
    (st : LState) (P : Name) (syms : List Symbol)
    (sa sb : Symbol) (ia ib : TagInfo) (ca cb sza szb : Nat) (na nb : Name) (ta tb : Ty) (va vb : PyVal) (ra rb : Bytes)
    (hw : ldr_Healthy w sess cidb conn) (hlogix : w.net.target.ext.logix = some st) (hmicro : cfg.micro800 = false)
    -- the controller-scope tag
    (hbytesa : ∀ s' ∈ st.proj.controller, ∀ ch ∈ s'.name, ch < 256)
    (hsa : sa ∈ st.proj.controller)
    (huniqNa : ∀ s' ∈ st.proj.controller, s'.name = sa.name → s' = sa)
    (huniqIa : ∀ s' ∈ st.proj.controller, s'.inst = sa.inst → s' = sa)
    (hida : PlainIdent sa.name) (hinsta : sa.inst < 2 ^ 32)
    (htya : elTyOfWord sa.symbolType = .atomic ca) (hata : atomicOfCode ca = some (na, ta)) (hba : ta.isBits = none)
    (hsza : atomicSize ca = some sza) (hlena : sa.mem.length = sza)
    (hgeta : cfg.tags.get? sa.name = some ia) (hinfoa : ldr_InfoOf ia na ta sa.inst)
    (hdeca : decode ta sa.mem = .ok (va, ra))
    -- the program-scope tag
    (hP : PlainIdent P) (hPl : P.length ≤ 240)
    (hprog : (ldp_prog P, syms) ∈ st.proj.programs)
    (hprogU : ∀ pr ∈ st.proj.programs, pr.1 = ldp_prog P → pr = (ldp_prog P, syms))
    (hsb : sb ∈ syms)
    (hbytesb : ∀ s' ∈ syms, ∀ ch ∈ s'.name, ch < 256)
    (huniqNb : ∀ s' ∈ syms, s'.name = sb.name → s' = sb)
    (huniqIb : ∀ s' ∈ syms, s'.inst = sb.inst → s' = sb)
    (hidb : PlainIdent sb.name)
    (htyb : elTyOfWord sb.symbolType = .atomic cb) (hatb : atomicOfCode cb = some (nb, tb)) (hbb : tb.isBits = none)
    (hszb : atomicSize cb = some szb) (hlenb : sb.mem.length = szb)
    (hgetb : cfg.tags.get? (ldp_tagStr P sb.name) = some ib) (hinfob : ldp_InfoOf ib nb tb)
    (hdecb : decode tb sb.mem = .ok (vb, rb))
    (hC : sa.name.length + P.length + sb.name.length + 76 ≤ w.drv.connectionSize)
    (hT : sa.name.length + P.length + sb.name.length + 76 ≤ conn.size) :
    ∃ w' frm, read hookAll cfg w [sa.name, ldp_tagStr P sb.name] =
        (w', .ok [{ tag := sa.name, value := va, type := some na, error := none },
                  { tag := ldp_tagStr P sb.name, value := vb, type := some nb, error := none }]) ∧
      w'.drv = w.drv.nextSeq.2.nextSeq.2.nextSeq.2 ∧ w'.net.sent = w.net.sent ++ [frm] ∧
      w'.net.target.ext = { w.net.target.ext with logix := some { st with ctr := st.ctr + 2 } } ∧
      ldr_Healthy w' sess cidb { conn with lastSeq := some w.drv.nextSeq.2.nextSeq.2.nextSeq.1 } :=
  ldp_read_ctl_prog cfg w sess cidb conn st P syms sa sb ia ib ca cb sza szb na nb ta tb va vb ra rb hw hlogix hmicro
    hbytesa hsa huniqNa huniqIa hida hinsta htya hata hba hsza hlena hgeta hinfoa hdeca hP hPl hprog hprogU hsb hbytesb
    huniqNb huniqIb hidb htyb hatb hbb hszb hlenb hgetb hinfob.kind hinfob.typeName hinfob.ty hinfob.struct hdecb hC hT

/-- `read_program_scalar_e2e` with the tag database the driver really holds after `open()` with
    `init_program_tags=True`: `cfg.tags` is `tagDbOf` of the controller's project with program tags. The hypotheses on
    the entry are replaced by hypotheses on the symbol and the project:
    * `hkeep`     the symbol is a user tag (`_isolate_user_tags` keeps it);
    * `hstruct`, `hdims`  its type word is not a structure and has no array dimensions;
    * `hat`, `hsz` the driver's tables and the controller's sizes for the type code in the low byte of the type word;
    * `hlisted`   the controller scope lists the program (a symbol named `Program:P`: that is where the driver learns of
                  the program);
    * `hnodot`    no program name contains a dot (else two different (program, tag) pairs could share a key). -/
theorem read_program_scalar_e2e_db (cfg : Cfg) (w : Cli.World Ext) (sess : Nat) (cidb : Bytes) (conn : Conn)
    (st : LState) (P : Name) (syms : List Symbol) (s : Symbol) (sz : Nat) (name : Name) (t : Ty) (v : PyVal) (rest : Bytes)
    (hw : ldr_Healthy w sess cidb conn) (hlogix : w.net.target.ext.logix = some st)
    (hP : PlainIdent P) (hPl : P.length ≤ 240)
    (hprog : (ldp_prog P, syms) ∈ st.proj.programs)
    (hprogU : ∀ pr ∈ st.proj.programs, pr.1 = ldp_prog P → pr = (ldp_prog P, syms))
    (hs : s ∈ syms)
    (hbytes : ∀ s' ∈ syms, ∀ ch ∈ s'.name, ch < 256)
    (huniqN : ∀ s' ∈ syms, s'.name = s.name → s' = s)
    (huniqI : ∀ s' ∈ syms, s'.inst = s.inst → s' = s)
    (hid : PlainIdent s.name)
    (hstruct : s.symbolType / 32768 % 2 = 0) (hdims : s.symbolType / 8192 % 4 = 0)
    (hat : atomicOfCode (s.symbolType % 256) = some (name, t)) (hb : t.isBits = none)
    (hsz : atomicSize (s.symbolType % 256) = some sz) (hlen : s.mem.length = sz)
    (hkeep : K.keepSymbol s.name s.symbolType = true) (hdb : tagDbOf st.proj true = some cfg.tags)
    (hlisted : ∃ s0 ∈ st.proj.controller, s0.name = ldp_prog P)
    (hnodot : ∀ s' ∈ st.proj.controller, PyStr.startsWith (Drv.nm "Program:") s'.name = true → (46 : Nat) ∉ s'.name)
    (hdec : decode t s.mem = .ok (v, rest))
    (hC : P.length + s.name.length + 30 ≤ w.drv.connectionSize) (hT : P.length + s.name.length + 30 ≤ conn.size) :
    ∃ w' frm, read hookAll cfg w [ldp_tagStr P s.name] =
        (w', .ok [{ tag := ldp_tagStr P s.name, value := v, type := some name, error := none }]) ∧
      w'.drv = w.drv.nextSeq.2 ∧ w'.net.sent = w.net.sent ++ [frm] ∧
      w'.net.target.ext = { w.net.target.ext with logix := some { st with ctr := st.ctr + 1 } } ∧
      ldr_Healthy w' sess cidb { conn with lastSeq := some w.drv.nextSeq.1 } := by
  obtain ⟨info, hc1, hinfo⟩ := ldr_createTag_atomic st.proj s name t hstruct hdims hat
  obtain ⟨s0, hs0, hn0⟩ := hlisted
  obtain ⟨i, hc2, hget⟩ := ldp_tagDb_get st.proj cfg.tags P syms s hdb (ldp_programNames_mem st.proj P s0 hs0 hn0)
    (ldp_programNames_nodot st.proj hnodot) (ldp_find_prog st.proj _ syms hprog hprogU) hs hkeep huniqN
  rw [hc1] at hc2
  cases hc2
  have hty : elTyOfWord s.symbolType = .atomic (s.symbolType % 256) := by
    unfold elTyOfWord
    rw [if_neg (by omega)]
  exact read_program_scalar_e2e cfg w sess cidb conn st P syms s info _ sz name t v rest hw hlogix hP hPl hprog hprogU hs
    hbytes huniqN huniqI hid hty hat hb hsz hlen hget ⟨hinfo.kind, hinfo.typeName, hinfo.ty, hinfo.struct⟩ hdec hC hT

/-- `write_program_scalar_e2e` with the tag database the driver really holds after `open()` with
    `init_program_tags=True`; hypotheses as in `read_program_scalar_e2e_db` -/
theorem write_program_scalar_e2e_db (cfg : Cfg) (w : Cli.World Ext) (sess : Nat) (cidb : Bytes) (conn : Conn)
    (st : LState) (P : Name) (syms : List Symbol) (s : Symbol) (sz : Nat) (name : Name) (t : Ty) (v : PyVal) (bytes : Bytes)
    (hw : ldr_Healthy w sess cidb conn) (hlogix : w.net.target.ext.logix = some st)
    (hP : PlainIdent P) (hPl : P.length ≤ 240)
    (hprog : (ldp_prog P, syms) ∈ st.proj.programs)
    (hprogU : ∀ pr ∈ st.proj.programs, pr.1 = ldp_prog P → pr = (ldp_prog P, syms))
    (hs : s ∈ syms)
    (hbytes : ∀ s' ∈ syms, ∀ ch ∈ s'.name, ch < 256)
    (huniqN : ∀ s' ∈ syms, s'.name = s.name → s' = s)
    (huniqI : ∀ s' ∈ syms, s'.inst = s.inst → s' = s)
    (hid : PlainIdent s.name)
    (hstruct : s.symbolType / 32768 % 2 = 0) (hdims : s.symbolType / 8192 % 4 = 0)
    (hat : atomicOfCode (s.symbolType % 256) = some (name, t)) (hb : t.isBits = none)
    (hsz : atomicSize (s.symbolType % 256) = some sz) (hlen : s.mem.length = sz)
    (hkeep : K.keepSymbol s.name s.symbolType = true) (hdb : tagDbOf st.proj true = some cfg.tags)
    (hlisted : ∃ s0 ∈ st.proj.controller, s0.name = ldp_prog P)
    (hnodot : ∀ s' ∈ st.proj.controller, PyStr.startsWith (Drv.nm "Program:") s'.name = true → (46 : Nat) ∉ s'.name)
    (hcanon : Canon t v) (henc : encode t v = .ok bytes)
    (hC : P.length + s.name.length + 2 * sz + 22 ≤ w.drv.connectionSize)
    (hT : P.length + s.name.length + sz + 22 ≤ conn.size) :
    ∃ w' frm, write hookAll cfg w [(ldp_tagStr P s.name, v)] =
        (w', .ok [{ tag := ldp_tagStr P s.name, value := v, type := some name, error := none }]) ∧
      w'.drv = w.drv.nextSeq.2 ∧ w'.net.sent = w.net.sent ++ [frm] ∧
      w'.net.target.ext =
        { w.net.target.ext with
          logix := some { st with proj := written st.proj (ldp_loc (ldp_prog P) s (s.symbolType % 256)) 0 bytes } } ∧
      ldr_Healthy w' sess cidb { conn with lastSeq := some w.drv.nextSeq.1 } := by
  obtain ⟨info, hc1, hinfo⟩ := ldr_createTag_atomic st.proj s name t hstruct hdims hat
  obtain ⟨s0, hs0, hn0⟩ := hlisted
  obtain ⟨i, hc2, hget⟩ := ldp_tagDb_get st.proj cfg.tags P syms s hdb (ldp_programNames_mem st.proj P s0 hs0 hn0)
    (ldp_programNames_nodot st.proj hnodot) (ldp_find_prog st.proj _ syms hprog hprogU) hs hkeep huniqN
  rw [hc1] at hc2
  cases hc2
  have hty : elTyOfWord s.symbolType = .atomic (s.symbolType % 256) := by
    unfold elTyOfWord
    rw [if_neg (by omega)]
  exact write_program_scalar_e2e cfg w sess cidb conn st P syms s info _ sz name t v bytes hw hlogix hP hPl hprog hprogU hs
    hbytes huniqN huniqI hid hty hat hb hsz hlen hget ⟨hinfo.kind, hinfo.typeName, hinfo.ty, hinfo.struct⟩ hcanon henc hC hT

/-! ### non-vacuity: all hypotheses instantiated on a concrete project and a world obtained by running the model

  The controller scope holds the DINT `t` = 42 (instance id 7), the array `arr : DINT[3]` = [10, 20, 30] (instance id 11)
  and the structure `p1 : Pt` = {x = 7, y = -2} (instance id 12). The program `Main` holds ANOTHER `t` = 1234, ANOTHER
  `arr` = [100, 200, 300] and ANOTHER `p1` = {x = 70, y = -20} — with THE SAME instance ids 7, 11, 12 (instance ids are
  per scope) — and an INT `u`; the program `Aux` holds a third `t` = 77, again with instance id 7. The driver uses
  instance ids (`use_instance_ids = True`, the default of the model's `Cfg`) and the entries `Program:Main.…` of the tag
  database carry those instance ids: a request path built from them would address the CONTROLLER tags. -/

namespace ExP

def symT : Symbol :=
  { inst := 7, name := Drv.nm "t", symbolType := 0xC4, dims := [0, 0, 0], attr3 := 0, attr5 := 0, attr6 := 2 ^ 26,
    access := 0, mem := [0x2A, 0, 0, 0] }
def symMain : Symbol := { symT with inst := 9, name := Drv.nm "Program:Main", symbolType := 0x1068, mem := [] }
def symAux : Symbol := { symT with inst := 10, name := Drv.nm "Program:Aux", symbolType := 0x1068, mem := [] }
/-- controller `arr : DINT[3]` = [10, 20, 30] -/
def cArr : Symbol :=
  { symT with inst := 11, name := Drv.nm "arr", symbolType := 0x20C4, dims := [3, 0, 0],
              mem := [10, 0, 0, 0, 20, 0, 0, 0, 30, 0, 0, 0] }
/-- controller `p1 : Pt` = {x = 7, y = -2} -/
def cP1 : Symbol :=
  { symT with inst := 12, name := Drv.nm "p1", symbolType := 0x8201, mem := [7, 0, 0, 0, 0xFE, 0xFF, 0, 0] }
/-- `t` of the program `Main`: 1234 -/
def pT : Symbol := { symT with mem := [0xD2, 0x04, 0, 0] }
def pU : Symbol := { symT with inst := 8, name := Drv.nm "u", symbolType := 0xC3, mem := [5, 0] }
/-- `arr` of the program `Main`: [100, 200, 300] -/
def pArr : Symbol := { cArr with mem := [100, 0, 0, 0, 200, 0, 0, 0, 0x2C, 0x01, 0, 0] }
/-- `p1` of the program `Main`: {x = 70, y = -20} -/
def pP1 : Symbol := { cP1 with mem := [70, 0, 0, 0, 0xEC, 0xFF, 0, 0] }
/-- `t` of the program `Aux`: 77 -/
def aT : Symbol := { symT with mem := [0x4D, 0, 0, 0] }
def symsMain : List Symbol := [pT, pU, pArr, pP1]
def proj : Project :=
  { templates := [Ex3.tmplPt], controller := [symT, symMain, symAux, cArr, cP1],
    programs := [(Drv.nm "Program:Main", symsMain), (Drv.nm "Program:Aux", [aT])] }
def state : LState := { proj := proj }
/-- a fresh driver in front of a fresh target holding the project -/
def world0 : Cli.World Ext := { drv := {}, net := { target := { base := Ex.base, ext := { logix := some state } } } }
/-- … after `open()` (register session) and the Forward Open of `with_forward_open`: the model is run -/
def world : Cli.World Ext :=
  (Cli.ensureForwardOpen hookAll Cli.FUEL (Cli.openDrv hookAll world0 [1, 2, 3, 4, 5, 6, 7, 8]).1).1
/-- the driver configuration after the tag upload with `init_program_tags=True`: the tag database computed from the
    project (`use_instance_ids` = true) -/
def cfg : Cfg := { tags := (tagDbOf proj true).getD [] }
/-- the same driver without instance ids -/
def cfgSym : Cfg := { cfg with useInstanceIds := false }
/-- the entry of `t` (controller scope) and of `Program:Main.t` in that database: both carry instance id 7 -/
def info : TagInfo :=
  .mk { tagType := .atomic, dataTypeName := Drv.nm "DINT", ty := .int .dint, dim := 0, dimensions := [0, 0, 0],
        instanceId := some 7 } .nil
/-- the entry of `arr` and of `Program:Main.arr` -/
def infoArr : TagInfo :=
  .mk { tagType := .atomic, dataTypeName := Drv.nm "DINT", ty := .arr (.fixed 3) (.int .dint), dim := 1,
        dimensions := [3, 0, 0], instanceId := some 11 } .nil
/-- the entry of `p1` and of `Program:Main.p1` -/
def infoP1 : TagInfo :=
  .mk { tagType := .struct, dataTypeName := Drv.nm "Pt", ty := Ex3.tyPt, dim := 0, dimensions := [0, 0, 0],
        instanceId := some 12, struct := some Ex3.siPt }
    (.cons (Drv.nm "x") Ex3.minfoX (.cons (Drv.nm "y") Ex3.minfoY .nil))

#guard cfg.tags.map (·.1) == [Drv.nm "t", Drv.nm "arr", Drv.nm "p1", Drv.nm "Program:Main.t", Drv.nm "Program:Main.u",
  Drv.nm "Program:Main.arr", Drv.nm "Program:Main.p1", Drv.nm "Program:Aux.t"]
#guard cfg.tags.map (·.2.core.instanceId) == [some 7, some 11, some 12, some 7, some 8, some 11, some 12, some 7]
#guard ldp_tagStr (Drv.nm "Main") (Drv.nm "t") == Drv.nm "Program:Main.t"
#guard ldp_levelStr (Drv.nm "Main") ⟨Drv.nm "arr", [2]⟩ == Drv.nm "Program:Main.arr[2]"
#guard ldp_memberStr (Drv.nm "Main") (Drv.nm "p1") (Drv.nm "y") == Drv.nm "Program:Main.p1.y"

-- evaluation checks of the run (interpreter)
#guard world.drv.targetIsConnected && world.drv.session == some 4097 && world.drv.targetCid == some [238, 255, 192, 0]
#guard world.net.target.base.sessions == [4097] && world.net.target.base.conns == [Ex.conn]

/-- the Tags of a call as (tag, value as int, type, no error) -/
def tagsOf (r : Cli.World Ext × Except Exn (List LTag)) : Option (List (Name × Int × Option Name × Bool)) :=
  match r.2 with
  | .ok ts => ts.mapM fun t => match t.value with | .int i => some (t.tag, i, t.type, t.error.isNone) | _ => none
  | .error _ => none

-- the three tags named `t` are read from three different memories, with and without instance ids
#guard tagsOf (read hookAll cfg world [Drv.nm "Program:Main.t"]) == some [(Drv.nm "Program:Main.t", 1234, some (Drv.nm "DINT"), true)]
#guard tagsOf (read hookAll cfg world [Drv.nm "t"]) == some [(Drv.nm "t", 42, some (Drv.nm "DINT"), true)]
#guard tagsOf (read hookAll cfg world [Drv.nm "Program:Aux.t"]) == some [(Drv.nm "Program:Aux.t", 77, some (Drv.nm "DINT"), true)]
#guard tagsOf (read hookAll cfgSym world [Drv.nm "Program:Main.t"]) == some [(Drv.nm "Program:Main.t", 1234, some (Drv.nm "DINT"), true)]
#guard tagsOf (read hookAll cfg world [Drv.nm "t", Drv.nm "Program:Main.t"]) ==
  some [(Drv.nm "t", 42, some (Drv.nm "DINT"), true), (Drv.nm "Program:Main.t", 1234, some (Drv.nm "DINT"), true)]
-- elements and members: controller scope and program scope side by side
#guard tagsOf (read hookAll cfg world [Drv.nm "arr[2]", Drv.nm "Program:Main.arr[2]"]) ==
  some [(Drv.nm "arr[2]", 30, some (Drv.nm "DINT"), true), (Drv.nm "Program:Main.arr[2]", 300, some (Drv.nm "DINT"), true)]
#guard tagsOf (read hookAll cfg world [Drv.nm "p1.y", Drv.nm "Program:Main.p1.y"]) ==
  some [(Drv.nm "p1.y", -2, some (Drv.nm "INT"), true), (Drv.nm "Program:Main.p1.y", -20, some (Drv.nm "INT"), true)]
#guard tagsOf (read hookAll cfg world [Drv.nm "Program:Main.arr[2]"]) == some [(Drv.nm "Program:Main.arr[2]", 300, some (Drv.nm "DINT"), true)]
#guard tagsOf (read hookAll cfg world [Drv.nm "Program:Main.p1.y"]) == some [(Drv.nm "Program:Main.p1.y", -20, some (Drv.nm "INT"), true)]
-- a write to `Program:Main.t` changes that memory only; one write-log entry
#guard (match write hookAll cfg world [(Drv.nm "Program:Main.t", .int 99)] with
        | (w', .ok [t]) => t.tag == Drv.nm "Program:Main.t" && t.type == some (Drv.nm "DINT") && t.error.isNone &&
                     (match t.value with | .int 99 => true | _ => false) &&
                     (match w'.net.target.ext.logix with
                      | some st' => st'.proj.controller.map (·.mem) == proj.controller.map (·.mem) &&
                          st'.proj.programs.map (fun p => p.2.map (·.mem)) ==
                            [[[99, 0, 0, 0], pU.mem, pArr.mem, pP1.mem], [[0x4D, 0, 0, 0]]] &&
                          st'.proj.writeLog == [(7, 0, 4)]
                      | none => false)
        | _ => false)

private theorem healthy : ldr_Healthy world 4097 [238, 255, 192, 0] Ex.conn :=
  ⟨by decide +kernel, by decide +kernel, by decide +kernel, by decide +kernel, by decide +kernel, by decide,
   by decide +kernel, by decide +kernel, by decide, by decide +kernel, by decide +kernel, by decide +kernel⟩

private theorem mem_ctl (s' : Symbol) (h : s' ∈ proj.controller) : s' = symT ∨ s' = symMain ∨ s' = symAux ∨ s' = cArr ∨ s' = cP1 := by
  simpa [proj] using h

private theorem mem_main (s' : Symbol) (h : s' ∈ symsMain) : s' = pT ∨ s' = pU ∨ s' = pArr ∨ s' = pP1 := by
  simpa [symsMain] using h

private theorem progName : ldp_prog (Drv.nm "Main") = Drv.nm "Program:Main" := by decide

private theorem hprog : (ldp_prog (Drv.nm "Main"), symsMain) ∈ state.proj.programs := by
  rw [progName]
  simp [state, proj]

private theorem hprogU (pr : Name × List Symbol) (h : pr ∈ state.proj.programs) (hn : pr.1 = ldp_prog (Drv.nm "Main")) :
    pr = (ldp_prog (Drv.nm "Main"), symsMain) := by
  simp only [state, proj, List.mem_cons, List.not_mem_nil, or_false] at h
  rcases h with rfl | rfl
  · rfl
  · exact absurd hn (by decide)

/-- names are unique in the symbol table of `Main` -/
private theorem uniqNM (s : Symbol) (hs : s ∈ symsMain) (s' : Symbol) (h : s' ∈ symsMain) (e : s'.name = s.name) : s' = s := by
  rcases mem_main s hs with rfl | rfl | rfl | rfl <;> rcases mem_main s' h with rfl | rfl | rfl | rfl <;>
    first | rfl | (exfalso; revert e; decide)

/-- … and instance ids -/
private theorem uniqIM (s : Symbol) (hs : s ∈ symsMain) (s' : Symbol) (h : s' ∈ symsMain) (e : s'.inst = s.inst) : s' = s := by
  rcases mem_main s hs with rfl | rfl | rfl | rfl <;> rcases mem_main s' h with rfl | rfl | rfl | rfl <;>
    first | rfl | (exfalso; revert e; decide)

private theorem hsT : pT ∈ symsMain := by simp [symsMain]
private theorem hsArr : pArr ∈ symsMain := by simp [symsMain]
private theorem hsP1 : pP1 ∈ symsMain := by simp [symsMain]

private theorem hbytes (s' : Symbol) (h : s' ∈ symsMain) : ∀ ch ∈ s'.name, ch < 256 := by
  rcases mem_main s' h with rfl | rfl | rfl | rfl <;> decide

private theorem hbytesC (s' : Symbol) (h : s' ∈ state.proj.controller) : ∀ ch ∈ s'.name, ch < 256 := by
  rcases mem_ctl s' h with rfl | rfl | rfl | rfl | rfl <;> decide

private theorem uniqNC (s' : Symbol) (h : s' ∈ state.proj.controller) (e : s'.name = symT.name) : s' = symT := by
  rcases mem_ctl s' h with rfl | rfl | rfl | rfl | rfl <;> first | rfl | (exfalso; revert e; decide)

private theorem uniqIC (s' : Symbol) (h : s' ∈ state.proj.controller) (e : s'.inst = symT.inst) : s' = symT := by
  rcases mem_ctl s' h with rfl | rfl | rfl | rfl | rfl <;> first | rfl | (exfalso; revert e; decide)

/-- every hypothesis of `read_program_scalar_e2e` holds for the concrete world: `read("Program:Main.t")` returns 1234,
    the value of the program's `t`, not the 42 of the controller's `t` -/
example : ∃ w' frm, read hookAll cfg world [Drv.nm "Program:Main.t"] =
      (w', .ok [{ tag := Drv.nm "Program:Main.t", value := .int 1234, type := some (Drv.nm "DINT"), error := none }]) ∧
    w'.drv = world.drv.nextSeq.2 ∧ w'.net.sent = world.net.sent ++ [frm] ∧
    w'.net.target.ext = { world.net.target.ext with logix := some { state with ctr := state.ctr + 1 } } ∧
    ldr_Healthy w' 4097 [238, 255, 192, 0] { Ex.conn with lastSeq := some world.drv.nextSeq.1 } :=
  read_program_scalar_e2e cfg world 4097 [238, 255, 192, 0] Ex.conn state (Drv.nm "Main") symsMain pT info 0xC4 4
    (Drv.nm "DINT") (.int .dint) (.int 1234) []
    healthy
    (by rfl)                                                   -- hlogix
    ⟨by decide, by decide, by decide⟩ (by decide)              -- hP hPl
    hprog hprogU
    hsT                                                        -- hs
    hbytes (uniqNM pT hsT) (uniqIM pT hsT)
    ⟨by decide, by decide, by decide⟩                          -- hid
    (by decide) rfl rfl rfl rfl                                -- hty hat hb hsz hlen
    (by rfl)                                                   -- hget
    ⟨rfl, rfl, rfl, rfl⟩                                       -- hinfo
    (by rfl)                                                   -- hdec
    (by decide +kernel) (by decide)                            -- hC hT

/-- … whether or not the driver uses instance ids -/
example : ∃ w' frm, read hookAll cfgSym world [Drv.nm "Program:Main.t"] =
      (w', .ok [{ tag := Drv.nm "Program:Main.t", value := .int 1234, type := some (Drv.nm "DINT"), error := none }]) ∧
    w'.drv = world.drv.nextSeq.2 ∧ w'.net.sent = world.net.sent ++ [frm] ∧
    w'.net.target.ext = { world.net.target.ext with logix := some { state with ctr := state.ctr + 1 } } ∧
    ldr_Healthy w' 4097 [238, 255, 192, 0] { Ex.conn with lastSeq := some world.drv.nextSeq.1 } :=
  read_program_scalar_e2e cfgSym world 4097 [238, 255, 192, 0] Ex.conn state (Drv.nm "Main") symsMain pT info 0xC4 4
    (Drv.nm "DINT") (.int .dint) (.int 1234) []
    healthy (by rfl) ⟨by decide, by decide, by decide⟩ (by decide) hprog hprogU hsT hbytes (uniqNM pT hsT) (uniqIM pT hsT)
    ⟨by decide, by decide, by decide⟩ (by decide) rfl rfl rfl rfl (by rfl) ⟨rfl, rfl, rfl, rfl⟩ (by rfl)
    (by decide +kernel) (by decide)

/-- every hypothesis of `read_program_not_controller_e2e` holds: `read("t")` returns 42 and `read("Program:Main.t")`
    returns 1234 -/
example : ∃ w1 w2 frm1 frm2,
    read hookAll cfg world [Drv.nm "t"] =
      (w1, .ok [{ tag := Drv.nm "t", value := .int 42, type := some (Drv.nm "DINT"), error := none }]) ∧
    read hookAll cfg w1 [Drv.nm "Program:Main.t"] =
      (w2, .ok [{ tag := Drv.nm "Program:Main.t", value := .int 1234, type := some (Drv.nm "DINT"), error := none }]) ∧
    w2.net.sent = world.net.sent ++ [frm1, frm2] ∧
    w2.net.target.ext = { world.net.target.ext with logix := some { state with ctr := state.ctr + 2 } } ∧
    ldr_Healthy w2 4097 [238, 255, 192, 0] { Ex.conn with lastSeq := some world.drv.nextSeq.2.nextSeq.1 } :=
  read_program_not_controller_e2e cfg world 4097 [238, 255, 192, 0] Ex.conn state (Drv.nm "Main") symsMain pT symT info info
    0xC4 4 0xC4 4 (Drv.nm "DINT") (Drv.nm "DINT") (.int .dint) (.int .dint) (.int 1234) (.int 42) [] []
    healthy (by rfl)
    rfl                                                        -- hsame
    (by simp [state, proj])                                    -- hs0
    hbytesC uniqNC uniqIC
    (by decide) (by decide) rfl rfl rfl rfl (by rfl) ⟨rfl, rfl, rfl, rfl, rfl⟩ (by rfl)
    ⟨by decide, by decide, by decide⟩ (by decide) hprog hprogU hsT hbytes (uniqNM pT hsT) (uniqIM pT hsT)
    ⟨by decide, by decide, by decide⟩ (by decide) rfl rfl rfl rfl (by rfl) ⟨rfl, rfl, rfl, rfl⟩ (by rfl)
    (by decide +kernel) (by decide)

/-- every hypothesis of `read_controller_and_program_e2e` holds: `read("t", "Program:Main.t")` returns 42 and 1234, in
    this order, with one frame -/
example : ∃ w' frm, read hookAll cfg world [Drv.nm "t", Drv.nm "Program:Main.t"] =
      (w', .ok [{ tag := Drv.nm "t", value := .int 42, type := some (Drv.nm "DINT"), error := none },
                { tag := Drv.nm "Program:Main.t", value := .int 1234, type := some (Drv.nm "DINT"), error := none }]) ∧
    w'.drv = world.drv.nextSeq.2.nextSeq.2.nextSeq.2 ∧ w'.net.sent = world.net.sent ++ [frm] ∧
    w'.net.target.ext = { world.net.target.ext with logix := some { state with ctr := state.ctr + 2 } } ∧
    ldr_Healthy w' 4097 [238, 255, 192, 0] { Ex.conn with lastSeq := some world.drv.nextSeq.2.nextSeq.2.nextSeq.1 } :=
  read_controller_and_program_e2e cfg world 4097 [238, 255, 192, 0] Ex.conn state (Drv.nm "Main") symsMain symT pT info info
    0xC4 0xC4 4 4 (Drv.nm "DINT") (Drv.nm "DINT") (.int .dint) (.int .dint) (.int 42) (.int 1234) [] []
    healthy (by rfl) rfl
    hbytesC (by simp [state, proj]) uniqNC uniqIC
    ⟨by decide, by decide, by decide⟩ (by decide) (by decide) rfl rfl rfl rfl (by rfl) ⟨rfl, rfl, rfl, rfl, rfl⟩ (by rfl)
    ⟨by decide, by decide, by decide⟩ (by decide) hprog hprogU hsT hbytes (uniqNM pT hsT) (uniqIM pT hsT)
    ⟨by decide, by decide, by decide⟩ (by decide) rfl rfl rfl rfl (by rfl) ⟨rfl, rfl, rfl, rfl⟩ (by rfl)
    (by decide +kernel) (by decide)

/-- every hypothesis of `read_program_element_e2e` holds: `read("Program:Main.arr[2]")` returns 300 (the controller's
    `arr[2]` is 30); the request string is `ldp_levelStr "Main" ⟨"arr", [2]⟩` = `Program:Main.arr[2]` (`#guard` above) -/
example : ∃ w' frm, read hookAll cfg world [ldp_levelStr (Drv.nm "Main") ⟨Drv.nm "arr", [2]⟩] =
      (w', .ok [{ tag := ldp_levelStr (Drv.nm "Main") ⟨Drv.nm "arr", [2]⟩, value := .int 300, type := some (Drv.nm "DINT"),
                  error := none }]) ∧
    w'.drv = world.drv.nextSeq.2 ∧ w'.net.sent = world.net.sent ++ [frm] ∧
    w'.net.target.ext = { world.net.target.ext with logix := some { state with ctr := state.ctr + 1 } } ∧
    ldr_Healthy w' 4097 [238, 255, 192, 0] { Ex.conn with lastSeq := some world.drv.nextSeq.1 } :=
  read_program_element_e2e cfg world 4097 [238, 255, 192, 0] Ex.conn state (Drv.nm "Main") symsMain pArr infoArr 0xC4 4 3 2
    (Drv.nm "DINT") (.int .dint) (.int 300) []
    healthy (by rfl) ⟨by decide, by decide, by decide⟩ (by decide) hprog hprogU hsArr hbytes (uniqNM pArr hsArr)
    (uniqIM pArr hsArr)
    ⟨by decide, by decide, by decide⟩                          -- hid
    (by decide) rfl rfl rfl                                    -- hty hat hb hsz
    (by decide) (by decide)                                    -- hdims hlen
    (by rfl) ⟨rfl, rfl, rfl, rfl⟩                              -- hget hinfo
    (by decide) (by decide)                                    -- hi hi32
    (by rfl)                                                   -- hdec
    (by decide +kernel) (by decide)

/-- every hypothesis of `read_program_member_e2e` holds: `read("Program:Main.p1.y")` returns -20 (the controller's
    `p1.y` is -2) -/
example : ∃ w' frm, read hookAll cfg world [Drv.nm "Program:Main.p1.y"] =
      (w', .ok [{ tag := Drv.nm "Program:Main.p1.y", value := .int (-20), type := some (Drv.nm "INT"), error := none }]) ∧
    w'.drv = world.drv.nextSeq.2 ∧ w'.net.sent = world.net.sent ++ [frm] ∧
    w'.net.target.ext = { world.net.target.ext with logix := some { state with ctr := state.ctr + 1 } } ∧
    ldr_Healthy w' 4097 [238, 255, 192, 0] { Ex.conn with lastSeq := some world.drv.nextSeq.1 } :=
  read_program_member_e2e cfg world 4097 [238, 255, 192, 0] Ex.conn state (Drv.nm "Main") symsMain pP1 0x201 Ex3.tmplPt
    ⟨Drv.nm "y", 0, 0xC3, 4⟩ infoP1 Ex3.minfoY 0xC3 2 (Drv.nm "INT") (.int .int) (.int (-20)) [0, 0]
    healthy (by rfl) ⟨by decide, by decide, by decide⟩ (by decide) hprog hprogU hsP1 hbytes (uniqNM pP1 hsP1)
    (uniqIM pP1 hsP1)
    ⟨by decide, by decide, by decide⟩                          -- hid
    (by decide) (by rfl)                                       -- hty htm
    (by simp [Ex3.tmplPt])                                     -- hm
    (by intro m' hm'; simp only [Ex3.tmplPt, List.mem_cons, List.not_mem_nil, or_false] at hm'
        rcases hm' with rfl | rfl <;> decide)                  -- hmbytes
    (by intro m' hm' e; simp only [Ex3.tmplPt, List.mem_cons, List.not_mem_nil, or_false] at hm'
        rcases hm' with rfl | rfl
        · exact absurd e (by decide)
        · rfl)                                                 -- hmuniq
    ⟨by decide, by decide, by decide⟩ (by decide) (by decide)  -- hmid hnum hnl
    (by decide) (by decide) rfl rfl rfl rfl                    -- hmty hnb hscalar hat hb hsz
    (by decide)                                                -- hin
    (by rfl) rfl (by rfl) ⟨rfl, rfl, rfl, rfl, rfl⟩            -- hget hk hmget hminfo
    (by rfl)                                                   -- hdec
    (by decide +kernel) (by decide)

/-- every hypothesis of `write_program_scalar_e2e` holds: `write(("Program:Main.t", 99))` succeeds and the project
    afterwards is `written proj loc 0 [63 00 00 00]` for the location of the program's `t` -/
example : ∃ w' frm, write hookAll cfg world [(Drv.nm "Program:Main.t", .int 99)] =
      (w', .ok [{ tag := Drv.nm "Program:Main.t", value := .int 99, type := some (Drv.nm "DINT"), error := none }]) ∧
    w'.drv = world.drv.nextSeq.2 ∧ w'.net.sent = world.net.sent ++ [frm] ∧
    w'.net.target.ext =
      { world.net.target.ext with
        logix := some { state with
          proj := written state.proj (ldp_loc (ldp_prog (Drv.nm "Main")) pT 0xC4) 0 [0x63, 0, 0, 0] } } ∧
    ldr_Healthy w' 4097 [238, 255, 192, 0] { Ex.conn with lastSeq := some world.drv.nextSeq.1 } :=
  write_program_scalar_e2e cfg world 4097 [238, 255, 192, 0] Ex.conn state (Drv.nm "Main") symsMain pT info 0xC4 4
    (Drv.nm "DINT") (.int .dint) (.int 99) [0x63, 0, 0, 0]
    healthy (by rfl) ⟨by decide, by decide, by decide⟩ (by decide) hprog hprogU hsT hbytes (uniqNM pT hsT) (uniqIM pT hsT)
    ⟨by decide, by decide, by decide⟩ (by decide) rfl rfl rfl rfl (by rfl) ⟨rfl, rfl, rfl, rfl⟩
    ⟨99, rfl, by decide, by decide⟩ (by rfl)                   -- hcanon henc
    (by decide +kernel) (by decide)

/-- the memory afterwards: the controller's `t` still holds 42, `Aux`'s `t` still 77, `Main`'s other tags are unchanged;
    `Main`'s `t` holds 99; one write logged -/
example : written state.proj (ldp_loc (ldp_prog (Drv.nm "Main")) pT 0xC4) 0 [0x63, 0, 0, 0] =
    { proj with programs := [(Drv.nm "Program:Main", [{ pT with mem := [0x63, 0, 0, 0] }, pU, pArr, pP1]),
                             (Drv.nm "Program:Aux", [aT])],
                writeLog := [(7, 0, 4)] } := by rfl

/-- the hypotheses of `write_program_scalar_effect` -/
example : written state.proj (ldp_loc (ldp_prog (Drv.nm "Main")) pT 0xC4) 0 [0x63, 0, 0, 0] =
    ldp_proj state.proj (ldp_prog (Drv.nm "Main")) pT [0x63, 0, 0, 0] :=
  (write_program_scalar_effect state.proj (ldp_prog (Drv.nm "Main")) symsMain pT 0xC4 4 [0x63, 0, 0, 0] hprogU
    (uniqIM pT hsT) rfl rfl).1

/-- … and of `write_then_read_program_e2e`: the following `read("Program:Main.t")` returns 99 -/
example : ∃ w1 w2 frm1 frm2,
    write hookAll cfg world [(Drv.nm "Program:Main.t", .int 99)] =
      (w1, .ok [{ tag := Drv.nm "Program:Main.t", value := .int 99, type := some (Drv.nm "DINT"), error := none }]) ∧
    read hookAll cfg w1 [Drv.nm "Program:Main.t"] =
      (w2, .ok [{ tag := Drv.nm "Program:Main.t", value := .int 99, type := some (Drv.nm "DINT"), error := none }]) ∧
    w2.net.sent = world.net.sent ++ [frm1, frm2] ∧
    w2.net.target.ext =
      { world.net.target.ext with
        logix := some { state with proj := ldp_proj state.proj (ldp_prog (Drv.nm "Main")) pT [0x63, 0, 0, 0],
                                   ctr := state.ctr + 1 } } ∧
    ldr_Healthy w2 4097 [238, 255, 192, 0] { Ex.conn with lastSeq := some world.drv.nextSeq.2.nextSeq.1 } :=
  write_then_read_program_e2e cfg world 4097 [238, 255, 192, 0] Ex.conn state (Drv.nm "Main") symsMain pT info 0xC4 4
    (Drv.nm "DINT") (.int .dint) (.int 99) [0x63, 0, 0, 0]
    healthy (by rfl) ⟨by decide, by decide, by decide⟩ (by decide) hprog hprogU hsT hbytes (uniqNM pT hsT) (uniqIM pT hsT)
    ⟨by decide, by decide, by decide⟩ (by decide) rfl rfl rfl rfl (by rfl) ⟨rfl, rfl, rfl, rfl⟩
    ⟨99, rfl, by decide, by decide⟩ (by rfl) (by decide +kernel) (by decide)

/-- every hypothesis of `read_program_scalar_e2e_db` holds, with the tag database computed from the project -/
example : ∃ w' frm, read hookAll cfg world [Drv.nm "Program:Main.t"] =
      (w', .ok [{ tag := Drv.nm "Program:Main.t", value := .int 1234, type := some (Drv.nm "DINT"), error := none }]) ∧
    w'.drv = world.drv.nextSeq.2 ∧ w'.net.sent = world.net.sent ++ [frm] ∧
    w'.net.target.ext = { world.net.target.ext with logix := some { state with ctr := state.ctr + 1 } } ∧
    ldr_Healthy w' 4097 [238, 255, 192, 0] { Ex.conn with lastSeq := some world.drv.nextSeq.1 } :=
  read_program_scalar_e2e_db cfg world 4097 [238, 255, 192, 0] Ex.conn state (Drv.nm "Main") symsMain pT 4
    (Drv.nm "DINT") (.int .dint) (.int 1234) []
    healthy (by rfl) ⟨by decide, by decide, by decide⟩ (by decide) hprog hprogU hsT hbytes (uniqNM pT hsT) (uniqIM pT hsT)
    ⟨by decide, by decide, by decide⟩
    (by decide) (by decide) rfl rfl rfl rfl                    -- hstruct hdims hat hb hsz hlen
    (by decide) (by rfl)                                       -- hkeep hdb
    ⟨symMain, by simp [state, proj], by decide⟩                -- hlisted
    (fun s' h _ => by rcases mem_ctl s' h with rfl | rfl | rfl | rfl | rfl <;> decide)   -- hnodot
    (by rfl) (by decide +kernel) (by decide)

/-- … and of `write_program_scalar_e2e_db` -/
example : ∃ w' frm, write hookAll cfg world [(Drv.nm "Program:Main.t", .int 99)] =
      (w', .ok [{ tag := Drv.nm "Program:Main.t", value := .int 99, type := some (Drv.nm "DINT"), error := none }]) ∧
    w'.drv = world.drv.nextSeq.2 ∧ w'.net.sent = world.net.sent ++ [frm] ∧
    w'.net.target.ext =
      { world.net.target.ext with
        logix := some { state with
          proj := written state.proj (ldp_loc (ldp_prog (Drv.nm "Main")) pT (pT.symbolType % 256)) 0 [0x63, 0, 0, 0] } } ∧
    ldr_Healthy w' 4097 [238, 255, 192, 0] { Ex.conn with lastSeq := some world.drv.nextSeq.1 } :=
  write_program_scalar_e2e_db cfg world 4097 [238, 255, 192, 0] Ex.conn state (Drv.nm "Main") symsMain pT 4
    (Drv.nm "DINT") (.int .dint) (.int 99) [0x63, 0, 0, 0]
    healthy (by rfl) ⟨by decide, by decide, by decide⟩ (by decide) hprog hprogU hsT hbytes (uniqNM pT hsT) (uniqIM pT hsT)
    ⟨by decide, by decide, by decide⟩
    (by decide) (by decide) rfl rfl rfl rfl (by decide) (by rfl)
    ⟨symMain, by simp [state, proj], by decide⟩
    (fun s' h _ => by rcases mem_ctl s' h with rfl | rfl | rfl | rfl | rfl <;> decide)
    ⟨99, rfl, by decide, by decide⟩ (by rfl) (by decide +kernel) (by decide)

/-! ### the size hypothesis `hC` of `write_program_scalar_e2e`

  As for controller-scope tags (`LogixDriverWrite.Ex`): the Write Tag request for the DINT `Program:Main.t` is 30 bytes
  long (sequence count included; the request path alone takes 19 bytes). With a connection size of 33 it fits (the
  natural hypothesis `|P| + |t| + size + 22 = 31 ≤ 33` holds), yet the driver switches to Write Tag Fragmented: the DINT
  goes out in TWO requests of 3 + 1 bytes (two frames, two write-log entries, four sequence numbers). With 34 the same
  write is one plain Write Tag request. -/

def smallWorld (c : Nat) : Cli.World Ext := { world with drv := { world.drv with connectionSize := c } }

/-- frames written, write-log of the controller, memory of `Main`'s `t`, sequence numbers drawn -/
def writeOutcome (c : Nat) : Option (Nat × List (Nat × Nat × Nat) × List Bytes × Nat) :=
  match write hookAll cfg (smallWorld c) [(Drv.nm "Program:Main.t", .int 99)] with
  | (w', .ok [t]) =>
      if t.error.isNone then
        w'.net.target.ext.logix.map fun (st' : LState) =>
          (w'.net.sent.length - world.net.sent.length, st'.proj.writeLog,
           (st'.proj.programs.map fun p => (p.2.map (·.mem)).headD []),
           w'.drv.seqVal - world.drv.seqVal)
      else none
  | _ => none

#guard writeOutcome 34 == some (1, [(7, 0, 4)], [[99, 0, 0, 0], [77, 0, 0, 0]], 1)
#guard writeOutcome 33 == some (2, [(7, 0, 3), (7, 3, 1)], [[99, 0, 0, 0], [77, 0, 0, 0]], 4)

end ExP

end Pycomm.Lgx.Drv
