/-
  Helper lemmas for the C11 proofs (encapsulation frames): little-endian bytes, `packInt` at the two
  unsigned widths the encapsulation layer uses, fixed-length list shapes.
-/
import PycommModel.Encap
namespace Pycomm.EN
open Pycomm Pycomm.Encap

/-! ### little-endian bytes -/

theorem leBytes_length (w n : Nat) : (leBytes w n).length = w := by
  induction w generalizing n with
  | zero => simp [leBytes]
  | succ w ih => simp [leBytes, ih]

theorem toNat_ofNat (n : Nat) : (UInt8.ofNat n).toNat = n % 256 := by
  simp [UInt8.toNat_ofNat']

theorem leVal_leBytes (w n : Nat) (h : n < 256 ^ w) : leVal (leBytes w n) = n := by
  induction w generalizing n with
  | zero => simp [leBytes, leVal] at *; omega
  | succ w ih =>
    have h' : n / 256 < 256 ^ w := by
      rw [Nat.pow_succ] at h
      exact Nat.div_lt_of_lt_mul (by omega)
    simp only [leBytes, leVal, toNat_ofNat, ih _ h']
    omega

theorem leVal_lt (bs : Bytes) : leVal bs < 256 ^ bs.length := by
  induction bs with
  | nil => simp [leVal]
  | cons b bs ih =>
    have hb : b.toNat < 256 := UInt8.toNat_lt b
    simp only [leVal, List.length_cons, Nat.pow_succ]
    omega

theorem leBytes_leVal (w : Nat) (bs : Bytes) (h : bs.length = w) : leBytes w (leVal bs) = bs := by
  induction bs generalizing w with
  | nil => subst h; simp [leBytes]
  | cons b bs ih =>
    subst h
    have hb : b.toNat < 256 := UInt8.toNat_lt b
    have h1 : (b.toNat + 256 * leVal bs) % 256 = b.toNat := by omega
    have h2 : (b.toNat + 256 * leVal bs) / 256 = leVal bs := by omega
    simp only [leVal, List.length_cons, leBytes, h1, h2, ih _ rfl]
    simp

/-! ### list shapes -/

theorem len2 {α} (l : List α) (h : l.length = 2) : ∃ a b, l = [a, b] := by
  match l, h with
  | [a, b], _ => exact ⟨a, b, rfl⟩

theorem len4 {α} (l : List α) (h : l.length = 4) : ∃ a b c d, l = [a, b, c, d] := by
  match l, h with
  | [a, b, c, d], _ => exact ⟨a, b, c, d, rfl⟩

theorem len8 {α} (l : List α) (h : l.length = 8) :
    ∃ a b c d e f g i, l = [a, b, c, d, e, f, g, i] := by
  match l, h with
  | [a, b, c, d, e, f, g, i], _ => exact ⟨a, b, c, d, e, f, g, i, rfl⟩

/-! ### `u16` / `u32` -/

theorem u16_ok (n : Nat) (b : Bytes) (h : u16 n = .ok b) : b = leBytes 2 n ∧ n < 65536 := by
  simp only [u16, packInt, PyVal.asIndex, IntK.lo, IntK.hi, IntK.size, IntK.signed, ofSigned,
    Bool.false_eq_true, ↓reduceIte, Int.natCast_nonneg, Int.toNat_natCast, true_and] at h
  by_cases hr : n < 65536
  · rw [if_pos (by omega)] at h
    cases h; exact ⟨rfl, hr⟩
  · rw [if_neg (by omega)] at h
    cases h

theorem u32_ok (n : Nat) (b : Bytes) (h : u32 n = .ok b) : b = leBytes 4 n ∧ n < 4294967296 := by
  simp only [u32, packInt, PyVal.asIndex, IntK.lo, IntK.hi, IntK.size, IntK.signed, ofSigned,
    Bool.false_eq_true, ↓reduceIte, Int.natCast_nonneg, Int.toNat_natCast, true_and] at h
  by_cases hr : n < 4294967296
  · rw [if_pos (by omega)] at h
    cases h; exact ⟨rfl, hr⟩
  · rw [if_neg (by omega)] at h
    cases h

theorem u16_err (n : Nat) (e : Exn) (h : u16 n = .error e) : e = .data := by
  simp only [u16, packInt, PyVal.asIndex] at h
  split at h
  · cases h
  · cases h; rfl

end Pycomm.EN
