/-
  Proofs for C17 at the client level (connected messages carry fresh sequence counts): over ALL call histories,
  fault plans (with fewer than 65534 faults) and target policies, the reference target never sees the sequence
  count of its connection repeated on consecutive connected messages.
-/
import PycommProofs.LifecycleProofs
import PycommProofs.LCSeq
namespace Pycomm.Cli
open Pycomm.Tgt Pycomm.Encap Pycomm.Path

/-- the target never logged the duplicate-sequence-count violation (text as built in `Tgt.handle`) -/
def NoSeqRepeat (log : List Event) : Prop :=
  ∀ e ∈ log, ∀ n : Nat, e ≠ .violation s!"sequence count {n} repeated on consecutive connected messages"

/-- Boolean, evaluable check on the arguments of a generic_message call: the request (service, request path,
    data) is small enough to be framed (`true` as well when the request path cannot be encoded: then the call
    fails before a sequence count is drawn).  A connected request that is too large to be framed fails with
    DataError AFTER its sequence count has been drawn: it burns a count without sending anything. -/
def SizeOk (a : GenArgs) : Bool :=
  match requestPath a.cls a.inst a.attr with
  | .error _ => true
  | .ok rp => decide (rp.length + a.data.length ≤ 65000)

/-- the object hook logs no duplicate-sequence-count violation of its own (`HookOk` does not exclude this text) -/
def HookQuietSeq {σ} (hook : ObjHook σ) : Prop :=
  ∀ t cs req t' r, hook t cs req = some (t', r) →
    ∀ extra, t'.base.log = extra ++ t.base.log →
      ∀ e ∈ extra, ∀ n : Nat, e ≠ .violation s!"sequence count {n} repeated on consecutive connected messages"

/-- `SizeOk` is evaluable on concrete arguments -/
example : SizeOk { service := 0x01, cls := .bytes [0x01], inst := .bytes [0x01] } = true := by decide

/-- lifecycle, idle and sequence invariants along every history -/
theorem lcs_run {σ} (hook : ObjHook σ) (hh : HookOk hook) (hn : HookQuietSeq hook) (F : List Fault) (P : Policy)
    (calls : List Call) :
    ∀ (w : World σ), (∀ a, Call.generic a ∈ calls → AvoidsCM a = true) →
      (∀ a, Call.generic a ∈ calls → a.connected = true → SizeOk a = true) →
      lci_Inv False w → lci_Conn w → lci_Net F P w → lcs_Seq w → lcs_Seq (run hook w calls) := by
  induction calls with
  | nil => intro w _ _ _ _ _ hq; exact hq
  | cons c cs ih =>
    intro w hg hs hi hc hnet hq
    obtain ⟨h1, h2⟩ := lci_call_inv hook hh False w c (fun _ _ h => h.elim)
      (fun a e => hg a (e ▸ List.mem_cons_self)) hi hc
    have h34 : lci_Net F P (call hook w c).1 ∧ lcs_Seq (call hook w c).1 := by
      cases c with
      | «open» rnd =>
        have := And.intro (lci_Net_open hook hh w rnd hnet) (lcs_openDrv hook hh hn w rnd hq)
        simp only [call]
        generalize openDrv hook w rnd = r at this ⊢
        obtain ⟨w', o⟩ := r
        cases o <;> exact this
      | close =>
        have := And.intro (lci_Net_close hook w hi.ctx8 hnet) (lcs_closeDrv hook hh hn F P w hnet hq)
        simp only [call]
        generalize closeDrv hook w = r at this ⊢
        obtain ⟨w', o⟩ := r
        cases o <;> exact this
      | generic a =>
        have := And.intro (lci_Net_step hnet ((lci_NStep_mutual hook hh FUEL).2.2 w a))
          (lcs_generic hook hh hn False FUEL w a
            (fun hcn => lcs_size_of_check a (hs a List.mem_cons_self hcn)) hi hc hq)
        simp only [call]
        generalize genericMessage hook FUEL w a = r at this ⊢
        obtain ⟨w', o⟩ := r
        cases o <;> exact this
    exact ih _ (fun a h => hg a (List.mem_cons_of_mem _ h)) (fun a h => hs a (List.mem_cons_of_mem _ h))
      h1 h2 h34.1 h34.2

theorem lcs_fresh {σ} (w : World σ) (hf : Fresh w) (hfl : w.net.faults.length < 65534) : lcs_Seq w := by
  obtain ⟨f1, f2, f3, f4, f5, f6, f7, f8, f9, g1, g2, g3, g4, g5, f10, f11, f12, f13, f14, f15, f16, f17, f18⟩ := hf
  refine ⟨hfl, by rw [g5]; omega, f8, ?_, (fun h => by rw [f4] at h; cases h), ?_, ?_⟩
  · intro s hs; rw [f2] at hs; cases hs; decide
  · rw [f11]; intro c hc; cases hc
  · rw [f12]; intro e he; cases he

-- PROPERTY THEOREMS

-- STATEMENT CHANGED: relative to the proposed statement (hypotheses hh, hf, hg of `no_unit_data_before_open` plus `faults.length < 65534`) three hypotheses were added: `hs` (SizeOk for every connected generic call), `hn` (HookQuietSeq), and `Fresh` now states `seqVal = 1`.
-- STATEMENT CHANGED: counterexample CE5 (hook = none, default policy, faults = [], cipPath = backplane slot 0): [open 0102030405060708, generic {service 0x01, cls 1, inst 1} (connected), 65534 × generic {service 0x01, cls 1, inst 1, data := 65600 zero bytes} (connected: each call draws a sequence count, then buildRequest fails with DataError, nothing is sent, no fault is consumed), generic {service 0x01, cls 1, inst 1} (connected)]: the last request carries the same count as the first one, log contains violation "sequence count 1 repeated on consecutive connected messages" (#eval-confirmed; with 65533 oversize calls there is no violation).
/-- for EVERY history of calls from a fresh world, every target policy and every fault plan with fewer than 65534
    faults: the sequence count of a connected request never equals the one the target saw last on that
    connection — provided the application leaves the Connection Manager to the driver and its connected
    requests are small enough to be framed -/
theorem seq_never_repeats {σ} (hook : ObjHook σ) (hh : HookOk hook) (hn : HookQuietSeq hook) (w : World σ)
    (hf : Fresh w) (calls : List Call)
    (hg : ∀ a, Call.generic a ∈ calls → AvoidsCM a = true)
    (hs : ∀ a, Call.generic a ∈ calls → a.connected = true → SizeOk a = true)
    (hfl : w.net.faults.length < 65534) :
    NoSeqRepeat (run hook w calls).net.target.base.log := by
  obtain ⟨hi, hc⟩ := lci_fresh_inv False w hf (fun h => h.elim)
  exact (lcs_run hook hh hn _ _ calls w hg hs hi hc (lci_fresh_net w hf) (lcs_fresh w hf hfl)).log

end Pycomm.Cli
