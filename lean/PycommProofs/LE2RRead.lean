/-
  Helper lemmas for the read end-to-end laws (LogixE2ERead): Read Tag on the controller, typed replies.
-/
import PycommProofs.LE2RBasic
import PycommProofs.CodecRoundTrip
namespace Pycomm.Lgx.E2E
open Pycomm Pycomm.Tgt Pycomm.Path Pycomm.Lgx Pycomm.Lgx.Cl

/-- Read Tag on a located value whose bytes fit the connection -/
theorem readTag_plain (st : LState) (loc : Loc) (n cap : Nat) (bs : Bytes)
    (hn : 1 ≤ n ∧ n ≤ loc.avail ∧ n < 65536)
    (hb : readBytes st.proj loc n = some bs)
    (hfit : bs.length + 4 + (typeBytes st.proj loc.ty).length ≤ cap) :
    readTag st loc (le 2 n) cap false =
      ({ st with ctr := st.ctr + 1 }, { status := 0, data := typeBytes st.proj loc.ty ++ bs }) := by
  have hl : (le 2 n).length = 2 := RT.leBytes_length 2 n
  have hv : leAt (le 2 n) 0 2 = n := by
    have := leAt_head 2 n [] (by omega)
    simpa using this
  unfold readTag
  simp only [hl, hv, hb, Bool.false_eq_true, if_false, ne_eq, not_true_eq_false]
  rw [if_neg (by omega), if_neg (by omega), if_neg (by omega)]
  have hk : min bs.length (cap - 4 - (typeBytes st.proj loc.ty).length) = bs.length := by omega
  simp only [Nat.sub_zero, hk, Nat.lt_irrefl, if_false, List.drop_zero, List.take_length]

theorem le2_eq (c : Nat) : le 2 c = [UInt8.ofNat (c % 256), UInt8.ofNat (c / 256 % 256)] := by
  simp [le, leBytes]

/-- the client splits a typed reply into the controller's type bytes and the value bytes -/
theorem splitTyped_typeBytes (p : Project) (ty : ElTy) (hty : TyOk ty) (x : Bytes) :
    splitTyped (typeBytes p ty ++ x) = (typeBytes p ty, x) := by
  cases ty with
  | atomic c =>
    have hc : c < 256 := hty c rfl
    have h0 : c / 256 % 256 = 0 := by omega
    simp [typeBytes, le2_eq, splitTyped, h0]
  | boolBit b =>
    simp [typeBytes, le2_eq, splitTyped]
  | struct tid =>
    simp [typeBytes, le2_eq, splitTyped]

theorem atomicTy_lt (c : Nat) (t : Ty) (h : atomicTy c = some t) : c < 256 := by
  by_cases hc : c < 256
  · exact hc
  · unfold atomicTy at h
    rw [if_neg (by omega), if_neg (by omega), if_neg (by omega), if_neg (by omega), if_neg (by omega),
      if_neg (by omega), if_neg (by omega), if_neg (by omega), if_neg (by omega), if_neg (by omega),
      if_neg (by omega), if_neg (by omega)] at h
    cases h

theorem splitTyped_atomic (c : Nat) (t : Ty) (h : atomicTy c = some t) (bs : Bytes) :
    (splitTyped (le 2 c ++ bs)).2 = bs := by
  have := splitTyped_typeBytes default (.atomic c) (fun c' e => by cases e; exact atomicTy_lt c t h) bs
  simp only [typeBytes] at this
  rw [this]

end Pycomm.Lgx.E2E
