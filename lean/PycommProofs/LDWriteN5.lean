/-
  LogixDriver.write of ANY number of requests, the request descriptions the property theorems speak about — the write
  of a whole elementary scalar tag (`ldwn_Scalar`) and the write of an element beyond a one-dimensional array
  (`ldwn_Oob`, refused by the controller) —, what the engine needs of them, and the composed theorem
  `ldwn_write_mixed` for any list of such requests.
-/
import PycommProofs.LDWriteN4
namespace Pycomm.Lgx.Drv
open Pycomm Pycomm.Tgt Pycomm.Path Pycomm.Reply Pycomm.Encap Pycomm.Lgx Pycomm.Lgx.E2E

/-- `(tag, value)` writes the whole elementary scalar controller-scope symbol `s`: the entry `info` of the tag
    database, type code `c` of size `sz` with class name `tname` and codec type `t`, the caller's value `v` and its
    encoding `bytes` -/
structure ldwn_Scalar where
  s : Symbol
  info : TagInfo
  c : Nat
  sz : Nat
  tname : Name
  t : Ty
  v : PyVal
  bytes : Bytes

/-- the hypotheses of `write_atomic_scalar_e2e` / `write_two_tags_e2e` about one request -/
structure ldwn_ScalarOk (cfg : Cfg) (p : Project) (x : ldwn_Scalar) : Prop where
  mem : x.s ∈ p.controller
  uniqN : ∀ s' ∈ p.controller, s'.name = x.s.name → s' = x.s
  uniqI : ∀ s' ∈ p.controller, s'.inst = x.s.inst → s' = x.s
  ident : PlainIdent x.s.name
  inst32 : x.s.inst < 2 ^ 32
  ty : elTyOfWord x.s.symbolType = .atomic x.c
  atom : atomicOfCode x.c = some (x.tname, x.t)
  notBits : x.t.isBits = none
  size : atomicSize x.c = some x.sz
  len : x.s.mem.length = x.sz
  get : cfg.tags.get? x.s.name = some x.info
  infoOf : ldr_InfoOf x.info x.tname x.t x.s.inst
  canon : Canon x.t x.v
  enc : encode x.t x.v = .ok x.bytes

/-- `(name[i], value)` addresses element `i` of the one-dimensional array symbol `s` (`dim` elements) -/
structure ldwn_Oob where
  s : Symbol
  info : TagInfo
  c : Nat
  sz : Nat
  dim : Nat
  i : Nat
  tname : Name
  t : Ty
  v : PyVal
  bytes : Bytes

/-- the hypotheses of `write_refused_single_e2e` / the `bad` side of `write_mixed_two_e2e`: the element is beyond the
    array -/
structure ldwn_OobOk (cfg : Cfg) (p : Project) (x : ldwn_Oob) : Prop where
  mem : x.s ∈ p.controller
  uniqN : ∀ s' ∈ p.controller, s'.name = x.s.name → s' = x.s
  uniqI : ∀ s' ∈ p.controller, s'.inst = x.s.inst → s' = x.s
  ident : PlainIdent x.s.name
  inst32 : x.s.inst < 2 ^ 32
  ty : elTyOfWord x.s.symbolType = .atomic x.c
  atom : atomicOfCode x.c = some (x.tname, x.t)
  notBits : x.t.isBits = none
  size : atomicSize x.c = some x.sz
  dims : x.s.dims.filter (· != 0) = [x.dim]
  len : x.s.mem.length = x.dim * x.sz
  get : cfg.tags.get? x.s.name = some x.info
  infoOf : ldr_InfoOf x.info x.tname (.arr (.fixed x.dim) x.t) x.s.inst
  canon : Canon x.t x.v
  enc : encode x.t x.v = .ok x.bytes
  beyond : x.dim ≤ x.i
  i32 : x.i < 2 ^ 32

/-- one request of a mixed call -/
inductive ldwn_Req where
  | scalar (x : ldwn_Scalar)
  | oob (x : ldwn_Oob)

def ldwn_ReqOk (cfg : Cfg) (p : Project) : ldwn_Req → Prop
  | .scalar x => ldwn_ScalarOk cfg p x
  | .oob x => ldwn_OobOk cfg p x

/-- the tag string of the request -/
def ldwn_Req.tag : ldwn_Req → Name
  | .scalar x => x.s.name
  | .oob x => x.s.name ++ [91] ++ decRender x.i ++ [93]

def ldwn_Req.info : ldwn_Req → TagInfo
  | .scalar x => x.info
  | .oob x => x.info

def ldwn_Req.v : ldwn_Req → PyVal
  | .scalar x => x.v
  | .oob x => x.v

def ldwn_Req.bytes : ldwn_Req → Bytes
  | .scalar x => x.bytes
  | .oob x => x.bytes

/-- the error text of the controller's "index out of range" answer -/
def ldwn_oobError : TagErr := .reply (.text (ldx_errText { status := 0xFF, ext := [0x2105] }))

/-- the Tag `write` returns for the request -/
def ldwn_Req.result : ldwn_Req → LTag
  | .scalar x => { tag := x.s.name, value := x.v, type := some x.tname, error := none }
  | .oob x => { tag := x.s.name ++ [91] ++ decRender x.i ++ [93], value := x.v, type := some x.tname,
                error := some ldwn_oobError }

/-- the request path the driver builds (`tag_request_path`) -/
def ldwn_pathOf (cfg : Cfg) (tag : Name) (info : TagInfo) : Bytes :=
  match requestPathOf cfg tag info with
  | .ok p => p
  | .error _ => []

/-- the driver's accounting of the request: `len(request.message)` of its Write Tag packet -/
def ldwn_Req.acct (cfg : Cfg) (r : ldwn_Req) : Nat := ldx_wlen r.info (ldwn_pathOf cfg r.tag r.info) r.bytes

def ldwn_Req.item (cfg : Cfg) (r : ldwn_Req) : ldwn_Item :=
  { tag := r.tag, info := r.info, v := r.v, path := ldwn_pathOf cfg r.tag r.info, value := r.bytes }

/-- what the controller does with the request -/
def ldwn_Req.beh : ldwn_Req → ldwn_Beh
  | .scalar x => .good x.s x.c x.bytes
  | .oob _ => .refused 0xFF

/-- everything the engine needs of one request -/
structure ldwn_ReqFacts (cfg : Cfg) (p : Project) (r : ldwn_Req) : Prop where
  parse : ∀ rid, parseTagRequest cfg.tags true rid r.tag = ldr2_parsedAt rid r.tag r.info
  enc : ∀ rid, encodeValue (ldx_wparsed rid r.tag r.info r.v) r.info = (ldx_wparsed rid r.tag r.info r.v, some r.bytes)
  path : requestPathOf cfg r.tag r.info = .ok (ldwn_pathOf cfg r.tag r.info)
  den : ∃ segs, Denotes (ldwn_pathOf cfg r.tag r.info) segs
  beh : ldwn_BehOk p cfg.useInstanceIds (ldwn_itemMsg (r.item cfg)) r.beh
  out : ∀ a : MRReply, a = r.beh.ans → ldwn_outTag (r.item cfg) a = r.result
  acctLe : r.acct cfg ≤ r.tag.length + 32

theorem ldwn_pathOf_ok (cfg : Cfg) (tag : Name) (info : TagInfo) (path : Bytes) (h : requestPathOf cfg tag info = .ok path) :
    ldwn_pathOf cfg tag info = path := by
  unfold ldwn_pathOf; rw [h]

theorem ldwn_scalar_facts (cfg : Cfg) (p : Project) (x : ldwn_Scalar)
    (hbytes : ∀ s' ∈ p.controller, ∀ ch ∈ s'.name, ch < 256) (h : ldwn_ScalarOk cfg p x) :
    ldwn_ReqFacts cfg p (.scalar x) ∧ x.bytes.length = x.sz := by
  obtain ⟨haty, hentry, hndw, hpos, hle8⟩ := ldr_atomic_table x.c x.sz x.tname x.t h.atom h.notBits h.size
  have hshape := ldr_atomicTy_shape x.c x.t haty h.notBits
  have hbl : x.bytes.length = x.sz := ldw_encode_length x.c x.sz x.t x.v x.bytes haty h.notBits h.size h.canon h.enc
  have hnd : isDword x.info = false := by
    have : (x.tname == nm "DWORD") = false := by simpa using hndw
    simp [isDword, h.infoOf.typeName, this]
  obtain ⟨pa, hpa, hpla, hdena⟩ := ldr_requestPath cfg x.s.name x.info x.s.inst h.ident h.infoOf.instanceId h.inst32
  have hpo : ldwn_pathOf cfg x.s.name x.info = pa := ldwn_pathOf_ok cfg _ _ pa hpa
  have hpt : packedTypeOf x.info = le 2 x.c := ldw_packedType x.info x.tname x.c x.sz h.infoOf.struct h.infoOf.typeName hentry
  refine ⟨⟨?_, ?_, ?_, ?_, ?_, ?_, ?_⟩, hbl⟩
  · intro rid
    show parseTagRequest cfg.tags true rid x.s.name = _
    rw [ldr_parse_plain cfg.tags true rid x.s.name x.info h.ident h.get hnd]; rfl
  · intro rid
    exact ldw_encodeValue _ x.info x.t x.bytes (ldw_canon_not_bytes x.t x.v hshape h.canon)
      (by rw [h.infoOf.typeName]; exact hndw) h.infoOf.ty hshape h.enc
  · show requestPathOf cfg x.s.name x.info = .ok (ldwn_pathOf cfg x.s.name x.info)
    rw [hpo]; exact hpa
  · exact ⟨_, by show Denotes (ldwn_pathOf cfg x.s.name x.info) _; rw [hpo]; exact hdena⟩
  · show ldwn_BehOk p cfg.useInstanceIds (Cl.writeMsg (ldwn_pathOf cfg x.s.name x.info) (packedTypeOf x.info) 1 x.bytes)
      (.good x.s x.c x.bytes)
    rw [hpo, hpt]
    exact ⟨pa, x.sz, rfl, hdena,
      ldr_resolve p x.s x.c x.sz cfg.useInstanceIds h.ident h.mem hbytes h.uniqN h.uniqI h.ty h.size
        (by intro he; have := h.len; rw [he, List.length_nil] at this; omega),
      h.mem, h.uniqI, h.size, h.len, hbl, hpos⟩
  · intro a ha
    subst ha
    show ({ tag := x.s.name, value := x.v, type := some x.info.core.dataTypeName, error := ldwn_errOf {} } : LTag) = _
    rw [h.infoOf.typeName]
    rfl
  · show ldx_wlen x.info (ldwn_pathOf cfg x.s.name x.info) x.bytes ≤ x.s.name.length + 32
    rw [hpo]
    unfold ldx_wlen
    rw [ldx_writeMsg_length, hpt, le_length, hbl]
    omega

theorem ldwn_oob_facts (cfg : Cfg) (p : Project) (x : ldwn_Oob)
    (hbytes : ∀ s' ∈ p.controller, ∀ ch ∈ s'.name, ch < 256) (h : ldwn_OobOk cfg p x) :
    ldwn_ReqFacts cfg p (.oob x) ∧ x.bytes.length = x.sz := by
  obtain ⟨haty, hentry, hndw, hpos, hle8⟩ := ldr_atomic_table x.c x.sz x.tname x.t h.atom h.notBits h.size
  have hshape := ldr_atomicTy_shape x.c x.t haty h.notBits
  have hbl : x.bytes.length = x.sz := ldw_encode_length x.c x.sz x.t x.v x.bytes haty h.notBits h.size h.canon h.enc
  have htag : (ldwn_Req.oob x).tag = renderLevel ⟨x.s.name, [x.i]⟩ := (ldr2_renderLevel_elem x.s.name x.i).symm
  obtain ⟨hl, hparse⟩ := ldx_parse_elem cfg true 0 x.s.name x.i x.info x.tname _ x.s.inst h.ident h.i32 h.get h.infoOf hndw
  obtain ⟨hnbb, hseqb⟩ := ldx_canon_scalar x.t x.v hshape h.canon
  obtain ⟨pb, hpb, hplb, hdenb⟩ := ldr2_requestPath cfg ⟨x.s.name, [x.i]⟩ x.info x.s.inst hl h.infoOf.instanceId h.inst32
  have hplb' : pb.length ≤ x.s.name.length + 19 := by
    have : pb.length ≤ x.s.name.length + 13 + 6 * 1 := hplb
    omega
  have hpo : ldwn_pathOf cfg (ldwn_Req.oob x).tag x.info = pb := by
    rw [htag]; exact ldwn_pathOf_ok cfg _ _ pb hpb
  have hpt : packedTypeOf x.info = le 2 x.c := ldw_packedType x.info x.tname x.c x.sz h.infoOf.struct h.infoOf.typeName hentry
  have hmem : x.s.mem ≠ [] := by
    intro he
    have hlen := h.len
    rw [he, List.length_nil] at hlen
    have hdim : x.dim ≠ 0 := by
      intro h0
      have : x.dim ∈ x.s.dims.filter (· != 0) := by rw [h.dims]; simp
      have := (List.mem_filter.1 this).2
      simp [h0] at this
    have : 0 < x.dim * x.sz := Nat.mul_pos (by omega) hpos
    omega
  have hlenT : (ldwn_Req.oob x).tag.length = x.s.name.length + (decRender x.i).length + 2 := by
    show (x.s.name ++ [91] ++ decRender x.i ++ [93]).length = _
    simp only [List.length_append, List.length_cons, List.length_nil]; omega
  refine ⟨⟨?_, ?_, ?_, ?_, ?_, ?_, ?_⟩, hbl⟩
  · intro rid
    rw [htag]
    exact (ldx_parse_elem cfg true rid x.s.name x.i x.info x.tname _ x.s.inst h.ident h.i32 h.get h.infoOf hndw).2
  · intro rid
    exact ldx_encodeValue_elem (ldx_wparsed rid (ldwn_Req.oob x).tag x.info x.v) x.info x.dim x.t x.bytes hnbb hseqb
      (by rw [h.infoOf.typeName]; exact hndw) h.infoOf.ty h.notBits rfl rfl
      (by show encode x.t (argOf x.t x.v) = _; rw [RT.argOf_of_canon x.t x.v h.canon]; exact h.enc)
  · show requestPathOf cfg (ldwn_Req.oob x).tag x.info = .ok (ldwn_pathOf cfg (ldwn_Req.oob x).tag x.info)
    rw [hpo, htag]; exact hpb
  · exact ⟨_, by show Denotes (ldwn_pathOf cfg (ldwn_Req.oob x).tag x.info) _; rw [hpo]; exact hdenb⟩
  · show ldwn_BehOk p cfg.useInstanceIds
      (Cl.writeMsg (ldwn_pathOf cfg (ldwn_Req.oob x).tag x.info) (packedTypeOf x.info) 1 x.bytes) (.refused 0xFF)
    rw [hpo, ldx_writeMsg_eq]
    exact ⟨pb, _, _, rfl, hdenb,
      ldx_resolve_oob p x.s x.c x.sz cfg.useInstanceIds x.i x.dim h.ident h.mem hbytes h.uniqN h.uniqI h.ty h.size hmem
        h.dims h.beyond,
      ldx_tagPath_segs x.s.name x.s.inst cfg.useInstanceIds [PSeg.logical 8 x.i], by decide, by decide⟩
  · intro a ha
    subst ha
    show ({ tag := (ldwn_Req.oob x).tag, value := x.v, type := some x.info.core.dataTypeName,
            error := ldwn_errOf (ldx_refusal 0xFF) } : LTag) = _
    rw [h.infoOf.typeName]
    rfl
  · show ldx_wlen x.info (ldwn_pathOf cfg (ldwn_Req.oob x).tag x.info) x.bytes ≤ (ldwn_Req.oob x).tag.length + 32
    rw [hpo, hlenT]
    unfold ldx_wlen
    rw [ldx_writeMsg_length, hpt, le_length, hbl]
    clear hplb
    omega

theorem ldwn_req_facts (cfg : Cfg) (p : Project) (r : ldwn_Req)
    (hbytes : ∀ s' ∈ p.controller, ∀ ch ∈ s'.name, ch < 256) (h : ldwn_ReqOk cfg p r) : ldwn_ReqFacts cfg p r := by
  cases r with
  | scalar x => exact (ldwn_scalar_facts cfg p x hbytes h).1
  | oob x => exact (ldwn_oob_facts cfg p x hbytes h).1

theorem ldwn_allOk (cfg : Cfg) (p : Project) (reqs : List ldwn_Req) (h : ∀ r ∈ reqs, ldwn_ReqFacts cfg p r) :
    ldwn_AllOk p cfg.useInstanceIds ((reqs.map (·.item cfg)).map ldwn_itemMsg) (reqs.map (·.beh)) := by
  induction reqs with
  | nil => exact trivial
  | cons r rest ih =>
    exact ⟨(h r List.mem_cons_self).beh, ih (fun x hx => h x (List.mem_cons_of_mem _ hx))⟩

theorem ldwn_zip_map {α β γ} (l : List α) (f : α → β) (g : α → γ) : (l.map f).zip (l.map g) = l.map fun x => (f x, g x) := by
  induction l with
  | nil => rfl
  | cons a t ih => simp [ih]

/-- the number of multi-service packets the driver forms for the requests -/
def ldwn_packets (cfg : Cfg) (d : Cli.Drv) (reqs : List ldwn_Req) : Nat :=
  (ldwn_groups d.connectionSize (ldwn_reqs d 0 (reqs.map (·.item cfg)))).length

/-- `write` of `n ≥ 2` requests each of which is the write of a whole elementary scalar tag or of an element beyond a
    one-dimensional array, in any order and with repetitions, on a healthy connected driver that is not a Micro800:
    one Tag per request in request order — error-free for the scalar writes, carrying the controller's "beyond end of
    the object" error for the others —, `n` + (number of packets) sequence numbers, one frame per packet, and the
    controller's project afterwards is the old one with the scalar writes applied in request order, each exactly
    once (`ldwn_apply`); the refused requests leave no trace -/
theorem ldwn_write_mixed (cfg : Cfg) (w : Cli.World Ext) (sess : Nat) (cidb : Bytes) (conn : Conn) (st : LState)
    (reqs : List ldwn_Req)
    (hw : ldr_Healthy w sess cidb conn) (hlogix : w.net.target.ext.logix = some st) (hmicro : cfg.micro800 = false)
    (hn : 2 ≤ reqs.length)
    (hbytes : ∀ s' ∈ st.proj.controller, ∀ ch ∈ s'.name, ch < 256)
    (hok : ∀ r ∈ reqs, ldwn_ReqOk cfg st.proj r)
    (hfit1 : ∀ r ∈ reqs, r.acct cfg + K.OVERHEAD ≤ w.drv.connectionSize)
    (hCT : w.drv.connectionSize ≤ conn.size) (hCmax : w.drv.connectionSize ≤ 65400) :
    ∃ w' frms, write hookAll cfg w (reqs.map fun r => (r.tag, r.v)) = (w', .ok (reqs.map (·.result))) ∧
      w'.drv = ldwn_seqN (reqs.length + ldwn_packets cfg w.drv reqs) w.drv ∧
      w'.net.sent = w.net.sent ++ frms ∧ frms.length = ldwn_packets cfg w.drv reqs ∧
      w'.net.target.ext =
        { w.net.target.ext with logix := some { st with proj := ldwn_apply st.proj (reqs.map (·.beh)) } } ∧
      ldr_Healthy w' sess cidb { conn with lastSeq := (ldwn_last conn.lastSeq
        (drawSeqs (ldwn_seqN reqs.length w.drv)
          (ldwn_groups w.drv.connectionSize (ldwn_reqs w.drv 0 (reqs.map (·.item cfg))))).2) } := by
  have hfacts : ∀ r ∈ reqs, ldwn_ReqFacts cfg st.proj r := fun r hr => ldwn_req_facts cfg st.proj r hbytes (hok r hr)
  have hrun := ldwn_run st.proj cfg.useInstanceIds (conn.size - 2) _ _ (ldwn_allOk cfg st.proj reqs hfacts) st
    (ldwn_Ev_refl st.proj)
  obtain ⟨w', frms, h1, h2, h3, h4, h5, h6⟩ := ldwn_write_general cfg w sess cidb conn st (reqs.map (·.item cfg)) hw hlogix
    hmicro (by rw [List.length_map]; exact hn)
    (by
      intro it hit
      obtain ⟨r, hr, rfl⟩ := List.mem_map.1 hit
      exact (hfacts r hr).parse)
    (by
      intro it hit
      obtain ⟨r, hr, rfl⟩ := List.mem_map.1 hit
      exact ⟨(hfacts r hr).enc, (hfacts r hr).path, hfit1 r hr⟩)
    (by
      intro it hit
      obtain ⟨r, hr, rfl⟩ := List.mem_map.1 hit
      exact (hfacts r hr).den)
    hCT hCmax
    (by
      rw [hrun.1]
      intro a ha
      obtain ⟨b, hb, rfl⟩ := List.mem_map.1 ha
      obtain ⟨r, hr, rfl⟩ := List.mem_map.1 hb
      exact ldwn_Beh_ans_ok _ _ _ _ (hfacts r hr).beh)
  rw [hrun.1] at h1 h5
  rw [List.length_map] at h2 h6
  refine ⟨w', frms, ?_, h2, h3, h4, h5, h6⟩
  rw [List.map_map] at h1
  rw [show (fun r : ldwn_Req => (r.tag, r.v)) = ((fun it : ldwn_Item => (it.tag, it.v)) ∘ fun r => r.item cfg) from rfl, h1]
  simp only
  rw [List.map_map, ldwn_zip_map, List.map_map]
  congr 2
  apply List.map_congr_left
  intro r hr
  exact (hfacts r hr).out _ rfl

end Pycomm.Lgx.Drv
