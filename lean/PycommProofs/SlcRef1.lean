/-
  SLC refinement (C18 over histories), helper layer 1: a file's bytes seen as 16-bit words (`words` of SlcExt), the
  bytes of a word list (`slrf_bytes`), slices and splices of a file in the word view.
-/
import PycommProofs.SlcDriverProofs2
namespace Pycomm.Slc.Drv
open Pycomm Pycomm.Tgt Pycomm.Slc

/-- the bytes of a list of 16-bit words, low byte first -/
def slrf_bytes (ws : List Nat) : Bytes := ws.flatMap (leBytes 2)

theorem slrf_bytes_cons (w : Nat) (ws : List Nat) :
    slrf_bytes (w :: ws) = UInt8.ofNat (w % 256) :: UInt8.ofNat (w / 256 % 256) :: slrf_bytes ws := rfl

theorem slrf_bytes_append (a b : List Nat) : slrf_bytes (a ++ b) = slrf_bytes a ++ slrf_bytes b := by
  simp only [slrf_bytes, List.flatMap_append]

theorem slrf_bytes_length (ws : List Nat) : (slrf_bytes ws).length = 2 * ws.length := by
  induction ws with
  | nil => rfl
  | cons w ws ih => rw [slrf_bytes_cons]; simp only [List.length_cons, ih]; omega

theorem slrf_bytes_one (w : Nat) : slrf_bytes [w] = leBytes 2 w := by
  simp only [slrf_bytes, List.flatMap_cons, List.flatMap_nil, List.append_nil]

theorem slrf_words_cons (b0 b1 : UInt8) (rest : Bytes) :
    words (b0 :: b1 :: rest) = (b0.toNat + 256 * b1.toNat) :: words rest := rfl

theorem slrf_words_bytes (ws : List Nat) (h : ∀ w ∈ ws, w < 65536) : words (slrf_bytes ws) = ws := by
  induction ws with
  | nil => rfl
  | cons w ws ih =>
    rw [slrf_bytes_cons, slrf_words_cons, ih (fun x hx => h x (List.mem_cons_of_mem _ hx)),
      slx_le2_val w (h w List.mem_cons_self)]

theorem slrf_bytes_words : ∀ (n : Nat) (bs : Bytes), bs.length = 2 * n → slrf_bytes (words bs) = bs
  | 0, bs, h => by
      have : bs = [] := List.length_eq_zero_iff.mp (by omega)
      subst this; rfl
  | n + 1, b0 :: b1 :: rest, h => by
      simp only [List.length_cons] at h
      rw [slrf_words_cons, slrf_bytes_cons, slrf_bytes_words n rest (by omega)]
      have h0 := b0.toNat_lt
      have h1 := b1.toNat_lt
      have e0 : UInt8.ofNat ((b0.toNat + 256 * b1.toNat) % 256) = b0 := by
        rw [show (b0.toNat + 256 * b1.toNat) % 256 = b0.toNat by omega]; simp
      have e1 : UInt8.ofNat ((b0.toNat + 256 * b1.toNat) / 256 % 256) = b1 := by
        rw [show (b0.toNat + 256 * b1.toNat) / 256 % 256 = b1.toNat by omega]; simp
      rw [e0, e1]
  | n + 1, [], h => by simp at h
  | n + 1, [_], h => by simp at h; omega

theorem slrf_words_lt : ∀ (bs : Bytes), ∀ w ∈ words bs, w < 65536
  | [], w, h => by cases h
  | [_], w, h => by cases h
  | b0 :: b1 :: rest, w, h => by
      rw [slrf_words_cons] at h
      rcases List.mem_cons.mp h with rfl | h
      · have h0 := b0.toNat_lt
        have h1 := b1.toNat_lt
        omega
      · exact slrf_words_lt rest w h

theorem slrf_words_len : ∀ (bs : Bytes), (words bs).length = bs.length / 2
  | [] => rfl
  | [_] => by simp [words]
  | b0 :: b1 :: rest => by
      rw [slrf_words_cons]
      simp only [List.length_cons, slrf_words_len rest]
      omega

theorem slrf_words_append : ∀ (n : Nat) (a b : Bytes), a.length = 2 * n → words (a ++ b) = words a ++ words b
  | 0, a, b, h => by
      have : a = [] := List.length_eq_zero_iff.mp (by omega)
      subst this; rfl
  | n + 1, b0 :: b1 :: rest, b, h => by
      simp only [List.length_cons] at h
      simp only [List.cons_append, slrf_words_cons, slrf_words_append n rest b (by omega)]
  | n + 1, [], _, h => by simp at h
  | n + 1, [_], _, h => by simp at h; omega

theorem slrf_words_take : ∀ (k : Nat) (d : Bytes), words (d.take (2 * k)) = (words d).take k
  | 0, d => by simp [words]
  | k + 1, [] => by simp [words]
  | k + 1, [x] => by
      have : [x].take (2 * (k + 1)) = [x] := by
        rw [show 2 * (k + 1) = (2 * k + 1) + 1 by omega, List.take_succ_cons, List.take_nil]
      rw [this]
      simp [words]
  | k + 1, b0 :: b1 :: rest => by
      rw [show 2 * (k + 1) = (2 * k + 1) + 1 by omega, List.take_succ_cons, List.take_succ_cons, slrf_words_cons,
        slrf_words_cons, List.take_succ_cons, slrf_words_take k rest]

theorem slrf_words_drop : ∀ (k : Nat) (d : Bytes), words (d.drop (2 * k)) = (words d).drop k
  | 0, d => by simp
  | k + 1, [] => by simp [words]
  | k + 1, [x] => by
      have : [x].drop (2 * (k + 1)) = [] := by
        rw [show 2 * (k + 1) = (2 * k + 1) + 1 by omega, List.drop_succ_cons, List.drop_nil]
      rw [this]
      simp [words]
  | k + 1, b0 :: b1 :: rest => by
      rw [show 2 * (k + 1) = (2 * k + 1) + 1 by omega, List.drop_succ_cons, List.drop_succ_cons, slrf_words_cons,
        List.drop_succ_cons, slrf_words_drop k rest]

/-- n words of a file from word i on, as bytes: the byte slice a typed read returns -/
theorem slrf_slice (d : Bytes) (i n : Nat) (h : i + n ≤ (words d).length) :
    (d.drop (2 * i)).take (2 * n) = slrf_bytes (((words d).drop i).take n) := by
  rw [slrf_words_len] at h
  have hl : ((d.drop (2 * i)).take (2 * n)).length = 2 * n := by
    simp only [List.length_take, List.length_drop]; omega
  rw [← slrf_words_drop, ← slrf_words_take, slrf_bytes_words n _ hl]

/-- a file with n words from word i on replaced -/
theorem slrf_splice (d nw : Bytes) (i n : Nat) (hn : nw.length = 2 * n) (h : i + n ≤ (words d).length) :
    words (d.take (2 * i) ++ nw ++ d.drop (2 * i + 2 * n)) =
      (words d).take i ++ words nw ++ (words d).drop (i + n) := by
  rw [slrf_words_len] at h
  have hl : (d.take (2 * i)).length = 2 * i := by simp only [List.length_take]; omega
  rw [List.append_assoc, slrf_words_append i _ _ hl, slrf_words_append n _ _ hn, slrf_words_take,
    show 2 * i + 2 * n = 2 * (i + n) by omega, slrf_words_drop, List.append_assoc]

/-- a 4-byte little-endian value is its low word followed by its high word -/
theorem slrf_le4 (r : Nat) : leBytes 4 r = slrf_bytes [r % 65536, r / 65536] := by
  simp only [slrf_bytes, List.flatMap_cons, List.flatMap_nil, List.append_nil, leBytes, List.cons_append, List.nil_append]
  have e1 : r % 65536 % 256 = r % 256 := by omega
  have e2 : r % 65536 / 256 % 256 = r / 256 % 256 := by omega
  have e3 : r / 65536 % 256 = r / 256 / 256 % 256 := by omega
  have e4 : r / 65536 / 256 % 256 = r / 256 / 256 / 256 % 256 := by omega
  rw [e1, e2, e3, e4]

/-- a map over a list as a map over its indices -/
theorem slrf_map_range {α : Type} (f : Nat → α) (ws : List Nat) :
    ws.map f = (List.range ws.length).map fun j => f (ws.getD j 0) := by
  apply List.ext_getElem
  · simp
  · intro j h1 h2
    simp only [List.getElem_map, List.getElem_range, List.getD, List.getElem?_eq_getElem (by simpa using h1),
      Option.getD_some]

/-! ### a list with a segment replaced -/

theorem slrf_splice_len (ws new : List Nat) (i : Nat) (hin : i + new.length ≤ ws.length) :
    (ws.take i ++ new ++ ws.drop (i + new.length)).length = ws.length := by
  simp only [List.length_append, List.length_take, List.length_drop]; omega

/-- outside the segment nothing changes -/
theorem slrf_splice_out (ws new : List Nat) (i x : Nat) (hin : i + new.length ≤ ws.length)
    (hx : x < i ∨ i + new.length ≤ x) : (ws.take i ++ new ++ ws.drop (i + new.length))[x]? = ws[x]? := by
  have hlt : (ws.take i).length = i := by simp only [List.length_take]; omega
  rcases hx with hx | hx
  · rw [List.append_assoc, List.getElem?_append_left (by omega), List.getElem?_take_of_lt hx]
  · rw [List.getElem?_append_right (by simp only [List.length_append, hlt]; omega)]
    simp only [List.length_append, hlt, List.getElem?_drop]
    congr 1; omega

/-- inside the segment are the new entries -/
theorem slrf_splice_in (ws new : List Nat) (i m : Nat) (hin : i + new.length ≤ ws.length) (hm : m < new.length) :
    (ws.take i ++ new ++ ws.drop (i + new.length))[i + m]? = new[m]? := by
  have hlt : (ws.take i).length = i := by simp only [List.length_take]; omega
  rw [List.append_assoc, List.getElem?_append_right (by omega), hlt, List.getElem?_append_left (by omega)]
  congr 1; omega

/-- entry m of a slice -/
theorem slrf_slice_get (ws : List Nat) (j n m : Nat) (hm : m < n) : ((ws.drop j).take n)[m]? = ws[j + m]? := by
  rw [List.getElem?_take_of_lt hm, List.getElem?_drop]

/-- a slice that avoids the replaced segment is unchanged -/
theorem slrf_slice_splice_out (ws new : List Nat) (i j n : Nat) (hin : i + new.length ≤ ws.length)
    (hd : i + new.length ≤ j ∨ j + n ≤ i) :
    ((ws.take i ++ new ++ ws.drop (i + new.length)).drop j).take n = (ws.drop j).take n := by
  apply List.ext_getElem?
  intro m
  by_cases hm : m < n
  · rw [slrf_slice_get _ j n m hm, slrf_slice_get _ j n m hm, slrf_splice_out ws new i (j + m) hin (by omega)]
  · rw [List.getElem?_eq_none (by simp only [List.length_take]; omega),
      List.getElem?_eq_none (by simp only [List.length_take]; omega)]

/-- exactly the replaced segment, read back -/
theorem slrf_slice_splice_same (ws new : List Nat) (i : Nat) (hin : i + new.length ≤ ws.length) :
    ((ws.take i ++ new ++ ws.drop (i + new.length)).drop i).take new.length = new := by
  apply List.ext_getElem?
  intro m
  by_cases hm : m < new.length
  · rw [slrf_slice_get _ i _ m hm, slrf_splice_in ws new i m hin hm]
  · rw [List.getElem?_eq_none (by simp only [List.length_take]; omega), List.getElem?_eq_none (by omega)]

theorem slrf_getD_of_get? (l : List Nat) (x : Nat) : l.getD x 0 = (l[x]?).getD 0 := rfl

end Pycomm.Slc.Drv
