/-
  LogixDriver.open(), symbol upload, target side: what the reference controller's Get_Instance_Attribute_List
  service answers to the client's request (one page), for every page schedule.
-/
import PycommModel.Logix.Open
import PycommProofs.UploadProofs
namespace Pycomm.Lgx.Opn
open Pycomm Pycomm.Tgt Pycomm.Path Pycomm.Reply Pycomm.Lgx

/-- the controller's encoding of a run of symbol records -/
def lo_encRecs (wa : Bool) (ss : List Symbol) : Bytes :=
  (ss.map fun s => encSymbolRecord s (Up.wantedAttrs wa)).flatten

/-- the attribute list of the client's request, as the controller parses it -/
theorem lo_parseAttrList (wa : Bool) :
    parseAttrList (le 2 (Up.wantedAttrs wa).length ++ ((Up.wantedAttrs wa).map (le 2)).flatten) =
      some (Up.wantedAttrs wa) := by
  cases wa <;> decide

/-- one page: a non-empty prefix of the symbols still to deliver (if there are any), whatever quota and capacity -/
theorem lo_takePage (attrs : List Nat) (cap : Nat) :
    ∀ (todo : List Symbol) (quota : Nat) (acc : Bytes) (n : Nat),
    ∃ pre left, todo = pre ++ left ∧
      takePage todo attrs quota cap acc n = (acc ++ (pre.map fun s => encSymbolRecord s attrs).flatten, left) ∧
      (n = 0 → todo ≠ [] → pre ≠ []) := by
  intro todo
  induction todo with
  | nil =>
    intro quota acc n
    exact ⟨[], [], rfl, by simp [takePage], fun _ h => absurd rfl h⟩
  | cons s rest ih =>
    intro quota acc n
    unfold takePage
    dsimp only
    split
    · rename_i hc
      exact ⟨[], s :: rest, rfl, by simp, fun h0 _ => by omega⟩
    · obtain ⟨pre, left, e, ht, _⟩ := ih (quota - 1) (acc ++ encSymbolRecord s attrs) (n + 1)
      refine ⟨s :: pre, left, by rw [e]; rfl, ?_, fun _ _ => by simp⟩
      rw [ht]
      simp [List.append_assoc]

/-- the symbols with instance id ≥ `start` -/
def lo_from (syms : List Symbol) (start : Nat) : List Symbol := syms.filter (·.inst ≥ start)

theorem lo_from_zero (syms : List Symbol) : lo_from syms 0 = syms := by
  unfold lo_from
  rw [List.filter_eq_self]
  intro a _
  simp

/-- the symbol list is sorted by strictly increasing instance id (what the service's `instance ≥ start` filter relies
    on: 1756-PM020 "instances are returned in ascending order") -/
def lo_Sorted (syms : List Symbol) : Prop := syms.Pairwise (fun a b => a.inst < b.inst)

/-- after a page that ended with symbol `s`, the symbols from `s.inst + 1` on are exactly the ones not yet delivered -/
theorem lo_from_next (syms : List Symbol) (hs : lo_Sorted syms) (start : Nat) (pre left : List Symbol) (s : Symbol)
    (h : lo_from syms start = pre ++ [s] ++ left) : lo_from syms (s.inst + 1) = left := by
  have hsub : (pre ++ [s] ++ left).Pairwise (fun a b => a.inst < b.inst) := by
    rw [← h]
    exact List.Pairwise.sublist List.filter_sublist hs
  have hsm : s ∈ lo_from syms start := by rw [h]; simp
  have hge : s.inst ≥ start := by
    have := (List.mem_filter.1 hsm).2
    simpa using this
  have e1 : lo_from syms (s.inst + 1) = (lo_from syms start).filter (·.inst ≥ s.inst + 1) := by
    unfold lo_from
    rw [List.filter_filter]
    apply List.filter_congr
    intro x _
    by_cases hx : x.inst ≥ s.inst + 1
    · have : x.inst ≥ start := by omega
      simp [hx, this]
    · simp [hx]
  rw [e1, h]
  rw [List.pairwise_append] at hsub
  obtain ⟨hps, hl, hcross⟩ := hsub
  rw [List.pairwise_append] at hps
  obtain ⟨_, _, hcp⟩ := hps
  rw [List.filter_append, List.filter_append]
  have f1 : pre.filter (·.inst ≥ s.inst + 1) = [] := by
    rw [List.filter_eq_nil_iff]
    intro a ha
    have := hcp a ha s (by simp)
    simp; omega
  have f2 : [s].filter (·.inst ≥ s.inst + 1) = [] := by simp
  have f3 : left.filter (·.inst ≥ s.inst + 1) = left := by
    rw [List.filter_eq_self]
    intro a ha
    have := hcross s (by simp) a ha
    simp; omega
  rw [f1, f2, f3]
  rfl

/-- the symbol-list service (controller scope) on the client's request: it answers a page — a prefix `pre` of the
    symbols still to deliver (`lo_from … start = pre ++ left`), non-empty if anything is left to deliver — with
    status 6 when symbols remain and 0 when the list is finished; only the schedule counter of the state advances.
    `hrev`: attribute 10 (external access) is only asked of a controller that has it (firmware ≥ 18). -/
theorem lo_symbolList (st : LState) (wa : Bool) (start cap : Nat) (hrev : wa = true → 18 ≤ st.rev) :
    ∃ pre left, lo_from st.proj.controller start = pre ++ left ∧
      (lo_from st.proj.controller start ≠ [] → pre ≠ []) ∧
      symbolList st none start
          (le 2 (Up.wantedAttrs wa).length ++ ((Up.wantedAttrs wa).map (le 2)).flatten) cap =
        ({ st with ctr := st.ctr + 1 }, { status := if left.isEmpty then 0 else 6, data := lo_encRecs wa pre }) := by
  obtain ⟨pre, left, e, ht, hne⟩ := lo_takePage (Up.wantedAttrs wa) cap (lo_from st.proj.controller start)
    (cyc st.proj.pageSchedule st.ctr 1000000) [] 0
  refine ⟨pre, left, e, hne rfl, ?_⟩
  unfold symbolList
  rw [lo_parseAttrList]
  dsimp only
  have hattr : ¬ (((Up.wantedAttrs wa).any fun a => !(([1, 2, 3, 5, 6, 8, 10] : List Nat).contains a)) = true ∨
      ((Up.wantedAttrs wa).contains 10 = true ∧ st.rev < 18)) := by
    cases wa
    · intro h
      rcases h with h | ⟨h, _⟩
      · revert h; decide
      · revert h; decide
    · have := hrev rfl
      intro h
      rcases h with h | ⟨_, h⟩
      · revert h; decide
      · omega
  rw [if_neg hattr]
  unfold lo_from at ht
  rw [ht]
  simp [lo_encRecs]

end Pycomm.Lgx.Opn
