/-
  LogixDriver.open(), `_create_tag` / `_isolate_user_tags` / `get_tag_list` for elementary (non-structure) symbols:
  what the model of `open()` computes from the uploaded records is what `Drv.tagDbOf` computes from the project.
-/
import PycommProofs.LOpenSymbols
import PycommProofs.LogixDriverRead
namespace Pycomm.Lgx.Opn
open Pycomm Pycomm.Tgt Pycomm.Path Pycomm.Reply Pycomm.Encap Pycomm.Lgx Pycomm.Lgx.E2E Pycomm.Lgx.Drv

/-- the fields of a tag definition outside `Drv.TagInfo`, for an elementary symbol: alias flag (software control bit
    26 clear), instance id, addresses, software control word, external-access text (`Unknown` when the attribute was
    not uploaded), the bit position of a BOOL -/
def lo_metaOf (wa : Bool) (s : Symbol) : TagMeta :=
  { alias := K.isAlias s.attr6, instanceId := s.inst, symbolAddress := s.attr3, symbolObjectAddress := s.attr5,
    softwareControl := s.attr6, externalAccess := externalAccessText (if wa then some s.access else none),
    templateInstanceId := none,
    bitPosition := if s.symbolType % 256 = 0xC1 then some (s.symbolType / 256 % 8) else none }

theorem lo_dims3 (l : List Nat) : ((l ++ [0, 0, 0]).take 3 ++ [0, 0, 0]).take 3 = (l ++ [0, 0, 0]).take 3 := by
  match l with
  | [] => rfl
  | [_] => rfl
  | [_, _] => rfl
  | _ :: _ :: _ :: _ => rfl

/-- `_create_tag` on the uploaded record of an elementary symbol: no request is sent, and the definition is the one
    `Drv.createTag` (the helper of `Drv.tagDbOf`) computes from the symbol, together with `lo_metaOf`; a type code
    outside the model's table is the `unmodelled` outcome on both sides -/
theorem lo_createTag_atomic {σ} (hook : ObjHook σ) (st : St σ) (p : Project) (s : Symbol) (wa : Bool)
    (hns : s.symbolType / 32768 % 2 = 0) :
    createTag hook st (Up.recOfSymbol wa s) =
      (st, match Drv.createTag p s with
           | some info => .ok (info, lo_metaOf wa s)
           | none => .error unmodelled) := by
  have h1 : (K.decodeTypeWord s.symbolType).isStruct = false := by simp [K.decodeTypeWord, hns]
  have h2 : (K.decodeTypeWord (Up.recOfSymbol wa s).symbolType).isStruct = false := h1
  unfold createTag Drv.createTag
  simp only [h1, h2, Bool.false_eq_true, if_false]
  simp only [Up.recOfSymbol, lo_dims3]
  cases hat : Drv.atomicOfCode (K.decodeTypeWord s.symbolType).atomicCode with
  | none => rfl
  | some nt =>
    obtain ⟨name, t⟩ := nt
    simp only [lo_metaOf, K.decodeTypeWord]
    rfl

/-- `_isolate_user_tags` (controller scope) on the uploaded records of symbols whose user tags are all elementary,
    when `Drv.userTags` succeeds: no request is sent, the caches are untouched, only `_info` is updated, and the tag
    definitions are exactly those of `Drv.userTags`, each with its `lo_metaOf` -/
theorem lo_isolate_atomic {σ} (hook : ObjHook σ) (p : Project) (wa : Bool) :
    ∀ (syms : List Symbol) (st : St σ) (ys : List (Name × TagInfo)),
    (∀ s ∈ syms, K.keepSymbol s.name s.symbolType = true → s.symbolType / 32768 % 2 = 0) →
    Drv.userTags p [] syms = some ys →
    ∃ info xs, isolateUserTags hook none st (syms.map (Up.recOfSymbol wa)) =
        ({ st with l := { st.l with info := info } }, .ok xs) ∧
      xs.map (fun x => (x.1, x.2.1)) = ys ∧
      xs.map (fun x => (x.1, x.2.2)) =
        (syms.filter fun s => K.keepSymbol s.name s.symbolType).map (fun s => (s.name, lo_metaOf wa s)) := by
  intro syms
  induction syms with
  | nil =>
    intro st ys _ hy
    simp only [Drv.userTags, List.filter_nil, List.mapM_nil, Option.pure_def, Option.some.injEq] at hy
    subst hy
    exact ⟨st.l.info, [], rfl, rfl, rfl⟩
  | cons s syms ih =>
    intro st ys hat hy
    have hat' : ∀ s' ∈ syms, K.keepSymbol s'.name s'.symbolType = true → s'.symbolType / 32768 % 2 = 0 :=
      fun s' hs' => hat s' (List.mem_cons_of_mem _ hs')
    rw [List.map_cons]
    unfold isolateUserTags
    have hrn : (Up.recOfSymbol wa s).name = s.name := rfl
    have hrt : (Up.recOfSymbol wa s).symbolType = s.symbolType := rfl
    rw [hrn, hrt]
    cases hk : K.keepSymbol s.name s.symbolType with
    | false =>
      have hy' : Drv.userTags p [] syms = some ys := by
        unfold Drv.userTags at hy ⊢
        rw [List.filter_cons, hk] at hy
        exact hy
      simp only [Bool.not_false, if_true]
      obtain ⟨info, xs, h1, h2, h3⟩ := ih { st with l := { st.l with info := noteSymbol none st.l.info (Up.recOfSymbol wa s) } } ys hat' hy'
      refine ⟨info, xs, h1, h2, ?_⟩
      rw [h3, List.filter_cons, hk]
      rfl
    | true =>
      simp only [Bool.not_true, Bool.false_eq_true, if_false]
      unfold Drv.userTags at hy
      rw [List.filter_cons, hk] at hy
      simp only [if_true] at hy
      rw [List.mapM_cons] at hy
      cases hc : Drv.createTag p s with
      | none => rw [hc] at hy; cases hy
      | some i =>
        cases hr : (syms.filter fun s => K.keepSymbol s.name s.symbolType).mapM
            (fun s => (Drv.createTag p s).map fun i => (([] : Name) ++ s.name, i)) with
        | none => rw [hc, hr] at hy; cases hy
        | some bs =>
          rw [hc, hr] at hy
          simp only [Option.map_some, Option.bind_eq_bind, Option.bind_some, Option.pure_def, List.nil_append,
            Option.some.injEq] at hy
          subst hy
          rw [lo_createTag_atomic hook _ p s wa (hat s List.mem_cons_self hk), hc]
          dsimp only
          obtain ⟨info, xs, h1, h2, h3⟩ := ih { st with l := { st.l with info := noteSymbol none st.l.info (Up.recOfSymbol wa s) } } bs hat' hr
          rw [h1]
          refine ⟨info, (s.name, i, lo_metaOf wa s) :: xs, rfl, ?_, ?_⟩
          · rw [List.map_cons, h2]
          · rw [List.map_cons, h3, List.filter_cons, hk]
            rfl

end Pycomm.Lgx.Opn
