/-
  LogixDriver.read of a MEMBER PATH of any depth, the layers composed:
    `ldr4_read_path_any`   `read("base[i].m1[j]. … .last")` for whatever `parse_read_reply` makes of type marker + the bytes
                           at the end of the walk (any element type)
    `ldr4_read_path_leaf`  … when the last member is of an elementary type: the value decoded from exactly its bytes
-/
import PycommProofs.LDRead4B
import PycommProofs.LDRead3Tag
namespace Pycomm.Lgx.Drv
open Pycomm Pycomm.Tgt Pycomm.Path Pycomm.Reply Pycomm.Encap Pycomm.Lgx Pycomm.Lgx.E2E

/-- the levels of a member path as written: the tag (with its indexes), then the steps -/
def ldr4_levels (name : Name) (idx0 : List Nat) (hops : List ldr4_Hop) : List TagLevel :=
  ⟨name, idx0⟩ :: hops.map (·.level)

/-- the request string of a member path -/
def ldr4_pathStr (name : Name) (idx0 : List Nat) (hops : List ldr4_Hop) : Name := renderTag (ldr4_levels name idx0 hops)

/-- at the end of a legal walk at least one element is available -/
theorem ldr4_avail_pos (p : Project) : ∀ (hops : List ldr4_Hop) (cur final : ElTy) (a : Nat), 1 ≤ a →
    ldr4_Chain p cur hops final → 1 ≤ ldr4_avail a hops
  | [], _, _, a, ha, _ => ha
  | h :: rest, cur, final, a, _, hc => by
    simp only [ldr4_Chain] at hc
    obtain ⟨tid, _, hok, hrest⟩ := hc
    have h1 : 1 ≤ h.avail := by
      unfold ldr4_Hop.avail
      rcases hok.index with hi | ⟨i, hi, hlt⟩
      · rw [hi]; simp only [List.headD_nil]; split <;> omega
      · rw [hi]; simp only [List.headD_cons]; split <;> omega
    exact ldr4_avail_pos p rest h.ty final h.avail h1 hrest

/-- an accepted (row-major) linear index is below the number of elements -/
theorem ldr4_linearIndex_lt (dims idx : List Nat) (li : Nat) (h : linearIndex dims idx = some li) :
    li < dimsProduct dims := by
  have hbound : ∀ (ps : List (Nat × Nat)) (acc tot : Nat), acc < tot → (∀ q ∈ ps, q.1 < q.2) →
      ps.foldl (fun acc q => acc * q.2 + q.1) acc < ps.foldl (fun acc q => acc * q.2) tot := by
    intro ps
    induction ps with
    | nil => intro acc tot h _; exact h
    | cons q ps ih =>
      intro acc tot h hq
      simp only [List.foldl_cons]
      apply ih
      · have h1 := hq q (by simp)
        have : (acc + 1) * q.2 ≤ tot * q.2 := Nat.mul_le_mul_right _ h
        rw [Nat.add_mul, Nat.one_mul] at this
        omega
      · intro q' hq'; exact hq q' (by simp [hq'])
  have hprod : ∀ (xs : List Nat) (ys : List Nat) (tot : Nat), xs.length = ys.length →
      (xs.zip ys).foldl (fun acc q => acc * q.2) tot = ys.foldl (· * ·) tot := by
    intro xs
    induction xs with
    | nil =>
      intro ys tot h
      cases ys with
      | nil => rfl
      | cons _ _ => simp at h
    | cons x xs ih =>
      intro ys tot h
      cases ys with
      | nil => simp at h
      | cons y ys =>
        simp only [List.zip_cons_cons, List.foldl_cons]
        exact ih ys _ (by simpa using h)
  unfold linearIndex at h
  dsimp only at h
  split at h
  · cases h
  · split at h
    · cases h
    · rename_i hlen hany
      simp only [Option.some.injEq] at h
      have hzip : ∀ q ∈ idx.zip (dims.filter (· != 0)), q.1 < q.2 := by
        intro q hq
        have h1 : ¬ (q.1 ≥ q.2) := by
          intro hge
          apply hany
          rw [List.any_eq_true]
          exact ⟨q, hq, by simpa using hge⟩
        omega
      have hlt := hbound (idx.zip (dims.filter (· != 0))) 0 1 (by omega) hzip
      rw [hprod idx _ 1 (by simpa using hlen), h] at hlt
      exact hlt

theorem ldr4_flatMap_levels (name : Name) (idx0 : List Nat) (hops : List ldr4_Hop) :
    (ldr4_levels name idx0 hops).flatMap levelSegs = levelSegs ⟨name, idx0⟩ ++ ldr4_segs hops := by
  simp [ldr4_levels, ldr4_segs, List.flatMap_map]

theorem ldr4_getLast_levels (hops : List ldr4_Hop) : (hops.map (·.level)).getLast? = hops.getLast?.map (·.level) :=
  List.getLast?_map ..

/-- `read` of a member path of a controller-scope structure tag (or of an element of an array of structures): one plain
    Read Tag with a symbolic request path; the Tag carries what `parse_read_reply` makes of the controller's type marker
    and the `esz` bytes at byte `li · (structure size) + ldr4_offset hops` of the TAG's memory -/
theorem ldr4_read_path_any (cfg : Cfg) (w : Cli.World Ext) (sess : Nat) (cidb : Bytes) (conn : Conn)
    (st : LState) (s : Symbol) (tid0 : Nat) (tm0 : Template) (idx0 : List Nat) (li : Nat) (hops : List ldr4_Hop)
    (final : ElTy) (info leaf : TagInfo) (esz : Nat) (v : PyVal) (dt : Name)
    (hw : ldr_Healthy w sess cidb conn) (hlogix : w.net.target.ext.logix = some st)
    (hs : s ∈ st.proj.controller)
    (hbytes : ∀ s' ∈ st.proj.controller, ∀ ch ∈ s'.name, ch < 256)
    (huniqN : ∀ s' ∈ st.proj.controller, s'.name = s.name → s' = s)
    (huniqI : ∀ s' ∈ st.proj.controller, s'.inst = s.inst → s' = s)
    (hl0 : ldr2_Level ⟨s.name, idx0⟩)
    (hty : elTyOfWord s.symbolType = .struct tid0) (htm0 : st.proj.template? tid0 = some tm0)
    (hidx : (idx0 = [] ∧ li = 0) ∨ (idx0 ≠ [] ∧ linearIndex s.dims idx0 = some li))
    (hne : hops ≠ []) (hchain : ldr4_Chain st.proj (.struct tid0) hops final)
    (hlv : ∀ h ∈ hops, ldr2_Level h.level)
    (hnum : ∀ h, hops.getLast? = some h → PyStr.isDigit h.m.name = false)
    (hsize : ldr4_pathSize (ldr4_levels s.name idx0 hops) ≤ 500)
    (hnb : ∀ b, final ≠ .boolBit b) (hesz : st.proj.elSize final = some esz) (hpos : 0 < esz)
    (hin : li * tm0.size + ldr4_offset hops + esz ≤ s.mem.length)
    (hget : cfg.tags.get? s.name = some info) (hk : info.core.tagType = .struct)
    (hpath : ldr4_InfoPath info.members (hops.map (·.m.name)) leaf)
    (hnd : leaf.core.dataTypeName ≠ nm "DWORD") (hinst : leaf.core.instanceId = none)
    (hreply : parseReadReply (typeBytes st.proj final ++ (s.mem.drop (li * tm0.size + ldr4_offset hops)).take esz) leaf 1 =
      .ok (v, dt)) (hvn : v ≠ .none)
    (hC : tagReturnSize leaf 1 + ldr4_pathSize (ldr4_levels s.name idx0 hops) + 8 ≤ w.drv.connectionSize)
    (hT : esz + ldr4_pathSize (ldr4_levels s.name idx0 hops) + 10 ≤ conn.size) :
    ∃ w' frm, read hookAll cfg w [ldr4_pathStr s.name idx0 hops] =
        (w', .ok [{ tag := ldr4_pathStr s.name idx0 hops, value := v, type := some dt, error := none }]) ∧
      w'.drv = w.drv.nextSeq.2 ∧ w'.net.sent = w.net.sent ++ [frm] ∧
      w'.net.target.ext = { w.net.target.ext with logix := some { st with ctr := st.ctr + 1 } } ∧
      ldr_Healthy w' sess cidb { conn with lastSeq := some w.drv.nextSeq.1 } := by
  have hndw : isDword leaf = false := by
    have : (leaf.core.dataTypeName == nm "DWORD") = false := by simpa using hnd
    simp [isDword, this]
  have hmem : s.mem ≠ [] := by
    intro h; rw [h, List.length_nil] at hin; omega
  have hlvs : ∀ l ∈ hops.map (·.level), ldr2_Level l := by
    intro l hl
    obtain ⟨h, hh, rfl⟩ := List.mem_map.1 hl
    exact hlv h hh
  have hall : ∀ l ∈ ldr4_levels s.name idx0 hops, ldr2_Level l := by
    intro l hl
    rcases List.mem_cons.1 hl with rfl | hl
    · exact hl0
    · exact hlvs l hl
  -- (a)
  have hparse := ldr4_parse_path cfg.tags false 0 ⟨s.name, idx0⟩ (hops.map (·.level)) info leaf hl0 hlvs
    (by simpa using hne)
    (by intro l hl
        rw [ldr4_getLast_levels] at hl
        cases hg : hops.getLast? with
        | none => rw [hg] at hl; cases hl
        | some h =>
          rw [hg] at hl
          simp only [Option.map_some, Option.some.injEq] at hl
          subst hl
          exact hnum h hg)
    hget hk (by simpa [ldr4_Hop.level, List.map_map, Function.comp_def] using hpath) hndw
  -- (b)
  obtain ⟨path, hpathOk, hpl, hden⟩ := ldr4_requestPath cfg (ldr4_levels s.name idx0 hops) leaf (by simp [ldr4_levels]) hall
    (by omega) hinst
  rw [ldr4_flatMap_levels] at hden
  -- (d)
  have hr := ldr4_resolve_path st.proj s tid0 tm0 idx0 li hops final hl0.1 hs hbytes huniqN hty htm0 hmem hidx hchain
  have hdp : 1 ≤ dimsProduct s.dims - li := by
    rcases hidx with ⟨_, rfl⟩ | ⟨h0, hli⟩
    · have := ldr_dimsProduct_pos s.dims; omega
    · have := ldr4_linearIndex_lt s.dims idx0 li hli; omega
  have hav := ldr4_avail_pos st.proj hops (.struct tid0) final (dimsProduct s.dims - li) hdp hchain
  have hbts := ldr4_readBytes st.proj s (li * tm0.size + ldr4_offset hops) final
    (ldr4_avail (dimsProduct s.dims - li) hops) esz 1 hs huniqI hnb hesz (by omega)
  rw [Nat.one_mul] at hbts
  have htb : (typeBytes st.proj final).length ≤ 4 := by
    cases final <;> simp [typeBytes, le, RT.leBytes_length]
  have hbl : ((s.mem.drop (li * tm0.size + ldr4_offset hops)).take esz).length ≤ esz := by
    rw [List.length_take]; exact Nat.min_le_left _ _
  obtain ⟨w', frm, hread, hrest⟩ := ldr3_read_single cfg w sess cidb conn st (ldr4_pathStr s.name idx0 hops) _ leaf path
    _ _ 1 _ v dt hw hlogix hparse rfl rfl rfl rfl hpathOk hden (by omega) hr
    ⟨Nat.le_refl 1, hav, by omega⟩ hbts hreply (by omega) (by omega)
    (by show _ + 6 + (typeBytes st.proj final).length ≤ conn.size; omega)
  refine ⟨w', frm, ?_, hrest⟩
  rw [hread]
  have hresult := ldr_readResult
    { requestId := 0, requestTag := ldr4_pathStr s.name idx0 hops, userTag := ldr4_pathStr s.name idx0 hops,
      plcTag := ldr4_pathStr s.name idx0 hops, bit := none, elements := 1, info := some leaf, boolElements := none } leaf
    { tag := ldr4_pathStr s.name idx0 hops, value := v, type := some dt, error := none }
    rfl rfl rfl hnd hvn rfl
  dsimp only [ldr4_pathStr, ldr4_levels] at hresult ⊢
  rw [hresult]

/-- what the `internal_tags` say about an elementary member that is not a BOOL or a bit string: an atomic entry whose
    `type_class` is the elementary class (scalar member) or an `ArrayType` of it (array member); no instance id -/
structure ldr4_LeafOf (leaf : TagInfo) (name : Name) (t : Ty) : Prop where
  kind : leaf.core.tagType = .atomic
  typeName : leaf.core.dataTypeName = name
  ty : leaf.core.ty = t ∨ ∃ n, leaf.core.ty = .arr (.fixed n) t
  instanceId : leaf.core.instanceId = none
  struct : leaf.core.struct = none

/-- (e) `parse_read_reply` of one element of an elementary member, scalar or element of an array member: the value
    the codec decodes from the bytes after the type code -/
theorem ldr4_parseReadReply_leaf (leaf : TagInfo) (c sz : Nat) (name : Name) (t : Ty) (mem : Bytes) (off : Nat)
    (v : PyVal) (rest : Bytes)
    (hleaf : ldr4_LeafOf leaf name t) (hat : atomicOfCode c = some (name, t)) (hb : t.isBits = none)
    (hsz : atomicSize c = some sz) (hdec : decode t (mem.drop off) = .ok (v, rest)) :
    parseReadReply (le 2 c ++ (mem.drop off).take sz) leaf 1 = .ok (v, name) := by
  obtain ⟨haty, hentry, hndw, hpos, hle8⟩ := ldr_atomic_table c sz name t hat hb hsz
  rcases hleaf.ty with hty | ⟨n, hty⟩
  · obtain ⟨hshape, hts⟩ := ldr2_atomic_shape c sz t haty hb hsz
    obtain ⟨_, hpre⟩ := ldr2_decode_prefix t hshape _ v rest hdec
    have hdec' : decode t ((mem.drop off).take sz) = .ok (v, []) := by
      have := hpre []
      rwa [hts, List.append_nil] at this
    exact ldr_parseReadReply leaf c t name _ [] v hty hleaf.typeName hndw haty hb hdec'
  · have h := ldr2_parseReadReply_arr leaf c sz n t name mem off 1 [v] hty hleaf.typeName hndw haty hb hsz (Nat.le_refl 1) rfl
      (by intro k hk
          have hk0 : k = 0 := by simpa using hk
          subst hk0
          exact ⟨rest, by simpa using hdec⟩)
    simpa [ldr2_value, ldr2_typeStr] using h

/-- `read` of a member path that ends at an elementary (non-BOOL, non-bit-string) member: the value is decoded from
    exactly the leaf's bytes inside the TAG's memory — byte offset = linear index · structure size + the sum of the
    steps' offsets (member offset + element index · element size) -/
theorem ldr4_read_path_leaf (cfg : Cfg) (w : Cli.World Ext) (sess : Nat) (cidb : Bytes) (conn : Conn)
    (st : LState) (s : Symbol) (tid0 : Nat) (tm0 : Template) (idx0 : List Nat) (li : Nat) (hops : List ldr4_Hop)
    (info leaf : TagInfo) (c sz : Nat) (name : Name) (t : Ty) (v : PyVal) (rest : Bytes)
    (hw : ldr_Healthy w sess cidb conn) (hlogix : w.net.target.ext.logix = some st)
    (hs : s ∈ st.proj.controller)
    (hbytes : ∀ s' ∈ st.proj.controller, ∀ ch ∈ s'.name, ch < 256)
    (huniqN : ∀ s' ∈ st.proj.controller, s'.name = s.name → s' = s)
    (huniqI : ∀ s' ∈ st.proj.controller, s'.inst = s.inst → s' = s)
    (hl0 : ldr2_Level ⟨s.name, idx0⟩)
    (hty : elTyOfWord s.symbolType = .struct tid0) (htm0 : st.proj.template? tid0 = some tm0)
    (hidx : (idx0 = [] ∧ li = 0) ∨ (idx0 ≠ [] ∧ linearIndex s.dims idx0 = some li))
    (hne : hops ≠ []) (hchain : ldr4_Chain st.proj (.struct tid0) hops (.atomic c))
    (hlv : ∀ h ∈ hops, ldr2_Level h.level)
    (hnum : ∀ h, hops.getLast? = some h → PyStr.isDigit h.m.name = false)
    (hsize : ldr4_pathSize (ldr4_levels s.name idx0 hops) ≤ 500)
    (hat : atomicOfCode c = some (name, t)) (hb : t.isBits = none) (hsz : atomicSize c = some sz)
    (hin : li * tm0.size + ldr4_offset hops + sz ≤ s.mem.length)
    (hget : cfg.tags.get? s.name = some info) (hk : info.core.tagType = .struct)
    (hpath : ldr4_InfoPath info.members (hops.map (·.m.name)) leaf) (hleaf : ldr4_LeafOf leaf name t)
    (hdec : decode t (s.mem.drop (li * tm0.size + ldr4_offset hops)) = .ok (v, rest))
    (hC : ldr4_pathSize (ldr4_levels s.name idx0 hops) + 16 ≤ w.drv.connectionSize)
    (hT : ldr4_pathSize (ldr4_levels s.name idx0 hops) + 18 ≤ conn.size) :
    ∃ w' frm, read hookAll cfg w [ldr4_pathStr s.name idx0 hops] =
        (w', .ok [{ tag := ldr4_pathStr s.name idx0 hops, value := v, type := some name, error := none }]) ∧
      w'.drv = w.drv.nextSeq.2 ∧ w'.net.sent = w.net.sent ++ [frm] ∧
      w'.net.target.ext = { w.net.target.ext with logix := some { st with ctr := st.ctr + 1 } } ∧
      ldr_Healthy w' sess cidb { conn with lastSeq := some w.drv.nextSeq.1 } := by
  obtain ⟨haty, hentry, hndw, hpos, hle8⟩ := ldr_atomic_table c sz name t hat hb hsz
  have hrs : tagReturnSize leaf 1 = sz := by
    simp [tagReturnSize, hleaf.struct, hleaf.typeName, hentry]
  have hreply := ldr4_parseReadReply_leaf leaf c sz name t s.mem (li * tm0.size + ldr4_offset hops) v rest hleaf hat hb hsz hdec
  exact ldr4_read_path_any cfg w sess cidb conn st s tid0 tm0 idx0 li hops (.atomic c) info leaf sz v name hw hlogix hs
    hbytes huniqN huniqI hl0 hty htm0 hidx hne hchain hlv hnum hsize (fun b e => by cases e) hsz hpos hin hget hk hpath
    (by rw [hleaf.typeName]; exact hndw) hleaf.instanceId hreply (ldr_decode_not_none c t haty hb _ rest v hdec)
    (by rw [hrs]; omega) (by omega)

end Pycomm.Lgx.Drv
