/-
  C01 at the driver level, third part: data larger than one reply, structure members, strings, structures.
  `LogixDriver.read` through the whole stack of the model (tag-string parsing, tag database, request building,
  `CIPDriver.send`, encapsulation, the reference target's encapsulation layer / message router / Logix services,
  reply framing, response classes, value decoding, result assembly) for
    * a slice `name[i]{n}` / `name{n}` of an elementary array whose data does not fit the connection: Read Tag
      Fragmented, one request per fragment the controller delivers, for EVERY fragment schedule;
    * an elementary member `udt.member` of a structure tag;
    * a string tag (LEN/DATA structure recognised as a string type);
    * a whole structure tag (dict of the visible members);
    * a structure / string tag that does not fit the connection (Read Tag Fragmented again).

  Layers (lemmas usable on their own):
    LDRead3Frag   `ldr3_fragSizes`, `ldr3_fragSizes_sum`, `ldr3_build_frag`, `ldr3_tagResp_frag`,
                  `ldr3_sendUnit_readFrag`, `ldr3_frag_loop`, `ldr3_read_single_frag`
    LDRead3Array  `ldr3_read_array_frag`
    LDRead3Core   `ldr3_sendUnit_read`, `ldr3_read_single` (any element type: the reply carries `typeBytes`)
    LDRead3Struct `ldr3_parse_member`, `ldr3_requestPath_member`, `ldr3_resolve_struct`, `ldr3_resolve_member`,
                  `ldr3_readBytes_struct`, `ldr3_readBytes_member`
    LDRead3Reply  `ldr3_decode_fixedStr`, `ldr3_parseReadReply_string`, `ldr3_parseReadReply_struct`, `ldr3_rekey_id`
    LDRead3Tag    `ldr3_read_member`, `ldr3_read_structTag`, `ldr3_read_structTag_frag`
-/
import PycommProofs.LDRead3Array
import PycommProofs.LDRead3Tag
import PycommProofs.LogixDriverRead2
namespace Pycomm.Lgx.Drv
open Pycomm Pycomm.Tgt Pycomm.Path Pycomm.Reply Pycomm.Encap Pycomm.Lgx Pycomm.Lgx.E2E

/-- the reply type marker of a structure: `A0 02` and the 16-bit structure handle of the template -/
theorem ldr3_typeBytes_struct (p : Project) (tid : Nat) (tm : Template) (htm : p.template? tid = some tm) :
    typeBytes p (.struct tid) = [0xA0, 0x02] ++ le 2 tm.handle := by
  simp [typeBytes, htm]

-- PROPERTY THEOREMS

/-- C01, driver level, data larger than the connection: reading `n ≥ 2` elements from element `i` of a
    controller-scope one-dimensional array of an elementary (non-bit-string) type, requested as `name[i]{n}`, when the
    estimated answer does NOT fit the driver's connection size. The driver (`_read_build_single_request`) then builds
    a Read Tag Fragmented request and `_send_read_fragmented` asks again at the byte offset reached while the
    controller answers "partial transfer" (status 6). Whatever sizes the controller's schedule `readSchedule` yields
    for the fragments (`ldr3_fragSizes`: each ≥ 1 byte, together `n * sz` bytes — `ldr3_fragSizes_sum`), `read`
    returns ONE error-free Tag named `name[i]` (without the `{n}` suffix) whose value is the list of the `n` values
    the codec decodes from the memory at bytes `(i + k) * sz`, with type string `T[n]`. Exactly one frame per
    fragment is written (`fs.length` = number of fragments); one sequence number per fragment and one more (the
    discarded plain Read Tag packet) are drawn; the controller's project is unchanged (its schedule counter advances
    by one per fragment); the resulting world is healthy again.

    Hypotheses: those of `read_atomic_slice_e2e` on the world, the symbol and the tag-database entry, and
    * `hfrag`  the size condition under which the model chooses Read Tag Fragmented, exactly as `_read_build_requests`
               tests it: `_tag_return_size` (n · element size) + the length of the built Read Tag request
               (request path + 5) + 2 exceeds the connection size. (`connectionSize < n * sz + 7` suffices.)
    * `hfuel`  the data are at most `FRAG_FUEL` = 70000 bytes — the bound of the model's loop (the real loop has none);
    * `hT`     the fixed-size fragment requests (request path + 9 bytes) fit the size the target granted. -/
theorem read_fragmented_slice_e2e (cfg : Cfg) (w : Cli.World Ext) (sess : Nat) (cidb : Bytes) (conn : Conn)
    (st : LState) (s : Symbol) (info : TagInfo) (c sz dim i n : Nat) (name : Name) (t : Ty) (vs : List PyVal)
    (hw : ldr_Healthy w sess cidb conn) (hlogix : w.net.target.ext.logix = some st)
    (hs : s ∈ st.proj.controller)
    (hbytes : ∀ s' ∈ st.proj.controller, ∀ ch ∈ s'.name, ch < 256)
    (huniqN : ∀ s' ∈ st.proj.controller, s'.name = s.name → s' = s)
    (huniqI : ∀ s' ∈ st.proj.controller, s'.inst = s.inst → s' = s)
    (hid : PlainIdent s.name) (hinst : s.inst < 2 ^ 32)
    (hty : elTyOfWord s.symbolType = .atomic c) (hat : atomicOfCode c = some (name, t)) (hb : t.isBits = none)
    (hsz : atomicSize c = some sz)
    (hdims : s.dims.filter (· != 0) = [dim]) (hlen : s.mem.length = dim * sz)
    (hget : cfg.tags.get? s.name = some info) (hinfo : ldr_InfoOf info name (.arr (.fixed dim) t) s.inst)
    (hi32 : i < 2 ^ 32) (hn : 2 ≤ n) (hn16 : n ≤ 65535) (hin : i + n ≤ dim)
    (hvs : vs.length = n)
    (hdec : ∀ k (h : k < vs.length), ∃ rest, decode t (s.mem.drop ((i + k) * sz)) = .ok (vs[k], rest))
    (hfuel : n * sz ≤ FRAG_FUEL)
    (hfrag : ∀ path, requestPathOf cfg (s.name ++ [91] ++ decRender i ++ [93]) info = .ok path →
      w.drv.connectionSize < n * sz + path.length + 7)
    (hT : s.name.length + 28 ≤ conn.size) :
    ∃ w' fs ls', read hookAll cfg w [s.name ++ [91] ++ decRender i ++ [93] ++ [123] ++ decRender n ++ [125]] =
        (w', .ok [{ tag := s.name ++ [91] ++ decRender i ++ [93], value := .list vs,
                    type := some (name ++ [91] ++ renderDec (n : Nat) ++ [93]), error := none }]) ∧
      w'.drv = ldr3_seqs (fs.length + 1) w.drv ∧ w'.net.sent = w.net.sent ++ fs ∧
      fs.length = (ldr3_fragSizes st.proj.readSchedule (conn.size - 8) (n * sz) FRAG_FUEL st.ctr 0).length ∧
      w'.net.target.ext = { w.net.target.ext with logix := some { st with ctr := st.ctr + fs.length } } ∧
      ldr_Healthy w' sess cidb { conn with lastSeq := ls' } := by
  have h := ldr3_read_array_frag cfg w sess cidb conn st s info c sz dim name t [i] i (some n) vs (Or.inl rfl) hw hlogix hs
    hbytes huniqN huniqI hid hinst hty hat hb hsz hdims hlen hget hinfo hi32 (by simp; omega) hn16 hin hvs hdec hfuel
    (by rw [ldr2_renderLevel_elem]; exact hfrag) hT
  rw [ldr2_tagStr_slice, ldr2_renderLevel_elem] at h
  simp only [Option.getD_some] at h
  rw [ldr2_value_many vs (by omega), ldr2_typeStr_many name n hn] at h
  exact h

/-- C01, driver level, data larger than the connection, slice from the start: `name{n}` reads the first `n`
    elements through Read Tag Fragmented; the Tag is named `name` -/
theorem read_fragmented_slice0_e2e (cfg : Cfg) (w : Cli.World Ext) (sess : Nat) (cidb : Bytes) (conn : Conn)
    (st : LState) (s : Symbol) (info : TagInfo) (c sz dim n : Nat) (name : Name) (t : Ty) (vs : List PyVal)
    (hw : ldr_Healthy w sess cidb conn) (hlogix : w.net.target.ext.logix = some st)
    (hs : s ∈ st.proj.controller)
    (hbytes : ∀ s' ∈ st.proj.controller, ∀ ch ∈ s'.name, ch < 256)
    (huniqN : ∀ s' ∈ st.proj.controller, s'.name = s.name → s' = s)
    (huniqI : ∀ s' ∈ st.proj.controller, s'.inst = s.inst → s' = s)
    (hid : PlainIdent s.name) (hinst : s.inst < 2 ^ 32)
    (hty : elTyOfWord s.symbolType = .atomic c) (hat : atomicOfCode c = some (name, t)) (hb : t.isBits = none)
    (hsz : atomicSize c = some sz)
    (hdims : s.dims.filter (· != 0) = [dim]) (hlen : s.mem.length = dim * sz)
    (hget : cfg.tags.get? s.name = some info) (hinfo : ldr_InfoOf info name (.arr (.fixed dim) t) s.inst)
    (hn : 2 ≤ n) (hn16 : n ≤ 65535) (hin : n ≤ dim)
    (hvs : vs.length = n)
    (hdec : ∀ k (h : k < vs.length), ∃ rest, decode t (s.mem.drop (k * sz)) = .ok (vs[k], rest))
    (hfuel : n * sz ≤ FRAG_FUEL)
    (hfrag : ∀ path, requestPathOf cfg s.name info = .ok path → w.drv.connectionSize < n * sz + path.length + 7)
    (hT : s.name.length + 28 ≤ conn.size) :
    ∃ w' fs ls', read hookAll cfg w [s.name ++ [123] ++ decRender n ++ [125]] =
        (w', .ok [{ tag := s.name, value := .list vs, type := some (name ++ [91] ++ renderDec (n : Nat) ++ [93]),
                    error := none }]) ∧
      w'.drv = ldr3_seqs (fs.length + 1) w.drv ∧ w'.net.sent = w.net.sent ++ fs ∧
      fs.length = (ldr3_fragSizes st.proj.readSchedule (conn.size - 8) (n * sz) FRAG_FUEL st.ctr 0).length ∧
      w'.net.target.ext = { w.net.target.ext with logix := some { st with ctr := st.ctr + fs.length } } ∧
      ldr_Healthy w' sess cidb { conn with lastSeq := ls' } := by
  have hrl : renderLevel ⟨s.name, []⟩ = s.name := by simp [renderLevel]
  have h := ldr3_read_array_frag cfg w sess cidb conn st s info c sz dim name t [] 0 (some n) vs (Or.inr ⟨rfl, rfl⟩) hw hlogix
    hs hbytes huniqN huniqI hid hinst hty hat hb hsz hdims hlen hget hinfo (by decide) (by simp; omega) hn16
    (by simpa using hin) hvs (by intro k hk; obtain ⟨r, hr⟩ := hdec k hk; exact ⟨r, by simpa using hr⟩) hfuel
    (by rw [hrl]; exact hfrag) hT
  rw [ldr2_tagStr_slice0, hrl] at h
  simp only [Option.getD_some] at h
  rw [ldr2_value_many vs (by omega), ldr2_typeStr_many name n hn] at h
  exact h

/-- C01, driver level, structure member: reading `udt.member`, where `udt` is a controller-scope structure tag and
    `member` an elementary (non-BOOL, non-bit-string) scalar member of its template, returns one error-free Tag named
    `udt.member` carrying the member's type name and the value the codec decodes from the TAG's memory at the
    member's byte offset `m.offset`. One plain Read Tag is sent whose request path is SYMBOLIC — the two names —
    whatever `use_instance_ids` says (the member's entry of the tag database carries no instance id); one frame, one
    sequence number; project unchanged; world healthy again.

    Hypotheses: those of `read_atomic_scalar_e2e` on the world and the symbol (without the instance-id bound), and
    * `hty`, `htm`   the symbol's type word says "structure of template `tid`", which the project defines as `tm`;
    * `hm`, `hmbytes`, `hmuniq`  `m` is a member of the template; member names are byte strings; its name is unique;
    * `hmid`, `hnum`, `hnl`  the member name is a plain identifier that is not a number (a trailing all-digit
                     attribute would be a bit number); both names together have at most 500 characters;
    * `hmty`, `hnb`, `hscalar`, `hat`, `hb`, `hsz`  the member is a scalar (`info = 0`) of elementary type code `c` ≠ BOOL,
                     known to the driver's tables as `name` / codec class `t` (not a bit string), `sz` bytes;
    * `hin`          the member lies inside the tag's memory;
    * `hget`, `hk`, `hmget`, `hminfo`  the tag database maps the tag name to a `struct` entry whose `internal_tags`
                     map the member name to an atomic entry of that type;
    * `hdec`         `v` is what the codec decodes from the memory at the member's offset;
    * `hC`, `hT`     request and answer fit (`name lengths + 22` bytes suffice). -/
theorem read_struct_member_e2e (cfg : Cfg) (w : Cli.World Ext) (sess : Nat) (cidb : Bytes) (conn : Conn)
    (st : LState) (s : Symbol) (tid : Nat) (tm : Template) (m : MemberDef) (info minfo : TagInfo)
    (c sz : Nat) (name : Name) (t : Ty) (v : PyVal) (rest : Bytes)
    (hw : ldr_Healthy w sess cidb conn) (hlogix : w.net.target.ext.logix = some st)
    (hs : s ∈ st.proj.controller)
    (hbytes : ∀ s' ∈ st.proj.controller, ∀ ch ∈ s'.name, ch < 256)
    (huniqN : ∀ s' ∈ st.proj.controller, s'.name = s.name → s' = s)
    (huniqI : ∀ s' ∈ st.proj.controller, s'.inst = s.inst → s' = s)
    (hid : PlainIdent s.name)
    (hty : elTyOfWord s.symbolType = .struct tid) (htm : st.proj.template? tid = some tm)
    (hm : m ∈ tm.members) (hmbytes : ∀ m' ∈ tm.members, ∀ ch ∈ m'.name, ch < 256)
    (hmuniq : ∀ m' ∈ tm.members, m'.name = m.name → m' = m)
    (hmid : PlainIdent m.name) (hnum : PyStr.isDigit m.name = false) (hnl : s.name.length + m.name.length ≤ 500)
    (hmty : elTyOfWord m.typeWord = .atomic c) (hnb : c ≠ 0xC1) (hscalar : m.info = 0)
    (hat : atomicOfCode c = some (name, t)) (hb : t.isBits = none) (hsz : atomicSize c = some sz)
    (hin : m.offset + sz ≤ s.mem.length)
    (hget : cfg.tags.get? s.name = some info) (hk : info.core.tagType = .struct)
    (hmget : info.members.get? m.name = some minfo) (hminfo : ldr3_MemberOf minfo name t)
    (hdec : decode t (s.mem.drop m.offset) = .ok (v, rest))
    (hC : s.name.length + m.name.length + 22 ≤ w.drv.connectionSize)
    (hT : s.name.length + m.name.length + 22 ≤ conn.size) :
    ∃ w' frm, read hookAll cfg w [s.name ++ [46] ++ m.name] =
        (w', .ok [{ tag := s.name ++ [46] ++ m.name, value := v, type := some name, error := none }]) ∧
      w'.drv = w.drv.nextSeq.2 ∧ w'.net.sent = w.net.sent ++ [frm] ∧
      w'.net.target.ext = { w.net.target.ext with logix := some { st with ctr := st.ctr + 1 } } ∧
      ldr_Healthy w' sess cidb { conn with lastSeq := some w.drv.nextSeq.1 } :=
  ldr3_read_member cfg w sess cidb conn st s tid tm m info minfo c sz name t v rest hw hlogix hs hbytes huniqN huniqI hid
    hty htm hm hmbytes hmuniq hmid hnum hnl hmty hnb hscalar hat hb hsz hin hget hk hmget hminfo hdec hC hT

/-- C01, driver level, strings: reading a controller-scope STRING-like structure tag (a LEN/DATA template the upload
    recognised as a string type: the `type_class` of the entry is `FixedSizeString(cap)` with a 4-byte length) by its
    plain name returns one error-free Tag whose value is the `str` of the first LEN characters of DATA — LEN the
    little-endian UDINT in bytes 0–3 of the tag's memory, DATA the `cap` bytes after it, decoded as Latin-1 (one
    character per byte) — and whose type is the NAME of the string type. One plain Read Tag; the reply starts with the
    structure marker `A0 02` + handle (`ldr3_typeBytes_struct`).

    Hypotheses: those of `read_atomic_scalar_e2e` on the world and the symbol, and
    * `hty`, `htm`, `hlen`, `htsz`, `hcap`  the symbol is a structure of template `tid` = `tm`; its memory has the
                    template's size, which is 4 + `cap` with `cap ≥ 1`;
    * `hget`, `hinfo`  the tag database maps the name to a `struct` entry with data type `si`, `type_class`
                    `FixedSizeString(cap)`, and the symbol's instance id;
    * `hnd`         the type is not called "DWORD" (`parse_read_reply` tests the NAME for that);
    * `hC`, `hT`    `structure size + name length + 20` bytes fit. -/
theorem read_string_e2e (cfg : Cfg) (w : Cli.World Ext) (sess : Nat) (cidb : Bytes) (conn : Conn)
    (st : LState) (s : Symbol) (tid : Nat) (tm : Template) (info : TagInfo) (si : StructInfo) (cap : Nat)
    (hw : ldr_Healthy w sess cidb conn) (hlogix : w.net.target.ext.logix = some st)
    (hs : s ∈ st.proj.controller)
    (hbytes : ∀ s' ∈ st.proj.controller, ∀ ch ∈ s'.name, ch < 256)
    (huniqN : ∀ s' ∈ st.proj.controller, s'.name = s.name → s' = s)
    (huniqI : ∀ s' ∈ st.proj.controller, s'.inst = s.inst → s' = s)
    (hid : PlainIdent s.name) (hinst : s.inst < 2 ^ 32)
    (hty : elTyOfWord s.symbolType = .struct tid) (htm : st.proj.template? tid = some tm)
    (hlen : s.mem.length = tm.size) (htsz : tm.size = 4 + cap) (hcap : 1 ≤ cap)
    (hget : cfg.tags.get? s.name = some info) (hinfo : ldr3_StructOf info si (.fixedStr cap .udint) s.inst)
    (hnd : si.name ≠ Drv.nm "DWORD")
    (hC : si.size + s.name.length + 20 ≤ w.drv.connectionSize) (hT : tm.size + s.name.length + 20 ≤ conn.size) :
    ∃ w' frm, read hookAll cfg w [s.name] =
        (w', .ok [{ tag := s.name, value := .str (((s.mem.drop 4).take (leVal (s.mem.take 4))).map (·.toNat)),
                    type := some si.name, error := none }]) ∧
      w'.drv = w.drv.nextSeq.2 ∧ w'.net.sent = w.net.sent ++ [frm] ∧
      w'.net.target.ext = { w.net.target.ext with logix := some { st with ctr := st.ctr + 1 } } ∧
      ldr_Healthy w' sess cidb { conn with lastSeq := some w.drv.nextSeq.1 } := by
  have hreply := ldr3_parseReadReply_string st.proj tid info cap si.name s.mem hinfo.ty hinfo.typeName hnd hcap
    (by rw [hlen, htsz])
  exact ldr3_read_structTag cfg w sess cidb conn st s tid tm info si _ _ _ hw hlogix hs hbytes huniqN huniqI hid hinst hty
    htm hlen (by omega) hget hinfo hnd hreply (by simp) hC hT

/-- C01, driver level, structures: reading a controller-scope structure tag (`type_class` a `StructTag`) by its plain
    name returns one error-free Tag whose value is the dict `{attr: value[attr] for attr in attributes}` — the dict
    the codec decodes from the tag's memory (`hdec`), re-keyed by the visible attributes of the data type in their
    order (`hattr`) — and whose type is the name of the structure type. One plain Read Tag; the reply starts with
    the structure marker `A0 02` + handle (`ldr3_typeBytes_struct`). Hypotheses as in `read_string_e2e`. -/
theorem read_struct_e2e (cfg : Cfg) (w : Cli.World Ext) (sess : Nat) (cidb : Bytes) (conn : Conn)
    (st : LState) (s : Symbol) (tid : Nat) (tm : Template) (info : TagInfo) (si : StructInfo)
    (ms : TMembers) (bits : List (Name × Nat × Nat)) (priv : List Name) (size : Nat)
    (kvs kvs' : List (Name × PyVal)) (rest : Bytes)
    (hw : ldr_Healthy w sess cidb conn) (hlogix : w.net.target.ext.logix = some st)
    (hs : s ∈ st.proj.controller)
    (hbytes : ∀ s' ∈ st.proj.controller, ∀ ch ∈ s'.name, ch < 256)
    (huniqN : ∀ s' ∈ st.proj.controller, s'.name = s.name → s' = s)
    (huniqI : ∀ s' ∈ st.proj.controller, s'.inst = s.inst → s' = s)
    (hid : PlainIdent s.name) (hinst : s.inst < 2 ^ 32)
    (hty : elTyOfWord s.symbolType = .struct tid) (htm : st.proj.template? tid = some tm)
    (hlen : s.mem.length = tm.size) (hpos : 0 < tm.size)
    (hget : cfg.tags.get? s.name = some info) (hinfo : ldr3_StructOf info si (.structTag ms bits priv size) s.inst)
    (hnd : si.name ≠ Drv.nm "DWORD")
    (hdec : decode (.structTag ms bits priv size) s.mem = .ok (.dict kvs, rest))
    (hattr : si.attributes.mapM (fun a => (dictGet kvs a).map fun x => (a, x)) = some kvs')
    (hC : si.size + s.name.length + 20 ≤ w.drv.connectionSize) (hT : tm.size + s.name.length + 20 ≤ conn.size) :
    ∃ w' frm, read hookAll cfg w [s.name] =
        (w', .ok [{ tag := s.name, value := .dict kvs', type := some si.name, error := none }]) ∧
      w'.drv = w.drv.nextSeq.2 ∧ w'.net.sent = w.net.sent ++ [frm] ∧
      w'.net.target.ext = { w.net.target.ext with logix := some { st with ctr := st.ctr + 1 } } ∧
      ldr_Healthy w' sess cidb { conn with lastSeq := some w.drv.nextSeq.1 } := by
  have hreply := ldr3_parseReadReply_struct st.proj tid info si ms bits priv size s.mem rest kvs kvs' hinfo.ty
    hinfo.typeName hinfo.struct hnd hdec hattr
  exact ldr3_read_structTag cfg w sess cidb conn st s tid tm info si _ _ _ hw hlogix hs hbytes huniqN huniqI hid hinst hty
    htm hlen hpos hget hinfo hnd hreply (by simp) hC hT

/-- … and when the decoded dict has exactly the visible attributes as keys, in order and without repetition (a flat
    template without packed BOOLs: `structTag_roundtrip`), the value IS the dict the codec decodes from the memory -/
theorem read_struct_e2e_flat (cfg : Cfg) (w : Cli.World Ext) (sess : Nat) (cidb : Bytes) (conn : Conn)
    (st : LState) (s : Symbol) (tid : Nat) (tm : Template) (info : TagInfo) (si : StructInfo)
    (ms : TMembers) (bits : List (Name × Nat × Nat)) (priv : List Name) (size : Nat)
    (v : PyVal) (kvs : List (Name × PyVal)) (rest : Bytes)
    (hw : ldr_Healthy w sess cidb conn) (hlogix : w.net.target.ext.logix = some st)
    (hs : s ∈ st.proj.controller)
    (hbytes : ∀ s' ∈ st.proj.controller, ∀ ch ∈ s'.name, ch < 256)
    (huniqN : ∀ s' ∈ st.proj.controller, s'.name = s.name → s' = s)
    (huniqI : ∀ s' ∈ st.proj.controller, s'.inst = s.inst → s' = s)
    (hid : PlainIdent s.name) (hinst : s.inst < 2 ^ 32)
    (hty : elTyOfWord s.symbolType = .struct tid) (htm : st.proj.template? tid = some tm)
    (hlen : s.mem.length = tm.size) (hpos : 0 < tm.size)
    (hget : cfg.tags.get? s.name = some info) (hinfo : ldr3_StructOf info si (.structTag ms bits priv size) s.inst)
    (hnd : si.name ≠ Drv.nm "DWORD")
    (hdec : decode (.structTag ms bits priv size) s.mem = .ok (v, rest)) (hv : v = .dict kvs)
    (hkeys : kvs.map (·.1) = si.attributes) (hnodup : si.attributes.Nodup)
    (hC : si.size + s.name.length + 20 ≤ w.drv.connectionSize) (hT : tm.size + s.name.length + 20 ≤ conn.size) :
    ∃ w' frm, read hookAll cfg w [s.name] =
        (w', .ok [{ tag := s.name, value := v, type := some si.name, error := none }]) ∧
      w'.drv = w.drv.nextSeq.2 ∧ w'.net.sent = w.net.sent ++ [frm] ∧
      w'.net.target.ext = { w.net.target.ext with logix := some { st with ctr := st.ctr + 1 } } ∧
      ldr_Healthy w' sess cidb { conn with lastSeq := some w.drv.nextSeq.1 } := by
  subst hv
  have hattr := ldr3_rekey_id kvs (by rw [hkeys]; exact hnodup)
  rw [hkeys] at hattr
  exact read_struct_e2e cfg w sess cidb conn st s tid tm info si ms bits priv size kvs kvs rest hw hlogix hs hbytes huniqN
    huniqI hid hinst hty htm hlen hpos hget hinfo hnd hdec hattr hC hT

/-- C01, driver level, a structure larger than the connection: reading a controller-scope structure tag by its plain
    name when the estimated answer (`structure_size` + request + 2) does NOT fit the driver's connection size goes
    through Read Tag Fragmented like a large array does; for every fragment schedule of the controller the Tag
    carries the same dict as in `read_struct_e2e`, decoded from marker + ALL the memory bytes. One frame per fragment.
    Hypotheses as in `read_struct_e2e`, with `hfrag` / `hfuel` / `hT` as in `read_fragmented_slice_e2e`. -/
theorem read_struct_fragmented_e2e (cfg : Cfg) (w : Cli.World Ext) (sess : Nat) (cidb : Bytes) (conn : Conn)
    (st : LState) (s : Symbol) (tid : Nat) (tm : Template) (info : TagInfo) (si : StructInfo)
    (ms : TMembers) (bits : List (Name × Nat × Nat)) (priv : List Name) (size : Nat)
    (kvs kvs' : List (Name × PyVal)) (rest : Bytes)
    (hw : ldr_Healthy w sess cidb conn) (hlogix : w.net.target.ext.logix = some st)
    (hs : s ∈ st.proj.controller)
    (hbytes : ∀ s' ∈ st.proj.controller, ∀ ch ∈ s'.name, ch < 256)
    (huniqN : ∀ s' ∈ st.proj.controller, s'.name = s.name → s' = s)
    (huniqI : ∀ s' ∈ st.proj.controller, s'.inst = s.inst → s' = s)
    (hid : PlainIdent s.name) (hinst : s.inst < 2 ^ 32)
    (hty : elTyOfWord s.symbolType = .struct tid) (htm : st.proj.template? tid = some tm)
    (hlen : s.mem.length = tm.size) (hpos : 0 < tm.size) (hfuel : tm.size ≤ FRAG_FUEL)
    (hget : cfg.tags.get? s.name = some info) (hinfo : ldr3_StructOf info si (.structTag ms bits priv size) s.inst)
    (hnd : si.name ≠ Drv.nm "DWORD")
    (hdec : decode (.structTag ms bits priv size) s.mem = .ok (.dict kvs, rest))
    (hattr : si.attributes.mapM (fun a => (dictGet kvs a).map fun x => (a, x)) = some kvs')
    (hfrag : ∀ path, requestPathOf cfg s.name info = .ok path → w.drv.connectionSize < si.size + path.length + 7)
    (hT : s.name.length + 22 ≤ conn.size) :
    ∃ w' fs ls', read hookAll cfg w [s.name] =
        (w', .ok [{ tag := s.name, value := .dict kvs', type := some si.name, error := none }]) ∧
      w'.drv = ldr3_seqs (fs.length + 1) w.drv ∧ w'.net.sent = w.net.sent ++ fs ∧
      fs.length = (ldr3_fragSizes st.proj.readSchedule (conn.size - 10) tm.size FRAG_FUEL st.ctr 0).length ∧
      w'.net.target.ext = { w.net.target.ext with logix := some { st with ctr := st.ctr + fs.length } } ∧
      ldr_Healthy w' sess cidb { conn with lastSeq := ls' } := by
  have hreply := ldr3_parseReadReply_struct st.proj tid info si ms bits priv size s.mem rest kvs kvs' hinfo.ty
    hinfo.typeName hinfo.struct hnd hdec hattr
  exact ldr3_read_structTag_frag cfg w sess cidb conn st s tid tm info si _ _ _ hw hlogix hs hbytes huniqN huniqI hid hinst
    hty htm hlen hpos hfuel hget hinfo hnd hreply (by simp) hfrag hT

/-- C01, driver level, a string larger than the connection: the same for a string tag -/
theorem read_string_fragmented_e2e (cfg : Cfg) (w : Cli.World Ext) (sess : Nat) (cidb : Bytes) (conn : Conn)
    (st : LState) (s : Symbol) (tid : Nat) (tm : Template) (info : TagInfo) (si : StructInfo) (cap : Nat)
    (hw : ldr_Healthy w sess cidb conn) (hlogix : w.net.target.ext.logix = some st)
    (hs : s ∈ st.proj.controller)
    (hbytes : ∀ s' ∈ st.proj.controller, ∀ ch ∈ s'.name, ch < 256)
    (huniqN : ∀ s' ∈ st.proj.controller, s'.name = s.name → s' = s)
    (huniqI : ∀ s' ∈ st.proj.controller, s'.inst = s.inst → s' = s)
    (hid : PlainIdent s.name) (hinst : s.inst < 2 ^ 32)
    (hty : elTyOfWord s.symbolType = .struct tid) (htm : st.proj.template? tid = some tm)
    (hlen : s.mem.length = tm.size) (htsz : tm.size = 4 + cap) (hcap : 1 ≤ cap) (hfuel : tm.size ≤ FRAG_FUEL)
    (hget : cfg.tags.get? s.name = some info) (hinfo : ldr3_StructOf info si (.fixedStr cap .udint) s.inst)
    (hnd : si.name ≠ Drv.nm "DWORD")
    (hfrag : ∀ path, requestPathOf cfg s.name info = .ok path → w.drv.connectionSize < si.size + path.length + 7)
    (hT : s.name.length + 22 ≤ conn.size) :
    ∃ w' fs ls', read hookAll cfg w [s.name] =
        (w', .ok [{ tag := s.name, value := .str (((s.mem.drop 4).take (leVal (s.mem.take 4))).map (·.toNat)),
                    type := some si.name, error := none }]) ∧
      w'.drv = ldr3_seqs (fs.length + 1) w.drv ∧ w'.net.sent = w.net.sent ++ fs ∧
      fs.length = (ldr3_fragSizes st.proj.readSchedule (conn.size - 10) tm.size FRAG_FUEL st.ctr 0).length ∧
      w'.net.target.ext = { w.net.target.ext with logix := some { st with ctr := st.ctr + fs.length } } ∧
      ldr_Healthy w' sess cidb { conn with lastSeq := ls' } := by
  have hreply := ldr3_parseReadReply_string st.proj tid info cap si.name s.mem hinfo.ty hinfo.typeName hnd hcap
    (by rw [hlen, htsz])
  exact ldr3_read_structTag_frag cfg w sess cidb conn st s tid tm info si _ _ _ hw hlogix hs hbytes huniqN huniqI hid hinst
    hty htm hlen (by omega) hfuel hget hinfo hnd hreply (by simp) hfrag hT

/-! ### non-vacuity: all hypotheses instantiated on a concrete project and worlds obtained by running the model -/

namespace Ex3
open Pycomm.Lgx.Drv.Ex

/-- `big : DINT[40]` = [1, 2, …, 40] -/
def bigMem : Bytes := ((List.range 40).map fun i => le 4 (i + 1)).flatten
def symBig : Symbol :=
  { inst := 20, name := Drv.nm "big", symbolType := 0x20C4, dims := [40, 0, 0], attr3 := 0, attr5 := 0, attr6 := 2 ^ 26,
    access := 0, mem := bigMem }
/-- template `Pt {x : DINT @0, y : INT @4}`, 8 bytes -/
def tmplPt : Template :=
  { id := 0x201, handle := 0x1234, size := 8, nameField := [80, 116, 59, 110],
    members := [⟨Drv.nm "x", 0, 0xC4, 0⟩, ⟨Drv.nm "y", 0, 0xC3, 4⟩] }
/-- template `STR8 {LEN : DINT @0, DATA : SINT[8] @4}`, 12 bytes: a string type -/
def tmplStr : Template :=
  { id := 0x202, handle := 0x4321, size := 12, nameField := [83, 84, 82, 56, 59, 110],
    members := [⟨Drv.nm "LEN", 0, 0xC4, 0⟩, ⟨Drv.nm "DATA", 8, 0xC2, 4⟩] }
/-- `p1 : Pt` = {x = 7, y = -2} -/
def symP1 : Symbol :=
  { inst := 21, name := Drv.nm "p1", symbolType := 0x8201, dims := [0, 0, 0], attr3 := 0, attr5 := 0, attr6 := 2 ^ 26,
    access := 0, mem := [7, 0, 0, 0, 0xFE, 0xFF, 0, 0] }
/-- `s1 : STR8` = "ABé" (LEN 3, DATA "ABéDE\0\0\0") -/
def symS1 : Symbol :=
  { inst := 22, name := Drv.nm "s1", symbolType := 0x8202, dims := [0, 0, 0], attr3 := 0, attr5 := 0, attr6 := 2 ^ 26,
    access := 0, mem := [3, 0, 0, 0, 65, 66, 0xE9, 68, 69, 0, 0, 0] }
def proj3 (sched : List Nat) : Project :=
  { templates := [tmplPt, tmplStr], controller := [sym, symBig, symP1, symS1], programs := [], readSchedule := sched }
def state3 (sched : List Nat) : LState := { proj := proj3 sched }
def world03 (sched : List Nat) : Cli.World Ext :=
  { drv := {}, net := { target := { base := base, ext := { logix := some (state3 sched) } } } }
def world3 (sched : List Nat) : Cli.World Ext :=
  (Cli.ensureForwardOpen hookAll Cli.FUEL (Cli.openDrv hookAll (world03 sched) [1, 2, 3, 4, 5, 6, 7, 8]).1).1
/-- the same world with a driver whose connection size is `c` -/
def small3 (sched : List Nat) (c : Nat) : Cli.World Ext :=
  { world3 sched with drv := { (world3 sched).drv with connectionSize := c } }
def cfg3 : Cfg := { tags := (tagDbOf (proj3 []) false).getD [] }

def infoBig : TagInfo :=
  .mk { tagType := .atomic, dataTypeName := Drv.nm "DINT", ty := .arr (.fixed 40) (.int .dint), dim := 1,
        dimensions := [40, 0, 0], instanceId := some 20 } .nil
def minfoX : TagInfo :=
  .mk { tagType := .atomic, dataTypeName := Drv.nm "DINT", ty := .int .dint, offset := some 0, array := some 0 } .nil
def minfoY : TagInfo :=
  .mk { tagType := .atomic, dataTypeName := Drv.nm "INT", ty := .int .int, offset := some 4, array := some 0 } .nil
def siPt : StructInfo := { name := Drv.nm "Pt", attributes := [Drv.nm "x", Drv.nm "y"], size := 8, handle := 0x1234, string := none }
def tyPt : Ty := .structTag (.cons (Drv.nm "x") (.int .dint) 0 (.cons (Drv.nm "y") (.int .int) 4 .nil)) [] [] 8
def infoP1 : TagInfo :=
  .mk { tagType := .struct, dataTypeName := Drv.nm "Pt", ty := tyPt, dim := 0, dimensions := [0, 0, 0],
        instanceId := some 21, struct := some siPt } (.cons (Drv.nm "x") minfoX (.cons (Drv.nm "y") minfoY .nil))
def minfoLen : TagInfo :=
  .mk { tagType := .atomic, dataTypeName := Drv.nm "DINT", ty := .int .dint, offset := some 0, array := some 0 } .nil
def minfoData : TagInfo :=
  .mk { tagType := .atomic, dataTypeName := Drv.nm "SINT", ty := .arr (.fixed 8) (.int .sint), offset := some 4, array := some 8 } .nil
def siStr : StructInfo :=
  { name := Drv.nm "STR8", attributes := [Drv.nm "LEN", Drv.nm "DATA"], size := 12, handle := 0x4321, string := some 8 }
def infoS1 : TagInfo :=
  .mk { tagType := .struct, dataTypeName := Drv.nm "STR8", ty := .fixedStr 8 .udint, dim := 0, dimensions := [0, 0, 0],
        instanceId := some 22, struct := some siStr } (.cons (Drv.nm "LEN") minfoLen (.cons (Drv.nm "DATA") minfoData .nil))

/-- [a+1, …, a+n] -/
def ints (a n : Nat) : List PyVal := (List.range n).map fun k => PyVal.int ((a + k + 1 : Nat) : Int)

def okList (r : Except Exn (List LTag)) (tag : String) (ty : String) (a n : Nat) : Bool :=
  ok1 r tag ty (fun v => match v with
    | .list xs => xs.length == n && (List.range n).all (fun k => match xs[k]? with | some (.int j) => j == ((a + k + 1 : Nat) : Int) | _ => false)
    | _ => false)

-- evaluation checks of the run (interpreter)
#guard (small3 [7] 100).drv.targetIsConnected && (small3 [7] 100).drv.connectionSize == 100
#guard (world3 []).net.target.base.conns == [conn] && (small3 [7] 100).net.target.base.conns == [conn]
-- 160 bytes in fragments of 7 bytes: 23 frames; the default schedule fills the target's connection: 1 frame
#guard okList (read hookAll cfg3 (small3 [7] 100) [Drv.nm "big{40}"]).2 "big" "DINT[40]" 0 40
#guard (read hookAll cfg3 (small3 [7] 100) [Drv.nm "big{40}"]).1.net.sent.length == (small3 [7] 100).net.sent.length + 23
#guard okList (read hookAll cfg3 (small3 [] 100) [Drv.nm "big{40}"]).2 "big" "DINT[40]" 0 40
#guard (read hookAll cfg3 (small3 [] 100) [Drv.nm "big{40}"]).1.net.sent.length == (small3 [] 100).net.sent.length + 1
#guard okList (read hookAll cfg3 (small3 [7] 100) [Drv.nm "big[4]{30}"]).2 "big[4]" "DINT[30]" 4 30
#guard (read hookAll cfg3 (small3 [7] 100) [Drv.nm "big[4]{30}"]).1.net.sent.length == (small3 [7] 100).net.sent.length + 18
-- the threshold `hfrag`: the request path has 5 bytes (instance addressing); 12 elements: 48 + 5 + 7 = 60 > 59
#guard (match requestPathOf cfg3 (Drv.nm "big") infoBig with | .ok p => p == [2, 32, 107, 36, 20] | _ => false)
#guard (read hookAll cfg3 (small3 [7] 59) [Drv.nm "big{12}"]).1.net.sent.length == (small3 [7] 59).net.sent.length + 7
#guard (read hookAll cfg3 (small3 [7] 60) [Drv.nm "big{12}"]).1.net.sent.length == (small3 [7] 60).net.sent.length + 1
#guard ok1 (read hookAll cfg3 (world3 []) [Drv.nm "p1.y"]).2 "p1.y" "INT" (fun v => match v with | .int (-2) => true | _ => false)
#guard ok1 (read hookAll cfg3 (world3 []) [Drv.nm "p1.x"]).2 "p1.x" "DINT" (fun v => match v with | .int 7 => true | _ => false)
#guard ok1 (read hookAll cfg3 (world3 []) [Drv.nm "s1"]).2 "s1" "STR8" (fun v => match v with | .str [65, 66, 233] => true | _ => false)
#guard ok1 (read hookAll cfg3 (world3 []) [Drv.nm "p1"]).2 "p1" "Pt"
  (fun v => match v with | .dict [([120], .int 7), ([121], .int (-2))] => true | _ => false)

theorem healthy3 : ldr_Healthy (world3 []) 4097 [238, 255, 192, 0] conn :=
  ⟨by decide +kernel, by decide +kernel, by decide +kernel, by decide +kernel, by decide +kernel, by decide,
   by decide +kernel, by decide +kernel, by decide, by decide +kernel, by decide +kernel, by decide +kernel⟩

theorem healthy3s : ldr_Healthy (small3 [7] 100) 4097 [238, 255, 192, 0] conn :=
  ⟨by decide +kernel, by decide +kernel, by decide +kernel, by decide +kernel, by decide +kernel, by decide,
   by decide +kernel, by decide +kernel, by decide, by decide +kernel, by decide +kernel, by decide +kernel⟩

theorem mem_ctl3 (sched : List Nat) (s' : Symbol) (h : s' ∈ (proj3 sched).controller) :
    s' = sym ∨ s' = symBig ∨ s' = symP1 ∨ s' = symS1 := by
  simpa [proj3] using h

theorem bytes3 (sched : List Nat) (s' : Symbol) (h : s' ∈ (state3 sched).proj.controller) : ∀ ch ∈ s'.name, ch < 256 := by
  rcases mem_ctl3 sched s' h with rfl | rfl | rfl | rfl <;> decide

theorem uniqN3 (sched : List Nat) (s : Symbol) (hs : s ∈ (state3 sched).proj.controller) (s' : Symbol)
    (h : s' ∈ (state3 sched).proj.controller) (e : s'.name = s.name) : s' = s := by
  rcases mem_ctl3 sched s hs with rfl | rfl | rfl | rfl <;> rcases mem_ctl3 sched s' h with rfl | rfl | rfl | rfl <;>
    first | rfl | (exfalso; revert e; decide)

theorem uniqI3 (sched : List Nat) (s : Symbol) (hs : s ∈ (state3 sched).proj.controller) (s' : Symbol)
    (h : s' ∈ (state3 sched).proj.controller) (e : s'.inst = s.inst) : s' = s := by
  rcases mem_ctl3 sched s hs with rfl | rfl | rfl | rfl <;> rcases mem_ctl3 sched s' h with rfl | rfl | rfl | rfl <;>
    first | rfl | (exfalso; revert e; decide)

theorem hsBig (sched : List Nat) : symBig ∈ (state3 sched).proj.controller := by simp [state3, proj3]
theorem hsP1 (sched : List Nat) : symP1 ∈ (state3 sched).proj.controller := by simp [state3, proj3]
theorem hsS1 (sched : List Nat) : symS1 ∈ (state3 sched).proj.controller := by simp [state3, proj3]

/-- element `j` of `big` decodes to `j + 1` -/
def chkBig (j : Nat) : Bool :=
  match decode (.int .dint) (bigMem.drop (j * 4)) with
  | .ok (.int v, _) => v == ((j + 1 : Nat) : Int)
  | _ => false

theorem big_all : ∀ j, j < 40 → chkBig j = true := by decide +kernel

theorem big_dec (j : Nat) (hj : j < 40) :
    ∃ rest, decode (.int .dint) (symBig.mem.drop (j * 4)) = .ok (.int ((j + 1 : Nat) : Int), rest) := by
  have h := big_all j hj
  unfold chkBig at h
  split at h
  · next v r heq =>
    have hv : v = ((j + 1 : Nat) : Int) := by simpa using h
    subst hv
    exact ⟨r, heq⟩
  · cases h

theorem ints_get (a n k : Nat) (h : k < (ints a n).length) : (ints a n)[k] = PyVal.int ((a + k + 1 : Nat) : Int) := by
  simp [ints]

/-- every hypothesis of `read_fragmented_slice0_e2e` holds for the concrete world (driver connection size 100, the
    controller delivers 7 value bytes per fragment): `read("big{40}")` returns [1, …, 40] as `DINT[40]` in 23 frames -/
example : ∃ w' fs ls', read hookAll cfg3 (small3 [7] 100) [Drv.nm "big{40}"] =
      (w', .ok [{ tag := Drv.nm "big", value := .list (ints 0 40), type := some (Drv.nm "DINT[40]"), error := none }]) ∧
    w'.drv = ldr3_seqs (fs.length + 1) (small3 [7] 100).drv ∧ w'.net.sent = (small3 [7] 100).net.sent ++ fs ∧
    fs.length = 23 ∧
    w'.net.target.ext = { (small3 [7] 100).net.target.ext with
      logix := some { state3 [7] with ctr := (state3 [7]).ctr + fs.length } } ∧
    ldr_Healthy w' 4097 [238, 255, 192, 0] { conn with lastSeq := ls' } := by
  have h := read_fragmented_slice0_e2e cfg3 (small3 [7] 100) 4097 [238, 255, 192, 0] conn (state3 [7]) symBig infoBig 0xC4 4 40 40
      (Drv.nm "DINT") (.int .dint) (ints 0 40)
      healthy3s (by rfl) (hsBig [7]) (bytes3 [7]) (uniqN3 [7] symBig (hsBig [7])) (uniqI3 [7] symBig (hsBig [7]))
      ⟨by decide, by decide, by decide⟩ (by decide)
      (by decide) rfl rfl rfl (by decide) (by decide +kernel) (by rfl) ⟨rfl, rfl, rfl, rfl, rfl⟩
      (by decide) (by decide) (by decide) (by simp [ints])       -- hn hn16 hin hvs
      (by intro k hk
          have hk' : k < 40 := by simpa [ints] using hk
          obtain ⟨r, hr⟩ := big_dec k hk'
          refine ⟨r, ?_⟩
          rw [ints_get]
          simpa using hr)
      (by decide)                                                -- hfuel
      (by intro path _; show 100 < 40 * 4 + path.length + 7; omega)   -- hfrag
      (by decide)
  rw [show symBig.name ++ [123] ++ decRender 40 ++ [125] = Drv.nm "big{40}" from by
    rw [ldr2_decRender_two 40 (by omega) (by omega)]; rfl] at h
  rw [show symBig.name = Drv.nm "big" from rfl] at h
  rw [show Drv.nm "DINT" ++ [91] ++ renderDec ((40 : Nat) : Int) ++ [93] = Drv.nm "DINT[40]" from by decide] at h
  rw [show (ldr3_fragSizes (state3 [7]).proj.readSchedule (conn.size - 8) (40 * 4) FRAG_FUEL (state3 [7]).ctr 0).length = 23
    from by decide +kernel] at h
  exact h

/-- … of `read_fragmented_slice_e2e`: `read("big[4]{30}")` returns [5, …, 34] as `DINT[30]`, Tag name `big[4]`, 18 frames -/
example : ∃ w' fs ls', read hookAll cfg3 (small3 [7] 100) [Drv.nm "big[4]{30}"] =
      (w', .ok [{ tag := Drv.nm "big[4]", value := .list (ints 4 30), type := some (Drv.nm "DINT[30]"), error := none }]) ∧
    w'.drv = ldr3_seqs (fs.length + 1) (small3 [7] 100).drv ∧ w'.net.sent = (small3 [7] 100).net.sent ++ fs ∧
    fs.length = 18 ∧
    w'.net.target.ext = { (small3 [7] 100).net.target.ext with
      logix := some { state3 [7] with ctr := (state3 [7]).ctr + fs.length } } ∧
    ldr_Healthy w' 4097 [238, 255, 192, 0] { conn with lastSeq := ls' } := by
  have h := read_fragmented_slice_e2e cfg3 (small3 [7] 100) 4097 [238, 255, 192, 0] conn (state3 [7]) symBig infoBig 0xC4 4 40 4 30
      (Drv.nm "DINT") (.int .dint) (ints 4 30)
      healthy3s (by rfl) (hsBig [7]) (bytes3 [7]) (uniqN3 [7] symBig (hsBig [7])) (uniqI3 [7] symBig (hsBig [7]))
      ⟨by decide, by decide, by decide⟩ (by decide)
      (by decide) rfl rfl rfl (by decide) (by decide +kernel) (by rfl) ⟨rfl, rfl, rfl, rfl, rfl⟩
      (by decide) (by decide) (by decide) (by decide) (by simp [ints])   -- hi32 hn hn16 hin hvs
      (by intro k hk
          have hk' : k < 30 := by simpa [ints] using hk
          obtain ⟨r, hr⟩ := big_dec (4 + k) (by omega)
          refine ⟨r, ?_⟩
          rw [ints_get]
          simpa using hr)
      (by decide)
      (by intro path _; show 100 < 30 * 4 + path.length + 7; omega)
      (by decide)
  rw [show symBig.name ++ [91] ++ decRender 4 ++ [93] ++ [123] ++ decRender 30 ++ [125] = Drv.nm "big[4]{30}" from by
    rw [ldr2_decRender_small 4 (by omega), ldr2_decRender_two 30 (by omega) (by omega)]; rfl] at h
  rw [show symBig.name ++ [91] ++ decRender 4 ++ [93] = Drv.nm "big[4]" from by
    rw [ldr2_decRender_small 4 (by omega)]; rfl] at h
  rw [show Drv.nm "DINT" ++ [91] ++ renderDec ((30 : Nat) : Int) ++ [93] = Drv.nm "DINT[30]" from by decide] at h
  rw [show (ldr3_fragSizes (state3 [7]).proj.readSchedule (conn.size - 8) (30 * 4) FRAG_FUEL (state3 [7]).ctr 0).length = 18
    from by decide +kernel] at h
  exact h

theorem mem_pt (m' : MemberDef) (h : m' ∈ tmplPt.members) :
    m' = ⟨Drv.nm "x", 0, 0xC4, 0⟩ ∨ m' = ⟨Drv.nm "y", 0, 0xC3, 4⟩ := by
  simpa [tmplPt] using h

/-- … of `read_struct_member_e2e`: `read("p1.y")` returns -2 as `INT`, decoded at byte 4 of `p1` -/
example : ∃ w' frm, read hookAll cfg3 (world3 []) [Drv.nm "p1.y"] =
      (w', .ok [{ tag := Drv.nm "p1.y", value := .int (-2), type := some (Drv.nm "INT"), error := none }]) ∧
    w'.drv = (world3 []).drv.nextSeq.2 ∧ w'.net.sent = (world3 []).net.sent ++ [frm] ∧
    w'.net.target.ext = { (world3 []).net.target.ext with logix := some { state3 [] with ctr := (state3 []).ctr + 1 } } ∧
    ldr_Healthy w' 4097 [238, 255, 192, 0] { conn with lastSeq := some (world3 []).drv.nextSeq.1 } := by
  have h := read_struct_member_e2e cfg3 (world3 []) 4097 [238, 255, 192, 0] conn (state3 []) symP1 0x201 tmplPt
      ⟨Drv.nm "y", 0, 0xC3, 4⟩ infoP1 minfoY 0xC3 2 (Drv.nm "INT") (.int .int) (.int (-2)) [0, 0]
      healthy3 (by rfl) (hsP1 []) (bytes3 []) (uniqN3 [] symP1 (hsP1 [])) (uniqI3 [] symP1 (hsP1 []))
      ⟨by decide, by decide, by decide⟩
      (by decide) (by rfl)                                       -- hty htm
      (by simp [tmplPt])                                         -- hm
      (by intro m' hm'; rcases mem_pt m' hm' with rfl | rfl <;> decide)
      (by intro m' hm' e; rcases mem_pt m' hm' with rfl | rfl
          · exfalso; revert e; decide
          · rfl)
      ⟨by decide, by decide, by decide⟩ (by decide) (by decide)  -- hmid hnum hnl
      (by decide) (by decide) rfl rfl rfl rfl                    -- hmty hnb hscalar hat hb hsz
      (by decide)                                                -- hin
      (by rfl) rfl (by rfl) ⟨rfl, rfl, rfl, rfl, rfl⟩           -- hget hk hmget hminfo
      (by rfl)                                                   -- hdec
      (by decide +kernel) (by decide)
  exact h

/-- … of `read_string_e2e`: `read("s1")` returns the `str` "ABé" (LEN = 3 of the 8 DATA bytes, Latin-1), type `STR8` -/
example : ∃ w' frm, read hookAll cfg3 (world3 []) [Drv.nm "s1"] =
      (w', .ok [{ tag := Drv.nm "s1", value := .str [65, 66, 233], type := some (Drv.nm "STR8"), error := none }]) ∧
    w'.drv = (world3 []).drv.nextSeq.2 ∧ w'.net.sent = (world3 []).net.sent ++ [frm] ∧
    w'.net.target.ext = { (world3 []).net.target.ext with logix := some { state3 [] with ctr := (state3 []).ctr + 1 } } ∧
    ldr_Healthy w' 4097 [238, 255, 192, 0] { conn with lastSeq := some (world3 []).drv.nextSeq.1 } := by
  have h := read_string_e2e cfg3 (world3 []) 4097 [238, 255, 192, 0] conn (state3 []) symS1 0x202 tmplStr infoS1 siStr 8
      healthy3 (by rfl) (hsS1 []) (bytes3 []) (uniqN3 [] symS1 (hsS1 [])) (uniqI3 [] symS1 (hsS1 []))
      ⟨by decide, by decide, by decide⟩ (by decide)
      (by decide) (by rfl) (by decide) (by decide) (by decide)   -- hty htm hlen htsz hcap
      (by rfl) ⟨rfl, rfl, rfl, rfl, rfl⟩ (by decide)             -- hget hinfo hnd
      (by decide +kernel) (by decide)
  rw [show ((symS1.mem.drop 4).take (leVal (symS1.mem.take 4))).map (·.toNat) = [65, 66, 233] from by decide] at h
  exact h

/-- … of `read_struct_e2e_flat`: `read("p1")` returns the dict {x: 7, y: -2}, type `Pt` -/
example : ∃ w' frm, read hookAll cfg3 (world3 []) [Drv.nm "p1"] =
      (w', .ok [{ tag := Drv.nm "p1", value := .dict [(Drv.nm "x", .int 7), (Drv.nm "y", .int (-2))],
                  type := some (Drv.nm "Pt"), error := none }]) ∧
    w'.drv = (world3 []).drv.nextSeq.2 ∧ w'.net.sent = (world3 []).net.sent ++ [frm] ∧
    w'.net.target.ext = { (world3 []).net.target.ext with logix := some { state3 [] with ctr := (state3 []).ctr + 1 } } ∧
    ldr_Healthy w' 4097 [238, 255, 192, 0] { conn with lastSeq := some (world3 []).drv.nextSeq.1 } :=
  read_struct_e2e_flat cfg3 (world3 []) 4097 [238, 255, 192, 0] conn (state3 []) symP1 0x201 tmplPt infoP1 siPt
    (.cons (Drv.nm "x") (.int .dint) 0 (.cons (Drv.nm "y") (.int .int) 4 .nil)) [] [] 8
    (.dict [(Drv.nm "x", .int 7), (Drv.nm "y", .int (-2))]) [(Drv.nm "x", .int 7), (Drv.nm "y", .int (-2))] []
    healthy3 (by rfl) (hsP1 []) (bytes3 []) (uniqN3 [] symP1 (hsP1 [])) (uniqI3 [] symP1 (hsP1 []))
    ⟨by decide, by decide, by decide⟩ (by decide)
    (by decide) (by rfl) (by decide) (by decide)                 -- hty htm hlen hpos
    (by rfl) ⟨rfl, rfl, rfl, rfl, rfl⟩ (by decide)               -- hget hinfo hnd
    (by rfl) rfl (by rfl) (by decide)                            -- hdec hv hkeys hnodup
    (by decide +kernel) (by decide)

theorem healthy3t : ldr_Healthy (small3 [3] 19) 4097 [238, 255, 192, 0] conn :=
  ⟨by decide +kernel, by decide +kernel, by decide +kernel, by decide +kernel, by decide +kernel, by decide,
   by decide +kernel, by decide +kernel, by decide, by decide +kernel, by decide +kernel, by decide +kernel⟩

-- a driver connection of 19 bytes: 8 + 5 + 7 = 20 > 19, the structure goes through Read Tag Fragmented (3 + 3 + 2 bytes)
#guard ok1 (read hookAll cfg3 (small3 [3] 19) [Drv.nm "p1"]).2 "p1" "Pt"
  (fun v => match v with | .dict [([120], .int 7), ([121], .int (-2))] => true | _ => false)
#guard (read hookAll cfg3 (small3 [3] 19) [Drv.nm "p1"]).1.net.sent.length == (small3 [3] 19).net.sent.length + 3
#guard (read hookAll cfg3 (small3 [3] 20) [Drv.nm "p1"]).1.net.sent.length == (small3 [3] 20).net.sent.length + 1
#guard ok1 (read hookAll cfg3 (small3 [3] 19) [Drv.nm "s1"]).2 "s1" "STR8" (fun v => match v with | .str [65, 66, 233] => true | _ => false)

/-- … of `read_struct_fragmented_e2e`: `read("p1")` on a 19-byte connection, 3-byte fragments: the same dict, 3 frames -/
example : ∃ w' fs ls', read hookAll cfg3 (small3 [3] 19) [Drv.nm "p1"] =
      (w', .ok [{ tag := Drv.nm "p1", value := .dict [(Drv.nm "x", .int 7), (Drv.nm "y", .int (-2))],
                  type := some (Drv.nm "Pt"), error := none }]) ∧
    w'.drv = ldr3_seqs (fs.length + 1) (small3 [3] 19).drv ∧ w'.net.sent = (small3 [3] 19).net.sent ++ fs ∧
    fs.length = 3 ∧
    w'.net.target.ext = { (small3 [3] 19).net.target.ext with
      logix := some { state3 [3] with ctr := (state3 [3]).ctr + fs.length } } ∧
    ldr_Healthy w' 4097 [238, 255, 192, 0] { conn with lastSeq := ls' } := by
  have h := read_struct_fragmented_e2e cfg3 (small3 [3] 19) 4097 [238, 255, 192, 0] conn (state3 [3]) symP1 0x201 tmplPt infoP1 siPt
    (.cons (Drv.nm "x") (.int .dint) 0 (.cons (Drv.nm "y") (.int .int) 4 .nil)) [] [] 8
    [(Drv.nm "x", .int 7), (Drv.nm "y", .int (-2))] [(Drv.nm "x", .int 7), (Drv.nm "y", .int (-2))] []
    healthy3t (by rfl) (hsP1 [3]) (bytes3 [3]) (uniqN3 [3] symP1 (hsP1 [3])) (uniqI3 [3] symP1 (hsP1 [3]))
    ⟨by decide, by decide, by decide⟩ (by decide)
    (by decide) (by rfl) (by decide) (by decide) (by decide)     -- hty htm hlen hpos hfuel
    (by rfl) ⟨rfl, rfl, rfl, rfl, rfl⟩ (by decide)               -- hget hinfo hnd
    (by rfl) (by rfl)                                            -- hdec hattr
    (by intro path hp                                            -- hfrag: the request path has 5 bytes
        have e : requestPathOf cfg3 symP1.name infoP1 = .ok [2, 32, 107, 36, 21] := by rfl
        rw [e] at hp
        cases hp
        decide)
    (by decide)
  rw [show (ldr3_fragSizes (state3 [3]).proj.readSchedule (conn.size - 10) tmplPt.size FRAG_FUEL (state3 [3]).ctr 0).length = 3
    from by decide +kernel] at h
  exact h

/-- the structure marker of that reply: `A0 02 34 12` -/
example : typeBytes (state3 []).proj (.struct 0x201) = [0xA0, 0x02, 0x34, 0x12] := by
  rw [ldr3_typeBytes_struct _ _ tmplPt (by rfl)]; rfl

end Ex3

end Pycomm.Lgx.Drv
