/-
  LogixDriver.write of ANY number of plain one-element requests, layers (c)+(d)+(e): a Multiple Service Packet
  embedding any non-empty list of Write Tag requests over the healthy connection — the reference controller executes
  the embedded requests one after the other (`ldwn_exch`), the response class hands back one embedded reply per
  request, each behind the 46 zero bytes —, and `_send_requests` over any list of such packets.
-/
import PycommProofs.LDWriteN1
namespace Pycomm.Lgx.Drv
open Pycomm Pycomm.Tgt Pycomm.Path Pycomm.Reply Pycomm.Encap Pycomm.Lgx Pycomm.Lgx.E2E

/-- the controller's answers to a list of messages, executed one after the other on the state the previous one left -/
def ldwn_exch (cap : Nat) : LState → List Bytes → LState × List MRReply
  | st, [] => (st, [])
  | st, m :: rest =>
      ((ldwn_exch cap (Cl.exchange st cap m).1 rest).1,
       (Cl.exchange st cap m).2 :: (ldwn_exch cap (Cl.exchange st cap m).1 rest).2)

theorem ldwn_exch_length (cap : Nat) (msgs : List Bytes) : ∀ st, (ldwn_exch cap st msgs).2.length = msgs.length := by
  induction msgs with
  | nil => intro st; rfl
  | cons m rest ih => intro st; simp [ldwn_exch, ih]

theorem ldwn_exch_append (cap : Nat) (a b : List Bytes) : ∀ st,
    ldwn_exch cap st (a ++ b) =
      ((ldwn_exch cap (ldwn_exch cap st a).1 b).1, (ldwn_exch cap st a).2 ++ (ldwn_exch cap (ldwn_exch cap st a).1 b).2) := by
  induction a with
  | nil => intro st; rfl
  | cons m rest ih =>
    intro st
    simp only [List.cons_append, ldwn_exch, ih, List.cons_append]

/-- the message of a built Write Tag packet -/
def ldwn_msgOf (q : WriteReq) : Bytes := Cl.writeMsg q.path q.typeBytes q.elements q.value

/-- the embedded reply as the multi-service response class hands it to the Write Tag response class -/
def ldwn_pad (r : MRReply) : Option Bytes := some (List.replicate 46 0 ++ encMRReply 0x4D r)

/-- (d) the embedded Write Tag requests are executed like requests of their own, one after the other -/
theorem ldwn_execEmbedded (cap : Nat) (msgs : List Bytes) :
    ∀ st, (∀ m ∈ msgs, ∃ req, parseMR m = some req ∧ req.service = 0x4D) →
      execEmbedded cap st msgs = ((ldwn_exch cap st msgs).1, (ldwn_exch cap st msgs).2.map (encMRReply 0x4D)) := by
  induction msgs with
  | nil => intro st _; simp [execEmbedded, ldwn_exch]
  | cons m rest ih =>
    intro st h
    obtain ⟨req, hreq, hsvc⟩ := h m List.mem_cons_self
    rw [execEmbedded_cons, embStep_exchange cap st m req hreq (by rw [hsvc]; decide), hsvc]
    simp only
    rw [ih _ (fun x hx => h x (List.mem_cons_of_mem _ hx))]
    simp [ldwn_exch]

/-- (d) the Logix services answer a Multiple Service Packet with any non-empty list of embedded requests -/
theorem ldwn_logix_multi (st : LState) (cap : Nat) (msgs : List Bytes) (hne : msgs ≠ [])
    (hsz : 2 + 2 * msgs.length + (msgs.map (·.length)).sum < 65536) (hpos : ∀ m ∈ msgs, m ≠ []) :
    logixService st { service := 0x0A, path := [.logical 0 2, .logical 4 1], data := K.packMulti msgs } (some cap) =
      some ((execEmbedded cap st msgs).1,
        { status := if (execEmbedded cap st msgs).2.any (fun r => r.getD 2 0 != 0) then 0x1E else 0,
          data := K.packMulti (execEmbedded cap st msgs).2 }) := by
  have he := multi_e2e st cap msgs hne hsz hpos
  have hl : logixService st { service := 0x0A, path := [.logical 0 2, .logical 4 1], data := K.packMulti msgs } (some cap) =
      some (multiService st (K.packMulti msgs) cap) := by
    simp [logixService]
  have hx : Cl.exchange st cap (Cl.multiMsg msgs) = multiService st (K.packMulti msgs) cap := by
    unfold Cl.exchange Cl.multiMsg
    rw [parseMR_multi]
    simp only [hl]
  rw [hl, ← hx, he]

theorem ldwn_packMulti_length (msgs : List Bytes) :
    (K.packMulti msgs).length = 2 + 2 * msgs.length + (msgs.map (·.length)).sum := by
  rw [LB.packMulti_length, LB.offOf, LB.psum, List.take_length]

/-- (e) the multi-service response class splits the packed replies into one embedded reply per request, each behind
    46 zero bytes -/
theorem ldwn_embedded (reps : List Bytes) (hne : reps ≠ [])
    (hsz : 2 + 2 * reps.length + (reps.map (·.length)).sum < 65536) :
    embeddedReplies (some (K.packMulti reps)) = reps.map fun b => some (List.replicate 46 0 ++ b) := by
  unfold embeddedReplies
  simp only
  rw [if_neg (by rw [ldwn_packMulti_length]; omega),
    K.client_unpacks_packed reps hne (by rw [← List.sum_eq_foldl]; exact hsz)]

/-- what the controller may answer to an embedded Write Tag request here: success without data, or a refusal (non-zero
    status, at most one extended status word, no data) -/
def ldwn_Ans (r : MRReply) : Prop := r = {} ∨ (r.status ≠ 0 ∧ r.status < 256 ∧ r.ext.length ≤ 1 ∧ r.data = [])

theorem ldwn_Ans_length (r : MRReply) (h : ldwn_Ans r) : (encMRReply 0x4D r).length ≤ 6 := by
  rw [ldx_encMRReply_length]
  rcases h with rfl | ⟨_, _, h3, h4⟩
  · simp
  · rw [h4]; simp; omega

theorem ldwn_sum_le (l : List Nat) (b : Nat) (h : ∀ x ∈ l, x ≤ b) : l.sum ≤ b * l.length := by
  induction l with
  | nil => simp
  | cons a t ih =>
    have h1 := h a List.mem_cons_self
    have h2 := ih (fun x hx => h x (List.mem_cons_of_mem _ hx))
    simp only [List.sum_cons, List.length_cons, Nat.mul_succ]
    omega

theorem ldwn_sum_ge (l : List Nat) (b : Nat) (h : ∀ x ∈ l, b ≤ x) : b * l.length ≤ l.sum := by
  induction l with
  | nil => simp
  | cons a t ih =>
    have h1 := h a List.mem_cons_self
    have h2 := ih (fun x hx => h x (List.mem_cons_of_mem _ hx))
    simp only [List.sum_cons, List.length_cons, Nat.mul_succ]
    omega

theorem ldwn_msgOf_length (q : WriteReq) : (ldwn_msgOf q).length + 2 = q.messageLen := by
  unfold ldwn_msgOf WriteReq.messageLen; omega

theorem ldwn_msgs_sum (g : List WriteReq) :
    ((g.map ldwn_msgOf).map (·.length)).sum + 2 * g.length = ldwn_groupSize g := by
  unfold ldwn_groupSize
  induction g with
  | nil => rfl
  | cons q rest ih =>
    simp only [List.map_cons, List.sum_cons, List.length_cons]
    have := ldwn_msgOf_length q
    omega

/-- (c)+(d)+(e) a multi-service packet with any non-empty list of embedded Write Tag requests over the healthy
    connection: ONE frame is written; `_send_requests` pairs the requests with the embedded replies — the answers the
    controller gives to the requests one after the other —, each behind the 46 zero bytes; whatever the outer status -/
theorem ldwn_sendRequest_multi (w : Cli.World Ext) (sess : Nat) (cidb : Bytes) (conn : Conn) (st : LState)
    (rs : Results) (seq : Nat) (g : List WriteReq)
    (hw : ldr_Healthy w sess cidb conn) (hlogix : w.net.target.ext.logix = some st) (hne : g ≠ [])
    (hden : ∀ q ∈ g, ∃ segs, Denotes q.path segs) (hty : ∀ q ∈ g, 2 ≤ q.typeBytes.length)
    (hans : ∀ r ∈ (ldwn_exch (conn.size - 2) st (g.map ldwn_msgOf)).2, ldwn_Ans r)
    (hseq : seq < 65536) (hfit : K.OVERHEAD + ldwn_groupSize g ≤ conn.size)
    (hmax : K.OVERHEAD + ldwn_groupSize g ≤ 65400) :
    ∃ w' frm, sendRequest hookAll w rs (.multiWrite seq g) =
        (w', multiWriteResults rs (g.zip ((ldwn_exch (conn.size - 2) st (g.map ldwn_msgOf)).2.map ldwn_pad))) ∧
      w'.drv = w.drv ∧ w'.net.sent = w.net.sent ++ [frm] ∧
      w'.net.target.ext =
        { w.net.target.ext with logix := some (ldwn_exch (conn.size - 2) st (g.map ldwn_msgOf)).1 } ∧
      ldr_Healthy w' sess cidb { conn with lastSeq := some seq } := by
  have hoh : K.OVERHEAD = 10 := rfl
  have hparse : ∀ m ∈ g.map ldwn_msgOf, ∃ req, parseMR m = some req ∧ req.service = 0x4D := by
    intro m hm
    obtain ⟨q, hq, rfl⟩ := List.mem_map.1 hm
    obtain ⟨segs, hs⟩ := hden q hq
    refine ⟨{ service := 0x4D, path := segs, data := q.typeBytes ++ le 2 q.elements ++ q.value }, ?_, rfl⟩
    unfold ldwn_msgOf
    rw [ldx_writeMsg_eq]
    exact parseMR_msg 0x4D q.path _ segs hs
  have hmne : g.map ldwn_msgOf ≠ [] := by
    intro h; exact hne (List.map_eq_nil_iff.1 h)
  have hpos : ∀ m ∈ g.map ldwn_msgOf, m ≠ [] := by
    intro m hm h
    obtain ⟨req, hreq, _⟩ := hparse m hm
    rw [h] at hreq; simp [parseMR] at hreq
  have hsum := ldwn_msgs_sum g
  have hlen8 : 8 * g.length ≤ ldwn_groupSize g := by
    have := ldwn_sum_ge (g.map (·.messageLen)) 8 (by
      intro x hx
      obtain ⟨q, hq, rfl⟩ := List.mem_map.1 hx
      obtain ⟨segs, hs⟩ := hden q hq
      have hp : q.path ≠ [] := by
        intro h; unfold Denotes at hs; rw [h] at hs; simp [parseRequestPath] at hs
      have hpl : 0 < q.path.length := List.length_pos_iff.2 hp
      have := hty q hq
      unfold WriteReq.messageLen
      rw [ldx_writeMsg_length]; omega)
    rw [List.length_map] at this
    exact this
  have hls := ldwn_logix_multi st (conn.size - 2) (g.map ldwn_msgOf) hmne
    (by rw [List.length_map]; omega) hpos
  rw [ldwn_execEmbedded (conn.size - 2) _ st hparse] at hls
  simp only at hls
  have hml : (Cl.multiMsg (g.map ldwn_msgOf)).length = 8 + ldwn_groupSize g := by
    unfold Cl.multiMsg
    rw [List.length_append, ldwn_packMulti_length, List.length_map]
    simp only [List.length_cons, List.length_nil]
    omega
  obtain ⟨w2, frm, hsend, hd2, hsent2, hext2, hh2⟩ := ldr2_sendUnit_logix w sess cidb conn st seq
    (Cl.multiMsg (g.map ldwn_msgOf))
    { service := 0x0A, path := [.logical 0 2, .logical 4 1], data := K.packMulti (g.map ldwn_msgOf) } _
    hw hlogix (parseMR_multi _)
    (Or.inr ⟨2, 1, [], rfl, by decide, by decide, by decide, by decide, by decide⟩) hls
    hseq (by rw [hml]; omega) (by rw [hml]; omega)
  generalize hex : ldwn_exch (conn.size - 2) st (g.map ldwn_msgOf) = ex at *
  have hexl : ex.2.length = g.length := by
    rw [← hex, ldwn_exch_length, List.length_map]
  have hdata := ldx_multi_data sess conn.toId seq w.drv.context
    (K.packMulti (ex.2.map (encMRReply 0x4D)))
    ((ex.2.map (encMRReply 0x4D)).any (fun r => r.getD 2 0 != 0)) hw.ctx8
  have hrne : ex.2.map (encMRReply 0x4D) ≠ [] := by
    intro h
    have := congrArg List.length h
    rw [List.length_map, hexl] at this
    exact hne (List.length_eq_zero_iff.1 this)
  have hrsum : ((ex.2.map (encMRReply 0x4D)).map (·.length)).sum ≤ 6 * g.length := by
    have := ldwn_sum_le ((ex.2.map (encMRReply 0x4D)).map (·.length)) 6 (by
      intro x hx
      obtain ⟨b, hb, rfl⟩ := List.mem_map.1 hx
      obtain ⟨r, hr, rfl⟩ := List.mem_map.1 hb
      exact ldwn_Ans_length r (hans r hr))
    rw [List.length_map, List.length_map, hexl] at this
    exact this
  have hemb := ldwn_embedded (ex.2.map (encMRReply 0x4D)) hrne (by rw [List.length_map, hexl]; omega)
  refine ⟨w2, frm, ?_, hd2, hsent2, hext2, hh2⟩
  have hmap : g.map (fun q => Cl.writeMsg q.path q.typeBytes q.elements q.value) = g.map ldwn_msgOf := rfl
  rw [← hmap] at hsend
  rw [ldx_sendRequest_mwrite w w2 rs seq _ _ hsend (ldr_tagResp_commandStatus _ _ _ _), hdata, hemb, List.map_map]
  rfl

end Pycomm.Lgx.Drv
