/-
  C13 at the driver level for ARBITRARY reply bytes, fragmented requests and several packets, part 1: the transport
  with a QUEUE of waiting replies, and the read fragment loop as a function of the replies.

    * `ldaf_sendReq_queue`, `ldaf_sendUnit_queue`: when replies are waiting in the transport's queue, `CIPDriver.send`
      hands back the first one and leaves the others waiting (the target's own answer goes to the end of the queue);
      one frame is written; the driver state is untouched;
    * `ldaf_readFragPure`: `_send_read_fragmented` as a pure function of the list of replies; `ldaf_consumed`: the
      replies the loop reads (up to and including the first one that does not say "status 6, more to come");
    * `ldaf_readFragLoop_spec`: the model's loop over a queue of arbitrary replies IS that function (or the transport
      fails with CommError / DataError); `ldaf_readFragLoop_hang`: the fuel runs out exactly when `fuel` replies in a
      row keep saying "more to come".
-/
import PycommProofs.LDAny5
namespace Pycomm.Lgx.Drv
open Pycomm Pycomm.Tgt Pycomm.Path Pycomm.Reply Pycomm.Encap Pycomm.RP

/-! ### the transport with several replies waiting -/

theorem ldaf_sockSend_queue {σ} (hook : ObjHook σ) (n : Cli.Net σ) (msg raw : Bytes) (rest : List (Option Bytes))
    (hp : n.pending = some raw :: rest) :
    (n.sockSend hook msg).2 = .error .comm ∨
    ((n.sockSend hook msg).2 = .ok () ∧ (∃ x, (n.sockSend hook msg).1.pending = some raw :: (rest ++ [x])) ∧
      (n.sockSend hook msg).1.sent.length = n.sent.length + 1) := by
  unfold Cli.Net.sockSend
  dsimp only
  split
  · exact .inl rfl
  · split
    · exact .inr ⟨rfl, ⟨none, by simp [hp]⟩, by simp⟩
    · exact .inr ⟨rfl, ⟨(handle hook n.target msg).2, by simp [hp]⟩, by simp⟩

theorem ldaf_sockReceive_queue {σ} (n : Cli.Net σ) (raw : Bytes) (rest : List (Option Bytes))
    (hp : n.pending = some raw :: rest) :
    n.sockReceive.2 = .error .comm ∨
    (n.sockReceive.2 = .ok raw ∧ n.sockReceive.1.pending = rest ∧ n.sockReceive.1.sent = n.sent) := by
  unfold Cli.Net.sockReceive
  dsimp only
  split
  · exact .inl rfl
  · rw [hp]
    exact .inr ⟨rfl, rfl, rfl⟩

/-- `CIPDriver.send` with a reply `raw` at the head of the queue: CommError / DataError, or the reply returned is `raw`,
    the driver state is unchanged, the rest of the queue is still waiting (followed by whatever the target answered to
    this frame), and exactly one frame was written -/
theorem ldaf_sendReq_queue {σ} (hook : ObjHook σ) (w : Cli.World σ) (r : Req) (raw : Bytes) (rest : List (Option Bytes))
    (hp : w.net.pending = some raw :: rest) :
    (Cli.sendReq hook w r false).2 = .error .comm ∨ (Cli.sendReq hook w r false).2 = .error .data ∨
    ((Cli.sendReq hook w r false).2 = .ok (some raw) ∧ (Cli.sendReq hook w r false).1.drv = w.drv ∧
      (∃ x, (Cli.sendReq hook w r false).1.net.pending = rest ++ [x]) ∧
      (Cli.sendReq hook w r false).1.net.sent.length = w.net.sent.length + 1) := by
  unfold Cli.sendReq
  split
  · next e hb =>
    rcases EN.buildRequest_err _ _ _ hb with rfl | rfl
    · exact .inl rfl
    · exact .inr (.inl rfl)
  · next frame hb =>
    split
    · exact .inl rfl
    · have hsend := ldaf_sockSend_queue hook w.net frame raw rest hp
      rcases hs : w.net.sockSend hook frame with ⟨n1, s⟩
      rw [hs] at hsend
      dsimp only at hsend ⊢
      rcases hsend with h1 | ⟨h1, ⟨x, hx⟩, hlen⟩
      · subst h1
        exact .inl rfl
      · subst h1
        dsimp only
        simp only [Bool.false_eq_true, if_false]
        have hrecv := ldaf_sockReceive_queue n1 raw (rest ++ [x]) hx
        rcases hr : n1.sockReceive with ⟨n2, rcv⟩
        rw [hr] at hrecv
        dsimp only at hrecv ⊢
        rcases hrecv with h2 | ⟨h2, h3, h4⟩
        · subst h2
          exact .inl rfl
        · subst h2
          exact .inr (.inr ⟨rfl, rfl, ⟨x, h3⟩, by rw [h4, hlen]⟩)

theorem ldaf_sendUnit_queue {σ} (hook : ObjHook σ) (w : Cli.World σ) (seq : Nat) (msg raw : Bytes)
    (rest : List (Option Bytes)) (hp : w.net.pending = some raw :: rest) :
    (sendUnit hook w seq msg).2 = .error .comm ∨ (sendUnit hook w seq msg).2 = .error .data ∨
    ((sendUnit hook w seq msg).2 = .ok (some raw) ∧ (sendUnit hook w seq msg).1.drv = w.drv ∧
      (∃ x, (sendUnit hook w seq msg).1.net.pending = rest ++ [x]) ∧
      (sendUnit hook w seq msg).1.net.sent.length = w.net.sent.length + 1) :=
  ldaf_sendReq_queue hook w _ raw rest hp

/-- a queue that starts with the arbitrary replies `raw :: more` -/
theorem ldaf_queue_cons (raw : Bytes) (more : List Bytes) (rest : List (Option Bytes)) :
    (raw :: more).map some ++ rest = some raw :: (more.map some ++ rest) := rfl

/-! ### `_send_read_fragmented` as a function of the replies -/

/-- the text of the failed response `_send_read_fragmented` / `_send_write_fragmented` build themselves -/
def ldaf_fragFailed : TagErr := .reply (.text (nm "One or more fragment responses failed"))

theorem ldaf_failedResp_error : (failedResp "One or more fragment responses failed").error = .ok (some ldaf_fragFailed) := rfl

theorem ldaf_fragFailed_text : lda_ErrText ldaf_fragFailed := by
  show nm "One or more fragment responses failed" ≠ []
  decide

/-- after this reply the loop of `_send_read_fragmented` asks again: the reply has a service part and its general
    status is 6 ("insufficient packets": more to come) -/
def ldaf_continues (raw : Bytes) : Bool :=
  match (tagResp (some raw)).p.data with
  | none => false
  | some _ => (tagResp (some raw)).p.serviceStatus == some Gen.INSUFFICIENT_PACKETS

/-- `response.value_bytes` / `response._data_type` of a fragment reply -/
def ldaf_valueBytes (raw : Bytes) : Bytes := (Cl.splitTyped ((tagResp (some raw)).p.data.getD [])).2
def ldaf_typeBytes (raw : Bytes) : Bytes := (Cl.splitTyped ((tagResp (some raw)).p.data.getD [])).1

/-- the replies the loop reads: up to and including the first one after which it does not ask again -/
def ldaf_consumed : List Bytes → List Bytes
  | [] => []
  | raw :: more => if ldaf_continues raw then raw :: ldaf_consumed more else [raw]

/-- some reply of the list ends the loop -/
def ldaf_stops : List Bytes → Bool
  | [] => false
  | raw :: more => if ldaf_continues raw then ldaf_stops more else true

/-- the exit of the loop on a reply after which it does not ask again: `acc` = value bytes so far, `allOk` =
    `all(responses)` so far -/
def ldaf_readFragFinal (req : ReadReq) (acc : Bytes) (allOk : Bool) (raw : Bytes) : Except Exn (Resp × PyVal × Option Name) :=
  match (tagResp (some raw)).error with
  | .error e => .error e
  | .ok _ =>
    if allOk && (tagResp (some raw)).valid then
      match parseReadReply (ldaf_typeBytes raw ++ acc ++ ldaf_valueBytes raw) req.info req.elements with
      | .ok (v, dt) => .ok (tagResp (some raw), v, some dt)
      | .error _ =>
          .ok ({ tagResp (some raw) with p := { (tagResp (some raw)).p with err := some .parseFailed }, valid := false }, .none, none)
    else .ok (failedResp "One or more fragment responses failed", .none, none)

/-- `_send_read_fragmented` over the replies `raws`; `none` = the replies given do not end the loop -/
def ldaf_readFragPure (req : ReadReq) : List Bytes → Bytes → Bool → Option (Except Exn (Resp × PyVal × Option Name))
  | [], _, _ => none
  | raw :: more, acc, allOk =>
      if ldaf_continues raw then
        ldaf_readFragPure req more (acc ++ ldaf_valueBytes raw) (allOk && (tagResp (some raw)).valid)
      else some (ldaf_readFragFinal req acc allOk raw)

theorem ldaf_readFragPure_stops (req : ReadReq) : ∀ (raws : List Bytes) (acc : Bytes) (allOk : Bool),
    ldaf_stops raws = true → ∃ out, ldaf_readFragPure req raws acc allOk = some out := by
  intro raws
  induction raws with
  | nil => intro _ _ h; cases h
  | cons raw more ih =>
    intro acc allOk h
    unfold ldaf_stops at h
    unfold ldaf_readFragPure
    split
    · next hc => rw [if_pos hc] at h; exact ih _ _ h
    · exact ⟨_, rfl⟩

/-- one round of the model's loop when the reply read is `raw` -/
theorem ldaf_loop_round {σ} (hook : ObjHook σ) (req : ReadReq) (fuel : Nat) (w w1 : Cli.World σ) (seq offset : Nat)
    (acc : Bytes) (allOk : Bool) (raw : Bytes)
    (hs : sendUnit hook w seq (Cl.readFragMsg req.path req.elements offset) = (w1, .ok (some raw))) :
    readFragLoop hook req (fuel + 1) w seq offset acc allOk =
      if ldaf_continues raw then
        readFragLoop hook req fuel { w1 with drv := w1.drv.nextSeq.2 } w1.drv.nextSeq.1
          (offset + (ldaf_valueBytes raw).length) (acc ++ ldaf_valueBytes raw) (allOk && (tagResp (some raw)).valid)
      else (w1, ldaf_readFragFinal req acc allOk raw) := by
  rw [readFragLoop, hs]
  dsimp only
  unfold ldaf_continues ldaf_readFragFinal ldaf_valueBytes ldaf_typeBytes
  cases hd : (tagResp (some raw)).p.data with
  | none =>
    dsimp only
    simp only [Bool.false_eq_true, if_false]
    have hv : (tagResp (some raw)).valid = false := by
      cases hv : (tagResp (some raw)).valid with
      | false => rfl
      | true =>
        exfalso
        have hok := (valid_iff .connected raw).1 hv
        obtain ⟨svc, _, hp⟩ := parseCip_good .connected raw hok.1 hok.2.2.1
        have : (tagResp (some raw)).p.data = (parseCip (some raw) .connected).data := rfl
        rw [this, hp] at hd
        cases hd
    rw [hv, Bool.and_false]
    cases (tagResp (some raw)).error with
    | error e => rfl
    | ok _ => rfl
  | some d =>
    dsimp only
    split
    · rfl
    · simp only [Option.getD_some]
      cases (tagResp (some raw)).error with
      | error e => rfl
      | ok _ =>
        dsimp only
        split
        · rcases parseReadReply ((Cl.splitTyped d).1 ++ acc ++ (Cl.splitTyped d).2) req.info req.elements with e | ⟨v, dt⟩
          · simp only [hd]
          · rfl
        · rfl

theorem ldaf_consumed_pos (raw : Bytes) (more : List Bytes) : 1 ≤ (ldaf_consumed (raw :: more)).length := by
  unfold ldaf_consumed
  split <;> simp

/-- the model's loop over a queue that starts with the arbitrary replies `raws`, when one of them ends the loop and
    the fuel covers the replies read: the transport fails (CommError / DataError), or the outcome is
    `ldaf_readFragPure` of the replies and one frame was written per reply read -/
theorem ldaf_readFragLoop_spec {σ} (hook : ObjHook σ) (req : ReadReq) : ∀ (raws : List Bytes) (fuel : Nat)
    (w : Cli.World σ) (seq offset : Nat) (acc : Bytes) (allOk : Bool) (rest : List (Option Bytes))
    (out : Except Exn (Resp × PyVal × Option Name)),
    w.net.pending = raws.map some ++ rest → ldaf_readFragPure req raws acc allOk = some out →
    (ldaf_consumed raws).length ≤ fuel →
    ((readFragLoop hook req fuel w seq offset acc allOk).2 = out ∧
      (readFragLoop hook req fuel w seq offset acc allOk).1.net.sent.length =
        w.net.sent.length + (ldaf_consumed raws).length) ∨
    (readFragLoop hook req fuel w seq offset acc allOk).2 = .error .comm ∨
    (readFragLoop hook req fuel w seq offset acc allOk).2 = .error .data := by
  intro raws
  induction raws with
  | nil => intro fuel w seq offset acc allOk rest out _ h; cases h
  | cons raw more ih =>
    intro fuel w seq offset acc allOk rest out hp hpure hfuel
    have hpos := ldaf_consumed_pos raw more
    obtain ⟨f, rfl⟩ : ∃ f, fuel = f + 1 := ⟨fuel - 1, by omega⟩
    rw [ldaf_queue_cons] at hp
    have hq := ldaf_sendUnit_queue hook w seq (Cl.readFragMsg req.path req.elements offset) raw _ hp
    rcases hs : sendUnit hook w seq (Cl.readFragMsg req.path req.elements offset) with ⟨w1, r⟩
    rw [hs] at hq
    dsimp only at hq
    rcases hq with h | h | ⟨h1, hdrv, ⟨x, hx⟩, hlen⟩
    · subst h
      right; left
      rw [readFragLoop, hs]
    · subst h
      right; right
      rw [readFragLoop, hs]
    · subst h1
      rw [ldaf_loop_round hook req f w w1 seq offset acc allOk raw hs]
      unfold ldaf_readFragPure at hpure
      unfold ldaf_consumed at hfuel ⊢
      by_cases hc : ldaf_continues raw = true
      · rw [if_pos hc] at hpure hfuel ⊢
        rw [if_pos hc]
        have hp2 : ({ w1 with drv := w1.drv.nextSeq.2 } : Cli.World σ).net.pending = more.map some ++ (rest ++ [x]) := by
          show w1.net.pending = _
          rw [hx, List.append_assoc]
        have hf2 : (ldaf_consumed more).length ≤ f := by
          rw [List.length_cons] at hfuel; omega
        rcases ih f { w1 with drv := w1.drv.nextSeq.2 } w1.drv.nextSeq.1 (offset + (ldaf_valueBytes raw).length)
          (acc ++ ldaf_valueBytes raw) (allOk && (tagResp (some raw)).valid) (rest ++ [x]) out hp2 hpure hf2 with
          ⟨h2, h3⟩ | h2 | h2
        · left
          refine ⟨h2, ?_⟩
          rw [h3, List.length_cons]
          show w1.net.sent.length + _ = _
          rw [hlen]; omega
        · exact .inr (.inl h2)
        · exact .inr (.inr h2)
      · rw [if_neg hc] at hpure ⊢
        rw [if_neg hc]
        cases hpure
        left
        exact ⟨rfl, by rw [List.length_singleton]; exact hlen⟩

/-- the fuel of the model's loop runs out exactly when `fuel` replies in a row say "status 6, more to come" (the real
    loop has no bound: it asks again for as long as the peer answers so); before that only the transport can fail -/
theorem ldaf_readFragLoop_hang {σ} (hook : ObjHook σ) (req : ReadReq) : ∀ (fuel : Nat) (raws : List Bytes)
    (w : Cli.World σ) (seq offset : Nat) (acc : Bytes) (allOk : Bool) (rest : List (Option Bytes)),
    w.net.pending = raws.map some ++ rest → fuel ≤ raws.length → (∀ raw ∈ raws.take fuel, ldaf_continues raw = true) →
    (readFragLoop hook req fuel w seq offset acc allOk).2 = .error .hang ∨
    (readFragLoop hook req fuel w seq offset acc allOk).2 = .error .comm ∨
    (readFragLoop hook req fuel w seq offset acc allOk).2 = .error .data := by
  intro fuel
  induction fuel with
  | zero => intro raws w seq offset acc allOk rest _ _ _; left; rw [readFragLoop]
  | succ f ih =>
    intro raws w seq offset acc allOk rest hp hlen hall
    cases raws with
    | nil => simp at hlen
    | cons raw more =>
      rw [ldaf_queue_cons] at hp
      have hq := ldaf_sendUnit_queue hook w seq (Cl.readFragMsg req.path req.elements offset) raw _ hp
      rcases hs : sendUnit hook w seq (Cl.readFragMsg req.path req.elements offset) with ⟨w1, r⟩
      rw [hs] at hq
      dsimp only at hq
      rcases hq with h | h | ⟨h1, hdrv, ⟨x, hx⟩, _⟩
      · subst h
        right; left
        rw [readFragLoop, hs]
      · subst h
        right; right
        rw [readFragLoop, hs]
      · subst h1
        rw [ldaf_loop_round hook req f w w1 seq offset acc allOk raw hs]
        have hc : ldaf_continues raw = true := hall raw (by simp)
        rw [if_pos hc]
        apply ih more _ _ _ _ _ (rest ++ [x])
        · show w1.net.pending = _
          rw [hx, List.append_assoc]
        · simpa using hlen
        · intro r' hr'
          exact hall r' (by rw [List.take_succ_cons]; exact List.mem_cons_of_mem _ hr')

end Pycomm.Lgx.Drv
