/-
  LogixDriver.read of one element of a BOOL array (a DWORD array tag), `bits[i]`: the driver reads DWORD 0 up to the
  DWORD holding bit `i` and picks the bit out of the decoded bit list.
-/
import PycommProofs.LDRead2Core
import PycommProofs.LDRead2Addr
import PycommProofs.LDRead2Reply
namespace Pycomm.Lgx.Drv
open Pycomm Pycomm.Tgt Pycomm.Path Pycomm.Reply Pycomm.Encap Pycomm.Lgx Pycomm.Lgx.E2E

/-! ### the bit list of DWORDs -/

theorem ldr2_natToBits_length (n w : Nat) : (natToBits n w).length = n := by
  induction n generalizing w with
  | zero => rfl
  | succ n ih => simp [natToBits, ih]

theorem ldr2_natToBits_get (n : Nat) : ∀ (w j : Nat), j < n → (natToBits n w)[j]? = some (.bool (w.testBit j)) := by
  induction n with
  | zero => intro w j h; omega
  | succ n ih =>
    intro w j h
    cases j with
    | zero =>
      simp only [natToBits, List.getElem?_cons_zero, Nat.testBit_zero]
      congr 2
    | succ j =>
      simp only [natToBits, List.getElem?_cons_succ]
      rw [ih (w / 2) j (by omega), Nat.testBit_succ]

theorem ldr2_flattenBits_map (ws : List Nat) :
    flattenBits (ws.map fun w => PyVal.list (natToBits 32 w)) = ws.flatMap (natToBits 32) := by
  induction ws with
  | nil => rfl
  | cons w ws ih => simp [flattenBits, ih]

theorem ldr2_flat_length (ws : List Nat) : (ws.flatMap (natToBits 32)).length = 32 * ws.length := by
  induction ws with
  | nil => rfl
  | cons w ws ih => simp [ldr2_natToBits_length, ih]; omega

/-- bit `i` of the flattened list is bit `i % 32` of DWORD `i / 32` -/
theorem ldr2_flat_get (ws : List Nat) : ∀ i, i < 32 * ws.length →
    (ws.flatMap (natToBits 32))[i]? = some (.bool ((ws.getD (i / 32) 0).testBit (i % 32))) := by
  induction ws with
  | nil => intro i h; simp at h
  | cons w ws ih =>
    intro i h
    rw [List.flatMap_cons]
    by_cases hi : i < 32
    · rw [List.getElem?_append_left (by rw [ldr2_natToBits_length]; exact hi), ldr2_natToBits_get 32 w i hi]
      have h0 : i / 32 = 0 := by omega
      have h1 : i % 32 = i := by omega
      simp [h0, h1]
    · rw [List.getElem?_append_right (by rw [ldr2_natToBits_length]; omega), ldr2_natToBits_length,
        ih (i - 32) (by simp only [List.length_cons] at h; omega)]
      have h0 : i / 32 = (i - 32) / 32 + 1 := by omega
      have h1 : i % 32 = (i - 32) % 32 := by omega
      rw [h0, h1]
      simp

/-! ### decoding the DWORDs -/

theorem ldr2_decode_bits_prefix (a : Bytes) (v : PyVal) (r : Bytes) (h : decode (.bits .udint) a = .ok (v, r)) :
    4 ≤ a.length ∧ v = .list (natToBits 32 (leVal (a.take 4))) ∧
      ∀ x, decode (.bits .udint) (a.take 4 ++ x) = .ok (v, x) := by
  simp only [decode, decodeBits, bind, Except.bind] at h
  split at h
  · cases h
  · rename_i nr hn
    obtain ⟨n, r'⟩ := nr
    simp only [Except.ok.injEq, Prod.mk.injEq] at h
    obtain ⟨rfl, rfl⟩ := h
    obtain ⟨hlen, hx⟩ := ldr2_decodeIntNat_prefix .udint a n r' hn
    have e : IntK.udint.size = 4 := rfl
    rw [e] at hlen hx
    have hval : n = leVal (a.take 4) := by
      have h0 := hx []
      rw [List.append_nil] at h0
      have hneg : ¬ (((4 : Nat) : Int) < 0) := by omega
      have hl4 : (a.take 4).length = 4 := by rw [List.length_take]; omega
      have hne : (a.take 4).isEmpty = false := by
        cases hh : a.take 4 with
        | nil => rw [hh] at hl4; simp at hl4
        | cons _ _ => rfl
      have htt : (a.take 4).take 4 = a.take 4 := by rw [List.take_take, Nat.min_self]
      simp only [decodeIntNat, streamRead, bind, Except.bind, e, hneg, if_false, Int.toNat_natCast, htt, hne,
        Bool.false_eq_true, hl4, Nat.lt_irrefl, Except.ok.injEq, Prod.mk.injEq] at h0
      exact h0.1.symm
    refine ⟨hlen, by rw [hval]; rfl, ?_⟩
    intro x
    simp only [decode, decodeBits, bind, Except.bind, hx x]

/-- `n` DWORDs decoded one after the other from the first `4 * n` bytes of the memory -/
theorem ldr2_decodeN_bits (mem : Bytes) (n : Nat) :
    ∀ (off : Nat) (_ : off + 4 * n ≤ mem.length) (x : Bytes),
      decodeN (decode (.bits .udint)) n ((mem.drop off).take (n * 4) ++ x) =
        .ok ((List.range n).map (fun k => PyVal.list (natToBits 32 (leVal ((mem.drop (off + 4 * k)).take 4)))), x) := by
  induction n with
  | zero => intro off _ x; simp [decodeN]
  | succ n ih =>
    intro off hle x
    have hsplit : (mem.drop off).take ((n + 1) * 4) ++ x =
        (mem.drop off).take 4 ++ ((mem.drop (off + 4)).take (n * 4) ++ x) := by
      have e : (n + 1) * 4 = 4 + n * 4 := by omega
      rw [e, List.take_add, List.drop_drop, List.append_assoc]
    have hex : ∃ v r, decode (.bits .udint) (mem.drop off) = .ok (v, r) := by
      have hneg : ¬ (((4 : Nat) : Int) < 0) := by omega
      have hl4 : ((mem.drop off).take 4).length = 4 := by rw [List.length_take, List.length_drop]; omega
      have hne : ((mem.drop off).take 4).isEmpty = false := by
        cases hh : (mem.drop off).take 4 with
        | nil => rw [hh] at hl4; simp at hl4
        | cons _ _ => rfl
      have e : IntK.udint.size = 4 := rfl
      refine ⟨.list (natToBits (8 * IntK.udint.size) (leVal ((mem.drop off).take 4))), (mem.drop off).drop 4, ?_⟩
      simp only [decode, decodeBits, decodeIntNat, streamRead, bind, Except.bind, e, hneg, if_false, Int.toNat_natCast, hne,
        Bool.false_eq_true, hl4, Nat.lt_irrefl]
    obtain ⟨v, r, hd⟩ := hex
    obtain ⟨_, hv, hx⟩ := ldr2_decode_bits_prefix _ v r hd
    have hrest := ih (off + 4) (by omega) x
    rw [hsplit]
    simp only [decodeN, bind, Except.bind, hx, hrest, hv]
    congr 2
    rw [List.range_succ_eq_map, List.map_cons, List.map_map]
    congr 1
    apply List.map_congr_left
    intro k _
    simp only [Function.comp]
    have e : off + 4 + 4 * k = off + 4 * (k + 1) := by omega
    rw [e]

/-- the DWORDs of a memory image -/
def ldr2_dwords (mem : Bytes) (n : Nat) : List Nat := (List.range n).map fun k => leVal ((mem.drop (4 * k)).take 4)

/-- (e) `parse_read_reply` of the data of a Read Tag reply for `n ≥ 1` DWORDs of a BOOL-array tag: the list of the
    `32 * n` bits, least significant first; the type string is `BOOL[32 * n]` -/
theorem ldr2_parseReadReply_dword (info : TagInfo) (dim : Nat) (mem : Bytes) (n : Nat)
    (hty : info.core.ty = .arr (.fixed dim) (.bits .udint)) (hname : info.core.dataTypeName = nm "DWORD")
    (hn : 1 ≤ n) (hle : 4 * n ≤ mem.length) :
    parseReadReply (le 2 0xD3 ++ (mem.drop 0).take (n * 4)) info n =
      .ok (.list ((ldr2_dwords mem n).flatMap (natToBits 32)), nm "BOOL[" ++ renderDec ((n * 32 : Nat) : Int) ++ [93]) := by
  have hstream : (Cl.splitTyped (le 2 0xD3 ++ (mem.drop 0).take (n * 4))).2 = (mem.drop 0).take (n * 4) :=
    splitTyped_atomic 0xD3 (.bits .udint) rfl _
  have hN := ldr2_decodeN_bits mem n 0 (by omega) []
  rw [List.append_nil] at hN
  have hn0 : ¬ (n = 0) := by omega
  have harr : decode (.arr (.fixed n) (.bits .udint)) ((mem.drop 0).take (n * 4)) =
      .ok (.list ((ldr2_dwords mem n).flatMap (natToBits 32)), []) := by
    rw [decode]
    simp only [hN, Ty.isBits, Option.isSome_some, if_true]
    rw [← ldr2_flattenBits_map]
    simp only [ldr2_dwords, List.map_map, Nat.zero_add]
    rfl
  unfold parseReadReply
  rw [hty, hname]
  simp only [hn0, if_false, Cl.parseReadReply, hstream, if_true, harr, Ty.isBits, reduceCtorEq, and_false, beq_self_eq_true]

/-- (f) the result loop of `read` for an error-free one-element request on a BOOL-array tag whose response was recorded
    as a Tag with a list value: the element at the bit index, as a BOOL Tag named as the caller wrote it -/
theorem ldr2_readResult_dword (p : Parsed) (info : TagInfo) (t : LTag) (xs : List PyVal) (i : Nat) (v : PyVal)
    (herr : p.error = none) (hinfo : p.info = some info) (hbit : p.bit = some (i : Int)) (hbe : p.boolElements = none)
    (hd : info.core.dataTypeName = nm "DWORD") (hv : t.value = .list xs) (hte : t.error = none)
    (hx : xs[i]? = some v) :
    readResult p [((p.requestId : Nat), t)] =
      { tag := p.userTag, value := v, type := some (nm "BOOL"), error := none } := by
  have htr : t.truthy = true := by
    unfold LTag.truthy
    rw [hte, hv]; rfl
  have hdw : (info.core.dataTypeName != nm "DWORD") = false := by rw [hd]; simp
  have hlt : i < xs.length := by
    by_cases h : i < xs.length
    · exact h
    · rw [List.getElem?_eq_none (by omega)] at hx; cases hx
  have hpi : pyIndex xs (i : Int) = some v := by
    unfold pyIndex
    have h1 : ¬ ((i : Int) < 0) := by omega
    simp only [h1, if_false, Int.toNat_natCast]
    rw [if_pos (by omega), hx]
  unfold readResult
  simp only [herr, hinfo, Results.get?, List.find?_cons, beq_self_eq_true, Option.map_some, htr, if_true, hdw,
    Bool.false_eq_true, if_false, hbit, Option.getD_some, hv, PyVal.seq?, hbe, hpi, hte]

theorem ldr2_dwords_getD (mem : Bytes) (n k : Nat) (h : k < n) :
    (ldr2_dwords mem n).getD k 0 = leVal ((mem.drop (4 * k)).take 4) := by
  simp [ldr2_dwords, List.getD_eq_getElem?_getD, h]

theorem ldr2_zeroIdx (name : Name) : name ++ nm "[0]" = renderLevel ⟨name, [0]⟩ := by
  have : decRender 0 = [48] := by unfold decRender; rw [decRev]; simp
  simp [renderLevel, joinWith, this, nm]

/-- `read` of element `i` of a controller-scope BOOL array (a one-dimensional DWORD array tag), requested as `name[i]` -/
theorem ldr2_read_boolElem (cfg : Cfg) (w : Cli.World Ext) (sess : Nat) (cidb : Bytes) (conn : Conn)
    (st : LState) (s : Symbol) (info : TagInfo) (dim i : Nat)
    (hw : ldr_Healthy w sess cidb conn) (hlogix : w.net.target.ext.logix = some st)
    (hs : s ∈ st.proj.controller)
    (hbytes : ∀ s' ∈ st.proj.controller, ∀ ch ∈ s'.name, ch < 256)
    (huniqN : ∀ s' ∈ st.proj.controller, s'.name = s.name → s' = s)
    (huniqI : ∀ s' ∈ st.proj.controller, s'.inst = s.inst → s' = s)
    (hid : PlainIdent s.name) (hinst : s.inst < 2 ^ 32)
    (hty : elTyOfWord s.symbolType = .atomic 0xD3)
    (hdims : s.dims.filter (· != 0) = [dim]) (hlen : s.mem.length = dim * 4)
    (hget : cfg.tags.get? s.name = some info)
    (hinfo : ldr_InfoOf info (nm "DWORD") (.arr (.fixed dim) (.bits .udint)) s.inst)
    (hi : i < 32 * dim) (hw16 : i / 32 + 1 ≤ 65535)
    (hC : (i / 32 + 1) * 4 + s.name.length + 26 ≤ w.drv.connectionSize)
    (hT : (i / 32 + 1) * 4 + s.name.length + 26 ≤ conn.size) :
    ∃ w' frm, read hookAll cfg w [renderLevel ⟨s.name, [i]⟩] =
        (w', .ok [{ tag := renderLevel ⟨s.name, [i]⟩,
                    value := .bool ((leVal ((s.mem.drop (4 * (i / 32))).take 4)).testBit (i % 32)),
                    type := some (nm "BOOL"), error := none }]) ∧
      w'.drv = w.drv.nextSeq.2 ∧ w'.net.sent = w.net.sent ++ [frm] ∧
      w'.net.target.ext = { w.net.target.ext with logix := some { st with ctr := st.ctr + 1 } } ∧
      ldr_Healthy w' sess cidb { conn with lastSeq := some w.drv.nextSeq.1 } := by
  have hi32 : i < 2 ^ 32 := by omega
  have hl : ldr2_Level ⟨s.name, [i]⟩ := ⟨hid, by simp, by simp [hi32]⟩
  have hl0 : ldr2_Level ⟨s.name, [0]⟩ := ⟨hid, by simp, by simp⟩
  have hsz : atomicSize 0xD3 = some 4 := rfl
  have hentry : typeEntryOfName (nm "DWORD") = some (nm "DWORD", 0xD3, 4) := by decide
  -- (a) parsing
  have hdw : isDword info = true := by simp [isDword, hinfo.kind, hinfo.typeName]
  have hwords : ((i : Int) + 1) / 32 + (if ((i : Int) + 1) % 32 ≠ 0 then 1 else 0) = ((i / 32 + 1 : Nat) : Int) := by
    split <;> omega
  have hparse := ldr2_parse_unfold cfg.tags false 0 ⟨s.name, [i]⟩ none none hl (by intro n hc; cases hc)
  rw [Option.map_none, ldr2_tagStr_plain] at hparse
  have htail := ldr2_tail_dword cfg.tags 0 (renderLevel ⟨s.name, [i]⟩) (renderLevel ⟨s.name, [i]⟩) 1 true s.name i info hl hget hdw
    (by rw [hwords]; omega)
  rw [hwords] at htail
  simp only [Bool.true_or, if_true] at htail
  have h1 : (((none : Option Nat).getD 1 : Nat) : Int) = 1 := rfl
  rw [h1] at hparse
  simp only [Option.isNone_none] at hparse
  rw [htail, ldr2_zeroIdx] at hparse
  -- (b) the path
  obtain ⟨path, hpath, hpl, hden⟩ := ldr2_requestPath cfg ⟨s.name, [0]⟩ info s.inst hl0 hinfo.instanceId hinst
  have hpl' : path.length ≤ s.name.length + 19 := by
    have : path.length ≤ s.name.length + 13 + 6 * 1 := hpl
    omega
  have hrs : tagReturnSize info (i / 32 + 1) = 4 * (i / 32 + 1) := by
    simp [tagReturnSize, hinfo.struct, hinfo.typeName, hentry]
  -- (d) the address
  have hmem : s.mem ≠ [] := by
    intro h
    rw [h, List.length_nil] at hlen
    omega
  have hr := ldr2_resolve_elem st.proj s 0xD3 4 cfg.useInstanceIds 0 dim hid hs hbytes huniqN huniqI hty hsz hmem hdims (by omega)
  have hbts := ldr2_readBytes_elem st.proj s 0xD3 4 0 dim (i / 32 + 1) hs huniqI hsz hlen (by omega)
  rw [Nat.zero_mul] at hbts
  -- (e) the reply
  have hreply := ldr2_parseReadReply_dword info dim s.mem (i / 32 + 1) hinfo.ty hinfo.typeName (by omega) (by omega)
  have hbl : ((s.mem.drop 0).take ((i / 32 + 1) * 4)).length ≤ (i / 32 + 1) * 4 := by
    rw [List.length_take]; exact Nat.min_le_left _ _
  obtain ⟨w', frm, hread, hrest⟩ := ldr2_read_single cfg w sess cidb conn st (renderLevel ⟨s.name, [i]⟩) _ info path
    _ (ldr2_locAt s 0xD3 4 0 dim) 0xD3 (i / 32 + 1) _ _ _ hw hlogix hparse rfl rfl rfl rfl hpath hden
    (by have := hid.2.1; omega) hr rfl
    ⟨by omega, by simp only [ldr2_locAt]; omega, by omega⟩ hbts hreply
    (by rw [hrs]; omega) (by omega) (by omega)
  refine ⟨w', frm, ?_, hrest⟩
  rw [hread]
  have hget2 := ldr2_flat_get (ldr2_dwords s.mem (i / 32 + 1)) i (by simp [ldr2_dwords]; omega)
  rw [ldr2_dwords_getD s.mem (i / 32 + 1) (i / 32) (by omega)] at hget2
  have hresult := ldr2_readResult_dword
    { requestId := 0, requestTag := renderLevel ⟨s.name, [i]⟩, userTag := renderLevel ⟨s.name, [i]⟩,
      plcTag := renderLevel ⟨s.name, [0]⟩, bit := some (i : Int), elements := ((i / 32 + 1 : Nat) : Int), info := some info,
      boolElements := none } info
    { tag := renderLevel ⟨s.name, [0]⟩, value := .list ((ldr2_dwords s.mem (i / 32 + 1)).flatMap (natToBits 32)),
      type := some (nm "BOOL[" ++ renderDec (((i / 32 + 1) * 32 : Nat) : Int) ++ [93]), error := none }
    _ i _ rfl rfl rfl rfl hinfo.typeName rfl rfl hget2
  dsimp only at hresult ⊢
  rw [hresult]

end Pycomm.Lgx.Drv
