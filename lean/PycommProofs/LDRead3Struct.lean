/-
  LogixDriver.read, layers (a), (b), (d) for structure tags and their members:
    (a) `ldr3_getTagInfo_member`, `ldr3_parse_member`: `_parse_tag_request` of `udt.member`
    (b) `ldr3_requestPath_member`: the request path of `udt.member` is symbolic (the member's entry of the tag
        database carries no instance id) and denotes the two names
    (d) `ldr3_resolve_struct`, `ldr3_readBytes_struct`: where the controller resolves a structure tag;
        `ldr3_resolve_member`, `ldr3_readBytes_member`: … and a scalar elementary member of it
-/
import PycommProofs.LDRead3Core
import PycommProofs.LDRead2Addr
namespace Pycomm.Lgx.Drv
open Pycomm Pycomm.Tgt Pycomm.Path Pycomm.Reply Pycomm.EP Pycomm.Lgx Pycomm.Lgx.E2E

/-- the request string of a member -/
def ldr3_memberStr (name member : Name) : Name := name ++ [46] ++ member

/-- what the tag database says about a structure tag: a `struct` entry with the `data_type` dict `si`, the
    `type_class` `ty` and the symbol's instance id -/
structure ldr3_StructOf (info : TagInfo) (si : StructInfo) (ty : Ty) (inst : Nat) : Prop where
  kind : info.core.tagType = .struct
  typeName : info.core.dataTypeName = si.name
  ty : info.core.ty = ty
  instanceId : info.core.instanceId = some inst
  struct : info.core.struct = some si

/-- what the `internal_tags` of a structure say about an elementary scalar member: an atomic entry of that type;
    internal tags carry no instance id -/
structure ldr3_MemberOf (minfo : TagInfo) (name : Name) (t : Ty) : Prop where
  kind : minfo.core.tagType = .atomic
  typeName : minfo.core.dataTypeName = name
  ty : minfo.core.ty = t
  instanceId : minfo.core.instanceId = none
  struct : minfo.core.struct = none

/-! ### (a) parsing -/

theorem ldr3_member_not_mem (name member : Name) (hid : PlainIdent name) (hmid : PlainIdent member) (c : Nat)
    (hc : c = 58 ∨ c = 91 ∨ c = 93 ∨ c = 123 ∨ c = 125) : c ∉ ldr3_memberStr name member := by
  intro hm
  simp only [ldr3_memberStr, List.mem_append, List.mem_singleton] at hm
  rcases hm with (hm | hm) | hm
  · exact ldr_plain_not_mem name hid c (by omega) hm
  · omega
  · exact ldr_plain_not_mem member hmid c (by omega) hm

theorem ldr3_split_member (name member : Name) (hid : PlainIdent name) (hmid : PlainIdent member) :
    PyStr.split 46 (ldr3_memberStr name member) = [name, member] := by
  have e : ldr3_memberStr name member = name ++ 46 :: member := by simp [ldr3_memberStr]
  unfold PyStr.split
  rw [e, splitOn_append_sep 46 _ _ (ldr_plain_not_mem name hid 46 (by omega)),
    splitOn_no_sep 46 _ (ldr_plain_not_mem member hmid 46 (by omega))]

/-- (a) `_get_tag_info(base, [member])`: the entry of the member in the `internal_tags` of the structure -/
theorem ldr3_getTagInfo_member (db : TagDb) (name member : Name) (info minfo : TagInfo) (hid : PlainIdent name)
    (hmid : PlainIdent member) (hget : db.get? name = some info) (hk : info.core.tagType = .struct)
    (hmget : info.members.get? member = some minfo) :
    getTagInfo db name [member] = .ok (some minfo) := by
  unfold getTagInfo
  rw [ldr_stripArray name hid, hget]
  simp only [List.isEmpty_cons, Bool.false_eq_true, if_false, hk, recurseAttrs, ldr_stripArray member hmid, hmget]

/-- (a) `_parse_tag_request` of `udt.member` where `member` is an elementary member other than a DWORD whose name
    is not a number: the request addresses `udt.member`, one element, no bit number, the member's entry -/
theorem ldr3_parse_member (db : TagDb) (write : Bool) (rid : Nat) (name member : Name) (info minfo : TagInfo)
    (hid : PlainIdent name) (hmid : PlainIdent member) (hnum : PyStr.isDigit member = false)
    (hget : db.get? name = some info) (hk : info.core.tagType = .struct)
    (hmget : info.members.get? member = some minfo) (hnd : isDword minfo = false) :
    parseTagRequest db write rid (ldr3_memberStr name member) =
      { requestId := rid, requestTag := ldr3_memberStr name member, userTag := ldr3_memberStr name member,
        plcTag := ldr3_memberStr name member, bit := none, elements := 1, info := some minfo, boolElements := none } := by
  have hse : splitElements (ldr3_memberStr name member) = .ok (ldr3_memberStr name member, 1, true) := by
    unfold splitElements
    rw [ldr_contains_false _ 123 (ldr3_member_not_mem name member hid hmid 123 (by omega))]
    simp
  have hscoped : lds_scoped name [member] = some (name, [member]) := by
    unfold lds_scoped
    rw [ldr_not_program name hid]
    simp
  have hbs : lds_bitSplit (ldr3_memberStr name member) name [member] = (none, [member], ldr3_memberStr name member) := by
    unfold lds_bitSplit
    simp only [List.getLast?_singleton, hnum, Bool.false_eq_true, if_false]
  rw [lds_parse_unfold, hse]
  simp only [Int.reduceLE, and_self, decide_true, Bool.not_true, Bool.false_eq_true, if_false,
    ldr3_split_member name member hid hmid, List.find?_cons, ldr_indexPartOk name hid, ldr_indexPartOk member hmid,
    List.find?_nil, hscoped, hbs]
  unfold lds_tail
  simp only [ldr3_getTagInfo_member db name member info minfo hid hmid hget hk hmget, lds_bitBad, hnd,
    Bool.false_eq_true, if_false]

/-! ### (b) the request path -/

/-- without an instance id the path is symbolic, whatever `use_instance_ids` says -/
theorem ldr3_tagRequestPath_noinst (tag : Name) (useIds : Bool) :
    tagRequestPath tag none useIds = tagRequestPath tag none false := by
  unfold tagRequestPath
  simp only [Option.getD_none, bne_self_eq_false, Bool.and_false]

/-- (b, path) `tag_request_path` of `udt.member` with the member's entry: it exists, is short, and the controller's
    strict parser reads it as the two names -/
theorem ldr3_requestPath_member (cfg : Cfg) (name member : Name) (minfo : TagInfo) (hid : PlainIdent name)
    (hmid : PlainIdent member) (hlen : name.length + member.length ≤ 500) (hinst : minfo.core.instanceId = none) :
    ∃ path, requestPathOf cfg (ldr3_memberStr name member) minfo = .ok path ∧
      path.length ≤ name.length + member.length + 7 ∧
      Denotes path [PSeg.symbol (name.map UInt8.ofNat), PSeg.symbol (member.map UInt8.ofNat)] := by
  have hw : ∀ l ∈ [(⟨name, []⟩ : TagLevel), ⟨member, []⟩], WfLevel l := by
    intro l hl
    simp only [List.mem_cons, List.not_mem_nil, or_false] at hl
    rcases hl with rfl | rfl
    · exact ldr_plain_wf name hid
    · exact ldr_plain_wf member hmid
  have hall := encAll_levels [(⟨name, []⟩ : TagLevel), ⟨member, []⟩] hw
  have hsz : ([(⟨name, []⟩ : TagLevel), ⟨member, []⟩].map fun l => 2 + l.name.length + 1 + 6 * l.idx.length).sum =
      name.length + member.length + 6 := by
    simp only [List.map_cons, List.map_nil, List.sum_cons, List.sum_nil, List.length_nil]; omega
  rw [hsz] at hall
  obtain ⟨bs, hb, hp⟩ := hall.request (by omega)
  have hlen2 := ldr_encEpath_len hall hb
  have hrt : renderTag [(⟨name, []⟩ : TagLevel), ⟨member, []⟩] = ldr3_memberStr name member := by
    simp [renderTag, joinWith, renderLevel, ldr3_memberStr]
  have hsplit := ldr3_split_member name member hid hmid
  have hfind : findTagIndex name = (name, []) := by
    unfold findTagIndex
    rw [find_none 91 name (ldr_plain_not_mem name hid 91 (by omega))]
  have hfind2 : findTagIndex member = (member, []) := by
    unfold findTagIndex
    rw [find_none 91 member (ldr_plain_not_mem member hmid 91 (by omega))]
  have hb' : encEpath true ([Seg.dataStr name] ++ [] ++ [Seg.dataStr member]) true false = .ok bs := by
    simpa [levelSrc, idxSrc] using hb
  refine ⟨bs, ?_, by omega, ?_⟩
  · unfold requestPathOf
    rw [hinst, ldr3_tagRequestPath_noinst]
    simp only [tagRequestPath, hsplit, hfind, hfind2, indexSegs, attrSegs, bind, Except.bind, Bool.false_and,
      Bool.false_eq_true, if_false, List.append_nil, List.nil_append, List.cons_append]
    simp only [List.cons_append, List.nil_append, List.append_nil] at hb'
    rw [hb']
  · simpa [Denotes, levelSegs] using hp

/-! ### (d) addressing -/

/-- the location a whole controller-scope structure symbol resolves to -/
def ldr3_locStruct (s : Symbol) (tid : Nat) : Loc :=
  { symInst := s.inst, scope := none, offset := 0, ty := .struct tid, avail := dimsProduct s.dims }

/-- (d, addressing) both renderings of the name of a structure tag resolve to the symbol -/
theorem ldr3_resolve_struct (p : Project) (s : Symbol) (tid : Nat) (tm : Template) (useIds : Bool)
    (hid : PlainIdent s.name) (hs : s ∈ p.controller)
    (hbytes : ∀ s' ∈ p.controller, ∀ ch ∈ s'.name, ch < 256)
    (huniqN : ∀ s' ∈ p.controller, s'.name = s.name → s' = s)
    (huniqI : ∀ s' ∈ p.controller, s'.inst = s.inst → s' = s)
    (hty : elTyOfWord s.symbolType = .struct tid) (htm : p.template? tid = some tm) (hmem : s.mem ≠ []) :
    resolve p (ldr_segs s.name s.inst useIds) = .ok (ldr3_locStruct s tid) := by
  have hme : s.mem.isEmpty = false := by
    cases h : s.mem with
    | nil => exact absurd h hmem
    | cons _ _ => rfl
  have hel : p.elSize (.struct tid) = some tm.size := by simp [Project.elSize, htm]
  unfold ldr_segs
  split
  · unfold resolve
    simp only [Project.findSymbol, ldr_find_inst p s hs huniqI, Option.map_some, hme, Bool.false_eq_true, if_false,
      hty, hel, takeIndices, if_true, List.length_nil, Nat.zero_add, resolveMembers, Nat.zero_mul, ldr3_locStruct]
  · unfold resolve
    simp only [ldr_not_programName s.name hid, Bool.false_eq_true, if_false, Project.findSymbol,
      ldr_find_name p s hs hbytes huniqN, Option.map_some, hme, hty, hel, takeIndices, if_true, List.length_nil,
      Nat.zero_add, resolveMembers, Nat.zero_mul, ldr3_locStruct]

/-- (d, memory) the bytes of one structure there are the symbol's memory -/
theorem ldr3_readBytes_struct (p : Project) (s : Symbol) (tid : Nat) (tm : Template) (hs : s ∈ p.controller)
    (huniqI : ∀ s' ∈ p.controller, s'.inst = s.inst → s' = s)
    (htm : p.template? tid = some tm) (hlen : s.mem.length = tm.size) :
    readBytes p (ldr3_locStruct s tid) 1 = some s.mem := by
  have hel : p.elSize (.struct tid) = some tm.size := by simp [Project.elSize, htm]
  unfold readBytes
  simp only [Project.symbolOf, Project.findSymbol, ldr3_locStruct, ldr_find_inst p s hs huniqI, hel, Nat.zero_add,
    Nat.one_mul, hlen, Nat.le_refl, if_true, List.drop_zero]
  rw [← hlen, List.take_length]

/-- the location a scalar elementary member of a controller-scope structure symbol resolves to -/
def ldr3_locMember (s : Symbol) (m : MemberDef) (c : Nat) : Loc :=
  { symInst := s.inst, scope := none, offset := m.offset, ty := .atomic c, avail := 1 }

/-- the member lookup by name -/
theorem ldr3_find_member (tm : Template) (m : MemberDef) (hm : m ∈ tm.members)
    (hmbytes : ∀ m' ∈ tm.members, ∀ ch ∈ m'.name, ch < 256)
    (hmuniq : ∀ m' ∈ tm.members, m'.name = m.name → m' = m) :
    tm.members.find? (fun m' => m'.name.map (fun c => UInt8.ofNat c) == m.name.map UInt8.ofNat) = some m := by
  apply ldr_find_unique _ _ m hm (by simp)
  intro x hx hpx
  apply hmuniq x hx
  exact ldr_map_ofNat_inj _ _ (hmbytes x hx) (hmbytes m hm) (by simpa using hpx)

/-- (d, addressing) the symbolic path `udt.member` resolves to the member's bytes inside the symbol: byte offset
    `m.offset`, the member's elementary type, one element -/
theorem ldr3_resolve_member (p : Project) (s : Symbol) (tid : Nat) (tm : Template) (m : MemberDef) (c sz : Nat)
    (hid : PlainIdent s.name) (hs : s ∈ p.controller)
    (hbytes : ∀ s' ∈ p.controller, ∀ ch ∈ s'.name, ch < 256)
    (huniqN : ∀ s' ∈ p.controller, s'.name = s.name → s' = s)
    (hty : elTyOfWord s.symbolType = .struct tid) (htm : p.template? tid = some tm) (hmem : s.mem ≠ [])
    (hm : m ∈ tm.members) (hmbytes : ∀ m' ∈ tm.members, ∀ ch ∈ m'.name, ch < 256)
    (hmuniq : ∀ m' ∈ tm.members, m'.name = m.name → m' = m)
    (hmty : elTyOfWord m.typeWord = .atomic c) (hnb : c ≠ 0xC1) (hsz : atomicSize c = some sz) (hscalar : m.info = 0) :
    resolve p [PSeg.symbol (s.name.map UInt8.ofNat), PSeg.symbol (m.name.map UInt8.ofNat)] =
      .ok (ldr3_locMember s m c) := by
  have hme : s.mem.isEmpty = false := by
    cases h : s.mem with
    | nil => exact absurd h hmem
    | cons _ _ => rfl
  have hel : p.elSize (.struct tid) = some tm.size := by simp [Project.elSize, htm]
  have hel2 : p.elSize (.atomic c) = some sz := hsz
  have hfm := ldr3_find_member tm m hm hmbytes hmuniq
  have hnb' : (ElTy.atomic c == ElTy.atomic 0xC1) = false := by
    simp only [beq_eq_false_iff_ne, ne_eq, ElTy.atomic.injEq]; exact hnb
  unfold resolve
  simp only [ldr_not_programName s.name hid, Bool.false_eq_true, if_false, Project.findSymbol,
    ldr_find_name p s hs hbytes huniqN, Option.map_some, hme, hty, hel, takeIndices, if_true, List.length_cons,
    List.length_nil, Nat.zero_add, resolveMembers, htm, hfm, hmty, hnb', hel2, hscalar, ne_eq, not_true_eq_false,
    Nat.zero_mul, ldr3_locMember]

/-- (d, memory) the bytes of the member -/
theorem ldr3_readBytes_member (p : Project) (s : Symbol) (m : MemberDef) (c sz : Nat) (hs : s ∈ p.controller)
    (huniqI : ∀ s' ∈ p.controller, s'.inst = s.inst → s' = s)
    (hsz : atomicSize c = some sz) (hin : m.offset + sz ≤ s.mem.length) :
    readBytes p (ldr3_locMember s m c) 1 = some ((s.mem.drop m.offset).take sz) := by
  have hel : p.elSize (.atomic c) = some sz := hsz
  unfold readBytes
  simp only [Project.symbolOf, Project.findSymbol, ldr3_locMember, ldr_find_inst p s hs huniqI, hel, Nat.one_mul, hin,
    if_true]

end Pycomm.Lgx.Drv
