/-
  C02 at the driver level: `LogixDriver.write(("tag", value))` of one controller-scope elementary scalar tag, through
  the whole stack of the model — tag-string parsing, `encode_value`, request building, `CIPDriver.send`,
  encapsulation, the reference target's encapsulation layer / message router / Logix services, reply framing,
  response classes and result assembly — and the following `read` of the same tag.

  Layers (lemmas usable on their own):
    (a) LDReadParse     `ldr_parse_plain` (shared with read)
    (b) LDReadBuild     `ldr_requestPath` (shared); LDWriteBuild `ldw_encodeValue`, `ldw_packedType`, `ldw_build_single`
    (c) LDReadTransport `ldr_handle_unit`, `ldr_sendUnit` (shared, any message)
    (d) LDReadTarget    `ldr_resolve` (shared); LDWriteSend `ldw_execMR_tag`, `ldw_sendUnit_tag`, `ldw_sendUnit_write`
                        over LogixE2EWrite `write_e2e`
    (e) LDWriteReply    `ldw_writeTag_ok` over LDReadReply `ldr_tagResp_ok`
    (f) LDWriteReply    `ldw_fanOut_write`, `ldw_writeResult`
    effect: LDWriteEffect `ldw_written_eq`, `ldw_ctl_*`
    bit writes: LDWriteBit `ldw_parse_bit`, `ldw_build_bit`, `ldw_rmwMessage`, `ldw_sendUnit_rmw` over LogixE2EWrite `rmw_e2e`,
                LogixBitsProofs `rmw_law`
-/
import PycommProofs.LogixDriverRead
import PycommProofs.LDWriteBuild
import PycommProofs.LDWriteSend
import PycommProofs.LDWriteReply
import PycommProofs.LDWriteEffect
import PycommProofs.LDWriteBit
namespace Pycomm.Lgx.Drv
open Pycomm Pycomm.Tgt Pycomm.Path Pycomm.Reply Pycomm.Encap Pycomm.Lgx Pycomm.Lgx.E2E

/-- the parsed write request of a plain tag name with the caller's value -/
def ldw_parsed (n : Name) (info : TagInfo) (v : PyVal) : Drv.Parsed :=
  { requestId := 0, requestTag := n, userTag := n, plcTag := n, bit := none, elements := 1, info := some info,
    boolElements := none, value := v }

-- PROPERTY THEOREMS

-- STATEMENT CHANGED: `hC` of `write_atomic_scalar_e2e` is `name length + 2·size + 20 ≤ connectionSize`, not the natural
-- "the request fits the connection" (`name length + size + 20`): the single-request path counts the value twice
-- (logix_driver.py:1225). With the natural hypothesis the statement is false of the model — counterexample evaluated in
-- `Ex` below (`writeOutcome 19`): a 16-byte DINT write on a 19-byte connection is split into two fragmented writes of
-- 3 + 1 bytes (two frames, two write-log entries).
/-- C02, driver level, first instance: writing ONE controller-scope elementary (non-bit-string) scalar tag by its
    plain name with a canonical value of its type on a healthy connected driver returns exactly one error-free Tag
    carrying the tag name, the caller's value and the type name; exactly one frame is written, one sequence number is
    drawn, and the controller's project afterwards is `written st.proj loc 0 bytes` for the location `loc` of the
    whole symbol and the codec's encoding `bytes` of the value (see `write_atomic_scalar_effect` for what that
    means byte by byte); the resulting world is healthy again.

    Hypotheses: as in `read_atomic_scalar_e2e` (`hw` … `hinfo`), and
    * `hcanon`, `henc`  `v` is a canonical value of the type (BOOL: a bool; integers: an int in range; REAL/LREAL: a
                  float representable in the type) and `bytes` is its encoding;
    * `hC`        the request stays below the fragmentation threshold of the single-request path, which counts the
                  value twice (logix_driver.py:1225 `len(write_value) + len(request.message)`):
                  `name length + 2·size + 20` bytes suffice;
    * `hT`        the request fits the size the target granted (`name length + size + 20` bytes suffice). -/
theorem write_atomic_scalar_e2e (cfg : Cfg) (w : Cli.World Ext) (sess : Nat) (cidb : Bytes) (conn : Conn)
    (st : LState) (s : Symbol) (info : TagInfo) (c sz : Nat) (name : Name) (t : Ty) (v : PyVal) (bytes : Bytes)
    (hw : ldr_Healthy w sess cidb conn) (hlogix : w.net.target.ext.logix = some st)
    (hs : s ∈ st.proj.controller)
    (hbytes : ∀ s' ∈ st.proj.controller, ∀ ch ∈ s'.name, ch < 256)
    (huniqN : ∀ s' ∈ st.proj.controller, s'.name = s.name → s' = s)
    (huniqI : ∀ s' ∈ st.proj.controller, s'.inst = s.inst → s' = s)
    (hid : PlainIdent s.name) (hinst : s.inst < 2 ^ 32)
    (hty : elTyOfWord s.symbolType = .atomic c) (hat : atomicOfCode c = some (name, t)) (hb : t.isBits = none)
    (hsz : atomicSize c = some sz) (hlen : s.mem.length = sz)
    (hget : cfg.tags.get? s.name = some info) (hinfo : ldr_InfoOf info name t s.inst)
    (hcanon : Canon t v) (henc : encode t v = .ok bytes)
    (hC : s.name.length + 2 * sz + 20 ≤ w.drv.connectionSize) (hT : s.name.length + sz + 20 ≤ conn.size) :
    ∃ w' frm, write hookAll cfg w [(s.name, v)] =
        (w', .ok [{ tag := s.name, value := v, type := some name, error := none }]) ∧
      w'.drv = w.drv.nextSeq.2 ∧ w'.net.sent = w.net.sent ++ [frm] ∧
      w'.net.target.ext =
        { w.net.target.ext with logix := some { st with proj := written st.proj (ldr_loc s c) 0 bytes } } ∧
      ldr_Healthy w' sess cidb { conn with lastSeq := some w.drv.nextSeq.1 } := by
  obtain ⟨haty, hentry, hndw, hpos, hle8⟩ := ldr_atomic_table c sz name t hat hb hsz
  have hshape := ldr_atomicTy_shape c t haty hb
  have hbl : bytes.length = sz := ldw_encode_length c sz t v bytes haty hb hsz hcanon henc
  -- (a) parsing
  have hnd : isDword info = false := by
    have : (name == Drv.nm "DWORD") = false := by simpa using hndw
    simp [isDword, hinfo.typeName, this]
  have hparsed : ((parseRequestedTags cfg.tags true ([(s.name, v)].map (·.1))).zip ([(s.name, v)].map (·.2))).map
      (fun x => ({ x.1 with value := x.2 } : Drv.Parsed)) = [ldw_parsed s.name info v] := by
    have := ldr_parse_plain cfg.tags true 0 s.name info hid hget hnd
    show ([parseTagRequest cfg.tags true 0 s.name].zip [v]).map _ = _
    rw [this]; rfl
  -- (b) building
  obtain ⟨path, hpath, hpl, hden⟩ := ldr_requestPath cfg s.name info s.inst hid hinfo.instanceId hinst
  have hencv : encodeValue (ldw_parsed s.name info v) info = (ldw_parsed s.name info v, some bytes) :=
    ldw_encodeValue (ldw_parsed s.name info v) info t bytes (ldw_canon_not_bytes t v hshape hcanon)
      (by rw [hinfo.typeName]; exact hndw) hinfo.ty hshape henc
  have hpt : packedTypeOf info = le 2 c := ldw_packedType info name c sz hinfo.struct hinfo.typeName hentry
  have hml : (Cl.writeMsg path (packedTypeOf info) 1 bytes).length = path.length + 5 + sz := by
    rw [hpt]
    simp only [Cl.writeMsg, List.length_append, List.length_cons, List.length_nil, le_length, hbl]; omega
  have hbuild := ldw_build_single cfg w.drv (ldw_parsed s.name info v) info path bytes rfl rfl rfl rfl hencv hpath
    (by rw [hml, hbl]; omega)
  -- (c)+(d) sending
  have hw1 : ldr_Healthy ({ w with drv := w.drv.nextSeq.2 } : Cli.World Ext) sess cidb conn :=
    ldr_Healthy_seq hw _ (by rw [(Cli.lcs_nextSeq w.drv).2])
  obtain ⟨w2, frm, hsend, hd2, hsent2, hext2, hh2⟩ := ldw_sendUnit_write ({ w with drv := w.drv.nextSeq.2 } : Cli.World Ext)
    sess cidb conn st s c sz cfg.useInstanceIds path w.drv.nextSeq.1 bytes hw1 hlogix hid hs hbytes huniqN huniqI hty hsz
    hlen hpos hden hpl (ldr_nextSeq_lt w.drv) hbl (by omega)
  rw [← hpt] at hsend
  -- (e) the response
  have hresp := ldw_writeTag_ok s.name (.bytes bytes) info.core.dataTypeName 0x4D sess conn.toId w.drv.nextSeq.1
    w.drv.nextSeq.2.context hw1.ctx8
  -- (f) the result
  have hresult := ldw_writeResult (ldw_parsed s.name info v) info
    { tag := s.name, value := .bytes bytes, type := some info.core.dataTypeName, error := none } rfl rfl rfl rfl rfl rfl
  -- the decorator
  have hfo : Cli.ensureForwardOpen hookAll Cli.FUEL w = (w, .ok ()) := ldr_ensureFO_connected hookAll 7 w hw.connected
  refine ⟨w2, frm, ?_, hd2, hsent2, hext2, hh2⟩
  unfold write
  rw [hfo]
  dsimp only
  rw [hparsed, hbuild]
  dsimp only
  unfold sendRequests sendRequest
  dsimp only
  rw [hsend]
  dsimp only [ldw_parsed]
  rw [hresp]
  dsimp only [Except.map]
  unfold sendRequests
  dsimp only [ldw_fanOut_write, List.isEmpty_cons, Bool.false_eq_true, if_false, List.map_cons, List.map_nil,
    Results.set, List.any_nil, List.nil_append]
  simp only [Bool.false_eq_true, if_false, List.map_cons, List.map_nil]
  dsimp only [ldw_parsed] at hresult
  rw [hresult, hinfo.typeName]

/-- C02, what `written st.proj loc 0 bytes` of `write_atomic_scalar_e2e` means: the project afterwards is the old
    project with the memory of the symbol `s` replaced by exactly `bytes` and ONE more write-log entry
    (`(instance, offset 0, size)`: the write was applied exactly once); templates, program scopes, the number and
    order of the controller-scope symbols are unchanged, every other controller-scope symbol is unchanged byte
    for byte, and the changed symbol keeps name, instance id, type word and dimensions. -/
theorem write_atomic_scalar_effect (p : Project) (s : Symbol) (c sz : Nat) (bytes : Bytes)
    (hs : s ∈ p.controller) (huniqI : ∀ s' ∈ p.controller, s'.inst = s.inst → s' = s)
    (hlen : s.mem.length = sz) (hbl : bytes.length = sz) :
    written p (ldr_loc s c) 0 bytes = ldw_proj p s bytes ∧
    (ldw_proj p s bytes).templates = p.templates ∧ (ldw_proj p s bytes).programs = p.programs ∧
    (ldw_proj p s bytes).controller.length = p.controller.length ∧
    (∀ (i : Nat) (x : Symbol), p.controller[i]? = some x →
        (ldw_proj p s bytes).controller[i]? = some (if x.inst = s.inst then { s with mem := bytes } else x) ∧
        (x.inst = s.inst → x = s)) ∧
    (ldw_proj p s bytes).writeLog = p.writeLog ++ [(s.inst, 0, sz)] := by
  refine ⟨ldw_written_eq p s c bytes hs huniqI (by omega), rfl, rfl, ?_, ?_, ?_⟩
  · simp [ldw_proj, ldw_ctl]
  · intro i x hx
    exact ldw_ctl_other p.controller s bytes huniqI i x hx
  · rw [← hbl]; rfl

/-- C02, driver level: `write` of one elementary scalar tag followed by `read` of the same tag returns the written
    value. Hypotheses as in `write_atomic_scalar_e2e`; the sizes `name length + 36` (driver) and `name length + 28`
    (target) cover both requests. The controller's project after both calls is the one after the write
    (`ldw_proj`: the symbol's memory is `bytes`, one write logged); two frames were written. -/
theorem write_then_read_atomic_e2e (cfg : Cfg) (w : Cli.World Ext) (sess : Nat) (cidb : Bytes) (conn : Conn)
    (st : LState) (s : Symbol) (info : TagInfo) (c sz : Nat) (name : Name) (t : Ty) (v : PyVal) (bytes : Bytes)
    (hw : ldr_Healthy w sess cidb conn) (hlogix : w.net.target.ext.logix = some st)
    (hs : s ∈ st.proj.controller)
    (hbytes : ∀ s' ∈ st.proj.controller, ∀ ch ∈ s'.name, ch < 256)
    (huniqN : ∀ s' ∈ st.proj.controller, s'.name = s.name → s' = s)
    (huniqI : ∀ s' ∈ st.proj.controller, s'.inst = s.inst → s' = s)
    (hid : PlainIdent s.name) (hinst : s.inst < 2 ^ 32)
    (hty : elTyOfWord s.symbolType = .atomic c) (hat : atomicOfCode c = some (name, t)) (hb : t.isBits = none)
    (hsz : atomicSize c = some sz) (hlen : s.mem.length = sz)
    (hget : cfg.tags.get? s.name = some info) (hinfo : ldr_InfoOf info name t s.inst)
    (hcanon : Canon t v) (henc : encode t v = .ok bytes)
    (hC : s.name.length + 36 ≤ w.drv.connectionSize) (hT : s.name.length + 28 ≤ conn.size) :
    ∃ w1 w2 frm1 frm2,
      write hookAll cfg w [(s.name, v)] = (w1, .ok [{ tag := s.name, value := v, type := some name, error := none }]) ∧
      read hookAll cfg w1 [s.name] = (w2, .ok [{ tag := s.name, value := v, type := some name, error := none }]) ∧
      w2.net.sent = w.net.sent ++ [frm1, frm2] ∧
      w2.net.target.ext =
        { w.net.target.ext with logix := some { st with proj := ldw_proj st.proj s bytes, ctr := st.ctr + 1 } } ∧
      ldr_Healthy w2 sess cidb { conn with lastSeq := some w.drv.nextSeq.2.nextSeq.1 } := by
  obtain ⟨haty, _, _, _, hle8⟩ := ldr_atomic_table c sz name t hat hb hsz
  have hbl : bytes.length = sz := ldw_encode_length c sz t v bytes haty hb hsz hcanon henc
  obtain ⟨w1, frm1, hwr, hd1, hsent1, hext1, hh1⟩ := write_atomic_scalar_e2e cfg w sess cidb conn st s info c sz name t v
    bytes hw hlogix hs hbytes huniqN huniqI hid hinst hty hat hb hsz hlen hget hinfo hcanon henc (by omega) (by omega)
  rw [ldw_written_eq st.proj s c bytes hs huniqI (by omega)] at hext1
  have hlogix1 : w1.net.target.ext.logix = some { st with proj := ldw_proj st.proj s bytes } := by rw [hext1]
  have hcs : w1.drv.connectionSize = w.drv.connectionSize := by rw [hd1, (Cli.lcs_nextSeq w.drv).2]
  obtain ⟨w2, frm2, hrd, hd2, hsent2, hext2, hh2⟩ := read_atomic_scalar_e2e_encoded cfg w1 sess cidb
    { conn with lastSeq := some w.drv.nextSeq.1 } { st with proj := ldw_proj st.proj s bytes } (ldw_sym s bytes) info c sz
    name t v hh1 hlogix1 (ldw_mem_ctl st.proj.controller s bytes hs)
    (ldw_ctl_bytes st.proj.controller s.inst bytes hbytes) (ldw_ctl_uniqN st.proj.controller s bytes huniqN)
    (ldw_ctl_uniqI st.proj.controller s bytes huniqI) hid hinst hty hat hb hsz hbl hget hinfo hcanon henc
    (by rw [hcs]; show s.name.length + 28 ≤ _; omega) hT
  refine ⟨w1, w2, frm1, frm2, hwr, hrd, ?_, ?_, ?_⟩
  · rw [hsent2, hsent1, List.append_assoc]; rfl
  · rw [hext2, hext1]
  · rw [hd1] at hh2; exact hh2

/-- `write_atomic_scalar_e2e` with the tag database the driver really holds after `open()` (`tagDbOf` of the
    controller's project); the hypotheses on the entry are replaced by hypotheses on the symbol as in
    `read_atomic_scalar_e2e_db` -/
theorem write_atomic_scalar_e2e_db (cfg : Cfg) (w : Cli.World Ext) (sess : Nat) (cidb : Bytes) (conn : Conn)
    (st : LState) (s : Symbol) (sz : Nat) (name : Name) (t : Ty) (v : PyVal) (bytes : Bytes) (programTags : Bool)
    (hw : ldr_Healthy w sess cidb conn) (hlogix : w.net.target.ext.logix = some st)
    (hs : s ∈ st.proj.controller)
    (hbytes : ∀ s' ∈ st.proj.controller, ∀ ch ∈ s'.name, ch < 256)
    (huniqN : ∀ s' ∈ st.proj.controller, s'.name = s.name → s' = s)
    (huniqI : ∀ s' ∈ st.proj.controller, s'.inst = s.inst → s' = s)
    (hid : PlainIdent s.name) (hinst : s.inst < 2 ^ 32)
    (hstruct : s.symbolType / 32768 % 2 = 0) (hdims : s.symbolType / 8192 % 4 = 0)
    (hat : atomicOfCode (s.symbolType % 256) = some (name, t)) (hb : t.isBits = none)
    (hsz : atomicSize (s.symbolType % 256) = some sz) (hlen : s.mem.length = sz)
    (hkeep : K.keepSymbol s.name s.symbolType = true) (hdb : tagDbOf st.proj programTags = some cfg.tags)
    (hcanon : Canon t v) (henc : encode t v = .ok bytes)
    (hC : s.name.length + 2 * sz + 20 ≤ w.drv.connectionSize) (hT : s.name.length + sz + 20 ≤ conn.size) :
    ∃ w' frm, write hookAll cfg w [(s.name, v)] =
        (w', .ok [{ tag := s.name, value := v, type := some name, error := none }]) ∧
      w'.drv = w.drv.nextSeq.2 ∧ w'.net.sent = w.net.sent ++ [frm] ∧
      w'.net.target.ext =
        { w.net.target.ext with
          logix := some { st with proj := written st.proj (ldr_loc s (s.symbolType % 256)) 0 bytes } } ∧
      ldr_Healthy w' sess cidb { conn with lastSeq := some w.drv.nextSeq.1 } := by
  obtain ⟨info, hc1, hinfo⟩ := ldr_createTag_atomic st.proj s name t hstruct hdims hat
  obtain ⟨i, hc2, hget⟩ := ldr_tagDb_get st.proj programTags cfg.tags s hdb hs hkeep huniqN
    (ldr_plain_not_mem s.name hid 58 (by omega))
  rw [hc1] at hc2
  cases hc2
  have hty : elTyOfWord s.symbolType = .atomic (s.symbolType % 256) := by
    unfold elTyOfWord
    rw [if_neg (by omega)]
  exact write_atomic_scalar_e2e cfg w sess cidb conn st s info _ sz name t v bytes hw hlogix hs hbytes huniqN huniqI hid
    hinst hty hat hb hsz hlen hget hinfo hcanon henc hC hT

/-- the masks of one bit write set exactly that bit: for an integer of `sz` ∈ {1,2,4,8} bytes with old value `old`
    the controller's result has bit `b` equal to `v` and every other bit as before, and stays inside the integer -/
theorem ldw_bit_law (sz b : Nat) (v : Bool) (old : Nat) (hsz : sz = 1 ∨ sz = 2 ∨ sz = 4 ∨ sz = 8) (hb : b < 8 * sz)
    (ho : old < 2 ^ (8 * sz)) :
    (∀ i, i < 8 * sz → (K.rmwResult sz old (ldw_masks b v)).testBit i = if i = b then v else old.testBit i) ∧
    K.rmwResult sz old (ldw_masks b v) < 2 ^ (8 * sz) := by
  refine ⟨?_, K.rmw_in_range sz hsz [(b, v)] old ho⟩
  intro i hi
  have h := K.rmw_law sz hsz [(b, v)] (by intro o ho; simp at ho; rw [ho]; exact hb) old ho i hi
  have hl : K.lastOp [(b, v)] i = if b = i then some v else none := K.lastOp_snoc [] b v i
  rw [hl] at h
  unfold ldw_masks
  rw [h]
  by_cases e : b = i
  · simp [e]
  · have e' : ¬ i = b := fun x => e x.symm
    simp [e, e']

/-- C02, driver level, bit writes: writing ONE bit of a controller-scope elementary INTEGER scalar tag
    (`"tag.<digits>"`, bit number below the width of the type) with any Python value on a healthy connected driver goes
    out as exactly ONE Read-Modify-Write request (one frame, one sequence number), returns exactly one error-free Tag
    carrying the request string, the caller's value and the type "BOOL", and the controller's project afterwards is
    `written st.proj loc 0 (le sz new)` where `new` is the old integer with bit `b` set to the truth value of the
    caller's value and every other bit unchanged (`ldw_bit_law`); by `write_atomic_scalar_effect` only that symbol's
    memory changed and exactly one write was logged.

    Hypotheses: as in `write_atomic_scalar_e2e`, and
    * `hint`      the type is an integer type (not BOOL, REAL, LREAL);
    * `hds`, `hbit`  `ds` is a non-empty string of decimal digits whose value is below the width `8·size`;
    * `hT`        the request fits the size the target granted (`name length + 2·size + 18` bytes suffice); the driver
                  itself never fragments a Read-Modify-Write request. -/
theorem write_bit_e2e (cfg : Cfg) (w : Cli.World Ext) (sess : Nat) (cidb : Bytes) (conn : Conn)
    (st : LState) (s : Symbol) (info : TagInfo) (c sz : Nat) (name : Name) (t : Ty) (ds : Name) (val : PyVal)
    (hw : ldr_Healthy w sess cidb conn) (hlogix : w.net.target.ext.logix = some st)
    (hs : s ∈ st.proj.controller)
    (hbytes : ∀ s' ∈ st.proj.controller, ∀ ch ∈ s'.name, ch < 256)
    (huniqN : ∀ s' ∈ st.proj.controller, s'.name = s.name → s' = s)
    (huniqI : ∀ s' ∈ st.proj.controller, s'.inst = s.inst → s' = s)
    (hid : PlainIdent s.name) (hinst : s.inst < 2 ^ 32)
    (hty : elTyOfWord s.symbolType = .atomic c) (hat : atomicOfCode c = some (name, t)) (hb : t.isBits = none)
    (hsz : atomicSize c = some sz) (hlen : s.mem.length = sz) (hint : c ≠ 0xCA ∧ c ≠ 0xCB ∧ c ≠ 0xC1)
    (hget : cfg.tags.get? s.name = some info) (hinfo : ldr_InfoOf info name t s.inst)
    (hds : PyStr.isDigit ds = true) (hbit : PyStr.decVal ds < 8 * sz)
    (hT : s.name.length + 2 * sz + 18 ≤ conn.size) :
    ∃ w' frm, write hookAll cfg w [(ldw_bitTag s.name ds, val)] =
        (w', .ok [{ tag := ldw_bitTag s.name ds, value := val, type := some (Drv.nm "BOOL"), error := none }]) ∧
      w'.drv = w.drv.nextSeq.2 ∧ w'.net.sent = w.net.sent ++ [frm] ∧
      w'.net.target.ext =
        { w.net.target.ext with
          logix := some
            { st with
              proj := written st.proj (ldr_loc s c) 0
                (le sz (K.rmwResult sz (leVal s.mem) (ldw_masks (PyStr.decVal ds) val.truthy))) } } ∧
      (∀ i, i < 8 * sz →
        (K.rmwResult sz (leVal s.mem) (ldw_masks (PyStr.decVal ds) val.truthy)).testBit i =
          if i = PyStr.decVal ds then val.truthy else (leVal s.mem).testBit i) ∧
      K.rmwResult sz (leVal s.mem) (ldw_masks (PyStr.decVal ds) val.truthy) < 2 ^ (8 * sz) ∧
      ldr_Healthy w' sess cidb { conn with lastSeq := some w.drv.nextSeq.1 } := by
  obtain ⟨haty, hentry, hndw, hpos, hle8⟩ := ldr_atomic_table c sz name t hat hb hsz
  obtain ⟨hib, hszs⟩ := ldw_intBits c sz name t hat hb hsz hint
  have hold : leVal s.mem < 2 ^ (8 * sz) := by
    have := EN.leVal_lt s.mem
    rw [hlen, show (256 : Nat) = 2 ^ 8 from rfl, ← Nat.pow_mul] at this
    exact this
  obtain ⟨hlaw, hrange⟩ := ldw_bit_law sz (PyStr.decVal ds) val.truthy (leVal s.mem) hszs hbit hold
  -- (a) parsing
  have hnd : isDword info = false := by
    have : (name == Drv.nm "DWORD") = false := by simpa using hndw
    simp [isDword, hinfo.typeName, this]
  have hparsed : ((parseRequestedTags cfg.tags true ([(ldw_bitTag s.name ds, val)].map (·.1))).zip
      ([(ldw_bitTag s.name ds, val)].map (·.2))).map
      (fun x => ({ x.1 with value := x.2 } : Drv.Parsed)) = [ldw_parsedBit s.name ds info val] := by
    have := ldw_parse_bit cfg.tags true 0 s.name ds info (8 * sz) hid hds hget hnd hinfo.kind
      (by rw [hinfo.typeName]; exact hib) hbit
    show ([parseTagRequest cfg.tags true 0 (ldw_bitTag s.name ds)].zip [val]).map _ = _
    rw [this]; rfl
  -- (b) building
  obtain ⟨path, hpath, hpl, hden⟩ := ldr_requestPath cfg s.name info s.inst hid hinfo.instanceId hinst
  have hbuild := ldw_build_bit cfg w.drv s.name ds info val path name c sz hinfo.typeName hndw hentry hpath
  have hmsgr := ldw_rmwMessage w.drv.nextSeq.1 s.name info path sz (PyStr.decVal ds) val.truthy hle8 (by omega)
  -- (c)+(d) sending
  have hw1 : ldr_Healthy ({ w with drv := w.drv.nextSeq.2 } : Cli.World Ext) sess cidb conn :=
    ldr_Healthy_seq hw _ (by rw [(Cli.lcs_nextSeq w.drv).2])
  obtain ⟨w2, frm, hsend, hd2, hsent2, hext2, hh2⟩ := ldw_sendUnit_rmw ({ w with drv := w.drv.nextSeq.2 } : Cli.World Ext)
    sess cidb conn st s c sz cfg.useInstanceIds path w.drv.nextSeq.1 (ldw_masks (PyStr.decVal ds) val.truthy) hw1 hlogix hid
    hs hbytes huniqN huniqI hty hsz hlen hint hpos hden hpl (ldr_nextSeq_lt w.drv) (by omega)
  -- (e) the response
  have hresp := ldw_writeTag_ok s.name .none info.core.dataTypeName 0x4E sess conn.toId w.drv.nextSeq.1
    w.drv.nextSeq.2.context hw1.ctx8
  -- (f) the result
  have hfan := ldw_fanOut_rmw (ldw_rmwReq w.drv.nextSeq.1 s.name info path sz (PyStr.decVal ds) val.truthy)
    { tag := s.name, value := .none, type := some info.core.dataTypeName, error := none } 0 rfl
  have hresult := ldw_writeResult_bit (ldw_parsedBit s.name ds info val) info
    { tag := s.name, value := .none, type := some info.core.dataTypeName, error := none } (PyStr.decVal ds : Int)
    rfl rfl rfl rfl rfl
  -- the decorator
  have hfo : Cli.ensureForwardOpen hookAll Cli.FUEL w = (w, .ok ()) := ldr_ensureFO_connected hookAll 7 w hw.connected
  refine ⟨w2, frm, ?_, hd2, hsent2, hext2, hlaw, hrange, hh2⟩
  unfold write
  rw [hfo]
  dsimp only
  rw [hparsed, hbuild]
  dsimp only
  unfold sendRequests sendRequest
  dsimp only
  rw [hmsgr]
  dsimp only [ldw_rmwReq]
  rw [hsend]
  dsimp only
  rw [hresp]
  dsimp only [Except.map]
  unfold sendRequests
  dsimp only [ldw_rmwReq] at hfan
  dsimp only [Results.set, List.any_nil, Bool.false_eq_true, if_false, List.nil_append]
  simp only [Bool.false_eq_true, if_false]
  rw [hfan]
  dsimp only [List.isEmpty_cons, Bool.false_eq_true, if_false, List.map_cons, List.map_nil]
  simp only [Bool.false_eq_true, if_false, List.map_cons, List.map_nil]
  dsimp only [ldw_parsedBit] at hresult
  dsimp only [ldw_parsedBit]
  rw [hresult]

/-! ### non-vacuity: all hypotheses instantiated on the concrete project and world of `LogixDriverRead.Ex` -/

namespace Ex

-- evaluation checks of the run (interpreter)
#guard (match (write hookAll cfg world [(Drv.nm "abc", .int 77)]) with
        | (w', .ok [t]) => t.tag == Drv.nm "abc" && t.type == some (Drv.nm "DINT") && t.error.isNone &&
                     (match t.value with | .int 77 => true | _ => false) &&
                     (match w'.net.target.ext.logix with
                      | some st' => st'.proj.controller.map (·.mem) == [[0x4D, 0, 0, 0]] && st'.proj.writeLog == [(7, 0, 4)]
                      | none => false)
        | _ => false)

/-- every hypothesis of `write_atomic_scalar_e2e` holds for the concrete world: `write(("abc", 77))` succeeds and the
    project afterwards is `written proj loc 0 [4D 00 00 00]` -/
example : ∃ w' frm, write hookAll cfg world [(Drv.nm "abc", .int 77)] =
      (w', .ok [{ tag := Drv.nm "abc", value := .int 77, type := some (Drv.nm "DINT"), error := none }]) ∧
    w'.drv = world.drv.nextSeq.2 ∧ w'.net.sent = world.net.sent ++ [frm] ∧
    w'.net.target.ext =
      { world.net.target.ext with
        logix := some { state with proj := written state.proj (ldr_loc sym 0xC4) 0 [0x4D, 0, 0, 0] } } ∧
    ldr_Healthy w' 4097 [238, 255, 192, 0] { conn with lastSeq := some world.drv.nextSeq.1 } :=
  write_atomic_scalar_e2e cfg world 4097 [238, 255, 192, 0] conn state sym info 0xC4 4 (Drv.nm "DINT") (.int .dint) (.int 77)
    [0x4D, 0, 0, 0]
    healthy
    (by rfl)                                                   -- hlogix
    (by simp [state, proj])                                    -- hs
    (fun s' h => by rw [mem_ctl s' h]; decide)                 -- hbytes
    (fun s' h _ => mem_ctl s' h)                               -- huniqN
    (fun s' h _ => mem_ctl s' h)                               -- huniqI
    ⟨by decide, by decide, by decide⟩                          -- hid
    (by decide)                                                -- hinst
    (by decide) rfl rfl rfl rfl                                -- hty hat hb hsz hlen
    (by rfl)                                                   -- hget
    ⟨rfl, rfl, rfl, rfl, rfl⟩                                  -- hinfo
    ⟨77, rfl, by decide, by decide⟩                            -- hcanon
    (by rfl)                                                   -- henc
    (by decide +kernel) (by decide)                            -- hC hT

/-- the memory afterwards: the project is the old one with `abc` holding 4D 00 00 00 and one write logged -/
example : written state.proj (ldr_loc sym 0xC4) 0 [0x4D, 0, 0, 0] =
    { proj with controller := [{ sym with mem := [0x4D, 0, 0, 0] }], writeLog := [(7, 0, 4)] } := rfl

/-- … and of `write_then_read_atomic_e2e`: the following `read("abc")` returns 77 -/
example : ∃ w1 w2 frm1 frm2,
    write hookAll cfg world [(Drv.nm "abc", .int 77)] =
      (w1, .ok [{ tag := Drv.nm "abc", value := .int 77, type := some (Drv.nm "DINT"), error := none }]) ∧
    read hookAll cfg w1 [Drv.nm "abc"] =
      (w2, .ok [{ tag := Drv.nm "abc", value := .int 77, type := some (Drv.nm "DINT"), error := none }]) ∧
    w2.net.sent = world.net.sent ++ [frm1, frm2] ∧
    w2.net.target.ext =
      { world.net.target.ext with
        logix := some { state with proj := ldw_proj state.proj sym [0x4D, 0, 0, 0], ctr := state.ctr + 1 } } ∧
    ldr_Healthy w2 4097 [238, 255, 192, 0] { conn with lastSeq := some world.drv.nextSeq.2.nextSeq.1 } :=
  write_then_read_atomic_e2e cfg world 4097 [238, 255, 192, 0] conn state sym info 0xC4 4 (Drv.nm "DINT") (.int .dint)
    (.int 77) [0x4D, 0, 0, 0]
    healthy (by rfl) (by simp [state, proj])
    (fun s' h => by rw [mem_ctl s' h]; decide) (fun s' h _ => mem_ctl s' h) (fun s' h _ => mem_ctl s' h)
    ⟨by decide, by decide, by decide⟩ (by decide)
    (by decide) rfl rfl rfl rfl (by rfl) ⟨rfl, rfl, rfl, rfl, rfl⟩
    ⟨77, rfl, by decide, by decide⟩ (by rfl)
    (by decide +kernel) (by decide)

/-- … and of `write_bit_e2e`: `write(("abc.2", True))` on `abc` = 42 = 0b101010 goes out as one Read-Modify-Write
    request and leaves 46 = 0b101110 -/
example : ∃ w' frm, write hookAll cfg world [(Drv.nm "abc.2", .bool true)] =
      (w', .ok [{ tag := Drv.nm "abc.2", value := .bool true, type := some (Drv.nm "BOOL"), error := none }]) ∧
    w'.drv = world.drv.nextSeq.2 ∧ w'.net.sent = world.net.sent ++ [frm] ∧
    w'.net.target.ext =
      { world.net.target.ext with
        logix := some { state with proj := written state.proj (ldr_loc sym 0xC4) 0 [0x2E, 0, 0, 0] } } ∧
    ldr_Healthy w' 4097 [238, 255, 192, 0] { conn with lastSeq := some world.drv.nextSeq.1 } := by
  obtain ⟨w', frm, h1, h2, h3, h4, _, _, h7⟩ :=
    write_bit_e2e cfg world 4097 [238, 255, 192, 0] conn state sym info 0xC4 4 (Drv.nm "DINT") (.int .dint) (Drv.nm "2")
      (.bool true)
      healthy (by rfl) (by simp [state, proj])
      (fun s' h => by rw [mem_ctl s' h]; decide) (fun s' h _ => mem_ctl s' h) (fun s' h _ => mem_ctl s' h)
      ⟨by decide, by decide, by decide⟩ (by decide)
      (by decide) rfl rfl rfl rfl (by decide) (by rfl) ⟨rfl, rfl, rfl, rfl, rfl⟩
      (by decide) (by decide)                                  -- hds hbit
      (by decide)                                              -- hT
  have e : le 4 (K.rmwResult 4 (leVal sym.mem) (ldw_masks (PyStr.decVal (Drv.nm "2")) (PyVal.bool true).truthy)) =
      [0x2E, 0, 0, 0] := by decide +kernel
  rw [e] at h4
  exact ⟨w', frm, h1, h2, h3, h4, h7⟩

#guard (match (write hookAll cfg world [(Drv.nm "abc.2", .bool true)]) with
        | (w', .ok [t]) => t.tag == Drv.nm "abc.2" && t.type == some (Drv.nm "BOOL") && t.error.isNone && t.truthy &&
                     (match w'.net.target.ext.logix with
                      | some st' => st'.proj.controller.map (·.mem) == [[0x2E, 0, 0, 0]] && st'.proj.writeLog == [(7, 0, 4)]
                      | none => false)
        | _ => false)

/-! ### the size hypothesis `hC`

  The natural size hypothesis "the Write Tag request fits the connection"
  (`name length + size + 20 ≤ connectionSize`) is NOT enough for `write_atomic_scalar_e2e`; `hC` asks for
  `name length + 2·size + 20`. The single-request path of the driver (logix_driver.py:1225,
  `req_size = len(write_value) + len(request.message)`, where `request.message` already contains the value) counts
  the value twice. Counterexample, evaluated below: the Write Tag request for the DINT `abc` is 16 bytes long
  (sequence count included). With a connection size of 19 it fits, yet the driver switches to Write Tag Fragmented
  with a segment size that is not a multiple of the element size: the DINT goes out in TWO requests of 3 + 1 bytes
  (two frames, two entries in the controller's write log, four sequence numbers drawn) — the value arrives, but the
  scalar is not written in one piece and "applied exactly once" fails in the one-request sense. With a connection
  size of 20 the same write is one plain Write Tag request. (With 16 — the exact size of the request — the driver
  raises `ValueError` from `range(0, n, 0)` instead of sending the request that would fit.) -/

def smallWorld (c : Nat) : Cli.World Ext := { world with drv := { world.drv with connectionSize := c } }

/-- frames written, write-log of the controller, memory of `abc`, sequence numbers drawn -/
def writeOutcome (c : Nat) : Option (Nat × List (Nat × Nat × Nat) × List Bytes × Nat) :=
  match write hookAll cfg (smallWorld c) [(Drv.nm "abc", .int 77)] with
  | (w', .ok [t]) =>
      if t.error.isNone then
        w'.net.target.ext.logix.map fun (st' : LState) =>
          (w'.net.sent.length - world.net.sent.length, st'.proj.writeLog, st'.proj.controller.map (·.mem),
           w'.drv.seqVal - world.drv.seqVal)
      else none
  | _ => none

#guard writeOutcome 20 == some (1, [(7, 0, 4)], [[0x4D, 0, 0, 0]], 1)
#guard writeOutcome 19 == some (2, [(7, 0, 3), (7, 3, 1)], [[0x4D, 0, 0, 0]], 4)
#guard (match (write hookAll cfg (smallWorld 16) [(Drv.nm "abc", .int 77)]).2 with
        | .error (.foreign "ValueError") => true | _ => false)

end Ex

end Pycomm.Lgx.Drv
