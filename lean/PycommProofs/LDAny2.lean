/-
  C13 at the driver level for ARBITRARY reply bytes, part 2: from one iteration of `_send_requests` to the Tags of
  `read` / `write` of ONE request.

    * `lda_apply`: what an iteration of `_send_requests` makes of a non-fragmented request once `send` has handed
      back a reply; `lda_sendRequest_head`: with a reply waiting in the queue, the iteration is `lda_apply` of that
      reply (or `send` fails with CommError / DataError);
    * `lda_read_single`, `lda_write_single`: `read` / `write` of one request that builds to one packet, in terms of
      that iteration;
    * `lda_readResult_cases`, `lda_writeResult_cases`: where the error and the value of a returned Tag come from.
-/
import PycommProofs.LDAny1
import PycommProofs.LDMultiEncap
namespace Pycomm.Lgx.Drv
open Pycomm Pycomm.Tgt Pycomm.Path Pycomm.Reply Pycomm.Encap

/-! ### one iteration of `_send_requests` -/

/-- the requests that are sent as ONE packet answered by ONE reply -/
def Request.lda_plain : Request → Bool
  | .readFrag _ | .writeFrag _ => false
  | _ => true

/-- the entries an iteration of `_send_requests` adds to `results` for a non-fragmented request, given the reply
    `send` handed back -/
def lda_apply (rs : Results) (raw : Option Bytes) : Request → Except Exn Results
  | .read req => (lda_readOutcome req raw).map fun t => rs.set req.rid t
  | .write req =>
      (lda_writeOutcome req.tag (.bytes req.value) req.info.core.dataTypeName raw).map fun t => rs.set req.rid t
  | .rmw req => (lda_writeOutcome req.tag .none req.info.core.dataTypeName raw).map fun t => rs.set req.rid t
  | .multiRead _ reqs =>
      match multiPacketError (tagResp raw) with
      | .error e => .error e
      | .ok (some err) =>
          .ok (multiFailAll rs err ((reqs.zip (embeddedReplies (tagResp raw).p.data)).map fun q => ((q.1.rid : Int), q.1.tag)))
      | .ok none => multiReadResults rs (reqs.zip (embeddedReplies (tagResp raw).p.data))
  | .multiWrite _ reqs =>
      match multiPacketError (tagResp raw) with
      | .error e => .error e
      | .ok (some err) =>
          .ok (multiFailAll rs err ((reqs.zip (embeddedReplies (tagResp raw).p.data)).map fun q => ((q.1.rid : Int), q.1.tag)))
      | .ok none => multiWriteResults rs (reqs.zip (embeddedReplies (tagResp raw).p.data))
  | .readFrag _ => .error .hang
  | .writeFrag _ => .error .hang

theorem lda_apply_read (rs : Results) (raw : Option Bytes) (req : ReadReq) :
    lda_apply rs raw (.read req) = (lda_readOutcome req raw).map fun t => rs.set req.rid t := rfl
theorem lda_apply_write (rs : Results) (raw : Option Bytes) (req : WriteReq) :
    lda_apply rs raw (.write req) =
      (lda_writeOutcome req.tag (.bytes req.value) req.info.core.dataTypeName raw).map fun t => rs.set req.rid t := rfl
theorem lda_apply_rmw (rs : Results) (raw : Option Bytes) (req : RmwReq) :
    lda_apply rs raw (.rmw req) =
      (lda_writeOutcome req.tag .none req.info.core.dataTypeName raw).map fun t => rs.set req.rid t := rfl

theorem lda_rmwMessage_err (r : RmwReq) (e : Exn) (h : rmwMessage r = .error e) : e = .data := by
  unfold rmwMessage at h
  split at h
  · cases h; rfl
  · split at h
    · next e' hp =>
      cases h
      unfold packInt at hp
      split at hp
      · split at hp
        · cases hp
        · cases hp; rfl
      · cases hp; rfl
    · cases h

/-- with a reply `raw` waiting in the queue, the iteration for a non-fragmented request is `lda_apply` of `raw`, unless
    building the message or `send` fails with CommError / DataError -/
theorem lda_sendRequest_head {σ} (hook : ObjHook σ) (w : Cli.World σ) (rs : Results) (q : Request) (raw : Bytes)
    (rest : List (Option Bytes)) (hq : q.lda_plain = true) (hp : w.net.pending = some raw :: rest) :
    (sendRequest hook w rs q).2 = lda_apply rs (some raw) q ∨ (sendRequest hook w rs q).2 = .error .comm ∨
    (sendRequest hook w rs q).2 = .error .data := by
  cases q with
  | read req =>
    have h := lda_sendUnit_head hook w req.seq (Cl.readMsg req.path req.elements) raw rest hp
    unfold sendRequest
    dsimp only
    rcases hs : sendUnit hook w req.seq (Cl.readMsg req.path req.elements) with ⟨w1, r⟩
    rw [hs] at h
    try rw [hs]
    dsimp only at h ⊢
    rcases h with h | h | h <;> subst h
    · exact .inl rfl
    · exact .inr (.inl rfl)
    · exact .inr (.inr rfl)
  | readFrag req => cases hq
  | write req =>
    have h := lda_sendUnit_head hook w req.seq (Cl.writeMsg req.path req.typeBytes req.elements req.value) raw rest hp
    unfold sendRequest
    dsimp only
    rcases hs : sendUnit hook w req.seq (Cl.writeMsg req.path req.typeBytes req.elements req.value) with ⟨w1, r⟩
    rw [hs] at h
    try rw [hs]
    dsimp only at h ⊢
    rcases h with h | h | h <;> subst h
    · exact .inl rfl
    · exact .inr (.inl rfl)
    · exact .inr (.inr rfl)
  | writeFrag req => cases hq
  | rmw req =>
    cases hm : rmwMessage req with
    | error e =>
      unfold sendRequest
      dsimp only
      rw [hm]
      dsimp only
      rw [lda_rmwMessage_err req e hm]
      exact .inr (.inr rfl)
    | ok msg =>
      have h := lda_sendUnit_head hook w req.seq msg raw rest hp
      unfold sendRequest
      dsimp only
      rw [hm]
      dsimp only
      rcases hs : sendUnit hook w req.seq msg with ⟨w1, r⟩
      rw [hs] at h
      try rw [hs]
      dsimp only at h ⊢
      rcases h with h | h | h <;> subst h
      · exact .inl rfl
      · exact .inr (.inl rfl)
      · exact .inr (.inr rfl)
  | multiRead seq reqs =>
    have h := lda_sendUnit_head hook w seq (Cl.multiMsg (reqs.map fun q => Cl.readMsg q.path q.elements)) raw rest hp
    unfold sendRequest
    dsimp only
    rcases hs : sendUnit hook w seq (Cl.multiMsg (reqs.map fun q => Cl.readMsg q.path q.elements)) with ⟨w1, r⟩
    rw [hs] at h
    try rw [hs]
    dsimp only at h ⊢
    rcases h with h | h | h <;> subst h
    · left
      unfold lda_apply
      dsimp only
      cases multiPacketError (tagResp (some raw)) with
      | error e => rfl
      | ok o => cases o <;> rfl
    · exact .inr (.inl rfl)
    · exact .inr (.inr rfl)
  | multiWrite seq reqs =>
    have h := lda_sendUnit_head hook w seq (Cl.multiMsg (reqs.map fun q => Cl.writeMsg q.path q.typeBytes q.elements q.value)) raw rest hp
    unfold sendRequest
    dsimp only
    rcases hs : sendUnit hook w seq (Cl.multiMsg (reqs.map fun q => Cl.writeMsg q.path q.typeBytes q.elements q.value)) with ⟨w1, r⟩
    rw [hs] at h
    try rw [hs]
    dsimp only at h ⊢
    rcases h with h | h | h <;> subst h
    · left
      unfold lda_apply
      dsimp only
      cases multiPacketError (tagResp (some raw)) with
      | error e => rfl
      | ok o => cases o <;> rfl
    · exact .inr (.inl rfl)
    · exact .inr (.inr rfl)

theorem lda_sendRequests_single {σ} (hook : ObjHook σ) (w : Cli.World σ) (rs : Results) (q : Request) :
    (sendRequests hook w rs [q]).2 = (sendRequest hook w rs q).2 := by
  unfold sendRequests
  rcases sendRequest hook w rs q with ⟨w1, r⟩
  cases r with
  | error e => rfl
  | ok rs1 => rfl

/-! ### `read` / `write` of one request that builds to one packet -/

/-- `read(tag)` on a driver that is connected, when the request builds to the one packet `q`: the outcome of the
    iteration of `_send_requests`, then the result loop -/
theorem lda_read_single {σ} (hook : ObjHook σ) (cfg : Cfg) (w : Cli.World σ) (tag : Name) (d1 : Cli.Drv) (q : Request)
    (hconn : w.drv.targetIsConnected = true)
    (hbuild : readBuildRequests cfg w.drv (parseRequestedTags cfg.tags false [tag]) = (d1, .ok [q])) :
    (read hook cfg w [tag]).2 =
      match (sendRequest hook { w with drv := d1 } [] q).2 with
      | .error e => .error e
      | .ok rs => .ok [readResult (parseTagRequest cfg.tags false 0 tag) rs] := by
  have hfo : Cli.ensureForwardOpen hook Cli.FUEL w = (w, .ok ()) := ldr_ensureFO_connected hook 7 w hconn
  unfold read
  rw [hfo]
  dsimp only
  rw [hbuild]
  dsimp only
  have hs := lda_sendRequests_single hook { w with drv := d1 } [] q
  rcases hr : sendRequests hook { w with drv := d1 } [] [q] with ⟨w2, rs⟩
  rw [hr] at hs
  dsimp only at hs ⊢
  rw [← hs]
  cases rs with
  | error e => rfl
  | ok rs => rfl

/-- `write((tag, value))` on a driver that is connected, when the request builds to the one packet `q` -/
theorem lda_write_single {σ} (hook : ObjHook σ) (cfg : Cfg) (w : Cli.World σ) (tag : Name) (v : PyVal) (d1 : Cli.Drv)
    (ps' : List Drv.Parsed) (q : Request)
    (hconn : w.drv.targetIsConnected = true)
    (hbuild : writeBuildRequests cfg w.drv [{ parseTagRequest cfg.tags true 0 tag with value := v }] = (d1, .ok (ps', [q]))) :
    (write hook cfg w [(tag, v)]).2 =
      match (sendRequest hook { w with drv := d1 } [] q).2 with
      | .error e => .error e
      | .ok rs =>
          match fanOutRmw rs [q] with
          | none => .error (.foreign "KeyError")
          | some rs' => .ok (ps'.map fun p => writeResult p rs') := by
  have hfo : Cli.ensureForwardOpen hook Cli.FUEL w = (w, .ok ()) := ldr_ensureFO_connected hook 7 w hconn
  have hb' : writeBuildRequests cfg w.drv
      ((parseRequestedTags cfg.tags true ([(tag, v)].map (·.1))).zip ([(tag, v)].map (·.2)) |>.map
        fun x => { x.1 with value := x.2 }) = (d1, .ok (ps', [q])) := hbuild
  unfold write
  rw [hfo]
  dsimp only
  rw [hb']
  dsimp only
  have hs := lda_sendRequests_single hook { w with drv := d1 } [] q
  rcases hr : sendRequests hook { w with drv := d1 } [] [q] with ⟨w2, rs⟩
  rw [hr] at hs
  dsimp only at hs ⊢
  rw [← hs]
  cases rs with
  | error e => rfl
  | ok rs =>
    dsimp only
    cases fanOutRmw rs [q] with
    | none => rfl
    | some rs' => rfl

/-! ### where the error and the value of a returned Tag come from -/

theorem lda_pyIndex_mem {α} (xs : List α) (i : Int) (v : α) (h : pyIndex xs i = some v) : v ∈ xs := by
  unfold pyIndex at h
  dsimp only at h
  by_cases hc : (0 ≤ (if i < 0 then i + (xs.length : Int) else i) ∧ (if i < 0 then i + (xs.length : Int) else i) < xs.length)
  · rw [if_pos hc] at h; exact List.mem_of_getElem? h
  · rw [if_neg hc] at h; cases h

/-- the Tag the result loop of `read` makes for one request: either it carries an error of its own (the request's
    parse error, or "Invalid tag request"), or its error is the error of the table entry of the request and its value
    is None (falsy entry) / derived from the entry's value (truthy entry) -/
theorem lda_readResult_cases (p : Drv.Parsed) (rs : Results) :
    (∃ e, (readResult p rs).error = some e ∧ (readResult p rs).value = .none ∧ (p.error = some e ∨ ∃ x, e = .invalid x)) ∨
    (∃ result, rs.get? p.requestId = some result ∧ (readResult p rs).error = result.error ∧
      ((result.truthy = false ∧ (readResult p rs).value = .none) ∨
       (result.truthy = true ∧
         ((readResult p rs).value = result.value ∨ (∃ b, (readResult p rs).value = .bool b) ∨
          (∃ xs, (readResult p rs).value = .list xs) ∨
          (∃ xs, result.value.seq? = some xs ∧ (readResult p rs).value ∈ xs))))) := by
  unfold readResult
  cases he : p.error with
  | some e => exact .inl ⟨e, rfl, rfl, .inl rfl⟩
  | none =>
    dsimp only
    cases hg : rs.get? p.requestId with
    | none => exact .inl ⟨_, rfl, rfl, .inr ⟨_, rfl⟩⟩
    | some result =>
      cases hi : p.info with
      | none => exact .inl ⟨_, rfl, rfl, .inr ⟨_, rfl⟩⟩
      | some info =>
        dsimp only
        cases ht : result.truthy with
        | false => exact .inr ⟨result, rfl, rfl, .inl ⟨ht, rfl⟩⟩
        | true =>
          simp only [if_true]
          split
          · split
            · split
              · exact .inr ⟨result, rfl, rfl, .inr ⟨ht, .inr (.inl ⟨_, rfl⟩)⟩⟩
              · exact .inl ⟨_, rfl, rfl, .inr ⟨_, rfl⟩⟩
            · exact .inr ⟨result, rfl, rfl, .inr ⟨ht, .inl rfl⟩⟩
          · split
            · exact .inl ⟨_, rfl, rfl, .inr ⟨_, rfl⟩⟩
            · next xs hx =>
              split
              · exact .inr ⟨result, rfl, rfl, .inr ⟨ht, .inr (.inr (.inl ⟨_, rfl⟩))⟩⟩
              · split
                · next v hv =>
                  exact .inr ⟨result, rfl, rfl, .inr ⟨ht, .inr (.inr (.inr ⟨xs, hx, lda_pyIndex_mem _ _ _ hv⟩))⟩⟩
                · exact .inl ⟨_, rfl, rfl, .inr ⟨_, rfl⟩⟩

/-- the Tag the result loop of `write` makes for one request: an error of its own, or the caller's value with the error
    of the table entry of the request -/
theorem lda_writeResult_cases (p : Drv.Parsed) (rs : Results) :
    (∃ e, (writeResult p rs).error = some e ∧ (writeResult p rs).value = .none ∧ (p.error = some e ∨ ∃ x, e = .invalid x)) ∨
    (∃ result, rs.get? p.requestId = some result ∧ (writeResult p rs).error = result.error ∧
      (writeResult p rs).value = p.value) := by
  unfold writeResult
  cases he : p.error with
  | some e => exact .inl ⟨e, rfl, rfl, .inl rfl⟩
  | none =>
    dsimp only
    cases hg : rs.get? p.requestId with
    | none => exact .inl ⟨_, rfl, rfl, .inr ⟨_, rfl⟩⟩
    | some result =>
      cases hi : p.info with
      | none => exact .inl ⟨_, rfl, rfl, .inr ⟨_, rfl⟩⟩
      | some info => exact .inr ⟨result, rfl, rfl, rfl⟩

/-- a table with one entry -/
theorem lda_single_get (k k' : Int) (t result : LTag) (h : (Results.set [] k t).get? k' = some result) :
    result = t := by
  have hm := lds_get?_mem _ _ _ h
  rcases lds_set_mem [] k t _ hm with h1 | h1
  · cases h1
  · exact (Prod.mk.inj h1).2

end Pycomm.Lgx.Drv
