/-
  LogixDriver.read, layers (a) and (b) for a MEMBER PATH of any depth: the request string
  `base[i].m1[j].m2 … .leaf` — a controller-scope tag (optionally with indexes) followed by one or more member names
  (each optionally with indexes) — is
    (a) `ldr4_recurseAttrs`, `ldr4_getTagInfo`, `ldr4_parse_path`: parsed into a request that addresses the string as
        written, one element, no bit number, carrying the `internal_tags` entry the tag database reaches by walking
        the member names (`ldr4_InfoPath`);
    (b) `ldr4_requestPath`: turned into a SYMBOLIC request path (the entry of a member carries no instance id) that
        the controller's strict parser reads as the names and indexes written.
-/
import PycommProofs.LDRead3Struct
namespace Pycomm.Lgx.Drv
open Pycomm Pycomm.Tgt Pycomm.Path Pycomm.Reply Pycomm.EP Pycomm.Lgx Pycomm.Lgx.E2E

/-- what the `internal_tags` dicts of the tag database say along a member path: every name but the last leads to a
    `struct` entry whose own `internal_tags` continue the walk; the last name leads to `leaf` -/
def ldr4_InfoPath : ITags → List Name → TagInfo → Prop
  | _, [], _ => False
  | ms, [n], leaf => ms.get? n = some leaf
  | ms, n :: r :: rest, leaf =>
      ∃ j, ms.get? n = some j ∧ j.core.tagType = .struct ∧ ldr4_InfoPath j.members (r :: rest) leaf

/-- bound on the encoded size of the request path of a tag: per level 3 bytes + the name, 6 bytes per index -/
def ldr4_pathSize (ls : List TagLevel) : Nat := (ls.map fun l => 2 + l.name.length + 1 + 6 * l.idx.length).sum

/-! ### (a) parsing -/

theorem ldr4_renderTag_not_mem (ls : List TagLevel) (h : ∀ l ∈ ls, ldr2_Level l) (c : Nat)
    (hc : c = 58 ∨ c = 123 ∨ c = 125) : c ∉ renderTag ls := by
  intro hm
  rcases mem_joinWith _ _ _ hm with h46 | ⟨x, hx, hcx⟩
  · omega
  · obtain ⟨l, hl, rfl⟩ := List.mem_map.mp hx
    exact ldr2_level_not_mem l (h l hl) c (by omega) hcx

theorem ldr4_isDigit_level (l : TagLevel) (h : PyStr.isDigit l.name = false) : PyStr.isDigit (renderLevel l) = false := by
  unfold renderLevel
  split
  · exact h
  · unfold PyStr.isDigit
    have : (l.name ++ [91] ++ joinWith 44 (l.idx.map decRender) ++ [93]).all PyStr.isDigitC = false := by
      rw [List.all_eq_false]
      exact ⟨93, by simp, by decide⟩
    rw [this, Bool.and_false]

/-- `_recurse_attrs` along the member names of the levels -/
theorem ldr4_recurseAttrs : ∀ (ls : List TagLevel) (ms : ITags) (leaf : TagInfo), (∀ l ∈ ls, ldr2_Level l) →
    ldr4_InfoPath ms (ls.map (·.name)) leaf → recurseAttrs (ls.map renderLevel) ms = .found leaf
  | [], _, _, _, h => by simp [ldr4_InfoPath] at h
  | [l], ms, leaf, hl, h => by
    simp only [List.map_cons, List.map_nil, ldr4_InfoPath] at h
    simp only [List.map_cons, List.map_nil, recurseAttrs, ldr2_stripArray_level l (hl l (by simp)), h]
  | l :: l' :: rest, ms, leaf, hl, h => by
    simp only [List.map_cons, ldr4_InfoPath] at h
    obtain ⟨j, hj, hk, hrest⟩ := h
    have ih := ldr4_recurseAttrs (l' :: rest) j.members leaf (fun x hx => hl x (by simp [hx])) (by simpa using hrest)
    simp only [List.map_cons] at ih
    simp only [List.map_cons, recurseAttrs, ldr2_stripArray_level l (hl l (by simp)), hj, hk, ih]

/-- (a) `_get_tag_info(base, attrs)`: the entry the walk reaches -/
theorem ldr4_getTagInfo (db : TagDb) (l0 : TagLevel) (rest : List TagLevel) (info leaf : TagInfo)
    (hl0 : ldr2_Level l0) (hrest : ∀ l ∈ rest, ldr2_Level l) (hne : rest ≠ [])
    (hget : db.get? l0.name = some info) (hk : info.core.tagType = .struct)
    (hpath : ldr4_InfoPath info.members (rest.map (·.name)) leaf) :
    getTagInfo db (renderLevel l0) (rest.map renderLevel) = .ok (some leaf) := by
  have hemp : (rest.map renderLevel).isEmpty = false := by
    cases rest with
    | nil => exact absurd rfl hne
    | cons _ _ => rfl
  unfold getTagInfo
  rw [ldr2_stripArray_level l0 hl0, hget]
  simp only [hemp, Bool.false_eq_true, if_false, hk, ldr4_recurseAttrs rest info.members leaf hrest hpath]

/-- (a) `_parse_tag_request` of a member path whose last name is not a number and whose entry is not a BOOL array:
    the request addresses the string as written, one element, no bit number, the entry the walk reaches -/
theorem ldr4_parse_path (db : TagDb) (write : Bool) (rid : Nat) (l0 : TagLevel) (rest : List TagLevel)
    (info leaf : TagInfo)
    (hl0 : ldr2_Level l0) (hrest : ∀ l ∈ rest, ldr2_Level l) (hne : rest ≠ [])
    (hnum : ∀ l, rest.getLast? = some l → PyStr.isDigit l.name = false)
    (hget : db.get? l0.name = some info) (hk : info.core.tagType = .struct)
    (hpath : ldr4_InfoPath info.members (rest.map (·.name)) leaf) (hnd : isDword leaf = false) :
    parseTagRequest db write rid (renderTag (l0 :: rest)) =
      { requestId := rid, requestTag := renderTag (l0 :: rest), userTag := renderTag (l0 :: rest),
        plcTag := renderTag (l0 :: rest), bit := none, elements := 1, info := some leaf, boolElements := none } := by
  have hall : ∀ l ∈ l0 :: rest, ldr2_Level l := by
    intro l hl
    rcases List.mem_cons.1 hl with rfl | hl
    · exact hl0
    · exact hrest l hl
  have hwf : ∀ l ∈ l0 :: rest, WfLevel l := fun l hl => ldr2_level_wf l (hall l hl)
  have hse : splitElements (renderTag (l0 :: rest)) = .ok (renderTag (l0 :: rest), 1, true) :=
    ldr2_splitElements_none _ (ldr4_renderTag_not_mem _ hall 123 (by omega))
  have hsplit : PyStr.split 46 (renderTag (l0 :: rest)) = renderLevel l0 :: rest.map renderLevel := by
    rw [split_renderTag (l0 :: rest) (by simp) hwf]; rfl
  have hfind : (renderLevel l0 :: rest.map renderLevel).find? (fun part => !indexPartOk part) = none := by
    rw [List.find?_eq_none]
    intro x hx
    have : x ∈ (l0 :: rest).map renderLevel := by simpa using hx
    obtain ⟨l, hl, rfl⟩ := List.mem_map.mp this
    simp [ldr2_indexPartOk_level l (hall l hl)]
  have hscoped : lds_scoped (renderLevel l0) (rest.map renderLevel) = some (renderLevel l0, rest.map renderLevel) := by
    unfold lds_scoped
    rw [ldr2_not_program _ (ldr2_level_not_mem l0 hl0 58 (by omega))]
    simp
  have hbs : lds_bitSplit (renderTag (l0 :: rest)) (renderLevel l0) (rest.map renderLevel) =
      (none, rest.map renderLevel, renderTag (l0 :: rest)) := by
    unfold lds_bitSplit
    rw [List.getLast?_map]
    cases hl : rest.getLast? with
    | none => rfl
    | some l =>
      simp only [Option.map_some, ldr4_isDigit_level l (hnum l hl), Bool.false_eq_true, if_false]
  rw [lds_parse_unfold, hse]
  simp only [Int.reduceLE, and_self, decide_true, Bool.not_true, Bool.false_eq_true, if_false, hsplit, hfind, hscoped, hbs]
  unfold lds_tail
  simp only [ldr4_getTagInfo db l0 rest info leaf hl0 hrest hne hget hk hpath, lds_bitBad, hnd, Bool.false_eq_true,
    if_false]

/-! ### (b) the request path -/

/-- (b, path) `tag_request_path` of a member path with the entry of the last member (no instance id): it exists, is
    bounded by `ldr4_pathSize`, and the controller's strict parser reads it as the names and indexes written -/
theorem ldr4_requestPath (cfg : Cfg) (ls : List TagLevel) (leaf : TagInfo) (hne : ls ≠ [])
    (hls : ∀ l ∈ ls, ldr2_Level l) (hsize : ldr4_pathSize ls ≤ 510) (hinst : leaf.core.instanceId = none) :
    ∃ path, requestPathOf cfg (renderTag ls) leaf = .ok path ∧ path.length ≤ ldr4_pathSize ls + 1 ∧
      Denotes path (ls.flatMap levelSegs) := by
  have hwf : ∀ l ∈ ls, WfLevel l := fun l hl => ldr2_level_wf l (hls l hl)
  cases ls with
  | nil => exact absurd rfl hne
  | cons l0 rest =>
    have hsplit := split_renderTag (l0 :: rest) hne hwf
    have hfind := findTagIndex_render' l0 (hwf l0 (by simp))
    have hattr := attrSegs_render rest (fun l hl => hwf l (by simp [hl]))
    have hall := encAll_levels (l0 :: rest) hwf
    obtain ⟨bs, hb, hp⟩ := hall.request hsize
    have hlen := ldr_encEpath_len hall hb
    refine ⟨bs, ?_, hlen, hp⟩
    have hb' : encEpath true ([Seg.dataStr l0.name] ++ idxSrc l0.idx ++ rest.flatMap levelSrc) true false = .ok bs := by
      simpa [levelSrc] using hb
    unfold requestPathOf
    rw [hinst, ldr3_tagRequestPath_noinst]
    simp only [tagRequestPath, hsplit, List.map_cons, hfind, indexSegs_render, hattr, Bool.false_and, if_false,
      Bool.false_eq_true, hb']

end Pycomm.Lgx.Drv
