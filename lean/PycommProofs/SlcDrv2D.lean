/-
  SLCDriver.read / write at the driver level, second topic file, helper layer D (driver level): a write followed by a
  read of the same address; one `_write_tag` in terms of `writeAddr`; `[self._write_tag(t, v) for t, v in …]` for any
  list of requests that can be built.
-/
import PycommProofs.SlcDrv2C
namespace Pycomm.Slc.Drv
open Pycomm Pycomm.Tgt Pycomm.Path Pycomm.Encap Pycomm.Slc Pycomm.Lgx.Drv

/-- n values drawn from `self._sequence` -/
def sd2_draws : Nat → Cli.Drv → Cli.Drv
  | 0, d => d
  | n + 1, d => sd2_draws n d.nextSeq.2

theorem sd2_draws_vid (n : Nat) : ∀ d : Cli.Drv, (sd2_draws n d).vid = d.vid ∧ (sd2_draws n d).vsn = d.vsn := by
  induction n with
  | zero => intro d; exact ⟨rfl, rfl⟩
  | succ n ih => intro d; exact ih d.nextSeq.2

/-- `write((address, value))` accepted by the data table, then `read(address)`: the Tag echoing the value, then the
    Tag made of what the new table answers for the address -/
theorem sd2_write_then_read (w : Cli.World Ext) (sess : Nat) (cidb : Bytes) (conn : Conn) (tbl tbl' : Table) (t : Name)
    (a : Addr) (v : PyVal)
    (hH : ldr_Healthy w sess cidb conn) (htbl : w.net.target.ext.slc = some tbl)
    (hvid : w.drv.vid.length = 2) (hvsn : w.drv.vsn.length = 4) (hC : 500 ≤ conn.size)
    (hparse : parseTag t = some a) (hnb : ∀ b, v ≠ .bytes b) (hnd : ∀ kvs, v ≠ .dict kvs)
    (hp : a.posNumber < 65536) (hs : dataSize a.fileType * a.count ≤ 255) (hwa : writeAddr tbl a v = .ok tbl') :
    ∃ w1 w2 frm1 frm2,
      slcWrite hookAll w [(t, v)] = (w1, .ok [{ tag := a.tag, value := v, type := a.fileType, error := none }]) ∧
      w1.net.target.ext = { w.net.target.ext with slc := some tbl' } ∧
      slcRead hookAll w1 [t] = (w2, .ok [sdr_readTagOf a (readAddr tbl' a)]) ∧
      w2.net.target.ext = { w.net.target.ext with slc := some tbl' } ∧
      w2.net.sent = w.net.sent ++ [frm1, frm2] ∧ w2.drv = w.drv.nextSeq.2.nextSeq.2.nextSeq.2.nextSeq.2 ∧
      ldr_Healthy w2 sess cidb { conn with lastSeq := some w.drv.nextSeq.2.nextSeq.2.nextSeq.2.nextSeq.1 } := by
  obtain ⟨w1, frm1, hwrite, hd1, hs1, he1, hH1⟩ := sdr_write_one w sess cidb conn tbl tbl' t a v hH htbl hvid hvsn
    hC hparse hnb hnd hp hwa
  have htbl1 : w1.net.target.ext.slc = some tbl' := by rw [he1]
  obtain ⟨w2, frm2, hread, hd2, hs2, he2, hH2⟩ := sdr_read_one w1 sess cidb _ tbl' t a hH1 htbl1
    (by rw [hd1]; exact hvid) (by rw [hd1]; exact hvsn) (by show 64 ≤ conn.size; omega) hparse hs hp
  refine ⟨w1, w2, frm1, frm2, hwrite, he1, hread, by rw [he2, he1], ?_, by rw [hd2, hd1], ?_⟩
  · rw [hs2, hs1, List.append_assoc]
    rfl
  · rw [hd1] at hH2
    exact hH2

/-- one `_write_tag` whose request can be built, in terms of `writeAddr`: the Tag echoes the value when the data table
    accepts the request and carries the PCCC error text when it refuses; the table is the one `writeAddr` leaves
    (unchanged when refused); no exception either way -/
theorem sd2_writeTag_addr (w : Cli.World Ext) (sess : Nat) (cidb : Bytes) (conn : Conn) (tbl : Table) (t : Name)
    (a : Addr) (v : PyVal) (val : Bytes) (sz : Nat)
    (hH : ldr_Healthy w sess cidb conn) (htbl : w.net.target.ext.slc = some tbl)
    (hvid : w.drv.vid.length = 2) (hvsn : w.drv.vsn.length = 4) (hC : 500 ≤ conn.size)
    (hparse : parseTag t = some a) (hnb : ∀ b, v ≠ .bytes b) (hnd : ∀ kvs, v ≠ .dict kvs)
    (hp : a.posNumber < 65536) (hwv : writeableValue a v = .ok (val, sz)) (hsz : sz * a.count ≤ 255) :
    ∃ w' frm, writeTag hookAll w t v = (w', .ok (sdr_writeTagOf a v (writeAddr tbl a v))) ∧
      w'.drv = w.drv.nextSeq.2.nextSeq.2 ∧ w'.net.sent = w.net.sent ++ [frm] ∧
      w'.net.target.ext = { w.net.target.ext with slc := some (sdr_tbl tbl (writeAddr tbl a v)) } ∧
      ldr_Healthy w' sess cidb { conn with lastSeq := some w.drv.nextSeq.2.nextSeq.1 } := by
  have hr := parse_accepts_in_range t a hparse
  have hws : writeSub a < 65536 := by
    rw [slx_writeSub]
    split
    · have := hr.sub; omega
    · exact hp
  have hfl := slx_writeAddressFields a (sz * a.count) hsz (by have := hr.file; omega) (by have := hr.elem; omega) hws
  have hl := sdr_fields_len (sz * a.count) a.fileNumber (typeCode a.fileType) a.element (writeSub a)
  have hvl := sd2_writeable_len a v val sz hr hwv hsz
  obtain ⟨w', frm, hwrite, h1, h2, h3, h4⟩ := sdr_writeTag w sess cidb conn tbl t a v val _ sz hH htbl hvid hvsn
    hparse hnb hnd hwv hfl (by omega) (by omega)
  have hwa : writeAddr tbl a v = targetWrite tbl ([UInt8.ofNat (sz * a.count)] ++ fieldBytes a.fileNumber ++
      [UInt8.ofNat (typeCode a.fileType)] ++ fieldBytes a.element ++ fieldBytes (writeSub a) ++ val) := by
    simp only [writeAddr, hwv, hfl]
  rw [← hwa] at hwrite h3
  exact ⟨w', frm, hwrite, h1, h2, h3, h4⟩

/-- `[self._write_tag(tag, value) for tag, value in address_values]` for any list of requests that can be built: one
    Tag per pair, in order, each what the data table - as its predecessors left it - answers for that request
    (`sd2_writeRun`); two counter values and one frame per pair; healthy again on the same connection -/
theorem sd2_writeTags_all (sess : Nat) (cidb : Bytes) (tavs : List (Name × Addr × PyVal)) :
    ∀ (tbl : Table) (w : Cli.World Ext) (conn : Conn), ldr_Healthy w sess cidb conn → w.net.target.ext.slc = some tbl →
      w.drv.vid.length = 2 → w.drv.vsn.length = 4 → 500 ≤ conn.size →
      (∀ p ∈ tavs, parseTag p.1 = some p.2.1 ∧ (∀ b, p.2.2 ≠ .bytes b) ∧ (∀ kvs, p.2.2 ≠ .dict kvs) ∧
        p.2.1.posNumber < 65536 ∧
        ∃ val sz, writeableValue p.2.1 p.2.2 = .ok (val, sz) ∧ sz * p.2.1.count ≤ 255) →
      ∃ w' frames conn', writeTags hookAll w (tavs.map fun p => (p.1, p.2.2)) =
          (w', .ok (sd2_writeRun tbl (tavs.map (·.2))).1) ∧
        w'.net.sent = w.net.sent ++ frames ∧ frames.length = tavs.length ∧
        w'.net.target.ext = { w.net.target.ext with slc := some (sd2_writeRun tbl (tavs.map (·.2))).2 } ∧
        w'.drv = sd2_draws (2 * tavs.length) w.drv ∧
        ldr_Healthy w' sess cidb conn' ∧ conn'.size = conn.size ∧ conn'.toId = conn.toId := by
  induction tavs with
  | nil =>
    intro tbl w conn hH htbl _ _ _ _
    refine ⟨w, [], conn, rfl, by simp, rfl, ?_, rfl, hH, rfl, rfl⟩
    exact (sdr_ext_same _ tbl htbl).symm
  | cons p rest ih =>
    intro tbl w conn hH htbl hvid hvsn hC hall
    obtain ⟨hp1, hp2, hp3, hp4, val, sz, hp5, hp6⟩ := hall p List.mem_cons_self
    obtain ⟨w1, frm, h1, hd1, hs1, he1, hH1⟩ := sd2_writeTag_addr w sess cidb conn tbl p.1 p.2.1 p.2.2 val sz hH htbl
      hvid hvsn hC hp1 hp2 hp3 hp4 hp5 hp6
    obtain ⟨w2, frames, conn2, h2, hs2, hl2, he2, hd2, hH2, hz2, ht2⟩ :=
      ih (sdr_tbl tbl (writeAddr tbl p.2.1 p.2.2)) w1 _ hH1 (by rw [he1])
        (by rw [hd1]; exact hvid) (by rw [hd1]; exact hvsn) (by show 500 ≤ conn.size; exact hC)
        (fun q hq => hall q (List.mem_cons_of_mem _ hq))
    refine ⟨w2, frm :: frames, conn2, ?_, ?_, by simp [hl2], ?_, ?_, hH2, hz2, ht2⟩
    · simp only [List.map_cons, writeTags, h1, h2, sd2_writeRun]
    · rw [hs2, hs1, List.append_assoc]
      rfl
    · rw [he2, he1]
      simp only [List.map_cons, sd2_writeRun]
    · rw [hd2, hd1]
      have : 2 * (p :: rest).length = 2 * rest.length + 1 + 1 := by simp only [List.length_cons]; omega
      rw [this]
      rfl

/-- `write(*good, (t, v), *rest)` where `_write_tag(t, v)` raises: the pairs in front of it are served (their requests
    were sent and answered), then the exception escapes; nothing is sent for the pairs after it -/
theorem sd2_writeTags_raises {σ : Type} (hook : ObjHook σ) (good : List (Name × PyVal)) (t : Name) (v : PyVal)
    (rest : List (Name × PyVal)) (e : Exn) :
    ∀ (w w1 w1' : Cli.World σ) (tags : List STag), writeTags hook w good = (w1, .ok tags) →
      writeTag hook w1 t v = (w1', .error e) →
      writeTags hook w (good ++ (t, v) :: rest) = (w1', .error e) := by
  induction good with
  | nil =>
    intro w w1 w1' tags hgood hbad
    simp only [writeTags] at hgood
    injection hgood with h1 _
    subst h1
    simp only [List.nil_append, writeTags, hbad]
  | cons g gs ih =>
    intro w w1 w1' tags hgood hbad
    obtain ⟨gt, gv⟩ := g
    simp only [List.cons_append, writeTags] at hgood ⊢
    cases h1 : writeTag hook w gt gv with
    | mk wa ra =>
      rw [h1] at hgood
      simp only at hgood ⊢
      cases ra with
      | error e' => simp only at hgood; injection hgood with _ h; cases h
      | ok tg =>
        simp only at hgood ⊢
        cases h2 : writeTags hook wa gs with
        | mk wb rb =>
          rw [h2] at hgood
          simp only at hgood
          cases rb with
          | error e' => simp only at hgood; injection hgood with _ h; cases h
          | ok tgs =>
            simp only at hgood
            injection hgood with hw _
            subst hw
            rw [ih wa wb w1' tgs h2 hbad]

end Pycomm.Slc.Drv
