/-
  Helper lemmas for the multi-service end-to-end laws (LogixE2ERead).
-/
import PycommProofs.LE2RBasic
import PycommProofs.LogixBitsProofs
namespace Pycomm.Lgx.E2E
open Pycomm Pycomm.Tgt Pycomm.Path Pycomm.Lgx Pycomm.Lgx.Cl

/-- what `execEmbedded` does with one embedded request -/
def embStep (cap : Nat) (st : LState) (m : Bytes) : LState × Bytes :=
  match parseMR m with
  | none => (st, encMRReply ((m.headD 0).toNat) { status := 0x04 })
  | some req =>
      match single st req cap with
      | some (st', r) => (st', encMRReply req.service r)
      | none => (st, encMRReply req.service { status := 0x08 })

theorem execEmbedded_cons (cap : Nat) (st : LState) (m : Bytes) (rest : List Bytes) :
    execEmbedded cap st (m :: rest) =
      ((execEmbedded cap (embStep cap st m).1 rest).1,
       (embStep cap st m).2 :: (execEmbedded cap (embStep cap st m).1 rest).2) := by
  rw [execEmbedded]; rfl

/-- one embedded request that is not a nested multi-service request is answered like a request of its own -/
theorem embStep_exchange (cap : Nat) (st : LState) (m : Bytes) (req : MRReq) (hm : parseMR m = some req)
    (hnm : req.service ≠ 0x0A) :
    embStep cap st m = ((exchange st cap m).1, encMRReply req.service (exchange st cap m).2) := by
  simp only [embStep, exchange, hm, logixService, Option.getD_some]
  rw [if_neg (fun h => hnm h.1)]
  cases single st req cap with
  | none => rfl
  | some r => rfl

theorem parseMR_multi (d : Bytes) :
    parseMR ([0x0A, 0x02, 0x20, 0x02, 0x24, 0x01] ++ d) =
      some { service := 0x0A, path := [.logical 0 2, .logical 4 1], data := d } := by
  have h0 : parseRequestPath [0x02, 0x20, 0x02, 0x24, 0x01] = some ([PSeg.logical 0 2, PSeg.logical 4 1], []) := by
    decide
  have h1 := Cli.parseRequestPath_append _ d _ h0
  have e : ([0x0A, 0x02, 0x20, 0x02, 0x24, 0x01] ++ d : Bytes) = 0x0A :: ([0x02, 0x20, 0x02, 0x24, 0x01] ++ d) := rfl
  rw [e, parseMR, h1]
  rfl

/-- the reply data of the multi-service packet is the packed form of the embedded replies -/
theorem multi_reply_data (reps : List Bytes) :
    le 2 reps.length ++ (((List.range reps.length).map fun i =>
        2 + 2 * reps.length + ((reps.map (·.length)).take i).foldl (· + ·) 0).map (le 2)).flatten ++ reps.flatten =
      K.packMulti reps := by
  simp only [K.packMulti, List.map_take]
  rfl

end Pycomm.Lgx.E2E
