/-
  Controller-side failures, layers (c)+(d): a tag service whose address the reference controller cannot resolve
  (here: an array element beyond the array) is answered with the resolver's CIP status without touching the
  controller's state; the answer travels back over the healthy connection as the framed reply.
-/
import PycommProofs.LDRead2Send
import PycommProofs.LDRead2Addr
import PycommProofs.LDFailReply
namespace Pycomm.Lgx.Drv
open Pycomm Pycomm.Tgt Pycomm.Path Pycomm.Reply Pycomm.Encap Pycomm.Lgx Pycomm.Lgx.E2E

/-- the controller's answer to a tag service whose path does not resolve (status `e`) -/
def ldx_refusal (e : Nat) : MRReply := { status := e, ext := if e = 0xFF then [0x2105] else [] }

/-- the tag services -/
def ldx_TagSvc (svc : Nat) : Prop := svc = 0x4C ∨ svc = 0x52 ∨ svc = 0x4D ∨ svc = 0x53 ∨ svc = 0x4E

/-- a path that starts like a tag address: a symbol name, or the symbol class with an instance -/
def ldx_TagPath (segs : List PSeg) : Prop :=
  (∃ nmb rest, segs = .symbol nmb :: rest) ∨ (∃ i rest, segs = .logical 0 0x6B :: .logical 4 i :: rest)

theorem ldx_tagPath_logix (segs : List PSeg) (h : ldx_TagPath segs) : ldr2_LogixPath segs := by
  rcases h with ⟨nmb, rest, e⟩ | ⟨i, rest, e⟩
  · exact Or.inl ⟨nmb, rest, e⟩
  · exact Or.inr ⟨0x6B, i, rest, e, by decide, by decide, by decide, by decide, by decide⟩

/-- (d, service) a tag service on a tag path that the resolver rejects with status `e`: the answer is that status
    (with extended status 0x2105 for 0xFF); the controller's state is untouched -/
theorem ldx_tagService_refused (st : LState) (req : MRReq) (cap e : Nat)
    (hr : resolve st.proj req.path = .error e) (hs : ldx_TagSvc req.service) (hp : ldx_TagPath req.path) :
    tagService st req cap = some (st, ldx_refusal e) := by
  obtain ⟨svc, path, data⟩ := req
  simp only at hr hs hp ⊢
  unfold tagService ldx_refusal
  simp only
  rw [if_neg (by unfold ldx_TagSvc at hs; simp; omega)]
  rcases hp with ⟨nmb, rest, e'⟩ | ⟨i, rest, e'⟩ <;> subst e' <;> simp only [hr] <;>
    simp only [Bool.not_true, Bool.false_eq_true, if_false]

theorem ldx_single_refused (st : LState) (req : MRReq) (cap e : Nat)
    (hr : resolve st.proj req.path = .error e) (hs : ldx_TagSvc req.service) (hp : ldx_TagPath req.path) :
    single st req cap = some (st, ldx_refusal e) := by
  have hts := ldx_tagService_refused st req cap e hr hs hp
  have h55 : req.service ≠ 0x55 := by unfold ldx_TagSvc at hs; omega
  unfold single
  split
  · rw [if_neg h55]; exact hts
  · rw [if_neg (by intro h; exact h55 h.1)]; exact hts
  · rename_i tid e1
    rcases hp with ⟨nmb, rest, e'⟩ | ⟨i, rest, e'⟩ <;> rw [e1] at e' <;> cases e'
  · exact hts

theorem ldx_logixService_refused (st : LState) (req : MRReq) (cap e : Nat)
    (hr : resolve st.proj req.path = .error e) (hs : ldx_TagSvc req.service) (hp : ldx_TagPath req.path) :
    logixService st req (some cap) = some (st, ldx_refusal e) := by
  have h0A : req.service ≠ 0x0A := by unfold ldx_TagSvc at hs; omega
  simp only [logixService, Option.getD_some]
  rw [if_neg (by intro h; exact h0A h.1)]
  exact ldx_single_refused st req cap e hr hs hp

/-- (d) the same at the level of the message: service byte ++ request path ++ data -/
theorem ldx_exchange_refused (st : LState) (cap : Nat) (svc : UInt8) (path data : Bytes) (segs : List PSeg) (e : Nat)
    (hp : Denotes path segs) (hr : resolve st.proj segs = .error e) (hs : ldx_TagSvc svc.toNat) (htp : ldx_TagPath segs) :
    Cl.exchange st cap ([svc] ++ path ++ data) = (st, ldx_refusal e) := by
  unfold Cl.exchange
  rw [parseMR_msg svc path data segs hp]
  simp only
  rw [ldx_logixService_refused st _ cap e hr hs htp]

theorem ldx_refusal_facts (e : Nat) (he : e ≠ 0) (he8 : e < 256) :
    (ldx_refusal e).status ≠ 0 ∧ (ldx_refusal e).status < 256 ∧ (ldx_refusal e).ext.length < 256 := by
  unfold ldx_refusal
  refine ⟨he, he8, ?_⟩
  simp only
  split <;> simp

/-! ### (d, addressing) an element beyond the array -/

/-- both renderings of `name[i]` with `i` beyond the one-dimensional array `s`: the resolver answers 0xFF -/
theorem ldx_resolve_oob (p : Project) (s : Symbol) (c sz : Nat) (useIds : Bool) (i dim : Nat)
    (hid : PlainIdent s.name) (hs : s ∈ p.controller)
    (hbytes : ∀ s' ∈ p.controller, ∀ ch ∈ s'.name, ch < 256)
    (huniqN : ∀ s' ∈ p.controller, s'.name = s.name → s' = s)
    (huniqI : ∀ s' ∈ p.controller, s'.inst = s.inst → s' = s)
    (hty : elTyOfWord s.symbolType = .atomic c) (hsz : atomicSize c = some sz) (hmem : s.mem ≠ [])
    (hdims : s.dims.filter (· != 0) = [dim]) (hi : dim ≤ i) :
    resolve p (ldr_segs s.name s.inst useIds ++ [PSeg.logical 8 i]) = .error 0xFF := by
  have hme : s.mem.isEmpty = false := by
    cases h : s.mem with
    | nil => exact absurd h hmem
    | cons _ _ => rfl
  have hel : p.elSize (.atomic c) = some sz := hsz
  have hli : linearIndex s.dims [i] = none := by
    unfold linearIndex
    simp only [hdims, List.length_singleton, ne_eq, not_true_eq_false, if_false, List.zip_cons_cons, List.zip_nil_right,
      List.any_cons, List.any_nil, Bool.or_false, decide_eq_true_eq]
    rw [if_pos (by omega)]
  unfold ldr_segs
  split
  · unfold resolve
    simp only [List.cons_append, List.nil_append, Project.findSymbol, ldr_find_inst p s hs huniqI, Option.map_some, hme,
      Bool.false_eq_true, if_false, hty, hel, takeIndices, List.cons_ne_nil, hli]
  · unfold resolve
    simp only [List.cons_append, List.nil_append, ldr_not_programName s.name hid, Bool.false_eq_true, if_false,
      Project.findSymbol, ldr_find_name p s hs hbytes huniqN, Option.map_some, hme, hty, hel, takeIndices,
      List.cons_ne_nil, hli]

theorem ldx_tagPath_segs (name : Name) (inst : Nat) (useIds : Bool) (rest : List PSeg) :
    ldx_TagPath (ldr_segs name inst useIds ++ rest) := by
  unfold ldr_segs
  split
  · exact Or.inr ⟨_, _, rfl⟩
  · exact Or.inl ⟨_, _, rfl⟩

/-! ### (c)+(d) a refused tag service over the healthy connection -/

/-- (c)+(d) a tag-service message whose address the controller rejects with status `e`, sent on the healthy
    connection: one frame is written, the reply is the framed refusal, the Logix state of the target is the one it
    was, the world is healthy again -/
theorem ldx_sendUnit_refused (w : Cli.World Ext) (sess : Nat) (cidb : Bytes) (conn : Conn) (st : LState)
    (seq : Nat) (svc : UInt8) (path data : Bytes) (segs : List PSeg) (e : Nat)
    (hw : ldr_Healthy w sess cidb conn) (hlogix : w.net.target.ext.logix = some st)
    (hp : Denotes path segs) (hr : resolve st.proj segs = .error e) (hs : ldx_TagSvc svc.toNat) (htp : ldx_TagPath segs)
    (hseq : seq < 65536) (hm : ([svc] ++ path ++ data).length ≤ 65400)
    (hfit : ([svc] ++ path ++ data).length + 2 ≤ conn.size) :
    ∃ w' frm, sendUnit hookAll w seq ([svc] ++ path ++ data) =
        (w', .ok (some (frame CMD_SEND_UNIT sess 0 w.drv.context (cpfReplyConnected conn.toId seq
          (encMRReply svc.toNat (ldx_refusal e)))))) ∧
      w'.drv = w.drv ∧ w'.net.sent = w.net.sent ++ [frm] ∧
      w'.net.target.ext = w.net.target.ext ∧
      ldr_Healthy w' sess cidb { conn with lastSeq := some seq } := by
  have hpm := parseMR_msg svc path data segs hp
  have hls := ldx_logixService_refused st { service := svc.toNat, path := segs, data := data } (conn.size - 2) e hr hs htp
  obtain ⟨w', frm, h1, h2, h3, h4, h5⟩ := ldr2_sendUnit_logix w sess cidb conn st seq ([svc] ++ path ++ data)
    { service := svc.toNat, path := segs, data := data } (st, ldx_refusal e) hw hlogix hpm (ldx_tagPath_logix segs htp) hls
    hseq hm hfit
  refine ⟨w', frm, h1, h2, h3, ?_, h5⟩
  rw [h4]
  cases hx : w.net.target.ext with
  | mk lg sl => rw [hx] at hlogix; simp only at hlogix; rw [hlogix]

end Pycomm.Lgx.Drv
