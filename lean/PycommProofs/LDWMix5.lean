/-
  LogixDriver.write of MIXED shapes in one call: the facts the engine needs (`ldwx_Facts`) for
    * a member path `tag[i].m1[j]. … .leaf` ending at an elementary member — `ldwx_member_facts`;
    * a whole structure tag written by its name: a string tag with a `str`, a structure tag with a dict —
      `ldwx_whole_facts`, `ldwx_str_whole`, `ldwx_struct_whole`;
  the item type `ldwx_Item` of the property theorems and the composed theorem `ldwx_write_mixed`.
-/
import PycommProofs.LDWMix1
import PycommProofs.LDWMix4
namespace Pycomm.Lgx.Drv
open Pycomm Pycomm.Tgt Pycomm.Path Pycomm.Reply Pycomm.Encap Pycomm.Lgx Pycomm.Lgx.E2E

/-! ### a member path -/

/-- `(tag[i].m1[j]. … .leaf, value)`: the controller-scope structure tag `s` (definition `tm0` = template `tid0`;
    `idx0` the indexes written after its name, `li` their row-major linear index, 0 without), the walk `hops` through
    the nested structure definitions, the entries `info` of the tag and `leaf` of the last member in the tag database,
    the leaf's elementary type (code `c`, `sz` bytes, class name `tname`, codec type `t`), the caller's value and its
    encoding -/
structure ldwx_Member where
  s : Symbol
  tid0 : Nat
  tm0 : Template
  idx0 : List Nat
  li : Nat
  hops : List ldr4_Hop
  info : TagInfo
  leaf : TagInfo
  c : Nat
  sz : Nat
  tname : Name
  t : Ty
  v : PyVal
  bytes : Bytes

/-- the hypotheses of `write_member_path_e2e` about one request -/
structure ldwx_MemberOk (cfg : Cfg) (p : Project) (x : ldwx_Member) : Prop where
  mem : x.s ∈ p.controller
  uniqN : ∀ s' ∈ p.controller, s'.name = x.s.name → s' = x.s
  uniqI : ∀ s' ∈ p.controller, s'.inst = x.s.inst → s' = x.s
  level0 : ldr2_Level ⟨x.s.name, x.idx0⟩
  ty : elTyOfWord x.s.symbolType = .struct x.tid0
  tmpl : p.template? x.tid0 = some x.tm0
  index : (x.idx0 = [] ∧ x.li = 0) ∨ (x.idx0 ≠ [] ∧ linearIndex x.s.dims x.idx0 = some x.li)
  nonempty : x.hops ≠ []
  chain : ldr4_Chain p (.struct x.tid0) x.hops (.atomic x.c)
  levels : ∀ h ∈ x.hops, ldr2_Level h.level
  notNumber : ∀ h, x.hops.getLast? = some h → PyStr.isDigit h.m.name = false
  pathSize : ldr4_pathSize (ldr4_levels x.s.name x.idx0 x.hops) ≤ 500
  atom : atomicOfCode x.c = some (x.tname, x.t)
  notBits : x.t.isBits = none
  size : atomicSize x.c = some x.sz
  inside : x.li * x.tm0.size + ldr4_offset x.hops + x.sz ≤ x.s.mem.length
  get : cfg.tags.get? x.s.name = some x.info
  kind : x.info.core.tagType = .struct
  infoPath : ldr4_InfoPath x.info.members (x.hops.map (·.m.name)) x.leaf
  leafOf : ldr4_LeafOf x.leaf x.tname x.t
  canon : Canon x.t x.v
  enc : encode x.t x.v = .ok x.bytes

/-- the request string, all names and indexes as written -/
def ldwx_Member.tag (x : ldwx_Member) : Name := ldr4_pathStr x.s.name x.idx0 x.hops

/-- the byte offset of the leaf inside the tag's memory -/
def ldwx_Member.off (x : ldwx_Member) : Nat := x.li * x.tm0.size + ldr4_offset x.hops

def ldwx_Member.it (cfg : Cfg) (x : ldwx_Member) : ldwx_It :=
  { tag := x.tag, utag := x.tag, n := 1, info := x.leaf, v := x.v, path := ldwn_pathOf cfg x.tag x.leaf, value := x.bytes }

def ldwx_Member.beh (x : ldwx_Member) : ldwx_Beh := .good x.s.inst x.off x.bytes

def ldwx_Member.out (x : ldwx_Member) : LTag := { tag := x.tag, value := x.v, type := some x.tname, error := none }

theorem ldwx_member_facts (cfg : Cfg) (p : Project) (x : ldwx_Member)
    (hbytes : ∀ s' ∈ p.controller, ∀ ch ∈ s'.name, ch < 256) (h : ldwx_MemberOk cfg p x) :
    ldwx_Facts cfg p (x.it cfg) x.beh x.out ∧ x.bytes.length = x.sz := by
  obtain ⟨haty, hentry, hndw, hpos, hle8⟩ := ldr_atomic_table x.c x.sz x.tname x.t h.atom h.notBits h.size
  have hbl : x.bytes.length = x.sz := ldw_encode_length x.c x.sz x.t x.v x.bytes haty h.notBits h.size h.canon h.enc
  have hin := h.inside
  have hmem : x.s.mem ≠ [] := by
    intro he; rw [he, List.length_nil] at hin; omega
  obtain ⟨hparse, path, hpathOk, hpl, hden, hr, hav⟩ := ldwx_path_core cfg p x.s x.tid0 x.tm0 x.idx0 x.li x.hops (.atomic x.c)
    x.info x.leaf true h.mem hbytes h.uniqN h.level0 h.ty h.tmpl hmem h.index h.nonempty h.chain h.levels h.notNumber h.pathSize
    h.get h.kind h.infoPath (by rw [h.leafOf.typeName]; exact hndw) h.leafOf.instanceId
  have hpo : ldwn_pathOf cfg x.tag x.leaf = path := ldwn_pathOf_ok cfg _ _ path hpathOk
  have hpt : packedTypeOf x.leaf = le 2 x.c := ldw_packedType x.leaf x.tname x.c x.sz h.leafOf.struct h.leafOf.typeName hentry
  refine ⟨⟨?_, ?_, ?_, by show 1 ≤ 65535; omega, ?_, ?_, ?_⟩, hbl⟩
  · intro rid
    exact hparse rid
  · intro rid
    exact ldwx_leaf_encodeValue (ldwx_parsedOf rid (x.it cfg)) x.leaf x.c x.sz x.tname x.t x.bytes h.leafOf h.atom h.notBits
      h.size rfl rfl h.canon h.enc
  · show requestPathOf cfg x.tag x.leaf = .ok (ldwn_pathOf cfg x.tag x.leaf)
    rw [hpo]; exact hpathOk
  · exact ⟨_, by show Denotes (ldwn_pathOf cfg x.tag x.leaf) _; rw [hpo]; exact hden⟩
  · show ldwx_BehOk p (Cl.writeMsg (ldwn_pathOf cfg x.tag x.leaf) (packedTypeOf x.leaf) 1 x.bytes)
      (.good x.s.inst x.off x.bytes)
    rw [hpo, hpt]
    exact ⟨path, _, ldwx_locPath x.s x.tm0 x.li x.hops (.atomic x.c), x.s, 1, x.sz, rfl, hden, hr, rfl, rfl, rfl,
      by intro b; simp [ldwx_locPath], Nat.le_refl 1, hav, by omega, h.mem, rfl, h.uniqI, h.size, by omega,
      by unfold ldwx_Member.off; omega⟩
  · show ({ tag := x.tag, value := x.v, type := some (ldr2_typeStr x.leaf.core.dataTypeName 1), error := ldwn_errOf {} } : LTag) = _
    rw [ldw2_typeStr_one, h.leafOf.typeName]
    rfl

/-! ### a whole structure tag -/

/-- `(name, value)` writes the whole controller-scope structure tag `s` (definition `tm` = template `tid`): the entry
    `info` of the tag database with its `data_type` dict `si` and `type_class` `ty`, the caller's value and the bytes the
    `type_class` encodes it to -/
structure ldwx_Whole where
  s : Symbol
  tid : Nat
  tm : Template
  info : TagInfo
  si : StructInfo
  ty : Ty
  v : PyVal
  bytes : Bytes

/-- the hypotheses of `write_struct_e2e` / `write_string_e2e` about one request -/
structure ldwx_WholeOk (cfg : Cfg) (p : Project) (x : ldwx_Whole) : Prop where
  mem : x.s ∈ p.controller
  uniqN : ∀ s' ∈ p.controller, s'.name = x.s.name → s' = x.s
  uniqI : ∀ s' ∈ p.controller, s'.inst = x.s.inst → s' = x.s
  ident : PlainIdent x.s.name
  inst32 : x.s.inst < 2 ^ 32
  ty : elTyOfWord x.s.symbolType = .struct x.tid
  tmpl : p.template? x.tid = some x.tm
  len : x.s.mem.length = x.tm.size
  pos : 0 < x.tm.size
  get : cfg.tags.get? x.s.name = some x.info
  structOf : ldr3_StructOf x.info x.si x.ty x.s.inst
  notDword : x.si.name ≠ nm "DWORD"
  handle : x.si.handle = x.tm.handle
  notBytes : ∀ b, x.v ≠ .bytes b
  notArr : ∀ n t', x.ty ≠ .arr (.fixed n) t'
  enc : encode x.ty x.v = .ok x.bytes
  blen : x.bytes.length = x.tm.size

def ldwx_Whole.it (cfg : Cfg) (x : ldwx_Whole) : ldwx_It :=
  { tag := x.s.name, utag := x.s.name, n := 1, info := x.info, v := x.v, path := ldwn_pathOf cfg x.s.name x.info,
    value := x.bytes }

def ldwx_Whole.beh (x : ldwx_Whole) : ldwx_Beh := .good x.s.inst 0 x.bytes

def ldwx_Whole.out (x : ldwx_Whole) : LTag := { tag := x.s.name, value := x.v, type := some x.si.name, error := none }

theorem ldwx_whole_facts (cfg : Cfg) (p : Project) (x : ldwx_Whole)
    (hbytes : ∀ s' ∈ p.controller, ∀ ch ∈ s'.name, ch < 256) (h : ldwx_WholeOk cfg p x) :
    ldwx_Facts cfg p (x.it cfg) x.beh x.out := by
  have hnd' : isDword x.info = false := by simp [isDword, h.structOf.kind]
  have hlen := h.len
  have hpos := h.pos
  have hmem : x.s.mem ≠ [] := by
    intro he; rw [he, List.length_nil] at hlen; omega
  obtain ⟨path, hpath, hpl, hden⟩ := ldr_requestPath cfg x.s.name x.info x.s.inst h.ident h.structOf.instanceId h.inst32
  have hpo : ldwn_pathOf cfg x.s.name x.info = path := ldwn_pathOf_ok cfg _ _ path hpath
  have hpt : packedTypeOf x.info = [0xA0, 0x02] ++ le 2 x.tm.handle := by
    rw [ldw3_packedType_struct x.info x.si h.structOf.struct, h.handle]
  have hr := ldr3_resolve_struct p x.s x.tid x.tm cfg.useInstanceIds h.ident h.mem hbytes h.uniqN h.uniqI h.ty h.tmpl hmem
  have hel : p.elSize (ldr3_locStruct x.s x.tid).ty = some x.tm.size := by simp [ldr3_locStruct, Project.elSize, h.tmpl]
  have htb : typeBytes p (ldr3_locStruct x.s x.tid).ty = packedTypeOf x.info := by
    rw [hpt]; exact ldw3_typeBytes_struct p x.tid x.tm h.tmpl
  refine ⟨?_, ?_, ?_, by show 1 ≤ 65535; omega, ?_, ?_, ?_⟩
  · intro rid
    show parseTagRequest cfg.tags true rid x.s.name = _
    rw [ldr_parse_plain cfg.tags true rid x.s.name x.info h.ident h.get hnd']
    rfl
  · intro rid
    exact ldw3_encodeValue (ldwx_parsedOf rid (x.it cfg)) x.info x.ty x.bytes h.notBytes
      (by rw [h.structOf.typeName]; exact h.notDword) h.structOf.ty h.notArr h.enc
  · show requestPathOf cfg x.s.name x.info = .ok (ldwn_pathOf cfg x.s.name x.info)
    rw [hpo]; exact hpath
  · exact ⟨_, by show Denotes (ldwn_pathOf cfg x.s.name x.info) _; rw [hpo]; exact hden⟩
  · show ldwx_BehOk p (Cl.writeMsg (ldwn_pathOf cfg x.s.name x.info) (packedTypeOf x.info) 1 x.bytes)
      (.good x.s.inst 0 x.bytes)
    rw [hpo, ← htb]
    exact ⟨path, _, ldr3_locStruct x.s x.tid, x.s, 1, x.tm.size, rfl, hden, hr, rfl, rfl, rfl,
      by intro b; simp [ldr3_locStruct], Nat.le_refl 1, ldr_dimsProduct_pos x.s.dims, by omega, h.mem, rfl, h.uniqI, hel,
      by rw [h.blen]; omega, by omega⟩
  · show ({ tag := x.s.name, value := x.v, type := some (ldr2_typeStr x.info.core.dataTypeName 1), error := ldwn_errOf {} } : LTag) = _
    rw [ldw2_typeStr_one, h.structOf.typeName]
    rfl

/-- `(name, "text")` writes the string tag `s` (a LEN/DATA structure recognised as a string type of capacity `cap`) -/
structure ldwx_Str where
  s : Symbol
  tid : Nat
  tm : Template
  info : TagInfo
  si : StructInfo
  cap : Nat
  cs : Name

/-- the hypotheses of `write_string_e2e` about one request -/
structure ldwx_StrOk (cfg : Cfg) (p : Project) (x : ldwx_Str) : Prop where
  mem : x.s ∈ p.controller
  uniqN : ∀ s' ∈ p.controller, s'.name = x.s.name → s' = x.s
  uniqI : ∀ s' ∈ p.controller, s'.inst = x.s.inst → s' = x.s
  ident : PlainIdent x.s.name
  inst32 : x.s.inst < 2 ^ 32
  ty : elTyOfWord x.s.symbolType = .struct x.tid
  tmpl : p.template? x.tid = some x.tm
  len : x.s.mem.length = x.tm.size
  size : x.tm.size = 4 + x.cap
  cap1 : 1 ≤ x.cap
  cap32 : x.cap < 2 ^ 32
  get : cfg.tags.get? x.s.name = some x.info
  structOf : ldr3_StructOf x.info x.si (.fixedStr x.cap .udint) x.s.inst
  notDword : x.si.name ≠ nm "DWORD"
  handle : x.si.handle = x.tm.handle
  chars : ∀ ch ∈ x.cs.take x.cap, ch < 256

def ldwx_Str.whole (x : ldwx_Str) : ldwx_Whole :=
  { s := x.s, tid := x.tid, tm := x.tm, info := x.info, si := x.si, ty := .fixedStr x.cap .udint, v := .str x.cs,
    bytes := ldw3_strBytes x.cap x.cs }

theorem ldwx_str_whole (cfg : Cfg) (p : Project) (x : ldwx_Str) (h : ldwx_StrOk cfg p x) : ldwx_WholeOk cfg p x.whole := by
  obtain ⟨henc, hbl⟩ := ldw3_encode_fixedStr x.cap x.cs h.cap32 h.chars
  have hsz := h.size
  exact ⟨h.mem, h.uniqN, h.uniqI, h.ident, h.inst32, h.ty, h.tmpl, h.len, by show 0 < x.tm.size; omega, h.get, h.structOf,
    h.notDword, h.handle, ldw3_str_not_bytes x.cs, by intro n t'; simp [ldwx_Str.whole], henc,
    by show (ldw3_strBytes x.cap x.cs).length = x.tm.size; omega⟩

/-- `(name, {member: value, …})` writes the whole structure tag `s` with a dict that the `StructTag` `type_class` of the
    tag encodes to `bytes` -/
structure ldwx_Struct where
  s : Symbol
  tid : Nat
  tm : Template
  info : TagInfo
  si : StructInfo
  ms : TMembers
  bits : List (Name × Nat × Nat)
  priv : List Name
  size : Nat
  kvs : List (Name × PyVal)
  bytes : Bytes

/-- the hypotheses of `write_struct_e2e` about one request (for a dict over a well-formed flat layout `enc` and `blen`
    follow from `structTag_roundtrip`, see `write_struct_e2e_dict`) -/
structure ldwx_StructOk (cfg : Cfg) (p : Project) (x : ldwx_Struct) : Prop where
  mem : x.s ∈ p.controller
  uniqN : ∀ s' ∈ p.controller, s'.name = x.s.name → s' = x.s
  uniqI : ∀ s' ∈ p.controller, s'.inst = x.s.inst → s' = x.s
  ident : PlainIdent x.s.name
  inst32 : x.s.inst < 2 ^ 32
  ty : elTyOfWord x.s.symbolType = .struct x.tid
  tmpl : p.template? x.tid = some x.tm
  len : x.s.mem.length = x.tm.size
  pos : 0 < x.tm.size
  get : cfg.tags.get? x.s.name = some x.info
  structOf : ldr3_StructOf x.info x.si (.structTag x.ms x.bits x.priv x.size) x.s.inst
  notDword : x.si.name ≠ nm "DWORD"
  handle : x.si.handle = x.tm.handle
  enc : encode (.structTag x.ms x.bits x.priv x.size) (.dict x.kvs) = .ok x.bytes
  blen : x.bytes.length = x.tm.size

def ldwx_Struct.whole (x : ldwx_Struct) : ldwx_Whole :=
  { s := x.s, tid := x.tid, tm := x.tm, info := x.info, si := x.si, ty := .structTag x.ms x.bits x.priv x.size,
    v := .dict x.kvs, bytes := x.bytes }

theorem ldwx_struct_whole (cfg : Cfg) (p : Project) (x : ldwx_Struct) (h : ldwx_StructOk cfg p x) :
    ldwx_WholeOk cfg p x.whole :=
  ⟨h.mem, h.uniqN, h.uniqI, h.ident, h.inst32, h.ty, h.tmpl, h.len, h.pos, h.get, h.structOf, h.notDword, h.handle,
    ldw3_dict_not_bytes x.kvs, by intro n t'; simp [ldwx_Struct.whole], h.enc, h.blen⟩

/-! ### the items of a mixed call -/

/-- one request of a mixed call -/
inductive ldwx_Item where
  | scalar (x : ldwn_Scalar)     -- `(name, value)`: a whole scalar tag of an elementary type
  | elem (x : ldwx_Elem)         -- `(name[i], value)`: one element of an array
  | slice (x : ldwx_Slice)       -- `(name[i]{n}, [values])`: `n` elements of an array
  | member (x : ldwx_Member)     -- `(tag[i].m1[j]. … .leaf, value)`: an elementary member at any depth
  | str (x : ldwx_Str)           -- `(name, "text")`: a string tag
  | struct (x : ldwx_Struct)     -- `(name, {…})`: a whole structure tag
  | oob (x : ldwn_Oob)           -- `(name[i], value)` with `i` BEYOND the array: refused by the controller

def ldwx_ItemOk (cfg : Cfg) (p : Project) : ldwx_Item → Prop
  | .scalar x => ldwn_ScalarOk cfg p x
  | .elem x => ldwx_ElemOk cfg p x
  | .slice x => ldwx_SliceOk cfg p x
  | .member x => ldwx_MemberOk cfg p x
  | .str x => ldwx_StrOk cfg p x
  | .struct x => ldwx_StructOk cfg p x
  | .oob x => ldwn_OobOk cfg p x

/-- the request as the builder sees it -/
def ldwx_Item.it (cfg : Cfg) : ldwx_Item → ldwx_It
  | .scalar x => ldwx_liftIt ((ldwn_Req.scalar x).item cfg)
  | .elem x => x.it cfg
  | .slice x => x.it cfg
  | .member x => x.it cfg
  | .str x => x.whole.it cfg
  | .struct x => x.whole.it cfg
  | .oob x => ldwx_liftIt ((ldwn_Req.oob x).item cfg)

/-- the `(tag string, value)` pair handed to `write` -/
def ldwx_Item.request (cfg : Cfg) (x : ldwx_Item) : Name × PyVal := ((x.it cfg).tag, (x.it cfg).v)

/-- what the controller does with the request -/
def ldwx_Item.beh : ldwx_Item → ldwx_Beh
  | .scalar x => ldwx_liftBeh (ldwn_Req.scalar x).beh
  | .elem x => x.beh
  | .slice x => x.beh
  | .member x => x.beh
  | .str x => x.whole.beh
  | .struct x => x.whole.beh
  | .oob x => ldwx_liftBeh (ldwn_Req.oob x).beh

/-- the Tag `write` returns for the request -/
def ldwx_Item.out : ldwx_Item → LTag
  | .scalar x => (ldwn_Req.scalar x).result
  | .elem x => x.out
  | .slice x => x.out
  | .member x => x.out
  | .str x => x.whole.out
  | .struct x => x.whole.out
  | .oob x => (ldwn_Req.oob x).result

/-- the driver's accounting of the request: `len(request.message)` of its Write Tag packet -/
def ldwx_Item.acct (cfg : Cfg) (x : ldwx_Item) : Nat := (x.it cfg).wlen

theorem ldwx_item_facts (cfg : Cfg) (p : Project) (x : ldwx_Item)
    (hbytes : ∀ s' ∈ p.controller, ∀ ch ∈ s'.name, ch < 256) (h : ldwx_ItemOk cfg p x) :
    ldwx_Facts cfg p (x.it cfg) x.beh x.out := by
  cases x with
  | scalar x => exact ldwx_facts_of_ldwn cfg p (.scalar x) (ldwn_scalar_facts cfg p x hbytes h).1
  | elem x => exact (ldwx_elem_facts cfg p x hbytes h).1
  | slice x => exact (ldwx_slice_facts cfg p x hbytes h).1
  | member x => exact (ldwx_member_facts cfg p x hbytes h).1
  | str x => exact ldwx_whole_facts cfg p x.whole hbytes (ldwx_str_whole cfg p x h)
  | struct x => exact ldwx_whole_facts cfg p x.whole hbytes (ldwx_struct_whole cfg p x h)
  | oob x => exact ldwx_facts_of_ldwn cfg p (.oob x) (ldwn_oob_facts cfg p x hbytes h).1

/-! ### how large the accounted size of a request can be -/

/-- a bound on the driver's accounting of a request in terms of names, sizes and indexes only -/
def ldwx_Item.bound : ldwx_Item → Nat
  | .scalar x => x.s.name.length + 32
  | .elem x => x.s.name.length + x.sz + 26
  | .slice x => x.s.name.length + x.n * x.sz + 26
  | .member x => ldr4_pathSize (ldr4_levels x.s.name x.idx0 x.hops) + x.sz + 8
  | .str x => x.s.name.length + x.tm.size + 22
  | .struct x => x.s.name.length + x.tm.size + 22
  | .oob x => x.s.name.length + (decRender x.i).length + 34

theorem ldwx_wlen_eq (it : ldwx_It) : it.wlen = it.path.length + (packedTypeOf it.info).length + it.value.length + 5 := by
  unfold ldwx_It.wlen
  rw [ldx_writeMsg_length]
  omega

theorem ldwx_elem_acct_le (cfg : Cfg) (p : Project) (x : ldwx_Elem) (h : ldwx_ElemOk cfg p x) :
    (x.it cfg).wlen ≤ x.s.name.length + x.sz + 26 := by
  obtain ⟨haty, hentry, hndw, hpos, hle8⟩ := ldr_atomic_table x.c x.sz x.tname x.t h.atom h.notBits h.size
  have hbl : x.bytes.length = x.sz := ldw_encode_length x.c x.sz x.t x.v x.bytes haty h.notBits h.size h.canon h.enc
  have htag : x.tag = renderLevel ⟨x.s.name, [x.i]⟩ := (ldr2_renderLevel_elem x.s.name x.i).symm
  have hl : ldr2_Level ⟨x.s.name, [x.i]⟩ := ⟨h.ident, by simp, by simp [h.i32]⟩
  obtain ⟨pb, hpb, hplb, _⟩ := ldr2_requestPath cfg ⟨x.s.name, [x.i]⟩ x.info x.s.inst hl h.infoOf.instanceId h.inst32
  have hpo : ldwn_pathOf cfg x.tag x.info = pb := by
    rw [htag]; exact ldwn_pathOf_ok cfg _ _ pb hpb
  have hpt : packedTypeOf x.info = le 2 x.c := ldw_packedType x.info x.tname x.c x.sz h.infoOf.struct h.infoOf.typeName hentry
  rw [ldwx_wlen_eq]
  show (ldwn_pathOf cfg x.tag x.info).length + (packedTypeOf x.info).length + x.bytes.length + 5 ≤ _
  rw [hpo, hpt, le_length, hbl]
  have : pb.length ≤ x.s.name.length + 13 + 6 * 1 := hplb
  omega

theorem ldwx_slice_acct_le (cfg : Cfg) (p : Project) (x : ldwx_Slice)
    (hbytes : ∀ s' ∈ p.controller, ∀ ch ∈ s'.name, ch < 256) (h : ldwx_SliceOk cfg p x) :
    (x.it cfg).wlen ≤ x.s.name.length + x.n * x.sz + 26 := by
  obtain ⟨haty, hentry, hndw, hpos, hle8⟩ := ldr_atomic_table x.c x.sz x.tname x.t h.atom h.notBits h.size
  have hbl := (ldwx_slice_facts cfg p x hbytes h).2.1
  have hutag : x.utag = renderLevel ⟨x.s.name, [x.i]⟩ := (ldr2_renderLevel_elem x.s.name x.i).symm
  have hl : ldr2_Level ⟨x.s.name, [x.i]⟩ := ⟨h.ident, by simp, by simp [h.i32]⟩
  obtain ⟨pb, hpb, hplb, _⟩ := ldr2_requestPath cfg ⟨x.s.name, [x.i]⟩ x.info x.s.inst hl h.infoOf.instanceId h.inst32
  have hpo : ldwn_pathOf cfg x.utag x.info = pb := by
    rw [hutag]; exact ldwn_pathOf_ok cfg _ _ pb hpb
  have hpt : packedTypeOf x.info = le 2 x.c := ldw_packedType x.info x.tname x.c x.sz h.infoOf.struct h.infoOf.typeName hentry
  rw [ldwx_wlen_eq]
  show (ldwn_pathOf cfg x.utag x.info).length + (packedTypeOf x.info).length + x.bytes.length + 5 ≤ _
  rw [hpo, hpt, le_length, hbl]
  have : pb.length ≤ x.s.name.length + 13 + 6 * 1 := hplb
  omega

theorem ldwx_member_acct_le (cfg : Cfg) (p : Project) (x : ldwx_Member)
    (hbytes : ∀ s' ∈ p.controller, ∀ ch ∈ s'.name, ch < 256) (h : ldwx_MemberOk cfg p x) :
    (x.it cfg).wlen ≤ ldr4_pathSize (ldr4_levels x.s.name x.idx0 x.hops) + x.sz + 8 := by
  obtain ⟨haty, hentry, hndw, hpos, hle8⟩ := ldr_atomic_table x.c x.sz x.tname x.t h.atom h.notBits h.size
  have hbl : x.bytes.length = x.sz := ldw_encode_length x.c x.sz x.t x.v x.bytes haty h.notBits h.size h.canon h.enc
  have hin := h.inside
  have hmem : x.s.mem ≠ [] := by
    intro he; rw [he, List.length_nil] at hin; omega
  obtain ⟨_, path, hpathOk, hpl, _⟩ := ldwx_path_core cfg p x.s x.tid0 x.tm0 x.idx0 x.li x.hops (.atomic x.c)
    x.info x.leaf true h.mem hbytes h.uniqN h.level0 h.ty h.tmpl hmem h.index h.nonempty h.chain h.levels h.notNumber h.pathSize
    h.get h.kind h.infoPath (by rw [h.leafOf.typeName]; exact hndw) h.leafOf.instanceId
  have hpo : ldwn_pathOf cfg x.tag x.leaf = path := ldwn_pathOf_ok cfg _ _ path hpathOk
  have hpt : packedTypeOf x.leaf = le 2 x.c := ldw_packedType x.leaf x.tname x.c x.sz h.leafOf.struct h.leafOf.typeName hentry
  rw [ldwx_wlen_eq]
  show (ldwn_pathOf cfg x.tag x.leaf).length + (packedTypeOf x.leaf).length + x.bytes.length + 5 ≤ _
  rw [hpo, hpt, le_length, hbl]
  omega

theorem ldwx_whole_acct_le (cfg : Cfg) (p : Project) (x : ldwx_Whole) (h : ldwx_WholeOk cfg p x) :
    (x.it cfg).wlen ≤ x.s.name.length + x.tm.size + 22 := by
  obtain ⟨path, hpath, hpl, _⟩ := ldr_requestPath cfg x.s.name x.info x.s.inst h.ident h.structOf.instanceId h.inst32
  have hpo : ldwn_pathOf cfg x.s.name x.info = path := ldwn_pathOf_ok cfg _ _ path hpath
  have hpt : packedTypeOf x.info = [0xA0, 0x02] ++ le 2 x.tm.handle := by
    rw [ldw3_packedType_struct x.info x.si h.structOf.struct, h.handle]
  rw [ldwx_wlen_eq]
  show (ldwn_pathOf cfg x.s.name x.info).length + (packedTypeOf x.info).length + x.bytes.length + 5 ≤ _
  rw [hpo, hpt, h.blen]
  simp only [List.length_append, List.length_cons, List.length_nil, le_length]
  omega

/-- the accounted size `len(request.message)` of a request stays below `ldwx_Item.bound`: name length (path size) +
    value bytes + a constant -/
theorem ldwx_item_acct_le (cfg : Cfg) (p : Project) (x : ldwx_Item)
    (hbytes : ∀ s' ∈ p.controller, ∀ ch ∈ s'.name, ch < 256) (h : ldwx_ItemOk cfg p x) : x.acct cfg ≤ x.bound := by
  cases x with
  | scalar x => exact (ldwn_scalar_facts cfg p x hbytes h).1.acctLe
  | elem x => exact ldwx_elem_acct_le cfg p x h
  | slice x => exact ldwx_slice_acct_le cfg p x hbytes h
  | member x => exact ldwx_member_acct_le cfg p x hbytes h
  | str x => exact ldwx_whole_acct_le cfg p x.whole (ldwx_str_whole cfg p x h)
  | struct x => exact ldwx_whole_acct_le cfg p x.whole (ldwx_struct_whole cfg p x h)
  | oob x =>
    have := (ldwn_oob_facts cfg p x hbytes h).1.acctLe
    have hlenT : (ldwn_Req.oob x).tag.length = x.s.name.length + (decRender x.i).length + 2 := by
      show (x.s.name ++ [91] ++ decRender x.i ++ [93]).length = _
      simp only [List.length_append, List.length_cons, List.length_nil]; omega
    show (ldwn_Req.oob x).acct cfg ≤ x.s.name.length + (decRender x.i).length + 34
    omega

theorem ldwx_allOk (cfg : Cfg) (p : Project) (its : List ldwx_Item)
    (h : ∀ x ∈ its, ldwx_Facts cfg p (x.it cfg) x.beh x.out) :
    ldwx_AllOk p ((its.map (·.it cfg)).map ldwx_itMsg) (its.map (·.beh)) := by
  induction its with
  | nil => exact trivial
  | cons r rest ih =>
    exact ⟨(h r List.mem_cons_self).beh, ih (fun x hx => h x (List.mem_cons_of_mem _ hx))⟩

/-- the number of multi-service packets the driver forms for the requests -/
def ldwx_packets (cfg : Cfg) (d : Cli.Drv) (its : List ldwx_Item) : Nat :=
  (ldwn_groups d.connectionSize (ldwx_reqs d 0 (its.map (·.it cfg)))).length

/-- the number of packets is the number of groups the grouping kernel `K.plan` forms from the accounted sizes -/
theorem ldwx_packets_eq (cfg : Cfg) (d : Cli.Drv) (its : List ldwx_Item) :
    ldwx_packets cfg d its = (K.plan d.connectionSize (ldwn_planItems 0 (its.map (·.acct cfg)))).groups.length := by
  unfold ldwx_packets ldwn_groups
  rw [List.length_map, ldwx_reqs_planItems, List.map_map]
  rfl

/-- `write` of `n ≥ 2` requests of mixed shapes (`ldwx_Item`), in any order and with repetitions, on a healthy
    connected driver that is not a Micro800: one Tag per request in request order, `n` + (number of packets) sequence
    numbers, one frame per packet, and the controller's project afterwards is the old one with the accepted writes
    applied in request order, each exactly once (`ldwx_apply`); the refused requests leave no trace -/
theorem ldwx_write_mixed (cfg : Cfg) (w : Cli.World Ext) (sess : Nat) (cidb : Bytes) (conn : Conn) (st : LState)
    (its : List ldwx_Item)
    (hw : ldr_Healthy w sess cidb conn) (hlogix : w.net.target.ext.logix = some st) (hmicro : cfg.micro800 = false)
    (hn : 2 ≤ its.length)
    (hbytes : ∀ s' ∈ st.proj.controller, ∀ ch ∈ s'.name, ch < 256)
    (hok : ∀ x ∈ its, ldwx_ItemOk cfg st.proj x)
    (hfit1 : ∀ x ∈ its, x.acct cfg + K.OVERHEAD ≤ w.drv.connectionSize)
    (hCT : w.drv.connectionSize ≤ conn.size) (hCmax : w.drv.connectionSize ≤ 65400) :
    ∃ w' frms, write hookAll cfg w (its.map (·.request cfg)) = (w', .ok (its.map (·.out))) ∧
      w'.drv = ldwn_seqN (its.length + ldwx_packets cfg w.drv its) w.drv ∧
      w'.net.sent = w.net.sent ++ frms ∧ frms.length = ldwx_packets cfg w.drv its ∧
      w'.net.target.ext =
        { w.net.target.ext with logix := some { st with proj := ldwx_apply st.proj (its.map (·.beh)) } } ∧
      ldr_Healthy w' sess cidb { conn with lastSeq := (ldwn_last conn.lastSeq
        (drawSeqs (ldwn_seqN its.length w.drv)
          (ldwn_groups w.drv.connectionSize (ldwx_reqs w.drv 0 (its.map (·.it cfg))))).2) } := by
  have hfacts : ∀ x ∈ its, ldwx_Facts cfg st.proj (x.it cfg) x.beh x.out :=
    fun x hx => ldwx_item_facts cfg st.proj x hbytes (hok x hx)
  have hrun := ldwx_run st.proj (conn.size - 2) _ _ (ldwx_allOk cfg st.proj its hfacts) st (ldwn_Ev_refl st.proj)
  obtain ⟨w', frms, h1, h2, h3, h4, h5, h6⟩ := ldwx_write_general cfg w sess cidb conn st (its.map (·.it cfg)) hw hlogix
    hmicro (by rw [List.length_map]; exact hn)
    (by
      intro it hit
      obtain ⟨x, hx, rfl⟩ := List.mem_map.1 hit
      exact (hfacts x hx).parse)
    (by
      intro it hit
      obtain ⟨x, hx, rfl⟩ := List.mem_map.1 hit
      exact ⟨(hfacts x hx).enc, (hfacts x hx).path, (hfacts x hx).count, hfit1 x hx⟩)
    (by
      intro it hit
      obtain ⟨x, hx, rfl⟩ := List.mem_map.1 hit
      exact (hfacts x hx).den)
    hCT hCmax
    (by
      rw [hrun.1]
      intro a ha
      obtain ⟨b, hb, rfl⟩ := List.mem_map.1 ha
      obtain ⟨x, hx, rfl⟩ := List.mem_map.1 hb
      exact ldwx_Beh_ans_ok _ _ _ (hfacts x hx).beh)
  rw [hrun.1] at h1 h5
  rw [List.length_map] at h2 h6
  refine ⟨w', frms, ?_, h2, h3, h4, h5, h6⟩
  rw [List.map_map] at h1
  rw [show (fun x : ldwx_Item => x.request cfg) = ((fun it : ldwx_It => (it.tag, it.v)) ∘ fun x => x.it cfg) from rfl, h1]
  simp only
  rw [List.map_map, ldwn_zip_map, List.map_map]
  congr 2
  apply List.map_congr_left
  intro x hx
  exact (hfacts x hx).out

end Pycomm.Lgx.Drv
