/-
  LogixDriver.read, layers (c)+(d) for any tag address: a Read Tag request for `n` elements at a resolvable
  elementary location, sent on a healthy open connection to the reference controller behind the harness hook,
  comes back as the framed status-0 reply with the type code and the bytes the controller holds there.
-/
import PycommProofs.LDReadSend
namespace Pycomm.Lgx.Drv
open Pycomm Pycomm.Tgt Pycomm.Path Pycomm.Reply Pycomm.Encap Pycomm.Lgx Pycomm.Lgx.E2E

/-- the paths the message router hands to the Logix services of the harness hook: not an object of the base target
    (identity 0x01, connection manager 0x06, program name 0x64, wall clock 0x8B) and not the PCCC object 0x67 -/
def ldr2_LogixPath (path : List PSeg) : Prop :=
  (∃ nmb rest, path = .symbol nmb :: rest) ∨
  (∃ c i rest, path = .logical 0 c :: .logical 4 i :: rest ∧ c ≠ 0x06 ∧ c ≠ 0x01 ∧ c ≠ 0x64 ∧ c ≠ 0x8B ∧ c ≠ 0x67)

/-- (d, routing) a connected message whose path is a Logix path is answered by the Logix services -/
theorem ldr2_execMR_logix (t : Target Ext) (st : LState) (hst : t.ext.logix = some st) (sess cap : Nat)
    (msg : Bytes) (req : MRReq) (r : LState × MRReply)
    (hpm : parseMR msg = some req) (hpath : ldr2_LogixPath req.path)
    (hls : logixService st req (some cap) = some r) :
    execMR hookAll t sess (some cap) true false [] msg =
      ({ base := t.base.event (.mr true false req []), ext := { t.ext with logix := some r.1 } },
       encMRReply req.service r.2) := by
  unfold execMR
  rw [hpm]
  rcases hpath with ⟨nmb, rest, hp⟩ | ⟨c, i, rest, hp, h6, h1, h64, h8b, h67⟩
  · have hci : classInst req.path = none := by rw [hp]; rfl
    have hbo : ∀ b, baseObject b req = none := by intro b; unfold baseObject; rw [hci]
    have hhook : ∀ t' : Target Ext, t'.ext = t.ext → hookAll t' (some cap) req =
        some ({ t' with ext := { t'.ext with logix := some r.1 } }, r.2) := by
      intro t' he
      unfold hookAll
      rw [he, hp, hst]
      cases hslc : t.ext.slc <;> simp only [hls] <;> rw [← hp, hls]
    simp only [hci, hbo]
    rw [hhook { base := t.base.event (.mr true false req []), ext := t.ext } rfl]
  · have hci : classInst req.path = some (c, i, rest) := by rw [hp]; rfl
    have hbo : ∀ b, baseObject b req = none := by
      intro b; unfold baseObject; rw [hci]
      split
      · rename_i heq; simp only [Option.some.injEq, Prod.mk.injEq] at heq; omega
      · rename_i heq; simp only [Option.some.injEq, Prod.mk.injEq] at heq; omega
      · rename_i heq; simp only [Option.some.injEq, Prod.mk.injEq] at heq; omega
      · rfl
    have hhook : ∀ t' : Target Ext, t'.ext = t.ext → hookAll t' (some cap) req =
        some ({ t' with ext := { t'.ext with logix := some r.1 } }, r.2) := by
      intro t' he
      unfold hookAll
      rw [he, hp, hst]
      cases hslc : t.ext.slc
      · simp only []; rw [hls]
      · split
        · rename_i heq _; simp only [List.cons.injEq, PSeg.logical.injEq] at heq; omega
        · simp only []; rw [hls]
    simp only [hci, hbo]
    split
    · rename_i heq; simp only [Option.some.injEq, Prod.mk.injEq] at heq; omega
    · rw [hhook { base := t.base.event (.mr true false req []), ext := t.ext } rfl]

/-- (c)+(d) any connected message for the Logix services, sent on the healthy connection: one frame is written, the
    reply is the framed answer of the Logix services; only the Logix state of the target changes -/
theorem ldr2_sendUnit_logix (w : Cli.World Ext) (sess : Nat) (cidb : Bytes) (conn : Conn) (st : LState)
    (seq : Nat) (msg : Bytes) (req : MRReq) (r : LState × MRReply)
    (hw : ldr_Healthy w sess cidb conn) (hlogix : w.net.target.ext.logix = some st)
    (hpm : parseMR msg = some req) (hpath : ldr2_LogixPath req.path)
    (hls : logixService st req (some (conn.size - 2)) = some r)
    (hseq : seq < 65536) (hm : msg.length ≤ 65400) (hfit : msg.length + 2 ≤ conn.size) :
    ∃ w' frm, sendUnit hookAll w seq msg =
        (w', .ok (some (frame CMD_SEND_UNIT sess 0 w.drv.context (cpfReplyConnected conn.toId seq
          (encMRReply req.service r.2))))) ∧
      w'.drv = w.drv ∧ w'.net.sent = w.net.sent ++ [frm] ∧
      w'.net.target.ext = { w.net.target.ext with logix := some r.1 } ∧
      ldr_Healthy w' sess cidb { conn with lastSeq := some seq } := by
  obtain ⟨frm, _, hsend⟩ := Cli.ldr_sendUnit hookAll w sess cidb conn seq msg hw.ctx8 hw.opt0 hw.sock
    hw.session hw.session32 hw.sessionReg hw.cid hw.cid4 hw.conn hw.pend hw.faults hseq hm hfit
  have hmr := ldr2_execMR_logix
    { w.net.target with base := Cli.ldr_unitBase w.net.target.base sess (leVal cidb) seq conn } st hlogix sess
    (conn.size - 2) msg req r hpm hpath hls
  rw [hmr] at hsend
  refine ⟨_, frm, hsend, rfl, rfl, ?_, ?_⟩
  · simp only [Cli.ldr_unitAfter_ext]
  · refine ⟨hw.connected, hw.sock, hw.ctx8, hw.opt0, hw.session, hw.session32, ?_, hw.cid, hw.cid4, ?_, rfl, hw.faults⟩
    · simp only [Cli.ldr_unitAfter_sessions]
      show sess ∈ (Cli.ldr_unitBase w.net.target.base sess (leVal cidb) seq conn).sessions
      rw [Cli.ldr_unitBase_sessions]
      exact hw.sessionReg
    · simp only [Cli.ldr_unitAfter_conns]
      show ((Cli.ldr_unitBase w.net.target.base sess (leVal cidb) seq conn).conns).find? _ = _
      rw [Cli.ldr_unitBase_conns]
      exact Cli.ldr_find_seq _ _ _ _ _ hw.conn

/-- a path that resolves as a tag address is a Logix path -/
theorem ldr2_logixPath_of_resolve (p : Project) (segs : List PSeg) (loc : Loc) (hr : resolve p segs = .ok loc) :
    ldr2_LogixPath segs := by
  rcases tagPath_of_resolve _ _ _ hr with ⟨nmb, rest, e⟩ | ⟨i, rest, e⟩
  · exact Or.inl ⟨nmb, rest, e⟩
  · exact Or.inr ⟨0x6B, i, rest, e, by decide, by decide, by decide, by decide, by decide⟩

/-- (c)+(d) the driver's Read Tag request for `n` elements at a tag address that resolves to an elementary location,
    sent on the healthy connection: one frame is written, the reply is the framed status-0 answer carrying the type
    code and the bytes the controller holds there; the Logix state of the target only advances its schedule
    counter -/
theorem ldr2_sendUnit_read (w : Cli.World Ext) (sess : Nat) (cidb : Bytes) (conn : Conn) (st : LState)
    (path : Bytes) (segs : List PSeg) (loc : Loc) (c n : Nat) (bs : Bytes) (seq : Nat)
    (hw : ldr_Healthy w sess cidb conn) (hlogix : w.net.target.ext.logix = some st)
    (hp : Denotes path segs) (hr : resolve st.proj segs = .ok loc) (hty : loc.ty = .atomic c)
    (hn : 1 ≤ n ∧ n ≤ loc.avail ∧ n < 65536) (hb : readBytes st.proj loc n = some bs)
    (hseq : seq < 65536) (hpl : path.length ≤ 600) (hfit : path.length + 5 ≤ conn.size) (hfit2 : bs.length + 8 ≤ conn.size) :
    ∃ w' frm, sendUnit hookAll w seq (Cl.readMsg path n) =
        (w', .ok (some (frame CMD_SEND_UNIT sess 0 w.drv.context (cpfReplyConnected conn.toId seq
          (encMRReply 0x4C { status := 0, ext := [], data := le 2 c ++ bs }))))) ∧
      w'.drv = w.drv ∧ w'.net.sent = w.net.sent ++ [frm] ∧
      w'.net.target.ext = { w.net.target.ext with logix := some { st with ctr := st.ctr + 1 } } ∧
      ldr_Healthy w' sess cidb { conn with lastSeq := some seq } := by
  have hml : (Cl.readMsg path n).length = path.length + 3 := by
    simp [Cl.readMsg, le, RT.leBytes_length]
  have hpm : parseMR (Cl.readMsg path n) = some { service := 0x4C, path := segs, data := le 2 n } := by
    have := parseMR_msg 0x4C path (le 2 n) segs hp
    simpa [Cl.readMsg] using this
  have htb : typeBytes st.proj loc.ty = le 2 c := by rw [hty]; rfl
  have hrt := readTag_plain st loc n (conn.size - 2) bs hn hb
    (by rw [htb]; simp only [le, RT.leBytes_length]; omega)
  rw [htb] at hrt
  have hls : logixService st { service := 0x4C, path := segs, data := le 2 n } (some (conn.size - 2)) =
      some ({ st with ctr := st.ctr + 1 }, { status := 0, data := le 2 c ++ bs }) := by
    have h1 : single st { service := 0x4C, path := segs, data := le 2 n } (conn.size - 2) =
        some (tagAnswer st loc 0x4C (le 2 n) (conn.size - 2)) :=
      single_of_resolve st { service := 0x4C, path := segs, data := le 2 n } (conn.size - 2) loc hr (Or.inl rfl)
    have h3 : tagAnswer st loc 0x4C (le 2 n) (conn.size - 2) = Lgx.readTag st loc (le 2 n) (conn.size - 2) false := by
      unfold tagAnswer; rw [if_pos rfl]
    simp only [logixService, Option.getD_some]
    rw [if_neg (by simp), h1, h3, hrt]
  have hlp : ldr2_LogixPath segs := ldr2_logixPath_of_resolve _ _ _ hr
  have h1 : (Cl.readMsg path n).length ≤ 65400 := by omega
  have h2 : (Cl.readMsg path n).length + 2 ≤ conn.size := by omega
  exact ldr2_sendUnit_logix w sess cidb conn st seq (Cl.readMsg path n)
    { service := 0x4C, path := segs, data := le 2 n }
    ({ st with ctr := st.ctr + 1 }, { status := 0, data := le 2 c ++ bs }) hw hlogix hpm hlp hls hseq h1 h2

end Pycomm.Lgx.Drv
