/-
  Helper lemmas for C17 over histories with the uploads of the LogixDriver.  Part 4: one call of the alphabet `LCall`
  (open / close / generic_message / read / write) and the sequence invariant with budget — the single step of
  `lcl_run_seq` (LifecycleLogix.lean) with the budget after the call made explicit.
-/
import PycommProofs.LifecycleLogix
namespace Pycomm.Cli
open Pycomm.Tgt Pycomm.Encap Pycomm.Path

/-- the budget after a call: close() starts again at 0, an answered read / write (`lgood`) at its own budget,
    every other call adds its budget -/
def lnextB {σ} (hook : ObjHook σ) (B : Nat) (w : World σ) (c : LCall) : Nat :=
  match c with
  | .close => 0
  | c => if lgood hook w c then c.budget else B + c.budget

theorem lnextB_le {σ} (hook : ObjHook σ) (B : Nat) (w : World σ) (c : LCall) : lnextB hook B w c ≤ B + c.budget := by
  cases c with
  | close => exact Nat.zero_le _
  | «open» _ | generic _ | read _ _ | write _ _ =>
    simp only [lnextB]
    split <;> omega

theorem lcu_lcall_seq {σ} (hook : ObjHook σ) (hh : HookOk hook) (hn : HookQuietSeq hook) (F : List Fault) (P : Policy)
    (w : World σ) (B : Nat) (c : LCall)
    (hs : ∀ a, c = .generic a → a.connected = true → SizeOk a = true) (hl : c.LoopsLast)
    (hi : lci_Inv False w) (hc : lci_Conn w) (hnet : lci_Net F P w) (hsz : lcl_Sz w.drv) (hq : lcl_SeqB B w)
    (hb : F.length + (B + c.budget) < 65534) : lcl_SeqB (lnextB hook B w c) (lcallStep hook w c).1 := by
  have hF : w.net.faults = F := hnet.faults
  cases c with
  | «open» rnd =>
    have e : lnextB hook B w (.open rnd) = B := by simp [lnextB, lgood, LCall.budget]
    rw [e]
    have := lcl_openDrv_seq hook hh hn B w rnd hq
    simp only [lcallStep]
    generalize openDrv hook w rnd = r at this ⊢
    obtain ⟨w', o⟩ := r
    cases o <;> exact this
  | close =>
    have := lcl_closeDrv_seq hook hh hn F P B 0 w hnet hq (by rw [hF]; omega)
    show lcl_SeqB 0 _
    simp only [lcallStep]
    generalize closeDrv hook w = r at this ⊢
    obtain ⟨w', o⟩ := r
    cases o <;> exact this
  | generic a =>
    have e : lnextB hook B w (.generic a) = B := by simp [lnextB, lgood, LCall.budget]
    rw [e]
    have := lcl_generic_seq hook hh hn False B FUEL w a
      (fun hcn => lcs_size_of_check a (hs a rfl hcn)) hi hc hq
    simp only [lcallStep]
    generalize genericMessage hook FUEL w a = r at this ⊢
    obtain ⟨w', o⟩ := r
    cases o <;> exact this
  | read cfg tags =>
    have hw' : (lcallStep hook w (.read cfg tags)).1 = (Lgx.Drv.read hook cfg w tags).1 := by
      simp only [lcallStep]
      generalize Lgx.Drv.read hook cfg w tags = r
      obtain ⟨w', o⟩ := r
      cases o <;> rfl
    have hfl : w.net.faults.length + (B + 3 * tags.length + 1) < 65534 := by
      rw [hF]; simp only [LCall.budget] at hb; omega
    obtain ⟨k1, k2⟩ := Lgx.Drv.lcl_read_seq hook hh hn False B cfg w tags hi hc hq hsz hl hfl
    rw [hw']
    by_cases hgd : lgood hook w (.read cfg tags) = true
    · have e : lnextB hook B w (.read cfg tags) = 3 * tags.length + 1 := by simp [lnextB, hgd, LCall.budget]
      rw [e]
      simp only [lgood] at hgd
      cases hres : (Lgx.Drv.read hook cfg w tags).2 with
      | error e => rw [hres] at hgd; cases hgd
      | ok res => rw [hres] at hgd; exact k2 res hres hgd
    · have e : lnextB hook B w (.read cfg tags) = B + 3 * tags.length + 1 := by
        simp [lnextB, hgd, LCall.budget, Nat.add_assoc]
      rw [e]
      exact k1
  | write cfg tvs =>
    have hw' : (lcallStep hook w (.write cfg tvs)).1 = (Lgx.Drv.write hook cfg w tvs).1 := by
      simp only [lcallStep]
      generalize Lgx.Drv.write hook cfg w tvs = r
      obtain ⟨w', o⟩ := r
      cases o <;> rfl
    have hfl : w.net.faults.length + (B + 3 * tvs.length + 1) < 65534 := by
      rw [hF]; simp only [LCall.budget] at hb; omega
    obtain ⟨k1, k2⟩ := Lgx.Drv.lcl_write_seq hook hh hn False B cfg w tvs hi hc hq hsz hl hfl
    rw [hw']
    by_cases hgd : lgood hook w (.write cfg tvs) = true
    · have e : lnextB hook B w (.write cfg tvs) = 3 * tvs.length + 1 := by simp [lnextB, hgd, LCall.budget]
      rw [e]
      simp only [lgood] at hgd
      cases hres : (Lgx.Drv.write hook cfg w tvs).2 with
      | error e => rw [hres] at hgd; cases hgd
      | ok res => rw [hres] at hgd; exact k2 res hres hgd
    · have e : lnextB hook B w (.write cfg tvs) = B + 3 * tvs.length + 1 := by
        simp [lnextB, hgd, LCall.budget, Nat.add_assoc]
      rw [e]
      exact k1

end Pycomm.Cli
