/-
  SLCDriver.read / write at the driver level, helper layer 2: one `_read_tag` / `_write_tag` on a healthy connected
  world whose target holds a data table - through `CIPDriver.send` (LDReadTransport `ldr_sendUnit`), the target's
  encapsulation layer, message router and PCCC object (SlcDrvBasic), back to `request_status` and the Tag.
-/
import PycommProofs.SlcDrvBasic
import PycommProofs.LDReadSend
import PycommProofs.LDReadReply
namespace Pycomm.Slc.Drv
open Pycomm Pycomm.Tgt Pycomm.Path Pycomm.Encap Pycomm.Slc Pycomm.Lgx.Drv

/-- the `with_forward_open` decorator on a driver that is connected: nothing happens (any fuel) -/
theorem sdr_ensureFO_connected {σ} (hook : ObjHook σ) (fuel : Nat) (w : Cli.World σ)
    (h : w.drv.targetIsConnected = true) : Cli.ensureForwardOpen hook (fuel + 1) w = (w, .ok ()) := by
  unfold Cli.ensureForwardOpen
  simp only [h, if_true]

theorem sdr_FUEL : Cli.FUEL = 7 + 1 := rfl

/-- one Execute PCCC message through `SendUnitDataRequestPacket` + `CIPDriver.send` on the healthy connection: one
    sequence count is drawn, exactly one frame is written, the PCCC object serves the request on the data table, the
    raw reply is the target's framed answer; the world is healthy again -/
theorem sdr_sendPccc (w : Cli.World Ext) (sess : Nat) (cidb : Bytes) (conn : Conn) (tbl : Table) (data : Bytes)
    (hH : ldr_Healthy w sess cidb conn) (htbl : w.net.target.ext.slc = some tbl)
    (hfit : data.length + 8 ≤ conn.size) (hlen : data.length ≤ 65000) :
    ∃ w' frm, sendPccc hookAll w (sdr_mrHeader ++ data) =
        (w', .ok (sdr_rawReply sess w.drv.context conn.toId w.drv.nextSeq.1 (pcccService tbl data).2)) ∧
      w'.drv = w.drv.nextSeq.2 ∧ w'.net.sent = w.net.sent ++ [frm] ∧
      w'.net.target.ext = { w.net.target.ext with slc := some (pcccService tbl data).1 } ∧
      ldr_Healthy w' sess cidb { conn with lastSeq := some w.drv.nextSeq.1 } := by
  have hH1 : ldr_Healthy ({ w with drv := w.drv.nextSeq.2 } : Cli.World Ext) sess cidb conn :=
    ldr_Healthy_seq hH w.drv.nextSeq.2 rfl
  have hml : (sdr_mrHeader ++ data).length = data.length + 6 := by
    simp [sdr_mrHeader]
  obtain ⟨frm, _, hsend⟩ := Cli.ldr_sendUnit hookAll ({ w with drv := w.drv.nextSeq.2 } : Cli.World Ext) sess cidb conn
    w.drv.nextSeq.1 (sdr_mrHeader ++ data) hH1.ctx8 hH1.opt0 hH1.sock hH1.session hH1.session32 hH1.sessionReg hH1.cid
    hH1.cid4 hH1.conn hH1.pend hH1.faults (ldr_nextSeq_lt w.drv) (by omega) (by omega)
  have hmr := sdr_execMR
    { w.net.target with base := Cli.ldr_unitBase w.net.target.base sess (leVal cidb) w.drv.nextSeq.1 conn } tbl htbl sess
    (some (conn.size - 2)) data
  simp only at hsend
  rw [hmr] at hsend
  apply Exists.intro
  apply Exists.intro frm
  constructor
  · unfold sendPccc
    simp only [hsend]
    rfl
  refine ⟨rfl, rfl, ?_, ?_⟩
  · simp only [Cli.ldr_unitAfter_ext]
  · refine ⟨hH.connected, hH.sock, hH.ctx8, hH.opt0, hH.session, hH.session32, ?_, hH.cid, hH.cid4, ?_, rfl, hH.faults⟩
    · simp only [Cli.ldr_unitAfter_sessions]
      show sess ∈ (Cli.ldr_unitBase w.net.target.base sess (leVal cidb) w.drv.nextSeq.1 conn).sessions
      rw [Cli.ldr_unitBase_sessions]
      exact hH.sessionReg
    · simp only [Cli.ldr_unitAfter_conns]
      show ((Cli.ldr_unitBase w.net.target.base sess (leVal cidb) w.drv.nextSeq.1 conn).conns).find? _ = _
      rw [Cli.ldr_unitBase_conns]
      exact Cli.ldr_find_seq _ _ _ _ _ hH.conn

/-- a target state whose `slc` field is rewritten with the table it holds is the same state -/
theorem sdr_ext_same (e : Ext) (tbl : Table) (h : e.slc = some tbl) : ({ e with slc := some tbl } : Ext) = e := by
  cases e
  simp only at h
  subst h
  rfl

theorem sdr_rid_len (d : Cli.Drv) (hv : d.vid.length = 2) (hs : d.vsn.length = 4) :
    (sdr_rid d).length = 7 ∧ (sdr_rid d).head? = some 0x07 := by
  simp [sdr_rid, hv, hs]

/-- `slcReadMsg` for a transaction id the counter yields and address fields that encode -/
theorem sdr_readMsg (a : Addr) (tns : Nat) (fields : Bytes) (ht : tns < 65536)
    (hf : addressFields a (dataSize a.fileType * a.count) = .ok fields) :
    slcReadMsg a tns = .ok ([0x0F, 0x00] ++ [UInt8.ofNat (tns % 256), UInt8.ofNat (tns / 256)] ++ [0xA2] ++ fields) := by
  simp only [slcReadMsg, slx_packUint tns ht, hf, bind, Except.bind]

/-- the Tag `_read_tag` makes of the data table's answer to a typed read -/
def sdr_readTagOf (a : Addr) (r : Except Nat Bytes) : STag :=
  match r with
  | .ok data =>
      match parseReadReply a data with
      | .ok v => { tag := a.tag, value := v, type := a.fileType, error := none }
      | .error _ => { tag := a.tag, value := .none, type := a.fileType, error := some failedParse }
  | .error e =>
      { tag := a.tag, value := .none, type := a.fileType,
        error := some ((Status.lookupNat e Gen.pcccErrorCode).getD unknownStatus) }

/-- the data table never answers a typed read with a code other than 0x10 / 0x50 -/
theorem sdr_targetRead_codes (tbl : Table) (req : Bytes) (e : Nat) (h : targetRead tbl req = .error e) :
    e = 0x10 ∨ e = 0x50 := by
  unfold targetRead at h
  split at h
  · injection h with h; exact .inl h.symm
  · split at h
    · injection h with h; exact .inl h.symm
    · unfold typedRead at h
      split at h
      · injection h with h; exact .inl h.symm
      · split at h
        · injection h with h; exact .inl h.symm
        · split at h
          · injection h with h; exact .inl h.symm
          · dsimp only at h
            split at h
            · injection h with h; exact .inr h.symm
            · cases h

theorem sdr_targetWrite_codes (tbl : Table) (req : Bytes) (e : Nat) (h : targetWrite tbl req = .error e) :
    e = 0x10 ∨ e = 0x50 := by
  unfold targetWrite at h
  split at h
  · injection h with h; exact .inl h.symm
  · split at h
    · injection h with h; exact .inl h.symm
    · unfold maskedWrite at h
      split at h
      · injection h with h; exact .inl h.symm
      · split at h
        · injection h with h; exact .inl h.symm
        · split at h
          · injection h with h; exact .inl h.symm
          · dsimp only at h
            split at h
            · injection h with h; exact .inr h.symm
            · cases h

/-- the repaired driver judges the reply by its status words first (`if not response`): a reply the reference target
    frames with encapsulation status 0 around an Execute-PCCC reply with general status 0 is a valid response,
    whatever the PCCC STS byte and data inside -/
theorem sdr_replyRefused_ok (sess : Nat) (ctx : Bytes) (toId seq : Nat) (rid tns : Bytes) (sts : Nat) (data : Bytes)
    (hc : ctx.length = 8) :
    replyRefused (sdr_rawReply sess ctx toId seq (sdr_pcccReply rid tns sts data)) = .ok none := by
  have hv : Reply.validCip .connected (Reply.parseCip (some (sdr_rawReply sess ctx toId seq
      (sdr_pcccReply rid tns sts data))) .connected) = true :=
    (ldr_tagResp_ok 0x4B sess toId seq ctx (rid ++ [UInt8.ofNat (0x0F + 0x40), UInt8.ofNat sts] ++ tns ++ data) hc).1
  unfold replyRefused
  simp only [hv, if_true]

/-- `_read_tag` of an accepted address whose request can be built, on the healthy connection: the transaction id and
    the sequence count are the next two values of the counter, one frame is written, the Tag is what the data table's
    answer to `targetRead` of the address fields decodes to (value, or the PCCC error text), the target's state
    (data table included) is unchanged, the world is healthy again -/
theorem sdr_readTag (w : Cli.World Ext) (sess : Nat) (cidb : Bytes) (conn : Conn) (tbl : Table) (t : Name) (a : Addr)
    (fields : Bytes)
    (hH : ldr_Healthy w sess cidb conn) (htbl : w.net.target.ext.slc = some tbl)
    (hvid : w.drv.vid.length = 2) (hvsn : w.drv.vsn.length = 4)
    (hparse : parseTag t = some a) (hf : addressFields a (dataSize a.fileType * a.count) = .ok fields)
    (hfit : fields.length + 20 ≤ conn.size) (hlen : fields.length ≤ 60000) :
    ∃ w' frm, readTag hookAll w t = (w', .ok (sdr_readTagOf a (targetRead tbl fields))) ∧
      w'.drv = w.drv.nextSeq.2.nextSeq.2 ∧ w'.net.sent = w.net.sent ++ [frm] ∧
      w'.net.target.ext = w.net.target.ext ∧
      ldr_Healthy w' sess cidb { conn with lastSeq := some w.drv.nextSeq.2.nextSeq.1 } := by
  obtain ⟨hr7, hr0⟩ := sdr_rid_len w.drv hvid hvsn
  have hH1 : ldr_Healthy ({ w with drv := w.drv.nextSeq.2 } : Cli.World Ext) sess cidb conn :=
    ldr_Healthy_seq hH w.drv.nextSeq.2 rfl
  have htl : ([UInt8.ofNat (w.drv.nextSeq.1 % 256), UInt8.ofNat (w.drv.nextSeq.1 / 256)] : Bytes).length = 2 := rfl
  -- the message
  have hmsg : msgStart ({ w with drv := w.drv.nextSeq.2 } : Cli.World Ext).drv ++
      ([0x0F, 0x00] ++ [UInt8.ofNat (w.drv.nextSeq.1 % 256), UInt8.ofNat (w.drv.nextSeq.1 / 256)] ++ [0xA2] ++ fields) =
      sdr_mrHeader ++ (sdr_rid w.drv ++ [0x0F, 0x00] ++
        [UInt8.ofNat (w.drv.nextSeq.1 % 256), UInt8.ofNat (w.drv.nextSeq.1 / 256)] ++ [0xA2] ++ fields) := by
    rw [sdr_msgStart]
    simp only [sdr_rid, List.append_assoc]
    rfl
  obtain ⟨w', frm, hsend, hdrv, hsent, hext, hH'⟩ := sdr_sendPccc ({ w with drv := w.drv.nextSeq.2 } : Cli.World Ext)
    sess cidb conn tbl (sdr_rid w.drv ++ [0x0F, 0x00] ++
        [UInt8.ofNat (w.drv.nextSeq.1 % 256), UInt8.ofNat (w.drv.nextSeq.1 / 256)] ++ [0xA2] ++ fields) hH1 htbl
    (by simp only [List.length_append, hr7, List.length_cons, List.length_nil]; omega)
    (by simp only [List.length_append, hr7, List.length_cons, List.length_nil]; omega)
  rw [sdr_pccc_read tbl _ _ fields hr7 htl hr0] at hsend hext
  have hctx : ({ w with drv := w.drv.nextSeq.2 } : Cli.World Ext).drv.context = w.drv.context := rfl
  have hseq2 : ({ w with drv := w.drv.nextSeq.2 } : Cli.World Ext).drv.nextSeq.1 = w.drv.nextSeq.2.nextSeq.1 := rfl
  rw [hctx, hseq2] at hsend
  refine ⟨w', frm, ?_, hdrv, hsent, ?_, hH'⟩
  · unfold readTag
    simp only [hparse, sdr_readMsg a _ fields (ldr_nextSeq_lt w.drv) hf]
    rw [hmsg]
    simp only [hsend, sdr_replyRefused_ok _ _ _ _ _ _ _ _ hH.ctx8]
    congr 2
    -- the Tag made of the raw reply
    unfold readTagOf sdr_readTagOf
    cases hres : targetRead tbl fields with
    | ok data =>
      obtain ⟨h58, h61⟩ := sdr_reply_layout sess w.drv.context conn.toId w.drv.nextSeq.2.nextSeq.1 (sdr_rid w.drv)
        [UInt8.ofNat (w.drv.nextSeq.1 % 256), UInt8.ofNat (w.drv.nextSeq.1 / 256)] 0 data hH.ctx8 hr7 htl
      have hs := sdr_requestStatus_ok _ h58
      simp only [sdr_sts, sdr_data, hs, h61]
      cases parseReadReply a data <;> rfl
    | error e =>
      obtain ⟨h58, _⟩ := sdr_reply_layout sess w.drv.context conn.toId w.drv.nextSeq.2.nextSeq.1 (sdr_rid w.drv)
        [UInt8.ofNat (w.drv.nextSeq.1 % 256), UInt8.ofNat (w.drv.nextSeq.1 / 256)] e [] hH.ctx8 hr7 htl
      obtain ⟨hs, _⟩ := sdr_requestStatus_err _ e (sdr_targetRead_codes tbl fields e hres) h58
      simp only [sdr_sts, sdr_data, hs]
  · rw [hext]
    exact sdr_ext_same _ tbl htbl

/-! ### `_write_tag` -/

theorem sdr_writeValue (a : Addr) (v : PyVal) (hnb : ∀ b, v ≠ .bytes b) (hnd : ∀ kvs, v ≠ .dict kvs) :
    writeValue a v = writeableValue a v := by
  cases v <;> first | rfl | exact absurd rfl (hnb _) | exact absurd rfl (hnd _)

theorem sdr_writeMsg_eq (a : Addr) (tns : Nat) (v : PyVal) (hnb : ∀ b, v ≠ .bytes b) :
    writeMsg a tns v = slcWriteMsg a tns v := by
  cases v <;> first | rfl | exact absurd rfl (hnb _)

/-- `slcWriteMsg` for a transaction id the counter yields, a value `writeable_value` accepts and address fields that
    encode -/
theorem sdr_writeMsg (a : Addr) (tns : Nat) (v : PyVal) (val fields : Bytes) (sz : Nat) (ht : tns < 65536)
    (hwv : writeableValue a v = .ok (val, sz)) (hf : writeAddressFields a (sz * a.count) = .ok fields) :
    slcWriteMsg a tns v =
      .ok ([0x0F, 0x00] ++ [UInt8.ofNat (tns % 256), UInt8.ofNat (tns / 256)] ++ [0xAB] ++ fields ++ val) := by
  simp only [slcWriteMsg, hwv, slx_packUint tns ht, hf]

/-- the Tag `_write_tag` makes of the data table's answer to a masked write: the value handed in is echoed -/
def sdr_writeTagOf (a : Addr) (v : PyVal) (r : Except Nat Table) : STag :=
  match r with
  | .ok _ => { tag := a.tag, value := v, type := a.fileType, error := none }
  | .error e =>
      { tag := a.tag, value := .none, type := a.fileType,
        error := some ((Status.lookupNat e Gen.pcccErrorCode).getD unknownStatus) }

/-- `_write_tag` of an accepted address and a value `writeable_value` accepts (not `bytes`, which are passed through
    raw), on the healthy connection: two counter values drawn (transaction id, sequence count), one frame written, the
    data table becomes what `targetWrite` of address fields ++ mask ++ data makes of it (unchanged when refused), the
    Tag echoes the value or carries the PCCC error text; the world is healthy again -/
theorem sdr_writeTag (w : Cli.World Ext) (sess : Nat) (cidb : Bytes) (conn : Conn) (tbl : Table) (t : Name) (a : Addr)
    (v : PyVal) (val fields : Bytes) (sz : Nat)
    (hH : ldr_Healthy w sess cidb conn) (htbl : w.net.target.ext.slc = some tbl)
    (hvid : w.drv.vid.length = 2) (hvsn : w.drv.vsn.length = 4)
    (hparse : parseTag t = some a) (hnb : ∀ b, v ≠ .bytes b) (hnd : ∀ kvs, v ≠ .dict kvs)
    (hwv : writeableValue a v = .ok (val, sz)) (hf : writeAddressFields a (sz * a.count) = .ok fields)
    (hfit : fields.length + val.length + 20 ≤ conn.size) (hlen : fields.length + val.length ≤ 60000) :
    ∃ w' frm, writeTag hookAll w t v = (w', .ok (sdr_writeTagOf a v (targetWrite tbl (fields ++ val)))) ∧
      w'.drv = w.drv.nextSeq.2.nextSeq.2 ∧ w'.net.sent = w.net.sent ++ [frm] ∧
      w'.net.target.ext = { w.net.target.ext with slc := some (sdr_tbl tbl (targetWrite tbl (fields ++ val))) } ∧
      ldr_Healthy w' sess cidb { conn with lastSeq := some w.drv.nextSeq.2.nextSeq.1 } := by
  obtain ⟨hr7, hr0⟩ := sdr_rid_len w.drv hvid hvsn
  have hH1 : ldr_Healthy ({ w with drv := w.drv.nextSeq.2 } : Cli.World Ext) sess cidb conn :=
    ldr_Healthy_seq hH w.drv.nextSeq.2 rfl
  have htl : ([UInt8.ofNat (w.drv.nextSeq.1 % 256), UInt8.ofNat (w.drv.nextSeq.1 / 256)] : Bytes).length = 2 := rfl
  have hmsg : msgStart ({ w with drv := w.drv.nextSeq.2 } : Cli.World Ext).drv ++
      ([0x0F, 0x00] ++ [UInt8.ofNat (w.drv.nextSeq.1 % 256), UInt8.ofNat (w.drv.nextSeq.1 / 256)] ++ [0xAB] ++ fields ++ val) =
      sdr_mrHeader ++ (sdr_rid w.drv ++ [0x0F, 0x00] ++
        [UInt8.ofNat (w.drv.nextSeq.1 % 256), UInt8.ofNat (w.drv.nextSeq.1 / 256)] ++ [0xAB] ++ (fields ++ val)) := by
    rw [sdr_msgStart]
    simp only [sdr_rid, List.append_assoc]
    rfl
  obtain ⟨w', frm, hsend, hdrv, hsent, hext, hH'⟩ := sdr_sendPccc ({ w with drv := w.drv.nextSeq.2 } : Cli.World Ext)
    sess cidb conn tbl (sdr_rid w.drv ++ [0x0F, 0x00] ++
        [UInt8.ofNat (w.drv.nextSeq.1 % 256), UInt8.ofNat (w.drv.nextSeq.1 / 256)] ++ [0xAB] ++ (fields ++ val)) hH1 htbl
    (by simp only [List.length_append, hr7, List.length_cons, List.length_nil]; omega)
    (by simp only [List.length_append, hr7, List.length_cons, List.length_nil]; omega)
  rw [sdr_pccc_write tbl _ _ (fields ++ val) hr7 htl hr0] at hsend hext
  have hctx : ({ w with drv := w.drv.nextSeq.2 } : Cli.World Ext).drv.context = w.drv.context := rfl
  have hseq2 : ({ w with drv := w.drv.nextSeq.2 } : Cli.World Ext).drv.nextSeq.1 = w.drv.nextSeq.2.nextSeq.1 := rfl
  rw [hctx, hseq2] at hsend
  refine ⟨w', frm, ?_, hdrv, hsent, hext, hH'⟩
  unfold writeTag
  simp only [hparse, sdr_writeValue a v hnb hnd, hwv, sdr_writeMsg_eq a _ v hnb,
    sdr_writeMsg a _ v val fields sz (ldr_nextSeq_lt w.drv) hwv hf]
  rw [hmsg]
  simp only [hsend, sdr_replyRefused_ok _ _ _ _ _ _ _ _ hH.ctx8]
  congr 2
  unfold writeTagOf sdr_writeTagOf
  cases hres : targetWrite tbl (fields ++ val) with
  | ok tbl' =>
    obtain ⟨h58, _⟩ := sdr_reply_layout sess w.drv.context conn.toId w.drv.nextSeq.2.nextSeq.1 (sdr_rid w.drv)
      [UInt8.ofNat (w.drv.nextSeq.1 % 256), UInt8.ofNat (w.drv.nextSeq.1 / 256)] 0 [] hH.ctx8 hr7 htl
    have hs := sdr_requestStatus_ok _ h58
    simp only [sdr_sts, hs]
  | error e =>
    obtain ⟨h58, _⟩ := sdr_reply_layout sess w.drv.context conn.toId w.drv.nextSeq.2.nextSeq.1 (sdr_rid w.drv)
      [UInt8.ofNat (w.drv.nextSeq.1 % 256), UInt8.ofNat (w.drv.nextSeq.1 / 256)] e [] hH.ctx8 hr7 htl
    obtain ⟨hs, _⟩ := sdr_requestStatus_err _ e (sdr_targetWrite_codes tbl (fields ++ val) e hres) h58
    simp only [sdr_sts, hs]

end Pycomm.Slc.Drv
