/-
  C14 end to end, the three transports composed: `genericMessage` → frame → `handle` → `execMR` → object → reply frame →
  response class → Tag, as one equation each (connected, direct UCMM, Unconnected Send), for any object hook, any
  ids, any data type.
-/
import PycommProofs.GMe2eClient
namespace Pycomm.Cli
open Pycomm.Tgt Pycomm.Encap Pycomm.Path Pycomm.Reply Pycomm.EN Pycomm.EP

/-- the message-router request `generic_message` asks for -/
def gme_reqOf (a : GenArgs) (c i : Nat) (oa : Option Nat) : MRReq :=
  { service := a.service, path := gme_wantPath c i oa, data := a.data }

/-- the target's state in which the object is invoked by a connected request: the connected data item is booked
    (encapsulation event, sequence count recorded on the connection), the message router logs the request -/
def gme_connIn {σ} (t : Target σ) (sess cid seq : Nat) (conn : Conn) (req : MRReq) : Target σ :=
  { t with base := (ldr_unitBase t.base sess cid seq conn).event (.mr true false req []) }

/-- … and by an unconnected request (directly, or unwrapped from an Unconnected Send with its route) -/
def gme_rrIn {σ} (t : Target σ) (sess : Nat) (viaUcs : Bool) (req : MRReq) (route : Bytes) : Target σ :=
  { t with base := (t.base.event (.encap CMD_SEND_RR sess true)).event (.mr false viaUcs req route) }

/-- the driver ‖ target after one answered exchange -/
def gme_after {σ} (w : World σ) (d : Drv) (frm : Bytes) (t' : Target σ) : World σ :=
  { drv := d, net := { w.net with nSend := w.net.nSend + 1, nRecv := w.net.nRecv + 1, sent := w.net.sent ++ [frm],
                                  pending := [], target := t' } }

theorem gme_Healthy_seq {σ} {w : World σ} {sess : Nat} {cidb : Bytes} {conn : Conn} (h : gme_Healthy w sess cidb conn) :
    gme_Healthy ({ w with drv := w.drv.nextSeq.2 } : World σ) sess cidb conn :=
  { sock := h.sock, ctx8 := h.ctx8, opt0 := h.opt0, session := h.session, session32 := h.session32,
    sessionReg := h.sessionReg, pend := h.pend, faults := h.faults, connected := h.connected, cid := h.cid, cid4 := h.cid4,
    conn := h.conn }

/-- an exchange whose object leaves sessions alone keeps the session healthy -/
theorem gme_Session_after {σ} {w : World σ} {sess : Nat} (h : gme_Session w sess) (d : Drv) (frm : Bytes) (t' : Target σ)
    (hd : d = { w.drv with seqVal := d.seqVal }) (hs : sess ∈ t'.base.sessions) :
    gme_Session (gme_after w d frm t') sess := by
  rw [hd]
  exact { sock := h.sock, ctx8 := h.ctx8, opt0 := h.opt0, session := h.session, session32 := h.session32,
          sessionReg := hs, pend := rfl, faults := h.faults }

/-- a connected exchange whose object leaves sessions and connections alone keeps the connection healthy; the
    connection remembers the sequence count -/
theorem gme_Healthy_after {σ} {w : World σ} {sess : Nat} {cidb : Bytes} {conn : Conn} (h : gme_Healthy w sess cidb conn)
    (frm : Bytes) (seq : Nat) (req : MRReq) (t1 : Target σ) (mr : Bytes)
    (hs : t1.base.sessions = (gme_connIn w.net.target sess (leVal cidb) seq conn req).base.sessions)
    (hc : t1.base.conns = (gme_connIn w.net.target sess (leVal cidb) seq conn req).base.conns) :
    gme_Healthy (gme_after w w.drv.nextSeq.2 frm (ldr_unitAfter t1 conn mr)) sess cidb { conn with lastSeq := some seq } := by
  have hsess : sess ∈ (ldr_unitAfter t1 conn mr).base.sessions := by
    rw [ldr_unitAfter_sessions, hs]
    show sess ∈ (ldr_unitBase w.net.target.base sess (leVal cidb) seq conn).sessions
    rw [ldr_unitBase_sessions]
    exact h.sessionReg
  have hconn : (ldr_unitAfter t1 conn mr).base.conns.find? (fun c => c.cid == leVal cidb && c.session == sess) =
      some { conn with lastSeq := some seq } := by
    rw [ldr_unitAfter_conns, hc]
    show (ldr_unitBase w.net.target.base sess (leVal cidb) seq conn).conns.find? _ = _
    rw [ldr_unitBase_conns]
    exact ldr_find_seq _ _ _ _ _ h.conn
  have hd : w.drv.nextSeq.2 = { w.drv with seqVal := w.drv.nextSeq.2.seqVal } := by
    rw [(lcs_nextSeq w.drv).2]
  have := gme_Session_after h.togme_Session w.drv.nextSeq.2 frm (ldr_unitAfter t1 conn mr) hd hsess
  refine { togme_Session := this, connected := ?_, cid := ?_, cid4 := h.cid4, conn := hconn }
  · rw [(lcs_nextSeq w.drv).2]; exact h.connected
  · rw [(lcs_nextSeq w.drv).2]; exact h.cid

/-- the three dispatch results that leave sessions and connections alone -/
theorem gme_dispatch_keeps {σ} (hook : ObjHook σ) (t : Target σ) (session : Nat) (connSize : Option Nat)
    (req : MRReq) (hh : hook t connSize req = none) :
    (gme_dispatch hook t session connSize true req).1.base.sessions = t.base.sessions ∧
    (gme_dispatch hook t session connSize true req).1.base.conns = t.base.conns ∧
    (gme_dispatch hook t session connSize true req).1.ext = t.ext := by
  by_cases hcm : classInst req.path = some (0x06, 1, [])
  · rw [gme_dispatch_cm _ _ _ _ _ _ hcm]
    exact ⟨rfl, rfl, rfl⟩
  · rw [gme_dispatch_other _ _ _ _ _ _ hcm]
    cases hb : baseObject t.base req with
    | some br =>
      obtain ⟨b, r⟩ := br
      obtain ⟨h1, h2, _⟩ := lci_baseObject _ _ _ _ hb
      exact ⟨h1, h2, rfl⟩
    | none =>
      dsimp only
      rw [hh]
      exact ⟨rfl, rfl, rfl⟩

/-! ### connected -/

/-- `generic_message(connected=True)` on a healthy connection, whole stack, any object: exactly one frame — a
    SendUnitData on the driver's connection with the next sequence count, carrying the request; the target's message
    router parses it as exactly (service, class/instance(/attribute), data), logs it and lets the object answer
    (`gme_dispatch`); the Tag carries what the response class makes of the framed answer (`gme_TagOf`) -/
theorem gme_connected_core {σ} (hook : ObjHook σ) (w : World σ) (sess : Nat) (cidb : Bytes) (conn : Conn)
    (a : GenArgs) (c i : Nat) (oa : Option Nat)
    (hw : gme_Healthy w sess cidb conn) (hconn : a.connected = true) (hsvc : a.service < 256)
    (hcls : gme_Id a.cls c) (hinst : gme_Id a.inst i) (hattr : gme_AttrId a.attr oa)
    (hfit : a.data.length + 22 ≤ conn.size) (hbig : a.data.length ≤ 65000) :
    ∃ frm f rp value err,
      requestPath a.cls a.inst a.attr = .ok rp ∧
      parseFrame frm = some f ∧ f.command = CMD_SEND_UNIT ∧ f.session = sess ∧
      parseCpf f.body = some (.connected (leVal cidb) w.drv.nextSeq.1 ([UInt8.ofNat a.service] ++ rp ++ a.data)) ∧
      parseMR ([UInt8.ofNat a.service] ++ rp ++ a.data) = some (gme_reqOf a c i oa) ∧
      genericMessage hook FUEL w a =
        (gme_after w w.drv.nextSeq.2 frm
          (ldr_unitAfter
            (gme_dispatch hook (gme_connIn w.net.target sess (leVal cidb) w.drv.nextSeq.1 conn (gme_reqOf a c i oa))
              sess (some (conn.size - 2)) true (gme_reqOf a c i oa)).1 conn
            (encMRReply a.service
              (gme_dispatch hook (gme_connIn w.net.target sess (leVal cidb) w.drv.nextSeq.1 conn (gme_reqOf a c i oa))
                sess (some (conn.size - 2)) true (gme_reqOf a c i oa)).2)),
         .ok { name := a.name, value := value, error := err }) ∧
      gme_TagOf .connected a.service
        (gme_dispatch hook (gme_connIn w.net.target sess (leVal cidb) w.drv.nextSeq.1 conn (gme_reqOf a c i oa))
          sess (some (conn.size - 2)) true (gme_reqOf a c i oa)).2 a.dataType value err := by
  obtain ⟨rp, hrp, hrpl, hpm⟩ := gme_request_delivered a.service a.cls a.inst a.attr c i oa a.data hsvc hcls hinst hattr
  have hml : ([UInt8.ofNat a.service] ++ rp ++ a.data).length = 1 + rp.length + a.data.length := by simp; omega
  obtain ⟨frm, f, hb, hf, hcmd, hfs, hcpf, hsend⟩ := gme_sendUnit hook ({ w with drv := w.drv.nextSeq.2 } : World σ) sess cidb conn
    w.drv.nextSeq.1 ([UInt8.ofNat a.service] ++ rp ++ a.data) (gme_Healthy_seq hw) (gme_nextSeq_lt _) (by omega) (by omega)
  rw [gme_execMR_eq hook _ sess (some (conn.size - 2)) true false [] _ _ hpm] at hsend
  generalize hD : gme_dispatch hook
      { base := (ldr_unitBase w.net.target.base sess (leVal cidb) w.drv.nextSeq.1 conn).event
          (.mr true false { service := a.service, path := gme_wantPath c i oa, data := a.data } []),
        ext := w.net.target.ext } sess (some (conn.size - 2)) true
      { service := a.service, path := gme_wantPath c i oa, data := a.data } = D at hsend
  have hD' : gme_dispatch hook (gme_connIn w.net.target sess (leVal cidb) w.drv.nextSeq.1 conn (gme_reqOf a c i oa))
      sess (some (conn.size - 2)) true (gme_reqOf a c i oa) = D := hD
  rw [hD']
  have hgm := gme_gm_connected hook 6 w a hconn hw.connected rp hrp
  have hgm' : genericMessage hook FUEL w a = _ := hgm
  dsimp only at hsend
  rw [hsend] at hgm'
  obtain ⟨err, herr, htag⟩ := gme_reply .connected a.service sess conn.toId w.drv.nextSeq.1 w.drv.nextSeq.2.context D.2
    a.dataType hw.ctx8 _ rfl
  dsimp only at herr htag
  rw [gme_finish_ok a .connected _ _ err herr] at hgm'
  exact ⟨frm, f, rp, _, err, hrp, hf, hcmd, hfs, hcpf, hpm, hgm', htag⟩

/-! ### direct UCMM -/

/-- a generic request is an Unconnected Send only when it is service 0x52 to the connection manager -/
theorem gme_isUcs_none (msg : Bytes) (req : MRReq) (c i : Nat) (oa : Option Nat) (hp : parseMR msg = some req)
    (hpath : req.path = gme_wantPath c i oa) (hnot : ¬ (req.service = 0x52 ∧ c = 6 ∧ i = 1 ∧ oa = none)) :
    isUcs msg = none := by
  unfold isUcs
  rw [hp]
  dsimp only
  rw [if_neg]
  rintro ⟨h1, h2⟩
  apply hnot
  rw [hpath] at h2
  cases oa with
  | none =>
    simp only [gme_wantPath, List.append_nil, classInst, Option.some.injEq, Prod.mk.injEq, and_true] at h2
    exact ⟨h1, h2.1, h2.2, rfl⟩
  | some x =>
    simp [gme_wantPath, classInst] at h2

/-- `generic_message(connected=False, unconnected_send=False, route_path=False)` on a registered session, whole stack,
    any object: exactly one frame — a SendRRData carrying the request; the message router parses it as exactly
    (service, class/instance(/attribute), data), logs it as unconnected, not via Unconnected Send, no route -/
theorem gme_direct_core {σ} (hook : ObjHook σ) (w : World σ) (sess : Nat) (a : GenArgs) (c i : Nat) (oa : Option Nat)
    (hw : gme_Session w sess) (hconn : a.connected = false) (hu : a.unconnectedSend = false) (hroute : a.route = .off)
    (hsvc : a.service < 256) (hcls : gme_Id a.cls c) (hinst : gme_Id a.inst i) (hattr : gme_AttrId a.attr oa)
    (hnot : ¬ (a.service = 0x52 ∧ c = 6 ∧ i = 1 ∧ oa = none)) (hbig : a.data.length ≤ 65000) :
    ∃ frm f rp value err,
      requestPath a.cls a.inst a.attr = .ok rp ∧
      parseFrame frm = some f ∧ f.command = CMD_SEND_RR ∧ f.session = sess ∧
      parseCpf f.body = some (.unconnected ([UInt8.ofNat a.service] ++ rp ++ a.data)) ∧
      parseMR ([UInt8.ofNat a.service] ++ rp ++ a.data) = some (gme_reqOf a c i oa) ∧
      genericMessage hook FUEL w a =
        (gme_after w w.drv frm
          (gme_dispatch hook (gme_rrIn w.net.target sess false (gme_reqOf a c i oa) []) sess none false (gme_reqOf a c i oa)).1,
         .ok { name := a.name, value := value, error := err }) ∧
      gme_TagOf .unconnected a.service
        (gme_dispatch hook (gme_rrIn w.net.target sess false (gme_reqOf a c i oa) []) sess none false (gme_reqOf a c i oa)).2
        a.dataType value err := by
  obtain ⟨rp, hrp, hrpl, hpm⟩ := gme_request_delivered a.service a.cls a.inst a.attr c i oa a.data hsvc hcls hinst hattr
  have hml : ([UInt8.ofNat a.service] ++ rp ++ a.data).length = 1 + rp.length + a.data.length := by simp; omega
  have hucs := gme_isUcs_none _ _ c i oa hpm rfl hnot
  obtain ⟨frm, f, hb, hf, hcmd, hfs, hcpf, hsend⟩ := gme_sendRR_direct hook w sess ([UInt8.ofNat a.service] ++ rp ++ a.data) hw
    (by omega) hucs
  rw [gme_execMR_eq hook _ sess none false false [] _ _ hpm] at hsend
  generalize hD : gme_dispatch hook
      { base := (w.net.target.base.event (.encap CMD_SEND_RR sess true)).event
          (.mr false false { service := a.service, path := gme_wantPath c i oa, data := a.data } []),
        ext := w.net.target.ext } sess none false
      { service := a.service, path := gme_wantPath c i oa, data := a.data } = D at hsend
  have hD' : gme_dispatch hook (gme_rrIn w.net.target sess false (gme_reqOf a c i oa) []) sess none false (gme_reqOf a c i oa) = D := hD
  rw [hD']
  have hr : gme_route w.drv a.route = .ok [] := by rw [hroute]; rfl
  have hgm := gme_gm_direct hook 7 w a hconn hu rp [] hrp hr
  have hgm' : genericMessage hook FUEL w a = _ := hgm
  rw [List.append_nil] at hgm'
  dsimp only at hsend
  rw [hsend] at hgm'
  obtain ⟨err, herr, htag⟩ := gme_reply .unconnected a.service sess 0 0 w.drv.context D.2 a.dataType hw.ctx8 _ rfl
  dsimp only at herr htag
  rw [gme_finish_ok a .unconnected _ _ err herr] at hgm'
  exact ⟨frm, f, rp, _, err, hrp, hf, hcmd, hfs, hcpf, hpm, hgm', htag⟩

/-! ### Unconnected Send -/

/-- `generic_message(connected=False, unconnected_send=True)` with a route that encodes as (size in words, reserved 0,
    padded path `route`), whole stack, any object: exactly one frame — a SendRRData carrying an Unconnected Send to the
    connection manager whose embedded length, pad byte and route are right (the target's strict `unwrapUcs` accepts it
    and returns exactly the request and the route); the message router parses the embedded request as exactly
    (service, class/instance(/attribute), data) and logs it as unconnected, via Unconnected Send, with that route -/
theorem gme_ucs_core {σ} (hook : ObjHook σ) (w : World σ) (sess : Nat) (a : GenArgs) (c i : Nat) (oa : Option Nat)
    (route : Bytes) (segs : List PSeg)
    (hw : gme_Session w sess) (hconn : a.connected = false) (hu : a.unconnectedSend = true)
    (hroute : gme_route w.drv a.route = .ok ([UInt8.ofNat (route.length / 2), 0] ++ route))
    (hr2 : route.length % 2 = 0) (hrl : route.length ≤ 300) (hparse : parsePadded (route.length + 1) route = some segs)
    (hsvc : a.service < 256) (hcls : gme_Id a.cls c) (hinst : gme_Id a.inst i) (hattr : gme_AttrId a.attr oa)
    (hbig : a.data.length ≤ 65000) :
    ∃ frm f rp d value err,
      requestPath a.cls a.inst a.attr = .ok rp ∧
      parseFrame frm = some f ∧ f.command = CMD_SEND_RR ∧ f.session = sess ∧
      parseCpf f.body = some (.unconnected
        (ucsWrap ([UInt8.ofNat a.service] ++ rp ++ a.data) ([UInt8.ofNat (route.length / 2), 0] ++ route))) ∧
      isUcs (ucsWrap ([UInt8.ofNat a.service] ++ rp ++ a.data) ([UInt8.ofNat (route.length / 2), 0] ++ route)) = some d ∧
      unwrapUcs d = some ([UInt8.ofNat a.service] ++ rp ++ a.data, route) ∧
      parseMR ([UInt8.ofNat a.service] ++ rp ++ a.data) = some (gme_reqOf a c i oa) ∧
      genericMessage hook FUEL w a =
        (gme_after w w.drv frm
          (gme_dispatch hook (gme_rrIn w.net.target sess true (gme_reqOf a c i oa) route) sess none false (gme_reqOf a c i oa)).1,
         .ok { name := a.name, value := value, error := err }) ∧
      gme_TagOf .unconnected a.service
        (gme_dispatch hook (gme_rrIn w.net.target sess true (gme_reqOf a c i oa) route) sess none false (gme_reqOf a c i oa)).2
        a.dataType value err := by
  obtain ⟨rp, hrp, hrpl, hpm⟩ := gme_request_delivered a.service a.cls a.inst a.attr c i oa a.data hsvc hcls hinst hattr
  have hml : ([UInt8.ofNat a.service] ++ rp ++ a.data).length = 1 + rp.length + a.data.length := by simp; omega
  obtain ⟨hisu, hunw⟩ := ucs_unwrap ([UInt8.ofNat a.service] ++ rp ++ a.data) route (by omega) hr2 (by omega) segs hparse
  have hwl : (ucsWrap ([UInt8.ofNat a.service] ++ rp ++ a.data) ([UInt8.ofNat (route.length / 2), 0] ++ route)).length ≤ 65400 := by
    have hpad : (if ([UInt8.ofNat a.service] ++ rp ++ a.data).length % 2 == 1 then [(0 : UInt8)] else []).length ≤ 1 := by
      split <;> simp
    simp only [ucsWrap, List.length_append, RT.leBytes_length, List.length_cons, List.length_nil] at hpad ⊢
    omega
  obtain ⟨frm, f, hb, hf, hcmd, hfs, hcpf, hsend⟩ := gme_sendRR_ucs hook w sess _ _ _ route hw hwl hisu hunw
  rw [gme_execMR_eq hook _ sess none false true route _ _ hpm] at hsend
  generalize hD : gme_dispatch hook
      { base := (w.net.target.base.event (.encap CMD_SEND_RR sess true)).event
          (.mr false true { service := a.service, path := gme_wantPath c i oa, data := a.data } route),
        ext := w.net.target.ext } sess none false
      { service := a.service, path := gme_wantPath c i oa, data := a.data } = D at hsend
  have hD' : gme_dispatch hook (gme_rrIn w.net.target sess true (gme_reqOf a c i oa) route) sess none false (gme_reqOf a c i oa) = D := hD
  rw [hD']
  have hgm := gme_gm_ucs hook 7 w a hconn hu rp _ hrp hroute (by omega)
  have hgm' : genericMessage hook FUEL w a = _ := hgm
  dsimp only at hsend
  rw [hsend] at hgm'
  obtain ⟨err, herr, htag⟩ := gme_reply .unconnected a.service sess 0 0 w.drv.context D.2 a.dataType hw.ctx8 _ rfl
  dsimp only at herr htag
  rw [gme_finish_ok a .unconnected _ _ err herr] at hgm'
  exact ⟨frm, f, rp, _, _, err, hrp, hf, hcmd, hfs, hcpf, hisu, hunw, hpm, hgm', htag⟩

end Pycomm.Cli
