/-
  LogixDriver.write of SEVERAL bits of ONE integer tag in one call (`write(("t.3", True), ("t.5", False), …)`):
  `_write_build_multi_requests` merges the bit requests into ONE Read-Modify-Write packet whose masks are the
  combination of the requests in order, the result of that packet is fanned out to every bit request.
-/
import PycommProofs.LDWriteN6
import PycommProofs.LDWriteBit
import PycommProofs.LDWriteReply
namespace Pycomm.Lgx.Drv
open Pycomm Pycomm.Tgt Pycomm.Path Pycomm.Reply Pycomm.Encap Pycomm.Lgx Pycomm.Lgx.E2E

/-- the parsed bit-write request for bit `ds` (decimal digits) of tag `n` at position `rid` with the caller's value -/
def ldwn_bitParsedAt (rid : Nat) (n ds : Name) (info : TagInfo) (v : PyVal) : Parsed :=
  { requestId := rid, requestTag := ldw_bitTag n ds, userTag := ldw_bitTag n ds, plcTag := n,
    bit := some (PyStr.decVal ds : Int), elements := 1, info := some info, boolElements := none, value := v }

/-- the parsed requests of the bit writes `(digits, value)`, request ids `k, k + 1, …` -/
def ldwn_bitParsed (k : Nat) (n : Name) (info : TagInfo) : List (Name × PyVal) → List Parsed
  | [] => []
  | b :: rest => ldwn_bitParsedAt k n b.1 info b.2 :: ldwn_bitParsed (k + 1) n info rest

/-- the bit operations of the requests, in order -/
def ldwn_ops (bits : List (Name × PyVal)) : List (Nat × Bool) := bits.map fun b => (PyStr.decVal b.1, b.2.truthy)

theorem ldwn_bitParsed_length (n : Name) (info : TagInfo) (bits : List (Name × PyVal)) :
    ∀ k, (ldwn_bitParsed k n info bits).length = bits.length := by
  induction bits with
  | nil => intro k; rfl
  | cons b rest ih => intro k; simp [ldwn_bitParsed, ih]

/-- the Read-Modify-Write packet after the bit requests `bits` (ids from `k`) have been merged into `r` -/
def ldwn_rmwAfter (r : RmwReq) (k : Nat) : List (Name × PyVal) → RmwReq
  | [] => r
  | b :: rest =>
      ldwn_rmwAfter { r with masks := K.setBit r.masks (PyStr.decVal b.1) b.2.truthy, requestIds := r.requestIds ++ [k] }
        (k + 1) rest

theorem ldwn_rmwAfter_eq (bits : List (Name × PyVal)) : ∀ (r : RmwReq) (k : Nat),
    ldwn_rmwAfter r k bits =
      { r with masks := (ldwn_ops bits).foldl (fun m o => K.setBit m o.1 o.2) r.masks,
               requestIds := r.requestIds ++ List.range' k bits.length } := by
  induction bits with
  | nil => intro r k; simp [ldwn_rmwAfter, ldwn_ops]
  | cons b rest ih =>
    intro r k
    rw [ldwn_rmwAfter, ih]
    simp [ldwn_ops, List.range'_succ, List.append_assoc]

/-- (b) the first loop of `_write_build_multi_requests` over bit requests for the tag of the one Read-Modify-Write
    packet already present: they are merged into it, no sequence number is drawn -/
theorem ldwn_buildLive_bits (cfg : Cfg) (C : Nat) (n : Name) (info : TagInfo) (hnd : info.core.dataTypeName ≠ nm "DWORD")
    (bits : List (Name × PyVal)) :
    ∀ (d : Cli.Drv) (acc : WriteBuild) (r : RmwReq) (k : Nat), acc.rmws = [r] → r.tag = n → r.info = info →
      writeBuildLive cfg C d acc (ldwn_bitParsed k n info bits) = (d, .ok { acc with rmws := [ldwn_rmwAfter r k bits] }) := by
  have hdw : (info.core.dataTypeName == nm "DWORD") = false := by simpa using hnd
  induction bits with
  | nil =>
    intro d acc r k hr _ _
    simp only [ldwn_bitParsed, writeBuildLive, ldwn_rmwAfter]
    rw [← hr]
  | cons b rest ih =>
    intro d acc r k hr ht hi
    have hfind : acc.rmws.find? (·.tag == (ldwn_bitParsedAt k n b.1 info b.2).plcTag) = some r := by
      rw [hr]
      simp [ldwn_bitParsedAt, ht]
    have hstep : writeBuildLive cfg C d acc (ldwn_bitParsed k n info (b :: rest)) =
        writeBuildLive cfg C d
          { acc with rmws := [{ r with masks := K.setBit r.masks (PyStr.decVal b.1) b.2.truthy,
                                       requestIds := r.requestIds ++ [k] }] }
          (ldwn_bitParsed (k + 1) n info rest) := by
      have herr : (ldwn_bitParsedAt k n b.1 info b.2).error = none := rfl
      have hinf : (ldwn_bitParsedAt k n b.1 info b.2).info = some info := rfl
      have hbw : (ldwn_bitParsedAt k n b.1 info b.2).isBitWrite = true := rfl
      rw [ldwn_bitParsed, writeBuildLive]
      simp only [herr, hinf, hbw, if_true, hfind]
      congr 1
      rw [hr]
      simp only [List.map_cons, List.map_nil, ldwn_bitParsedAt, ht, beq_self_eq_true, if_true, RmwReq.setBit, hi, hdw,
        Bool.false_eq_true, if_false, Option.getD_some, Int.toNat_natCast]
    rw [hstep, ih d
      { acc with rmws := [{ r with masks := K.setBit r.masks (PyStr.decVal b.1) b.2.truthy,
                                   requestIds := r.requestIds ++ [k] }] }
      { r with masks := K.setBit r.masks (PyStr.decVal b.1) b.2.truthy, requestIds := r.requestIds ++ [k] }
      (k + 1) rfl ht hi]
    rfl

theorem ldwn_plan_nil (C : Nat) : K.plan C [] = { groups := [], fragmented := [] } := rfl

/-- (b) `_write_build_requests` for `n ≥ 2` bit requests on one non-DWORD elementary tag: ONE sequence number is drawn,
    the result is ONE Read-Modify-Write packet whose masks combine the requests in order and which serves all the
    request ids; no multi-service packet is formed -/
theorem ldwn_build_bits (cfg : Cfg) (d : Cli.Drv) (n : Name) (info : TagInfo) (bits : List (Name × PyVal)) (path : Bytes)
    (name : Name) (c sz : Nat) (hmicro : cfg.micro800 = false) (hlen : 2 ≤ bits.length)
    (hname : info.core.dataTypeName = name) (hnd : name ≠ nm "DWORD")
    (hentry : typeEntryOfName name = some (name, c, sz))
    (hpath : requestPathOf cfg n info = .ok path) :
    writeBuildRequests cfg d (ldwn_bitParsed 0 n info bits) =
      (d.nextSeq.2, .ok (ldwn_bitParsed 0 n info bits,
        [Request.rmw { seq := d.nextSeq.1, tag := n, info := info, rid := -1, path := path, maskSize := sz,
                       masks := K.applyOps (ldwn_ops bits), requestIds := List.range' 0 bits.length }])) := by
  cases bits with
  | nil => simp at hlen
  | cons b rest =>
    have hdw : (name == nm "DWORD") = false := by simpa using hnd
    unfold writeBuildRequests
    have hcond : ((ldwn_bitParsed 0 n info (b :: rest)).length ≠ 1 ∧ (!cfg.micro800) = true) := by
      rw [ldwn_bitParsed_length, hmicro]
      exact ⟨by simp only [List.length_cons] at hlen ⊢; omega, rfl⟩
    rw [if_pos hcond]
    have herr : (ldwn_bitParsedAt 0 n b.1 info b.2).error = none := rfl
    have hinf : (ldwn_bitParsedAt 0 n b.1 info b.2).info = some info := rfl
    have hbw : (ldwn_bitParsedAt 0 n b.1 info b.2).isBitWrite = true := rfl
    have hpath' : requestPathOf cfg (ldwn_bitParsedAt 0 n b.1 info b.2).plcTag info = .ok path := hpath
    have hfirst : writeBuildLive cfg d.connectionSize d { parsed := ldwn_bitParsed 0 n info (b :: rest) }
        (ldwn_bitParsed 0 n info (b :: rest)) =
        writeBuildLive cfg d.connectionSize d.nextSeq.2
          { parsed := ldwn_bitParsed 0 n info (b :: rest),
            rmws := [{ seq := d.nextSeq.1, tag := n, info := info, rid := -1, path := path, maskSize := sz,
                       masks := K.setBit K.initMasks (PyStr.decVal b.1) b.2.truthy, requestIds := [0] }] }
          (ldwn_bitParsed 1 n info rest) := by
      conv => lhs; arg 5; rw [ldwn_bitParsed]
      rw [writeBuildLive]
      simp only [herr, hinf, hbw, if_true, List.find?_nil, mkRmwReq, hpath', hname, hentry, List.length_nil, List.nil_append]
      congr 1
      simp only [RmwReq.setBit, hname, hdw, Bool.false_eq_true, if_false, ldwn_bitParsedAt, Option.getD_some,
        Int.toNat_natCast, List.nil_append]
      rfl
    rw [hfirst, ldwn_buildLive_bits cfg d.connectionSize n info (by rw [hname]; exact hnd) rest d.nextSeq.2 _ _ 1 rfl rfl rfl,
      ldwn_rmwAfter_eq]
    simp only [List.filter_nil, List.map_nil, ldwn_plan_nil, drawSeqs, List.nil_append, List.map_cons]
    congr 4

/-! ### the masks stay below 2^64 -/

theorem ldwn_setBit_lt (m : K.Masks) (b : Nat) (v : Bool) (hb : b < 64) (h : m.orM < 2 ^ 64 ∧ m.andM < 2 ^ 64) :
    (K.setBit m b v).orM < 2 ^ 64 ∧ (K.setBit m b v).andM < 2 ^ 64 := by
  have h1 : (1 <<< b : Nat) < 2 ^ 64 := by
    rw [Nat.one_shiftLeft]; exact Nat.pow_lt_pow_right (by omega) hb
  cases v
  · exact ⟨Nat.lt_of_le_of_lt Nat.and_le_left h.1, Nat.lt_of_le_of_lt Nat.and_le_left h.2⟩
  · exact ⟨Nat.or_lt_two_pow h.1 h1, Nat.or_lt_two_pow h.2 h1⟩

theorem ldwn_applyOps_lt (ops : List (Nat × Bool)) (hb : ∀ o ∈ ops, o.1 < 64) :
    (K.applyOps ops).orM < 2 ^ 64 ∧ (K.applyOps ops).andM < 2 ^ 64 := by
  unfold K.applyOps
  have hinit : K.initMasks.orM < 2 ^ 64 ∧ K.initMasks.andM < 2 ^ 64 := by decide
  generalize K.initMasks = m at hinit
  induction ops generalizing m with
  | nil => exact hinit
  | cons o rest ih =>
    rw [List.foldl_cons]
    exact ih (fun x hx => hb x (List.mem_cons_of_mem _ hx)) _ (ldwn_setBit_lt m o.1 o.2 (hb o List.mem_cons_self) hinit)

/-- the message of a Read-Modify-Write packet with in-range masks -/
theorem ldwn_rmwMessage (r : RmwReq) (hsz : r.maskSize ≤ 8) (hm : r.masks.orM < 2 ^ 64 ∧ r.masks.andM < 2 ^ 64) :
    rmwMessage r = .ok (Cl.rmwMsg r.path r.maskSize r.masks) := by
  have hp : packInt .uint (.int r.maskSize) = .ok (leBytes 2 (ofSigned 2 (r.maskSize : Int))) := by
    have : (0 : Int) ≤ (r.maskSize : Int) ∧ (r.maskSize : Int) ≤ 65535 := by omega
    simp [packInt, PyVal.asIndex, IntK.lo, IntK.hi, IntK.size, IntK.signed, this]
  unfold rmwMessage
  simp only [hp]
  rw [if_neg (by omega)]

/-! ### (f) the fan-out -/

theorem ldwn_fan_get (t : LTag) (ids : List Nat) : ∀ (rs : Results) (k : Int),
    (ids.foldl (fun acc (id : Nat) => acc.set (id : Int) t) rs).get? k =
      if k ∈ ids.map (fun id : Nat => (id : Int)) then some t else rs.get? k := by
  induction ids with
  | nil => intro rs k; simp
  | cons a rest ih =>
    intro rs k
    rw [List.foldl_cons, ih, ldwn_get_set]
    by_cases h1 : k ∈ rest.map (fun id : Nat => (id : Int))
    · simp [h1]
    · by_cases h2 : k = (a : Int)
      · simp [h2]
      · simp [h1, h2]

/-- (f) the result loop of `write` for an error-free bit request whose id holds an error-free Tag in the table -/
theorem ldwn_writeResult_bit (p : Parsed) (info : TagInfo) (t : LTag) (b : Int) (rs : Results)
    (herr : p.error = none) (hinfo : p.info = some info) (hbit : p.bit = some b) (hbe : p.boolElements = none)
    (hte : t.error = none) (hget : rs.get? p.requestId = some t) :
    writeResult p rs = { tag := p.userTag, value := p.value, type := some (nm "BOOL"), error := none } := by
  unfold writeResult
  simp only [herr, hinfo, hget, hbit, hbe, hte, Option.isSome_some, Option.isNone_none, Bool.and_self, if_true]

theorem ldwn_bit_results (n : Name) (info : TagInfo) (t : LTag) (hte : t.error = none) (rs : Results)
    (bits : List (Name × PyVal)) : ∀ k, (∀ j, k ≤ j → j < k + bits.length → rs.get? (j : Int) = some t) →
    (ldwn_bitParsed k n info bits).map (fun p => writeResult p rs) =
      bits.map fun b => { tag := ldw_bitTag n b.1, value := b.2, type := some (nm "BOOL"), error := none } := by
  induction bits with
  | nil => intro k _; rfl
  | cons b rest ih =>
    intro k h
    simp only [ldwn_bitParsed, List.map_cons]
    rw [ldwn_writeResult_bit (ldwn_bitParsedAt k n b.1 info b.2) info t _ rs rfl rfl rfl rfl hte
      (h k (Nat.le_refl _) (by simp only [List.length_cons]; omega)),
      ih (k + 1) (fun j h1 h2 => h j (by omega) (by simp only [List.length_cons]; omega))]
    rfl

/-! ### the composition -/

theorem ldwn_bitParsed_getElem (n : Name) (info : TagInfo) (bits : List (Name × PyVal)) : ∀ (k j : Nat) (h : j < bits.length),
    (ldwn_bitParsed k n info bits)[j]'(by rw [ldwn_bitParsed_length]; exact h) =
      ldwn_bitParsedAt (k + j) n bits[j].1 info bits[j].2 := by
  induction bits with
  | nil => intro k j h; cases h
  | cons b rest ih =>
    intro k j h
    cases j with
    | zero => rfl
    | succ j =>
      simp only [ldwn_bitParsed, List.getElem_cons_succ]
      rw [ih (k + 1) j (by simpa using h)]
      congr 1
      omega

/-- `write` of `n ≥ 2` bit requests `tag.<digits>` on ONE controller-scope elementary integer scalar tag, on a healthy
    connected driver that is not a Micro800: ONE Read-Modify-Write request (one frame, ONE sequence number) whose masks
    are the combination of the requests in order; every request gets an error-free Tag (request string, caller's value,
    "BOOL"); the integer is replaced by `rmwResult` of its old value under the combined masks, one logged write -/
theorem ldwn_write_bits (cfg : Cfg) (w : Cli.World Ext) (sess : Nat) (cidb : Bytes) (conn : Conn)
    (st : LState) (s : Symbol) (info : TagInfo) (c sz : Nat) (name : Name) (t : Ty) (bits : List (Name × PyVal))
    (hw : ldr_Healthy w sess cidb conn) (hlogix : w.net.target.ext.logix = some st) (hmicro : cfg.micro800 = false)
    (hn : 2 ≤ bits.length)
    (hs : s ∈ st.proj.controller)
    (hbytes : ∀ s' ∈ st.proj.controller, ∀ ch ∈ s'.name, ch < 256)
    (huniqN : ∀ s' ∈ st.proj.controller, s'.name = s.name → s' = s)
    (huniqI : ∀ s' ∈ st.proj.controller, s'.inst = s.inst → s' = s)
    (hid : PlainIdent s.name) (hinst : s.inst < 2 ^ 32)
    (hty : elTyOfWord s.symbolType = .atomic c) (hat : atomicOfCode c = some (name, t)) (hb : t.isBits = none)
    (hsz : atomicSize c = some sz) (hlen : s.mem.length = sz) (hint : c ≠ 0xCA ∧ c ≠ 0xCB ∧ c ≠ 0xC1)
    (hget : cfg.tags.get? s.name = some info) (hinfo : ldr_InfoOf info name t s.inst)
    (hds : ∀ b ∈ bits, PyStr.isDigit b.1 = true ∧ PyStr.decVal b.1 < 8 * sz)
    (hT : s.name.length + 2 * sz + 18 ≤ conn.size) :
    ∃ w' frm, write hookAll cfg w (bits.map fun b => (ldw_bitTag s.name b.1, b.2)) =
        (w', .ok (bits.map fun b => { tag := ldw_bitTag s.name b.1, value := b.2, type := some (Drv.nm "BOOL"), error := none })) ∧
      w'.drv = w.drv.nextSeq.2 ∧ w'.net.sent = w.net.sent ++ [frm] ∧
      w'.net.target.ext =
        { w.net.target.ext with
          logix := some
            { st with
              proj := written st.proj (ldr_loc s c) 0
                (le sz (K.rmwResult sz (leVal s.mem) (K.applyOps (ldwn_ops bits)))) } } ∧
      ldr_Healthy w' sess cidb { conn with lastSeq := some w.drv.nextSeq.1 } := by
  obtain ⟨haty, hentry, hndw, hpos, hle8⟩ := ldr_atomic_table c sz name t hat hb hsz
  obtain ⟨hib, hszs⟩ := ldw_intBits c sz name t hat hb hsz hint
  -- (a) parsing
  have hnd : isDword info = false := by
    have : (name == Drv.nm "DWORD") = false := by simpa using hndw
    simp [isDword, hinfo.typeName, this]
  have hparsed : lds_wparse cfg.tags (bits.map fun b => (ldw_bitTag s.name b.1, b.2)) = ldwn_bitParsed 0 s.name info bits := by
    apply List.ext_getElem
    · rw [lds_wparse_length, ldwn_bitParsed_length, List.length_map]
    · intro j h1 h2
      have hj : j < bits.length := by rw [ldwn_bitParsed_length] at h2; exact h2
      rw [lds_wparse_getElem cfg.tags _ j (by rw [List.length_map]; exact hj), ldwn_bitParsed_getElem s.name info bits 0 j hj]
      simp only [List.getElem_map, Nat.zero_add]
      obtain ⟨hd1, hd2⟩ := hds bits[j] (List.getElem_mem hj)
      rw [ldw_parse_bit cfg.tags true j s.name bits[j].1 info (8 * sz) hid hd1 hget hnd hinfo.kind
        (by rw [hinfo.typeName]; exact hib) hd2]
      rfl
  -- (b) building
  obtain ⟨path, hpath, hpl, hden⟩ := ldr_requestPath cfg s.name info s.inst hid hinfo.instanceId hinst
  have hbuild := ldwn_build_bits cfg w.drv s.name info bits path name c sz hmicro hn hinfo.typeName hndw hentry hpath
  have hmlt := ldwn_applyOps_lt (ldwn_ops bits) (by
    intro o ho
    obtain ⟨b, hb', rfl⟩ := List.mem_map.1 ho
    have := (hds b hb').2
    show PyStr.decVal b.1 < 64
    omega)
  have hmsgr := ldwn_rmwMessage
    { seq := w.drv.nextSeq.1, tag := s.name, info := info, rid := -1, path := path, maskSize := sz,
      masks := K.applyOps (ldwn_ops bits), requestIds := List.range' 0 bits.length } hle8 hmlt
  -- (c)+(d) sending
  have hw1 : ldr_Healthy ({ w with drv := w.drv.nextSeq.2 } : Cli.World Ext) sess cidb conn :=
    ldr_Healthy_seq hw _ (by rw [(Cli.lcs_nextSeq w.drv).2])
  obtain ⟨w2, frm, hsend, hd2, hsent2, hext2, hh2⟩ := ldw_sendUnit_rmw ({ w with drv := w.drv.nextSeq.2 } : Cli.World Ext)
    sess cidb conn st s c sz cfg.useInstanceIds path w.drv.nextSeq.1 (K.applyOps (ldwn_ops bits)) hw1 hlogix hid
    hs hbytes huniqN huniqI hty hsz hlen hint hpos hden hpl (ldr_nextSeq_lt w.drv) (by omega)
  -- (e) the response
  have hresp := ldw_writeTag_ok s.name .none info.core.dataTypeName 0x4E sess conn.toId w.drv.nextSeq.1
    w.drv.nextSeq.2.context hw1.ctx8
  -- the decorator
  have hfo : Cli.ensureForwardOpen hookAll Cli.FUEL w = (w, .ok ()) := ldr_ensureFO_connected hookAll 7 w hw.connected
  refine ⟨w2, frm, ?_, hd2, hsent2, hext2, hh2⟩
  unfold write
  rw [hfo]
  dsimp only
  unfold lds_wparse at hparsed
  rw [hparsed, hbuild]
  dsimp only
  unfold sendRequests sendRequest
  dsimp only
  rw [hmsgr]
  dsimp only
  rw [hsend]
  dsimp only
  rw [hresp]
  dsimp only [Except.map]
  unfold sendRequests
  dsimp only [Results.set, List.any_nil, Bool.false_eq_true, if_false, List.nil_append]
  simp only [Bool.false_eq_true, if_false]
  -- (f) the fan-out and the results
  have hgetm1 : Results.get? [((-1 : Int), ({ tag := s.name, value := .none, type := some info.core.dataTypeName, error := none } : LTag))]
      (-1) = some { tag := s.name, value := .none, type := some info.core.dataTypeName, error := none } := rfl
  have hfan : fanOutRmw [((-1 : Int), ({ tag := s.name, value := .none, type := some info.core.dataTypeName, error := none } : LTag))]
      [Request.rmw { seq := w.drv.nextSeq.1, tag := s.name, info := info, rid := -1, path := path, maskSize := sz,
                     masks := K.applyOps (ldwn_ops bits), requestIds := List.range' 0 bits.length }] =
      some ((List.range' 0 bits.length).foldl
        (fun (acc : Results) (id : Nat) =>
          acc.set (id : Int) { tag := s.name, value := .none, type := some info.core.dataTypeName, error := none })
        ([] : Results)) := by
    simp only [fanOutRmw, hgetm1]
    rfl
  rw [hfan]
  dsimp only
  have hne : (bits.map fun b => (ldw_bitTag s.name b.1, b.2)).isEmpty = false := by
    cases bits with
    | nil => simp at hn
    | cons a t => rfl
  rw [hne]
  simp only [Bool.false_eq_true, if_false]
  rw [ldwn_bit_results s.name info { tag := s.name, value := .none, type := some info.core.dataTypeName, error := none } rfl _
    bits 0 (by
      intro j _ hj
      rw [ldwn_fan_get]
      rw [if_pos (by
        apply List.mem_map.2
        exact ⟨j, List.mem_range'_1.2 ⟨by omega, by omega⟩, rfl⟩)])]

end Pycomm.Lgx.Drv
