/-
  LogixDriver.open(), nested structure definitions, part 2: `_get_data_type` with its recursion into nested templates
  and the two caches, by induction over the nesting depth.  The invariant `lon_Inv` allows attribute entries
  (`_cache["id:struct"]`) of templates whose upload is still pending (the ancestors of the template being uploaded);
  the success of `Drv.dataTypeOf` at a level below theirs shows that they are not met again.
-/
import PycommProofs.LOpenN1
namespace Pycomm.Lgx.Opn
open Pycomm Pycomm.Tgt Pycomm.Path Pycomm.Reply Pycomm.Encap Pycomm.Lgx Pycomm.EP Pycomm.Lgx.E2E Pycomm.Lgx.Drv

/-- a template the upload handles: well-formed ("Name;…", ASCII identifiers, member fields within their wire fields),
    attributes within their reply fields, definition below 64 KiB -/
def lon_WfT (t : Template) : Prop :=
  ∃ tname junk, Up.WfTemplate t tname junk ∧ t.defWords * 4 - 21 < 65536 ∧ t.size < 2 ^ 32 ∧
    t.members.length < 65536 ∧ t.handle < 65536

/-- template `tid` and every template it contains, down to `k` levels, are of that kind -/
def lon_WfNested (p : Project) : Nat → Nat → Prop
  | 0, _ => True
  | k + 1, tid => ∀ t, p.template? tid = some t →
      lon_WfT t ∧ ∀ m ∈ t.members, (Up.atomicOfTyp m.typeWord).isSome = false → lon_WfNested p k (m.typeWord % 4096)

theorem lon_WfNested_down (p : Project) : ∀ (k tid : Nat), lon_WfNested p (k + 1) tid → lon_WfNested p k tid := by
  intro k
  induction k with
  | zero => intro _ _; trivial
  | succ k ih =>
    intro tid h t ht
    obtain ⟨h1, h2⟩ := h t ht
    exact ⟨h1, fun m hm ha => ih _ (h2 m hm ha)⟩

/-- when every template of the project is of that kind, so is every nest -/
theorem lon_WfNested_of_all (p : Project) (h : ∀ t ∈ p.templates, lon_WfT t) : ∀ (k tid : Nat), lon_WfNested p k tid := by
  intro k
  induction k with
  | zero => intro _; trivial
  | succ k ih =>
    intro tid t ht
    exact ⟨h t (List.mem_of_find?_eq_some ht), fun m _ _ => ih _⟩

/-! ### the invariant and what a step may change -/

/-- the state between two steps of the upload: the connection is healthy (size `size`), the controller runs `st` up to
    its schedule counter, a cached data type is the one `Drv.dataTypeOf` computes, and attributes cached without the
    data type belong to templates that are not defined at level `K` (pending ancestors) -/
structure lon_Inv (st : LState) (sess : Nat) (cidb : Bytes) (size K : Nat) (S : St Ext) : Prop where
  healthy : ∃ conn, ldr_Healthy S.w sess cidb conn ∧ conn.size = size
  logix : ∃ c, S.w.net.target.ext.logix = some { st with ctr := c }
  cacheU : ∀ tid dt, natGet S.cache.idUdt tid = some dt → ∃ k, dataTypeOf st.proj k tid = some dt
  cacheS : ∀ tid, natGet S.cache.idUdt tid = none → natGet S.cache.idStruct tid ≠ none → dataTypeOf st.proj K tid = none

/-- between two tags: no pending uploads -/
structure lon_Good (st : LState) (sess : Nat) (cidb : Bytes) (size : Nat) (S : St Ext) : Prop where
  healthy : ∃ conn, ldr_Healthy S.w sess cidb conn ∧ conn.size = size
  logix : ∃ c, S.w.net.target.ext.logix = some { st with ctr := c }
  cacheU : ∀ tid dt, natGet S.cache.idUdt tid = some dt → ∃ k, dataTypeOf st.proj k tid = some dt
  cacheS : ∀ tid, natGet S.cache.idUdt tid = none → natGet S.cache.idStruct tid = none

theorem lon_Good.inv {st : LState} {sess : Nat} {cidb : Bytes} {size : Nat} {S : St Ext}
    (h : lon_Good st sess cidb size S) (K : Nat) : lon_Inv st sess cidb size K S :=
  ⟨h.healthy, h.logix, h.cacheU, fun tid hu hs => absurd (h.cacheS tid hu) hs⟩

theorem lon_Inv.down {st : LState} {sess : Nat} {cidb : Bytes} {size K : Nat} {S : St Ext}
    (h : lon_Inv st sess cidb size (K + 1) S) : lon_Inv st sess cidb size K S :=
  ⟨h.healthy, h.logix, h.cacheU, fun tid hu hs => lon_dataTypeOf_none_of_succ _ _ _ (h.cacheS tid hu hs)⟩

/-- the caches only grow: an entry of either cache is untouched, or a data type that was absent is now cached — and
    it is the one of level `K` -/
def lon_Frame (p : Project) (K : Nat) (S S' : St Ext) : Prop :=
  ∀ tid, (natGet S'.cache.idUdt tid = natGet S.cache.idUdt tid ∧ natGet S'.cache.idStruct tid = natGet S.cache.idStruct tid) ∨
    (natGet S.cache.idUdt tid = none ∧ ∃ d, natGet S'.cache.idUdt tid = some d ∧ dataTypeOf p K tid = some d)

/-- the cost: `n` data types were added to the cache, the controller's schedule counter advanced by `j` (one per
    template-read fragment), and exactly `n + j` frames were sent — one attribute request per new data type and the
    fragment requests -/
def lon_Count (st : LState) (S S' : St Ext) : Prop :=
  ∃ n j c frms, S.w.net.target.ext.logix = some { st with ctr := c } ∧
    S'.w.net.target.ext.logix = some { st with ctr := c + j } ∧
    S'.w.net.sent = S.w.net.sent ++ frms ∧ frms.length = n + j ∧
    S'.cache.idUdt.length = S.cache.idUdt.length + n

structure lon_Step (st : LState) (K : Nat) (S S' : St Ext) : Prop where
  step : lo_Step S S'
  frame : lon_Frame st.proj K S S'
  count : lon_Count st S S'

theorem lon_ctr_inj (st : LState) (a b : Nat) (h : some ({ st with ctr := a } : LState) = some { st with ctr := b }) : a = b :=
  congrArg LState.ctr (Option.some.inj h)

theorem lon_Count.refl (st : LState) (S : St Ext) (h : ∃ c, S.w.net.target.ext.logix = some { st with ctr := c }) :
    lon_Count st S S := by
  obtain ⟨c, hc⟩ := h
  exact ⟨0, 0, c, [], hc, hc, by simp, rfl, rfl⟩

theorem lon_Count.trans {st : LState} {A B C : St Ext} (h1 : lon_Count st A B) (h2 : lon_Count st B C) : lon_Count st A C := by
  obtain ⟨n1, j1, c1, f1, ha, hb, hs1, hl1, hu1⟩ := h1
  obtain ⟨n2, j2, c2, f2, hb', hc, hs2, hl2, hu2⟩ := h2
  have hcc : c2 = c1 + j1 := by
    rw [hb'] at hb; exact lon_ctr_inj st _ _ hb
  subst hcc
  refine ⟨n1 + n2, j1 + j2, c1, f1 ++ f2, ha, ?_, ?_, ?_, ?_⟩
  · rw [hc, Nat.add_assoc]
  · rw [hs2, hs1, List.append_assoc]
  · rw [List.length_append, hl1, hl2]; omega
  · rw [hu2, hu1]; omega

theorem lon_Frame.refl (p : Project) (K : Nat) (S : St Ext) : lon_Frame p K S S := fun _ => Or.inl ⟨rfl, rfl⟩

theorem lon_Frame.trans {p : Project} {K : Nat} {A B C : St Ext} (h1 : lon_Frame p K A B) (h2 : lon_Frame p K B C) :
    lon_Frame p K A C := by
  intro tid
  rcases h1 tid with ⟨hu1, hs1⟩ | ⟨hn1, d1, hd1, hk1⟩
  · rcases h2 tid with ⟨hu2, hs2⟩ | ⟨hn2, d2, hd2, hk2⟩
    · exact Or.inl ⟨hu2.trans hu1, hs2.trans hs1⟩
    · exact Or.inr ⟨by rw [← hu1]; exact hn2, d2, hd2, hk2⟩
  · rcases h2 tid with ⟨hu2, _⟩ | ⟨hn2, _⟩
    · exact Or.inr ⟨hn1, d1, by rw [hu2]; exact hd1, hk1⟩
    · rw [hd1] at hn2; cases hn2

theorem lon_Frame.up {p : Project} {K : Nat} {A B : St Ext} (h : lon_Frame p K A B) : lon_Frame p (K + 1) A B := by
  intro tid
  rcases h tid with h1 | ⟨hn, d, hd, hk⟩
  · exact Or.inl h1
  · exact Or.inr ⟨hn, d, hd, lon_dataTypeOf_succ _ _ _ _ hk⟩

theorem lon_Step.refl (st : LState) (K : Nat) (S : St Ext) (h : ∃ c, S.w.net.target.ext.logix = some { st with ctr := c }) :
    lon_Step st K S S := ⟨lo_Step.refl S, lon_Frame.refl _ _ _, lon_Count.refl st S h⟩

theorem lon_Step.trans {st : LState} {K : Nat} {A B C : St Ext} (h1 : lon_Step st K A B) (h2 : lon_Step st K B C) :
    lon_Step st K A C := ⟨lo_Step.trans h1.step h2.step, lon_Frame.trans h1.frame h2.frame, lon_Count.trans h1.count h2.count⟩

theorem lon_Step.up {st : LState} {K : Nat} {A B : St Ext} (h : lon_Step st K A B) : lon_Step st (K + 1) A B :=
  ⟨h.step, h.frame.up, h.count⟩

theorem lon_Step.le {st : LState} {K K' : Nat} {A B : St Ext} (h : lon_Step st K A B) (hk : K ≤ K') : lon_Step st K' A B := by
  induction K' with
  | zero => have : K = 0 := by omega
            subst this; exact h
  | succ K' ih =>
    by_cases he : K = K' + 1
    · subst he; exact h
    · exact (ih (by omega)).up

/-- the invariant survives a step (given that the new world is healthy) -/
theorem lon_Inv.of_step {st : LState} {sess : Nat} {cidb : Bytes} {size K : Nat} {S S' : St Ext}
    (h : lon_Inv st sess cidb size K S) (hs : lon_Step st K S S')
    (hh : ∃ conn, ldr_Healthy S'.w sess cidb conn ∧ conn.size = size) : lon_Inv st sess cidb size K S' := by
  obtain ⟨_, j, c, _, _, hc', _⟩ := hs.count
  refine ⟨hh, ⟨c + j, hc'⟩, ?_, ?_⟩
  · intro tid dt hd
    rcases hs.frame tid with ⟨hu, _⟩ | ⟨_, d, hd', hk⟩
    · rw [hu] at hd; exact h.cacheU tid dt hd
    · rw [hd'] at hd; cases hd; exact ⟨K, hk⟩
  · intro tid hu hst
    rcases hs.frame tid with ⟨hu', hs'⟩ | ⟨_, d, hd', _⟩
    · rw [hu'] at hu; rw [hs'] at hst; exact h.cacheS tid hu hst
    · rw [hd'] at hu; cases hu

theorem lon_Good.of_step {st : LState} {sess : Nat} {cidb : Bytes} {size K : Nat} {S S' : St Ext}
    (h : lon_Good st sess cidb size S) (hs : lon_Step st K S S')
    (hh : ∃ conn, ldr_Healthy S'.w sess cidb conn ∧ conn.size = size) : lon_Good st sess cidb size S' := by
  obtain ⟨_, j, c, _, _, hc', _⟩ := hs.count
  refine ⟨hh, ⟨c + j, hc'⟩, ?_, ?_⟩
  · intro tid dt hd
    rcases hs.frame tid with ⟨hu, _⟩ | ⟨_, d, hd', hk⟩
    · rw [hu] at hd; exact h.cacheU tid dt hd
    · rw [hd'] at hd; cases hd; exact ⟨K, hk⟩
  · intro tid hu
    rcases hs.frame tid with ⟨hu', hs'⟩ | ⟨_, d, hd', _⟩
    · rw [hu'] at hu; rw [hs']; exact h.cacheS tid hu
    · rw [hd'] at hu; cases hu

theorem lon_natSet_absent {α} (xs : List (Nat × α)) (k : Nat) (v : α) (h : natGet xs k = none) :
    natSet xs k v = xs ++ [(k, v)] := by
  unfold natGet at h
  unfold natSet
  have hnone : xs.find? (fun x => x.1 == k) = none := by
    cases hf : xs.find? (fun x => x.1 == k) with
    | none => rfl
    | some x => rw [hf] at h; cases h
  have hany : xs.any (fun x => x.1 == k) = false := by
    rw [List.find?_eq_none] at hnone
    rw [List.any_eq_false]
    exact hnone
  rw [hany]
  simp

/-! ### `member_data`: the members in template order, nested definitions resolved on the way -/

/-- the statement of the induction: `_get_data_type` with client fuel `f` for templates defined at level `K` -/
def lon_GetDT (st : LState) (sess : Nat) (cidb : Bytes) (size K f : Nat) : Prop :=
  ∀ (S : St Ext) (tid sty : Nat) (dt : DT),
    lon_Inv st sess cidb size K S → dataTypeOf st.proj K tid = some dt → lon_WfNested st.proj K tid →
    tid < 2 ^ 32 → sty % 4096 = tid % 4096 →
    ∃ S', getDataType hookAll f S tid sty = (S', .ok dt) ∧ natGet S'.cache.idUdt tid = some dt ∧
      lon_Inv st sess cidb size K S' ∧ lon_Step st K S S' ∧ S'.l.info = S.l.info

theorem lon_resolve (st : LState) (sess : Nat) (cidb : Bytes) (size K f : Nat) (ih : lon_GetDT st sess cidb size K f) :
    ∀ (ms : List MemberDef) (S : St Ext), lon_Inv st sess cidb size K S → (∀ m ∈ ms, Up.WfMember m) →
      (∀ m ∈ ms, (Up.atomicOfTyp m.typeWord).isSome = true ∨
        ((Up.atomicOfTyp m.typeWord).isSome = false ∧ memberIsStruct m.typeWord = .ok true ∧
          ∃ d, dataTypeOf st.proj K (m.typeWord % 4096) = some d)) →
      (∀ m ∈ ms, (Up.atomicOfTyp m.typeWord).isSome = false → lon_WfNested st.proj K (m.typeWord % 4096)) →
      ∃ S', resolveMembers (getDataType hookAll f) S (ms.map Up.infoBytes) = (S', .ok (lon_nestedOf st.proj K ms)) ∧
        lon_Inv st sess cidb size K S' ∧ lon_Step st K S S' ∧ S'.l.info = S.l.info := by
  intro ms
  induction ms with
  | nil => intro S hinv _ _ _; exact ⟨S, rfl, hinv, lon_Step.refl st K S hinv.logix, rfl⟩
  | cons m ms ihm =>
    intro S hinv hwf hmem hwn
    have hpm := Up.up_parseMemberInfo m (hwf m List.mem_cons_self)
    have hwf' : ∀ x ∈ ms, Up.WfMember x := fun x hx => hwf x (List.mem_cons_of_mem _ hx)
    have hmem' := fun x (hx : x ∈ ms) => hmem x (List.mem_cons_of_mem _ hx)
    have hwn' := fun x (hx : x ∈ ms) => hwn x (List.mem_cons_of_mem _ hx)
    rw [List.map_cons, resolveMembers, hpm]
    dsimp only
    rcases hmem m List.mem_cons_self with hat | ⟨hna, hst, d, hd⟩
    · have hs : memberIsStruct m.typeWord = .ok false := by
        unfold memberIsStruct
        rw [if_pos hat]
      rw [hs]
      dsimp only
      obtain ⟨S', hr, hinv', hstep, hinfo⟩ := ihm S hinv hwf' hmem' hwn'
      rw [hr]
      refine ⟨S', ?_, hinv', hstep, hinfo⟩
      unfold lon_nestedOf
      rw [List.map_cons, if_pos hat]
      rfl
    · rw [hst]
      dsimp only
      obtain ⟨S1, hg, _, hinv1, hstep1, hinfo1⟩ := ih S (m.typeWord % 4096) m.typeWord d hinv hd (hwn m List.mem_cons_self hna)
        (by omega) (by omega)
      rw [hg]
      dsimp only
      obtain ⟨S', hr, hinv', hstep, hinfo⟩ := ihm S1 hinv1 hwf' hmem' hwn'
      rw [hr]
      refine ⟨S', ?_, hinv', lon_Step.trans hstep1 hstep, hinfo.trans hinfo1⟩
      unfold lon_nestedOf
      rw [List.map_cons, hna, hd]
      rfl

/-! ### `_get_data_type` -/

theorem lon_getDataType (st : LState) (sess : Nat) (cidb : Bytes) (size : Nat) (hsize : 26 ≤ size) :
    ∀ (K f : Nat), K ≤ f → lon_GetDT st sess cidb size K f := by
  intro K
  induction K with
  | zero => intro f _ S tid sty dt _ hdt; simp [dataTypeOf] at hdt
  | succ K ih =>
    intro f hf S tid sty dt hinv hdt hwn htid hsym
    cases hprev : dataTypeOf st.proj K tid with
    | some d' =>
      -- already defined one level below
      have hdd : d' = dt := lon_dataTypeOf_unique _ _ _ _ _ _ hprev hdt
      subst hdd
      obtain ⟨S', hg, hu, hinv', hstep, hinfo⟩ := ih f (by omega) S tid sty d' hinv.down hprev (lon_WfNested_down _ _ _ hwn) htid hsym
      exact ⟨S', hg, hu, hinv.of_step hstep.up hinv'.healthy, hstep.up, hinfo⟩
    | none =>
      obtain ⟨f', hf'⟩ : ∃ f', f = f' + 1 := ⟨f - 1, by omega⟩
      subst hf'
      cases hcache : natGet S.cache.idUdt tid with
      | some d =>
        obtain ⟨k, hk⟩ := hinv.cacheU tid d hcache
        have hdd : d = dt := lon_dataTypeOf_unique _ _ _ _ _ _ hk hdt
        subst hdd
        refine ⟨S, ?_, hcache, hinv, lon_Step.refl st _ S hinv.logix, rfl⟩
        rw [getDataType, hcache]
      | none =>
        have hcS : natGet S.cache.idStruct tid = none := by
          cases hs : natGet S.cache.idStruct tid with
          | none => rfl
          | some a =>
            have := hinv.cacheS tid hcache (by rw [hs]; exact fun h => by cases h)
            rw [this] at hdt; cases hdt
        -- the template
        obtain ⟨t, ht⟩ : ∃ t, st.proj.template? tid = some t := by
          cases ht : st.proj.template? tid with
          | none => rw [dataTypeOf, ht] at hdt; cases hdt
          | some t => exact ⟨t, rfl⟩
        obtain ⟨⟨tname, junk, hwf, hW, hSz, hM, hH⟩, hwnm⟩ := hwn t ht
        obtain ⟨conn, hw, hcs⟩ := hinv.healthy
        obtain ⟨c, hlogix⟩ := hinv.logix
        -- `_get_structure_makeup`
        obtain ⟨w1, hmk, hh1, hd1, ⟨frm, hsent1⟩, hext1⟩ := lo_getStructureMakeup S sess cidb conn { st with ctr := c } t tid
          hw hlogix ht htid (by omega) hcS (by omega) hSz hM hH
        have hlogix1 : w1.net.target.ext.logix = some { st with ctr := c } := by rw [hext1]; exact hlogix
        -- `_read_template`
        have hlenT : (templateData t).length ≤ TMPL_FUEL := by
          rw [lo_templateData_length]; unfold TMPL_FUEL; omega
        obtain ⟨w2, conn2, j, hrd, hh2, hcs2, hsd2, ⟨frms, hsent2, hfl2⟩, _, hext2⟩ := lon_readTemplate_from sess cidb t tid
          TMPL_FUEL w1 { conn with lastSeq := some S.w.drv.nextSeq.1 } { st with ctr := c } 0 [] hh1 hlogix1 ht htid
          (by show 22 ≤ conn.size; omega) hW (lo_templateData_pos t) (by omega)
        rw [List.drop_zero, List.nil_append] at hrd
        have hlogix2 : w2.net.target.ext.logix = some { st with ctr := c + j } := by rw [hext2]
        -- the state in which the members are resolved: attributes cached, data type pending
        have hinv2 : lon_Inv st sess cidb size K
            ({ w := w2, l := S.l, cache := { S.cache with idStruct := natSet S.cache.idStruct tid (lo_attrsOf t) } } : St Ext) := by
          refine ⟨⟨conn2, hh2, by rw [hcs2]; exact hcs⟩, ⟨c + j, hlogix2⟩, hinv.cacheU, ?_⟩
          intro tid' hu hs
          by_cases hk : tid' = tid
          · subst hk; exact hprev
          · have hs' : natGet (natSet S.cache.idStruct tid (lo_attrsOf t)) tid' ≠ none := hs
            rw [lo_natGet_natSet_other _ _ _ _ hcS hk] at hs'
            exact lon_dataTypeOf_none_of_succ _ _ _ (hinv.cacheS tid' hu hs')
        obtain ⟨S3, hres, hinv3, hstep3, hinfo3⟩ := lon_resolve st sess cidb size K f' (ih f' (by omega)) t.members _ hinv2 hwf.2.2.2
          (lon_members_of_dataType st.proj t tid K tname junk dt ht hwf hdt) hwnm
        -- the template itself was not met again
        have hU3 : natGet S3.cache.idUdt tid = none := by
          rcases hstep3.frame tid with ⟨hu, _⟩ | ⟨_, d, _, hk⟩
          · rw [hu]; exact hcache
          · rw [hprev] at hk; cases hk
        have hptd := lon_parseTemplateData st.proj t tid sty K tname junk ht hsym hwf
        rw [hdt] at hptd
        have hgd : getDataType hookAll (f' + 1) S tid sty =
            ({ S3 with cache := { S3.cache with idUdt := natSet S3.cache.idUdt tid dt },
                       l := { S3.l with dataTypes := if S3.l.dataTypes.contains dt.1.name then S3.l.dataTypes
                                                      else S3.l.dataTypes ++ [dt.1.name] } }, .ok dt) := by
          rw [getDataType, hcache]
          dsimp only
          rw [hmk]
          dsimp only
          have hrd' : readTemplate hookAll tid (lo_attrsOf t).objectDefinitionSize TMPL_FUEL w1 0 [] = (w2, .ok (templateData t)) := hrd
          rw [hrd']
          dsimp only
          have hch : Up.chunks8 (lo_attrsOf t).memberCount
              ((templateData t).take ((lo_attrsOf t).memberCount * Gen.TEMPLATE_MEMBER_INFO_LEN)) = t.members.map Up.infoBytes := by
            show Up.chunks8 t.members.length ((templateData t).take (t.members.length * 8)) = _
            rw [lo_templateData_infos, lo_chunks8]
          rw [hch, hres]
          dsimp only
          rw [hptd]
        -- what the whole call changed
        obtain ⟨n3, j3, c3, frms3, hc3a, hc3b, hs3, hl3, hu3⟩ := hstep3.count
        have hc3 : c3 = c + j := by
          have h : w2.net.target.ext.logix = some { st with ctr := c3 } := hc3a
          rw [hlogix2] at h; exact (lon_ctr_inj st _ _ h).symm
        subst hc3
        have hstep : lon_Step st (K + 1) S
            ({ S3 with cache := { S3.cache with idUdt := natSet S3.cache.idUdt tid dt },
                                   l := { S3.l with dataTypes := if S3.l.dataTypes.contains dt.1.name then S3.l.dataTypes
                                                                  else S3.l.dataTypes ++ [dt.1.name] } } : St Ext) := by
          refine ⟨?_, ?_, ?_⟩
          · have s12 : lo_Step S ({ w := w2, l := S.l, cache := { S.cache with idStruct := natSet S.cache.idStruct tid (lo_attrsOf t) } } : St Ext) :=
              ⟨lo_SameDrv.trans (by rw [hd1]; exact lo_SameDrv.nextSeq S.w.drv) hsd2,
               ⟨frm :: frms, by show w2.net.sent = _; rw [hsent2, hsent1, List.append_assoc]; rfl⟩, rfl, rfl, rfl, rfl, rfl⟩
            have s34 : lo_Step S3 ({ S3 with cache := { S3.cache with idUdt := natSet S3.cache.idUdt tid dt },
                                             l := { S3.l with dataTypes := if S3.l.dataTypes.contains dt.1.name then S3.l.dataTypes
                                                                            else S3.l.dataTypes ++ [dt.1.name] } } : St Ext) :=
              ⟨lo_SameDrv.refl _, ⟨[], by simp⟩, rfl, rfl, rfl, rfl, rfl⟩
            exact lo_Step.trans s12 (lo_Step.trans hstep3.step s34)
          · intro tid'
            by_cases hk : tid' = tid
            · subst hk
              exact Or.inr ⟨hcache, dt, lo_natGet_natSet_same _ _ _ hU3, hdt⟩
            · rcases hstep3.frame tid' with ⟨hu, hs⟩ | ⟨hn, d, hd, hdK⟩
              · left
                refine ⟨?_, ?_⟩
                · show natGet (natSet S3.cache.idUdt tid dt) tid' = _
                  rw [lo_natGet_natSet_other _ _ _ _ hU3 hk, hu]
                · show natGet S3.cache.idStruct tid' = _
                  rw [hs]
                  show natGet (natSet S.cache.idStruct tid (lo_attrsOf t)) tid' = _
                  rw [lo_natGet_natSet_other _ _ _ _ hcS hk]
              · right
                refine ⟨hn, d, ?_, lon_dataTypeOf_succ _ _ _ _ hdK⟩
                show natGet (natSet S3.cache.idUdt tid dt) tid' = _
                rw [lo_natGet_natSet_other _ _ _ _ hU3 hk, hd]
          · refine ⟨n3 + 1, j + j3, c, (frm :: frms) ++ frms3, hlogix, ?_, ?_, ?_, ?_⟩
            · show S3.w.net.target.ext.logix = _
              rw [hc3b, Nat.add_assoc]
            · show S3.w.net.sent = _
              rw [hs3]
              show w2.net.sent ++ frms3 = _
              rw [hsent2, hsent1]
              simp
            · rw [List.length_append, List.length_cons, hfl2, hl3]; omega
            · show (natSet S3.cache.idUdt tid dt).length = _
              rw [lon_natSet_absent _ _ _ hU3, List.length_append, hu3]
              rfl
        refine ⟨_, hgd, ?_, hinv.of_step hstep hinv3.healthy, hstep, hinfo3⟩
        show natGet (natSet S3.cache.idUdt tid dt) tid = some dt
        exact lo_natGet_natSet_same _ _ _ hU3

end Pycomm.Lgx.Opn
