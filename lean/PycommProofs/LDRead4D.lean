/-
  LogixDriver.read, layer (e) for NESTED structure types: what the codec class of an uploaded definition
  (`StructTag` whose members are elementary, arrays, or `StructTag`s again — no packed BOOLs) decodes from a tag's
  memory, stated member by member at ABSOLUTE byte offsets of that memory.
    `ldr4_Nested`        the type classes concerned, to a given nesting depth
    `ldr4_held`          the value the (nested) definition dictates for the bytes from a byte offset on: a structure is
                         the dict of its visible members, member `m` read at `offset + m.offset`; an array is the list
                         of its elements, element `k` read at `offset + k · element width`; an elementary value is
                         decoded at its offset
    `ldr4_decode_held`   `decode` of the slice `[off, off + width)` of the memory returns exactly that value
    `ldr4_decodeN_held`  … `n` consecutive elements
-/
import PycommProofs.LDRead3Reply
import PycommProofs.LDRead2Reply
import PycommProofs.CodecRoundTripExt
namespace Pycomm.Lgx.Drv
open Pycomm Pycomm.Tgt Pycomm.Path Pycomm.Reply Pycomm.Lgx Pycomm.Lgx.E2E Pycomm.RT

/-- the codec classes of the elementary types other than bit strings -/
def ldr4_Elem (t : Ty) : Prop := t = .bool ∨ (∃ k, t = .int k) ∨ t = .real ∨ t = .lreal

/-- type classes of uploaded definitions without packed BOOLs, nested to depth at most `d`: elementary classes,
    fixed arrays of such classes, `StructTag`s without bit aliases whose members (at non-decreasing offsets, not
    overlapping, inside the structure size, with distinct names: `TagMembersOk`) are such classes of depth `d - 1` -/
def ldr4_Nested : Nat → Ty → Prop
  | 0, t => ldr4_Elem t
  | d + 1, t => ldr4_Elem t ∨
      (∃ n t', t = .arr (.fixed n) t' ∧ t'.isBits = none ∧ ldr4_Nested d t') ∨
      (∃ ms priv size, t = .structTag ms [] priv size ∧ 0 < size ∧ TagMembersOk size ms 0 ∧
        ∀ m ∈ ms.toList, ldr4_Nested d m.2.1)

/-- more depth allowed is still that shape -/
theorem ldr4_Nested_mono : ∀ (d : Nat) (t : Ty), ldr4_Nested d t → ldr4_Nested (d + 1) t
  | 0, _, h => Or.inl h
  | d + 1, t, h => by
    simp only [ldr4_Nested] at h
    rcases h with h | ⟨n, t', rfl, hb, h'⟩ | ⟨ms, priv, size, rfl, hp, hok, hms⟩
    · exact Or.inl h
    · exact Or.inr (Or.inl ⟨n, t', rfl, hb, ldr4_Nested_mono d t' h'⟩)
    · exact Or.inr (Or.inr ⟨ms, priv, size, rfl, hp, hok, fun m hm => ldr4_Nested_mono d _ (hms m hm)⟩)

/-- the visible members of a structure read with `f` at their offsets from byte `off` -/
def ldr4_membersAt (f : Ty → Bytes → Nat → PyVal) : TMembers → List Name → Bytes → Nat → List (Name × PyVal)
  | .nil, _, _, _ => []
  | .cons name t o rest, priv, mem, off =>
      if priv.contains name then ldr4_membersAt f rest priv mem off
      else (name, f t mem (off + o)) :: ldr4_membersAt f rest priv mem off

/-- an elementary value decoded from the memory at byte `off` -/
def ldr4_leafAt (t : Ty) (mem : Bytes) (off : Nat) : PyVal :=
  match decode t (mem.drop off) with
  | .ok (v, _) => v
  | .error _ => .none

/-- the value a (nested) definition dictates for the bytes of `mem` from byte `off` on -/
def ldr4_held : Nat → Ty → Bytes → Nat → PyVal
  | d + 1, .structTag ms _ priv _, mem, off => .dict (ldr4_membersAt (ldr4_held d) ms priv mem off)
  | d + 1, .arr (.fixed n) t, mem, off =>
      .list ((List.range n).map fun k => ldr4_held d t mem (off + k * (fixedWidth t).getD 0))
  | _, t, mem, off => ldr4_leafAt t mem off

theorem ldr4_held_elem (d : Nat) (t : Ty) (h : ldr4_Elem t) (mem : Bytes) (off : Nat) :
    ldr4_held d t mem off = ldr4_leafAt t mem off := by
  rcases h with rfl | ⟨k, rfl⟩ | rfl | rfl <;> cases d <;> rfl

/-! ### list slices -/

theorem ldr4_slice_drop (mem : Bytes) (off size o : Nat) :
    ((mem.drop off).take size).drop o = (mem.drop (off + o)).take (size - o) := by
  rw [List.drop_take, List.drop_drop]

theorem ldr4_slice_split (mem : Bytes) (off w r : Nat) :
    (mem.drop off).take (w + r) = (mem.drop off).take w ++ (mem.drop (off + w)).take r := by
  rw [List.take_add, List.drop_drop]

theorem ldr4_slice_length (mem : Bytes) (off w : Nat) (h : off + w ≤ mem.length) : ((mem.drop off).take w).length = w := by
  rw [List.length_take, List.length_drop]; omega

/-! ### elementary values -/

theorem ldr4_elem_width (t : Ty) (h : ldr4_Elem t) : fixedWidth t = some (ldr2_tySize t) := by
  rcases h with rfl | ⟨k, rfl⟩ | rfl | rfl <;> rfl

theorem ldr4_elem_total (t : Ty) (h : ldr4_Elem t) : DecTotal t (ldr2_tySize t) := by
  rcases h with rfl | ⟨k, rfl⟩ | rfl | rfl
  · exact rtx_total_bool
  · exact rtx_total_int k
  · intro bs hbs
    have h4 : IntK.udint.size = 4 := rfl
    have := rtx_decodeIntNat_total .udint bs (by rw [h4]; exact hbs)
    exact ⟨_, by simp only [decode, this, bind, Except.bind]; rfl⟩
  · intro bs hbs
    have h8 : IntK.ulint.size = 8 := rfl
    have := rtx_decodeIntNat_total .ulint bs (by rw [h8]; exact hbs)
    exact ⟨_, by simp only [decode, this, bind, Except.bind]; rfl⟩

/-- an elementary value is decoded from exactly the bytes of its width -/
theorem ldr4_decode_elem (t : Ty) (h : ldr4_Elem t) (mem : Bytes) (off : Nat) (x : Bytes)
    (hin : off + ldr2_tySize t ≤ mem.length) :
    decode t ((mem.drop off).take (ldr2_tySize t) ++ x) = .ok (ldr4_leafAt t mem off, x) := by
  obtain ⟨v, hv⟩ := ldr4_elem_total t h (mem.drop off) (by rw [List.length_drop]; omega)
  obtain ⟨_, hpre⟩ := ldr2_decode_prefix t h _ v _ hv
  rw [hpre x]
  simp only [ldr4_leafAt, hv]

/-! ### structures -/

theorem ldr4_membersAt_eq (f : Ty → Bytes → Nat → PyVal) (g : Name × Ty × Nat → PyVal) (priv : List Name) (mem : Bytes)
    (off : Nat) : ∀ (ms : TMembers), (∀ m ∈ ms.toList, g m = f m.2.1 mem (off + m.2.2)) →
    (ms.toList.map (fun m => (m.1, g m))).filter (fun kv => !priv.contains kv.1) = ldr4_membersAt f ms priv mem off
  | .nil, _ => rfl
  | .cons name t o rest, h => by
    have ih := ldr4_membersAt_eq f g priv mem off rest (fun m hm => h m (by simp [TMembers.toList, hm]))
    have h0 := h (name, t, o) (by simp [TMembers.toList])
    simp only [TMembers.toList, List.map_cons, List.filter_cons, ldr4_membersAt]
    by_cases hp : priv.contains name = true
    · simp only [hp, Bool.not_true, Bool.false_eq_true, if_false, if_true, ih]
    · have hp' : priv.contains name = false := by simpa using hp
      simp only [hp', Bool.not_false, if_true, Bool.false_eq_true, if_false, ih, h0]

/-- the keys of the dict of a structure: its visible members, in order -/
theorem ldr4_membersAt_keys (f : Ty → Bytes → Nat → PyVal) (priv : List Name) (mem : Bytes) (off : Nat) :
    ∀ (ms : TMembers), (ldr4_membersAt f ms priv mem off).map (·.1) = (ms.visible priv).map (·.1)
  | .nil => rfl
  | .cons name t o rest => by
    have ih := ldr4_membersAt_keys f priv mem off rest
    simp only [TMembers.visible] at ih ⊢
    simp only [ldr4_membersAt, TMembers.toList, List.filter_cons]
    by_cases hp : priv.contains name = true
    · simp only [hp, if_true, Bool.not_true, Bool.false_eq_true, if_false, ih]
    · have hp' : priv.contains name = false := by simpa using hp
      simp only [hp', Bool.false_eq_true, if_false, Bool.not_false, if_true, List.map_cons, ih]

/-- `n` consecutive elements, each decoded from its slice -/
theorem ldr4_decodeN_of (t : Ty) (w : Nat) (f : Nat → PyVal) (mem : Bytes)
    (h1 : ∀ off x, off + w ≤ mem.length → decode t ((mem.drop off).take w ++ x) = .ok (f off, x)) :
    ∀ (n off : Nat) (x : Bytes), off + w * n ≤ mem.length →
      decodeN (decode t) n ((mem.drop off).take (w * n) ++ x) = .ok ((List.range n).map (fun k => f (off + k * w)), x) := by
  intro n
  induction n with
  | zero => intro off x _; simp [decodeN]
  | succ n ih =>
    intro off x hin
    have e : w * (n + 1) = w + w * n := by rw [Nat.mul_succ, Nat.add_comm]
    have hin1 : off + w ≤ mem.length := by rw [e] at hin; omega
    have hin2 : off + w + w * n ≤ mem.length := by rw [e] at hin; omega
    rw [e, ldr4_slice_split, List.append_assoc]
    simp only [decodeN, bind, Except.bind, h1 off _ hin1, ih (off + w) x hin2]
    rw [List.range_succ_eq_map]
    simp only [List.map_cons, List.map_map, Nat.zero_mul, Nat.add_zero]
    congr 3
    apply List.map_congr_left
    intro k _
    simp only [Function.comp, Nat.succ_eq_add_one, Nat.add_mul, Nat.one_mul]
    congr 1
    omega

/-- (e) `decode` of the slice `[off, off + w)` of a memory returns the value the nested definition dictates for the
    bytes from `off` on -/
theorem ldr4_decode_held : ∀ (d : Nat) (t : Ty) (w : Nat), ldr4_Nested d t → fixedWidth t = some w →
    ∀ (mem : Bytes) (off : Nat) (x : Bytes), off + w ≤ mem.length →
      decode t ((mem.drop off).take w ++ x) = .ok (ldr4_held d t mem off, x) := by
  intro d
  induction d with
  | zero =>
    intro t w hn hw mem off x hin
    simp only [ldr4_Nested] at hn
    rw [ldr4_elem_width t hn] at hw
    cases hw
    rw [ldr4_held_elem 0 t hn]
    exact ldr4_decode_elem t hn mem off x hin
  | succ d ih =>
    intro t w hn hw mem off x hin
    simp only [ldr4_Nested] at hn
    rcases hn with hn | ⟨n, t', rfl, hb, hn'⟩ | ⟨ms, priv, size, rfl, hpos, hok, hms⟩
    · rw [ldr4_elem_width t hn] at hw
      cases hw
      rw [ldr4_held_elem (d + 1) t hn]
      exact ldr4_decode_elem t hn mem off x hin
    · -- an array
      simp only [fixedWidth] at hw
      cases hw' : fixedWidth t' with
      | none => rw [hw'] at hw; cases hw
      | some w' =>
        rw [hw'] at hw
        simp only [Option.map_some, Option.some.injEq] at hw
        subst hw
        have hN := ldr4_decodeN_of t' w' (fun o => ldr4_held d t' mem o) mem
          (fun o y ho => ih t' w' hn' hw' mem o y ho) n off x hin
        simp only [decode, hN, hb, Option.isSome_none, Bool.false_eq_true, if_false, ldr4_held, hw', Option.getD_some]
    · -- a structure
      simp only [fixedWidth, hpos, if_true, Option.some.injEq] at hw
      subst hw
      have hlen := ldr4_slice_length mem off size hin
      have hne : (mem.drop off).take size ≠ [] := by
        intro e; rw [e] at hlen; simp at hlen; omega
      have hs := streamRead_append ((mem.drop off).take size) x size hlen hne
      -- every member decodes at its offset inside the slice
      have hmem : ∀ m ∈ ms.toList, ∀ w, fixedWidth m.2.1 = some w →
          decode m.2.1 (((mem.drop off).take size).drop m.2.2) =
            .ok (ldr4_held d m.2.1 mem (off + m.2.2), ((mem.drop off).take size).drop (m.2.2 + w)) := by
        intro m hm w hw
        obtain ⟨w', hw', hfit⟩ := rtx_okm_width size ms 0 hok m hm
        rw [hw] at hw'; cases hw'
        have e1 : size - m.2.2 = w + (size - m.2.2 - w) := by omega
        rw [ldr4_slice_drop, e1, ldr4_slice_split, ih m.2.1 w (hms m hm) hw mem (off + m.2.2) _ (by omega),
          ldr4_slice_drop]
        have e2 : off + m.2.2 + w = off + (m.2.2 + w) := by omega
        have e3 : size - m.2.2 - w = size - (m.2.2 + w) := by omega
        rw [e2, e3]
      have hdm := rtx_decTM size ((mem.drop off).take size) hlen ms 0 [] hok
        (fun m hm w hw => ⟨_, hmem m hm w hw⟩) (by simp)
      simp only [List.nil_append] at hdm
      have hval : ∀ m ∈ ms.toList, valAt ((mem.drop off).take size) m = ldr4_held d m.2.1 mem (off + m.2.2) := by
        intro m hm
        obtain ⟨w, hw, _⟩ := rtx_okm_width size ms 0 hok m hm
        simp only [valAt, hmem m hm w hw]
      simp only [decode, hs, hlen, Nat.lt_irrefl, if_false, hdm, decodeTagBits, ldr4_held]
      rw [ldr4_membersAt_eq (ldr4_held d) (valAt ((mem.drop off).take size)) priv mem off ms hval]

/-- (e) `n` consecutive values of a nested definition from byte `off` on -/
theorem ldr4_decodeN_held (d : Nat) (t : Ty) (w : Nat) (hn : ldr4_Nested d t) (hw : fixedWidth t = some w)
    (mem : Bytes) (n off : Nat) (x : Bytes) (hin : off + w * n ≤ mem.length) :
    decodeN (decode t) n ((mem.drop off).take (w * n) ++ x) =
      .ok ((List.range n).map (fun k => ldr4_held d t mem (off + k * w)), x) :=
  ldr4_decodeN_of t w (fun o => ldr4_held d t mem o) mem (fun o y ho => ldr4_decode_held d t w hn hw mem o y ho) n off x hin

end Pycomm.Lgx.Drv
