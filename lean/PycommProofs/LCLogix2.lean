/-
  Helper lemmas for C10 over histories that contain `LogixDriver.read` / `LogixDriver.write` calls.
  Part 2: what holds along `lcl_Reach` (the lifecycle invariant on an open connection, the idle invariant),
  hence across `read` / `write`; which exceptions the fuel marker `.hang` can come from.
-/
import PycommProofs.LCLogix1
import PycommProofs.LCIdle
import PycommProofs.LDShape
namespace Pycomm.Lgx.Drv
open Pycomm.Tgt Pycomm.Path Pycomm.Reply

/-! ### the lifecycle invariant along draws and connected sends on the open connection -/

theorem lcl_Reach_inv {σ} {hook : ObjHook σ} (hh : Cli.lci_HookOk hook) {S : Prop} {w w' : Cli.World σ}
    (h : lcl_Reach hook w w') (hi : Cli.lci_Inv S w) (hc : Cli.lci_Conn w) (hcon : w.drv.targetIsConnected = true) :
    Cli.lci_Inv S w' ∧ Cli.lci_Conn w' ∧ w'.drv.targetIsConnected = true := by
  induction h with
  | refl => exact ⟨hi, hc, hcon⟩
  | @draw w1 v _ ih =>
    obtain ⟨b1, b2, b3⟩ := ih
    refine ⟨⟨b1.t, b1.ctx8, b1.opt0, b1.pend, b1.sess, ?_⟩, b2, b3⟩
    intro hS
    have c := b1.cfg hS
    exact ⟨c.path, c.cid4, c.csn2, c.vid2, c.vsn4, c.mode⟩
  | @send w1 seq msg _ ih =>
    obtain ⟨b1, b2, b3⟩ := ih
    obtain ⟨a1, a2⟩ := Cli.lci_sendUnit hook hh S w1 b1 b2 b3 seq msg
    refine ⟨a1, a2, ?_⟩
    rw [(Cli.lci_sendReq hook w1 (.sendUnit seq msg) false b1.pend _ rfl).1]
    exact b3

theorem lcl_Reach_nstep {σ} {hook : ObjHook σ} (hh : Cli.lci_HookOk hook) {w w' : Cli.World σ}
    (h : lcl_Reach hook w w') : Cli.lci_NStep w w' := by
  induction h with
  | refl => exact Cli.lci_NStep_refl _
  | @draw w1 v _ ih => exact Cli.lci_NStep_drv _ _ _ ih rfl
  | @send w1 seq msg _ ih => exact Cli.lci_NStep_trans ih (Cli.lci_NStep_sendReq hook hh w1 _ false)

/-- `read` preserves the lifecycle invariant, whatever it returns or raises -/
theorem lcl_read_inv {σ} (hook : ObjHook σ) (hh : Cli.lci_HookOk hook) (S : Prop) (cfg : Cfg) (w : Cli.World σ)
    (tags : List Name) (hi : Cli.lci_Inv S w) (hc : Cli.lci_Conn w) :
    Cli.lci_Inv S (read hook cfg w tags).1 ∧ Cli.lci_Conn (read hook cfg w tags).1 := by
  obtain ⟨b1, b2, b3⟩ := Cli.lci_cli_ensureFO hook S Cli.FUEL w hi hc _ rfl
  obtain ⟨r1, r2⟩ := lcl_read_reach hook cfg w tags _ rfl
  generalize Cli.ensureForwardOpen hook Cli.FUEL w = r0 at b1 b2 b3 r1 r2
  obtain ⟨w0, pre⟩ := r0
  cases pre with
  | error e => rw [r1 e rfl]; exact ⟨b1, b2⟩
  | ok u =>
    obtain ⟨a1, a2, _⟩ := lcl_Reach_inv hh (r2 u rfl) b1 b2 (b3 rfl)
    exact ⟨a1, a2⟩

/-- `write` preserves the lifecycle invariant, whatever it returns or raises -/
theorem lcl_write_inv {σ} (hook : ObjHook σ) (hh : Cli.lci_HookOk hook) (S : Prop) (cfg : Cfg) (w : Cli.World σ)
    (tvs : List (Name × PyVal)) (hi : Cli.lci_Inv S w) (hc : Cli.lci_Conn w) :
    Cli.lci_Inv S (write hook cfg w tvs).1 ∧ Cli.lci_Conn (write hook cfg w tvs).1 := by
  obtain ⟨b1, b2, b3⟩ := Cli.lci_cli_ensureFO hook S Cli.FUEL w hi hc _ rfl
  obtain ⟨r1, r2⟩ := lcl_write_reach hook cfg w tvs _ rfl
  generalize Cli.ensureForwardOpen hook Cli.FUEL w = r0 at b1 b2 b3 r1 r2
  obtain ⟨w0, pre⟩ := r0
  cases pre with
  | error e => rw [r1 e rfl]; exact ⟨b1, b2⟩
  | ok u =>
    obtain ⟨a1, a2, _⟩ := lcl_Reach_inv hh (r2 u rfl) b1 b2 (b3 rfl)
    exact ⟨a1, a2⟩

/-- `read` neither opens nor closes the socket -/
theorem lcl_read_nstep {σ} (hook : ObjHook σ) (hh : Cli.lci_HookOk hook) (cfg : Cfg) (w : Cli.World σ)
    (tags : List Name) : Cli.lci_NStep w (read hook cfg w tags).1 := by
  have b1 := (Cli.lci_NStep_mutual hook hh Cli.FUEL).2.1 w
  obtain ⟨r1, r2⟩ := lcl_read_reach hook cfg w tags _ rfl
  generalize Cli.ensureForwardOpen hook Cli.FUEL w = r0 at b1 r1 r2
  obtain ⟨w0, pre⟩ := r0
  cases pre with
  | error e => rw [r1 e rfl]; exact b1
  | ok u => exact Cli.lci_NStep_trans b1 (lcl_Reach_nstep hh (r2 u rfl))

theorem lcl_write_nstep {σ} (hook : ObjHook σ) (hh : Cli.lci_HookOk hook) (cfg : Cfg) (w : Cli.World σ)
    (tvs : List (Name × PyVal)) : Cli.lci_NStep w (write hook cfg w tvs).1 := by
  have b1 := (Cli.lci_NStep_mutual hook hh Cli.FUEL).2.1 w
  obtain ⟨r1, r2⟩ := lcl_write_reach hook cfg w tvs _ rfl
  generalize Cli.ensureForwardOpen hook Cli.FUEL w = r0 at b1 r1 r2
  obtain ⟨w0, pre⟩ := r0
  cases pre with
  | error e => rw [r1 e rfl]; exact b1
  | ok u => exact Cli.lci_NStep_trans b1 (lcl_Reach_nstep hh (r2 u rfl))

/-! ### where the fuel marker `.hang` can come from -/

theorem lcl_sendUnit_nohang {σ} (hook : ObjHook σ) (w : Cli.World σ) (seq : Nat) (msg : Bytes) :
    (sendUnit hook w seq msg).2 ≠ .error .hang := by
  intro h
  rcases Cli.lc_sendReq_err hook w _ false _ h with h | h <;> cases h

theorem lcl_respError_nohang (r : Resp) : r.error ≠ .error .hang := by
  intro h
  unfold Resp.error at h
  cases hc : errorCip r.raw .connected r.p r.valid with
  | ok v => rw [hc] at h; cases h
  | error e' =>
    rw [hc] at h
    simp only [Except.map, Except.error.injEq] at h
    subst h
    rcases Cli.lc_errorCip_err _ _ _ _ _ hc with h | h <;> cases h

theorem lcl_map_err {α β} (x : Except Exn α) (f : α → β) (e : Exn) (h : x.map f = .error e) : x = .error e := by
  cases x with
  | ok v => cases h
  | error e' => simp only [Except.map, Except.error.injEq] at h; rw [h]

theorem lcl_writeFragSend_nohang {σ} (hook : ObjHook σ) (req : WriteReq) (segs : List (Nat × Bytes)) :
    ∀ (w : Cli.World σ) (allOk : Bool) (last : Option Resp),
      (writeFragSend hook req w segs allOk last).2 ≠ .error .hang := by
  induction segs with
  | nil => intro w allOk last h; simp only [writeFragSend] at h; cases h
  | cons x rest ih =>
    intro w allOk last h
    obtain ⟨off, seg⟩ := x
    rw [writeFragSend] at h
    dsimp only at h
    split at h
    · next w1 e' hs =>
      simp only [Except.error.injEq] at h
      subst h
      exact lcl_sendUnit_nohang hook _ _ _ (by rw [hs])
    · exact ih _ _ _ h

theorem lcl_sendWriteFragmented_nohang {σ} (hook : ObjHook σ) (w : Cli.World σ) (req : WriteReq) :
    (sendWriteFragmented hook w req).2 ≠ .error .hang := by
  intro h
  unfold sendWriteFragmented at h
  dsimp only at h
  split at h
  · cases h
  · split at h
    · cases h
    · split at h
      · cases h
      · split at h
        · next w1 e' hs =>
          simp only [Except.error.injEq] at h
          subst h
          exact lcl_writeFragSend_nohang hook req _ _ _ _ (by rw [hs])
        · split at h <;> cases h

/-- one iteration of `_send_requests` runs out of fuel only in the fragmented-read loop -/
theorem lcl_sendRequest_hang {σ} (hook : ObjHook σ) (w w' : Cli.World σ) (rs : Results) (q : Request)
    (h : sendRequest hook w rs q = (w', .error .hang)) : ∃ r, q = .readFrag r := by
  have tr : ∀ (seq : Nat) (msg : Bytes), (sendUnit hook w seq msg).2 = .error .hang → False :=
    fun seq msg hs => lcl_sendUnit_nohang hook w seq msg hs
  cases q with
  | readFrag req => exact ⟨req, rfl⟩
  | read req =>
    exfalso
    simp only [sendRequest] at h
    split at h
    · next hs => simp only [Prod.mk.injEq, Except.error.injEq] at h; rw [h.2] at hs; exact tr _ _ hs
    · simp only [Prod.mk.injEq] at h
      exact lcl_respError_nohang _ (lds_readTag_err _ _ _ _ _ (lcl_map_err _ _ _ h.2))
  | multiRead seq reqs =>
    exfalso
    simp only [sendRequest] at h
    split at h
    · next hs => simp only [Prod.mk.injEq, Except.error.injEq] at h; rw [h.2] at hs; exact tr _ _ hs
    · split at h
      · next hm =>
        simp only [Prod.mk.injEq, Except.error.injEq] at h
        rw [h.2] at hm
        exact lcl_respError_nohang _ (lds_multiPacketError_err _ _ hm)
      · cases h
      · simp only [Prod.mk.injEq] at h
        obtain ⟨r, hr⟩ := lds_multiRead_err _ _ _ h.2
        exact lcl_respError_nohang r hr
  | write req =>
    exfalso
    simp only [sendRequest] at h
    split at h
    · next hs => simp only [Prod.mk.injEq, Except.error.injEq] at h; rw [h.2] at hs; exact tr _ _ hs
    · simp only [Prod.mk.injEq] at h
      exact lcl_respError_nohang _ (lds_writeTag_err _ _ _ _ _ (lcl_map_err _ _ _ h.2))
  | writeFrag req =>
    exfalso
    simp only [sendRequest] at h
    split at h
    · next hs =>
      simp only [Prod.mk.injEq, Except.error.injEq] at h
      rw [h.2] at hs
      exact lcl_sendWriteFragmented_nohang hook w req (by rw [hs])
    · simp only [Prod.mk.injEq] at h
      exact lcl_respError_nohang _ (lds_writeTag_err _ _ _ _ _ (lcl_map_err _ _ _ h.2))
  | rmw req =>
    exfalso
    simp only [sendRequest] at h
    split at h
    · next hm =>
      simp only [Prod.mk.injEq, Except.error.injEq] at h
      rw [h.2] at hm
      unfold rmwMessage at hm
      split at hm
      · cases hm
      · split at hm
        · next e' hp =>
          simp only [Except.error.injEq] at hm
          subst hm
          unfold packInt at hp
          split at hp
          · split at hp <;> cases hp
          · cases hp
        · cases hm
    · split at h
      · next hs => simp only [Prod.mk.injEq, Except.error.injEq] at h; rw [h.2] at hs; exact tr _ _ hs
      · simp only [Prod.mk.injEq] at h
        exact lcl_respError_nohang _ (lds_writeTag_err _ _ _ _ _ (lcl_map_err _ _ _ h.2))
  | multiWrite seq reqs =>
    exfalso
    simp only [sendRequest] at h
    split at h
    · next hs => simp only [Prod.mk.injEq, Except.error.injEq] at h; rw [h.2] at hs; exact tr _ _ hs
    · split at h
      · next hm =>
        simp only [Prod.mk.injEq, Except.error.injEq] at h
        rw [h.2] at hm
        exact lcl_respError_nohang _ (lds_multiPacketError_err _ _ hm)
      · cases h
      · simp only [Prod.mk.injEq] at h
        obtain ⟨r, hr⟩ := lds_multiWrite_err _ _ _ h.2
        exact lcl_respError_nohang r hr

theorem lcl_sendRequests_hang {σ} (hook : ObjHook σ) (reqs : List Request) :
    ∀ (w w' : Cli.World σ) (rs : Results), sendRequests hook w rs reqs = (w', .error .hang) →
      ∃ r, Request.readFrag r ∈ reqs := by
  induction reqs with
  | nil => intro w w' rs h; simp only [sendRequests] at h; cases h
  | cons q rest ih =>
    intro w w' rs h
    rw [sendRequests] at h
    rcases hq : sendRequest hook w rs q with ⟨w1, r⟩
    rw [hq] at h
    dsimp only at h
    cases r with
    | error e' =>
      simp only [Prod.mk.injEq, Except.error.injEq] at h
      obtain ⟨_, rfl⟩ := h
      obtain ⟨r, rfl⟩ := lcl_sendRequest_hang hook w w1 rs q hq
      exact ⟨r, List.mem_cons_self⟩
    | ok rs1 =>
      obtain ⟨r, hr⟩ := ih _ _ _ h
      exact ⟨r, List.mem_cons_of_mem _ hr⟩

/-! ### the packets of `write` are no fragmented reads -/

theorem lcl_writeBuildSingles_kind (cfg : Cfg) (C : Nat) (ps : List Parsed) :
    ∀ (d d' : Cli.Drv) (acc ps' : List Parsed) (reqs : List Request),
      writeBuildSingles cfg C d acc ps = (d', .ok (ps', reqs)) → ∀ q ∈ reqs, q.lds_isReadKind = false := by
  induction ps with
  | nil =>
    intro d d' acc ps' reqs h q hq
    simp only [writeBuildSingles, Prod.mk.injEq, Except.ok.injEq] at h
    obtain ⟨_, _, rfl⟩ := h
    cases hq
  | cons p rest ih =>
    intro d d' acc ps' reqs h q hq
    rw [writeBuildSingles] at h
    split at h
    · next info he hi =>
      split at h
      · rcases hm : mkRmwReq cfg d p info (-(1 + (p.requestId : Int))) with ⟨d1, r⟩
        rw [hm] at h
        dsimp only at h
        cases r with
        | error e => cases h
        | ok r =>
          dsimp only at h
          rcases hrec : writeBuildSingles cfg C d1 acc rest with ⟨d2, more⟩
          rw [hrec] at h
          dsimp only at h
          cases more with
          | error e => cases h
          | ok x =>
            simp only [Except.map, Prod.mk.injEq, Except.ok.injEq] at h
            obtain ⟨_, _, rfl⟩ := h
            rcases List.mem_cons.1 hq with rfl | hq
            · rfl
            · exact ih _ _ _ _ _ hrec q hq
      · rcases henc : encodeValue p info with ⟨p1, enc⟩
        rw [henc] at h
        dsimp only at h
        cases enc with
        | none => exact ih _ _ _ _ _ h q hq
        | some value =>
          dsimp only at h
          rcases hm : mkWriteReq cfg d p1 info value with ⟨d1, r⟩
          rw [hm] at h
          dsimp only at h
          cases r with
          | error e => cases h
          | ok req =>
            dsimp only at h
            generalize (if decide (value.length + req.messageLen > C) = true then req.refresh d1 else (d1, req)) = fr at h
            obtain ⟨d2, req2⟩ := fr
            dsimp only at h
            rcases hrec : writeBuildSingles cfg C d2 (replaceParsed acc p1) rest with ⟨d3, more⟩
            rw [hrec] at h
            dsimp only at h
            cases more with
            | error e => cases h
            | ok x =>
              simp only [Except.map, Prod.mk.injEq, Except.ok.injEq] at h
              obtain ⟨_, _, rfl⟩ := h
              rcases List.mem_cons.1 hq with rfl | hq
              · split <;> rfl
              · exact ih _ _ _ _ _ hrec q hq
    · exact ih _ _ _ _ _ h q hq

theorem lcl_writeBuild_kind (cfg : Cfg) (d d' : Cli.Drv) (ps ps' : List Parsed) (reqs : List Request)
    (h : writeBuildRequests cfg d ps = (d', .ok (ps', reqs))) : ∀ q ∈ reqs, q.lds_isReadKind = false := by
  unfold writeBuildRequests at h
  dsimp only at h
  split at h
  · rcases hl : writeBuildLive cfg d.connectionSize d { parsed := ps } ps with ⟨d1, b⟩
    rw [hl] at h
    dsimp only at h
    cases b with
    | error e => cases h
    | ok b =>
      dsimp only at h
      simp only [Prod.mk.injEq, Except.ok.injEq] at h
      obtain ⟨_, _, rfl⟩ := h
      intro q hq
      rcases List.mem_append.1 hq with hq | hq
      · rcases List.mem_append.1 hq with hq | hq
        · obtain ⟨m, _, rfl⟩ := List.mem_map.1 hq; rfl
        · obtain ⟨x, _, rfl⟩ := List.mem_map.1 hq; rfl
      · obtain ⟨r, _, rfl⟩ := List.mem_map.1 hq; rfl
  · exact lcl_writeBuildSingles_kind cfg _ ps _ _ _ _ _ h

theorem lcl_elementsNat_err (n : Int) (e : Exn) (h : elementsNat n = .error e) : e = .data := by
  unfold elementsNat at h
  split at h
  · cases h
  · cases h; rfl

theorem lcl_requestPathOf_nohang (cfg : Cfg) (tag : Name) (info : TagInfo)
    (h : requestPathOf cfg tag info = .error .hang) : False := by
  rcases lds_requestPathOf_err cfg _ _ _ h with h | h <;> cases h

theorem lcl_mkWriteReq_nohang (cfg : Cfg) (d d1 : Cli.Drv) (p : Parsed) (info : TagInfo) (v : Bytes)
    (h : mkWriteReq cfg d p info v = (d1, .error .hang)) : False := by
  rcases lds_mkWriteReq_err cfg d d1 p info v _ h with h | h
  · exact lcl_requestPathOf_nohang cfg _ _ h
  · cases lcl_elementsNat_err _ _ h

theorem lcl_mkRmwReq_nohang (cfg : Cfg) (d d1 : Cli.Drv) (p : Parsed) (info : TagInfo) (rid : Int)
    (h : mkRmwReq cfg d p info rid = (d1, .error .hang)) : False := by
  unfold mkRmwReq at h
  dsimp only at h
  split at h
  · next e he =>
    simp only [Prod.mk.injEq, Except.error.injEq] at h
    rw [h.2] at he
    exact lcl_requestPathOf_nohang cfg _ _ he
  · split at h <;> cases h

theorem lcl_writeBuildLive_nohang (cfg : Cfg) (C : Nat) (ps : List Parsed) :
    ∀ (d d' : Cli.Drv) (acc : WriteBuild), writeBuildLive cfg C d acc ps = (d', .error .hang) → False := by
  induction ps with
  | nil => intro d d' acc h; simp only [writeBuildLive] at h; cases h
  | cons p rest ih =>
    intro d d' acc h
    rw [writeBuildLive] at h
    split at h
    · next info he hi =>
      split at h
      · split at h
        · exact ih _ _ _ h
        · rcases hm : mkRmwReq cfg d p info (-(1 + (acc.rmws.length : Int))) with ⟨d1, r⟩
          rw [hm] at h
          dsimp only at h
          cases r with
          | error e =>
            simp only [Prod.mk.injEq, Except.error.injEq] at h
            rw [h.2] at hm
            exact lcl_mkRmwReq_nohang cfg _ _ _ _ _ hm
          | ok r => exact ih _ _ _ h
      · rcases henc : encodeValue p info with ⟨p1, enc⟩
        rw [henc] at h
        dsimp only at h
        cases enc with
        | none => exact ih _ _ _ h
        | some value =>
          dsimp only at h
          rcases hm : mkWriteReq cfg d p1 info value with ⟨d1, r⟩
          rw [hm] at h
          dsimp only at h
          cases r with
          | error e =>
            simp only [Prod.mk.injEq, Except.error.injEq] at h
            rw [h.2] at hm
            exact lcl_mkWriteReq_nohang cfg _ _ _ _ _ hm
          | ok req =>
            dsimp only at h
            generalize (if decide (req.messageLen + K.OVERHEAD > C) = true then req.refresh d1 else (d1, req)) = fr at h
            obtain ⟨d2, req2⟩ := fr
            exact ih _ _ _ h
    · exact ih _ _ _ h

theorem lcl_writeBuildSingles_nohang (cfg : Cfg) (C : Nat) (ps : List Parsed) :
    ∀ (d d' : Cli.Drv) (acc : List Parsed), writeBuildSingles cfg C d acc ps = (d', .error .hang) → False := by
  induction ps with
  | nil => intro d d' acc h; simp only [writeBuildSingles] at h; cases h
  | cons p rest ih =>
    intro d d' acc h
    rw [writeBuildSingles] at h
    split at h
    · next info he hi =>
      split at h
      · rcases hm : mkRmwReq cfg d p info (-(1 + (p.requestId : Int))) with ⟨d1, r⟩
        rw [hm] at h
        dsimp only at h
        cases r with
        | error e =>
          simp only [Prod.mk.injEq, Except.error.injEq] at h
          rw [h.2] at hm
          exact lcl_mkRmwReq_nohang cfg _ _ _ _ _ hm
        | ok r =>
          dsimp only at h
          rcases hrec : writeBuildSingles cfg C d1 acc rest with ⟨d2, more⟩
          rw [hrec] at h
          dsimp only at h
          cases more with
          | error e =>
            simp only [Except.map, Prod.mk.injEq, Except.error.injEq] at h
            rw [h.2] at hrec
            exact ih _ _ _ hrec
          | ok x => cases h
      · rcases henc : encodeValue p info with ⟨p1, enc⟩
        rw [henc] at h
        dsimp only at h
        cases enc with
        | none => exact ih _ _ _ h
        | some value =>
          dsimp only at h
          rcases hm : mkWriteReq cfg d p1 info value with ⟨d1, r⟩
          rw [hm] at h
          dsimp only at h
          cases r with
          | error e =>
            simp only [Prod.mk.injEq, Except.error.injEq] at h
            rw [h.2] at hm
            exact lcl_mkWriteReq_nohang cfg _ _ _ _ _ hm
          | ok req =>
            dsimp only at h
            generalize (if decide (value.length + req.messageLen > C) = true then req.refresh d1 else (d1, req)) = fr at h
            obtain ⟨d2, req2⟩ := fr
            dsimp only at h
            rcases hrec : writeBuildSingles cfg C d2 (replaceParsed acc p1) rest with ⟨d3, more⟩
            rw [hrec] at h
            dsimp only at h
            cases more with
            | error e =>
              simp only [Except.map, Prod.mk.injEq, Except.error.injEq] at h
              rw [h.2] at hrec
              exact ih _ _ _ hrec
            | ok x => cases h
    · exact ih _ _ _ h

theorem lcl_writeBuild_nohang (cfg : Cfg) (d d' : Cli.Drv) (ps : List Parsed)
    (h : writeBuildRequests cfg d ps = (d', .error .hang)) : False := by
  unfold writeBuildRequests at h
  dsimp only at h
  split at h
  · rcases hl : writeBuildLive cfg d.connectionSize d { parsed := ps } ps with ⟨d1, b⟩
    rw [hl] at h
    dsimp only at h
    cases b with
    | error e' =>
      simp only [Prod.mk.injEq, Except.error.injEq] at h
      rw [h.2] at hl
      exact lcl_writeBuildLive_nohang cfg _ ps _ _ _ hl
    | ok b => cases h
  · exact lcl_writeBuildSingles_nohang cfg _ ps _ _ _ h

/-- `read` runs out of fuel only in the loop of a fragmented read request it built -/
theorem lcl_read_hang {σ} (hook : ObjHook σ) (cfg : Cfg) (w w' : Cli.World σ) (tags : List Name)
    (h : read hook cfg w tags = (w', .error .hang)) :
    ∃ w0 u d1 reqs r, Cli.ensureForwardOpen hook Cli.FUEL w = (w0, .ok u) ∧
      readBuildRequests cfg w0.drv (parseRequestedTags cfg.tags false tags) = (d1, .ok reqs) ∧
      Request.readFrag r ∈ reqs := by
  unfold read at h
  generalize h0 : Cli.ensureForwardOpen hook Cli.FUEL w = r at h ⊢
  obtain ⟨w0, pre⟩ := r
  dsimp only at h
  cases pre with
  | error e' =>
    simp only [Prod.mk.injEq, Except.error.injEq] at h
    obtain ⟨_, rfl⟩ := h
    rcases Cli.lc_efo_lib hook 5 w .hang (by rw [show (5 + 3 : Nat) = Cli.FUEL from rfl, h0]) with
      h | h | h | h | h <;> cases h
  | ok u =>
    dsimp only at h
    rcases hb : readBuildRequests cfg w0.drv (parseRequestedTags cfg.tags false tags) with ⟨d1, reqs⟩
    rw [hb] at h
    dsimp only at h
    cases reqs with
    | error e' =>
      simp only [Prod.mk.injEq, Except.error.injEq] at h
      obtain ⟨_, rfl⟩ := h
      obtain ⟨p, _, _, info, _, herr⟩ := lds_readBuild_err cfg _ _ _ _ hb
      rcases herr with herr | herr
      · rcases lds_requestPathOf_err cfg _ _ _ herr with h | h <;> cases h
      · cases lcl_elementsNat_err _ _ herr
    | ok reqs =>
      dsimp only at h
      rcases hs : sendRequests hook { w0 with drv := d1 } [] reqs with ⟨w2, rs⟩
      rw [hs] at h
      dsimp only at h
      cases rs with
      | error e' =>
        simp only [Prod.mk.injEq, Except.error.injEq] at h
        obtain ⟨_, rfl⟩ := h
        obtain ⟨r, hr⟩ := lcl_sendRequests_hang hook reqs _ _ _ hs
        exact ⟨w0, u, d1, reqs, r, rfl, hb, hr⟩
      | ok rs =>
        dsimp only at h
        split at h
        · simp only [Prod.mk.injEq, Except.error.injEq] at h; cases h.2
        · cases h

/-- `write` never runs out of fuel (its loops run over the segments of the value) -/
theorem lcl_write_nohang {σ} (hook : ObjHook σ) (cfg : Cfg) (w w' : Cli.World σ) (tvs : List (Name × PyVal))
    (h : write hook cfg w tvs = (w', .error .hang)) : False := by
  unfold write at h
  generalize h0 : Cli.ensureForwardOpen hook Cli.FUEL w = r at h
  obtain ⟨w0, pre⟩ := r
  dsimp only at h
  cases pre with
  | error e' =>
    simp only [Prod.mk.injEq, Except.error.injEq] at h
    obtain ⟨_, rfl⟩ := h
    rcases Cli.lc_efo_lib hook 5 w .hang (by rw [show (5 + 3 : Nat) = Cli.FUEL from rfl, h0]) with
      h | h | h | h | h <;> cases h
  | ok u =>
    dsimp only at h
    generalize ((parseRequestedTags cfg.tags true (tvs.map (·.1))).zip (tvs.map (·.2)) |>.map
      fun x => ({ x.1 with value := x.2 } : Parsed)) = parsed at h
    rcases hb : writeBuildRequests cfg w0.drv parsed with ⟨d1, built⟩
    rw [hb] at h
    dsimp only at h
    cases built with
    | error e' =>
      simp only [Prod.mk.injEq, Except.error.injEq] at h
      obtain ⟨_, rfl⟩ := h
      exact lcl_writeBuild_nohang cfg _ _ _ hb
    | ok x =>
      obtain ⟨ps', reqs⟩ := x
      dsimp only at h
      rcases hs : sendRequests hook { w0 with drv := d1 } [] reqs with ⟨w2, rs⟩
      rw [hs] at h
      dsimp only at h
      cases rs with
      | error e' =>
        simp only [Prod.mk.injEq, Except.error.injEq] at h
        obtain ⟨_, rfl⟩ := h
        obtain ⟨r, hr⟩ := lcl_sendRequests_hang hook reqs _ _ _ hs
        have := lcl_writeBuild_kind cfg _ _ _ _ _ hb _ hr
        cases this
      | ok rs =>
        dsimp only at h
        split at h
        · simp only [Prod.mk.injEq, Except.error.injEq] at h; cases h.2
        · split at h
          · simp only [Prod.mk.injEq, Except.error.injEq] at h; cases h.2
          · cases h

end Pycomm.Lgx.Drv
