/-
  C13 at the driver level for ARBITRARY reply bytes, part 4: from the entries of the results table to the Tags the
  caller gets.

    * `lda_GoodEntry`, `lda_GoodEntryW`: what every entry `_send_requests` records satisfies, for a claim `P` about
      the status words of the reply it came from;
    * `lda_readResult_good`, `lda_writeResult_good`: the Tag of the result loop over a table of such entries;
    * `lda_fanOut_entries`: the fan-out of Read-Modify-Write results only copies entries.
-/
import PycommProofs.LDAny3
namespace Pycomm.Lgx.Drv
open Pycomm Pycomm.Tgt Pycomm.Path Pycomm.Reply Pycomm.Encap

/-- an entry of the results table of a READ: no error, then `P` holds and the value is a decoded one; or a non-empty
    error text and no value -/
def lda_GoodEntry (P : Prop) (t : LTag) : Prop :=
  (t.error = none ∧ P ∧ lda_Solid t.value) ∨ (∃ e, t.error = some e ∧ lda_ErrText e ∧ t.value = .none)

/-- an entry of the results table of a WRITE: no error, then `P` holds; or a non-empty error text -/
def lda_GoodEntryW (P : Prop) (t : LTag) : Prop :=
  (t.error = none ∧ P) ∨ (∃ e, t.error = some e ∧ lda_ErrText e)

theorem lda_truthy_value (t : LTag) (h : t.value = .none) : t.truthy = false := lme_falsy t h

theorem lda_truthy_of (t : LTag) (hv : t.value ≠ .none) (he : t.error = none) : t.truthy = true := by
  unfold LTag.truthy
  rw [he]
  cases hval : t.value <;> simp_all

theorem lda_truthy_error (t : LTag) (h : t.truthy = true) : t.error = none := by
  unfold LTag.truthy at h
  simp only [Bool.and_eq_true, Option.isNone_iff_eq_none] at h
  exact h.2

/-- the Tag `read` returns for a request over a table of good entries: truthy only if `P`; if `P` fails it has no
    value and a non-empty error text; falsy only with a non-empty error text -/
theorem lda_readResult_good (p : Drv.Parsed) (rs : Results) (P : Prop)
    (hp : ∀ e, p.error = some e → lda_ErrText e)
    (hrs : ∀ result, rs.get? p.requestId = some result → lda_GoodEntry P result) :
    ((readResult p rs).truthy = true → P) ∧
    (¬ P → (readResult p rs).value = .none ∧ ∃ e, (readResult p rs).error = some e ∧ lda_ErrText e) ∧
    ((readResult p rs).truthy = false → ∃ e, (readResult p rs).error = some e ∧ lda_ErrText e) := by
  rcases lda_readResult_cases p rs with ⟨e, he, hv, hsrc⟩ | ⟨result, hg, he, hcase⟩
  · have htxt : lda_ErrText e := by
      rcases hsrc with h | ⟨x, rfl⟩
      · exact hp e h
      · trivial
    refine ⟨fun ht => ?_, fun _ => ⟨hv, e, he, htxt⟩, fun _ => ⟨e, he, htxt⟩⟩
    rw [lda_truthy_value _ hv] at ht
    cases ht
  · rcases hrs result hg with ⟨h1, h2, h3⟩ | ⟨e, h1, h2, h3⟩
    · -- the entry is a success
      have hrt : result.truthy = true := lda_truthy_of result h3.1 h1
      rcases hcase with ⟨hf, _⟩ | ⟨_, hval⟩
      · rw [hrt] at hf; cases hf
      · have hvne : (readResult p rs).value ≠ .none := by
          rcases hval with h | ⟨b, h⟩ | ⟨xs, h⟩ | ⟨xs, hx, h⟩
          · rw [h]; exact h3.1
          · rw [h]; simp
          · rw [h]; simp
          · exact h3.2 xs hx _ h
        have htr : (readResult p rs).truthy = true := lda_truthy_of _ hvne (by rw [he, h1])
        refine ⟨fun _ => h2, fun hn => absurd h2 hn, fun hf => ?_⟩
        rw [htr] at hf; cases hf
    · -- the entry is a failure
      have hrt : result.truthy = false := lda_truthy_value result h3
      rcases hcase with ⟨_, hval⟩ | ⟨ht, _⟩
      · refine ⟨fun ht => ?_, fun _ => ⟨hval, e, by rw [he, h1], h2⟩, fun _ => ⟨e, by rw [he, h1], h2⟩⟩
        rw [lda_truthy_value _ hval] at ht
        cases ht
      · rw [hrt] at ht; cases ht

/-- the Tag `write` returns for a request over a table of good entries: without error only if `P`; if `P` fails it has
    a non-empty error text; truthy only if `P`; falsy only with a non-empty error text — or because the caller's
    value itself is `None` -/
theorem lda_writeResult_good (p : Drv.Parsed) (rs : Results) (P : Prop)
    (hp : ∀ e, p.error = some e → lda_ErrText e)
    (hrs : ∀ result, rs.get? p.requestId = some result → lda_GoodEntryW P result) :
    ((writeResult p rs).error = none → P) ∧
    ((writeResult p rs).truthy = true → P) ∧
    (¬ P → ∃ e, (writeResult p rs).error = some e ∧ lda_ErrText e) ∧
    ((writeResult p rs).truthy = false → p.value ≠ .none → ∃ e, (writeResult p rs).error = some e ∧ lda_ErrText e) := by
  rcases lda_writeResult_cases p rs with ⟨e, he, hv, hsrc⟩ | ⟨result, hg, he, hv⟩
  · have htxt : lda_ErrText e := by
      rcases hsrc with h | ⟨x, rfl⟩
      · exact hp e h
      · trivial
    refine ⟨fun h => ?_, fun ht => ?_, fun _ => ⟨e, he, htxt⟩, fun _ _ => ⟨e, he, htxt⟩⟩
    · rw [he] at h; cases h
    · rw [lda_truthy_value _ hv] at ht; cases ht
  · rcases hrs result hg with ⟨h1, h2⟩ | ⟨e, h1, h2⟩
    · refine ⟨fun _ => h2, fun _ => h2, fun hn => absurd h2 hn, fun hf hne => ?_⟩
      have : (writeResult p rs).truthy = true := lda_truthy_of _ (by rw [hv]; exact hne) (by rw [he, h1])
      rw [this] at hf; cases hf
    · have he' : (writeResult p rs).error = some e := by rw [he, h1]
      refine ⟨fun h => ?_, fun ht => ?_, fun _ => ⟨e, he', h2⟩, fun _ _ => ⟨e, he', h2⟩⟩
      · rw [he'] at h; cases h
      · rw [lda_truthy_error _ ht] at he'; cases he'

/-! ### the fan-out of Read-Modify-Write results -/

theorem lda_foldl_set_mem (result : LTag) : ∀ (ids : List Nat) (rs : Results),
    ∀ x ∈ ids.foldl (fun acc (id : Nat) => acc.set (id : Int) result) rs, x ∈ rs ∨ x.2 = result := by
  intro ids
  induction ids with
  | nil => intro rs x hx; exact .inl hx
  | cons id rest ih =>
    intro rs x hx
    rw [List.foldl_cons] at hx
    rcases ih _ x hx with h | h
    · rcases lds_set_mem _ _ _ _ h with h | h
      · exact .inl h
      · exact .inr (by rw [h])
    · exact .inr h

/-- every entry after the fan-out is (a copy of) an entry before it -/
theorem lda_fanOut_entries : ∀ (reqs : List Request) (rs rs' : Results), fanOutRmw rs reqs = some rs' →
    ∀ x ∈ rs', ∃ y ∈ rs, x.2 = y.2 := by
  intro reqs
  induction reqs with
  | nil =>
    intro rs rs' h x hx
    unfold fanOutRmw at h
    cases h
    exact ⟨x, hx, rfl⟩
  | cons q rest ih =>
    intro rs rs' h x hx
    cases q with
    | rmw r =>
      rw [fanOutRmw] at h
      split at h
      · cases h
      · next result hg =>
        obtain ⟨y, hy, hxy⟩ := ih _ _ h x hx
        rcases lda_foldl_set_mem result r.requestIds _ y hy with h1 | h1
        · unfold Results.erase at h1
          exact ⟨y, (List.mem_filter.1 h1).1, hxy⟩
        · exact ⟨(r.rid, result), lds_get?_mem _ _ _ hg, by rw [hxy, h1]⟩
    | read _ => rw [fanOutRmw] at h; exact ih _ _ h x hx; intro r hr; cases hr
    | readFrag _ => rw [fanOutRmw] at h; exact ih _ _ h x hx; intro r hr; cases hr
    | write _ => rw [fanOutRmw] at h; exact ih _ _ h x hx; intro r hr; cases hr
    | writeFrag _ => rw [fanOutRmw] at h; exact ih _ _ h x hx; intro r hr; cases hr
    | multiRead _ _ => rw [fanOutRmw] at h; exact ih _ _ h x hx; intro r hr; cases hr
    | multiWrite _ _ => rw [fanOutRmw] at h; exact ih _ _ h x hx; intro r hr; cases hr

/-- a table with one entry: the fan-out for the one packet that produced it never fails -/
theorem lda_fanOut_single (k : Int) (t : LTag) (q : Request) (hq : ∀ r, q = .rmw r → r.rid = k) :
    ∃ rs', fanOutRmw (Results.set [] k t) [q] = some rs' := by
  cases q with
  | rmw r =>
    rw [fanOutRmw, hq r rfl, lme_get_set_self]
    exact ⟨_, rfl⟩
  | read _ => exact ⟨_, rfl⟩
  | readFrag _ => exact ⟨_, rfl⟩
  | write _ => exact ⟨_, rfl⟩
  | writeFrag _ => exact ⟨_, rfl⟩
  | multiRead _ _ => exact ⟨_, rfl⟩
  | multiWrite _ _ => exact ⟨_, rfl⟩

end Pycomm.Lgx.Drv
