/-
  LogixDriver.open(), nested structure definitions, part 1 (no transport): the reference interpretation
  `Drv.dataTypeOf` is monotone in its fuel (so "the" data type of a template is well defined), what its success says
  about the members of a template, `_parse_template_data` with nested definitions, and the fragment loop of
  `_read_template` with its request count.
-/
import PycommProofs.LOpenFlat
namespace Pycomm.Lgx.Opn
open Pycomm Pycomm.Tgt Pycomm.Path Pycomm.Reply Pycomm.Encap Pycomm.Lgx Pycomm.EP Pycomm.Lgx.E2E Pycomm.Lgx.Drv

/-! ### `Drv.dataTypeOf` is monotone in the fuel -/

theorem lon_memberInfo_mono (f g : Nat → Option (StructInfo × Ty × ITags))
    (h : ∀ tid d, f tid = some d → g tid = some d) (m : Up.PMember) (i : TagInfo)
    (hm : memberInfo f m = some i) : memberInfo g m = some i := by
  unfold memberInfo at hm ⊢
  cases ha : Up.atomicOfTyp m.typ with
  | some c => rw [ha] at hm; exact hm
  | none =>
    rw [ha] at hm
    dsimp only at hm ⊢
    by_cases hk : (typeNameOfCode m.typ).isSome ∨ (typeNameOfCode (m.typ % 4096)).isSome
    · rw [if_pos hk] at hm; cases hm
    · rw [if_neg hk] at hm ⊢
      cases hf : f (m.typ % 4096) with
      | none => rw [hf] at hm; cases hm
      | some d => rw [hf] at hm; rw [h _ _ hf]; exact hm

theorem lon_mapM_mono {α β} (F G : α → Option β) (xs : List α) :
    ∀ ys, (∀ a ∈ xs, ∀ b, F a = some b → G a = some b) → xs.mapM F = some ys → xs.mapM G = some ys := by
  induction xs with
  | nil => intro ys _ h; exact h
  | cons x xs ih =>
    intro ys h hy
    rw [List.mapM_cons] at hy ⊢
    cases hx : F x with
    | none => rw [hx] at hy; cases hy
    | some b =>
      cases hr : xs.mapM F with
      | none => rw [hx, hr] at hy; cases hy
      | some bs =>
        rw [hx, hr] at hy
        rw [h x List.mem_cons_self b hx, ih bs (fun a ha => h a (List.mem_cons_of_mem _ ha)) hr]
        exact hy

theorem lon_dataTypeOf_succ (p : Project) : ∀ (k tid : Nat) (dt : StructInfo × Ty × ITags),
    dataTypeOf p k tid = some dt → dataTypeOf p (k + 1) tid = some dt := by
  intro k
  induction k with
  | zero => intro tid dt h; simp [dataTypeOf] at h
  | succ k ih =>
    intro tid dt h
    rw [dataTypeOf] at h ⊢
    cases ht : p.template? tid with
    | none => rw [ht] at h; cases h
    | some t =>
      rw [ht] at h
      dsimp only at h ⊢
      cases hp : Up.parseTemplate t.members.length tid (templateData t) with
      | error e => rw [hp] at h; cases h
      | ok pt =>
        rw [hp] at h
        dsimp only at h ⊢
        cases hn : pt.name with
        | none => rw [hn] at h; cases h
        | some name =>
          cases hm : pt.members.mapM (fun m => (memberInfo (dataTypeOf p k) m).map fun i => (m, i)) with
          | none => rw [hn, hm] at h; cases h
          | some ms =>
            rw [hn, hm] at h
            have hm' : pt.members.mapM (fun m => (memberInfo (dataTypeOf p (k + 1)) m).map fun i => (m, i)) = some ms := by
              refine lon_mapM_mono _ _ pt.members ms ?_ hm
              intro a _ b hb
              cases hi : memberInfo (dataTypeOf p k) a with
              | none => rw [hi] at hb; cases hb
              | some i =>
                rw [hi] at hb
                rw [lon_memberInfo_mono _ _ ih a i hi]
                exact hb
            rw [hm']
            exact h

theorem lon_dataTypeOf_le (p : Project) (k k' tid : Nat) (dt : StructInfo × Ty × ITags)
    (h : dataTypeOf p k tid = some dt) (hk : k ≤ k') : dataTypeOf p k' tid = some dt := by
  induction k' with
  | zero => have : k = 0 := by omega
            subst this; exact h
  | succ k' ih =>
    by_cases he : k = k' + 1
    · subst he; exact h
    · exact lon_dataTypeOf_succ p k' tid dt (ih (by omega))

/-- the data type of a template does not depend on the fuel at which it was computed -/
theorem lon_dataTypeOf_unique (p : Project) (k k' tid : Nat) (a b : StructInfo × Ty × ITags)
    (ha : dataTypeOf p k tid = some a) (hb : dataTypeOf p k' tid = some b) : a = b := by
  have h1 := lon_dataTypeOf_le p k (max k k') tid a ha (Nat.le_max_left _ _)
  have h2 := lon_dataTypeOf_le p k' (max k k') tid b hb (Nat.le_max_right _ _)
  rw [h1] at h2
  exact Option.some.inj h2

theorem lon_dataTypeOf_none_of_succ (p : Project) (k tid : Nat) (h : dataTypeOf p (k + 1) tid = none) :
    dataTypeOf p k tid = none := by
  cases hd : dataTypeOf p k tid with
  | none => rfl
  | some d => rw [lon_dataTypeOf_succ p k tid d hd] at h; cases h

/-! ### what the success of `Drv.dataTypeOf` says about the members -/

/-- the nested definitions `_parse_template_data` sees for the members of a template: none for an elementary member,
    the member's data type otherwise -/
def lon_nestedOf (p : Project) (k : Nat) (ms : List MemberDef) : List (Option DT) :=
  ms.map fun m => if (Up.atomicOfTyp m.typeWord).isSome then none else dataTypeOf p k (m.typeWord % 4096)

theorem lon_memberInfo_nested (dt : Nat → Option (StructInfo × Ty × ITags)) (m : Up.PMember) :
    memberInfo (fun _ => if (Up.atomicOfTyp m.typ).isSome then none else dt (m.typ % 4096)) m = memberInfo dt m := by
  unfold memberInfo
  cases ha : Up.atomicOfTyp m.typ with
  | some c => rfl
  | none => rfl

theorem lon_mapM_zip_nested (dt : Nat → Option (StructInfo × Ty × ITags)) (ms : List Up.PMember) :
    (ms.zip (ms.map fun m => if (Up.atomicOfTyp m.typ).isSome then none else dt (m.typ % 4096))).mapM
        (fun x => (memberInfo (fun _ => x.2) x.1).map fun i => (x.1, i)) =
      ms.mapM (fun m => (memberInfo dt m).map fun i => (m, i)) := by
  induction ms with
  | nil => rfl
  | cons m ms ih =>
    rw [List.map_cons, List.zip_cons_cons, List.mapM_cons, List.mapM_cons, ih]
    dsimp only
    rw [lon_memberInfo_nested dt m]

/-- `_parse_template_data` on the stored definition of a well-formed template, with the attributes
    `_get_structure_makeup` reported and the nested definitions of level `k`: the data type `Drv.dataTypeOf` computes
    at level `k + 1` -/
theorem lon_parseTemplateData (p : Project) (t : Template) (tid symbolType k : Nat) (tname : Name) (junk : Bytes)
    (ht : p.template? tid = some t) (hsym : symbolType % 4096 = tid % 4096)
    (hwf : Up.WfTemplate t tname junk) :
    parseTemplateData (templateData t) (lo_attrsOf t) symbolType (lon_nestedOf p k t.members) =
      match dataTypeOf p (k + 1) tid with
      | some dt => .ok dt
      | none => .error unmodelled := by
  obtain ⟨pt, hp, hn, hms, _, _⟩ := Up.template_roundtrip t tname junk symbolType
    (t.defWords * 4 - 23 - t.defBytes.length) hwf
  have hp' : Up.parseTemplate t.members.length tid (templateData t) = .ok pt := by
    rw [← lo_parseTemplate_mod _ _ _ _ hsym]; exact hp
  have hnest : lon_nestedOf p k t.members =
      pt.members.map fun m => if (Up.atomicOfTyp m.typ).isSome then none else dataTypeOf p k (m.typ % 4096) := by
    have := congrArg (List.map fun (x : Name × Nat × Nat × Nat) =>
      if (Up.atomicOfTyp x.2.2.1).isSome then (none : Option DT) else dataTypeOf p k (x.2.2.1 % 4096)) hms
    rw [List.map_map, List.map_map] at this
    exact this.symm
  have hmm := lon_mapM_zip_nested (dataTypeOf p k) pt.members
  unfold parseTemplateData
  rw [dataTypeOf, ht]
  dsimp only
  have hp2 : Up.parseTemplate (lo_attrsOf t).memberCount symbolType (templateData t) = .ok pt := hp
  rw [hp2, hp']
  dsimp only
  rw [hnest, hmm, hn]
  cases pt.members.mapM (fun m => (memberInfo (dataTypeOf p k) m).map fun i => (m, i)) with
  | none => rfl
  | some ms => rfl

/-- when `Drv.dataTypeOf` succeeds at level `k + 1`, every member of the template is elementary or a structure whose
    data type is defined at level `k` -/
theorem lon_members_of_dataType (p : Project) (t : Template) (tid k : Nat) (tname : Name) (junk : Bytes)
    (dt : StructInfo × Ty × ITags)
    (ht : p.template? tid = some t) (hwf : Up.WfTemplate t tname junk) (hdt : dataTypeOf p (k + 1) tid = some dt) :
    ∀ m ∈ t.members, (Up.atomicOfTyp m.typeWord).isSome = true ∨
      ((Up.atomicOfTyp m.typeWord).isSome = false ∧ memberIsStruct m.typeWord = .ok true ∧
        ∃ d, dataTypeOf p k (m.typeWord % 4096) = some d) := by
  obtain ⟨pt, hp, _, hms, _, _⟩ := Up.template_roundtrip t tname junk tid
    (t.defWords * 4 - 23 - t.defBytes.length) hwf
  have hp' : Up.parseTemplate t.members.length tid (templateData t) = .ok pt := hp
  rw [dataTypeOf, ht] at hdt
  dsimp only at hdt
  rw [hp'] at hdt
  dsimp only at hdt
  cases hn : pt.name with
  | none => rw [hn] at hdt; cases hdt
  | some name =>
    cases hm : pt.members.mapM (fun m => (memberInfo (dataTypeOf p k) m).map fun i => (m, i)) with
    | none => rw [hn, hm] at hdt; cases hdt
    | some ms =>
      intro m hmem
      -- the parsed member with the same type field
      have h1 : (m.name, m.info, m.typeWord, m.offset) ∈ pt.members.map (fun m => (m.name, m.info, m.typ, m.offset)) := by
        rw [hms]; exact List.mem_map.2 ⟨m, hmem, rfl⟩
      obtain ⟨m', hm', e⟩ := List.mem_map.1 h1
      simp only [Prod.mk.injEq] at e
      have htyp : m'.typ = m.typeWord := e.2.2.1
      obtain ⟨y, _, hy⟩ := ldr_mapM_fwd _ pt.members ms hm m' hm'
      rw [← htyp]
      cases ha : Up.atomicOfTyp m'.typ with
      | some c => left; rfl
      | none =>
        right
        refine ⟨rfl, ?_⟩
        unfold memberInfo at hy
        rw [ha] at hy
        dsimp only at hy
        by_cases hk : (typeNameOfCode m'.typ).isSome ∨ (typeNameOfCode (m'.typ % 4096)).isSome
        · rw [if_pos hk] at hy; cases hy
        · rw [if_neg hk] at hy
          refine ⟨?_, ?_⟩
          · unfold memberIsStruct
            rw [ha]
            simp only [Option.isSome_none, Bool.false_eq_true, if_false]
            rw [if_neg hk]
          · cases hd : dataTypeOf p k (m'.typ % 4096) with
            | none => rw [hd] at hy; cases hy
            | some d => exact ⟨d, rfl⟩

/-! ### `_read_template`, with the number of requests -/

/-- `lo_readTemplate_from` with the request count: the fragment loop sends exactly as many frames as the controller's
    schedule counter advances (one per fragment) -/
theorem lon_readTemplate_from (sess : Nat) (cidb : Bytes) (t : Template) (tid : Nat) :
    ∀ (fuel : Nat) (w : Cli.World Ext) (conn : Conn) (st : LState) (off : Nat) (acc : Bytes),
    ldr_Healthy w sess cidb conn → w.net.target.ext.logix = some st →
    st.proj.template? tid = some t → tid < 2 ^ 32 → 22 ≤ conn.size → t.defWords * 4 - 21 < 65536 →
    off < (templateData t).length → (templateData t).length - off ≤ fuel →
    ∃ w' conn' k, readTemplate hookAll tid t.defWords fuel w off acc = (w', .ok (acc ++ (templateData t).drop off)) ∧
      ldr_Healthy w' sess cidb conn' ∧ conn'.size = conn.size ∧ lo_SameDrv w.drv w'.drv ∧
      (∃ frms, w'.net.sent = w.net.sent ++ frms ∧ frms.length = k) ∧ 1 ≤ k ∧
      w'.net.target.ext = { w.net.target.ext with logix := some { st with ctr := st.ctr + k } } := by
  intro fuel
  induction fuel with
  | zero => intro w conn st off acc _ _ _ _ _ _ ho hf; omega
  | succ fuel ih =>
    intro w conn st off acc hw hlogix ht htid hsize hwords hoff hf
    obtain ⟨w1, hh1, hd1, ⟨frm, hsent1⟩, hext1, hstep⟩ :=
      lo_readTemplate_step w sess cidb conn st t tid fuel off acc hw hlogix ht htid hsize hwords hoff
    rw [hstep]
    generalize hn : lo_fragLen t st.proj.tmplSchedule st.ctr (conn.size - 2 - 4) off = n
    have hnpos : 1 ≤ n := by
      rw [← hn]; unfold lo_fragLen
      have := lo_cyc_pos st.proj.tmplSchedule st.ctr 1000000 (by omega)
      omega
    by_cases hlt : n < (templateData t).length - off
    · rw [if_pos hlt]
      have hlogix1 : w1.net.target.ext.logix = some { st with ctr := st.ctr + 1 } := by rw [hext1]
      obtain ⟨w', conn', k, hres, hh', hcs, hsd, ⟨frms, hsent', hfl⟩, _, hext'⟩ :=
        ih w1 { conn with lastSeq := some w.drv.nextSeq.1 } { st with ctr := st.ctr + 1 } (off + n)
          (acc ++ ((templateData t).drop off).take n) hh1 hlogix1 ht htid hsize hwords (by omega) (by omega)
      refine ⟨w', conn', 1 + k, ?_, hh', hcs, ?_, ⟨frm :: frms, ?_, ?_⟩, by omega, ?_⟩
      · rw [hres, List.append_assoc]
        congr 2
        rw [← List.drop_drop, List.take_append_drop]
      · exact lo_SameDrv.trans (by rw [hd1]; exact lo_SameDrv.nextSeq w.drv) hsd
      · rw [hsent', hsent1, List.append_assoc]; rfl
      · rw [List.length_cons, hfl]; omega
      · rw [hext', hext1]
        simp only [Nat.add_assoc]
    · rw [if_neg hlt]
      refine ⟨w1, _, 1, rfl, hh1, rfl, ?_, ⟨[frm], hsent1, rfl⟩, by omega, hext1⟩
      rw [hd1]; exact lo_SameDrv.nextSeq w.drv

end Pycomm.Lgx.Opn
