/-
  Helper lemmas for C10 / C17 over histories that contain the UPLOADS of the LogixDriver (`LogixDriver.open()` with
  `_initialize_driver`, `get_tag_list`).  Part 1: the relation `lcu_Fresh` (connected requests each of which carries a
  sequence count drawn immediately before the send), the sizes of the upload requests, and the traversal of
  `get_tag_list`: after the `@with_forward_open` decorator everything it does is a chain of such requests.
-/
import PycommModel.Logix.Open
import PycommProofs.LCLogix1
import PycommProofs.LCLogix6
import PycommProofs.LOpenMakeup
import PycommProofs.SlcDrv2A
namespace Pycomm.Lgx.Opn
open Pycomm.Tgt Pycomm.Path Pycomm.Reply Pycomm.Lgx

/-! ### the relation -/

/-- `w'` is reached from `w` by connected requests that are sent with the sequence count drawn immediately before
    (`SendUnitDataRequestPacket(self._sequence)` / `GenericConnectedRequestPacket(sequence=self._sequence)` followed
    by `send`), each of a size the encapsulation can carry -/
inductive lcu_Fresh {σ} (hook : ObjHook σ) : Cli.World σ → Cli.World σ → Prop
  | refl (w : Cli.World σ) : lcu_Fresh hook w w
  | step {w w' : Cli.World σ} (m : Bytes) (hm : m.length ≤ 65400) : lcu_Fresh hook w w' →
      lcu_Fresh hook w (Cli.sendReq hook { w' with drv := w'.drv.nextSeq.2 } (.sendUnit w'.drv.nextSeq.1 m) false).1

theorem lcu_Fresh_trans {σ} {hook : ObjHook σ} {a b c : Cli.World σ} (h1 : lcu_Fresh hook a b)
    (h2 : lcu_Fresh hook b c) : lcu_Fresh hook a c := by
  induction h2 with
  | refl => exact h1
  | step m hm _ ih => exact .step m hm ih

theorem lcu_Fresh_one {σ} (hook : ObjHook σ) (w : Cli.World σ) (m : Bytes) (hm : m.length ≤ 65400) :
    lcu_Fresh hook w (Cli.sendReq hook { w with drv := w.drv.nextSeq.2 } (.sendUnit w.drv.nextSeq.1 m) false).1 :=
  .step m hm (.refl w)

/-- such a chain is a chain of draws and connected sends -/
theorem lcu_Fresh_reach {σ} {hook : ObjHook σ} {w w' : Cli.World σ} (h : lcu_Fresh hook w w') :
    Drv.lcl_Reach hook w w' := by
  induction h with
  | refl => exact .refl _
  | step m _ _ ih => exact .send _ m (Drv.lcl_Reach_next ih)

/-- only the sequence counter of the driver changes -/
theorem lcu_Fresh_drv {σ} {hook : ObjHook σ} {w w' : Cli.World σ} (h : lcu_Fresh hook w w') :
    Drv.lcl_SeqOnly w.drv w'.drv := (Drv.lcl_Reach_facts (lcu_Fresh_reach h)).2.2

theorem lcu_Fresh_conn {σ} {hook : ObjHook σ} {w w' : Cli.World σ} (h : lcu_Fresh hook w w') :
    w'.drv.targetIsConnected = w.drv.targetIsConnected := by
  obtain ⟨v, hv⟩ := lcu_Fresh_drv h
  rw [hv]

/-! ### sizes -/

theorem lcu_usint_ok (i : Int) (bs : Bytes) (h : usint i = .ok bs) : bs.length = 1 ∧ i ≤ 255 := by
  refine ⟨Pycomm.Slc.Drv.sd2_packInt_len .usint (.int i) bs h, ?_⟩
  unfold usint packInt at h
  simp only [PyVal.asIndex] at h
  split at h
  · rename_i hh
    have := hh.2
    simp only [IntK.hi, IntK.signed, IntK.size] at this
    omega
  · cases h

/-- an encoded path with its length byte has at most 513 bytes -/
theorem lcu_encEpath_len (p : Bool) (segs : List Seg) (pl : Bool) (bs : Bytes)
    (h : encEpath p segs true pl = .ok bs) : bs.length ≤ 513 := by
  unfold encEpath at h
  split at h
  · cases h
  · rename_i path _
    simp only [if_true] at h
    split at h
    · rename_i l hl
      obtain ⟨h1, h2⟩ := lcu_usint_ok _ _ hl
      injection h with h
      rw [← h]
      simp only [List.length_append, h1]
      have : (if pl = true then [(0 : UInt8)] else []).length ≤ 1 := by split <;> simp
      omega
    · cases h

theorem lcu_requestPath_len (c i a : LVal) (bs : Bytes) (h : requestPath c i a = .ok bs) : bs.length ≤ 513 :=
  lcu_encEpath_len _ _ _ _ h

theorem lcu_symbolListPath_len (program : Option Name) (last : Nat) (bs : Bytes)
    (h : symbolListPath program last = .ok bs) : bs.length ≤ 513 :=
  lcu_encEpath_len _ _ _ _ h

theorem lcu_symbolListMsg_len (path : Bytes) (wa : Bool) (h : path.length ≤ 513) :
    (symbolListMsg path wa).length ≤ 65400 := by
  unfold symbolListMsg
  have h1 : (Up.wantedAttrs wa).length ≤ 7 := by cases wa <;> decide
  have h2 : (((Up.wantedAttrs wa).map (Tgt.le 2)).flatten).length = 2 * (Up.wantedAttrs wa).length := by
    cases wa <;> rfl
  simp only [List.length_append, h2, Tgt.le, RT.leBytes_length, List.length_cons, List.length_nil]
  omega

/-! ### the steps of the upload on a connected driver -/

/-- a connected `generic_message` on a connected driver: one fresh request (or nothing, when the request path cannot
    be encoded) -/
theorem lcu_gm_fresh {σ} (hook : ObjHook σ) (fuel : Nat) (w : Cli.World σ) (a : Cli.GenArgs) (hc : a.connected = true)
    (hcon : w.drv.targetIsConnected = true) (hd : a.data.length ≤ 64000) :
    lcu_Fresh hook w (Cli.genericMessage hook (fuel + 2) w a).1 := by
  cases hp : requestPath a.cls a.inst a.attr with
  | error e =>
    rw [Cli.genericMessage]
    simp only [hc, if_true]
    rw [Drv.ldr_ensureFO_connected hook fuel w hcon]
    dsimp only
    rw [hp]
    exact .refl w
  | ok path =>
    rw [lo_genericMessage_connected hook fuel w a hc hcon path hp]
    have hm : ([UInt8.ofNat a.service] ++ path ++ a.data).length ≤ 65400 := by
      have := lcu_requestPath_len _ _ _ _ hp
      simp only [List.length_append, List.length_cons, List.length_nil]
      omega
    have h1 := lcu_Fresh_one hook w _ hm
    generalize Cli.sendReq hook _ _ false = r at h1 ⊢
    obtain ⟨w2, r⟩ := r
    cases r with
    | error e => exact h1
    | ok reply =>
      dsimp only
      split <;> exact h1

/-- `_get_structure_makeup` -/
theorem lcu_getStructureMakeup_fresh {σ} (hook : ObjHook σ) (st : St σ) (tid : Nat)
    (hcon : st.w.drv.targetIsConnected = true) :
    lcu_Fresh hook st.w (getStructureMakeup hook st tid).1.w := by
  unfold getStructureMakeup
  split
  · exact .refl _
  · have h1 := lcu_gm_fresh hook 6 st.w
      { service := 0x03, cls := .bytes [0x6c], inst := .int tid, connected := true,
        data := [0x04, 0x00, 0x04, 0x00, 0x05, 0x00, 0x02, 0x00, 0x01, 0x00],
        dataType := some (.struct Gen.templateAttributesMembers), name := nm "_get_structure_makeup" } rfl hcon (by simp)
    rw [show (6 + 2 : Nat) = Cli.FUEL from rfl] at h1
    generalize Cli.genericMessage hook Cli.FUEL st.w _ = r at h1 ⊢
    obtain ⟨w1, r⟩ := r
    dsimp only at h1 ⊢
    cases r with
    | error e => exact h1
    | ok tag =>
      dsimp only
      split
      · exact h1
      · split <;> exact h1

/-- the connected request of `_read_template` -/
theorem lcu_genericConnectedRaw_fresh {σ} (hook : ObjHook σ) (w : Cli.World σ) (service : Nat) (cls inst : LVal)
    (data : Bytes) (hcon : w.drv.targetIsConnected = true) (hd : data.length ≤ 64000) :
    lcu_Fresh hook w (genericConnectedRaw hook w service cls inst data).1 := by
  unfold genericConnectedRaw
  rw [show Cli.FUEL = 7 + 1 from rfl, Drv.ldr_ensureFO_connected hook 7 w hcon]
  dsimp only
  cases hp : requestPath cls inst (.bytes []) with
  | error e => exact .refl w
  | ok path =>
    dsimp only
    have hm : ([UInt8.ofNat service] ++ path ++ data).length ≤ 65400 := by
      have := lcu_requestPath_len _ _ _ _ hp
      simp only [List.length_append, List.length_cons, List.length_nil]
      omega
    have h1 := lcu_Fresh_one hook w _ hm
    generalize Cli.sendReq hook _ _ false = r at h1 ⊢
    obtain ⟨w2, r⟩ := r
    cases r with
    | error e => exact h1
    | ok reply =>
      dsimp only
      split <;> exact h1

/-- `_read_template` -/
theorem lcu_readTemplate_fresh {σ} (hook : ObjHook σ) (tid ods : Nat) (fuel : Nat) :
    ∀ (w : Cli.World σ) (offset : Nat) (acc : Bytes), w.drv.targetIsConnected = true →
      lcu_Fresh hook w (readTemplate hook tid ods fuel w offset acc).1 := by
  induction fuel with
  | zero => intro w offset acc _; exact .refl w
  | succ n ih =>
    intro w offset acc hcon
    rw [readTemplate]
    split
    · rename_i o nn ho hn
      have hlen : (o ++ nn).length ≤ 64000 := by
        rw [List.length_append, Pycomm.Slc.Drv.sd2_packInt_len _ _ _ ho, Pycomm.Slc.Drv.sd2_packInt_len _ _ _ hn]
        decide
      have h1 := lcu_genericConnectedRaw_fresh hook w 0x4C (.bytes [0x6c]) (.int tid) (o ++ nn) hcon hlen
      generalize genericConnectedRaw hook w 0x4C (.bytes [0x6c]) (.int tid) (o ++ nn) = r at h1 ⊢
      obtain ⟨w1, r⟩ := r
      dsimp only at h1 ⊢
      cases r with
      | error e => exact h1
      | ok reply =>
        dsimp only
        split
        · split
          · exact h1
          · split
            · exact lcu_Fresh_trans h1 (ih w1 _ _ ((lcu_Fresh_conn h1).trans hcon))
            · exact h1
        · exact h1
    · exact .refl w

/-- the page loop of `_get_instance_attribute_list_service` -/
theorem lcu_getInstanceAttributeList_fresh {σ} (hook : ObjHook σ) (program : Option Name) (wa : Bool) (fuel : Nat) :
    ∀ (w : Cli.World σ) (last : Nat) (acc : List Up.Rec), w.drv.targetIsConnected = true →
      lcu_Fresh hook w (getInstanceAttributeList hook program wa fuel w last acc).1 := by
  induction fuel with
  | zero => intro w last acc _; exact .refl w
  | succ n ih =>
    intro w last acc hcon
    rw [getInstanceAttributeList]
    cases hp : symbolListPath program last with
    | error e => exact .refl w
    | ok path =>
      dsimp only
      have h1 := lcu_Fresh_one hook w _ (lcu_symbolListMsg_len path wa (lcu_symbolListPath_len _ _ _ hp))
      generalize Cli.sendReq hook _ _ false = r at h1 ⊢
      obtain ⟨w2, r⟩ := r
      dsimp only at h1 ⊢
      cases r with
      | error e => exact h1
      | ok raw =>
        dsimp only
        split
        · exact h1
        · split
          · exact h1
          · split
            · exact h1
            · exact lcu_Fresh_trans h1 (ih w2 _ _ ((lcu_Fresh_conn h1).trans hcon))

/-- `member_data = [...]` with the recursion into nested templates -/
theorem lcu_resolveMembers_fresh {σ} (hook : ObjHook σ) (getDT : St σ → Nat → Nat → St σ × Except Exn DT)
    (hg : ∀ st a b, st.w.drv.targetIsConnected = true → lcu_Fresh hook st.w (getDT st a b).1.w) (chunks : List Bytes) :
    ∀ st : St σ, st.w.drv.targetIsConnected = true → lcu_Fresh hook st.w (resolveMembers getDT st chunks).1.w := by
  induction chunks with
  | nil => intro st _; exact .refl _
  | cons chunk rest ih =>
    intro st hcon
    rw [resolveMembers]
    split
    · exact .refl _
    · split
      · exact .refl _
      · have := ih st hcon
        generalize resolveMembers getDT st rest = r at this ⊢
        obtain ⟨st1, more⟩ := r
        exact this
      · generalize hr : getDT st _ _ = r
        have h1 : lcu_Fresh hook st.w r.1.w := hr ▸ hg st _ _ hcon
        clear hr
        obtain ⟨st1, r⟩ := r
        dsimp only at h1 ⊢
        cases r with
        | error e => exact h1
        | ok dt =>
          dsimp only
          have h2 := ih st1 ((lcu_Fresh_conn h1).trans hcon)
          generalize resolveMembers getDT st1 rest = r2 at h2 ⊢
          obtain ⟨st2, more⟩ := r2
          exact lcu_Fresh_trans h1 h2

/-- `_get_data_type` -/
theorem lcu_getDataType_fresh {σ} (hook : ObjHook σ) (fuel : Nat) :
    ∀ (st : St σ) (tid symbolType : Nat), st.w.drv.targetIsConnected = true →
      lcu_Fresh hook st.w (getDataType hook fuel st tid symbolType).1.w := by
  induction fuel with
  | zero => intro st tid symbolType _; exact .refl _
  | succ n ih =>
    intro st tid symbolType hcon
    rw [getDataType]
    split
    · exact .refl _
    · have h1 := lcu_getStructureMakeup_fresh hook st tid hcon
      generalize getStructureMakeup hook st tid = r at h1 ⊢
      obtain ⟨st1, r⟩ := r
      dsimp only at h1 ⊢
      cases r with
      | error e => exact h1
      | ok a =>
        dsimp only
        have hc1 : st1.w.drv.targetIsConnected = true := (lcu_Fresh_conn h1).trans hcon
        have h2 := lcu_readTemplate_fresh hook tid a.objectDefinitionSize TMPL_FUEL st1.w 0 [] hc1
        generalize readTemplate hook tid a.objectDefinitionSize TMPL_FUEL st1.w 0 [] = r2 at h2 ⊢
        obtain ⟨w2, r2⟩ := r2
        dsimp only at h2 ⊢
        have h12 := lcu_Fresh_trans h1 h2
        cases r2 with
        | error e => exact h12
        | ok data =>
          dsimp only
          have hc2 : ({ st1 with w := w2 } : St σ).w.drv.targetIsConnected = true := (lcu_Fresh_conn h2).trans hc1
          have h3 := lcu_resolveMembers_fresh hook (getDataType hook n) ih
            (Up.chunks8 a.memberCount (data.take (a.memberCount * Gen.TEMPLATE_MEMBER_INFO_LEN))) { st1 with w := w2 } hc2
          generalize resolveMembers (getDataType hook n) { st1 with w := w2 }
            (Up.chunks8 a.memberCount (data.take (a.memberCount * Gen.TEMPLATE_MEMBER_INFO_LEN))) = r3 at h3 ⊢
          obtain ⟨st3, r3⟩ := r3
          dsimp only at h3 ⊢
          have h123 := lcu_Fresh_trans h12 h3
          cases r3 with
          | error e => exact h123
          | ok nested =>
            dsimp only
            split <;> exact h123

/-- `_create_tag` -/
theorem lcu_createTag_fresh {σ} (hook : ObjHook σ) (st : St σ) (r : Up.Rec) (hcon : st.w.drv.targetIsConnected = true) :
    lcu_Fresh hook st.w (createTag hook st r).1.w := by
  unfold createTag
  dsimp only
  split
  · have h1 := lcu_getDataType_fresh hook DT_FUEL st (K.decodeTypeWord r.symbolType).templateId r.symbolType hcon
    generalize getDataType hook DT_FUEL st (K.decodeTypeWord r.symbolType).templateId r.symbolType = res at h1 ⊢
    obtain ⟨st1, d⟩ := res
    dsimp only at h1 ⊢
    cases d with
    | error e => exact h1
    | ok x => obtain ⟨si, t, ms⟩ := x; exact h1
  · split <;> exact .refl _

/-- `_isolate_user_tags` -/
theorem lcu_isolateUserTags_fresh {σ} (hook : ObjHook σ) (program : Option Name) (recs : List Up.Rec) :
    ∀ st : St σ, st.w.drv.targetIsConnected = true → lcu_Fresh hook st.w (isolateUserTags hook program st recs).1.w := by
  induction recs with
  | nil => intro st _; exact .refl _
  | cons r rest ih =>
    intro st hcon
    unfold isolateUserTags
    dsimp only
    split
    · exact ih { st with l := { st.l with info := noteSymbol program st.l.info r } } hcon
    · have h1 := lcu_createTag_fresh hook { st with l := { st.l with info := noteSymbol program st.l.info r } } r hcon
      generalize createTag hook { st with l := { st.l with info := noteSymbol program st.l.info r } } r = res at h1 ⊢
      obtain ⟨st1, t⟩ := res
      dsimp only at h1 ⊢
      cases t with
      | error e => exact h1
      | ok x =>
        obtain ⟨info, tagMeta⟩ := x
        dsimp only
        have h2 := ih st1 ((lcu_Fresh_conn h1).trans hcon)
        generalize isolateUserTags hook program st1 rest = r2 at h2 ⊢
        obtain ⟨st2, more⟩ := r2
        exact lcu_Fresh_trans h1 h2

/-- `_get_tag_list(program)` -/
theorem lcu_getTagListScope_fresh {σ} (hook : ObjHook σ) (st : St σ) (program : Option Name)
    (hcon : st.w.drv.targetIsConnected = true) :
    lcu_Fresh hook st.w (getTagListScope hook st program).1.w := by
  unfold getTagListScope
  dsimp only
  have h1 := lcu_getInstanceAttributeList_fresh hook program
    (decide (revisionMajor st.l.info ≥ Gen.MIN_VER_EXTERNAL_ACCESS)) PAGE_FUEL st.w 0 [] hcon
  generalize getInstanceAttributeList hook program _ PAGE_FUEL st.w 0 [] = r at h1 ⊢
  obtain ⟨w1, r⟩ := r
  dsimp only at h1 ⊢
  cases r with
  | error e => exact h1
  | ok recs =>
    dsimp only
    exact lcu_Fresh_trans h1 (lcu_isolateUserTags_fresh hook program recs { st with w := w1 } ((lcu_Fresh_conn h1).trans hcon))

/-- the loop over the programs -/
theorem lcu_programScopes_fresh {σ} (hook : ObjHook σ) (size : Nat) (progs : List Name) :
    ∀ st : St σ, st.w.drv.targetIsConnected = true → lcu_Fresh hook st.w (programScopes hook size st progs).1.w := by
  induction progs with
  | nil =>
    intro st _
    unfold programScopes
    split <;> exact .refl _
  | cons p rest ih =>
    intro st hcon
    unfold programScopes
    split
    · exact .refl _
    · dsimp only
      have h1 := lcu_getTagListScope_fresh hook st (some p) hcon
      generalize getTagListScope hook st (some p) = r at h1 ⊢
      obtain ⟨st1, r⟩ := r
      dsimp only at h1 ⊢
      cases r with
      | error e => exact h1
      | ok tags =>
        dsimp only
        have h2 := ih st1 ((lcu_Fresh_conn h1).trans hcon)
        generalize programScopes hook size st1 rest = r2 at h2 ⊢
        obtain ⟨st2, more⟩ := r2
        exact lcu_Fresh_trans h1 h2

/-- `get_tag_list`: the world after the call is the world the `@with_forward_open` decorator left when the decorator
    raised; otherwise it is reached from that world by connected requests with freshly drawn sequence counts -/
theorem lcu_getTagList_fresh {σ} (hook : ObjHook σ) (w : Cli.World σ) (l : LDrv) (allPrograms : Bool)
    (r0 : Cli.World σ × Except Exn Unit) (h0 : Cli.ensureForwardOpen hook Cli.FUEL w = r0)
    (hok : ∀ u, r0.2 = .ok u → r0.1.drv.targetIsConnected = true) :
    (∀ e, r0.2 = .error e → (getTagList hook w l allPrograms).1 = r0.1) ∧
    (∀ u, r0.2 = .ok u → lcu_Fresh hook r0.1 (getTagList hook w l allPrograms).1) := by
  unfold getTagList
  rw [h0]
  obtain ⟨w0, pre⟩ := r0
  dsimp only
  cases pre with
  | error e => exact ⟨fun _ _ => rfl, fun u h => nomatch h⟩
  | ok u =>
    refine ⟨(fun e h => nomatch h), fun _ _ => ?_⟩
    have hcon : w0.drv.targetIsConnected = true := hok u rfl
    dsimp only
    generalize hl0 : ({ l with cacheLeft := true, info := { l.info with programs := some [], tasks := some [], modules := some [] } } : LDrv) = l0
    have h1 := lcu_getTagListScope_fresh hook ({ w := w0, l := l0 } : St σ) none hcon
    generalize getTagListScope hook ({ w := w0, l := l0 } : St σ) none = r at h1 ⊢
    obtain ⟨st1, r⟩ := r
    dsimp only at h1 ⊢
    cases r with
    | error e => exact h1
    | ok ctl =>
      dsimp only
      cases allPrograms with
      | false =>
        simp only [Bool.false_eq_true, if_false]
        exact h1
      | true =>
        simp only [if_true]
        have h2 := lcu_programScopes_fresh hook ((st1.l.info.programs.getD []).map (·.1)).length
          ((st1.l.info.programs.getD []).map (·.1)) st1 ((lcu_Fresh_conn h1).trans hcon)
        generalize programScopes hook ((st1.l.info.programs.getD []).map (·.1)).length st1
          ((st1.l.info.programs.getD []).map (·.1)) = r2 at h2 ⊢
        obtain ⟨st2, r2⟩ := r2
        dsimp only at h2 ⊢
        cases r2 with
        | error e => exact lcu_Fresh_trans h1 h2
        | ok ptags => exact lcu_Fresh_trans h1 h2

end Pycomm.Lgx.Opn
