/-
  LogixDriver.read, layer (d): the reference controller (message router + Logix services behind the harness hook
  `hookAll`) answers the Read Tag request for a controller-scope elementary scalar symbol with the symbol's bytes.
-/
import PycommModel.OpsTarget
import PycommProofs.LDReadBuild
import PycommProofs.LogixE2ERead
namespace Pycomm.Lgx.Drv
open Pycomm Pycomm.Tgt Pycomm.Path Pycomm.Reply Pycomm.Lgx Pycomm.Lgx.E2E

/-! ### the symbol lookup -/

theorem ldr_find_unique {α} (l : List α) (pred : α → Bool) (s : α) (hs : s ∈ l) (hp : pred s = true)
    (hu : ∀ x ∈ l, pred x = true → x = s) : l.find? pred = some s := by
  induction l with
  | nil => cases hs
  | cons a l ih =>
    by_cases ha : pred a = true
    · rw [List.find?_cons_of_pos ha, hu a (by simp) ha]
    · rw [List.find?_cons_of_neg ha]
      rcases List.mem_cons.1 hs with rfl | hs'
      · exact absurd hp ha
      · exact ih hs' (fun x hx => hu x (List.mem_cons_of_mem _ hx))

theorem ldr_map_ofNat_inj (a b : List Nat) (ha : ∀ c ∈ a, c < 256) (hb : ∀ c ∈ b, c < 256)
    (h : a.map (fun c => UInt8.ofNat c) = b.map (fun c => UInt8.ofNat c)) : a = b := by
  induction a generalizing b with
  | nil => cases b with
    | nil => rfl
    | cons y b => cases h
  | cons x a ih =>
    cases b with
    | nil => cases h
    | cons y b =>
      simp only [List.map_cons, List.cons.injEq] at h
      have hx := ha x (by simp)
      have hy := hb y (by simp)
      have e : x = y := by
        have := congrArg UInt8.toNat h.1
        rw [EP.toNat_ofNat, EP.toNat_ofNat] at this
        omega
      rw [e, ih b (fun c hc => ha c (by simp [hc])) (fun c hc => hb c (by simp [hc])) h.2]

/-- symbol names are byte strings and the name of `s` is unique in the controller scope: the name lookup finds `s` -/
theorem ldr_find_name (p : Project) (s : Symbol) (hs : s ∈ p.controller)
    (hbytes : ∀ s' ∈ p.controller, ∀ ch ∈ s'.name, ch < 256)
    (huniq : ∀ s' ∈ p.controller, s'.name = s.name → s' = s) :
    p.controller.find? (fun s' => s'.name.map (fun c => UInt8.ofNat c) == s.name.map UInt8.ofNat) = some s := by
  apply ldr_find_unique _ _ s hs (by simp)
  intro x hx hpx
  apply huniq x hx
  exact ldr_map_ofNat_inj _ _ (hbytes x hx) (hbytes s hs) (by simpa using hpx)

theorem ldr_find_inst (p : Project) (s : Symbol) (hs : s ∈ p.controller)
    (huniq : ∀ s' ∈ p.controller, s'.inst = s.inst → s' = s) :
    p.controller.find? (fun s' => s'.inst == s.inst) = some s := by
  apply ldr_find_unique _ _ s hs (by simp)
  intro x hx hpx
  exact huniq x hx (by simpa using hpx)

theorem ldr_not_programName (n : Name) (hid : PlainIdent n) : isProgramName (n.map UInt8.ofNat) = false := by
  cases h : isProgramName (n.map UInt8.ofNat) with
  | false => rfl
  | true =>
    exfalso
    have e : (n.map UInt8.ofNat).take 8 = [80, 114, 111, 103, 114, 97, 109, 58] := by
      simpa [isProgramName] using h
    have hm : (58 : UInt8) ∈ (n.map UInt8.ofNat).take 8 := by rw [e]; decide
    obtain ⟨ch, hch, he⟩ := List.mem_map.1 (List.mem_of_mem_take hm)
    have hf := ldr_ident_facts ch (hid.2.2 ch hch)
    have := congrArg UInt8.toNat he
    rw [EP.toNat_ofNat] at this
    have h58 : (58 : UInt8).toNat = 58 := by decide
    omega

theorem ldr_foldl_mul_pos (l : List Nat) (acc : Nat) (ha : 1 ≤ acc) (hl : ∀ x ∈ l, x ≠ 0) :
    1 ≤ l.foldl (· * ·) acc := by
  induction l generalizing acc with
  | nil => exact ha
  | cons x l ih =>
    have hx : 1 ≤ x := Nat.pos_of_ne_zero (hl x (by simp))
    exact ih (acc * x) (Nat.mul_pos ha hx) (fun y hy => hl y (by simp [hy]))

theorem ldr_dimsProduct_pos (dims : List Nat) : 1 ≤ dimsProduct dims := by
  unfold dimsProduct
  apply ldr_foldl_mul_pos _ _ (Nat.le_refl 1)
  intro x hx
  simpa using (List.mem_filter.1 hx).2

/-- the location a whole controller-scope elementary symbol resolves to -/
def ldr_loc (s : Symbol) (c : Nat) : Loc :=
  { symInst := s.inst, scope := none, offset := 0, ty := .atomic c, avail := dimsProduct s.dims }

/-- (d, addressing) both renderings of a plain identifier resolve to the symbol `s` named so -/
theorem ldr_resolve (p : Project) (s : Symbol) (c sz : Nat) (useIds : Bool)
    (hid : PlainIdent s.name) (hs : s ∈ p.controller)
    (hbytes : ∀ s' ∈ p.controller, ∀ ch ∈ s'.name, ch < 256)
    (huniqN : ∀ s' ∈ p.controller, s'.name = s.name → s' = s)
    (huniqI : ∀ s' ∈ p.controller, s'.inst = s.inst → s' = s)
    (hty : elTyOfWord s.symbolType = .atomic c) (hsz : atomicSize c = some sz) (hmem : s.mem ≠ []) :
    resolve p (ldr_segs s.name s.inst useIds) = .ok (ldr_loc s c) := by
  have hme : s.mem.isEmpty = false := by
    cases h : s.mem with
    | nil => exact absurd h hmem
    | cons _ _ => rfl
  have hel : p.elSize (.atomic c) = some sz := hsz
  unfold ldr_segs
  split
  · unfold resolve
    simp only [Project.findSymbol, ldr_find_inst p s hs huniqI, Option.map_some, hme, Bool.false_eq_true, if_false,
      hty, hel, takeIndices, if_true, List.length_nil, Nat.zero_add, resolveMembers, Nat.zero_mul, ldr_loc]
  · unfold resolve
    simp only [ldr_not_programName s.name hid, Bool.false_eq_true, if_false, Project.findSymbol,
      ldr_find_name p s hs hbytes huniqN, Option.map_some, hme, hty, hel, takeIndices, if_true, List.length_nil,
      Nat.zero_add, resolveMembers, Nat.zero_mul, ldr_loc]

/-- (d, memory) the bytes of one element there are the symbol's memory -/
theorem ldr_readBytes (p : Project) (s : Symbol) (c sz : Nat) (hs : s ∈ p.controller)
    (huniqI : ∀ s' ∈ p.controller, s'.inst = s.inst → s' = s)
    (hsz : atomicSize c = some sz) (hlen : s.mem.length = sz) :
    readBytes p (ldr_loc s c) 1 = some s.mem := by
  have hel : p.elSize (.atomic c) = some sz := hsz
  unfold readBytes
  simp only [Project.symbolOf, Project.findSymbol, ldr_loc, ldr_find_inst p s hs huniqI, hel, Nat.zero_add, Nat.one_mul,
    hlen, Nat.le_refl, if_true, List.drop_zero]
  rw [← hlen, List.take_length]

/-- (d, service) the controller's answer to the Read Tag message for one element of the symbol: status 0, the type
    code and the symbol's memory; the project is untouched -/
theorem ldr_exchange (st : LState) (cap : Nat) (s : Symbol) (c sz : Nat) (useIds : Bool) (path : Bytes)
    (hid : PlainIdent s.name) (hs : s ∈ st.proj.controller)
    (hbytes : ∀ s' ∈ st.proj.controller, ∀ ch ∈ s'.name, ch < 256)
    (huniqN : ∀ s' ∈ st.proj.controller, s'.name = s.name → s' = s)
    (huniqI : ∀ s' ∈ st.proj.controller, s'.inst = s.inst → s' = s)
    (hty : elTyOfWord s.symbolType = .atomic c) (hsz : atomicSize c = some sz) (hlen : s.mem.length = sz)
    (hpos : 0 < sz) (hp : Denotes path (ldr_segs s.name s.inst useIds)) (hfit : sz + 6 ≤ cap) :
    Cl.exchange st cap (Cl.readMsg path 1) =
      ({ st with ctr := st.ctr + 1 }, { status := 0, data := le 2 c ++ s.mem }) := by
  have hmem : s.mem ≠ [] := by
    intro h; rw [h] at hlen; simp at hlen; omega
  have hr := ldr_resolve st.proj s c sz useIds hid hs hbytes huniqN huniqI hty hsz hmem
  have hb := ldr_readBytes st.proj s c sz hs huniqI hsz hlen
  have hav := ldr_dimsProduct_pos s.dims
  have := read_e2e st cap path _ (ldr_loc s c) 1 s.mem hp hr ⟨Nat.le_refl 1, hav, by omega⟩ hb
    (by simp only [ldr_loc, typeBytes, le, RT.leBytes_length]; omega)
  simpa only [ldr_loc, typeBytes] using this

/-! ### the message router in front of the Logix services -/

/-- the request the message router parses out of the Read Tag message -/
def ldr_readReq (segs : List PSeg) (n : Nat) : MRReq := { service := 0x4C, path := segs, data := le 2 n }

/-- (d, routing) a connected Read Tag message whose path addresses a tag is handed by the message router to the
    Logix services of the harness hook; the reply is the one `exchange` computes -/
theorem ldr_execMR_read (t : Target Ext) (st : LState) (hst : t.ext.logix = some st) (sess cap : Nat)
    (path : Bytes) (segs : List PSeg) (loc : Loc) (n : Nat)
    (hp : Denotes path segs) (hr : resolve st.proj segs = .ok loc)
    (htag : (∃ nmb, segs = [.symbol nmb]) ∨ (∃ i, segs = [.logical 0 0x6B, .logical 4 i])) :
    execMR hookAll t sess (some cap) true false [] (Cl.readMsg path n) =
      ({ base := t.base.event (.mr true false (ldr_readReq segs n) []),
         ext := { t.ext with logix := some (Cl.exchange st cap (Cl.readMsg path n)).1 } },
       encMRReply 0x4C (Cl.exchange st cap (Cl.readMsg path n)).2) := by
  have hpm : parseMR (Cl.readMsg path n) = some (ldr_readReq segs n) := by
    have := parseMR_msg 0x4C path (le 2 n) segs hp
    simpa [Cl.readMsg, ldr_readReq] using this
  have hls : logixService st (ldr_readReq segs n) (some cap) = some (Cl.exchange st cap (Cl.readMsg path n)) := by
    unfold Cl.exchange
    rw [hpm]
    have h1 : single st (ldr_readReq segs n) cap = some (tagAnswer st loc 0x4C (le 2 n) cap) :=
      single_of_resolve st (ldr_readReq segs n) cap loc hr (Or.inl rfl)
    have h2 : logixService st (ldr_readReq segs n) (some cap) = some (tagAnswer st loc 0x4C (le 2 n) cap) := by
      simp only [logixService, Option.getD_some]
      rw [if_neg (by simp [ldr_readReq]), h1]
    rw [h2]
    simp only [h2]
  unfold execMR
  rw [hpm]
  rcases htag with ⟨nmb, rfl⟩ | ⟨i, rfl⟩
  · cases hslc : t.ext.slc <;>
      simp only [ldr_readReq, classInst, baseObject, hookAll, hslc, hst] <;>
      simp only [ldr_readReq] at hls <;> rw [hls]
  · cases hslc : t.ext.slc <;>
      simp only [ldr_readReq, classInst, baseObject, hookAll, hslc, hst] <;>
      simp only [ldr_readReq] at hls <;> rw [hls]

end Pycomm.Lgx.Drv
