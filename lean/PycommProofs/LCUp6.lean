/-
  Helper lemmas for C10 over histories with the uploads of the LogixDriver.  Part 6: WHEN the corner-case exceptions
  of the uploads occur.
  * `.hang` (the real call would not return): only when the page loop ran through all of its `PAGE_FUEL` rounds, each
    page answered with general status 6 (`lcu_pagesCont`), or a template read ran through `TMPL_FUEL` rounds, each
    fragment answered with status 6 (`lcu_tmplCont`), or structure definitions are nested deeper than `DT_FUEL`
    levels (`lcu_dtHang`; the real code ends with RecursionError wrapped into ResponseError).  Parsing a page never
    runs out of fuel (`lcu_parseRecords_nohang`).
  * RuntimeError: only from the loop over `_info["programs"]`, when the number of its keys is not the number the loop
    started with (`lcu_SizeChanged`); the number changes only when a symbol whose name starts with `Program:` is
    listed inside a program scope (`lcu_scope_programs`).
-/
import PycommProofs.LCUp5
namespace Pycomm.Lgx.Opn
open Pycomm.Tgt Pycomm.Encap Pycomm.Path Pycomm.Reply Pycomm.Lgx

/-! ### parsing a page of symbol records makes progress -/

theorem lcu_bind_ok {α β} (x : Except Exn α) (f : α → Except Exn β) (y : β) (h : x >>= f = .ok y) :
    ∃ a, x = .ok a ∧ f a = .ok y := by
  cases x with
  | error e => cases h
  | ok a => exact ⟨a, rfl, h⟩

theorem lcu_streamRead_le (size : Int) (bs got rest : Bytes) (h : streamRead size bs = .ok (got, rest)) :
    rest.length ≤ bs.length ∧ (0 < size → rest.length < bs.length) := by
  unfold streamRead at h
  by_cases hneg : size < 0
  · simp only [hneg, if_true] at h
    split at h
    · cases h
    · simp only [Except.ok.injEq, Prod.mk.injEq] at h
      rw [← h.2]
      exact ⟨by simp, fun hs => by omega⟩
  · simp only [hneg, if_false] at h
    split at h
    · cases h
    · rename_i hne
      simp only [Except.ok.injEq, Prod.mk.injEq] at h
      rw [← h.2]
      refine ⟨by simp, fun hs => ?_⟩
      have hb : 0 < bs.length := by
        cases bs with
        | nil => simp at hne
        | cons _ _ => simp
      have hpos : 0 < size.toNat := by omega
      simp only [List.length_drop]
      omega

theorem lcu_decodeIntNat_lt (k : IntK) (bs : Bytes) (v : Nat) (r : Bytes) (h : decodeIntNat k bs = .ok (v, r)) :
    r.length < bs.length := by
  unfold decodeIntNat at h
  obtain ⟨⟨d, rest⟩, h1, h2⟩ := lcu_bind_ok _ _ _ h
  dsimp only at h2
  split at h2
  · cases h2
  · simp only [Except.ok.injEq, Prod.mk.injEq] at h2
    rw [← h2.2]
    exact (lcu_streamRead_le _ _ _ _ h1).2 (by cases k <;> decide)

theorem lcu_decodeStr_le (lk : IntK) (enc : Enc) (bs : Bytes) (v : PyVal) (r : Bytes) (h : decodeStr lk enc bs = .ok (v, r)) :
    r.length ≤ bs.length := by
  unfold decodeStr at h
  obtain ⟨⟨n, rest⟩, h1, h2⟩ := lcu_bind_ok _ _ _ h
  have hl := lcu_decodeIntNat_lt _ _ _ _ h1
  dsimp only at h2
  split at h2
  · simp only [Except.ok.injEq, Prod.mk.injEq] at h2
    rw [← h2.2]; omega
  · obtain ⟨⟨d, rest'⟩, h3, h4⟩ := lcu_bind_ok _ _ _ h2
    have hl2 := (lcu_streamRead_le _ _ _ _ h3).1
    dsimp only at h4
    split at h4
    · cases h4
    · split at h4
      · simp only [Except.ok.injEq, Prod.mk.injEq] at h4
        rw [← h4.2]; omega
      · cases h4

theorem lcu_parseRecord_lt (wa : Bool) (bs : Bytes) (rec : Up.Rec) (rest : Bytes)
    (h : Up.parseRecord wa bs = .ok (rec, rest)) : rest.length < bs.length := by
  unfold Up.parseRecord at h
  obtain ⟨⟨v1, r1⟩, h1, h⟩ := lcu_bind_ok _ _ _ h
  have l1 := lcu_decodeIntNat_lt _ _ _ _ h1
  dsimp only at h
  obtain ⟨⟨v2, r2⟩, h2, h⟩ := lcu_bind_ok _ _ _ h
  have l2 := lcu_decodeStr_le _ _ _ _ _ h2
  dsimp only at h
  obtain ⟨⟨v3, r3⟩, h3, h⟩ := lcu_bind_ok _ _ _ h
  have l3 := lcu_decodeIntNat_lt _ _ _ _ h3
  dsimp only at h
  obtain ⟨⟨v4, r4⟩, h4, h⟩ := lcu_bind_ok _ _ _ h
  have l4 := lcu_decodeIntNat_lt _ _ _ _ h4
  dsimp only at h
  obtain ⟨⟨v5, r5⟩, h5, h⟩ := lcu_bind_ok _ _ _ h
  have l5 := lcu_decodeIntNat_lt _ _ _ _ h5
  dsimp only at h
  obtain ⟨⟨v6, r6⟩, h6, h⟩ := lcu_bind_ok _ _ _ h
  have l6 := lcu_decodeIntNat_lt _ _ _ _ h6
  dsimp only at h
  obtain ⟨⟨v7, r7⟩, h7, h⟩ := lcu_bind_ok _ _ _ h
  have l7 := lcu_decodeIntNat_lt _ _ _ _ h7
  dsimp only at h
  obtain ⟨⟨v8, r8⟩, h8, h⟩ := lcu_bind_ok _ _ _ h
  have l8 := lcu_decodeIntNat_lt _ _ _ _ h8
  dsimp only at h
  obtain ⟨⟨v9, r9⟩, h9, h⟩ := lcu_bind_ok _ _ _ h
  have l9 := lcu_decodeIntNat_lt _ _ _ _ h9
  dsimp only at h
  split at h
  · obtain ⟨⟨v10, r10⟩, h10, h⟩ := lcu_bind_ok _ _ _ h
    have l10 := lcu_decodeIntNat_lt _ _ _ _ h10
    dsimp only at h
    simp only [Except.ok.injEq, Prod.mk.injEq] at h
    rw [← h.2]; omega
  · simp only [Except.ok.injEq, Prod.mk.injEq] at h
    rw [← h.2]; omega

theorem lcu_parseRecords_nohang (wa : Bool) (fuel : Nat) : ∀ bs : Bytes, bs.length < fuel →
    Up.parseRecords wa fuel bs ≠ .error .hang := by
  induction fuel with
  | zero => intro bs h; omega
  | succ n ih =>
    intro bs hl
    rw [Up.parseRecords]
    split
    · exact fun h => nomatch h
    · split
      · exact fun h => nomatch h
      · rename_i rec rest hp
        have := lcu_parseRecord_lt wa bs rec rest hp
        have h2 := ih rest (by omega)
        split
        · rename_i e he
          intro h; cases h; exact h2 he
        · exact fun h => nomatch h

/-! ### the fuel marker -/

/-- `n` further rounds of the page loop from world `w` and continuation instance `last`: every request can be built
    and is answered by a valid reply that parses and asks for more (`Up.nextInstance … = some next` ⟺ general status 6) -/
def lcu_pagesCont {σ} (hook : ObjHook σ) (program : Option Name) (wa : Bool) : Nat → Cli.World σ → Nat → Prop
  | 0, _, _ => True
  | n + 1, w, last =>
      ∃ path raw recs next, symbolListPath program last = .ok path ∧
        (Cli.sendReq hook { w with drv := w.drv.nextSeq.2 } (.sendUnit w.drv.nextSeq.1 (symbolListMsg path wa)) false).2 = .ok raw ∧
        validCip .connected (parseCip raw .connected) = true ∧
        Up.parseRecords wa (((parseCip raw .connected).data.getD []).length + 1) ((parseCip raw .connected).data.getD []) = .ok recs ∧
        Up.nextInstance ((parseCip raw .connected).serviceStatus.getD 0) recs = some next ∧
        lcu_pagesCont hook program wa n
          (Cli.sendReq hook { w with drv := w.drv.nextSeq.2 } (.sendUnit w.drv.nextSeq.1 (symbolListMsg path wa)) false).1 next

/-- the page loop ends with the fuel marker only after `fuel` such rounds -/
theorem lcu_gial_hang {σ} (hook : ObjHook σ) (program : Option Name) (wa : Bool) (fuel : Nat) :
    ∀ (w : Cli.World σ) (last : Nat) (acc : List Up.Rec),
      (getInstanceAttributeList hook program wa fuel w last acc).2 = .error .hang → lcu_pagesCont hook program wa fuel w last := by
  induction fuel with
  | zero => intro w last acc _; trivial
  | succ n ih =>
    intro w last acc
    rw [getInstanceAttributeList]
    cases hp : symbolListPath program last with
    | error e => exact fun h => nomatch h
    | ok path =>
      dsimp only
      rcases hsr : Cli.sendReq hook { w with drv := w.drv.nextSeq.2 } (.sendUnit w.drv.nextSeq.1 (symbolListMsg path wa)) false with ⟨w2, r⟩
      dsimp only
      cases r with
      | error e =>
        intro h
        have he : Cli.LcLib e := Cli.lc_sendReq_lib hook _ _ _ e (by rw [hsr])
        simp only [lcu_wrap_lib e he] at h
        cases h
      | ok raw =>
        dsimp only
        split
        · exact fun h => nomatch h
        · rename_i hv
          split
          · rename_i e hpe
            intro h
            simp only [Except.error.injEq] at h
            rcases lcu_wrap_cases e with h1 | ⟨h1, _⟩ | ⟨h1, h2⟩
            · rw [h1] at h; cases h
            · subst h1
              exact absurd hpe (lcu_parseRecords_nohang wa _ _ (Nat.lt_succ_self _))
            · rw [h2] at h; cases h
          · rename_i recs hpr
            split
            · exact fun h => nomatch h
            · rename_i next hn
              intro h
              refine ⟨path, raw, recs, next, hp, by rw [hsr], by simpa using hv, hpr, hn, ?_⟩
              rw [hsr]
              exact ih w2 next _ h

/-- `n` further rounds of the template read from world `w` and byte offset `offset`: every request is answered with
    status 6 (more data) and carries data -/
def lcu_tmplCont {σ} (hook : ObjHook σ) (tid ods : Nat) : Nat → Cli.World σ → Nat → Prop
  | 0, _, _ => True
  | n + 1, w, offset =>
      ∃ o nn reply d, packInt .dint (.int offset) = .ok o ∧
        packInt .uint (.int (((ods * 4 : Nat) : Int) - 21 - (offset : Nat))) = .ok nn ∧
        (genericConnectedRaw hook w 0x4C (.bytes [0x6c]) (.int tid) (o ++ nn)).2 = .ok reply ∧
        (parseCip reply .connected).serviceStatus = some Gen.INSUFFICIENT_PACKETS ∧ (parseCip reply .connected).data = some d ∧
        lcu_tmplCont hook tid ods n (genericConnectedRaw hook w 0x4C (.bytes [0x6c]) (.int tid) (o ++ nn)).1 (offset + d.length)

theorem lcu_readTemplate_hang {σ} (hook : ObjHook σ) (tid ods : Nat) (fuel : Nat) :
    ∀ (w : Cli.World σ) (offset : Nat) (acc : Bytes),
      (readTemplate hook tid ods fuel w offset acc).2 = .error .hang → lcu_tmplCont hook tid ods fuel w offset := by
  induction fuel with
  | zero => intro w offset acc _; trivial
  | succ n ih =>
    intro w offset acc
    rw [readTemplate]
    split
    · rename_i o nn ho hn
      have hlib := lcu_genericConnectedRaw_err hook w 0x4C (.bytes [0x6c]) (.int tid) (o ++ nn)
      rcases hg : genericConnectedRaw hook w 0x4C (.bytes [0x6c]) (.int tid) (o ++ nn) with ⟨w1, r⟩
      rw [hg] at hlib
      dsimp only at hlib ⊢
      cases r with
      | error e =>
        intro h
        simp only [lcu_wrap_lib e (hlib e rfl)] at h
        cases h
      | ok reply =>
        dsimp only
        split
        · rename_i status d hs hd
          split
          · exact fun h => nomatch h
          · split
            · rename_i h6
              intro h
              refine ⟨o, nn, reply, d, ho, hn, by rw [hg], by rw [hs, h6], hd, ?_⟩
              rw [hg]
              exact ih w1 _ _ h
            · exact fun h => nomatch h
        · exact fun h => nomatch h
    · exact fun h => nomatch h

theorem lcu_mapM_err {α β} (f : α → Except Exn β) (xs : List α) (e : Exn) (h : xs.mapM f = .error e) :
    ∃ x ∈ xs, f x = .error e := by
  induction xs with
  | nil => simp [List.mapM_nil, pure, Except.pure] at h
  | cons x rest ih =>
    rw [List.mapM_cons] at h
    cases hx : f x with
    | error e' =>
      rw [hx] at h
      simp only [bind, Except.bind] at h
      cases h
      exact ⟨x, List.mem_cons_self, hx⟩
    | ok y =>
      rw [hx] at h
      simp only [bind, Except.bind] at h
      cases hr : rest.mapM f with
      | error e' =>
        rw [hr] at h
        simp only at h
        cases h
        obtain ⟨z, hz, hfz⟩ := ih hr
        exact ⟨z, List.mem_cons_of_mem _ hz, hfz⟩
      | ok ys => rw [hr] at h; simp [pure, Except.pure] at h

theorem lcu_parseMemberInfo_err (chunk : Bytes) (e : Exn) (h : Up.parseMemberInfo chunk = .error e) :
    e = .bufferEmpty ∨ e = .data := by
  unfold Up.parseMemberInfo at h
  cases h1 : decodeIntNat .uint chunk with
  | error e1 => rw [h1] at h; simp only [bind, Except.bind] at h; cases h; exact RP.decodeIntNat_error_class _ _ _ h1
  | ok p1 =>
    obtain ⟨v1, r1⟩ := p1
    rw [h1] at h; simp only [bind, Except.bind] at h
    cases h2 : decodeIntNat .uint r1 with
    | error e2 => rw [h2] at h; simp only at h; cases h; exact RP.decodeIntNat_error_class _ _ _ h2
    | ok p2 =>
      obtain ⟨v2, r2⟩ := p2
      rw [h2] at h; simp only at h
      cases h3 : decodeIntNat .udint r2 with
      | error e3 => rw [h3] at h; simp only at h; cases h; exact RP.decodeIntNat_error_class _ _ _ h3
      | ok p3 => rw [h3] at h; simp only at h; cases h

theorem lcu_bind_err {α β} (x : Except Exn α) (f : α → Except Exn β) (e : Exn) (h : x >>= f = .error e) :
    x = .error e ∨ ∃ a, x = .ok a ∧ f a = .error e := by
  cases x with
  | error e' => cases h; exact .inl rfl
  | ok a => exact .inr ⟨a, rfl, h⟩

theorem lcu_parseTemplate_err (count symbolType : Nat) (data : Bytes) (e : Exn)
    (h : Up.parseTemplate count symbolType data = .error e) : e = .bufferEmpty ∨ e = .data := by
  unfold Up.parseTemplate at h
  dsimp only at h
  rcases lcu_bind_err _ _ _ h with hm | ⟨infos, _, h2⟩
  · obtain ⟨x, _, hx⟩ := lcu_mapM_err _ _ _ hm
    exact lcu_parseMemberInfo_err x e hx
  · cases h2

theorem lcu_parseTemplateData_nohang (data : Bytes) (a : TemplateAttrs) (symbolType : Nat) (nested : List (Option DT)) :
    parseTemplateData data a symbolType nested ≠ .error .hang := by
  unfold parseTemplateData
  split
  · rename_i e he
    intro h
    cases h
    rcases lcu_parseTemplate_err _ _ _ _ he with h1 | h1 <;> cases h1
  · split
    · exact fun h => nomatch h
    · split
      · exact fun h => nomatch h
      · exact fun h => nomatch h

/-- the members are resolved without the fuel marker unless a nested `_get_data_type` ends with it -/
theorem lcu_resolveMembers_hang {σ} (getDT : St σ → Nat → Nat → St σ × Except Exn DT) (chunks : List Bytes) :
    ∀ st : St σ, (resolveMembers getDT st chunks).2 = .error .hang → ∃ st' a b, (getDT st' a b).2 = .error .hang := by
  induction chunks with
  | nil => intro st h; cases h
  | cons chunk rest ih =>
    intro st
    rw [resolveMembers]
    split
    · rename_i e he
      intro h
      cases h
      rcases lcu_parseMemberInfo_err _ _ he with h1 | h1 <;> cases h1
    · split
      · rename_i e he
        intro h
        cases h
        unfold memberIsStruct at he
        split at he
        · cases he
        · split at he
          · cases he
          · cases he
      · have := ih st
        generalize resolveMembers getDT st rest = r at this ⊢
        obtain ⟨st1, more⟩ := r
        intro h
        apply this
        cases more with
        | error e => exact h
        | ok xs => cases h
      · generalize hr : getDT st _ _ = r
        obtain ⟨st1, r⟩ := r
        dsimp only
        cases r with
        | error e =>
          intro h
          cases h
          exact ⟨st, _, _, by rw [hr]⟩
        | ok dt =>
          dsimp only
          have := ih st1
          generalize resolveMembers getDT st1 rest = r2 at this ⊢
          obtain ⟨st2, more⟩ := r2
          intro h
          apply this
          cases more with
          | error e => exact h
          | ok xs => cases h

/-- a template read of `TMPL_FUEL` rounds somewhere in the upload -/
def lcu_TmplHang {σ} (hook : ObjHook σ) : Prop := ∃ tid ods w, lcu_tmplCont hook tid ods TMPL_FUEL w 0

/-- the call `_get_data_type(tid)` with `fuel` levels left descends through `fuel` nested structure definitions, none
    of them cached, each with its attributes and its definition read successfully -/
def lcu_dtHang {σ} (hook : ObjHook σ) : Nat → St σ → Nat → Prop
  | 0, _, _ => True
  | n + 1, st, tid => natGet st.cache.idUdt tid = none ∧
      ∃ st1 a w2 data, getStructureMakeup hook st tid = (st1, .ok a) ∧
        readTemplate hook tid a.objectDefinitionSize TMPL_FUEL st1.w 0 [] = (w2, .ok data) ∧
        ∃ st' tid', lcu_dtHang hook n st' tid'

theorem lcu_getDataType_hang {σ} (hook : ObjHook σ) (fuel : Nat) :
    ∀ (st : St σ) (tid symbolType : Nat), (getDataType hook fuel st tid symbolType).2 = .error .hang →
      lcu_TmplHang hook ∨ lcu_dtHang hook fuel st tid := by
  induction fuel with
  | zero => intro st tid symbolType _; exact .inr trivial
  | succ n ih =>
    intro st tid symbolType
    rw [getDataType]
    split
    · exact fun h => nomatch h
    · rename_i hcache
      have hlib := lcu_getStructureMakeup_err hook st tid
      rcases hg : getStructureMakeup hook st tid with ⟨st1, r⟩
      rw [hg] at hlib
      dsimp only at hlib ⊢
      cases r with
      | error e =>
        intro h
        simp only [lcu_wrap_lib e (hlib e rfl)] at h
        cases h
      | ok a =>
        dsimp only
        rcases hrt : readTemplate hook tid a.objectDefinitionSize TMPL_FUEL st1.w 0 [] with ⟨w2, r2⟩
        dsimp only
        cases r2 with
        | error e =>
          intro h
          simp only [Except.error.injEq] at h
          rcases lcu_wrap_cases e with h1 | ⟨h1, _⟩ | ⟨_, h2⟩
          · rw [h1] at h; cases h
          · subst h1
            exact .inl ⟨tid, a.objectDefinitionSize, st1.w,
              lcu_readTemplate_hang hook tid a.objectDefinitionSize TMPL_FUEL st1.w 0 [] (by rw [hrt])⟩
          · rw [h2] at h; cases h
        | ok data =>
          dsimp only
          have hres := lcu_resolveMembers_hang (getDataType hook n)
            (Up.chunks8 a.memberCount (data.take (a.memberCount * Gen.TEMPLATE_MEMBER_INFO_LEN))) { st1 with w := w2 }
          generalize resolveMembers (getDataType hook n) { st1 with w := w2 }
            (Up.chunks8 a.memberCount (data.take (a.memberCount * Gen.TEMPLATE_MEMBER_INFO_LEN))) = r3 at hres ⊢
          obtain ⟨st3, r3⟩ := r3
          dsimp only at hres ⊢
          cases r3 with
          | error e =>
            intro h
            simp only [Except.error.injEq] at h
            rcases lcu_wrap_cases e with h1 | ⟨h1, _⟩ | ⟨_, h2⟩
            · rw [h1] at h; cases h
            · subst h1
              obtain ⟨st', a', b', hh⟩ := hres rfl
              rcases ih st' a' b' hh with h3 | h3
              · exact .inl h3
              · exact .inr ⟨hcache, st1, a, w2, data, hg, hrt, st', a', h3⟩
            · rw [h2] at h; cases h
          | ok nested =>
            dsimp only
            split
            · rename_i e he
              intro h
              simp only [Except.error.injEq] at h
              rcases lcu_wrap_cases e with h1 | ⟨h1, _⟩ | ⟨_, h2⟩
              · rw [h1] at h; cases h
              · subst h1; exact absurd he (lcu_parseTemplateData_nohang _ _ _ _)
              · rw [h2] at h; cases h
            · exact fun h => nomatch h

/-- where the fuel marker of an upload can come from -/
def lcu_HangSrc {σ} (hook : ObjHook σ) : Prop :=
  (∃ program wa w, lcu_pagesCont hook program wa PAGE_FUEL w 0) ∨ lcu_TmplHang hook ∨
  (∃ st tid, lcu_dtHang hook DT_FUEL st tid)

/-- the fuel marker has one of the three sources -/
def lcu_HangP {σ} (hook : ObjHook σ) (e : Exn) : Prop := e = .hang → lcu_HangSrc hook

theorem lcu_hangP_wrap {σ} (hook : ObjHook σ) (e : Exn) (h : lcu_HangP hook e) : lcu_HangP hook (wrapResponse e) := by
  intro hw
  rcases lcu_wrap_cases e with h1 | ⟨h1, _⟩ | ⟨_, h2⟩
  · rw [h1] at hw; cases hw
  · exact h h1
  · rw [h2] at hw; cases hw

theorem lcu_hangP_lib {σ} (hook : ObjHook σ) (e : Exn) (h : Cli.LcLib e) : lcu_HangP hook e :=
  fun he => absurd he (lcu_lib_ne_hang e h)

theorem lcu_createTag_hang {σ} (hook : ObjHook σ) (st : St σ) (r : Up.Rec) :
    lcu_ErrIn (lcu_HangP hook) (createTag hook st r).2 := by
  unfold createTag
  dsimp only
  split
  · have h1 := lcu_getDataType_hang hook DT_FUEL st (K.decodeTypeWord r.symbolType).templateId r.symbolType
    generalize getDataType hook DT_FUEL st (K.decodeTypeWord r.symbolType).templateId r.symbolType = res at h1 ⊢
    obtain ⟨st1, d⟩ := res
    dsimp only at h1 ⊢
    cases d with
    | error e =>
      refine lcu_ErrIn_err _ _ ?_
      intro he
      subst he
      rcases h1 rfl with h2 | h2
      · exact .inr (.inl h2)
      · exact .inr (.inr ⟨st, _, h2⟩)
    | ok x => obtain ⟨si, t, ms⟩ := x; exact lcu_ErrIn_ok _ _
  · split
    · exact lcu_ErrIn_err _ _ (fun h => nomatch h)
    · exact lcu_ErrIn_ok _ _

theorem lcu_isolateUserTags_hang {σ} (hook : ObjHook σ) (program : Option Name) (recs : List Up.Rec) :
    ∀ st : St σ, lcu_ErrIn (lcu_HangP hook) (isolateUserTags hook program st recs).2 := by
  induction recs with
  | nil => intro st; exact lcu_ErrIn_ok _ _
  | cons r rest ih =>
    intro st
    unfold isolateUserTags
    dsimp only
    split
    · exact ih _
    · have h1 := lcu_createTag_hang hook { st with l := { st.l with info := noteSymbol program st.l.info r } } r
      generalize createTag hook _ r = res at h1 ⊢
      obtain ⟨st1, t⟩ := res
      dsimp only at h1 ⊢
      cases t with
      | error e => exact lcu_ErrIn_err _ _ (lcu_hangP_wrap hook e (h1 e rfl))
      | ok x =>
        obtain ⟨info, tagMeta⟩ := x
        dsimp only
        have h2 := ih st1
        generalize isolateUserTags hook program st1 rest = r2 at h2 ⊢
        obtain ⟨st2, more⟩ := r2
        exact lcu_ErrIn_map _ _ _ h2

theorem lcu_getTagListScope_hang {σ} (hook : ObjHook σ) (st : St σ) (program : Option Name) :
    lcu_ErrIn (lcu_HangP hook) (getTagListScope hook st program).2 := by
  unfold getTagListScope
  dsimp only
  have h1 := lcu_gial_hang hook program (decide (revisionMajor st.l.info ≥ Gen.MIN_VER_EXTERNAL_ACCESS)) PAGE_FUEL st.w 0 []
  generalize getInstanceAttributeList hook program _ PAGE_FUEL st.w 0 [] = r at h1 ⊢
  obtain ⟨w1, r⟩ := r
  dsimp only at h1 ⊢
  cases r with
  | error e =>
    refine lcu_ErrIn_err _ _ ?_
    intro he
    subst he
    exact .inl ⟨program, _, st.w, h1 rfl⟩
  | ok recs => exact lcu_isolateUserTags_hang hook program recs _

theorem lcu_programScopes_hang {σ} (hook : ObjHook σ) (size : Nat) (progs : List Name) :
    ∀ st : St σ, lcu_ErrIn (lcu_HangP hook) (programScopes hook size st progs).2 := by
  induction progs with
  | nil =>
    intro st
    unfold programScopes
    split
    · exact lcu_ErrIn_err _ _ (fun h => nomatch h)
    · exact lcu_ErrIn_ok _ _
  | cons p rest ih =>
    intro st
    unfold programScopes
    split
    · exact lcu_ErrIn_err _ _ (fun h => nomatch h)
    · dsimp only
      have h1 := lcu_getTagListScope_hang hook st (some p)
      generalize getTagListScope hook st (some p) = r at h1 ⊢
      obtain ⟨st1, r⟩ := r
      dsimp only at h1 ⊢
      cases r with
      | error e => exact lcu_ErrIn_err _ _ (h1 e rfl)
      | ok tags =>
        dsimp only
        have h2 := ih st1
        generalize programScopes hook size st1 rest = r2 at h2 ⊢
        obtain ⟨st2, more⟩ := r2
        exact lcu_ErrIn_map _ _ _ h2

theorem lcu_getTagList_hang {σ} (hook : ObjHook σ) (w : Cli.World σ) (l : LDrv) (allPrograms : Bool) :
    lcu_ErrIn (lcu_HangP hook) (getTagList hook w l allPrograms).2.2 := by
  unfold getTagList
  have h0 : lcu_ErrIn Cli.LcLib (Cli.ensureForwardOpen hook Cli.FUEL w).2 := fun e he => Cli.lc_efo_lib hook 5 w e he
  generalize Cli.ensureForwardOpen hook Cli.FUEL w = r0 at h0 ⊢
  obtain ⟨w0, pre⟩ := r0
  dsimp only at h0 ⊢
  cases pre with
  | error e => exact lcu_ErrIn_err _ _ (lcu_hangP_lib hook e (h0 e rfl))
  | ok u =>
    dsimp only
    generalize hl0 : ({ l with cacheLeft := true, info := { l.info with programs := some [], tasks := some [], modules := some [] } } : LDrv) = l0
    have h1 := lcu_getTagListScope_hang hook ({ w := w0, l := l0 } : St σ) none
    generalize getTagListScope hook ({ w := w0, l := l0 } : St σ) none = r at h1 ⊢
    obtain ⟨st1, r⟩ := r
    dsimp only at h1 ⊢
    cases r with
    | error e => exact lcu_ErrIn_err _ _ (h1 e rfl)
    | ok ctl =>
      dsimp only
      cases allPrograms with
      | false =>
        simp only [Bool.false_eq_true, if_false]
        exact lcu_ErrIn_ok _ _
      | true =>
        simp only [if_true]
        have h2 := lcu_programScopes_hang hook ((st1.l.info.programs.getD []).map (·.1)).length
          ((st1.l.info.programs.getD []).map (·.1)) st1
        generalize programScopes hook ((st1.l.info.programs.getD []).map (·.1)).length st1
          ((st1.l.info.programs.getD []).map (·.1)) = r2 at h2 ⊢
        obtain ⟨st2, r2⟩ := r2
        dsimp only at h2 ⊢
        cases r2 with
        | error e => exact lcu_ErrIn_err _ _ (h2 e rfl)
        | ok ptags => exact lcu_ErrIn_ok _ _

theorem lcu_initializeDriver_hang {σ} (hook : ObjHook σ) (cfg : Config) (w : Cli.World σ) (l : LDrv) :
    lcu_ErrIn (lcu_HangP hook) (initializeDriver hook cfg w l).2.2 := by
  rw [lcu_initF_eq]
  refine lcu_initF_err cfg _ _ _ _ _ _ _ _ ?_ ?_ ?_ ?_ w l
  · exact fun w => lcu_ErrIn_mono _ (lcu_listIdentity_err hook w) (lcu_hangP_lib hook)
  · exact fun w m => lcu_ErrIn_mono _ (lcu_getPlcInfo_err hook w m) (fun e h => h ▸ lcu_hangP_lib hook _ Cli.lc_lib_response)
  · exact fun w => lcu_ErrIn_mono _ (lcu_getPlcName_err hook w) (lcu_hangP_lib hook)
  · exact fun w l b _ _ => lcu_getTagList_hang hook w l b

theorem lcu_openLogixSt_hang {σ} (hook : ObjHook σ) (cfg : Config) (w : Cli.World σ) (l : LDrv) (rnd : Bytes) :
    lcu_ErrIn (lcu_HangP hook) (openLogixSt hook cfg w l rnd).2.2 := by
  unfold openLogixSt
  have h1 : lcu_ErrIn (fun e => e = .comm) (Cli.openDrv hook w rnd).2 := fun e he => Cli.lc_openDrv_err hook w rnd e he
  generalize Cli.openDrv hook w rnd = r1 at h1 ⊢
  obtain ⟨w1, r⟩ := r1
  dsimp only at h1 ⊢
  cases r with
  | error e => exact lcu_ErrIn_err _ _ (lcu_hangP_lib hook e (h1 e rfl ▸ Cli.lc_lib_comm))
  | ok b =>
    cases b with
    | false => exact lcu_ErrIn_ok _ _
    | true =>
      dsimp only
      have h2 := lcu_initializeDriver_hang hook cfg w1 l
      generalize initializeDriver hook cfg w1 l = r2 at h2 ⊢
      obtain ⟨w2, l2, r2⟩ := r2
      exact lcu_ErrIn_map _ _ _ h2

/-! ### RuntimeError -/

/-- the loop `for prog in self._info["programs"]` meets a dict whose size is not `size` any more: at once, or after
    the scopes of some programs were uploaded successfully -/
inductive lcu_SizeChanged {σ} (hook : ObjHook σ) (size : Nat) : St σ → List Name → Prop
  | here (st : St σ) (progs : List Name) : (st.l.info.programs.getD []).length ≠ size → lcu_SizeChanged hook size st progs
  | later (st : St σ) (p : Name) (rest : List Name) (st1 : St σ) (tags : List (Name × Drv.TagInfo × TagMeta)) :
      (st.l.info.programs.getD []).length = size → getTagListScope hook st (some p) = (st1, .ok tags) →
      lcu_SizeChanged hook size st1 rest → lcu_SizeChanged hook size st (p :: rest)

theorem lcu_soft_ne_runtime (e : Exn) (h : lcu_Soft e) : e ≠ .foreign "RuntimeError" := by
  rcases h with h | h | h
  · rcases h with rfl | rfl | rfl | rfl | rfl <;> exact fun h' => nomatch h'
  · subst h; exact fun h' => nomatch h'
  · subst h; intro h'; injection h' with h'; revert h'; decide

/-- RuntimeError escapes the loop over the programs exactly when the dict changed its size -/
theorem lcu_programScopes_runtime {σ} (hook : ObjHook σ) (size : Nat) (progs : List Name) :
    ∀ st : St σ, (programScopes hook size st progs).2 = .error (.foreign "RuntimeError") ↔
      lcu_SizeChanged hook size st progs := by
  induction progs with
  | nil =>
    intro st
    unfold programScopes
    split
    · rename_i hne
      exact ⟨fun _ => .here st [] hne, fun _ => rfl⟩
    · rename_i heq
      constructor
      · exact fun h => nomatch h
      · intro h
        cases h with
        | here _ _ hne => exact absurd (by simpa using heq) hne
  | cons p rest ih =>
    intro st
    unfold programScopes
    split
    · rename_i hne
      exact ⟨fun _ => .here st _ hne, fun _ => rfl⟩
    · rename_i heq
      have heq' : (st.l.info.programs.getD []).length = size := by simpa using heq
      dsimp only
      have hs := lcu_getTagListScope_soft hook st (some p)
      rcases hg : getTagListScope hook st (some p) with ⟨st1, r⟩
      rw [hg] at hs
      dsimp only at hs ⊢
      cases r with
      | error e =>
        constructor
        · intro h
          cases h
          exact absurd rfl (lcu_soft_ne_runtime _ (hs _ rfl))
        · intro h
          cases h with
          | here _ _ hne => exact absurd heq' hne
          | later _ _ _ st1' tags _ hg' _ => rw [hg] at hg'; cases hg'
      | ok tags =>
        dsimp only
        have h2 := ih st1
        generalize programScopes hook size st1 rest = r2 at h2 ⊢
        obtain ⟨st2, more⟩ := r2
        dsimp only at h2 ⊢
        constructor
        · intro h
          refine .later st p rest st1 tags heq' hg (h2.1 ?_)
          cases more with
          | error e => exact h
          | ok xs => cases h
        · intro h
          cases h with
          | here _ _ hne => exact absurd heq' hne
          | later _ _ _ st1' tags' _ hg' hrest =>
            rw [hg] at hg'
            cases hg'
            have := h2.2 hrest
            rw [this]
            rfl

/-! ### the number of keys of `_info["programs"]` changes only at a `Program:` symbol -/

/-- `len(self._info["programs"])` -/
def lcu_plen {σ} (st : St σ) : Nat := (st.l.info.programs.getD []).length

theorem lcu_assocSet_length {α} (xs : List (Name × α)) (k : Name) (v v' : α) (h : assocGet xs k = some v) :
    (assocSet xs k v').length = xs.length := by
  unfold assocGet at h
  unfold assocSet
  cases hf : xs.find? (·.1 == k) with
  | none => rw [hf] at h; cases h
  | some x =>
    have : xs.any (·.1 == k) = true := by
      rw [List.any_eq_true]
      exact ⟨x, List.mem_of_find?_eq_some hf, List.find?_some (p := fun (y : Name × α) => y.1 == k) hf⟩
    rw [if_pos this, List.length_map]

/-- what a symbol record adds to `_info` leaves the number of programs alone unless its name starts with `Program:` -/
theorem lcu_noteSymbol_plen (program : Option Name) (info : Info) (r : Up.Rec)
    (h : PyStr.startsWith (nm "Program:") r.name = false) :
    ((noteSymbol program info r).programs.getD []).length = (info.programs.getD []).length := by
  unfold noteSymbol
  dsimp only
  rw [if_neg (by rw [h]; exact Bool.false_ne_true)]
  split
  · split
    · rfl
    · rename_i pi hpi
      dsimp only
      cases program with
      | none => cases hpi
      | some p =>
        simp only [Option.bind_some] at hpi
        exact lcu_assocSet_length _ _ _ _ hpi
  · split
    · rfl
    · split
      · rfl
      · split <;> rfl

theorem lcu_getStructureMakeup_l {σ} (hook : ObjHook σ) (st : St σ) (tid : Nat) :
    (getStructureMakeup hook st tid).1.l = st.l := by
  unfold getStructureMakeup
  split
  · rfl
  · generalize Cli.genericMessage hook Cli.FUEL st.w _ = r
    obtain ⟨w1, r⟩ := r
    dsimp only
    cases r with
    | error e => rfl
    | ok tag =>
      dsimp only
      split
      · rfl
      · split <;> rfl

theorem lcu_resolveMembers_info {σ} (getDT : St σ → Nat → Nat → St σ × Except Exn DT)
    (hg : ∀ st a b, (getDT st a b).1.l.info = st.l.info) (chunks : List Bytes) :
    ∀ st : St σ, (resolveMembers getDT st chunks).1.l.info = st.l.info := by
  induction chunks with
  | nil => intro st; rfl
  | cons chunk rest ih =>
    intro st
    rw [resolveMembers]
    split
    · rfl
    · split
      · rfl
      · have := ih st
        generalize resolveMembers getDT st rest = r at this ⊢
        obtain ⟨st1, more⟩ := r
        exact this
      · generalize hr : getDT st _ _ = r
        have h1 : r.1.l.info = st.l.info := hr ▸ hg st _ _
        clear hr
        obtain ⟨st1, r⟩ := r
        dsimp only at h1 ⊢
        cases r with
        | error e => exact h1
        | ok dt =>
          dsimp only
          have h2 := ih st1
          generalize resolveMembers getDT st1 rest = r2 at h2 ⊢
          obtain ⟨st2, more⟩ := r2
          exact h2.trans h1

theorem lcu_getDataType_info {σ} (hook : ObjHook σ) (fuel : Nat) :
    ∀ (st : St σ) (tid symbolType : Nat), (getDataType hook fuel st tid symbolType).1.l.info = st.l.info := by
  induction fuel with
  | zero => intro st tid symbolType; rfl
  | succ n ih =>
    intro st tid symbolType
    rw [getDataType]
    split
    · rfl
    · have h1 := lcu_getStructureMakeup_l hook st tid
      generalize getStructureMakeup hook st tid = r at h1 ⊢
      obtain ⟨st1, r⟩ := r
      dsimp only at h1 ⊢
      cases r with
      | error e => rw [h1]
      | ok a =>
        dsimp only
        generalize readTemplate hook tid a.objectDefinitionSize TMPL_FUEL st1.w 0 [] = r2
        obtain ⟨w2, r2⟩ := r2
        dsimp only
        cases r2 with
        | error e => rw [h1]
        | ok data =>
          dsimp only
          have h3 := lcu_resolveMembers_info (getDataType hook n) ih
            (Up.chunks8 a.memberCount (data.take (a.memberCount * Gen.TEMPLATE_MEMBER_INFO_LEN))) { st1 with w := w2 }
          generalize resolveMembers (getDataType hook n) { st1 with w := w2 }
            (Up.chunks8 a.memberCount (data.take (a.memberCount * Gen.TEMPLATE_MEMBER_INFO_LEN))) = r3 at h3 ⊢
          obtain ⟨st3, r3⟩ := r3
          dsimp only at h3 ⊢
          have h13 : st3.l.info = st.l.info := by rw [h3, h1]
          cases r3 with
          | error e => exact h13
          | ok nested =>
            dsimp only
            split
            · exact h13
            · exact h13

theorem lcu_createTag_info {σ} (hook : ObjHook σ) (st : St σ) (r : Up.Rec) : (createTag hook st r).1.l.info = st.l.info := by
  unfold createTag
  dsimp only
  split
  · have h1 := lcu_getDataType_info hook DT_FUEL st (K.decodeTypeWord r.symbolType).templateId r.symbolType
    generalize getDataType hook DT_FUEL st (K.decodeTypeWord r.symbolType).templateId r.symbolType = res at h1 ⊢
    obtain ⟨st1, d⟩ := res
    dsimp only at h1 ⊢
    cases d with
    | error e => exact h1
    | ok x => obtain ⟨si, t, ms⟩ := x; exact h1
  · split <;> rfl

theorem lcu_isolateUserTags_plen {σ} (hook : ObjHook σ) (program : Option Name) (recs : List Up.Rec) :
    ∀ st : St σ, (∀ r ∈ recs, PyStr.startsWith (nm "Program:") r.name = false) →
      lcu_plen (isolateUserTags hook program st recs).1 = lcu_plen st := by
  induction recs with
  | nil => intro st _; rfl
  | cons r rest ih =>
    intro st hall
    have hr := lcu_noteSymbol_plen program st.l.info r (hall r List.mem_cons_self)
    have hrest : ∀ r' ∈ rest, PyStr.startsWith (nm "Program:") r'.name = false :=
      fun r' h => hall r' (List.mem_cons_of_mem _ h)
    unfold isolateUserTags
    dsimp only
    split
    · exact (ih { st with l := { st.l with info := noteSymbol program st.l.info r } } hrest).trans hr
    · have h1 := lcu_createTag_info hook { st with l := { st.l with info := noteSymbol program st.l.info r } } r
      generalize createTag hook { st with l := { st.l with info := noteSymbol program st.l.info r } } r = res at h1 ⊢
      obtain ⟨st1, t⟩ := res
      dsimp only at h1 ⊢
      have h1' : lcu_plen st1 = lcu_plen st := by
        unfold lcu_plen
        rw [h1]
        exact hr
      cases t with
      | error e => exact h1'
      | ok x =>
        obtain ⟨info, tagMeta⟩ := x
        dsimp only
        have h2 := ih st1 hrest
        generalize isolateUserTags hook program st1 rest = r2 at h2 ⊢
        obtain ⟨st2, more⟩ := r2
        exact h2.trans h1'

/-- the symbol list of scope `program`, uploaded in state `st`, contains a symbol whose name starts with `Program:` -/
def lcu_ProgramSymbolIn {σ} (hook : ObjHook σ) (st : St σ) (program : Option Name) : Prop :=
  ∃ w1 recs r, getInstanceAttributeList hook program (decide (revisionMajor st.l.info ≥ Gen.MIN_VER_EXTERNAL_ACCESS))
      PAGE_FUEL st.w 0 [] = (w1, .ok recs) ∧ r ∈ recs ∧ PyStr.startsWith (nm "Program:") r.name = true

theorem lcu_getTagListScope_plen {σ} (hook : ObjHook σ) (st : St σ) (program : Option Name)
    (h : lcu_plen (getTagListScope hook st program).1 ≠ lcu_plen st) : lcu_ProgramSymbolIn hook st program := by
  unfold lcu_ProgramSymbolIn
  unfold getTagListScope at h
  dsimp only at h
  rcases hg : getInstanceAttributeList hook program (decide (revisionMajor st.l.info ≥ Gen.MIN_VER_EXTERNAL_ACCESS))
      PAGE_FUEL st.w 0 [] with ⟨w1, r⟩
  rw [hg] at h
  dsimp only at h
  cases r with
  | error e => exact absurd rfl h
  | ok recs =>
    dsimp only at h
    cases hany : recs.any (fun r => PyStr.startsWith (nm "Program:") r.name) with
    | true =>
      obtain ⟨r, hr, hs⟩ := List.any_eq_true.1 hany
      exact ⟨w1, recs, r, rfl, hr, hs⟩
    | false =>
      have hall : ∀ r ∈ recs, PyStr.startsWith (nm "Program:") r.name = false := by
        intro r hr
        cases hs : PyStr.startsWith (nm "Program:") r.name with
        | false => rfl
        | true =>
          have : recs.any (fun r => PyStr.startsWith (nm "Program:") r.name) = true := List.any_eq_true.2 ⟨r, hr, hs⟩
          rw [hany] at this
          cases this
      exact absurd (lcu_isolateUserTags_plen hook program recs { st with w := w1 } hall) h

/-- the dict changes its size during the loop only when the symbol list of one of the program scopes lists a
    `Program:` symbol -/
theorem lcu_sizeChanged_cause {σ} (hook : ObjHook σ) (size : Nat) (st : St σ) (progs : List Name)
    (h : lcu_SizeChanged hook size st progs) (h0 : lcu_plen st = size) :
    ∃ st' p, p ∈ progs ∧ lcu_ProgramSymbolIn hook st' (some p) := by
  induction h with
  | here st progs hne => exact absurd h0 hne
  | later st p rest st1 tags heq hg _ ih =>
    by_cases hs : lcu_plen st1 = size
    · obtain ⟨st', p', hp', hh⟩ := ih hs
      exact ⟨st', p', List.mem_cons_of_mem _ hp', hh⟩
    · refine ⟨st, p, List.mem_cons_self, lcu_getTagListScope_plen hook st (some p) ?_⟩
      rw [hg, h0]
      exact hs

/-- the cause of RuntimeError: the symbol list of some program scope lists a symbol whose name starts with `Program:` -/
def lcu_RtSrc {σ} (hook : ObjHook σ) : Prop := ∃ st p, lcu_ProgramSymbolIn hook st (some p)

theorem lcu_getTagList_rt {σ} (hook : ObjHook σ) (w : Cli.World σ) (l : LDrv) (allPrograms : Bool) :
    lcu_ErrIn (fun e => e = .foreign "RuntimeError" → allPrograms = true ∧ lcu_RtSrc hook)
      (getTagList hook w l allPrograms).2.2 := by
  have soft : ∀ e, lcu_Soft e → e = .foreign "RuntimeError" → allPrograms = true ∧ lcu_RtSrc hook :=
    fun e h he => absurd he (lcu_soft_ne_runtime e h)
  unfold getTagList
  have h0 : lcu_ErrIn Cli.LcLib (Cli.ensureForwardOpen hook Cli.FUEL w).2 := fun e he => Cli.lc_efo_lib hook 5 w e he
  generalize Cli.ensureForwardOpen hook Cli.FUEL w = r0 at h0 ⊢
  obtain ⟨w0, pre⟩ := r0
  dsimp only at h0 ⊢
  cases pre with
  | error e => exact lcu_ErrIn_err _ _ (soft e (.inl (h0 e rfl)))
  | ok u =>
    dsimp only
    generalize hl0 : ({ l with cacheLeft := true, info := { l.info with programs := some [], tasks := some [], modules := some [] } } : LDrv) = l0
    have h1 := lcu_getTagListScope_soft hook ({ w := w0, l := l0 } : St σ) none
    generalize getTagListScope hook ({ w := w0, l := l0 } : St σ) none = r at h1 ⊢
    obtain ⟨st1, r⟩ := r
    dsimp only at h1 ⊢
    cases r with
    | error e => exact lcu_ErrIn_err _ _ (soft e (h1 e rfl))
    | ok ctl =>
      dsimp only
      cases allPrograms with
      | false =>
        simp only [Bool.false_eq_true, if_false]
        exact lcu_ErrIn_ok _ _
      | true =>
        simp only [if_true]
        generalize hps : programScopes hook ((st1.l.info.programs.getD []).map (·.1)).length st1
          ((st1.l.info.programs.getD []).map (·.1)) = r2p
        obtain ⟨st2, r2⟩ := r2p
        dsimp only
        cases r2 with
        | error e =>
          refine lcu_ErrIn_err _ _ ?_
          intro he
          subst he
          have hsc := (lcu_programScopes_runtime hook _ _ st1).1 (by rw [hps])
          obtain ⟨st', p, _, hh⟩ := lcu_sizeChanged_cause hook _ st1 _ hsc (by unfold lcu_plen; rw [List.length_map])
          exact ⟨by simp, st', p, hh⟩
        | ok ptags => exact lcu_ErrIn_ok _ _

theorem lcu_initializeDriver_rt {σ} (hook : ObjHook σ) (cfg : Config) (w : Cli.World σ) (l : LDrv) :
    lcu_ErrIn (fun e => e = .foreign "RuntimeError" → cfg.initTags = true ∧ cfg.initProgramTags = true ∧ lcu_RtSrc hook)
      (initializeDriver hook cfg w l).2.2 := by
  have lib : ∀ e, Cli.LcLib e → e = .foreign "RuntimeError" →
      cfg.initTags = true ∧ cfg.initProgramTags = true ∧ lcu_RtSrc hook :=
    fun e h he => absurd he (lcu_soft_ne_runtime e (.inl h))
  rw [lcu_initF_eq]
  refine lcu_initF_err cfg _ _ _ _ _ _ _ _ ?_ ?_ ?_ ?_ w l
  · exact fun w => lcu_ErrIn_mono _ (lcu_listIdentity_err hook w) lib
  · exact fun w m => lcu_ErrIn_mono _ (lcu_getPlcInfo_err hook w m) (fun e h => lib e (h ▸ Cli.lc_lib_response))
  · exact fun w => lcu_ErrIn_mono _ (lcu_getPlcName_err hook w) lib
  · intro w l b hit hb
    refine lcu_ErrIn_mono _ (lcu_getTagList_rt hook w l b) ?_
    intro e h he
    obtain ⟨h1, h2⟩ := h he
    exact ⟨hit, hb ▸ h1, h2⟩

theorem lcu_openLogixSt_rt {σ} (hook : ObjHook σ) (cfg : Config) (w : Cli.World σ) (l : LDrv) (rnd : Bytes) :
    lcu_ErrIn (fun e => e = .foreign "RuntimeError" → cfg.initTags = true ∧ cfg.initProgramTags = true ∧ lcu_RtSrc hook)
      (openLogixSt hook cfg w l rnd).2.2 := by
  unfold openLogixSt
  have h1 : lcu_ErrIn (fun e => e = .comm) (Cli.openDrv hook w rnd).2 := fun e he => Cli.lc_openDrv_err hook w rnd e he
  generalize Cli.openDrv hook w rnd = r1 at h1 ⊢
  obtain ⟨w1, r⟩ := r1
  dsimp only at h1 ⊢
  cases r with
  | error e => exact lcu_ErrIn_err _ _ (fun he => by rw [h1 e rfl] at he; cases he)
  | ok b =>
    cases b with
    | false => exact lcu_ErrIn_ok _ _
    | true =>
      dsimp only
      have h2 := lcu_initializeDriver_rt hook cfg w1 l
      generalize initializeDriver hook cfg w1 l = r2 at h2 ⊢
      obtain ⟨w2, l2, r2⟩ := r2
      exact lcu_ErrIn_map _ _ _ h2

end Pycomm.Lgx.Opn
