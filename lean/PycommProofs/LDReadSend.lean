/-
  LogixDriver.read, layers (c)+(d) composed: the Read Tag request of the driver for a controller-scope elementary
  scalar symbol, sent on a healthy open connection to the reference controller behind the harness hook, comes
  back as the framed status-0 reply with the type code and the symbol's memory.
-/
import PycommProofs.LDReadTransport
import PycommProofs.LDReadTarget
namespace Pycomm.Lgx.Drv
open Pycomm Pycomm.Tgt Pycomm.Path Pycomm.Reply Pycomm.Encap Pycomm.Lgx Pycomm.Lgx.E2E

/-! ### the table of elementary types -/

theorem ldr_atomicTy_codes (c : Nat) (t : Ty) (h : Cl.atomicTy c = some t) (hb : t.isBits = none) :
    c = 0xC1 ∨ c = 0xC2 ∨ c = 0xC3 ∨ c = 0xC4 ∨ c = 0xC5 ∨ c = 0xC6 ∨ c = 0xC7 ∨ c = 0xC8 ∨ c = 0xC9 ∨
    c = 0xCA ∨ c = 0xCB := by
  by_cases hd : c = 0xD3
  · subst hd
    have : Cl.atomicTy 0xD3 = some (.bits .udint) := rfl
    rw [this] at h
    injection h with h
    subst h
    simp [Ty.isBits] at hb
  · unfold Cl.atomicTy at h
    by_cases h0 : c = 0xC1 ∨ c = 0xC2 ∨ c = 0xC3 ∨ c = 0xC4 ∨ c = 0xC5 ∨ c = 0xC6 ∨ c = 0xC7 ∨ c = 0xC8 ∨ c = 0xC9 ∨
      c = 0xCA ∨ c = 0xCB
    · exact h0
    · rw [if_neg (by omega), if_neg (by omega), if_neg (by omega), if_neg (by omega), if_neg (by omega),
        if_neg (by omega), if_neg (by omega), if_neg (by omega), if_neg (by omega), if_neg (by omega),
        if_neg (by omega), if_neg (by omega)] at h
      injection h

/-- what the driver's type table (`DataTypes`) and the controller's element sizes say about an elementary type other
    than DWORD: same size, the codec class of the code, and the name is not "DWORD" -/
theorem ldr_atomic_table (c sz : Nat) (name : Name) (t : Ty) (hat : atomicOfCode c = some (name, t))
    (hb : t.isBits = none) (hsz : atomicSize c = some sz) :
    Cl.atomicTy c = some t ∧ typeEntryOfName name = some (name, c, sz) ∧ name ≠ nm "DWORD" ∧ 0 < sz ∧ sz ≤ 8 := by
  have hty : Cl.atomicTy c = some t := by
    unfold atomicOfCode at hat
    cases h1 : typeNameOfCode c with
    | none => rw [h1] at hat; simp at hat
    | some n =>
      cases h2 : Cl.atomicTy c with
      | none => rw [h1, h2] at hat; simp at hat
      | some t' =>
        rw [h1, h2] at hat
        simp only [Option.some.injEq, Prod.mk.injEq] at hat
        rw [hat.2]
  refine ⟨hty, ?_⟩
  rcases ldr_atomicTy_codes c t hty hb with h | h | h | h | h | h | h | h | h | h | h <;> subst h
  · have e : atomicOfCode 0xC1 = some (nm "BOOL", .bool) := rfl
    have f : atomicSize 0xC1 = some 1 := rfl
    rw [e] at hat; rw [f] at hsz
    simp only [Option.some.injEq, Prod.mk.injEq] at hat hsz
    obtain ⟨rfl, _⟩ := hat; subst hsz
    exact ⟨rfl, by decide, by omega, by omega⟩
  · have e : atomicOfCode 0xC2 = some (nm "SINT", .int .sint) := rfl
    have f : atomicSize 0xC2 = some 1 := rfl
    rw [e] at hat; rw [f] at hsz
    simp only [Option.some.injEq, Prod.mk.injEq] at hat hsz
    obtain ⟨rfl, _⟩ := hat; subst hsz
    exact ⟨rfl, by decide, by omega, by omega⟩
  · have e : atomicOfCode 0xC3 = some (nm "INT", .int .int) := rfl
    have f : atomicSize 0xC3 = some 2 := rfl
    rw [e] at hat; rw [f] at hsz
    simp only [Option.some.injEq, Prod.mk.injEq] at hat hsz
    obtain ⟨rfl, _⟩ := hat; subst hsz
    exact ⟨rfl, by decide, by omega, by omega⟩
  · have e : atomicOfCode 0xC4 = some (nm "DINT", .int .dint) := rfl
    have f : atomicSize 0xC4 = some 4 := rfl
    rw [e] at hat; rw [f] at hsz
    simp only [Option.some.injEq, Prod.mk.injEq] at hat hsz
    obtain ⟨rfl, _⟩ := hat; subst hsz
    exact ⟨rfl, by decide, by omega, by omega⟩
  · have e : atomicOfCode 0xC5 = some (nm "LINT", .int .lint) := rfl
    have f : atomicSize 0xC5 = some 8 := rfl
    rw [e] at hat; rw [f] at hsz
    simp only [Option.some.injEq, Prod.mk.injEq] at hat hsz
    obtain ⟨rfl, _⟩ := hat; subst hsz
    exact ⟨rfl, by decide, by omega, by omega⟩
  · have e : atomicOfCode 0xC6 = some (nm "USINT", .int .usint) := rfl
    have f : atomicSize 0xC6 = some 1 := rfl
    rw [e] at hat; rw [f] at hsz
    simp only [Option.some.injEq, Prod.mk.injEq] at hat hsz
    obtain ⟨rfl, _⟩ := hat; subst hsz
    exact ⟨rfl, by decide, by omega, by omega⟩
  · have e : atomicOfCode 0xC7 = some (nm "UINT", .int .uint) := rfl
    have f : atomicSize 0xC7 = some 2 := rfl
    rw [e] at hat; rw [f] at hsz
    simp only [Option.some.injEq, Prod.mk.injEq] at hat hsz
    obtain ⟨rfl, _⟩ := hat; subst hsz
    exact ⟨rfl, by decide, by omega, by omega⟩
  · have e : atomicOfCode 0xC8 = some (nm "UDINT", .int .udint) := rfl
    have f : atomicSize 0xC8 = some 4 := rfl
    rw [e] at hat; rw [f] at hsz
    simp only [Option.some.injEq, Prod.mk.injEq] at hat hsz
    obtain ⟨rfl, _⟩ := hat; subst hsz
    exact ⟨rfl, by decide, by omega, by omega⟩
  · have e : atomicOfCode 0xC9 = some (nm "ULINT", .int .ulint) := rfl
    have f : atomicSize 0xC9 = some 8 := rfl
    rw [e] at hat; rw [f] at hsz
    simp only [Option.some.injEq, Prod.mk.injEq] at hat hsz
    obtain ⟨rfl, _⟩ := hat; subst hsz
    exact ⟨rfl, by decide, by omega, by omega⟩
  · have e : atomicOfCode 0xCA = some (nm "REAL", .real) := rfl
    have f : atomicSize 0xCA = some 4 := rfl
    rw [e] at hat; rw [f] at hsz
    simp only [Option.some.injEq, Prod.mk.injEq] at hat hsz
    obtain ⟨rfl, _⟩ := hat; subst hsz
    exact ⟨rfl, by decide, by omega, by omega⟩
  · have e : atomicOfCode 0xCB = some (nm "LREAL", .lreal) := rfl
    have f : atomicSize 0xCB = some 8 := rfl
    rw [e] at hat; rw [f] at hsz
    simp only [Option.some.injEq, Prod.mk.injEq] at hat hsz
    obtain ⟨rfl, _⟩ := hat; subst hsz
    exact ⟨rfl, by decide, by omega, by omega⟩

/-! ### (c)+(d) -/

/-- the sequence count the driver draws fits the 16-bit field -/
theorem ldr_nextSeq_lt (d : Cli.Drv) : d.nextSeq.1 < 65536 := by
  rw [(Cli.lcs_nextSeq d).1]
  split <;> omega

/-- the connection-related facts of a healthy connected world that the transport layer uses -/
structure ldr_Healthy (w : Cli.World Ext) (sess : Nat) (cidb : Bytes) (conn : Conn) : Prop where
  /-- the driver believes the connection is open (`_target_is_connected`) -/
  connected : w.drv.targetIsConnected = true
  /-- the socket exists -/
  sock : w.drv.hasSock = true
  /-- the sender context is 8 bytes -/
  ctx8 : w.drv.context.length = 8
  /-- the option field is 0 -/
  opt0 : w.drv.option = 0
  /-- the driver holds session handle `sess` (32 bit) … -/
  session : w.drv.session = some sess
  session32 : sess < 2 ^ 32
  /-- … which the target has registered -/
  sessionReg : sess ∈ w.net.target.base.sessions
  /-- the driver holds the 4-byte connection id from the Forward Open reply … -/
  cid : w.drv.targetCid = some cidb
  cid4 : cidb.length = 4
  /-- … and the target holds that connection for the session -/
  conn : w.net.target.base.conns.find? (fun c => c.cid == leVal cidb && c.session == sess) = some conn
  /-- no reply is pending, no transport faults are scheduled -/
  pend : w.net.pending = []
  faults : w.net.faults = []

/-- `ldr_Healthy` does not look at the sequence counter -/
theorem ldr_Healthy_seq {w : Cli.World Ext} {sess : Nat} {cidb : Bytes} {conn : Conn} (h : ldr_Healthy w sess cidb conn)
    (d : Cli.Drv) (hd : d = { w.drv with seqVal := d.seqVal }) : ldr_Healthy { w with drv := d } sess cidb conn := by
  rw [hd]
  exact ⟨h.connected, h.sock, h.ctx8, h.opt0, h.session, h.session32, h.sessionReg, h.cid, h.cid4, h.conn, h.pend, h.faults⟩

/-- the lifecycle invariants of driver ‖ target (LCInv `lci_Inv`, `lci_Conn`; LCSeq `lcs_Seq`: preserved by open / close /
    generic_message from the initial state under every fault plan) give the healthy-connection facts for a connected
    driver once no transport faults are scheduled -/
theorem ldr_healthy_of_invariants (S : Prop) (w : Cli.World Ext) (hi : Cli.lci_Inv S w) (hc : Cli.lci_Conn w)
    (hq : Cli.lcs_Seq w) (hcon : w.drv.targetIsConnected = true) (hf : w.net.faults = []) :
    ∃ sess cidb conn, ldr_Healthy w sess cidb conn := by
  obtain ⟨s, cidb, c, k1, k2, k3, k4, k5, k6, k7⟩ := hc hcon
  obtain ⟨s', hs', hmem⟩ := hi.sess
  rw [k1] at hs'; cases hs'
  have hsock := hq.sockc hcon
  have hsome : (w.net.target.base.conns.find? (fun c => c.cid == leVal cidb && c.session == s)).isSome = true := by
    rw [List.find?_isSome]
    exact ⟨c, k5, by simp [k6, k7]⟩
  obtain ⟨conn, hconn⟩ := Option.isSome_iff_exists.1 hsome
  exact ⟨s, cidb, conn, hcon, hsock, hi.ctx8, hi.opt0, k1, hq.sess32 s k1, hmem k2, k3, k4, hconn, hi.pend hsock, hf⟩

/-- (c)+(d) the driver's Read Tag request for one element of the symbol, sent on the healthy connection: one frame
    is written, the reply is the framed status-0 answer carrying type code ++ memory; the Logix state of the target
    only advances its schedule counter -/
theorem ldr_sendUnit_read (w : Cli.World Ext) (sess : Nat) (cidb : Bytes) (conn : Conn) (st : LState) (s : Symbol)
    (c sz : Nat) (useIds : Bool) (path : Bytes) (seq : Nat)
    (hw : ldr_Healthy w sess cidb conn) (hlogix : w.net.target.ext.logix = some st)
    (hid : PlainIdent s.name) (hs : s ∈ st.proj.controller)
    (hbytes : ∀ s' ∈ st.proj.controller, ∀ ch ∈ s'.name, ch < 256)
    (huniqN : ∀ s' ∈ st.proj.controller, s'.name = s.name → s' = s)
    (huniqI : ∀ s' ∈ st.proj.controller, s'.inst = s.inst → s' = s)
    (hty : elTyOfWord s.symbolType = .atomic c) (hsz : atomicSize c = some sz) (hlen : s.mem.length = sz)
    (hpos : 0 < sz) (hp : Denotes path (ldr_segs s.name s.inst useIds)) (hpl : path.length ≤ s.name.length + 13)
    (hseq : seq < 65536) (hfit : sz + s.name.length + 20 ≤ conn.size) :
    ∃ w' frm, sendUnit hookAll w seq (Cl.readMsg path 1) =
        (w', .ok (some (frame CMD_SEND_UNIT sess 0 w.drv.context (cpfReplyConnected conn.toId seq
          (encMRReply 0x4C { status := 0, ext := [], data := le 2 c ++ s.mem }))))) ∧
      w'.drv = w.drv ∧ w'.net.sent = w.net.sent ++ [frm] ∧
      w'.net.target.ext = { w.net.target.ext with logix := some { st with ctr := st.ctr + 1 } } ∧
      ldr_Healthy w' sess cidb { conn with lastSeq := some seq } := by
  have hnl := hid.2.1
  have hml : (Cl.readMsg path 1).length = path.length + 3 := by
    simp [Cl.readMsg, le, RT.leBytes_length]
  obtain ⟨frm, _, hsend⟩ := Cli.ldr_sendUnit hookAll w sess cidb conn seq (Cl.readMsg path 1) hw.ctx8 hw.opt0 hw.sock
    hw.session hw.session32 hw.sessionReg hw.cid hw.cid4 hw.conn hw.pend hw.faults hseq (by omega) (by omega)
  have hr := ldr_resolve st.proj s c sz useIds hid hs hbytes huniqN huniqI hty hsz
    (by intro h; rw [h, List.length_nil] at hlen; omega)
  have hex := ldr_exchange st (conn.size - 2) s c sz useIds path hid hs hbytes huniqN huniqI hty hsz hlen hpos hp
    (by omega)
  have htag : (∃ nmb, ldr_segs s.name s.inst useIds = [.symbol nmb]) ∨
      (∃ i, ldr_segs s.name s.inst useIds = [.logical 0 0x6B, .logical 4 i]) := by
    unfold ldr_segs
    split
    · exact Or.inr ⟨_, rfl⟩
    · exact Or.inl ⟨_, rfl⟩
  have hmr := ldr_execMR_read
    { w.net.target with base := Cli.ldr_unitBase w.net.target.base sess (leVal cidb) seq conn } st hlogix sess
    (conn.size - 2) path _ (ldr_loc s c) 1 hp hr htag
  rw [hex] at hmr
  rw [hmr] at hsend
  refine ⟨_, frm, hsend, rfl, rfl, ?_, ?_⟩
  · simp only [Cli.ldr_unitAfter_ext]
  · refine ⟨hw.connected, hw.sock, hw.ctx8, hw.opt0, hw.session, hw.session32, ?_, hw.cid, hw.cid4, ?_, rfl, hw.faults⟩
    · simp only [Cli.ldr_unitAfter_sessions]
      show sess ∈ (Cli.ldr_unitBase w.net.target.base sess (leVal cidb) seq conn).sessions
      rw [Cli.ldr_unitBase_sessions]
      exact hw.sessionReg
    · simp only [Cli.ldr_unitAfter_conns]
      show ((Cli.ldr_unitBase w.net.target.base sess (leVal cidb) seq conn).conns).find? _ = _
      rw [Cli.ldr_unitBase_conns]
      exact Cli.ldr_find_seq _ _ _ _ _ hw.conn

end Pycomm.Lgx.Drv
