/-
  Refinement of histories of `LogixDriver.read` / `LogixDriver.write`: what the specification run does to the memory.
    `lgrf_writesOf`, `lgrf_specRun_proj`     the final memory is the accepted writes of the history applied in order
    `lgrf_specRun_log`                       the write log is the history of accepted writes
    `lgrf_Holds`, `lgrf_holds_step`, `lgrf_holds_run`   bytes written at a location stay there while no later write
                                             meets them
    `lgrf_holds_value`                       … and the codec reads the written value from them
-/
import PycommProofs.LgxRef4
namespace Pycomm.Lgx.Drv
open Pycomm Pycomm.Tgt Pycomm.Path Pycomm.Reply Pycomm.Encap Pycomm.Lgx Pycomm.Lgx.E2E

/-! ### the accepted writes of a history -/

/-- the accepted writes `(instance id, byte offset, bytes)` of one call: none for a read -/
def lgrf_Op.writes : lgrf_Op → List ldwx_Wr
  | .read _ => []
  | .write its => ldwx_targets its

/-- the accepted writes of a history, in order -/
def lgrf_writesOf (ops : List lgrf_Op) : List ldwx_Wr := ops.flatMap (·.writes)

theorem lgrf_applyAll_append (a b : List ldwx_Wr) : ∀ p : Project, ldwx_applyAll p (a ++ b) = ldwx_applyAll (ldwx_applyAll p a) b := by
  induction a with
  | nil => intro p; rfl
  | cons w a ih => intro p; exact ih _

theorem lgrf_specStep_proj (p : Project) (op : lgrf_Op) : (lgrf_specStep p op).1 = ldwx_applyAll p op.writes := by
  cases op <;> rfl

/-- the memory after a history is the initial memory with the accepted writes of the history applied in order: reads
    contribute nothing -/
theorem lgrf_specRun_proj (ops : List lgrf_Op) : ∀ p : Project, (lgrf_specRun p ops).1 = ldwx_applyAll p (lgrf_writesOf ops) := by
  induction ops with
  | nil => intro p; rfl
  | cons op ops ih =>
    intro p
    show (lgrf_specRun (lgrf_specStep p op).1 ops).1 = ldwx_applyAll p (op.writes ++ lgrf_writesOf ops)
    rw [ih, lgrf_specStep_proj, lgrf_applyAll_append]

/-- the write log after a history: one entry `(instance, offset, length)` per accepted write, in order -/
theorem lgrf_specRun_log (ops : List lgrf_Op) (p : Project) :
    (lgrf_specRun p ops).1.writeLog = p.writeLog ++ (lgrf_writesOf ops).map fun w => (w.1, w.2.1, w.2.2.length) := by
  rw [lgrf_specRun_proj, ldwx_applyAll_eq]

theorem lgrf_specRun_append (a b : List lgrf_Op) : ∀ p : Project,
    lgrf_specRun p (a ++ b) = ((lgrf_specRun (lgrf_specRun p a).1 b).1, (lgrf_specRun p a).2 ++ (lgrf_specRun (lgrf_specRun p a).1 b).2) := by
  induction a with
  | nil => intro p; rfl
  | cons op a ih =>
    intro p
    show ((lgrf_specRun (lgrf_specStep p op).1 (a ++ b)).1,
      (lgrf_specStep p op).2 :: (lgrf_specRun (lgrf_specStep p op).1 (a ++ b)).2) = _
    rw [ih]
    rfl

theorem lgrf_opsOk_append (cfg : Cfg) (C : Nat) (a b : List lgrf_Op) : ∀ p : Project,
    lgrf_OpsOk cfg C p (a ++ b) ↔ lgrf_OpsOk cfg C p a ∧ lgrf_OpsOk cfg C (lgrf_specRun p a).1 b := by
  induction a with
  | nil => intro p; exact ⟨fun h => ⟨trivial, h⟩, fun h => h.2⟩
  | cons op a ih =>
    intro p
    show (lgrf_OpOk cfg C p op ∧ lgrf_OpsOk cfg C (lgrf_specStep p op).1 (a ++ b)) ↔
      (lgrf_OpOk cfg C p op ∧ lgrf_OpsOk cfg C (lgrf_specStep p op).1 a) ∧ lgrf_OpsOk cfg C (lgrf_specRun (lgrf_specStep p op).1 a).1 b
    rw [ih]
    exact ⟨fun h => ⟨⟨h.1, h.2.1⟩, h.2.2⟩, fun h => ⟨h.1.1, h.1.2, h.2⟩⟩

/-- the names stay byte strings along the run -/
theorem lgrf_names_run (cfg : Cfg) (C : Nat) (ops : List lgrf_Op) (p : Project)
    (hn : ∀ s' ∈ p.controller, ∀ ch ∈ s'.name, ch < 256) (hok : lgrf_OpsOk cfg C p ops) :
    ∀ s' ∈ (lgrf_specRun p ops).1.controller, ∀ ch ∈ s'.name, ch < 256 :=
  lgrf_same_names _ _ (lgrf_same_run cfg C ops p hn hok) hn

/-! ### bytes at a location -/

/-- the project holds the bytes of the write `wr = (instance id, offset, bytes)` at its location: the controller-scope
    symbol found under the instance id has `bytes` at `[offset, offset + length)` of its memory -/
def lgrf_Holds (p : Project) (wr : ldwx_Wr) : Prop :=
  ∃ y, p.controller.find? (fun s => s.inst == wr.1) = some y ∧ wr.2.1 + wr.2.2.length ≤ y.mem.length ∧
    (y.mem.drop wr.2.1).take wr.2.2.length = wr.2.2

/-- a call does not write to the bytes of `wr`: every accepted write of it addresses another symbol or a byte range
    that does not meet `wr`'s (`ldwx_Disj`); a read never writes -/
def lgrf_Avoids (wr : ldwx_Wr) (op : lgrf_Op) : Prop := ∀ w' ∈ op.writes, ldwx_Disj wr w'

theorem lgrf_find_mem (l : List Symbol) (i : Nat) (y : Symbol) (h : l.find? (fun s => s.inst == i) = some y) :
    y ∈ l ∧ y.inst = i := by
  have := List.find?_some h
  exact ⟨List.mem_of_find?_eq_some h, by simpa using this⟩

theorem lgrf_find_applyAll (p : Project) (ws : List ldwx_Wr) (i : Nat) :
    (ldwx_applyAll p ws).controller.find? (fun s => s.inst == i) =
      (p.controller.find? (fun s => s.inst == i)).map (ldwx_symAfter ws) := by
  rw [ldwx_applyAll_eq]
  exact lgrf_find_map p.controller (ldwx_symAfter ws) i (fun y _ => (ldwx_symAfter_shape ws y).1)

/-- writes that do not meet the bytes of `wr` leave them where they are -/
theorem lgrf_holds_applyAll (p : Project) (ws : List ldwx_Wr) (wr : ldwx_Wr)
    (hfit : ∀ y ∈ p.controller, ldwx_FitsSym ws y) (hav : ∀ w' ∈ ws, ldwx_Disj wr w') (h : lgrf_Holds p wr) :
    lgrf_Holds (ldwx_applyAll p ws) wr := by
  obtain ⟨y, hy, hlen, hb⟩ := h
  obtain ⟨hym, hyi⟩ := lgrf_find_mem _ _ _ hy
  refine ⟨ldwx_symAfter ws y, by rw [lgrf_find_applyAll, hy]; rfl, ?_, ?_⟩
  · rw [ldwx_symAfter_len ws y (hfit y hym)]; exact hlen
  · refine Eq.trans ?_ hb
    apply ldwx_take_drop_congr
    intro j hj1 hj2
    apply ldwx_symAfter_outside ws y j (hfit y hym)
    intro w' hw' hi
    rcases hav w' hw' with hd | hd | hd
    · exact absurd (hyi.symm.trans hi.symm) (fun e => hd e)
    · omega
    · omega

/-- one specification step that avoids the bytes leaves them -/
theorem lgrf_holds_step (cfg : Cfg) (C : Nat) (p : Project) (op : lgrf_Op) (wr : ldwx_Wr)
    (hn : ∀ s' ∈ p.controller, ∀ ch ∈ s'.name, ch < 256) (hok : lgrf_OpOk cfg C p op) (hav : lgrf_Avoids wr op)
    (h : lgrf_Holds p wr) : lgrf_Holds (lgrf_specStep p op).1 wr := by
  cases op with
  | read its => exact h
  | write its =>
    have hok' : ∀ x ∈ its.map (lgrf_atW p), ldwx_ItemOk cfg p x := by
      intro x hx
      obtain ⟨x0, h0, rfl⟩ := List.mem_map.1 hx
      exact hok.1 x0 h0
    have hfit := lgrf_fits_of_ok cfg p (its.map (lgrf_atW p)) hn hok'
    rw [lgrf_atW_targets] at hfit
    exact lgrf_holds_applyAll p (ldwx_targets its) wr hfit hav h

/-- a history that avoids the bytes leaves them -/
theorem lgrf_holds_run (cfg : Cfg) (C : Nat) (wr : ldwx_Wr) (ops : List lgrf_Op) : ∀ (p : Project),
    (∀ s' ∈ p.controller, ∀ ch ∈ s'.name, ch < 256) → lgrf_OpsOk cfg C p ops → (∀ op ∈ ops, lgrf_Avoids wr op) →
    lgrf_Holds p wr → lgrf_Holds (lgrf_specRun p ops).1 wr := by
  induction ops with
  | nil => intro p _ _ _ h; exact h
  | cons op ops ih =>
    intro p hn hok hav h
    have h1 := lgrf_holds_step cfg C p op wr hn hok.1 (hav op List.mem_cons_self) h
    have hs := lgrf_same_step cfg C p op hn hok.1
    exact ih _ (lgrf_same_names _ _ hs hn) hok.2 (fun o ho => hav o (List.mem_cons_of_mem _ ho)) h1

/-- after a write call whose accepted writes are pairwise disjoint, the bytes of every accepted write are in memory -/
theorem lgrf_holds_write (cfg : Cfg) (C : Nat) (p : Project) (its : List ldwx_Item) (wr : ldwx_Wr)
    (hn : ∀ s' ∈ p.controller, ∀ ch ∈ s'.name, ch < 256) (hok : lgrf_OpOk cfg C p (.write its))
    (hdisj : ldwx_Disjoint its) (hwr : wr ∈ ldwx_targets its) : lgrf_Holds (lgrf_specStep p (.write its)).1 wr := by
  have hok' : ∀ x ∈ its.map (lgrf_atW p), ldwx_ItemOk cfg p x := by
    intro x hx
    obtain ⟨x0, h0, rfl⟩ := List.mem_map.1 hx
    exact hok.1 x0 h0
  have hfit := lgrf_fits_of_ok cfg p (its.map (lgrf_atW p)) hn hok'
  have hwr' : wr ∈ ldwx_targets (its.map (lgrf_atW p)) := by rw [lgrf_atW_targets]; exact hwr
  obtain ⟨x, hx, hxt⟩ := List.mem_filterMap.1 hwr'
  obtain ⟨s, hs, hsi, huniq, hfits⟩ := ldwx_target_fits cfg p x (ldwx_item_facts cfg p x hn (hok' x hx)) wr hxt
  rw [lgrf_atW_targets] at hfit
  have hfind : p.controller.find? (fun y => y.inst == wr.1) = some s := by
    have := lgrf_find_uniq p.controller s hs (fun y hy e => huniq y hy (e.trans hsi))
    rw [hsi] at this
    exact this
  refine ⟨ldwx_symAfter (ldwx_targets its) s, ?_, ?_, ?_⟩
  · show (ldwx_applyAll p (ldwx_targets its)).controller.find? _ = _
    rw [lgrf_find_applyAll, hfind]; rfl
  · rw [ldwx_symAfter_len _ s (hfit s hs)]; exact hfits
  · exact ldwx_symAfter_holds _ s (hfit s hs) hdisj wr hwr hsi.symm

/-- the writes after a prefix stay inside the memory the prefix leaves -/
theorem lgrf_fits_after (pre rest : List ldwx_Wr) : ∀ y : Symbol, ldwx_FitsSym (pre ++ rest) y →
    ldwx_FitsSym rest (ldwx_symAfter pre y) := by
  induction pre with
  | nil => intro y h; exact h
  | cons w pre ih =>
    intro y h
    show ldwx_FitsSym rest (ldwx_symAfter pre (ldwx_stepSym y w))
    exact ih _ (ldwx_fits_step (pre ++ rest) w y h)

/-- one write that stays inside the memory of the symbol found under its instance id: its bytes are in memory -/
theorem lgrf_holds_wr (p : Project) (wr : ldwx_Wr) (s : Symbol)
    (hfind : p.controller.find? (fun y => y.inst == wr.1) = some s) (hfit : wr.2.1 + wr.2.2.length ≤ s.mem.length) :
    lgrf_Holds (ldwx_applyAll p [wr]) wr := by
  obtain ⟨_, hsi⟩ := lgrf_find_mem _ _ _ hfind
  obtain ⟨f1, f2, _⟩ := splice_frame s.mem wr.2.2 wr.2.1 hfit
  refine ⟨ldw2_sym s wr.2.1 wr.2.2, ?_, by show (splice s.mem wr.2.1 wr.2.2).length ≥ _; rw [f1]; exact hfit, f2⟩
  rw [lgrf_find_applyAll, hfind]
  show some (ldwx_stepSym s wr) = _
  rw [ldwx_stepSym_pos s wr hsi]

/-- after a write call, the bytes of an accepted request that no LATER request of the same call meets are in memory
    (earlier requests may overlap it: the later one wins) -/
theorem lgrf_holds_write_last (cfg : Cfg) (C : Nat) (p : Project) (a b : List ldwx_Item) (x : ldwx_Item) (wr : ldwx_Wr)
    (hn : ∀ s' ∈ p.controller, ∀ ch ∈ s'.name, ch < 256) (hok : lgrf_OpOk cfg C p (.write (a ++ x :: b)))
    (hx : x.target = some wr) (hlater : ∀ w' ∈ ldwx_targets b, ldwx_Disj wr w') :
    lgrf_Holds (lgrf_specStep p (.write (a ++ x :: b))).1 wr := by
  have htg : ldwx_targets (a ++ x :: b) = (ldwx_targets a ++ [wr]) ++ ldwx_targets b := by
    unfold ldwx_targets
    rw [List.filterMap_append, List.filterMap_cons, hx, List.append_assoc]
    rfl
  have hok' : ∀ z ∈ (a ++ x :: b).map (lgrf_atW p), ldwx_ItemOk cfg p z := by
    intro z hz
    obtain ⟨z0, h0, rfl⟩ := List.mem_map.1 hz
    exact hok.1 z0 h0
  have hfit := lgrf_fits_of_ok cfg p ((a ++ x :: b).map (lgrf_atW p)) hn hok'
  rw [lgrf_atW_targets, htg] at hfit
  have hxm : lgrf_atW p x ∈ (a ++ x :: b).map (lgrf_atW p) := List.mem_map_of_mem (by simp)
  obtain ⟨s, hs, hsi, huniq, hfits⟩ := ldwx_target_fits cfg p (lgrf_atW p x) (ldwx_item_facts cfg p _ hn (hok' _ hxm)) wr
    (by rw [lgrf_atW_target]; exact hx)
  have hfind : p.controller.find? (fun y => y.inst == wr.1) = some s := by
    have := lgrf_find_uniq p.controller s hs (fun y hy e => huniq y hy (e.trans hsi))
    rw [hsi] at this
    exact this
  -- after the requests before `x`
  have hfitA : ldwx_FitsSym (ldwx_targets a) s := fun w hw => hfit s hs w (List.mem_append_left _ (List.mem_append_left _ hw))
  have hfind1 : (ldwx_applyAll p (ldwx_targets a)).controller.find? (fun y => y.inst == wr.1) =
      some (ldwx_symAfter (ldwx_targets a) s) := by rw [lgrf_find_applyAll, hfind]; rfl
  have hh2 : lgrf_Holds (ldwx_applyAll p (ldwx_targets a ++ [wr])) wr := by
    rw [lgrf_applyAll_append]
    exact lgrf_holds_wr _ wr _ hfind1 (by rw [ldwx_symAfter_len _ s hfitA]; exact hfits)
  -- after the requests behind `x`
  show lgrf_Holds (ldwx_applyAll p (ldwx_targets (a ++ x :: b))) wr
  rw [htg, lgrf_applyAll_append]
  refine lgrf_holds_applyAll _ (ldwx_targets b) wr ?_ hlater hh2
  intro y2 hy2
  rw [ldwx_applyAll_eq] at hy2
  obtain ⟨y, hy, rfl⟩ := List.mem_map.1 hy2
  exact lgrf_fits_after (ldwx_targets a ++ [wr]) (ldwx_targets b) y (hfit y hy)

/-- in a call with pairwise disjoint accepted writes no later request meets an earlier one -/
theorem lgrf_later_of_disjoint (a b : List ldwx_Item) (x : ldwx_Item) (wr : ldwx_Wr) (hx : x.target = some wr)
    (hd : ldwx_Disjoint (a ++ x :: b)) : ∀ w' ∈ ldwx_targets b, ldwx_Disj wr w' := by
  have htg : ldwx_targets (a ++ x :: b) = ldwx_targets a ++ wr :: ldwx_targets b := by
    unfold ldwx_targets
    rw [List.filterMap_append, List.filterMap_cons, hx]
  unfold ldwx_Disjoint at hd
  rw [htg] at hd
  have := (List.pairwise_append.1 hd).2.1
  exact (List.pairwise_cons.1 this).1

/-! ### the value the codec reads from written bytes -/

/-- when the project holds at `(inst, off)` the encoding `bytes` of the canonical value `v` of a fixed-width type, the
    codec reads `v` from the memory of the symbol (found under `inst`) at `off` -/
theorem lgrf_holds_value (p : Project) (s : Symbol) (off : Nat) (bytes : Bytes) (t : Ty) (v : PyVal) (sz : Nat)
    (h : lgrf_Holds p (s.inst, off, bytes)) (hcanon : Canon t v) (henc : encode t v = .ok bytes)
    (hw : fixedWidth t = some sz) : (lgrf_decAt t ((lgrf_memAt p s).drop off)).1 = v := by
  obtain ⟨y, hy, hlen, hb⟩ := h
  have hmem : lgrf_memAt p s = y.mem := by
    unfold lgrf_memAt
    have hy' : p.controller.find? (fun z => z.inst == s.inst) = some y := hy
    rw [hy']
  obtain ⟨enc, he, _, hd⟩ := canon_fixed_roundtrip t v sz hcanon hw
  rw [henc] at he
  cases he
  have hsplit : y.mem.drop off = bytes ++ (y.mem.drop off).drop bytes.length := by
    have := (List.take_append_drop bytes.length (y.mem.drop off)).symm
    have hb' : (y.mem.drop off).take bytes.length = bytes := hb
    rw [hb'] at this
    exact this
  rw [hmem, hsplit, lgrf_decAt_ok _ _ _ _ (hd _)]

/-- the location and codec type a read request of the kinds scalar tag / array element / member path addresses -/
def lgrf_locR : ldmx_Item → Option (Nat × Nat × Ty)
  | .scalar x => some (x.s.inst, 0, x.t)
  | .elem x => some (x.s.inst, x.i * x.sz, x.t)
  | .member x => some (x.s.inst, x.off, x.t)
  | _ => none

/-- the codec type and the value of a write request of the kinds scalar tag / array element / member path -/
def lgrf_valW : ldwx_Item → Option (Ty × PyVal)
  | .scalar x => some (x.t, x.v)
  | .elem x => some (x.t, x.v)
  | .member x => some (x.t, x.v)
  | _ => none

/-- a read request of these kinds, re-based on a project that holds the encoding of `v` at its location, yields `v` -/
theorem lgrf_atR_value (p : Project) (r : ldmx_Item) (inst off : Nat) (bytes : Bytes) (t : Ty) (v : PyVal) (sz : Nat)
    (hloc : lgrf_locR r = some (inst, off, t)) (h : lgrf_Holds p (inst, off, bytes)) (hcanon : Canon t v)
    (henc : encode t v = .ok bytes) (hw : fixedWidth t = some sz) : (lgrf_atR p r).out.value = v := by
  cases r with
  | scalar x =>
    simp only [lgrf_locR, Option.some.injEq, Prod.mk.injEq] at hloc
    obtain ⟨rfl, rfl, rfl⟩ := hloc
    exact lgrf_holds_value p x.s 0 bytes x.t v sz h hcanon henc hw
  | elem x =>
    simp only [lgrf_locR, Option.some.injEq, Prod.mk.injEq] at hloc
    obtain ⟨rfl, rfl, rfl⟩ := hloc
    exact lgrf_holds_value p x.s (x.i * x.sz) bytes x.t v sz h hcanon henc hw
  | member x =>
    simp only [lgrf_locR, Option.some.injEq, Prod.mk.injEq] at hloc
    obtain ⟨rfl, rfl, rfl⟩ := hloc
    exact lgrf_holds_value p x.s x.off bytes x.t v sz h hcanon henc hw
  | slice x => cases hloc
  | bit x => cases hloc
  | boolElem x => cases hloc
  | boolMember x => cases hloc
  | string x => cases hloc
  | struct x => cases hloc
  | prog x => cases hloc
  | oob y => cases hloc

/-- a write request of these kinds that satisfies its hypotheses is accepted: its write is the codec's encoding of its
    canonical value at its location -/
theorem lgrf_valW_target (cfg : Cfg) (p : Project) (x : ldwx_Item) (t : Ty) (v : PyVal) (hv : lgrf_valW x = some (t, v))
    (hok : ldwx_ItemOk cfg p x) :
    ∃ inst off bytes sz, x.target = some (inst, off, bytes) ∧ Canon t v ∧ encode t v = .ok bytes ∧ fixedWidth t = some sz ∧
      x.out.value = v ∧ x.out.error = none := by
  cases x with
  | scalar x =>
    have h : ldwn_ScalarOk cfg p x := hok
    simp only [lgrf_valW, Option.some.injEq, Prod.mk.injEq] at hv
    obtain ⟨rfl, rfl⟩ := hv
    obtain ⟨haty, _⟩ := ldr_atomic_table x.c x.sz x.tname x.t h.atom h.notBits h.size
    exact ⟨x.s.inst, 0, x.bytes, x.sz, rfl, h.canon, h.enc, (ldw_atomic_width x.c x.sz x.t haty h.notBits h.size).1, rfl, rfl⟩
  | elem x =>
    have h : ldwx_ElemOk cfg p x := hok
    simp only [lgrf_valW, Option.some.injEq, Prod.mk.injEq] at hv
    obtain ⟨rfl, rfl⟩ := hv
    obtain ⟨haty, _⟩ := ldr_atomic_table x.c x.sz x.tname x.t h.atom h.notBits h.size
    exact ⟨x.s.inst, x.i * x.sz, x.bytes, x.sz, rfl, h.canon, h.enc, (ldw_atomic_width x.c x.sz x.t haty h.notBits h.size).1,
      rfl, rfl⟩
  | member x =>
    have h : ldwx_MemberOk cfg p x := hok
    simp only [lgrf_valW, Option.some.injEq, Prod.mk.injEq] at hv
    obtain ⟨rfl, rfl⟩ := hv
    obtain ⟨haty, _⟩ := ldr_atomic_table x.c x.sz x.tname x.t h.atom h.notBits h.size
    exact ⟨x.s.inst, x.off, x.bytes, x.sz, rfl, h.canon, h.enc, (ldw_atomic_width x.c x.sz x.t haty h.notBits h.size).1, rfl,
      rfl⟩
  | slice x => cases hv
  | str x => cases hv
  | struct x => cases hv
  | oob x => cases hv

end Pycomm.Lgx.Drv
