/-
  End-to-end laws of the Logix tag services at the message-router level (writes): the request messages the
  client builds (PycommModel/Logix/Client.lean), handed to the reference controller
  (PycommModel/Logix/Services.lean), produce exactly the reply / effect that C01–C04 speak about — for every
  project, location, element count, value, connection size and fragment schedule.
-/
import PycommProofs.LE2EDefs
import PycommProofs.GenericProofs
import PycommProofs.LogixBitsProofs
import PycommProofs.LogixPlanProofs
import PycommProofs.CodecRoundTrip
import PycommProofs.LE2WBasic
import PycommProofs.LE2WTag
import PycommProofs.LE2WFrag
namespace Pycomm.Lgx.E2E
open Pycomm Pycomm.Tgt Pycomm.Path Pycomm.Lgx Pycomm.Lgx.Cl

theorem readBytes_of (p : Project) (loc : Loc) (n sz : Nat) (s : Symbol)
    (hty : ∀ b, loc.ty ≠ .boolBit b)
    (hs : p.symbolOf loc = some s) (hsz : p.elSize loc.ty = some sz)
    (hmem : loc.offset + n * sz ≤ s.mem.length) :
    readBytes p loc n = some ((s.mem.drop loc.offset).take (n * sz)) := by
  unfold readBytes
  simp only [hs, hsz]
  cases hc : loc.ty with
  | boolBit b => exact absurd hc (hty b)
  | atomic c => simp only [if_pos hmem]
  | struct t => simp only [if_pos hmem]

-- PROPERTY THEOREMS

/-- C02: a Write Tag request carrying the location's type marker, the element count and exactly n elements'
    bytes is accepted and its whole effect is: those bytes spliced in at the location, one write logged -/
theorem write_e2e (st : LState) (cap : Nat) (path : Bytes) (segs : List PSeg) (loc : Loc) (n sz : Nat) (value : Bytes)
    (s : Symbol)
    (hp : Denotes path segs) (hr : resolve st.proj segs = .ok loc)
    (hty : ∀ b, loc.ty ≠ .boolBit b)
    (hn : 1 ≤ n ∧ n ≤ loc.avail ∧ n < 65536)
    (hs : st.proj.symbolOf loc = some s) (hsz : st.proj.elSize loc.ty = some sz)
    (hlen : value.length = n * sz) (hmem : loc.offset + n * sz ≤ s.mem.length) :
    exchange st cap (writeMsg path (typeBytes st.proj loc.ty) n value) =
      ({ st with proj := written st.proj loc loc.offset value }, {}) := by
  exact exchange_write st cap path segs loc n sz value s hp hr hty hn hs hsz hlen hmem

/-- C02 (frame, pure): splicing `d` at `off` keeps the length and every byte outside [off, off + |d|) -/
theorem splice_frame (mem d : Bytes) (off : Nat) (h : off + d.length ≤ mem.length) :
    (splice mem off d).length = mem.length ∧
    ((splice mem off d).drop off).take d.length = d ∧
    ∀ j, (j < off ∨ off + d.length ≤ j) → (splice mem off d)[j]? = mem[j]? := by
  have hA : (mem.take off).length = off := by rw [List.length_take]; omega
  refine ⟨?_, ?_, ?_⟩
  · simp only [splice, List.length_append, List.length_take, List.length_drop]; omega
  · unfold splice
    rw [List.append_assoc, List.drop_append_of_le_length (by omega), List.drop_of_length_le (by omega),
      List.nil_append, List.take_left']
    rfl
  · intro j hj
    unfold splice
    rcases hj with hj | hj
    · rw [List.append_assoc, List.getElem?_append_left (by omega), List.getElem?_take_of_lt hj]
    · rw [List.getElem?_append_right (by simp only [List.length_append]; omega), List.getElem?_drop]
      congr 1
      simp only [List.length_append]; omega

/-- C02 (frame): a write-type effect leaves templates, schedules, the symbol lists' shape, and every symbol
    with another instance id untouched; only `mem` of symbols with this instance id changes -/
theorem written_frame (p : Project) (loc : Loc) (off : Nat) (d : Bytes) :
    (written p loc off d).templates = p.templates ∧
    (written p loc off d).controller.length = p.controller.length ∧
    (∀ (i : Nat) (s : Symbol), p.controller[i]? = some s → ∃ s' : Symbol, (written p loc off d).controller[i]? = some s' ∧
        s'.inst = s.inst ∧ s'.name = s.name ∧ s'.symbolType = s.symbolType ∧ s'.dims = s.dims ∧
        (s.inst ≠ loc.symInst ∨ loc.scope ≠ none → s' = s)) ∧
    (written p loc off d).writeLog = p.writeLog ++ [(loc.symInst, off, d.length)] := by
  refine ⟨templates_written p loc off d, ?_, ?_, ?_⟩
  · unfold written logWrite Project.updateSymbol
    cases loc.scope <;> simp
  · intro i s hi
    unfold written logWrite Project.updateSymbol
    cases hsc : loc.scope with
    | none =>
      simp only [List.getElem?_map, hi, Option.map_some]
      refine ⟨_, rfl, ?_⟩
      by_cases hc : s.inst = loc.symInst
      · simp [hc]
      · simp [hc]
    | some a =>
      exact ⟨s, hi, rfl, rfl, rfl, rfl, fun _ => rfl⟩
  · unfold written logWrite Project.updateSymbol
    cases loc.scope <;> rfl

/-- C02: after the write, reading the same location returns the written bytes -/
theorem write_then_read (p : Project) (loc : Loc) (n sz : Nat) (value : Bytes) (s : Symbol)
    (hty : ∀ b, loc.ty ≠ .boolBit b)
    (hs : p.symbolOf loc = some s) (hsz : p.elSize loc.ty = some sz)
    (hlen : value.length = n * sz) (hmem : loc.offset + n * sz ≤ s.mem.length) :
    readBytes (written p loc loc.offset value) loc n = some value := by
  have hf := splice_frame s.mem value loc.offset (by omega)
  rw [readBytes_of _ loc n sz _ hty (symbolOf_written p loc _ _ s hs)
    (by rw [elSize_congr _ _ (templates_written p loc _ _)]; exact hsz)
    (by show loc.offset + n * sz ≤ (splice s.mem loc.offset value).length; rw [hf.1]; exact hmem)]
  show some (((splice s.mem loc.offset value).drop loc.offset).take (n * sz)) = some value
  rw [← hlen, hf.2.1]

/-- C02: the fragmented write loop sends segments that the controller accepts one after the other, and the
    total effect on the tag's memory is the whole value spliced in once; the write log shows the tiling -/
theorem write_frag_e2e (st : LState) (cap : Nat) (path : Bytes) (segs : List PSeg) (loc : Loc) (n sz : Nat)
    (value : Bytes) (s : Symbol)
    (hp : Denotes path segs) (hr : resolve st.proj segs = .ok loc)
    (hty : ∀ b, loc.ty ≠ .boolBit b)
    (hn : 1 ≤ n ∧ n ≤ loc.avail ∧ n < 65536)
    (hs : st.proj.symbolOf loc = some s) (hsz : st.proj.elSize loc.ty = some sz)
    (hlen : value.length = n * sz) (hne : value ≠ []) (hl32 : value.length < 2 ^ 32)
    (hmem : loc.offset + n * sz ≤ s.mem.length)
    (hseg : 1 ≤ writeSegSize cap path (typeBytes st.proj loc.ty)) :
    let r := writeFragmented path (typeBytes st.proj loc.ty) n cap value st
    (∀ x ∈ r.2, x = 0) ∧ r.2.length = (K.writeFragments (writeSegSize cap path (typeBytes st.proj loc.ty)) value).length ∧
    readBytes r.1.proj loc n = some value ∧
    r.1.proj.writeLog = st.proj.writeLog ++
      (K.writeFragments (writeSegSize cap path (typeBytes st.proj loc.ty)) value).map
        (fun f => (loc.symInst, loc.offset + f.1, f.2.length)) := by
  intro r
  have _ := hne
  have hr2 : r = writeFragSend path (typeBytes st.proj loc.ty) n cap st
      (K.writeFragments (writeSegSize cap path (typeBytes st.proj loc.ty)) value) := rfl
  generalize writeSegSize cap path (typeBytes st.proj loc.ty) = sg at hseg hr2 ⊢
  have hw : K.writeFragments sg value = K.writeSegments sg value (value.length + 1) 0 := by
    unfold K.writeFragments; rw [if_neg (by omega)]
  rw [hw] at hr2 ⊢
  obtain ⟨i1, i2, ⟨s'', i3, i3l, i3v⟩, i4, i5⟩ := frag_loop st cap path segs loc n sz value s hp hty hn hsz hlen hl32 hmem sg hseg
    (value.length + 1) 0 st (Nat.zero_le _) (by omega) hr rfl ⟨s, hs, rfl, by simp⟩
  rw [← hr2] at i1 i2 i3 i4 i5
  refine ⟨i1, i2, ?_, ?_⟩
  · rw [readBytes_of _ loc n sz s'' hty i3 (by rw [elSize_congr _ _ i4]; exact hsz) (by omega), ← hlen, i3v]
  · rw [i5]

/-- C02: a Read-Modify-Write request built from the client's masks changes the located integer to exactly
    `rmwResult` (whose bit-level meaning is C02 `rmw_law`), and nothing else -/
theorem rmw_e2e (st : LState) (cap : Nat) (path : Bytes) (segs : List PSeg) (loc : Loc) (c sz : Nat) (m : K.Masks)
    (s : Symbol)
    (hp : Denotes path segs) (hr : resolve st.proj segs = .ok loc)
    (hty : loc.ty = .atomic c) (hsz : atomicSize c = some sz) (hint : c ≠ 0xCA ∧ c ≠ 0xCB ∧ c ≠ 0xC1)
    (hs : st.proj.symbolOf loc = some s) (hmem : loc.offset + sz ≤ s.mem.length) :
    exchange st cap (rmwMsg path sz m) =
      ({ st with proj := (written st.proj loc loc.offset
            (le sz (K.rmwResult sz (leVal ((s.mem.drop loc.offset).take sz)) m))) }, {}) := by
  have h := exchange_4E st cap path (le 2 sz ++ K.maskBytes sz m.orM ++ K.maskBytes sz m.andM) segs loc hp hr
  rw [rmwTag_ok st loc c sz m s hty hsz hint hs hmem] at h
  rw [← h]
  simp only [rmwMsg, List.append_assoc]


end Pycomm.Lgx.E2E
