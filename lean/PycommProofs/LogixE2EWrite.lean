/-
  End-to-end laws of the Logix tag services at the message-router level (writes): the request messages the
  client builds (PycommModel/Logix/Client.lean), handed to the reference controller
  (PycommModel/Logix/Services.lean), produce exactly the reply / effect that C01–C04 speak about — for every
  project, location, element count, value, connection size and fragment schedule.
-/
import PycommProofs.LE2EDefs
import PycommProofs.GenericProofs
import PycommProofs.LogixBitsProofs
import PycommProofs.LogixPlanProofs
import PycommProofs.CodecRoundTrip
namespace Pycomm.Lgx.E2E
open Pycomm Pycomm.Tgt Pycomm.Path Pycomm.Lgx Pycomm.Lgx.Cl

-- PROPERTY THEOREMS

/-- C02: a Write Tag request carrying the location's type marker, the element count and exactly n elements'
    bytes is accepted and its whole effect is: those bytes spliced in at the location, one write logged -/
theorem write_e2e (st : LState) (cap : Nat) (path : Bytes) (segs : List PSeg) (loc : Loc) (n sz : Nat) (value : Bytes)
    (s : Symbol)
    (hp : Denotes path segs) (hr : resolve st.proj segs = .ok loc)
    (hty : ∀ b, loc.ty ≠ .boolBit b)
    (hn : 1 ≤ n ∧ n ≤ loc.avail ∧ n < 65536)
    (hs : st.proj.symbolOf loc = some s) (hsz : st.proj.elSize loc.ty = some sz)
    (hlen : value.length = n * sz) (hmem : loc.offset + n * sz ≤ s.mem.length) :
    exchange st cap (writeMsg path (typeBytes st.proj loc.ty) n value) =
      ({ st with proj := written st.proj loc loc.offset value }, {}) := by
  sorry

/-- C02 (frame, pure): splicing `d` at `off` keeps the length and every byte outside [off, off + |d|) -/
theorem splice_frame (mem d : Bytes) (off : Nat) (h : off + d.length ≤ mem.length) :
    (splice mem off d).length = mem.length ∧
    ((splice mem off d).drop off).take d.length = d ∧
    ∀ j, (j < off ∨ off + d.length ≤ j) → (splice mem off d)[j]? = mem[j]? := by
  sorry

/-- C02 (frame): a write-type effect leaves templates, schedules, the symbol lists' shape, and every symbol
    with another instance id untouched; only `mem` of symbols with this instance id changes -/
theorem written_frame (p : Project) (loc : Loc) (off : Nat) (d : Bytes) :
    (written p loc off d).templates = p.templates ∧
    (written p loc off d).controller.length = p.controller.length ∧
    (∀ (i : Nat) (s : Symbol), p.controller[i]? = some s → ∃ s' : Symbol, (written p loc off d).controller[i]? = some s' ∧
        s'.inst = s.inst ∧ s'.name = s.name ∧ s'.symbolType = s.symbolType ∧ s'.dims = s.dims ∧
        (s.inst ≠ loc.symInst ∨ loc.scope ≠ none → s' = s)) ∧
    (written p loc off d).writeLog = p.writeLog ++ [(loc.symInst, off, d.length)] := by
  sorry

/-- C02: after the write, reading the same location returns the written bytes -/
theorem write_then_read (p : Project) (loc : Loc) (n sz : Nat) (value : Bytes) (s : Symbol)
    (hty : ∀ b, loc.ty ≠ .boolBit b)
    (hs : p.symbolOf loc = some s) (hsz : p.elSize loc.ty = some sz)
    (hlen : value.length = n * sz) (hmem : loc.offset + n * sz ≤ s.mem.length) :
    readBytes (written p loc loc.offset value) loc n = some value := by
  sorry

/-- C02: the fragmented write loop sends segments that the controller accepts one after the other, and the
    total effect on the tag's memory is the whole value spliced in once; the write log shows the tiling -/
theorem write_frag_e2e (st : LState) (cap : Nat) (path : Bytes) (segs : List PSeg) (loc : Loc) (n sz : Nat)
    (value : Bytes) (s : Symbol)
    (hp : Denotes path segs) (hr : resolve st.proj segs = .ok loc)
    (hty : ∀ b, loc.ty ≠ .boolBit b)
    (hn : 1 ≤ n ∧ n ≤ loc.avail ∧ n < 65536)
    (hs : st.proj.symbolOf loc = some s) (hsz : st.proj.elSize loc.ty = some sz)
    (hlen : value.length = n * sz) (hne : value ≠ []) (hl32 : value.length < 2 ^ 32)
    (hmem : loc.offset + n * sz ≤ s.mem.length)
    (hseg : 1 ≤ writeSegSize cap path (typeBytes st.proj loc.ty)) :
    let r := writeFragmented path (typeBytes st.proj loc.ty) n cap value st
    (∀ x ∈ r.2, x = 0) ∧ r.2.length = (K.writeFragments (writeSegSize cap path (typeBytes st.proj loc.ty)) value).length ∧
    readBytes r.1.proj loc n = some value ∧
    r.1.proj.writeLog = st.proj.writeLog ++
      (K.writeFragments (writeSegSize cap path (typeBytes st.proj loc.ty)) value).map
        (fun f => (loc.symInst, loc.offset + f.1, f.2.length)) := by
  sorry

/-- C02: a Read-Modify-Write request built from the client's masks changes the located integer to exactly
    `rmwResult` (whose bit-level meaning is C02 `rmw_law`), and nothing else -/
theorem rmw_e2e (st : LState) (cap : Nat) (path : Bytes) (segs : List PSeg) (loc : Loc) (c sz : Nat) (m : K.Masks)
    (s : Symbol)
    (hp : Denotes path segs) (hr : resolve st.proj segs = .ok loc)
    (hty : loc.ty = .atomic c) (hsz : atomicSize c = some sz) (hint : c ≠ 0xCA ∧ c ≠ 0xCB ∧ c ≠ 0xC1)
    (hs : st.proj.symbolOf loc = some s) (hmem : loc.offset + sz ≤ s.mem.length) :
    exchange st cap (rmwMsg path sz m) =
      ({ st with proj := (written st.proj loc loc.offset
            (le sz (K.rmwResult sz (leVal ((s.mem.drop loc.offset).take sz)) m))) }, {}) := by
  sorry


end Pycomm.Lgx.E2E
