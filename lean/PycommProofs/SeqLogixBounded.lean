/-
  C17 (connected messages carry fresh sequence counts) over histories of open / close / generic_message /
  `LogixDriver.read` / `LogixDriver.write` — WITHOUT the structural hypothesis `LCall.LoopsLast` of
  `seq_never_repeats_logix` (LifecycleLogix.lean).

  A packet's sequence count is drawn when the packet object is BUILT; every round of a fragmented transfer draws a
  fresh one.  A packet that waits while a fragmented transfer runs therefore grows "older" by one draw per round, and
  after 65535 draws the counter delivers its number again (counterexample CE7).  The hypothesis that is actually needed
  is quantitative: the rounds that run while a packet built earlier is still waiting (`LCall.rounds`) count like draws
  that are not followed by a send — they are added to the budget of `lbudgetR` (`lbudgetF`).  `LoopsLast` says that
  there are no such rounds: `seq_never_repeats_logix` is the corollary `seq_never_repeats_logix_of_loopsLast`.

  helpers: SeqLB1.lean (counting the rounds, the fragment loops with packets waiting), SeqLB2.lean (`_send_requests`,
  a whole read / write), SeqLB3.lean (when the rounds are bounded: segments of a write, a controller that makes
  progress)
-/
import PycommProofs.LifecycleLogix
import PycommProofs.SeqLB2
import PycommProofs.SeqLB3
namespace Pycomm.Cli
open Pycomm.Tgt Pycomm.Encap Pycomm.Path

/-! ### the budget with the rounds of the fragment loops -/

/-- the rounds of the fragment loops of a read / write call that run while a packet built earlier in the same call is
    still waiting to be sent (the call is run on `w`) -/
def LCall.rounds {σ} (hook : ObjHook σ) (w : World σ) : LCall → Nat
  | .read cfg tags => Lgx.Drv.slb_readRounds hook cfg w tags
  | .write cfg tvs => Lgx.Drv.slb_writeRounds hook cfg w tvs
  | _ => 0

/-- the budget along the run, as `lbudgetR`, where every call also spends its `rounds` -/
def lbudgetF {σ} (hook : ObjHook σ) : Nat → World σ → List LCall → Nat
  | cur, _, [] => cur
  | cur, w, .close :: cs => max cur (lbudgetF hook 0 (lcallStep hook w .close).1 cs)
  | cur, w, c :: cs =>
      if lgood hook w c then
        max (cur + (c.budget + c.rounds hook w)) (lbudgetF hook (c.budget + c.rounds hook w) (lcallStep hook w c).1 cs)
      else lbudgetF hook (cur + (c.budget + c.rounds hook w)) (lcallStep hook w c).1 cs

theorem lbudgetF_step {σ} (hook : ObjHook σ) (cur : Nat) (w : World σ) (c : LCall) (cs : List LCall)
    (hc : c ≠ .close) :
    lbudgetF hook cur w (c :: cs) =
      if lgood hook w c then
        max (cur + (c.budget + c.rounds hook w)) (lbudgetF hook (c.budget + c.rounds hook w) (lcallStep hook w c).1 cs)
      else lbudgetF hook (cur + (c.budget + c.rounds hook w)) (lcallStep hook w c).1 cs := by
  cases c with
  | close => exact absurd rfl hc
  | «open» _ | generic _ | read _ _ | write _ _ => rfl

theorem lbudgetF_ge {σ} (hook : ObjHook σ) (calls : List LCall) :
    ∀ (cur : Nat) (w : World σ), cur ≤ lbudgetF hook cur w calls := by
  induction calls with
  | nil => intro cur w; exact Nat.le_refl _
  | cons c cs ih =>
    intro cur w
    by_cases hc : c = .close
    · subst hc
      simp only [lbudgetF]
      omega
    · rw [lbudgetF_step hook cur w c cs hc]
      split
      · omega
      · exact Nat.le_trans (Nat.le_add_right _ _) (ih _ _)

/-- the budget of `lbudget` (history alone, only close() starts a new segment) when every call `c` runs at most `R c`
    rounds while packets are waiting -/
def lbudgetS (R : LCall → Nat) : Nat → List LCall → Nat
  | cur, [] => cur
  | cur, .close :: cs => max cur (lbudgetS R 0 cs)
  | cur, c :: cs => lbudgetS R (cur + (c.budget + R c)) cs

theorem lbudgetS_step (R : LCall → Nat) (cur : Nat) (c : LCall) (cs : List LCall) (hc : c ≠ .close) :
    lbudgetS R cur (c :: cs) = lbudgetS R (cur + (c.budget + R c)) cs := by
  cases c with
  | close => exact absurd rfl hc
  | «open» _ | generic _ | read _ _ | write _ _ => rfl

theorem lbudgetS_ge (R : LCall → Nat) (calls : List LCall) : ∀ cur, cur ≤ lbudgetS R cur calls := by
  induction calls with
  | nil => intro cur; exact Nat.le_refl _
  | cons c cs ih =>
    intro cur
    by_cases hc : c = .close
    · subst hc; simp only [lbudgetS]; omega
    · rw [lbudgetS_step R cur c cs hc]
      exact Nat.le_trans (Nat.le_add_right _ _) (ih _)

theorem lbudgetS_mono (R : LCall → Nat) (calls : List LCall) :
    ∀ cur cur', cur ≤ cur' → lbudgetS R cur calls ≤ lbudgetS R cur' calls := by
  induction calls with
  | nil => intro cur cur' h; exact h
  | cons c cs ih =>
    intro cur cur' h
    by_cases hc : c = .close
    · subst hc; simp only [lbudgetS]; omega
    · rw [lbudgetS_step R cur c cs hc, lbudgetS_step R cur' c cs hc]
      exact ih _ _ (by omega)

/-- along the run of the history from `w`, every call `c` runs at most `R c` rounds while packets are waiting -/
def LRoundsLe {σ} (hook : ObjHook σ) (R : LCall → Nat) : World σ → List LCall → Prop
  | _, [] => True
  | w, c :: cs => c.rounds hook w ≤ R c ∧ LRoundsLe hook R (lcallStep hook w c).1 cs

theorem lbudgetF_le {σ} (hook : ObjHook σ) (R : LCall → Nat) (calls : List LCall) :
    ∀ (cur : Nat) (w : World σ), LRoundsLe hook R w calls → lbudgetF hook cur w calls ≤ lbudgetS R cur calls := by
  induction calls with
  | nil => intro cur w _; exact Nat.le_refl _
  | cons c cs ih =>
    intro cur w hr
    obtain ⟨hr1, hr2⟩ := hr
    by_cases hc : c = .close
    · subst hc
      simp only [lbudgetF, lbudgetS]
      have := ih 0 _ hr2
      omega
    · rw [lbudgetF_step hook cur w c cs hc, lbudgetS_step R cur c cs hc]
      split
      · have h1 := ih (c.budget + c.rounds hook w) _ hr2
        have h2 := lbudgetS_mono R cs (c.budget + c.rounds hook w) (cur + (c.budget + R c)) (by omega)
        have h3 := lbudgetS_ge R cs (cur + (c.budget + R c))
        omega
      · exact Nat.le_trans (ih _ _ hr2) (lbudgetS_mono R cs _ _ (by omega))

/-! ### `LoopsLast`: no round runs while a packet is waiting -/

theorem slb_reqDraws_noloop {σ} (hook : ObjHook σ) (w : World σ) (q : Lgx.Drv.Request) (h : q.lcl_isLoop = false) :
    Lgx.Drv.slb_reqDraws hook w q = 0 := by
  cases q with
  | readFrag r => cases h
  | writeFrag r => cases h
  | read _ | write _ | rmw _ | multiRead _ _ | multiWrite _ _ => rfl

theorem slb_loopDraws_loopLast {σ} (hook : ObjHook σ) (reqs : List Lgx.Drv.Request) :
    ∀ (w : World σ) (rs : Lgx.Drv.Results), Lgx.Drv.lcl_loopLast reqs = true →
      Lgx.Drv.slb_loopDraws hook w rs reqs = 0 := by
  induction reqs with
  | nil => intro w rs _; rfl
  | cons q rest ih =>
    intro w rs hll
    obtain ⟨hll', hlast⟩ := Lgx.Drv.lcl_loopLast_cons q rest hll
    have hhere : (if Lgx.Drv.slb_pending rest = true then Lgx.Drv.slb_reqDraws hook w q else 0) = 0 := by
      cases hl : q.lcl_isLoop with
      | false => rw [slb_reqDraws_noloop hook w q hl]; split <;> rfl
      | true =>
        rw [hlast hl]
        rfl
    rw [Lgx.Drv.slb_loopDraws, hhere]
    split
    · rw [ih _ _ hll']
    · rfl

theorem slb_rounds_loopsLast {σ} (hook : ObjHook σ) (w : World σ) (c : LCall) (hl : c.LoopsLast) (hsz : lcl_Sz w.drv) :
    c.rounds hook w = 0 := by
  have b6 := lcl_Sz_step hsz ((lcl_SzStep_mutual hook FUEL).2.1 w)
  cases c with
  | «open» _ | close | generic _ => rfl
  | read cfg tags =>
    simp only [LCall.rounds, Lgx.Drv.slb_readRounds]
    generalize ensureForwardOpen hook FUEL w = r0 at b6 ⊢
    obtain ⟨w0, pre⟩ := r0
    cases pre with
    | error e => rfl
    | ok u =>
      dsimp only at b6 ⊢
      rcases hbr : Lgx.Drv.readBuildRequests cfg w0.drv (Lgx.Drv.parseRequestedTags cfg.tags false tags) with ⟨d1, reqs⟩
      cases reqs with
      | error e => rfl
      | ok reqs => exact slb_loopDraws_loopLast hook reqs _ _ (hl _ b6 _ _ hbr)
  | write cfg tvs =>
    simp only [LCall.rounds, Lgx.Drv.slb_writeRounds]
    generalize ensureForwardOpen hook FUEL w = r0 at b6 ⊢
    obtain ⟨w0, pre⟩ := r0
    cases pre with
    | error e => rfl
    | ok u =>
      dsimp only at b6 ⊢
      rcases hbr : Lgx.Drv.writeBuildRequests cfg w0.drv (Lgx.Drv.lds_wparse cfg.tags tvs) with ⟨d1, built⟩
      cases built with
      | error e => rfl
      | ok x =>
        obtain ⟨ps', reqs⟩ := x
        exact slb_loopDraws_loopLast hook reqs _ _ (hl _ b6 _ _ _ hbr)

/-- under `LoopsLast` the budget with rounds is the budget of `lbudgetR` -/
theorem lbudgetF_loopsLast {σ} (hook : ObjHook σ) (calls : List LCall) :
    ∀ (cur : Nat) (w : World σ), (∀ c ∈ calls, c.LoopsLast) → lcl_Sz w.drv →
      lbudgetF hook cur w calls = lbudgetR hook cur w calls := by
  induction calls with
  | nil => intro cur w _ _; rfl
  | cons c cs ih =>
    intro cur w hl hsz
    have h4 := lcl_call_sz hook w c hsz
    have hcs : ∀ c' ∈ cs, c'.LoopsLast := fun c' h => hl c' (List.mem_cons_of_mem _ h)
    by_cases hc : c = .close
    · subst hc
      simp only [lbudgetF, lbudgetR]
      rw [ih 0 _ hcs h4]
    · rw [lbudgetF_step hook cur w c cs hc, lbudgetR_step hook cur w c cs hc,
        slb_rounds_loopsLast hook w c (hl c List.mem_cons_self) hsz, Nat.add_zero, ih _ _ hcs h4, ih _ _ hcs h4]

/-! ### the run -/

/-- lifecycle, idle and sequence invariants along every history of the extended alphabet, for any packets -/
theorem slb_run_seq {σ} (hook : ObjHook σ) (hh : HookOk hook) (hn : HookQuietSeq hook) (F : List Fault) (P : Policy)
    (calls : List LCall) :
    ∀ (w : World σ) (B : Nat), (∀ a, LCall.generic a ∈ calls → AvoidsCM a = true) →
      (∀ a, LCall.generic a ∈ calls → a.connected = true → SizeOk a = true) →
      lci_Inv False w → lci_Conn w → lci_Net F P w → lcl_SeqB B w →
      F.length + lbudgetF hook B w calls < 65534 → ∃ B', lcl_SeqB B' (lrun hook w calls) := by
  induction calls with
  | nil => intro w B _ _ _ _ _ hq _; exact ⟨B, hq⟩
  | cons c cs ih =>
    intro w B hg hs hi hc hnet hq hb
    obtain ⟨h1, h2⟩ := lcl_call_inv hook hh False w c (fun _ _ h => h.elim)
      (fun a e => hg a (e ▸ List.mem_cons_self)) hi hc
    have h3 := lcl_call_net hook hh F P w c hi hnet
    have hF : w.net.faults = F := hnet.faults
    have next : ∀ B1, lcl_SeqB B1 (lcallStep hook w c).1 → F.length + lbudgetF hook B1 (lcallStep hook w c).1 cs < 65534 →
        ∃ B', lcl_SeqB B' (lrun hook w (c :: cs)) := by
      intro B1 hq1 hb1
      exact ih _ B1 (fun a h => hg a (List.mem_cons_of_mem _ h)) (fun a h => hs a (List.mem_cons_of_mem _ h))
        h1 h2 h3 hq1 hb1
    cases c with
    | «open» rnd =>
      refine next B ?_ (by simpa [lbudgetF, lgood, LCall.budget, LCall.rounds] using hb)
      have := lcl_openDrv_seq hook hh hn B w rnd hq
      simp only [lcallStep]
      generalize openDrv hook w rnd = r at this ⊢
      obtain ⟨w', o⟩ := r
      cases o <;> exact this
    | close =>
      have hb' : F.length + lbudgetF hook 0 (lcallStep hook w .close).1 cs < 65534 := by
        simp only [lbudgetF] at hb
        omega
      refine next 0 ?_ hb'
      have := lcl_closeDrv_seq hook hh hn F P B 0 w hnet hq (by rw [hF]; omega)
      simp only [lcallStep]
      generalize closeDrv hook w = r at this ⊢
      obtain ⟨w', o⟩ := r
      cases o <;> exact this
    | generic a =>
      refine next B ?_ (by simpa [lbudgetF, lgood, LCall.budget, LCall.rounds] using hb)
      have := lcl_generic_seq hook hh hn False B FUEL w a
        (fun hcn => lcs_size_of_check a (hs a List.mem_cons_self hcn)) hi hc hq
      simp only [lcallStep]
      generalize genericMessage hook FUEL w a = r at this ⊢
      obtain ⟨w', o⟩ := r
      cases o <;> exact this
    | read cfg tags =>
      rw [lbudgetF_step hook B w _ cs (by intro h; cases h)] at hb
      have hw' : (lcallStep hook w (.read cfg tags)).1 = (Lgx.Drv.read hook cfg w tags).1 := by
        simp only [lcallStep]
        generalize Lgx.Drv.read hook cfg w tags = r
        obtain ⟨w', o⟩ := r
        cases o <;> rfl
      simp only [LCall.budget, LCall.rounds] at hb
      generalize hR : Lgx.Drv.slb_readRounds hook cfg w tags = R at hb
      have hfl : w.net.faults.length + (B + 3 * tags.length + 1 + R) < 65534 := by
        rw [hF]
        by_cases hgd : lgood hook w (.read cfg tags) = true
        · rw [if_pos hgd] at hb
          omega
        · rw [if_neg hgd] at hb
          have := lbudgetF_ge hook cs (B + (3 * tags.length + 1 + R)) (lcallStep hook w (.read cfg tags)).1
          omega
      obtain ⟨k1, k2⟩ := Lgx.Drv.slb_read_seq hook hh hn False B cfg w tags hi hc hq (by rw [hR]; exact hfl)
      rw [hR] at k1 k2
      by_cases hgd : lgood hook w (.read cfg tags) = true
      · rw [if_pos hgd] at hb
        refine next (3 * tags.length + 1 + R) ?_ (by omega)
        rw [hw']
        simp only [lgood] at hgd
        cases hres : (Lgx.Drv.read hook cfg w tags).2 with
        | error e => rw [hres] at hgd; cases hgd
        | ok res => rw [hres] at hgd; exact k2 res hres hgd
      · rw [if_neg hgd] at hb
        refine next (B + 3 * tags.length + 1 + R) ?_ (by
          rw [show B + 3 * tags.length + 1 + R = B + (3 * tags.length + 1 + R) by omega]; exact hb)
        rw [hw']
        exact k1
    | write cfg tvs =>
      rw [lbudgetF_step hook B w _ cs (by intro h; cases h)] at hb
      have hw' : (lcallStep hook w (.write cfg tvs)).1 = (Lgx.Drv.write hook cfg w tvs).1 := by
        simp only [lcallStep]
        generalize Lgx.Drv.write hook cfg w tvs = r
        obtain ⟨w', o⟩ := r
        cases o <;> rfl
      simp only [LCall.budget, LCall.rounds] at hb
      generalize hR : Lgx.Drv.slb_writeRounds hook cfg w tvs = R at hb
      have hfl : w.net.faults.length + (B + 3 * tvs.length + 1 + R) < 65534 := by
        rw [hF]
        by_cases hgd : lgood hook w (.write cfg tvs) = true
        · rw [if_pos hgd] at hb
          omega
        · rw [if_neg hgd] at hb
          have := lbudgetF_ge hook cs (B + (3 * tvs.length + 1 + R)) (lcallStep hook w (.write cfg tvs)).1
          omega
      obtain ⟨k1, k2⟩ := Lgx.Drv.slb_write_seq hook hh hn False B cfg w tvs hi hc hq (by rw [hR]; exact hfl)
      rw [hR] at k1 k2
      by_cases hgd : lgood hook w (.write cfg tvs) = true
      · rw [if_pos hgd] at hb
        refine next (3 * tvs.length + 1 + R) ?_ (by omega)
        rw [hw']
        simp only [lgood] at hgd
        cases hres : (Lgx.Drv.write hook cfg w tvs).2 with
        | error e => rw [hres] at hgd; cases hgd
        | ok res => rw [hres] at hgd; exact k2 res hres hgd
      · rw [if_neg hgd] at hb
        refine next (B + 3 * tvs.length + 1 + R) ?_ (by
          rw [show B + 3 * tvs.length + 1 + R = B + (3 * tvs.length + 1 + R) by omega]; exact hb)
        rw [hw']
        exact k1

/-- evaluable check on a history: every connected generic_message call can be framed -/
def lhistSizeOk : List LCall → Bool
  | [] => true
  | .generic a :: cs => (!a.connected || SizeOk a) && lhistSizeOk cs
  | _ :: cs => lhistSizeOk cs

theorem lhistSizeOk_spec (calls : List LCall) (h : lhistSizeOk calls = true) :
    ∀ a, LCall.generic a ∈ calls → a.connected = true → SizeOk a = true := by
  induction calls with
  | nil => intro a ha; cases ha
  | cons c cs ih =>
    intro a ha hcn
    cases c with
    | generic b =>
      simp only [lhistSizeOk, Bool.and_eq_true, Bool.or_eq_true, Bool.not_eq_true'] at h
      rcases List.mem_cons.1 ha with e | ha
      · cases e
        rcases h.1 with h1 | h1
        · rw [hcn] at h1; cases h1
        · exact h1
      · exact ih h.2 a ha hcn
    | «open» _ | close | read _ _ | write _ _ =>
      rcases List.mem_cons.1 ha with e | ha
      · cases e
      · exact ih h a ha hcn

-- PROPERTY THEOREMS

/-- C17 over the extended alphabet, for reads and writes that build ANY list of packets.  For EVERY history of
    open / close / generic_message / read / write calls from a fresh world, every target policy and every fault plan:
    the sequence count of a connected request never equals the one the target saw last on that connection — provided
    * `hg`, `hs`, `hn`: as in `seq_never_repeats` (generic_message leaves the Connection Manager alone, its connected
      requests can be framed, the object hook logs no duplicate-count violation of its own);
    * `hb`: (number of faults) + Σ (3 · requests + 1 + rounds) over the reads / writes since the last close() or the
      last read / write that returned a Tag without error (`lgood`), whichever came later, < 65534 (`lbudgetF`, which
      follows the run), where the `rounds` of a call (`LCall.rounds`) are the rounds of its fragmented transfers
      (one per "more data follows" answer of a fragmented read, one per segment of a fragmented write) that run
      while a packet built earlier in the same call is still waiting to be sent.  Rounds of a transfer after which the
      call sends no packet built earlier are not counted and not bounded; generic_message calls and answered reads /
      writes are not bounded in number. -/
theorem seq_never_repeats_logix_bounded {σ} (hook : ObjHook σ) (hh : HookOk hook) (hn : HookQuietSeq hook) (w : World σ)
    (hf : Fresh w) (calls : List LCall)
    (hg : ∀ a, LCall.generic a ∈ calls → AvoidsCM a = true)
    (hs : ∀ a, LCall.generic a ∈ calls → a.connected = true → SizeOk a = true)
    (hb : w.net.faults.length + lbudgetF hook 0 w calls < 65534) :
    NoSeqRepeat (lrun hook w calls).net.target.base.log := by
  obtain ⟨hi, hc⟩ := lci_fresh_inv False w hf (fun h => h.elim)
  have hge := lbudgetF_ge hook calls 0 w
  have hq := lcl_SeqB_of_seq (lcs_fresh w hf (by omega))
  obtain ⟨B', h⟩ := slb_run_seq hook hh hn _ _ calls w 0 hg hs hi hc (lci_fresh_net w hf) hq hb
  exact h.log

/-- the same with the budget computed from the history alone, given a bound `R c` on the rounds of every call `c`
    along the run (`LRoundsLe`): (number of faults) + Σ (3 · requests + 1 + R c) over the reads / writes between two
    close() calls < 65534 (`lbudgetS`) -/
theorem seq_never_repeats_logix_bounded_static {σ} (hook : ObjHook σ) (hh : HookOk hook) (hn : HookQuietSeq hook)
    (w : World σ) (hf : Fresh w) (calls : List LCall) (R : LCall → Nat)
    (hg : ∀ a, LCall.generic a ∈ calls → AvoidsCM a = true)
    (hs : ∀ a, LCall.generic a ∈ calls → a.connected = true → SizeOk a = true)
    (hr : LRoundsLe hook R w calls)
    (hb : w.net.faults.length + lbudgetS R 0 calls < 65534) :
    NoSeqRepeat (lrun hook w calls).net.target.base.log :=
  seq_never_repeats_logix_bounded hook hh hn w hf calls hg hs (by have := lbudgetF_le hook R calls 0 w hr; omega)

/-- `seq_never_repeats_logix` is a corollary: when in every read / write call a packet that is sent by a fragment loop
    is the last packet of the call (`LCall.LoopsLast`), no round runs while a packet is waiting, and the budget is the
    one of `lbudgetR` -/
theorem seq_never_repeats_logix_of_loopsLast {σ} (hook : ObjHook σ) (hh : HookOk hook) (hn : HookQuietSeq hook)
    (w : World σ) (hf : Fresh w) (calls : List LCall)
    (hg : ∀ a, LCall.generic a ∈ calls → AvoidsCM a = true)
    (hs : ∀ a, LCall.generic a ∈ calls → a.connected = true → SizeOk a = true)
    (hl : ∀ c ∈ calls, c.LoopsLast)
    (hb : w.net.faults.length + lbudgetR hook 0 w calls < 65534) :
    NoSeqRepeat (lrun hook w calls).net.target.base.log :=
  seq_never_repeats_logix_bounded hook hh hn w hf calls hg hs
    (by rw [lbudgetF_loopsLast hook calls 0 w hl (.inl hf.2.2.2.2.2.2.1)]; exact hb)

/-! ### when the rounds are bounded -/

/-- a fragmented WRITE: the driver alone decides the number of rounds — the value is cut into segments of
    (connection size − request overhead) bytes, one sequence number per segment: rounds × segment size < value bytes +
    segment size.  (`Lgx.Drv.slb_writeFragSegs_le`: a value of at most N segments takes at most N rounds.) -/
theorem frag_write_rounds_lt {σ} (hook : ObjHook σ) (w : World σ) (req : Lgx.Drv.WriteReq)
    (hs : 0 < Lgx.Cl.writeSegSize w.drv.connectionSize req.path req.typeBytes) :
    Lgx.Drv.slb_reqDraws hook w (.writeFrag req) * Lgx.Cl.writeSegSize w.drv.connectionSize req.path req.typeBytes <
      req.value.length + Lgx.Cl.writeSegSize w.drv.connectionSize req.path req.typeBytes :=
  Lgx.Drv.slb_writeFragSegs_lt w.drv.connectionSize req hs

/-- a fragmented READ: the controller decides — the driver asks again as long as the answer is "more data follows".
    If the controller makes progress on the request (`Lgx.Drv.slb_Progress hook I req m S`: in the worlds `I`, an
    answer "more data follows" to a request from an offset below `S` carries at least `m` value bytes and stays below
    `S`), the loop draws fewer than S / m sequence numbers: rounds × m < S -/
theorem frag_read_rounds_lt {σ} (hook : ObjHook σ) (I : World σ → Prop) (req : Lgx.Drv.ReadReq) (m S : Nat)
    (hp : Lgx.Drv.slb_Progress hook I req m S) (w : World σ) (hI : I w) (hseq : req.seq < 65536) (hS : 0 < S) :
    Lgx.Drv.slb_reqDraws hook w (.readFrag req) * m < S :=
  Lgx.Drv.slb_readFragDraws_lt hook I req m S hp Lgx.Drv.FRAG_FUEL w req.seq hI hseq hS

/-- the rounds `_send_requests` runs while packets are waiting are at most the sum of the bounds `NB q` of the loops
    `q` that have a waiting packet behind them (`Lgx.Drv.slb_staticRounds`), when `NB q` bounds the rounds of `q` in
    every world the call can reach by drawing sequence numbers and sending connected requests -/
theorem call_rounds_le {σ} (hook : ObjHook σ) (NB : Lgx.Drv.Request → Nat) (reqs : List Lgx.Drv.Request) (w : World σ)
    (rs : Lgx.Drv.Results)
    (hb : ∀ w', Lgx.Drv.lcl_Reach hook w w' → ∀ q ∈ reqs, Lgx.Drv.slb_reqDraws hook w' q ≤ NB q) :
    Lgx.Drv.slb_loopDraws hook w rs reqs ≤ Lgx.Drv.slb_staticRounds NB reqs :=
  Lgx.Drv.slb_loopDraws_le hook NB reqs w rs hb

/-- the reference controller (`hookAll`) makes progress: on a healthy connection to a controller holding project `p`
    (`Lgx.Drv.slb_HealthyOn`), a Read Tag Fragmented request whose path resolves to a value of `bs.length` bytes is
    answered "more data follows" only with at least one value byte and only when more bytes remain
    (m = 1: the controller's read schedule may deliver fragments of any size ≥ 1; S = the size of the value) -/
theorem reference_controller_makes_progress (sess : Nat) (cidb : Bytes) (conn : Conn) (p : Lgx.Project)
    (req : Lgx.Drv.ReadReq) (segs : List PSeg) (loc : Lgx.Loc) (bs : Bytes)
    (hp : Lgx.E2E.Denotes req.path segs) (hr : Lgx.resolve p segs = .ok loc) (hty : Lgx.E2E.TyOk loc.ty)
    (hn : 1 ≤ req.elements ∧ req.elements ≤ loc.avail ∧ req.elements < 65536)
    (hb : Lgx.readBytes p loc req.elements = some bs) (hlen : bs.length < 2 ^ 32)
    (hroom : 4 + (Lgx.typeBytes p loc.ty).length + 1 ≤ conn.size - 2)
    (hpl : req.path.length ≤ 600) (hfit : req.path.length + 9 ≤ conn.size) :
    Lgx.Drv.slb_Progress hookAll (Lgx.Drv.slb_HealthyOn sess cidb conn p) req 1 bs.length :=
  Lgx.Drv.slb_progress_hookAll sess cidb conn p req segs loc bs hp hr hty hn hb hlen hroom hpl hfit

/-! ### the bound is needed: CE7

  `ce7_is_tight`.  A controller that does NOT make progress — it answers the first `n` Read Tag Fragmented requests
  with "more data follows" and no value bytes — keeps the driver's loop running for `n` rounds.  The call
  `read("x{2000}", "x{2000}")` of a Micro800 driver builds two fragmented read packets (8000 bytes > 4000): draws
  1, 2 (first packet: Read Tag, then the fragmented packet made from it) and 3, 4 (second packet).  The loop of the
  first packet sends count 2 and then the counts of draws 5, 6, …; its last round (draw 4 + n) is followed by the
  second packet, which carries the count of draw 4.  With n = 65535 these are the same count. -/

namespace CE7
open Lgx Lgx.Drv

/-- a controller that answers the first `n` Read Tag Fragmented requests with "more data follows" (status 6) and no
    value bytes, the following ones with status 0; state = number of such requests seen -/
def stall (n : Nat) : ObjHook Nat := fun t _ req =>
  if req.service = 0x52 then
    some ({ t with ext := t.ext + 1 }, { status := if t.ext < n then 6 else 0, data := [0xC4, 0x00] })
  else none

def symX : Symbol :=
  { inst := 9, name := Drv.nm "x", symbolType := 0x20C4, dims := [2000, 0, 0], attr3 := 0, attr5 := 0, attr6 := 2 ^ 26,
    access := 0, mem := [] }
def cfg : Cfg := { tags := (tagDbOf { templates := [], controller := [symX], programs := [] } false).getD [],
                   micro800 := true, useInstanceIds := false }
def world0 : World Nat := { drv := {}, net := { target := { base := Ex.base, ext := 0 } } }
def hist : List LCall := [.open [1, 2, 3, 4, 5, 6, 7, 8], .read cfg [Drv.nm "x{2000}", Drv.nm "x{2000}"]]

/-- the violations the target logged after the history, with a controller that stalls `n` times -/
def violations (n : Nat) : List Event :=
  (lrun (stall n) world0 hist).net.target.base.log.filter fun e => match e with | .violation _ => true | _ => false

/-- the rounds of the read call, the budget of the history -/
def rounds (n : Nat) : Nat := (hist.getD 1 .close).rounds (stall n) (lrun (stall n) world0 (hist.take 1))

-- the rounds are dictated by the controller: `n` stalls = `n` rounds counted against the budget (interpreter)
#guard rounds 0 == 0 && rounds 10 == 10 && rounds 100 == 100
#guard lbudgetF (stall 100) 0 world0 hist == 3 * 2 + 1 + 100
#guard (violations 100).isEmpty
-- 100 stalls: 102 requests reach the controller (101 of the first transfer, 1 of the second), 2 + 102 frames are sent
#guard (lrun (stall 100) world0 hist).net.target.ext == 102 && (lrun (stall 100) world0 hist).net.sent.length == 104

/-- the counter side of CE7 (`Seq.nth` counts draws from 0): the number of draw 4 — the count of the second packet —
    comes again exactly after 65535 further draws, and not before: the last round of a first transfer of
    65535 · k + 1 messages carries the count of the packet that waits behind it -/
theorem ce7_is_tight (k : Nat) :
    Seq.nth 3 = Seq.nth (3 + 65535 * k) ∧ ∀ r, 0 < r → r < 65535 → Seq.nth 3 ≠ Seq.nth (3 + 65535 * k + r) := by
  refine ⟨(Seq.nth_eq_iff 3 (3 + 65535 * k)).2 (by omega), fun r h1 h2 h => ?_⟩
  have := (Seq.nth_eq_iff 3 (3 + 65535 * k + r)).1 h
  omega

-- THE RUN (evaluation of the model, interpreter: 65537 frames, about 7 minutes each — too slow for a #guard, so
-- the commands and their output are recorded here):
--   #eval violations 65535
--     [Pycomm.Tgt.Event.violation "sequence count 4 repeated on consecutive connected messages"]
--   #eval violations 65534        -- one round fewer
--     []
--   #eval violations 65536        -- one round more
--     []
--   #eval rounds 65535
--     65535
--   #eval lbudgetF (stall 65535) 0 world0 hist     -- the hypothesis `hb` of `seq_never_repeats_logix_bounded` fails
--     65542
-- The first transfer has 65535 · 1 + 1 messages.  `hb` allows `rounds ≤ 65526` for this history (3 · 2 + 1 + rounds
-- < 65534): the bound is tight up to the slack of 9 that the accounting of `lcl_SeqB` / `lcl_Mid` costs.

/-- CE8: a controller that stalls `a` times in the first fragmented transfer it sees and `b` times in the second -/
def stall2 (a b : Nat) : ObjHook Nat := fun t _ req =>
  if req.service = 0x52 then
    some ({ t with ext := t.ext + 1 },
      { status := if t.ext < a ∨ (a < t.ext ∧ t.ext ≤ a + b) then 6 else 0, data := [0xC4, 0x00] })
  else none
/-- three fragmented reads in one call: packets with the counts of draws 2, 4, 6 -/
def hist3 : List LCall :=
  [.open [1, 2, 3, 4, 5, 6, 7, 8], .read cfg [Drv.nm "x{2000}", Drv.nm "x{2000}", Drv.nm "x{2000}"]]
def violations2 (a b : Nat) : List Event :=
  (lrun (stall2 a b) world0 hist3).net.target.base.log.filter fun e => match e with | .violation _ => true | _ => false

-- the rounds of BOTH transfers that precede the third packet are counted (interpreter)
#guard (hist3.getD 1 .close).rounds (stall2 10 5) (lrun (stall2 10 5) world0 (hist3.take 1)) == 15
#guard (lrun (stall2 10 5) world0 hist3).net.target.ext == 18 && (violations2 10 5).isEmpty

-- STATEMENT CHANGED: the proposed sufficient condition "every tag transferred in a call takes fewer than 65534 rounds
-- (is smaller than 65534 × (connection size − overhead) bytes) and the controller makes progress" bounds each transfer
-- on its own; what counts is the SUM of the rounds of all transfers that run while a packet waits (plus the draws of
-- the build, plus the unanswered calls before: `lbudgetF`).  Counterexample CE8 (model evaluated with #eval, about
-- 7 minutes per run, output recorded): two transfers of 40000 and 25535 rounds, each below 65534, before a third packet:
--   #eval violations2 40000 25535
--     [Pycomm.Tgt.Event.violation "sequence count 6 repeated on consecutive connected messages"]
--   #eval violations2 40000 25534
--     []
-- With a controller that makes progress (`slb_Progress … m S`) the sum is below Σ S / m over the transfers that have a
-- packet waiting behind them (`frag_read_rounds_lt`, `frag_write_rounds_lt`, `call_rounds_le`).

end CE7

/-! ### non-vacuity: a concrete history whose calls are NOT `LoopsLast` satisfies every hypothesis

  The world: a fresh driver in front of a fresh reference controller that refuses the Large Forward Open (the
  connection size falls back to 500) and holds the tags `abc : DINT` and `big : DINT[130]` (520 bytes: a read or write
  of `big{130}` is fragmented on a 500-byte connection).  The driver is configured like a Micro800 (one packet per
  request, in the order of the requests): `read("big{130}", "abc")` builds [fragmented read of big, read of abc] — the
  fragment loop is NOT the last packet. -/

namespace SLBEx
open Lgx Lgx.Drv

/-- `big : DINT[130]` = [1, 2, …, 130] -/
def bigMem : Bytes := ((List.range 130).map fun i => le 4 (i + 1)).flatten
def symBig : Symbol :=
  { inst := 20, name := Drv.nm "big", symbolType := 0x20C4, dims := [130, 0, 0], attr3 := 0, attr5 := 0, attr6 := 2 ^ 26,
    access := 0, mem := bigMem }
def proj : Project := { templates := [], controller := [Ex.sym, symBig], programs := [] }
def world0 : World Ext :=
  { drv := {},
    net := { target := { base := { Ex.base with policy := { largeFoOk := false } }, ext := { logix := some { proj := proj } } } } }
def cfg : Cfg := { tags := (tagDbOf proj false).getD [], micro800 := true, useInstanceIds := false }
def bigVal : PyVal := .list ((List.range 130).map fun i => .int ((1000 + i : Nat) : Int))

def hist : List LCall :=
  [.open [1, 2, 3, 4, 5, 6, 7, 8],
   .read cfg [Drv.nm "big{130}", Drv.nm "abc"],                                  -- [readFrag big, read abc]
   .generic { service := 0x01, cls := .bytes [0x01], inst := .bytes [0x01] },
   .write cfg [(Drv.nm "big{130}", bigVal), (Drv.nm "abc.3", .bool true)],       -- [writeFrag big, rmw abc]
   .read cfg [Drv.nm "nosuch", Drv.nm "big{130}", Drv.nm "big[5]"],              -- [readFrag big, read big[5]]
   .close,
   .open [8, 7, 6, 5, 4, 3, 2, 1],
   .read cfg [Drv.nm "big{130}", Drv.nm "big{130}", Drv.nm "abc"]]               -- [readFrag big, readFrag big, read abc]

private theorem fresh0 : Fresh world0 :=
  ⟨rfl, rfl, rfl, rfl, rfl, rfl, rfl, rfl, rfl, rfl, rfl, rfl, rfl, rfl, rfl, rfl, rfl, rfl, rfl, rfl,
   by decide, by decide, by decide⟩

/-- the first read of the history violates `LoopsLast`: on the 500-byte connection its first packet is a fragment loop -/
example : ¬ (LCall.read cfg [Drv.nm "big{130}", Drv.nm "abc"]).LoopsLast := by
  intro h
  have hk : (match (readBuildRequests cfg { connectionSize := 500 }
      (parseRequestedTags cfg.tags false [Drv.nm "big{130}", Drv.nm "abc"])).2 with
    | .ok rs => lcl_loopLast rs | .error _ => true) = false := by decide +kernel
  have h1 := h { connectionSize := 500 } (.inr rfl) (readBuildRequests cfg { connectionSize := 500 }
      (parseRequestedTags cfg.tags false [Drv.nm "big{130}", Drv.nm "abc"])).1
  generalize readBuildRequests cfg { connectionSize := 500 }
      (parseRequestedTags cfg.tags false [Drv.nm "big{130}", Drv.nm "abc"]) = res at hk h1
  obtain ⟨d1, reqs⟩ := res
  cases reqs with
  | error e => cases hk
  | ok rs =>
    have := h1 rs rfl
    dsimp only at hk
    rw [this] at hk
    cases hk

-- the run (evaluation of the model, interpreter): every call returns; the rounds that run while a packet is waiting;
-- which reads / writes are answered; the two budgets; no violation of any kind
#guard ((List.range 8).map fun i =>
    match (lcallStep hookAll (lrun hookAll world0 (hist.take i)) (hist.getD i .close)).2 with
    | .ok => true | _ => false) == [true, true, true, true, true, true, true, true]
#guard ((List.range 8).map fun i => (hist.getD i .close).rounds hookAll (lrun hookAll world0 (hist.take i))) ==
  [0, 1, 0, 2, 1, 0, 0, 2]
#guard ((List.range 8).map fun i => lgood hookAll (lrun hookAll world0 (hist.take i)) (hist.getD i .close)) ==
  [false, true, false, true, true, false, false, true]
#guard lbudgetF hookAll 0 world0 hist == 20 && lbudgetR hookAll 0 world0 hist == 17
#guard (lrun hookAll world0 (hist.take 2)).drv.connectionSize == 500 && (lrun hookAll world0 hist).net.sent.length == 22
#guard ((lrun hookAll world0 hist).net.target.base.log.filter fun e => match e with | .violation _ => true | _ => false).isEmpty
-- the fragmented write arrived: the last read returns the values written
#guard (match (Lgx.Drv.read hookAll cfg (lrun hookAll world0 (hist.take 4)) [Drv.nm "big{130}"]).2 with
        | .ok [t] => t.error.isNone && (match t.value with | .list (.int 1000 :: _) => true | _ => false)
        | _ => false)

/-- `seq_never_repeats_logix_bounded`: every hypothesis is checked on the history (`hb` by running the model in the
    kernel) -/
example : NoSeqRepeat (lrun hookAll world0 hist).net.target.base.log :=
  seq_never_repeats_logix_bounded hookAll hookAll_ok hookAll_quietSeq world0 fresh0 hist
    (lhistAvoidsCM_spec hist (by decide)) (lhistSizeOk_spec hist (by decide)) (by decide +kernel)

/-- a bound on the rounds of every call of the history: a read at most 2, a write at most 2 -/
def R : LCall → Nat
  | .read _ _ => 2
  | .write _ _ => 2
  | _ => 0

example : lbudgetS R 0 hist = 30 := by decide

/-- `seq_never_repeats_logix_bounded_static`: the rounds along the run are within `R` (kernel), the budget is
    computed from the history alone -/
example : NoSeqRepeat (lrun hookAll world0 hist).net.target.base.log :=
  seq_never_repeats_logix_bounded_static hookAll hookAll_ok hookAll_quietSeq world0 fresh0 hist R
    (lhistAvoidsCM_spec hist (by decide)) (lhistSizeOk_spec hist (by decide))
    ⟨by decide +kernel, by decide +kernel, by decide +kernel, by decide +kernel, by decide +kernel, by decide +kernel,
     by decide +kernel, by decide +kernel, trivial⟩
    (by decide)

/-- `seq_never_repeats_logix_of_loopsLast` on the history `LEx.hist1` of LifecycleLogix.lean -/
example : NoSeqRepeat (lrun hookAll Ex.world0 LEx.hist1).net.target.base.log :=
  seq_never_repeats_logix_of_loopsLast hookAll hookAll_ok hookAll_quietSeq Ex.world0 LEx.fresh0 LEx.hist1
    (lhistAvoidsCM_spec LEx.hist1 (by decide)) (lhistSizeOk_spec LEx.hist1 (by decide))
    (lhistSingle_spec LEx.hist1 (by decide))
    (by have := lbudgetR_le hookAll LEx.hist1 0 Ex.world0
        have h12 : lbudget 0 LEx.hist1 = 12 := by decide
        have hf : Ex.world0.net.faults.length = 0 := rfl
        omega)

/-! the lemmas on bounded rounds, on the connected world of the history -/

/-- the world after `open()` and the Forward Opens of `with_forward_open`: the model is run -/
def worldC : World Ext := (ensureForwardOpen hookAll FUEL (openDrv hookAll world0 [1, 2, 3, 4, 5, 6, 7, 8]).1).1
def conn : Tgt.Conn :=
  { cid := 12648430, toId := 67305985, session := 4097, size := 500, large := false, serial := 1063, vendor := 4105,
    origSerial := 134678021, lastSeq := none, route := [32, 2, 36, 1] }
#guard worldC.net.target.base.conns == [conn] && worldC.drv.connectionSize == 500

private theorem healthyC : ldr_Healthy worldC 4097 [238, 255, 192, 0] conn :=
  ⟨by decide +kernel, by decide +kernel, by decide +kernel, by decide +kernel, by decide +kernel, by decide,
   by decide +kernel, by decide +kernel, by decide, by decide +kernel, by decide +kernel, by decide +kernel⟩

def infoBig : TagInfo :=
  .mk { tagType := .atomic, dataTypeName := Drv.nm "DINT", ty := .arr (.fixed 130) (.int .dint), dim := 1,
        dimensions := [130, 0, 0], instanceId := some 20 } .nil
/-- the fragmented read packet of `big{130}` (symbolic request path `big`) -/
def reqBig (seq : Nat) : ReadReq :=
  { seq := seq, tag := Drv.nm "big", elements := 130, info := infoBig, rid := 0, path := [3, 145, 3, 98, 105, 103, 0] }
def locBig : Loc := { symInst := 20, scope := none, offset := 0, ty := .atomic 0xC4, avail := 130 }

/-- the state of the controller in the connected world -/
def stC : LState := worldC.net.target.ext.logix.getD { proj := proj }
private theorem logixC : worldC.net.target.ext.logix = some stC := by
  have h : worldC.net.target.ext.logix.isSome = true := by decide +kernel
  unfold stC
  generalize worldC.net.target.ext.logix = o at h ⊢
  cases o with
  | none => cases h
  | some st => rfl
#guard stC.proj.controller.length == 2

private theorem denotesBig : E2E.Denotes [3, 145, 3, 98, 105, 103, 0] [.symbol [98, 105, 103]] := by
  unfold E2E.Denotes; decide +kernel
private theorem resolveBig : resolve stC.proj [.symbol [98, 105, 103]] = .ok locBig := by
  have h : (match resolve stC.proj [.symbol [98, 105, 103]] with | .ok l => decide (l = locBig) | .error _ => false) = true := by
    decide +kernel
  generalize resolve stC.proj [.symbol [98, 105, 103]] = r at h ⊢
  cases r with
  | error e => cases h
  | ok l => rw [show l = locBig by simpa using h]
private theorem bytesBig : readBytes stC.proj locBig 130 = some bigMem := by decide +kernel
private theorem roomBig : 4 + (typeBytes stC.proj locBig.ty).length + 1 ≤ conn.size - 2 := by decide +kernel
private theorem lenBig : bigMem.length = 520 := by decide +kernel

/-- `reference_controller_makes_progress` for the packet of `big{130}` on the 500-byte connection … -/
private theorem progressBig (seq : Nat) :
    slb_Progress hookAll (slb_HealthyOn 4097 [238, 255, 192, 0] conn stC.proj) (reqBig seq) 1 520 := by
  have h := reference_controller_makes_progress 4097 [238, 255, 192, 0] conn stC.proj (reqBig seq) [.symbol [98, 105, 103]]
    locBig bigMem denotesBig resolveBig (fun c h => by cases h; decide)
    (show 1 ≤ 130 ∧ 130 ≤ locBig.avail ∧ 130 < 65536 from ⟨by decide, by decide, by decide⟩)
    bytesBig (by rw [lenBig]; decide) roomBig
    (show [3, 145, 3, 98, 105, 103, 0].length ≤ 600 from by decide)
    (show [3, 145, 3, 98, 105, 103, 0].length + 9 ≤ conn.size from by decide)
  rw [lenBig] at h
  exact h

/-- … hence `frag_read_rounds_lt`: fewer than 520 rounds, whatever the controller's read schedule (here: 1 round, the
    schedule fills the connection) -/
example : slb_reqDraws hookAll worldC (.readFrag (reqBig 7)) * 1 < 520 :=
  frag_read_rounds_lt hookAll _ (reqBig 7) 1 520 (progressBig 7) worldC ⟨none, stC, healthyC, logixC, rfl⟩
    (by decide) (by decide)
#guard slb_reqDraws hookAll worldC (.readFrag (reqBig 7)) == 1

/-- `frag_write_rounds_lt` for a fragmented write of 520 bytes to `big`: segments of 482 bytes, 2 rounds -/
def wreqBig : WriteReq :=
  { seq := 7, tag := Drv.nm "big", elements := 130, info := infoBig, rid := 0, path := [3, 145, 3, 98, 105, 103, 0],
    typeBytes := [0xC4, 0x00], value := bigMem }
example : slb_reqDraws hookAll worldC (.writeFrag wreqBig) *
      Lgx.Cl.writeSegSize worldC.drv.connectionSize wreqBig.path wreqBig.typeBytes <
    wreqBig.value.length + Lgx.Cl.writeSegSize worldC.drv.connectionSize wreqBig.path wreqBig.typeBytes :=
  frag_write_rounds_lt hookAll worldC wreqBig (by decide +kernel)
#guard slb_reqDraws hookAll worldC (.writeFrag wreqBig) == 2 &&
  Lgx.Cl.writeSegSize worldC.drv.connectionSize wreqBig.path wreqBig.typeBytes == 482

/-- `call_rounds_le` with the bounds 519 (fragmented read of big) / 2 (fragmented write of big) for the packets
    [readFrag big, read abc]-like lists: only the loop with a packet behind it counts -/
example : slb_staticRounds (fun q => match q with | .readFrag _ => 519 | .writeFrag _ => 2 | _ => 0)
    [.readFrag (reqBig 2), .readFrag (reqBig 4)] = 519 := by decide

end SLBEx


end Pycomm.Cli
