/-
  C16 end to end, part 3: the callers on top of the exchanges — `get_module_info` (mirrored here as
  `ide_getModuleInfo`), `Opn.getPlcInfo` with the keyswitch text, the dotted-quad form of the IP address, and the
  world in which the device behind the socket has been replaced.
-/
import PycommProofs.IdE2E2
import PycommModel.OpsClient
namespace Pycomm.Cli
open Pycomm.Tgt Pycomm.Encap Pycomm.Path Pycomm.Reply Pycomm.EN Pycomm.EP Pycomm.Ident

/-! ### the IP address as a dotted quad -/

/-- `a.b.c.d` of a 32-bit address (most significant octet first), as character codes -/
def ide_dotted (ip : Nat) : Name :=
  natToDec (ip / 16777216 % 256) ++ [46] ++ natToDec (ip / 65536 % 256) ++ [46] ++ natToDec (ip / 256 % 256) ++ [46] ++
  natToDec (ip % 256)

theorem ide_renderIPv4 (ip : Nat) : renderIPv4 ((leBytes 4 ip).reverse) = ide_dotted ip := by
  have e1 : ip / 256 / 256 / 256 % 256 = ip / 16777216 % 256 := by omega
  have e2 : ip / 256 / 256 % 256 = ip / 65536 % 256 := by omega
  simp only [renderIPv4, leBytes, List.reverse_cons, List.reverse_nil, List.nil_append, List.cons_append, List.map_cons,
    List.map_nil, List.foldl_cons, List.foldl_nil, EP.toNat_ofNat, Nat.mod_mod, e1, e2, ide_dotted]

/-- the ListIdentity dictionary, key by key -/
theorem ide_presentList_eq (id : Identity) :
    ide_presentList id =
      [(Ident.s "encap_protocol_version", .int 1),
       (Ident.s "ip_address", .str (ide_dotted id.ip)),
       (Ident.s "vendor", .str (lookupId id.vendor Gen.vendors)),
       (Ident.s "product_type", .str (lookupId id.productType Gen.productTypes)),
       (Ident.s "product_code", .int id.productCode),
       (Ident.s "revision", .dict [(Ident.s "major", .int id.major), (Ident.s "minor", .int id.minor)]),
       (Ident.s "status", .bytes [UInt8.ofNat (id.status % 256), UInt8.ofNat (id.status / 256 % 256)]),
       (Ident.s "serial", .str (hex8 id.serial)),
       (Ident.s "product_name", .str (id.name.map (·.toNat))),
       (Ident.s "state", .int id.state)] := by
  rw [ide_presentList, ide_renderIPv4]
  rfl

theorem ide_presentModule_eq (id : Identity) :
    presentModule id =
      [(Ident.s "vendor", .str (lookupId id.vendor Gen.vendors)),
       (Ident.s "product_type", .str (lookupId id.productType Gen.productTypes)),
       (Ident.s "product_code", .int id.productCode),
       (Ident.s "revision", .dict [(Ident.s "major", .int id.major), (Ident.s "minor", .int id.minor)]),
       (Ident.s "status", .bytes [UInt8.ofNat (id.status % 256), UInt8.ofNat (id.status / 256 % 256)]),
       (Ident.s "serial", .str (hex8 id.serial)),
       (Ident.s "product_name", .str (id.name.map (·.toNat)))] := rfl

/-- an id that is not in the table is presented as "UNKNOWN" -/
theorem ide_lookup_unknown (k : Nat) (tbl : List (Nat × Name)) (h : ∀ e ∈ tbl, e.1 ≠ k) : lookupId k tbl = unknown := by
  rcases lookupId_spec k tbl with ⟨h1, _⟩ | ⟨e, he, hk, _⟩
  · exact h1
  · exact absurd hk (h e he)

/-- … and one that is in the table by the name of its first entry -/
theorem ide_lookup_known (k : Nat) (tbl : List (Nat × Name)) (h : ∃ e ∈ tbl, e.1 = k) : ∃ e ∈ tbl, e.1 = k ∧ lookupId k tbl = e.2 := by
  rcases lookupId_spec k tbl with ⟨_, h2⟩ | h1
  · obtain ⟨e, he, hk⟩ := h
    exact absurd hk (h2 e he)
  · exact h1

/-! ### get_module_info -/

/-- the tail of `get_module_info`: `if response: return ModuleIdentityObject.decode(response.value)`, everything else
    (an exception of `generic_message`, a falsy Tag, a value that does not decode) is ResponseError -/
def ide_identityOfReply {σ} (x : World σ × Except Exn Tag) : World σ × Except Exn (List (Name × PyVal)) :=
  match x with
  | (w1, .error _) => (w1, .error .response)
  | (w1, .ok tag) =>
      if tag.truthy then
        match tag.value with
        | .bytes b =>
            match Ident.decodeModuleIdentity b with
            | .ok (.dict kvs, _) => (w1, .ok kvs)
            | _ => (w1, .error .response)
        | _ => (w1, .error .response)
      else (w1, .error .response)

/-- cip_driver.py:267 `get_module_info(slot)`: Get_Attributes_All on the Identity object in an Unconnected Send over
    `cip_path[:-1] + (PortSegment("bp", slot),)`; a falsy Tag, a reply that does not decode and every exception become
    ResponseError (mirrors the harness glue `modInfoOp`; `ide_modInfoTail` relates the tails, the `#guard`s of
    IdentityE2E compare whole runs) -/
def ide_getModuleInfo {σ} (hook : ObjHook σ) (w : World σ) (slot : Nat) : World σ × Except Exn (List (Name × PyVal)) :=
  match encEpath true (w.drv.cipPath.take (w.drv.cipPath.length - 1) ++ [Seg.port (.name (nm "bp")) (.int slot)]) true true with
  | .error _ => (w, .error .response)
  | .ok route =>
    ide_identityOfReply (genericMessage hook FUEL w
      { service := 0x01, cls := .bytes [0x01], inst := .bytes [0x01], connected := false, unconnectedSend := true,
        route := .bytes route, name := nm "get_module_info" })

/-- the identity decoder only ever returns dictionaries -/
theorem ide_decode_dict (b : Bytes) (v : PyVal) (rest : Bytes) (h : decodeModuleIdentity b = .ok (v, rest)) :
    ∃ kvs, v = .dict kvs := by
  unfold decodeModuleIdentity at h
  split at h
  · split at h
    · cases h; exact ⟨_, rfl⟩
    · cases h
  · cases h
  · cases h

theorem ide_identityOfReply_ok {σ} (w1 : World σ) (nme : Name) (id : Identity) (hid : IdOk id) :
    ide_identityOfReply (w1, .ok { name := nme, value := .bytes (encIdentity id), error := none }) =
      (w1, .ok (presentModule id)) := by
  have hdec := module_identity_decode_spec id hid []
  rw [List.append_nil] at hdec
  unfold ide_identityOfReply
  simp only [Tag.truthy, Option.isNone_none, Bool.and_self, if_true, hdec]

/-- `get_module_info` once the generic message has returned the identity's wire form -/
theorem ide_getModuleInfo_of_gm {σ} (hook : ObjHook σ) (w w1 : World σ) (slot : Nat) (route : Bytes) (id : Identity)
    (hid : IdOk id)
    (hroute : encEpath true (w.drv.cipPath.take (w.drv.cipPath.length - 1) ++ [Seg.port (.name (nm "bp")) (.int slot)])
      true true = .ok route)
    (hgm : genericMessage hook FUEL w
      { service := 0x01, cls := .bytes [0x01], inst := .bytes [0x01], connected := false, unconnectedSend := true,
        route := .bytes route, name := nm "get_module_info" } =
      (w1, .ok { name := nm "get_module_info", value := .bytes (encIdentity id), error := none })) :
    ide_getModuleInfo hook w slot = (w1, .ok (presentModule id)) := by
  unfold ide_getModuleInfo
  rw [hroute]
  show ide_identityOfReply (genericMessage hook FUEL w _) = _
  rw [hgm, ide_identityOfReply_ok w1 _ id hid]

/-- how the harness prints the result -/
def ide_renderInfo (x : W × Except Exn (List (Name × PyVal))) : W × String :=
  match x with
  | (w1, .ok kvs) => (w1, "(identity " ++ (PyVal.dict kvs).toSexp.render ++ ")")
  | (w1, .error _) => (w1, renderExn .response)

theorem ide_modInfoTail (g : W × Except Exn Tag) :
    (match g with
     | (w1, r) =>
       match r with
       | .error _ => (w1, renderExn .response)
       | .ok tag =>
           if tag.truthy then
             match tag.value with
             | .bytes b =>
                 match Ident.decodeModuleIdentity b with
                 | .ok (v, _) => (w1, "(identity " ++ v.toSexp.render ++ ")")
                 | .error _ => (w1, renderExn .response)
             | _ => (w1, renderExn .response)
           else (w1, renderExn .response)) = ide_renderInfo (ide_identityOfReply g) := by
  obtain ⟨w1, r⟩ := g
  cases r with
  | error e => rfl
  | ok tag =>
    unfold ide_identityOfReply
    dsimp only
    split
    · split
      · next b _ =>
        cases hd : decodeModuleIdentity b with
        | error e => rfl
        | ok vr =>
          obtain ⟨v, rest⟩ := vr
          obtain ⟨kvs, rfl⟩ := ide_decode_dict b v rest hd
          rfl
      · rfl
    · rfl

end Pycomm.Cli

namespace Pycomm.Lgx.Opn
open Pycomm.Tgt Pycomm.Encap Pycomm.Cli Pycomm.Ident

/-- what `get_plc_info` returns for an identity: the module identity plus the keyswitch text of the two status bytes -/
def ide_presentInfo (id : Identity) : List (Name × PyVal) :=
  presentModule id ++ [(Ident.s "keyswitch", .str (keyswitchText (id.status % 256) (id.status / 256 % 256)))]

/-- `get_plc_info` once the generic message has returned the identity's wire form -/
theorem ide_getPlcInfo_of_gm {σ} (hook : ObjHook σ) (w w1 : World σ) (micro800 : Bool) (id : Identity) (hid : IdOk id)
    (hgm : Cli.genericMessage hook Cli.FUEL w
      { service := 0x01, cls := .bytes [0x01], inst := .bytes [0x01], connected := false, unconnectedSend := !micro800,
        name := nm "get_plc_info" } =
      (w1, .ok { name := nm "get_plc_info", value := .bytes (encIdentity id), error := none })) :
    getPlcInfo hook w micro800 = (w1, .ok (ide_presentInfo id)) := by
  have hdec := module_identity_decode_spec id hid []
  rw [List.append_nil] at hdec
  have hst : dictGet (presentModule id) (nm "status") =
      some (.bytes [UInt8.ofNat (id.status % 256), UInt8.ofNat (id.status / 256 % 256)]) := rfl
  have hset : ∀ v, dictSet (presentModule id) (nm "keyswitch") v = presentModule id ++ [(Ident.s "keyswitch", v)] :=
    fun _ => rfl
  unfold getPlcInfo
  rw [hgm]
  simp only [Tag.truthy, Option.isNone_none, Bool.and_self, Bool.not_true, Bool.false_eq_true, if_false, hdec, hst, hset,
    EP.toNat_ofNat, Nat.mod_mod, ide_presentInfo]

/-- the Micro800 test of `_initialize_driver` on a ListIdentity result: does the product name start with "2080"? -/
theorem ide_isMicro800 (id : Identity) :
    isMicro800 (ide_presentList id) = PyStr.startsWith Gen.MICRO800_PREFIX (id.name.map (·.toNat)) := rfl

end Pycomm.Lgx.Opn

namespace Pycomm.Cli
open Pycomm.Tgt Pycomm.Ident

/-! ### another device behind the same socket -/

/-- the same world, the device's identity replaced (module swapped, firmware flashed, another device at the address) -/
def ide_setIdentity {σ} (w : World σ) (id : Identity) : World σ :=
  { w with net := { w.net with target := { w.net.target with base := { w.net.target.base with identity := id } } } }

theorem ide_Sock_setIdentity {σ} {w : World σ} {s : Nat} (h : ide_Sock w s) (id : Identity) : ide_Sock (ide_setIdentity w id) s :=
  { sock := h.sock, ctx8 := h.ctx8, opt0 := h.opt0, session := h.session, session32 := h.session32,
    pend := h.pend, faults := h.faults }

theorem ide_Session_setIdentity {σ} {w : World σ} {s : Nat} (h : gme_Session w s) (id : Identity) :
    gme_Session (ide_setIdentity w id) s :=
  { sock := h.sock, ctx8 := h.ctx8, opt0 := h.opt0, session := h.session, session32 := h.session32,
    sessionReg := h.sessionReg, pend := h.pend, faults := h.faults }

end Pycomm.Cli
