/-
  C19 (status part): every tabulated (general status, extended status) pair is reported with its text by
  `get_extended_status`, whether the extended status arrives as one or as two 16-bit words (or, for
  extended status 0, as no word at all), at the offsets the reply classes use.
  The table is regenerated from the live `EXTEND_CODES` on every run (PycommModel/Generated/Tables.lean).
-/
import PycommModel.Reply
namespace Pycomm.Reply
open Pycomm.Status

/-- a reply fragment: `start` bytes of anything (zeros), general status, size in words, the extended status -/
def extMsg (start st words ext : Nat) : Bytes :=
  List.replicate start 0 ++ [UInt8.ofNat st, UInt8.ofNat words] ++ leBytes (2 * words) ext

/-- the lookup answers with a text that begins with the table's text -/
def extOk (start st words ext : Nat) (text : Name) : Bool :=
  match extendedStatus (extMsg start st words ext) start with
  | .ok (some t) => text.isPrefixOf t
  | _ => false

def pairOk (st ext : Nat) (text : Name) : Bool :=
  [0, 42, 48].all fun start =>
    (ext ≥ 65536 || extOk start st 1 ext text) && extOk start st 2 ext text && (ext != 0 || extOk start st 0 ext text)

-- PROPERTY THEOREMS

/-- every (status, extended status) pair present in the regenerated EXTEND_CODES table resolves to its text,
    in every wire form -/
theorem ext_status_total :
    Gen.extendCodes.all (fun row => row.2.all fun e => pairOk row.1 e.1 e.2) = true := by
  decide +kernel

/-- `extendedStatus … = .ok none` as a Bool -/
def extNone (start st words ext : Nat) : Bool :=
  match extendedStatus (extMsg start st words ext) start with
  | .ok none => true
  | _ => false

/-- a pair that is not tabulated gives no extended text (None), not an exception -/
theorem ext_status_unknown_is_none :
    extNone 48 0x08 1 0x1234 = true ∧ extNone 42 0xFF 1 0x0001 = true := by
  decide +kernel

example : pairOk 4 0 ("Extended status out of memory".toList.map Char.toNat) = true := by decide +kernel

end Pycomm.Reply
