/-
  Helper lemmas for the multi-service packing proofs: shape of `packMulti` (count, offset table, messages).
-/
import PycommProofs.LBBasic
namespace Pycomm.LB
open Pycomm Pycomm.Lgx Pycomm.Lgx.K

/-- in a concatenation of chunks of one width k, chunk i sits at offset k*i -/
theorem flatten_chunk {α} (k : Nat) (L : List (List α)) (hL : ∀ x ∈ L, x.length = k) (i : Nat) (h : i < L.length) :
    (L.flatten.drop (k * i)).take k = L[i] := by
  induction L generalizing i with
  | nil => simp at h
  | cons x L ih =>
    have hx : x.length = k := hL x (by simp)
    cases i with
    | zero => simp [hx]
    | succ i =>
      have : k * (i + 1) = x.length + k * i := by rw [hx, Nat.mul_succ]; omega
      rw [List.flatten_cons, this, List.drop_length_add_append]
      simp only [List.getElem_cons_succ]
      exact ih (fun y hy => hL y (by simp [hy])) i (by simpa using h)

theorem flatten_chunks_length {α} (k : Nat) (L : List (List α)) (hL : ∀ x ∈ L, x.length = k) :
    L.flatten.length = k * L.length := by
  induction L with
  | nil => simp
  | cons x L ih =>
    rw [List.flatten_cons, List.length_append, hL x (by simp), ih (fun y hy => hL y (by simp [hy])), List.length_cons,
      Nat.mul_succ]
    omega

theorem drop_add_append {α} (a b : List α) (k j : Nat) (h : a.length = k) : (a ++ b).drop (k + j) = b.drop j := by
  subst h; exact List.drop_length_add_append j

/-- length of the first i messages -/
def psum (msgs : List Bytes) (i : Nat) : Nat := ((msgs.take i).map (·.length)).sum

theorem psum_zero (msgs : List Bytes) : psum msgs 0 = 0 := by simp [psum]

theorem psum_succ (msgs : List Bytes) (i : Nat) (h : i < msgs.length) :
    psum msgs (i + 1) = psum msgs i + msgs[i].length := by
  unfold psum
  rw [List.take_succ_eq_append_getElem h, List.map_append, List.sum_append]
  simp

theorem psum_cons (m : Bytes) (msgs : List Bytes) (i : Nat) : psum (m :: msgs) (i + 1) = m.length + psum msgs i := by
  simp [psum]

theorem psum_all (msgs : List Bytes) : psum msgs msgs.length = msgs.flatten.length := by
  simp [psum, List.length_flatten]

theorem flatten_drop_psum (msgs : List Bytes) (i : Nat) : msgs.flatten.drop (psum msgs i) = (msgs.drop i).flatten := by
  induction msgs generalizing i with
  | nil => simp [psum]
  | cons m msgs ih =>
    cases i with
    | zero => simp [psum]
    | succ i => rw [psum_cons, List.flatten_cons, List.drop_length_add_append]; simpa using ih i

theorem psum_le (msgs : List Bytes) (i : Nat) : psum msgs i ≤ msgs.flatten.length := by
  induction msgs generalizing i with
  | nil => simp [psum]
  | cons m msgs ih =>
    cases i with
    | zero => simp [psum]
    | succ i => rw [psum_cons]; have := ih i; simp only [List.flatten_cons, List.length_append]; omega

/-- offset of message i in the packed form -/
def offOf (msgs : List Bytes) (i : Nat) : Nat := 2 + 2 * msgs.length + psum msgs i

theorem packMulti_eq (msgs : List Bytes) :
    packMulti msgs = leBytes 2 msgs.length ++ ((List.range msgs.length).map fun i => leBytes 2 (offOf msgs i)).flatten
      ++ msgs.flatten := by
  simp only [packMulti, ← List.sum_eq_foldl, List.map_map]
  rfl


theorem offOf_le (msgs : List Bytes) (i : Nat) : offOf msgs i ≤ offOf msgs msgs.length := by
  have := psum_le msgs i
  have := psum_all msgs
  unfold offOf; omega

theorem offOf_succ (msgs : List Bytes) (i : Nat) (h : i < msgs.length) :
    offOf msgs (i + 1) = offOf msgs i + msgs[i].length := by
  unfold offOf; rw [psum_succ msgs i h]; omega

/-- header of the packed form: count and offset table -/
def hdr (msgs : List Bytes) : Bytes :=
  leBytes 2 msgs.length ++ ((List.range msgs.length).map fun i => leBytes 2 (offOf msgs i)).flatten

theorem table_length (msgs : List Bytes) :
    ((List.range msgs.length).map fun i => leBytes 2 (offOf msgs i)).flatten.length = 2 * msgs.length := by
  rw [flatten_chunks_length 2 _ (by simp [EN.leBytes_length])]
  simp

theorem hdr_length (msgs : List Bytes) : (hdr msgs).length = 2 + 2 * msgs.length := by
  rw [hdr, List.length_append, table_length, EN.leBytes_length]

theorem packMulti_hdr (msgs : List Bytes) : packMulti msgs = hdr msgs ++ msgs.flatten := packMulti_eq msgs

theorem packMulti_length (msgs : List Bytes) : (packMulti msgs).length = offOf msgs msgs.length := by
  rw [packMulti_hdr, List.length_append, hdr_length, offOf, psum_all]

theorem packMulti_count (msgs : List Bytes) (h : msgs.length < 65536) :
    leVal ((packMulti msgs).take 2) = msgs.length := by
  rw [packMulti_eq, List.append_assoc,
    List.take_append_of_le_length (by simp [EN.leBytes_length]),
    List.take_of_length_le (by simp [EN.leBytes_length]), EN.leVal_leBytes _ _ (by simpa using h)]

theorem packMulti_off (msgs : List Bytes) (i : Nat) (hi : i < msgs.length) (h : offOf msgs msgs.length < 65536) :
    leVal (((packMulti msgs).drop (2 + 2 * i)).take 2) = offOf msgs i := by
  have hlen : (leBytes 2 msgs.length).length = 2 := EN.leBytes_length _ _
  rw [packMulti_eq, List.append_assoc, drop_add_append _ _ 2 _ hlen, List.drop_append_of_le_length (by rw [table_length]; omega),
    List.take_append_of_le_length (by rw [List.length_drop, table_length]; omega),
    flatten_chunk 2 _ (by simp [EN.leBytes_length]) i (by simpa using hi)]
  simp only [List.getElem_map, List.getElem_range]
  exact EN.leVal_leBytes _ _ (by have := offOf_le msgs i; simp; omega)

theorem packMulti_drop (msgs : List Bytes) (i : Nat) :
    (packMulti msgs).drop (offOf msgs i) = (msgs.drop i).flatten := by
  rw [packMulti_hdr, offOf, ← hdr_length, List.drop_length_add_append, flatten_drop_psum]

/-- message i occupies [offOf i, offOf (i+1)) -/
theorem packMulti_seg (msgs : List Bytes) (i : Nat) (hi : i < msgs.length) :
    ((packMulti msgs).drop (offOf msgs i)).take (msgs[i].length) = msgs[i] := by
  rw [packMulti_drop, List.drop_eq_getElem_cons hi, List.flatten_cons, List.take_left]

theorem packMulti_last (msgs : List Bytes) (i : Nat) (hi : i + 1 = msgs.length) :
    (packMulti msgs).drop (offOf msgs i) = msgs[i] := by
  rw [packMulti_drop, List.drop_eq_getElem_cons (by omega), List.flatten_cons,
    List.drop_of_length_le (by omega)]
  simp

theorem offOf_total (msgs : List Bytes) :
    2 + 2 * msgs.length + (msgs.map (·.length)).foldl (· + ·) 0 = offOf msgs msgs.length := by
  simp [offOf, psum, List.sum_eq_foldl]

/-- the offset table read back from the packed form -/
theorem packMulti_offs (msgs : List Bytes) (h : offOf msgs msgs.length < 65536) :
    ((List.range msgs.length).map fun i => leVal (((packMulti msgs).drop (2 + 2 * i)).take 2)) =
      (List.range msgs.length).map (offOf msgs) := by
  apply List.map_congr_left
  intro i hi
  exact packMulti_off msgs i (by simpa using hi) h

/-- the end offsets: the table shifted by one, closed by the total length -/
theorem ends_eq (f : Nat → Nat) (n : Nat) (hn : 0 < n) :
    ((List.range n).map f).drop 1 ++ [f n] = (List.range n).map (fun i => f (i + 1)) := by
  rw [← List.drop_append_of_le_length (by simp; omega)]
  have : (List.range n).map f ++ [f n] = (List.range (n + 1)).map f := by simp [List.range_succ]
  rw [this, List.range_succ_eq_map]
  simp [Function.comp_def]

end Pycomm.LB
