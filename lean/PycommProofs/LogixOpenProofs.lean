/-
  C05 at the driver level: the upload composition of `LogixDriver.open()` / `get_tag_list()` through the whole stack
  of the model — request building, `CIPDriver.send`, encapsulation, the reference controller's symbol-list and
  template services with ANY page / fragment schedule, reply framing, the response classes, the upload parsers.

  Layers (lemmas usable on their own):
    LOpenTarget   `lo_takePage`, `lo_from_next`, `lo_symbolList`          (the controller's page)
    LOpenReply    `lo_parseCip_reply`, `lo_page_reply`, `lo_symbolListPath`, `lo_parseMR_symbolList`
    LOpenSymbols  `lo_step` (one round of the page loop), `lo_upload_from` (induction over the pages)
    LOpenProgram  `lo_stepS`, `lo_upload_fromS` (any scope), `lo_scopePath_program`
    LOpenTags     `lo_createTag_atomic`, `lo_isolate_atomic`               (`_create_tag`, `_isolate_user_tags`)
    LOpenTemplate `lo_templateRead`, `lo_rawTemplateRead`, `lo_readTemplate_step`, `lo_readTemplate_from` (`_read_template`)
    LOpenDataType `lo_resolve_atomic`, `lo_parseTemplateData_flat`, `lo_getDataType_flat`   (`_get_data_type`, flat templates)
    LOpenFlat     `lo_Good` (cache invariant), `lo_createTag_struct`, `lo_isolate_flat`
    LOpenMakeup   `lo_decode_makeup`, `lo_genericMessage_connected`, `lo_getStructureMakeup` (`_get_structure_makeup`)
-/
import PycommProofs.LOpenSymbols
import PycommProofs.LOpenTags
import PycommProofs.LOpenMakeup
import PycommProofs.LOpenProgram
import PycommProofs.LOpenFlat
import PycommProofs.LogixDriverRead
namespace Pycomm.Lgx.Opn
open Pycomm Pycomm.Tgt Pycomm.Path Pycomm.Reply Pycomm.Encap Pycomm.Lgx Pycomm.Lgx.E2E Pycomm.Lgx.Drv

-- PROPERTY THEOREMS

/-- C05, driver level, the symbol list: on a healthy connected driver in front of the reference controller,
    `_get_instance_attribute_list_service(None)` (controller scope, starting at instance 0 with an empty list) returns
    exactly the records of the controller's symbols — every symbol, once, in instance order, with its instance id, name,
    type word, addresses, software control word, dimensions and (when asked) external access — for EVERY page schedule
    of the controller (`st.proj.pageSchedule` and the running schedule index `st.ctr` are arbitrary).

    Hypotheses (each is needed):
    * `hw`       the connection facts of `ldr_Healthy` (see `read_atomic_scalar_e2e`);
    * `hlogix`   the target runs the Logix services over the state `st`;
    * `hrev`     the external-access attribute is only requested from a controller that has it (`open()` asks for it
                 from firmware 18 on, which is what the controller checks; otherwise status 0x09);
    * `hwf`      the symbols' fields fit their wire fields (`WfSymbol`);
    * `hsorted`  the controller lists its symbols by strictly increasing instance id — this is what the service's
                 "instances ≥ start" continuation needs: with an unsorted or repeating list a symbol after a page
                 boundary would be skipped (see the `#guard` below `Ex2`);
    * `hsize`    the 30-byte request fits the connection the target granted;
    * `hfuel`    fuel for one page per symbol (the real loop has no bound; `PAGE_FUEL` = 100000).
    No hypothesis on the size of the records is needed: the controller puts at least one record on every page, and a
    reply larger than the connection is recorded as a violation of the target but is delivered all the same.

    Conclusion: the record list; the resulting world is healthy again on the same connection (only `lastSeq` moved),
    the driver changed only its sequence counter, frames were only appended, and of the controller only the schedule
    counter advanced. -/
theorem symbol_upload_complete (w : Cli.World Ext) (sess : Nat) (cidb : Bytes) (conn : Conn) (st : LState)
    (wa : Bool) (fuel : Nat)
    (hw : ldr_Healthy w sess cidb conn) (hlogix : w.net.target.ext.logix = some st)
    (hrev : wa = true → 18 ≤ st.rev)
    (hwf : ∀ s ∈ st.proj.controller, Up.WfSymbol s)
    (hsorted : st.proj.controller.Pairwise (fun a b => a.inst < b.inst))
    (hsize : 32 ≤ conn.size) (hfuel : st.proj.controller.length < fuel) :
    ∃ w' conn' k, getInstanceAttributeList hookAll none wa fuel w 0 [] =
        (w', .ok (st.proj.controller.map (Up.recOfSymbol wa))) ∧
      ldr_Healthy w' sess cidb conn' ∧ conn'.size = conn.size ∧ lo_SameDrv w.drv w'.drv ∧
      (∃ frms, w'.net.sent = w.net.sent ++ frms) ∧
      w'.net.target.ext = { w.net.target.ext with logix := some { st with ctr := st.ctr + k } } := by
  have h := lo_upload_from sess cidb wa fuel w conn st 0 [] hw hlogix hrev hwf hsorted (by omega) hsize
    (by rw [lo_from_zero]; exact hfuel)
  rw [lo_from_zero, List.nil_append] at h
  exact h

/-- the uploaded symbol list does not depend on how the controller paginates: two healthy worlds whose controllers
    hold the same controller-scope symbols — whatever their page schedules, schedule counters, connections — deliver
    the same records -/
theorem symbol_upload_schedule_independent (w1 w2 : Cli.World Ext) (sess1 sess2 : Nat) (cidb1 cidb2 : Bytes)
    (conn1 conn2 : Conn) (st1 st2 : LState) (wa : Bool) (fuel1 fuel2 : Nat)
    (hw1 : ldr_Healthy w1 sess1 cidb1 conn1) (hlogix1 : w1.net.target.ext.logix = some st1)
    (hw2 : ldr_Healthy w2 sess2 cidb2 conn2) (hlogix2 : w2.net.target.ext.logix = some st2)
    (hsame : st2.proj.controller = st1.proj.controller)
    (hrev1 : wa = true → 18 ≤ st1.rev) (hrev2 : wa = true → 18 ≤ st2.rev)
    (hwf : ∀ s ∈ st1.proj.controller, Up.WfSymbol s)
    (hsorted : st1.proj.controller.Pairwise (fun a b => a.inst < b.inst))
    (hsize1 : 32 ≤ conn1.size) (hsize2 : 32 ≤ conn2.size)
    (hfuel1 : st1.proj.controller.length < fuel1) (hfuel2 : st1.proj.controller.length < fuel2) :
    (getInstanceAttributeList hookAll none wa fuel1 w1 0 []).2 = .ok (st1.proj.controller.map (Up.recOfSymbol wa)) ∧
    (getInstanceAttributeList hookAll none wa fuel2 w2 0 []).2 = (getInstanceAttributeList hookAll none wa fuel1 w1 0 []).2 := by
  obtain ⟨_, _, _, h1, _⟩ := symbol_upload_complete w1 sess1 cidb1 conn1 st1 wa fuel1 hw1 hlogix1 hrev1 hwf hsorted hsize1 hfuel1
  obtain ⟨_, _, _, h2, _⟩ := symbol_upload_complete w2 sess2 cidb2 conn2 st2 wa fuel2 hw2 hlogix2 hrev2
    (by rw [hsame]; exact hwf) (by rw [hsame]; exact hsorted) hsize2 (by rw [hsame]; exact hfuel2)
  rw [h1, h2, hsame]
  exact ⟨rfl, rfl⟩

/-- the same for a program scope: `_get_instance_attribute_list_service(program)` returns exactly the records of the
    symbols the controller holds for that program — every symbol, once, in instance order — for EVERY page schedule.
    `p` is the program as the caller names it (with or without the `Program:` prefix; `lo_programName p` is the name
    sent).  Additional hypotheses: `hp` the name is not empty (an empty name asks for the controller scope),
    `hlen`, `hascii` the name fits a symbolic segment (≤ 255 ASCII characters), `hprog` the controller has that
    program with the symbols `syms`; the request now takes up to `name length + 35` bytes of the connection. -/
theorem symbol_upload_complete_program (w : Cli.World Ext) (sess : Nat) (cidb : Bytes) (conn : Conn) (st : LState)
    (wa : Bool) (fuel : Nat) (p : Name) (syms : List Symbol)
    (hw : ldr_Healthy w sess cidb conn) (hlogix : w.net.target.ext.logix = some st)
    (hp : p ≠ []) (hlen : (lo_programName p).length ≤ 255) (hascii : ∀ c ∈ lo_programName p, c < 128)
    (hprog : (st.proj.programs.find? (·.1 == lo_programName p)).map (·.2) = some syms)
    (hrev : wa = true → 18 ≤ st.rev)
    (hwf : ∀ s ∈ syms, Up.WfSymbol s)
    (hsorted : syms.Pairwise (fun a b => a.inst < b.inst))
    (hsize : (lo_programName p).length + 35 ≤ conn.size) (hfuel : syms.length < fuel) :
    ∃ w' conn' k, getInstanceAttributeList hookAll (some p) wa fuel w 0 [] = (w', .ok (syms.map (Up.recOfSymbol wa))) ∧
      ldr_Healthy w' sess cidb conn' ∧ conn'.size = conn.size ∧ lo_SameDrv w.drv w'.drv ∧
      (∃ frms, w'.net.sent = w.net.sent ++ frms) ∧
      w'.net.target.ext = { w.net.target.ext with logix := some { st with ctr := st.ctr + k } } := by
  have h := lo_upload_fromS (some p) (some (lo_programName p)) _ _ (lo_scopePath_program p hp hlen hascii) (by omega)
    sess cidb wa syms fuel w conn st 0 [] hw hlogix hprog hrev hwf hsorted (by omega) (by omega)
    (by rw [lo_from_zero]; exact hfuel)
  rw [lo_from_zero, List.nil_append] at h
  exact h


/-- C05, driver level, `_read_template`: on a healthy connected driver, reading the definition of template `tid` with
    the object definition size the controller reports (`t.defWords`) reassembles exactly the bytes the controller
    stores for the template (`Drv.templateData t`: the definition `t.defBytes`, zero-padded to `words * 4 - 23` bytes)
    — for EVERY fragment schedule of the controller (`st.proj.tmplSchedule`, `st.ctr` arbitrary): each follow-up
    request asks for the offset equal to the number of bytes received so far.

    Hypotheses: the connection facts, the Logix state, `ht` the controller has template `tid`, `htid` the id fits the
    instance field, `hsize` the 20-byte request fits the connection, `hwords` the byte count `words * 4 - 21` the
    driver asks for fits its 16-bit field (larger definitions make `UINT.encode` fail in the real driver),
    `hfuel` one round per byte suffices (`TMPL_FUEL` = 100000). -/
theorem template_read_complete (w : Cli.World Ext) (sess : Nat) (cidb : Bytes) (conn : Conn) (st : LState)
    (t : Template) (tid fuel : Nat)
    (hw : ldr_Healthy w sess cidb conn) (hlogix : w.net.target.ext.logix = some st)
    (ht : st.proj.template? tid = some t) (htid : tid < 2 ^ 32) (hsize : 22 ≤ conn.size)
    (hwords : t.defWords * 4 - 21 < 65536) (hfuel : (templateData t).length ≤ fuel) :
    ∃ w' conn' k, readTemplate hookAll tid t.defWords fuel w 0 [] = (w', .ok (templateData t)) ∧
      ldr_Healthy w' sess cidb conn' ∧ conn'.size = conn.size ∧ lo_SameDrv w.drv w'.drv ∧
      (∃ frms, w'.net.sent = w.net.sent ++ frms) ∧
      w'.net.target.ext = { w.net.target.ext with logix := some { st with ctr := st.ctr + k } } := by
  have h := lo_readTemplate_from sess cidb t tid fuel w conn st 0 [] hw hlogix ht htid hsize hwords
    (lo_templateData_pos t) (by omega)
  rw [List.drop_zero, List.nil_append] at h
  exact h

/-- the reassembled definition does not depend on how the controller fragments the read: two healthy worlds whose
    controllers hold the same template — whatever their fragment schedules, counters, connection sizes — deliver the
    same bytes -/
theorem template_read_schedule_independent (w1 w2 : Cli.World Ext) (sess1 sess2 : Nat) (cidb1 cidb2 : Bytes)
    (conn1 conn2 : Conn) (st1 st2 : LState) (t : Template) (tid fuel1 fuel2 : Nat)
    (hw1 : ldr_Healthy w1 sess1 cidb1 conn1) (hlogix1 : w1.net.target.ext.logix = some st1)
    (hw2 : ldr_Healthy w2 sess2 cidb2 conn2) (hlogix2 : w2.net.target.ext.logix = some st2)
    (ht1 : st1.proj.template? tid = some t) (ht2 : st2.proj.template? tid = some t) (htid : tid < 2 ^ 32)
    (hsize1 : 22 ≤ conn1.size) (hsize2 : 22 ≤ conn2.size) (hwords : t.defWords * 4 - 21 < 65536)
    (hfuel1 : (templateData t).length ≤ fuel1) (hfuel2 : (templateData t).length ≤ fuel2) :
    (readTemplate hookAll tid t.defWords fuel1 w1 0 []).2 = .ok (templateData t) ∧
    (readTemplate hookAll tid t.defWords fuel2 w2 0 []).2 = (readTemplate hookAll tid t.defWords fuel1 w1 0 []).2 := by
  obtain ⟨_, _, _, h1, _⟩ := template_read_complete w1 sess1 cidb1 conn1 st1 t tid fuel1 hw1 hlogix1 ht1 htid hsize1 hwords hfuel1
  obtain ⟨_, _, _, h2, _⟩ := template_read_complete w2 sess2 cidb2 conn2 st2 t tid fuel2 hw2 hlogix2 ht2 htid hsize2 hwords hfuel2
  rw [h1, h2]
  exact ⟨rfl, rfl⟩

/-- C05, driver level, the upload of one structure definition: `_get_structure_makeup(tid)` (not cached) returns the
    four attributes of the controller's template (`lo_attrsOf t`), `_read_template` with that object definition size
    returns the stored definition, and `_parse_template_data`'s parser applied to it with that member count yields the
    parsed template of `template_roundtrip` — the template's name, its members in order with their info / type /
    offset fields, the private-member flags and the visible-member list — for EVERY fragment schedule.

    Hypotheses beyond those of `template_read_complete`: `hcache` the attributes are not cached yet, `hW` … `hH` the
    attributes fit their reply fields, `hwf` the template is well-formed (`WfTemplate`: the name field is
    "Name;…", identifiers are ASCII without NUL / ';', member fields fit), `hlen` `TMPL_FUEL` rounds suffice. -/
theorem template_upload_parsed (s0 : St Ext) (sess : Nat) (cidb : Bytes) (conn : Conn) (st : LState)
    (t : Template) (tid symbolType : Nat) (tname : Name) (junk : Bytes)
    (hw : ldr_Healthy s0.w sess cidb conn) (hlogix : s0.w.net.target.ext.logix = some st)
    (ht : st.proj.template? tid = some t) (htid : tid < 2 ^ 32) (hsize : 26 ≤ conn.size)
    (hcache : natGet s0.cache.idStruct tid = none)
    (hW : t.defWords * 4 - 21 < 65536) (hS : t.size < 2 ^ 32) (hM : t.members.length < 65536) (hH : t.handle < 65536)
    (hwf : Up.WfTemplate t tname junk) (hlen : (templateData t).length ≤ TMPL_FUEL) :
    ∃ s1 w2 conn' k pt,
      getStructureMakeup hookAll s0 tid = (s1, .ok (lo_attrsOf t)) ∧
      readTemplate hookAll tid (lo_attrsOf t).objectDefinitionSize TMPL_FUEL s1.w 0 [] = (w2, .ok (templateData t)) ∧
      Up.parseTemplate (lo_attrsOf t).memberCount symbolType (templateData t) = .ok pt ∧
      pt.name = some (if tname = Up.nm "ASCIISTRING82" then Up.nm "STRING" else tname) ∧
      pt.members.map (fun m => (m.name, m.info, m.typ, m.offset)) =
        t.members.map (fun m => (m.name, m.info, m.typeWord, m.offset)) ∧
      pt.members.map (·.priv) = t.members.map (fun m => Up.hidden (Up.isPredefined symbolType) m.name) ∧
      pt.attributes = (t.members.filter fun m => !Up.hidden (Up.isPredefined symbolType) m.name).map (·.name) ∧
      s1.l = s0.l ∧ s1.cache.idUdt = s0.cache.idUdt ∧ natGet s1.cache.idStruct tid = some (lo_attrsOf t) ∧
      ldr_Healthy w2 sess cidb conn' ∧ conn'.size = conn.size ∧ lo_SameDrv s0.w.drv w2.drv ∧
      (∃ frms, w2.net.sent = s0.w.net.sent ++ frms) ∧
      w2.net.target.ext = { s0.w.net.target.ext with logix := some { st with ctr := st.ctr + k } } := by
  obtain ⟨w1, hmk, hh1, hd1, ⟨frm, hsent1⟩, hext1⟩ := lo_getStructureMakeup s0 sess cidb conn st t tid hw hlogix ht htid hsize
    hcache (by omega) hS hM hH
  have hlogix1 : w1.net.target.ext.logix = some st := by rw [hext1]; exact hlogix
  obtain ⟨w2, conn', k, hrd, hh2, hcs, hsd, ⟨frms, hsent2⟩, hext2⟩ := template_read_complete w1 sess cidb
    { conn with lastSeq := some s0.w.drv.nextSeq.1 } st t tid TMPL_FUEL hh1 hlogix1 ht htid (by show 22 ≤ conn.size; omega) hW hlen
  obtain ⟨pt, hp, hn, hms, hpr, hat⟩ := Up.template_roundtrip t tname junk symbolType
    (t.defWords * 4 - 23 - t.defBytes.length) hwf
  refine ⟨_, w2, conn', k, pt, hmk, hrd, hp, hn, hms, hpr, hat, rfl, rfl, ?_, hh2, hcs, ?_, ⟨frm :: frms, ?_⟩, ?_⟩
  · show natGet (natSet s0.cache.idStruct tid (lo_attrsOf t)) tid = some (lo_attrsOf t)
    unfold natGet at hcache ⊢
    unfold natSet
    have hnone : s0.cache.idStruct.find? (fun x => x.1 == tid) = none := by
      cases hf : s0.cache.idStruct.find? (fun x => x.1 == tid) with
      | none => rfl
      | some x => rw [hf] at hcache; cases hcache
    have hany : s0.cache.idStruct.any (fun x => x.1 == tid) = false := by
      rw [List.find?_eq_none] at hnone
      rw [List.any_eq_false]
      exact hnone
    rw [hany]
    simp only [Bool.false_eq_true, if_false, List.find?_append, hnone, List.find?_cons, beq_self_eq_true,
      Option.none_or, Option.map_some]
  · exact lo_SameDrv.trans (by rw [hd1]; exact lo_SameDrv.nextSeq s0.w.drv) hsd
  · rw [hsent2, hsent1, List.append_assoc]; rfl
  · rw [hext2, hext1]


/-- C05, `_create_tag` for an elementary (non-structure) symbol: from the uploaded record of the symbol (`recOfSymbol`,
    what `symbol_upload_complete` delivers) the driver builds — without sending anything — the tag definition with
    the controller's data type (`name`, codec class `t`, wrapped into an array of the product of the used dimensions),
    dimension count and lengths, instance id, and beside it (`lo_metaOf`) the alias flag (software control bit 26
    clear), addresses, external-access text and BOOL bit position.  The definition is the one `Drv.createTag`, the helper
    of `Drv.tagDbOf`, computes from the symbol.
    * `hns`  bit 15 of the type word is clear (not a structure);
    * `hat`  the driver's tables know the type code in the low byte (otherwise the outcome is `unmodelled` on both
             sides, see `lo_createTag_atomic`). -/
theorem create_tag_atomic_spec {σ} (hook : ObjHook σ) (st : St σ) (p : Project) (s : Symbol) (wa : Bool) (name : Name) (t : Ty)
    (hns : s.symbolType / 32768 % 2 = 0) (hat : Drv.atomicOfCode (s.symbolType % 256) = some (name, t)) :
    ∃ info, Drv.createTag p s = some info ∧
      createTag hook st (Up.recOfSymbol wa s) = (st, .ok (info, lo_metaOf wa s)) ∧
      info.core.tagType = .atomic ∧ info.core.dataTypeName = name ∧
      info.core.ty = (if s.symbolType / 8192 % 4 ≠ 0 then
          .arr (.fixed ((((s.dims ++ [0, 0, 0]).take 3).take (s.symbolType / 8192 % 4)).foldl (· * ·) 1)) t else t) ∧
      info.core.dim = s.symbolType / 8192 % 4 ∧ info.core.dimensions = (s.dims ++ [0, 0, 0]).take 3 ∧
      info.core.instanceId = some s.inst ∧ info.core.struct = none ∧ info.members = .nil ∧
      (lo_metaOf wa s).instanceId = s.inst ∧ ((lo_metaOf wa s).alias = true ↔ s.attr6 / 2 ^ 26 % 2 = 0) ∧
      (lo_metaOf wa s).externalAccess = externalAccessText (if wa then some s.access else none) := by
  have h1 : (K.decodeTypeWord s.symbolType).isStruct = false := by simp [K.decodeTypeWord, hns]
  generalize hty : (if s.symbolType / 8192 % 4 ≠ 0 then
          Ty.arr (.fixed ((((s.dims ++ [0, 0, 0]).take 3).take (s.symbolType / 8192 % 4)).foldl (· * ·) 1)) t else t) = ty
  generalize hdims : (s.dims ++ [0, 0, 0]).take 3 = dims at hty
  have hc : Drv.createTag p s = some (.mk { tagType := .atomic, dataTypeName := name, ty := ty, dim := s.symbolType / 8192 % 4, dimensions := dims, instanceId := some s.inst } .nil) := by
    unfold Drv.createTag
    simp only [h1, Bool.false_eq_true, if_false]
    simp only [K.decodeTypeWord, hat, hdims, hty]
  refine ⟨_, hc, ?_, rfl, rfl, rfl, rfl, rfl, rfl, rfl, rfl, rfl, ?_, rfl⟩
  · rw [lo_createTag_atomic hook st p s wa hns, hc]
  · simp [lo_metaOf, K.isAlias]

/-- … and this is the entry of the tag database `Drv.tagDbOf` at the symbol's name, for a controller-scope user tag
    with a unique colon-free name (`ldr_tagDb_get`) -/
theorem create_tag_matches_tagDb {σ} (hook : ObjHook σ) (st : St σ) (p : Project) (programTags : Bool) (db : TagDb)
    (s : Symbol) (wa : Bool)
    (hdb : tagDbOf p programTags = some db) (hs : s ∈ p.controller)
    (hkeep : K.keepSymbol s.name s.symbolType = true)
    (huniq : ∀ s' ∈ p.controller, s'.name = s.name → s' = s) (hcolon : (58 : Nat) ∉ s.name)
    (hns : s.symbolType / 32768 % 2 = 0) :
    ∃ info, createTag hook st (Up.recOfSymbol wa s) = (st, .ok (info, lo_metaOf wa s)) ∧ db.get? s.name = some info := by
  obtain ⟨i, hc, hget⟩ := ldr_tagDb_get p programTags db s hdb hs hkeep huniq hcolon
  exact ⟨i, by rw [lo_createTag_atomic hook st p s wa hns, hc], hget⟩

/-- C05, driver level, `get_tag_list(program=None)` for a controller whose user tags are all of elementary types: on a
    healthy connected driver the tag list the driver ends up with is exactly `Drv.tagDbOf` of the controller's project
    (controller scope) — the user-visible controller-scoped tags, none missing, duplicated or invented, each with the
    controller's data type, dimensions and instance id — and `metas` holds their alias flag, external access and
    addresses; for EVERY page schedule of the controller.

    Hypotheses: those of `symbol_upload_complete` (with the external-access attribute requested as `open()` does:
    when the revision the driver read from the controller is ≥ 18), `PAGE_FUEL` pages suffice, and
    * `hatomic`  every symbol `_isolate_user_tags` keeps is not a structure (bit 15 of the type word clear);
    * `hdb`      `Drv.tagDbOf` is defined, i.e. every kept symbol has a type code the model's tables know.
    `l` is any driver state (`get_tag_list` resets `programs`, `tasks`, `modules` of `_info` itself). -/
theorem open_tags_atomic_project (w : Cli.World Ext) (l : LDrv) (sess : Nat) (cidb : Bytes) (conn : Conn) (st : LState)
    (db : TagDb)
    (hw : ldr_Healthy w sess cidb conn) (hlogix : w.net.target.ext.logix = some st)
    (hrev : revisionMajor l.info ≥ Gen.MIN_VER_EXTERNAL_ACCESS → 18 ≤ st.rev)
    (hwf : ∀ s ∈ st.proj.controller, Up.WfSymbol s)
    (hsorted : st.proj.controller.Pairwise (fun a b => a.inst < b.inst))
    (hsize : 32 ≤ conn.size) (hfuel : st.proj.controller.length < PAGE_FUEL)
    (hatomic : ∀ s ∈ st.proj.controller, K.keepSymbol s.name s.symbolType = true → s.symbolType / 32768 % 2 = 0)
    (hdb : tagDbOf st.proj false = some db) :
    ∃ w' l' conn' k, getTagList hookAll w l false = (w', l', .ok ()) ∧
      l'.tags = db ∧
      l'.metas = metasOfList ((st.proj.controller.filter fun s => K.keepSymbol s.name s.symbolType).map fun s =>
        (s.name, lo_metaOf (decide (revisionMajor l.info ≥ Gen.MIN_VER_EXTERNAL_ACCESS)) s)) ∧
      l'.micro800 = l.micro800 ∧ l'.useInstanceIds = l.useInstanceIds ∧ l'.dataTypes = l.dataTypes ∧
      l'.cacheLeft = false ∧
      ldr_Healthy w' sess cidb conn' ∧ conn'.size = conn.size ∧ lo_SameDrv w.drv w'.drv ∧
      (∃ frms, w'.net.sent = w.net.sent ++ frms) ∧
      w'.net.target.ext = { w.net.target.ext with logix := some { st with ctr := st.ctr + k } } := by
  -- the tag database of the project
  obtain ⟨ctl, hctl, hdbe⟩ : ∃ ctl, Drv.userTags st.proj [] st.proj.controller = some ctl ∧ db = TagDb.ofList ctl := by
    unfold tagDbOf at hdb
    cases hctl : Drv.userTags st.proj [] st.proj.controller with
    | none => rw [hctl] at hdb; cases hdb
    | some ctl =>
      rw [hctl] at hdb
      simp only [Bool.not_false, if_true, Option.some.injEq] at hdb
      exact ⟨ctl, rfl, hdb.symm⟩
  -- the decorator
  have hfo : Cli.ensureForwardOpen hookAll Cli.FUEL w = (w, .ok ()) := ldr_ensureFO_connected hookAll 7 w hw.connected
  -- the symbol list
  generalize hwa : decide (revisionMajor l.info ≥ Gen.MIN_VER_EXTERNAL_ACCESS) = wa
  have hrev' : wa = true → 18 ≤ st.rev := by
    intro h; rw [← hwa] at h; exact hrev (of_decide_eq_true h)
  obtain ⟨w1, conn1, k, hup, hh1, hcs1, hsd1, hsent1, hext1⟩ :=
    symbol_upload_complete w sess cidb conn st wa PAGE_FUEL hw hlogix hrev' hwf hsorted hsize hfuel
  -- `_isolate_user_tags`
  obtain ⟨info, xs, hiso, hx1, hx2⟩ := lo_isolate_atomic hookAll st.proj wa st.proj.controller
    ({ w := w1, l := { l with cacheLeft := true, info := { l.info with programs := some [], tasks := some [], modules := some [] } } } : St Ext) ctl hatomic hctl
  refine ⟨w1, { l with info := info, tags := TagDb.ofList ((xs ++ []).map fun (x : Name × TagInfo × TagMeta) => (x.1, x.2.1)), metas := metasOfList ((xs ++ []).map fun (x : Name × TagInfo × TagMeta) => (x.1, x.2.2)), cacheLeft := false },
    conn1, k, ?_, ?_, ?_, ?_, ?_, ?_, ?_, hh1, hcs1, hsd1, hsent1, hext1⟩
  · unfold getTagList
    rw [hfo]
    dsimp only
    unfold getTagListScope
    dsimp only
    have hwa' : decide (revisionMajor { l.info with programs := some [], tasks := some [], modules := some [] } ≥
        Gen.MIN_VER_EXTERNAL_ACCESS) = wa := hwa
    rw [hwa', hup]
    dsimp only
    rw [hiso]
    simp only [Bool.false_eq_true, if_false]
  · show TagDb.ofList ((xs ++ []).map fun (x : Name × TagInfo × TagMeta) => (x.1, x.2.1)) = db
    rw [List.append_nil, hx1, hdbe]
  · show metasOfList ((xs ++ []).map fun (x : Name × TagInfo × TagMeta) => (x.1, x.2.2)) = _
    rw [List.append_nil, hx2]
  · rfl
  · rfl
  · rfl
  · rfl


/-- C05, driver level, `_get_data_type` for a structure with elementary members only: nothing cached for `tid`, the
    upload (`_get_structure_makeup`, `_read_template`, `_parse_template_data`) returns exactly the data type
    `Drv.dataTypeOf` computes from the controller's project and caches it — for EVERY fragment schedule.  (Statement of
    `lo_getDataType_flat`, see there for the hypotheses.) -/
theorem get_data_type_flat (s0 : St Ext) (sess : Nat) (cidb : Bytes) (conn : Conn) (st : LState)
    (t : Template) (tid symbolType fuel k : Nat) (tname : Name) (junk : Bytes) (dt : DT)
    (hw : ldr_Healthy s0.w sess cidb conn) (hlogix : s0.w.net.target.ext.logix = some st)
    (ht : st.proj.template? tid = some t) (htid : tid < 2 ^ 32) (hsize : 26 ≤ conn.size)
    (hcU : natGet s0.cache.idUdt tid = none) (hcS : natGet s0.cache.idStruct tid = none)
    (hW : t.defWords * 4 - 21 < 65536) (hS : t.size < 2 ^ 32) (hM : t.members.length < 65536) (hH : t.handle < 65536)
    (hwf : Up.WfTemplate t tname junk) (hlen : (templateData t).length ≤ TMPL_FUEL)
    (hflat : ∀ m ∈ t.members, (Up.atomicOfTyp m.typeWord).isSome = true)
    (hsym : symbolType % 4096 = tid % 4096)
    (hdt : dataTypeOf st.proj (k + 1) tid = some dt) :
    ∃ s1 conn' j, getDataType hookAll (fuel + 1) s0 tid symbolType = (s1, .ok dt) ∧
      natGet s1.cache.idUdt tid = some dt ∧
      ldr_Healthy s1.w sess cidb conn' ∧ conn'.size = conn.size ∧ lo_SameDrv s0.w.drv s1.w.drv ∧
      (∃ frms, s1.w.net.sent = s0.w.net.sent ++ frms) ∧
      s1.w.net.target.ext = { s0.w.net.target.ext with logix := some { st with ctr := st.ctr + j } } := by
  obtain ⟨w', conn', j, h, hh, hcs, hsd, hsent, hext⟩ := lo_getDataType_flat s0 sess cidb conn st t tid symbolType fuel k
    tname junk dt hw hlogix ht htid hsize hcU hcS hW hS hM hH hwf hlen hflat hsym hdt
  exact ⟨_, conn', j, h, lo_natGet_natSet_same _ _ _ hcU, hh, hcs, hsd, hsent, hext⟩

/-- C05, driver level, `get_tag_list(program=None)` for a controller whose user tags are of elementary types or of
    structure types with elementary members only: the tag list the driver ends up with is exactly `Drv.tagDbOf` of the
    controller's project — for EVERY page schedule AND EVERY template fragment schedule (`st.proj.pageSchedule`,
    `st.proj.tmplSchedule`, `st.ctr` arbitrary).  Every structure definition is uploaded once (second and later tags of
    the same type are served from `_cache`).

    Hypotheses: those of `open_tags_atomic_project`, with `hatomic` replaced by
    * `hflat`  every kept structure symbol refers to a flat template (`lo_FlatTemplate`: it exists, is well-formed, its
               members are elementary, its attributes fit their reply fields, its definition is < 64 KiB). -/
theorem open_tags_flat_project (w : Cli.World Ext) (l : LDrv) (sess : Nat) (cidb : Bytes) (conn : Conn) (st : LState)
    (db : TagDb)
    (hw : ldr_Healthy w sess cidb conn) (hlogix : w.net.target.ext.logix = some st)
    (hrev : revisionMajor l.info ≥ Gen.MIN_VER_EXTERNAL_ACCESS → 18 ≤ st.rev)
    (hwf : ∀ s ∈ st.proj.controller, Up.WfSymbol s)
    (hsorted : st.proj.controller.Pairwise (fun a b => a.inst < b.inst))
    (hsize : 32 ≤ conn.size) (hfuel : st.proj.controller.length < PAGE_FUEL)
    (hflat : ∀ s ∈ st.proj.controller, K.keepSymbol s.name s.symbolType = true → s.symbolType / 32768 % 2 = 1 →
      lo_FlatTemplate st.proj (s.symbolType % 4096))
    (hdb : tagDbOf st.proj false = some db) :
    ∃ w' l' conn' c, getTagList hookAll w l false = (w', l', .ok ()) ∧
      l'.tags = db ∧
      l'.metas = metasOfList ((st.proj.controller.filter fun s => K.keepSymbol s.name s.symbolType).map fun s =>
        (s.name, lo_metaAll (decide (revisionMajor l.info ≥ Gen.MIN_VER_EXTERNAL_ACCESS)) s)) ∧
      l'.micro800 = l.micro800 ∧ l'.useInstanceIds = l.useInstanceIds ∧ l'.cacheLeft = false ∧
      ldr_Healthy w' sess cidb conn' ∧ conn'.size = conn.size ∧ lo_SameDrv w.drv w'.drv ∧
      (∃ frms, w'.net.sent = w.net.sent ++ frms) ∧
      w'.net.target.ext.logix = some { st with ctr := c } := by
  obtain ⟨ctl, hctl, hdbe⟩ : ∃ ctl, Drv.userTags st.proj [] st.proj.controller = some ctl ∧ db = TagDb.ofList ctl := by
    unfold tagDbOf at hdb
    cases hctl : Drv.userTags st.proj [] st.proj.controller with
    | none => rw [hctl] at hdb; cases hdb
    | some ctl =>
      rw [hctl] at hdb
      simp only [Bool.not_false, if_true, Option.some.injEq] at hdb
      exact ⟨ctl, rfl, hdb.symm⟩
  have hfo : Cli.ensureForwardOpen hookAll Cli.FUEL w = (w, .ok ()) := ldr_ensureFO_connected hookAll 7 w hw.connected
  generalize hwa : decide (revisionMajor l.info ≥ Gen.MIN_VER_EXTERNAL_ACCESS) = wa
  have hrev' : wa = true → 18 ≤ st.rev := by
    intro h; rw [← hwa] at h; exact hrev (of_decide_eq_true h)
  obtain ⟨w1, conn1, k, hup, hh1, hcs1, hsd1, ⟨frms1, hsent1⟩, hext1⟩ :=
    symbol_upload_complete w sess cidb conn st wa PAGE_FUEL hw hlogix hrev' hwf hsorted hsize hfuel
  have hg1 : lo_Good st sess cidb conn.size ({ w := w1, l := { l with cacheLeft := true, info := { l.info with programs := some [], tasks := some [], modules := some [] } } } : St Ext) :=
    ⟨⟨conn1, hh1, hcs1⟩, ⟨st.ctr + k, by rw [hext1]⟩, fun _ _ => rfl, fun _ _ h => by cases h⟩
  obtain ⟨S', xs, hiso, hx1, hx2, hg', hs'⟩ := lo_isolate_flat st sess cidb conn.size (by omega) wa st.proj.controller _ ctl hg1 hflat hctl
  obtain ⟨conn', hh', hcs'⟩ := hg'.healthy
  obtain ⟨c, hlogix'⟩ := hg'.logix
  obtain ⟨frms2, hsent2⟩ := hs'.sent
  refine ⟨S'.w, { S'.l with tags := TagDb.ofList ((xs ++ []).map fun (x : Name × TagInfo × TagMeta) => (x.1, x.2.1)), metas := metasOfList ((xs ++ []).map fun (x : Name × TagInfo × TagMeta) => (x.1, x.2.2)), cacheLeft := false },
    conn', c, ?_, ?_, ?_, hs'.micro, hs'.ids, rfl, hh', hcs', lo_SameDrv.trans hsd1 hs'.drv, ⟨frms1 ++ frms2, ?_⟩, hlogix'⟩
  · unfold getTagList
    rw [hfo]
    dsimp only
    unfold getTagListScope
    dsimp only
    have hwa' : decide (revisionMajor { l.info with programs := some [], tasks := some [], modules := some [] } ≥
        Gen.MIN_VER_EXTERNAL_ACCESS) = wa := hwa
    rw [hwa', hup]
    dsimp only
    rw [hiso]
    simp only [Bool.false_eq_true, if_false]
  · show TagDb.ofList ((xs ++ []).map fun (x : Name × TagInfo × TagMeta) => (x.1, x.2.1)) = db
    rw [List.append_nil, hx1, hdbe]
  · show metasOfList ((xs ++ []).map fun (x : Name × TagInfo × TagMeta) => (x.1, x.2.2)) = _
    rw [List.append_nil, hx2]
  · rw [hsent2]
    show w1.net.sent ++ frms2 = _
    rw [hsent1, List.append_assoc]


/-! ### non-vacuity: a concrete project of three symbols behind a world obtained by running the model -/

namespace Ex

def s1 : Symbol :=
  { inst := 3, name := Opn.nm "abc", symbolType := 0xC4, dims := [0, 0, 0], attr3 := 0x100, attr5 := 0x200, attr6 := 2 ^ 26,
    access := 0, mem := [0x2A, 0, 0, 0] }
def s2 : Symbol :=
  { inst := 7, name := Opn.nm "arr", symbolType := 0x20C3, dims := [5, 0, 0], attr3 := 0x104, attr5 := 0x210, attr6 := 2 ^ 26,
    access := 2, mem := List.replicate 10 0 }
def s3 : Symbol :=
  { inst := 12, name := Opn.nm "flag", symbolType := 0x03C1, dims := [0, 0, 0], attr3 := 0x110, attr5 := 0x220, attr6 := 0,
    access := 1, mem := [8] }

/-- the project, with the page schedule as parameter -/
def proj (sched : List Nat) : Project := { templates := [], controller := [s1, s2, s3], programs := [], pageSchedule := sched }
def state (sched : List Nat) : LState := { proj := proj sched }
/-- a fresh driver in front of a fresh target holding the project … -/
def world0 (sched : List Nat) : Cli.World Ext :=
  { drv := {}, net := { target := { base := Drv.Ex.base, ext := { logix := some (state sched) } } } }
/-- … after `CIPDriver.open()` and the Forward Open of `with_forward_open`: the model is run -/
def world (sched : List Nat) : Cli.World Ext :=
  (Cli.ensureForwardOpen hookAll Cli.FUEL (Cli.openDrv hookAll (world0 sched) [1, 2, 3, 4, 5, 6, 7, 8]).1).1

def recs : List Up.Rec := [s1, s2, s3].map (Up.recOfSymbol true)

-- evaluation checks of the run (interpreter): one symbol per page takes three requests, the default schedule one
#guard (world [1]).net.target.base.conns == [Drv.Ex.conn] && (world []).net.target.base.conns == [Drv.Ex.conn]
#guard (match getInstanceAttributeList hookAll none true 4 (world [1]) 0 [] with
        | (w', .ok rs) => rs == recs && w'.net.sent.length == (world [1]).net.sent.length + 3
        | _ => false)
#guard (match getInstanceAttributeList hookAll none true 4 (world []) 0 [] with
        | (w', .ok rs) => rs == recs && w'.net.sent.length == (world []).net.sent.length + 1
        | _ => false)
-- `hsorted` is needed: with the list out of order the symbol after the page boundary is lost
#guard (match getInstanceAttributeList hookAll none true 4
          { world [1] with net := { (world [1]).net with target := { (world [1]).net.target with
              ext := { logix := some { proj := { proj [1] with controller := [s2, s1, s3] } } } } } } 0 [] with
        | (_, .ok rs) => rs == [s2, s3].map (Up.recOfSymbol true)
        | _ => false)

theorem healthy1 : ldr_Healthy (world [1]) 4097 [238, 255, 192, 0] Drv.Ex.conn :=
  ⟨by decide +kernel, by decide +kernel, by decide +kernel, by decide +kernel, by decide +kernel, by decide,
   by decide +kernel, by decide +kernel, by decide, by decide +kernel, by decide +kernel, by decide +kernel⟩

theorem healthy0 : ldr_Healthy (world []) 4097 [238, 255, 192, 0] Drv.Ex.conn :=
  ⟨by decide +kernel, by decide +kernel, by decide +kernel, by decide +kernel, by decide +kernel, by decide,
   by decide +kernel, by decide +kernel, by decide, by decide +kernel, by decide +kernel, by decide +kernel⟩

theorem wf (sched : List Nat) : ∀ s ∈ (state sched).proj.controller, Up.WfSymbol s := by
  intro s hs
  simp only [state, proj, List.mem_cons, List.not_mem_nil, or_false] at hs
  rcases hs with rfl | rfl | rfl <;> (unfold Up.WfSymbol; decide)

theorem sorted (sched : List Nat) : (state sched).proj.controller.Pairwise (fun a b => a.inst < b.inst) := by
  simp only [state, proj]
  decide

/-- every hypothesis of `symbol_upload_complete` holds for the concrete world with one symbol per page -/
example : ∃ w' conn' k, getInstanceAttributeList hookAll none true PAGE_FUEL (world [1]) 0 [] = (w', .ok recs) ∧
    ldr_Healthy w' 4097 [238, 255, 192, 0] conn' ∧ conn'.size = Drv.Ex.conn.size ∧ lo_SameDrv (world [1]).drv w'.drv ∧
    (∃ frms, w'.net.sent = (world [1]).net.sent ++ frms) ∧
    w'.net.target.ext = { (world [1]).net.target.ext with logix := some { state [1] with ctr := (state [1]).ctr + k } } :=
  symbol_upload_complete (world [1]) 4097 [238, 255, 192, 0] Drv.Ex.conn (state [1]) true PAGE_FUEL healthy1 (by rfl)
    (fun _ => by decide) (wf [1]) (sorted [1]) (by decide) (by decide)

/-- … and of `symbol_upload_schedule_independent`: schedule `[1]` (three pages) and `[]` (one page) give the same list -/
example : (getInstanceAttributeList hookAll none true PAGE_FUEL (world [1]) 0 []).2 = .ok recs ∧
    (getInstanceAttributeList hookAll none true PAGE_FUEL (world []) 0 []).2 =
      (getInstanceAttributeList hookAll none true PAGE_FUEL (world [1]) 0 []).2 :=
  symbol_upload_schedule_independent (world [1]) (world []) 4097 4097 [238, 255, 192, 0] [238, 255, 192, 0]
    Drv.Ex.conn Drv.Ex.conn (state [1]) (state []) true PAGE_FUEL PAGE_FUEL healthy1 (by rfl) healthy0 (by rfl) rfl
    (fun _ => by decide) (fun _ => by decide) (wf [1]) (sorted [1]) (by decide) (by decide) (by decide) (by decide)

/-! #### a program scope -/

def p1 : Symbol := { s1 with inst := 2, name := Opn.nm "loc" }
def p2 : Symbol := { s2 with inst := 9, name := Opn.nm "cnt" }
def projP (sched : List Nat) : Project :=
  { templates := [], controller := [s1, { s1 with inst := 5, name := Opn.nm "Program:Main", symbolType := 0x1068 }],
    programs := [(Opn.nm "Program:Main", [p1, p2])], pageSchedule := sched }
def stateP (sched : List Nat) : LState := { proj := projP sched }
def worldP0 (sched : List Nat) : Cli.World Ext :=
  { drv := {}, net := { target := { base := Drv.Ex.base, ext := { logix := some (stateP sched) } } } }
def worldP (sched : List Nat) : Cli.World Ext :=
  (Cli.ensureForwardOpen hookAll Cli.FUEL (Cli.openDrv hookAll (worldP0 sched) [1, 2, 3, 4, 5, 6, 7, 8]).1).1

#guard (match getInstanceAttributeList hookAll (some (Opn.nm "Main")) true 4 (worldP [1]) 0 [] with
        | (w', .ok rs) => rs == [p1, p2].map (Up.recOfSymbol true) && w'.net.sent.length == (worldP [1]).net.sent.length + 2
        | _ => false)
#guard (match getInstanceAttributeList hookAll (some (Opn.nm "Program:Main")) true 4 (worldP []) 0 [] with
        | (w', .ok rs) => rs == [p1, p2].map (Up.recOfSymbol true) && w'.net.sent.length == (worldP []).net.sent.length + 1
        | _ => false)

theorem healthyP1 : ldr_Healthy (worldP [1]) 4097 [238, 255, 192, 0] Drv.Ex.conn :=
  ⟨by decide +kernel, by decide +kernel, by decide +kernel, by decide +kernel, by decide +kernel, by decide,
   by decide +kernel, by decide +kernel, by decide, by decide +kernel, by decide +kernel, by decide +kernel⟩

/-- every hypothesis of `symbol_upload_complete_program` holds: program `Main`, one symbol per page -/
example : ∃ w' conn' k, getInstanceAttributeList hookAll (some (Opn.nm "Main")) true PAGE_FUEL (worldP [1]) 0 [] =
      (w', .ok ([p1, p2].map (Up.recOfSymbol true))) ∧
    ldr_Healthy w' 4097 [238, 255, 192, 0] conn' ∧ conn'.size = Drv.Ex.conn.size ∧ lo_SameDrv (worldP [1]).drv w'.drv ∧
    (∃ frms, w'.net.sent = (worldP [1]).net.sent ++ frms) ∧
    w'.net.target.ext = { (worldP [1]).net.target.ext with logix := some { stateP [1] with ctr := (stateP [1]).ctr + k } } :=
  symbol_upload_complete_program (worldP [1]) 4097 [238, 255, 192, 0] Drv.Ex.conn (stateP [1]) true PAGE_FUEL (Opn.nm "Main")
    [p1, p2] healthyP1 (by rfl) (by decide) (by decide) (by decide) (by rfl) (fun _ => by decide)
    (by intro s hs
        simp only [List.mem_cons, List.not_mem_nil, or_false] at hs
        rcases hs with rfl | rfl <;> (unfold Up.WfSymbol; decide))
    (by decide) (by decide) (by decide)


/-! #### `_read_template` / the definition upload: a template behind fragment schedules `[3]` and `[]` -/

/-- "MyT;n<0xC8>": LEN, a hidden padding member, DATA -/
def tmpl : Template := Up.exTmpl
def projT (sched : List Nat) : Project :=
  { templates := [tmpl], controller := [s1, s2, s3], programs := [], tmplSchedule := sched }
def stateT (sched : List Nat) : LState := { proj := projT sched }
def worldT0 (sched : List Nat) : Cli.World Ext :=
  { drv := {}, net := { target := { base := Drv.Ex.base, ext := { logix := some (stateT sched) } } } }
def worldT (sched : List Nat) : Cli.World Ext :=
  (Cli.ensureForwardOpen hookAll Cli.FUEL (Cli.openDrv hookAll (worldT0 sched) [1, 2, 3, 4, 5, 6, 7, 8]).1).1

-- the run: 49 bytes in fragments of 3 take 17 requests, the default schedule one; the bytes are the same
#guard (templateData tmpl).length == 49 && tmpl.defWords == 18
#guard (match readTemplate hookAll 0x123 18 TMPL_FUEL (worldT [3]) 0 [] with
        | (w', .ok bs) => bs == templateData tmpl && w'.net.sent.length == (worldT [3]).net.sent.length + 17
        | _ => false)
#guard (match readTemplate hookAll 0x123 18 TMPL_FUEL (worldT []) 0 [] with
        | (w', .ok bs) => bs == templateData tmpl && w'.net.sent.length == (worldT []).net.sent.length + 1
        | _ => false)
#guard (match getStructureMakeup hookAll { w := worldT [3], l := {} } 0x123 with
        | (_, .ok a) => a == lo_attrsOf tmpl
        | _ => false)

theorem healthyT3 : ldr_Healthy (worldT [3]) 4097 [238, 255, 192, 0] Drv.Ex.conn :=
  ⟨by decide +kernel, by decide +kernel, by decide +kernel, by decide +kernel, by decide +kernel, by decide,
   by decide +kernel, by decide +kernel, by decide, by decide +kernel, by decide +kernel, by decide +kernel⟩

theorem healthyT0 : ldr_Healthy (worldT []) 4097 [238, 255, 192, 0] Drv.Ex.conn :=
  ⟨by decide +kernel, by decide +kernel, by decide +kernel, by decide +kernel, by decide +kernel, by decide,
   by decide +kernel, by decide +kernel, by decide, by decide +kernel, by decide +kernel, by decide +kernel⟩

/-- every hypothesis of `template_read_complete` holds for the concrete world with 3-byte fragments -/
example : ∃ w' conn' k, readTemplate hookAll 0x123 tmpl.defWords TMPL_FUEL (worldT [3]) 0 [] = (w', .ok (templateData tmpl)) ∧
    ldr_Healthy w' 4097 [238, 255, 192, 0] conn' ∧ conn'.size = Drv.Ex.conn.size ∧ lo_SameDrv (worldT [3]).drv w'.drv ∧
    (∃ frms, w'.net.sent = (worldT [3]).net.sent ++ frms) ∧
    w'.net.target.ext = { (worldT [3]).net.target.ext with logix := some { stateT [3] with ctr := (stateT [3]).ctr + k } } :=
  template_read_complete (worldT [3]) 4097 [238, 255, 192, 0] Drv.Ex.conn (stateT [3]) tmpl 0x123 TMPL_FUEL healthyT3
    (by rfl) (by rfl) (by decide) (by decide) (by decide) (by decide)

/-- … of `template_read_schedule_independent`: fragments of 3 bytes and the unfragmented read give the same bytes -/
example : (readTemplate hookAll 0x123 tmpl.defWords TMPL_FUEL (worldT [3]) 0 []).2 = .ok (templateData tmpl) ∧
    (readTemplate hookAll 0x123 tmpl.defWords TMPL_FUEL (worldT []) 0 []).2 =
      (readTemplate hookAll 0x123 tmpl.defWords TMPL_FUEL (worldT [3]) 0 []).2 :=
  template_read_schedule_independent (worldT [3]) (worldT []) 4097 4097 [238, 255, 192, 0] [238, 255, 192, 0]
    Drv.Ex.conn Drv.Ex.conn (stateT [3]) (stateT []) tmpl 0x123 TMPL_FUEL TMPL_FUEL healthyT3 (by rfl) healthyT0 (by rfl)
    (by rfl) (by rfl) (by decide) (by decide) (by decide) (by decide) (by decide) (by decide)

/-- … and of `template_upload_parsed`: attributes, definition bytes and the parsed template "MyT" -/
example : ∃ s1 w2 pt,
    getStructureMakeup hookAll { w := worldT [3], l := {} } 0x123 = (s1, .ok (lo_attrsOf tmpl)) ∧
    readTemplate hookAll 0x123 (lo_attrsOf tmpl).objectDefinitionSize TMPL_FUEL s1.w 0 [] = (w2, .ok (templateData tmpl)) ∧
    Up.parseTemplate (lo_attrsOf tmpl).memberCount 0x8123 (templateData tmpl) = .ok pt ∧
    pt.name = some (Opn.nm "MyT") ∧ pt.attributes = [Opn.nm "LEN", Opn.nm "DATA"] := by
  obtain ⟨s1, w2, _, _, pt, h1, h2, h3, h4, _, _, h7, _⟩ :=
    template_upload_parsed { w := worldT [3], l := {} } 4097 [238, 255, 192, 0] Drv.Ex.conn (stateT [3]) tmpl 0x123 0x8123
      [77, 121, 84] [110, 0xC8] healthyT3 (by rfl) (by rfl) (by decide) (by decide) (by rfl) (by decide) (by decide) (by decide)
      (by decide) (by unfold Up.WfTemplate Up.WfMember Up.Ident; decide) (by decide)
  exact ⟨s1, w2, pt, h1, h2, h3, by rw [h4]; decide, by rw [h7]; decide⟩

/-! #### `_create_tag` and `get_tag_list` for the elementary project -/

/-- `arr` is INT[5]: data type, dimensions, instance id, external access "Read Only", not an alias -/
example : ∃ info, Drv.createTag (proj []) s2 = some info ∧
    createTag hookAll ({ w := world [], l := {} } : St Ext) (Up.recOfSymbol true s2) =
      ({ w := world [], l := {} }, .ok (info, lo_metaOf true s2)) ∧
    info.core.dataTypeName = Opn.nm "INT" ∧ info.core.ty = .arr (.fixed 5) (.int .int) ∧ info.core.dim = 1 ∧
    info.core.dimensions = [5, 0, 0] ∧ info.core.instanceId = some 7 ∧
    (lo_metaOf true s2).externalAccess = Opn.nm "Read Only" ∧ (lo_metaOf true s2).alias = false := by
  obtain ⟨info, h1, h2, _, h4, h5, h6, h7, h8, _⟩ :=
    create_tag_atomic_spec hookAll ({ w := world [], l := {} } : St Ext) (proj []) s2 true (Opn.nm "INT") (.int .int) (by decide) rfl
  exact ⟨info, h1, h2, h4, by rw [h5]; rfl, h6, h7, h8, by decide, by decide⟩

/-- a driver state whose `_info` says firmware revision 32 (what `get_plc_info` stored): external access is requested -/
def l32 : LDrv := { info := { plc := [(Opn.nm "revision", .dict [(Opn.nm "major", .int 32), (Opn.nm "minor", .int 11)])] } }

/-- the tag database of the project -/
def db : TagDb := (tagDbOf (proj []) false).getD []

#guard revisionMajor l32.info == 32
#guard db.map (·.1) == [Opn.nm "abc", Opn.nm "arr", Opn.nm "flag"]
#guard (match getTagList hookAll (world [1]) l32 false with
        | (w', l', .ok ()) => l'.tags.map (·.1) == db.map (·.1) && l'.tags.map (·.2.core.dataTypeName) == db.map (·.2.core.dataTypeName) &&
            l'.metas.map (·.2.instanceId) == [3, 7, 12] && w'.net.sent.length == (world [1]).net.sent.length + 3
        | _ => false)

theorem atomic (sched : List Nat) : ∀ s ∈ (state sched).proj.controller,
    K.keepSymbol s.name s.symbolType = true → s.symbolType / 32768 % 2 = 0 := by
  intro s hs _
  simp only [state, proj, List.mem_cons, List.not_mem_nil, or_false] at hs
  rcases hs with rfl | rfl | rfl <;> decide

/-- every hypothesis of `open_tags_atomic_project` holds for the concrete world, with one symbol per page … -/
example : ∃ w' l', getTagList hookAll (world [1]) l32 false = (w', l', .ok ()) ∧ l'.tags = db ∧
    l'.metas = metasOfList ([s1, s2, s3].map fun s => (s.name, lo_metaOf true s)) := by
  obtain ⟨w', l', _, _, h1, h2, h3, _⟩ :=
    open_tags_atomic_project (world [1]) l32 4097 [238, 255, 192, 0] Drv.Ex.conn (state [1]) db healthy1 (by rfl)
      (fun _ => by decide) (wf [1]) (sorted [1]) (by decide) (by decide) (atomic [1]) (by rfl)
  exact ⟨w', l', h1, h2, h3⟩

/-- … and with the default schedule: the same tag database -/
example : ∃ w' l', getTagList hookAll (world []) l32 false = (w', l', .ok ()) ∧ l'.tags = db ∧
    l'.metas = metasOfList ([s1, s2, s3].map fun s => (s.name, lo_metaOf true s)) := by
  obtain ⟨w', l', _, _, h1, h2, h3, _⟩ :=
    open_tags_atomic_project (world []) l32 4097 [238, 255, 192, 0] Drv.Ex.conn (state []) db healthy0 (by rfl)
      (fun _ => by decide) (wf []) (sorted []) (by decide) (by decide) (atomic []) (by rfl)
  exact ⟨w', l', h1, h2, h3⟩


/-! #### a structure tag: `get_tag_list` with a template upload, page schedule `[1]`, fragment schedule `[3]` -/

/-- `udt` of type `MyT` (template 0x123), `udt2` of the same type (served from the cache) -/
def u1 : Symbol := { s1 with inst := 20, name := Opn.nm "udt", symbolType := 0x8123, mem := List.replicate 12 0 }
def u2 : Symbol := { s1 with inst := 21, name := Opn.nm "udt2", symbolType := 0x8123, mem := List.replicate 12 0 }
def projU (pages frags : List Nat) : Project :=
  { templates := [tmpl], controller := [s1, s2, s3, u1, u2], programs := [], pageSchedule := pages, tmplSchedule := frags }
def stateU (pages frags : List Nat) : LState := { proj := projU pages frags }
def worldU0 (pages frags : List Nat) : Cli.World Ext :=
  { drv := {}, net := { target := { base := Drv.Ex.base, ext := { logix := some (stateU pages frags) } } } }
def worldU (pages frags : List Nat) : Cli.World Ext :=
  (Cli.ensureForwardOpen hookAll Cli.FUEL (Cli.openDrv hookAll (worldU0 pages frags) [1, 2, 3, 4, 5, 6, 7, 8]).1).1
def dbU : TagDb := (tagDbOf (projU [] []) false).getD []

#guard dbU.map (·.1) == [Opn.nm "abc", Opn.nm "arr", Opn.nm "flag", Opn.nm "udt", Opn.nm "udt2"]
#guard dbU.map (·.2.core.dataTypeName) == [Opn.nm "DINT", Opn.nm "INT", Opn.nm "BOOL", Opn.nm "MyT", Opn.nm "MyT"]
-- 5 pages + 1 attribute request + 17 fragments, against 1 page + 1 + 1: the same tags
#guard (match getTagList hookAll (worldU [1] [3]) l32 false with
        | (w', l', .ok ()) => l'.tags.map (·.1) == dbU.map (·.1) &&
            l'.tags.map (·.2.core.dataTypeName) == dbU.map (·.2.core.dataTypeName) &&
            l'.dataTypes == [Opn.nm "MyT"] && w'.net.sent.length == (worldU [1] [3]).net.sent.length + 23
        | _ => false)
#guard (match getTagList hookAll (worldU [] []) l32 false with
        | (w', l', .ok ()) => l'.tags.map (·.1) == dbU.map (·.1) && w'.net.sent.length == (worldU [] []).net.sent.length + 3
        | _ => false)

theorem healthyU : ldr_Healthy (worldU [1] [3]) 4097 [238, 255, 192, 0] Drv.Ex.conn :=
  ⟨by decide +kernel, by decide +kernel, by decide +kernel, by decide +kernel, by decide +kernel, by decide,
   by decide +kernel, by decide +kernel, by decide, by decide +kernel, by decide +kernel, by decide +kernel⟩

theorem healthyU0 : ldr_Healthy (worldU [] []) 4097 [238, 255, 192, 0] Drv.Ex.conn :=
  ⟨by decide +kernel, by decide +kernel, by decide +kernel, by decide +kernel, by decide +kernel, by decide,
   by decide +kernel, by decide +kernel, by decide, by decide +kernel, by decide +kernel, by decide +kernel⟩

theorem flatT (pages frags : List Nat) : lo_FlatTemplate (stateU pages frags).proj 0x123 :=
  ⟨tmpl, [77, 121, 84], [110, 0xC8], by rfl, by unfold Up.WfTemplate Up.WfMember Up.Ident; decide,
   by decide, by decide, by decide, by decide, by decide⟩

theorem memU (pages frags : List Nat) (s : Symbol) (hs : s ∈ (stateU pages frags).proj.controller) :
    s = s1 ∨ s = s2 ∨ s = s3 ∨ s = u1 ∨ s = u2 := by
  simpa [stateU, projU] using hs

theorem wfU (pages frags : List Nat) : ∀ s ∈ (stateU pages frags).proj.controller, Up.WfSymbol s := by
  intro s hs
  rcases memU pages frags s hs with rfl | rfl | rfl | rfl | rfl <;> (unfold Up.WfSymbol; decide)

theorem flatU (pages frags : List Nat) : ∀ s ∈ (stateU pages frags).proj.controller,
    K.keepSymbol s.name s.symbolType = true → s.symbolType / 32768 % 2 = 1 →
    lo_FlatTemplate (stateU pages frags).proj (s.symbolType % 4096) := by
  intro s hs _ hst
  rcases memU pages frags s hs with rfl | rfl | rfl | rfl | rfl
  · exact absurd hst (by decide)
  · exact absurd hst (by decide)
  · exact absurd hst (by decide)
  · exact flatT pages frags
  · exact flatT pages frags

/-- every hypothesis of `open_tags_flat_project` holds for the concrete world: one symbol per page, 3-byte fragments … -/
example : ∃ w' l', getTagList hookAll (worldU [1] [3]) l32 false = (w', l', .ok ()) ∧ l'.tags = dbU := by
  obtain ⟨w', l', _, _, h1, h2, _⟩ :=
    open_tags_flat_project (worldU [1] [3]) l32 4097 [238, 255, 192, 0] Drv.Ex.conn (stateU [1] [3]) dbU healthyU (by rfl)
      (fun _ => by decide) (wfU [1] [3]) (by simp only [stateU, projU]; decide) (by decide) (by decide) (flatU [1] [3]) (by rfl)
  exact ⟨w', l', h1, h2⟩

/-- … and with the default schedules: the same tag database -/
example : ∃ w' l', getTagList hookAll (worldU [] []) l32 false = (w', l', .ok ()) ∧ l'.tags = dbU := by
  obtain ⟨w', l', _, _, h1, h2, _⟩ :=
    open_tags_flat_project (worldU [] []) l32 4097 [238, 255, 192, 0] Drv.Ex.conn (stateU [] []) dbU healthyU0 (by rfl)
      (fun _ => by decide) (wfU [] []) (by simp only [stateU, projU]; decide) (by decide) (by decide) (flatU [] []) (by rfl)
  exact ⟨w', l', h1, h2⟩


end Ex

end Pycomm.Lgx.Opn
