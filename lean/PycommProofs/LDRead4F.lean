/-
  LogixDriver.read of a member path that ends at a BOOL member (a bit of a hidden host byte of the structure):
    `ldr4_read_levels_core`     `read` of a dotted path of levels, given where the controller resolves it and what it holds
    `ldr4_resolveMembers_tail`  `resolveMembers` follows a walk and continues with the remaining segments
    `ldr4_resolve_path_bool`    the walk followed by the name of a BOOL member: the bit location
    `ldr4_read_path_bool`       `read("base[i].m1. … .flag")`: the bit of the host byte
-/
import PycommProofs.LDRead4C
namespace Pycomm.Lgx.Drv
open Pycomm Pycomm.Tgt Pycomm.Path Pycomm.Reply Pycomm.Encap Pycomm.Lgx Pycomm.Lgx.E2E

/-- `read` of a dotted member path `l0.rest…` (levels with optional indexes) of a controller-scope structure tag, for any
    location the controller resolves the symbolic path to and any bytes it holds there: the Tag carries what
    `parse_read_reply` makes of type marker + bytes -/
theorem ldr4_read_levels_core (cfg : Cfg) (w : Cli.World Ext) (sess : Nat) (cidb : Bytes) (conn : Conn)
    (st : LState) (l0 : TagLevel) (rest : List TagLevel) (info leaf : TagInfo) (loc : Loc) (bs : Bytes) (v : PyVal) (dt : Name)
    (hw : ldr_Healthy w sess cidb conn) (hlogix : w.net.target.ext.logix = some st)
    (hl0 : ldr2_Level l0) (hrest : ∀ l ∈ rest, ldr2_Level l) (hne : rest ≠ [])
    (hnum : ∀ l, rest.getLast? = some l → PyStr.isDigit l.name = false)
    (hsize : ldr4_pathSize (l0 :: rest) ≤ 500)
    (hget : cfg.tags.get? l0.name = some info) (hk : info.core.tagType = .struct)
    (hpath : ldr4_InfoPath info.members (rest.map (·.name)) leaf)
    (hnd : leaf.core.dataTypeName ≠ nm "DWORD") (hinst : leaf.core.instanceId = none)
    (hr : resolve st.proj ((l0 :: rest).flatMap levelSegs) = .ok loc) (hav : 1 ≤ loc.avail)
    (hbts : readBytes st.proj loc 1 = some bs)
    (hreply : parseReadReply (typeBytes st.proj loc.ty ++ bs) leaf 1 = .ok (v, dt)) (hvn : v ≠ .none)
    (hC : tagReturnSize leaf 1 + ldr4_pathSize (l0 :: rest) + 8 ≤ w.drv.connectionSize)
    (hT : bs.length + ldr4_pathSize (l0 :: rest) + 10 ≤ conn.size) :
    ∃ w' frm, read hookAll cfg w [renderTag (l0 :: rest)] =
        (w', .ok [{ tag := renderTag (l0 :: rest), value := v, type := some dt, error := none }]) ∧
      w'.drv = w.drv.nextSeq.2 ∧ w'.net.sent = w.net.sent ++ [frm] ∧
      w'.net.target.ext = { w.net.target.ext with logix := some { st with ctr := st.ctr + 1 } } ∧
      ldr_Healthy w' sess cidb { conn with lastSeq := some w.drv.nextSeq.1 } := by
  have hndw : isDword leaf = false := by
    have : (leaf.core.dataTypeName == nm "DWORD") = false := by simpa using hnd
    simp [isDword, this]
  have hall : ∀ l ∈ l0 :: rest, ldr2_Level l := by
    intro l hl
    rcases List.mem_cons.1 hl with rfl | hl
    · exact hl0
    · exact hrest l hl
  have hparse := ldr4_parse_path cfg.tags false 0 l0 rest info leaf hl0 hrest hne hnum hget hk hpath hndw
  obtain ⟨path, hpathOk, hpl, hden⟩ := ldr4_requestPath cfg (l0 :: rest) leaf (by simp) hall (by omega) hinst
  have htb : (typeBytes st.proj loc.ty).length ≤ 4 := by
    cases loc.ty <;> simp [typeBytes, le, RT.leBytes_length]
  obtain ⟨w', frm, hread, hrest'⟩ := ldr3_read_single cfg w sess cidb conn st (renderTag (l0 :: rest)) _ leaf path
    _ loc 1 bs v dt hw hlogix hparse rfl rfl rfl rfl hpathOk hden (by omega) hr
    ⟨Nat.le_refl 1, hav, by omega⟩ hbts hreply (by omega) (by omega) (by omega)
  refine ⟨w', frm, ?_, hrest'⟩
  rw [hread]
  have hresult := ldr_readResult
    { requestId := 0, requestTag := renderTag (l0 :: rest), userTag := renderTag (l0 :: rest),
      plcTag := renderTag (l0 :: rest), bit := none, elements := 1, info := some leaf, boolElements := none } leaf
    { tag := renderTag (l0 :: rest), value := v, type := some dt, error := none }
    rfl rfl rfl hnd hvn rfl
  dsimp only at hresult ⊢
  rw [hresult]

/-- (d, addressing) `resolveMembers` follows a walk and goes on with the segments behind it (a name, or nothing) -/
theorem ldr4_resolveMembers_tail (p : Project) (tail : List PSeg) (htail : tail = [] ∨ ∃ n r, tail = PSeg.symbol n :: r) :
    ∀ (hops : List ldr4_Hop) (cur final : ElTy) (loc : Loc) (k : Nat),
    ldr4_Chain p cur hops final → loc.ty = cur →
    resolveMembers p (hops.length + k) loc (ldr4_segs hops ++ tail) =
      resolveMembers p k { loc with offset := loc.offset + ldr4_offset hops, ty := final, avail := ldr4_avail loc.avail hops } tail
  | [], cur, final, loc, k, hc, hty => by
    simp only [ldr4_Chain] at hc
    subst hc
    obtain ⟨si, sc, o, ty, av⟩ := loc
    simp only at hty
    subst hty
    simp [ldr4_segs, ldr4_offset, ldr4_avail]
  | h :: rest, cur, final, loc, k, hc, hty => by
    simp only [ldr4_Chain] at hc
    obtain ⟨tid, rfl, hok, hrest⟩ := hc
    obtain ⟨si, sc, o, ty, av⟩ := loc
    simp only at hty
    subst hty
    have hfm := ldr3_find_member h.tm h.m hok.mem hok.bytes hok.uniq
    have hnb : (elTyOfWord h.m.typeWord == ElTy.atomic 0xC1) = false := by
      simpa using hok.notBool
    have hhead : ldr4_segs rest ++ tail = [] ∨ ∃ n r, ldr4_segs rest ++ tail = PSeg.symbol n :: r := by
      rcases ldr4_segs_head rest with e | ⟨n, r, e⟩
      · rw [e, List.nil_append]; exact htail
      · exact Or.inr ⟨n, r ++ tail, by rw [e]; rfl⟩
    have hti := ldr4_takeIndices h.idx (ldr4_segs rest ++ tail) hhead
    have hfuel : (h :: rest).length + k = (rest.length + k) + 1 := by simp only [List.length_cons]; omega
    rw [ldr4_segs_cons, hfuel]
    simp only [List.cons_append, List.append_assoc]
    rcases hok.index with hidx | ⟨i, hidx, hi⟩
    · by_cases h0 : h.m.info = 0
      · have ih := ldr4_resolveMembers_tail p tail htail rest h.ty final
          { symInst := si, scope := sc, offset := o + h.m.offset, ty := elTyOfWord h.m.typeWord, avail := 1 } k hrest rfl
        rw [hidx] at hti
        simp only [List.map_nil, List.nil_append] at hti
        simp only [hidx, List.map_nil, List.nil_append, resolveMembers, hok.tmpl, hfm, hnb, Bool.false_eq_true, if_false,
          hti, hok.size, h0, if_true, ne_eq, not_true_eq_false]
        rw [ih]
        simp only [ldr4_offset, ldr4_avail, List.map_cons, List.sum_cons, ldr4_Hop.off, ldr4_Hop.avail, hidx,
          List.headD_nil, h0, if_true, Nat.zero_mul, Nat.add_zero, Nat.add_assoc]
      · have ih := ldr4_resolveMembers_tail p tail htail rest h.ty final
          { symInst := si, scope := sc, offset := o + h.m.offset, ty := elTyOfWord h.m.typeWord, avail := h.m.info } k hrest rfl
        rw [hidx] at hti
        simp only [List.map_nil, List.nil_append] at hti
        simp only [hidx, List.map_nil, List.nil_append, resolveMembers, hok.tmpl, hfm, hnb, Bool.false_eq_true, if_false,
          hti, hok.size, h0]
        rw [ih]
        simp only [ldr4_offset, ldr4_avail, List.map_cons, List.sum_cons, ldr4_Hop.off, ldr4_Hop.avail, hidx,
          List.headD_nil, h0, if_false, Nat.zero_mul, Nat.add_zero, Nat.add_assoc, Nat.sub_zero]
    · have h0 : h.m.info ≠ 0 := by omega
      have hge : ¬ (i ≥ h.m.info) := by omega
      have ih := ldr4_resolveMembers_tail p tail htail rest h.ty final
        { symInst := si, scope := sc, offset := o + h.m.offset + i * h.sz, ty := elTyOfWord h.m.typeWord,
          avail := h.m.info - i } k hrest rfl
      rw [hidx] at hti
      simp only [List.map_cons, List.map_nil, List.cons_append, List.nil_append] at hti
      simp only [hidx, List.map_cons, List.map_nil, List.cons_append, List.nil_append, resolveMembers, hok.tmpl, hfm, hnb,
        Bool.false_eq_true, if_false, hti, hok.size, h0, hge]
      rw [ih]
      simp only [ldr4_offset, ldr4_avail, List.map_cons, List.sum_cons, ldr4_Hop.off, ldr4_Hop.avail, hidx,
        List.headD_cons, h0, if_false, Nat.add_assoc]

/-- the location of a BOOL member `mb` behind a walk: bit `mb.info` of the byte at the accumulated offset + `mb.offset` -/
def ldr4_locBool (s : Symbol) (off : Nat) (mb : MemberDef) : Loc :=
  { symInst := s.inst, scope := none, offset := off + mb.offset, ty := .boolBit mb.info, avail := 1 }

/-- (d, addressing) the symbolic path of a walk followed by the name of a BOOL member of the structure definition the
    walk ends at -/
theorem ldr4_resolve_path_bool (p : Project) (s : Symbol) (tid0 : Nat) (tm0 : Template) (idx0 : List Nat) (li : Nat)
    (hops : List ldr4_Hop) (tidL : Nat) (tmL : Template) (mb : MemberDef)
    (hid : PlainIdent s.name) (hs : s ∈ p.controller)
    (hbytes : ∀ s' ∈ p.controller, ∀ ch ∈ s'.name, ch < 256)
    (huniqN : ∀ s' ∈ p.controller, s'.name = s.name → s' = s)
    (hty : elTyOfWord s.symbolType = .struct tid0) (htm0 : p.template? tid0 = some tm0) (hmem : s.mem ≠ [])
    (hidx : (idx0 = [] ∧ li = 0) ∨ (idx0 ≠ [] ∧ linearIndex s.dims idx0 = some li))
    (hchain : ldr4_Chain p (.struct tid0) hops (.struct tidL)) (htmL : p.template? tidL = some tmL)
    (hmb : mb ∈ tmL.members) (hmbbytes : ∀ m' ∈ tmL.members, ∀ ch ∈ m'.name, ch < 256)
    (hmbuniq : ∀ m' ∈ tmL.members, m'.name = mb.name → m' = mb)
    (hmbty : elTyOfWord mb.typeWord = .atomic 0xC1) :
    resolve p (levelSegs ⟨s.name, idx0⟩ ++ (ldr4_segs hops ++ [PSeg.symbol (mb.name.map UInt8.ofNat)])) =
      .ok (ldr4_locBool s (li * tm0.size + ldr4_offset hops) mb) := by
  have hme : s.mem.isEmpty = false := by
    cases h : s.mem with
    | nil => exact absurd h hmem
    | cons _ _ => rfl
  have hel : p.elSize (.struct tid0) = some tm0.size := by simp [Project.elSize, htm0]
  have htail : [PSeg.symbol (mb.name.map UInt8.ofNat)] = [] ∨
      ∃ n r, [PSeg.symbol (mb.name.map UInt8.ofNat)] = PSeg.symbol n :: r := Or.inr ⟨_, _, rfl⟩
  have hhead : ldr4_segs hops ++ [PSeg.symbol (mb.name.map UInt8.ofNat)] = [] ∨
      ∃ n r, ldr4_segs hops ++ [PSeg.symbol (mb.name.map UInt8.ofNat)] = PSeg.symbol n :: r := by
    rcases ldr4_segs_head hops with e | ⟨n, r, e⟩
    · rw [e, List.nil_append]; exact htail
    · exact Or.inr ⟨n, r ++ _, by rw [e]; rfl⟩
  have hti := ldr4_takeIndices idx0 _ hhead
  have hfm := ldr3_find_member tmL mb hmb hmbbytes hmbuniq
  have hb : (elTyOfWord mb.typeWord == ElTy.atomic 0xC1) = true := by rw [hmbty]; rfl
  -- the fuel `resolve` passes covers the walk and the last name
  obtain ⟨k, hk⟩ : ∃ k, (ldr4_segs hops ++ [PSeg.symbol (mb.name.map UInt8.ofNat)]).length + 1 = hops.length + (k + 2) := by
    have := ldr4_segs_length hops
    exact ⟨(ldr4_segs hops).length - hops.length, by simp only [List.length_append, List.length_singleton]; omega⟩
  have hlast : ∀ (loc : Loc), loc.ty = .struct tidL →
      resolveMembers p (k + 2) loc [PSeg.symbol (mb.name.map UInt8.ofNat)] =
        .ok { loc with offset := loc.offset + mb.offset, ty := .boolBit mb.info, avail := 1 } := by
    intro loc hl
    obtain ⟨si, sc, o, ty, av⟩ := loc
    simp only at hl
    subst hl
    simp only [resolveMembers, htmL, hfm, hb, if_true]
  unfold resolve
  rcases hidx with ⟨h0, hli⟩ | ⟨h0, hli⟩
  · subst h0 hli
    have hrm := ldr4_resolveMembers_tail p _ htail hops (.struct tid0) (.struct tidL)
      { symInst := s.inst, scope := none, offset := 0 * tm0.size, ty := .struct tid0, avail := dimsProduct s.dims } (k + 2)
      hchain rfl
    simp only [List.map_nil, List.nil_append] at hti
    simp only [levelSegs, List.map_nil, List.cons_append, List.nil_append, ldr_not_programName s.name hid,
      Bool.false_eq_true, if_false, Project.findSymbol, ldr_find_name p s hs hbytes huniqN, Option.map_some, hme, hty,
      hel, hti, if_true, hk, hrm]
    rw [hlast _ rfl]
    simp [ldr4_locBool]
  · have hrm := ldr4_resolveMembers_tail p _ htail hops (.struct tid0) (.struct tidL)
      { symInst := s.inst, scope := none, offset := li * tm0.size, ty := .struct tid0, avail := dimsProduct s.dims - li }
      (k + 2) hchain rfl
    simp only [levelSegs, List.cons_append, ldr_not_programName s.name hid,
      Bool.false_eq_true, if_false, Project.findSymbol, ldr_find_name p s hs hbytes huniqN, Option.map_some, hme, hty,
      hel, hti, h0, hli, hk, hrm]
    rw [hlast _ rfl]
    simp [ldr4_locBool]

/-- what the `internal_tags` say about a BOOL member: an atomic entry of type BOOL; no instance id -/
structure ldr4_BoolOf (leaf : TagInfo) : Prop where
  kind : leaf.core.tagType = .atomic
  typeName : leaf.core.dataTypeName = nm "BOOL"
  ty : leaf.core.ty = .bool
  instanceId : leaf.core.instanceId = none
  struct : leaf.core.struct = none

/-- the bit the controller reports for a BOOL member -/
def ldr4_bitOf (mem : Bytes) (off bit : Nat) : Bool := (mem.getD off 0).toNat / 2 ^ bit % 2 = 1

/-- (d, memory) the controller reports the bit as `FF` / `00` -/
theorem ldr4_readBytes_bool (p : Project) (s : Symbol) (off : Nat) (mb : MemberDef) (hs : s ∈ p.controller)
    (huniqI : ∀ s' ∈ p.controller, s'.inst = s.inst → s' = s) (hin : off + mb.offset < s.mem.length) :
    readBytes p (ldr4_locBool s off mb) 1 = some [if ldr4_bitOf s.mem (off + mb.offset) mb.info then 0xFF else 0x00] := by
  unfold readBytes
  simp only [Project.symbolOf, Project.findSymbol, ldr4_locBool, ldr_find_inst p s hs huniqI, Project.elSize, hin,
    if_true, ldr4_bitOf]
  by_cases hb : (s.mem.getD (off + mb.offset) 0).toNat / 2 ^ mb.info % 2 = 1
  · simp
  · simp

/-- (e) `parse_read_reply` of a BOOL reply -/
theorem ldr4_parseReadReply_bool (leaf : TagInfo) (hleaf : ldr4_BoolOf leaf) (b : Bool) :
    parseReadReply (le 2 0xC1 ++ [if b then (0xFF : UInt8) else 0x00]) leaf 1 = .ok (.bool b, nm "BOOL") := by
  have hdec : decode .bool [if b then (0xFF : UInt8) else 0x00] = .ok (.bool b, []) := by
    cases b <;> rfl
  exact ldr_parseReadReply leaf 0xC1 .bool (nm "BOOL") _ [] _ hleaf.ty hleaf.typeName (by decide) rfl rfl hdec

theorem ldr4_returnSize_bool (leaf : TagInfo) (hleaf : ldr4_BoolOf leaf) : tagReturnSize leaf 1 = 1 := by
  have : typeEntryOfName (nm "BOOL") = some (nm "BOOL", 0xC1, 1) := by decide
  simp [tagReturnSize, hleaf.struct, hleaf.typeName, this]

/-- `read` of a member path that ends at a BOOL member `mb` of the structure definition the walk `hops` leads to
    (`hops = []`: a BOOL member of the tag's own definition): the Tag carries bit `mb.info` of the byte at the
    accumulated offset + `mb.offset` of the TAG's memory, typed `BOOL` -/
theorem ldr4_read_path_bool (cfg : Cfg) (w : Cli.World Ext) (sess : Nat) (cidb : Bytes) (conn : Conn)
    (st : LState) (s : Symbol) (tid0 : Nat) (tm0 : Template) (idx0 : List Nat) (li : Nat) (hops : List ldr4_Hop)
    (tidL : Nat) (tmL : Template) (mb : MemberDef) (info leaf : TagInfo)
    (hw : ldr_Healthy w sess cidb conn) (hlogix : w.net.target.ext.logix = some st)
    (hs : s ∈ st.proj.controller)
    (hbytes : ∀ s' ∈ st.proj.controller, ∀ ch ∈ s'.name, ch < 256)
    (huniqN : ∀ s' ∈ st.proj.controller, s'.name = s.name → s' = s)
    (huniqI : ∀ s' ∈ st.proj.controller, s'.inst = s.inst → s' = s)
    (hl0 : ldr2_Level ⟨s.name, idx0⟩)
    (hty : elTyOfWord s.symbolType = .struct tid0) (htm0 : st.proj.template? tid0 = some tm0)
    (hidx : (idx0 = [] ∧ li = 0) ∨ (idx0 ≠ [] ∧ linearIndex s.dims idx0 = some li))
    (hchain : ldr4_Chain st.proj (.struct tid0) hops (.struct tidL)) (htmL : st.proj.template? tidL = some tmL)
    (hlv : ∀ h ∈ hops, ldr2_Level h.level)
    (hmb : mb ∈ tmL.members) (hmbbytes : ∀ m' ∈ tmL.members, ∀ ch ∈ m'.name, ch < 256)
    (hmbuniq : ∀ m' ∈ tmL.members, m'.name = mb.name → m' = mb)
    (hmbid : PlainIdent mb.name) (hnum : PyStr.isDigit mb.name = false)
    (hmbty : elTyOfWord mb.typeWord = .atomic 0xC1)
    (hsize : ldr4_pathSize (ldr4_levels s.name idx0 hops ++ [⟨mb.name, []⟩]) ≤ 500)
    (hin : li * tm0.size + ldr4_offset hops + mb.offset < s.mem.length)
    (hget : cfg.tags.get? s.name = some info) (hk : info.core.tagType = .struct)
    (hpath : ldr4_InfoPath info.members (hops.map (·.m.name) ++ [mb.name]) leaf) (hleaf : ldr4_BoolOf leaf)
    (hC : ldr4_pathSize (ldr4_levels s.name idx0 hops ++ [⟨mb.name, []⟩]) + 9 ≤ w.drv.connectionSize)
    (hT : ldr4_pathSize (ldr4_levels s.name idx0 hops ++ [⟨mb.name, []⟩]) + 11 ≤ conn.size) :
    ∃ w' frm, read hookAll cfg w [renderTag (ldr4_levels s.name idx0 hops ++ [⟨mb.name, []⟩])] =
        (w', .ok [{ tag := renderTag (ldr4_levels s.name idx0 hops ++ [⟨mb.name, []⟩]),
                    value := .bool (ldr4_bitOf s.mem (li * tm0.size + ldr4_offset hops + mb.offset) mb.info),
                    type := some (nm "BOOL"), error := none }]) ∧
      w'.drv = w.drv.nextSeq.2 ∧ w'.net.sent = w.net.sent ++ [frm] ∧
      w'.net.target.ext = { w.net.target.ext with logix := some { st with ctr := st.ctr + 1 } } ∧
      ldr_Healthy w' sess cidb { conn with lastSeq := some w.drv.nextSeq.1 } := by
  have hmem : s.mem ≠ [] := by
    intro h; rw [h, List.length_nil] at hin; omega
  have hlevels : ldr4_levels s.name idx0 hops ++ [⟨mb.name, []⟩] =
      (⟨s.name, idx0⟩ : TagLevel) :: (hops.map (·.level) ++ [⟨mb.name, []⟩]) := by simp [ldr4_levels]
  have hrestlv : ∀ l ∈ hops.map (·.level) ++ [(⟨mb.name, []⟩ : TagLevel)], ldr2_Level l := by
    intro l hl
    rcases List.mem_append.1 hl with hl | hl
    · obtain ⟨h, hh, rfl⟩ := List.mem_map.1 hl
      exact hlv h hh
    · simp only [List.mem_singleton] at hl
      subst hl
      exact ⟨hmbid, by simp, by simp⟩
  have hr := ldr4_resolve_path_bool st.proj s tid0 tm0 idx0 li hops tidL tmL mb hl0.1 hs hbytes huniqN hty htm0 hmem hidx hchain
    htmL hmb hmbbytes hmbuniq hmbty
  have hsegs : ((⟨s.name, idx0⟩ : TagLevel) :: (hops.map (·.level) ++ [⟨mb.name, []⟩])).flatMap levelSegs =
      levelSegs ⟨s.name, idx0⟩ ++ (ldr4_segs hops ++ [PSeg.symbol (mb.name.map UInt8.ofNat)]) := by
    simp [ldr4_segs, List.flatMap_map, levelSegs]
  have hbts := ldr4_readBytes_bool st.proj s (li * tm0.size + ldr4_offset hops) mb hs huniqI hin
  have hreply := ldr4_parseReadReply_bool leaf hleaf (ldr4_bitOf s.mem (li * tm0.size + ldr4_offset hops + mb.offset) mb.info)
  have hrs := ldr4_returnSize_bool leaf hleaf
  have htyb : typeBytes st.proj (ldr4_locBool s (li * tm0.size + ldr4_offset hops) mb).ty = le 2 0xC1 := rfl
  rw [hlevels] at hsize hC hT ⊢
  have hnum' : ∀ l, (hops.map (·.level) ++ [(⟨mb.name, []⟩ : TagLevel)]).getLast? = some l → PyStr.isDigit l.name = false := by
    intro l hl
    simp only [List.getLast?_append, List.getLast?_singleton, Option.some_or, Option.some.injEq] at hl
    subst hl
    exact hnum
  have hpath' : ldr4_InfoPath info.members ((hops.map (·.level) ++ [(⟨mb.name, []⟩ : TagLevel)]).map (·.name)) leaf := by
    simpa [ldr4_Hop.level, List.map_map, Function.comp_def] using hpath
  have hnd : leaf.core.dataTypeName ≠ nm "DWORD" := by rw [hleaf.typeName]; decide
  have hr' : resolve st.proj (((⟨s.name, idx0⟩ : TagLevel) :: (hops.map (·.level) ++ [⟨mb.name, []⟩])).flatMap levelSegs) =
      .ok (ldr4_locBool s (li * tm0.size + ldr4_offset hops) mb) := by rw [hsegs]; exact hr
  have hreply' : parseReadReply (typeBytes st.proj (ldr4_locBool s (li * tm0.size + ldr4_offset hops) mb).ty ++
      [if ldr4_bitOf s.mem (li * tm0.size + ldr4_offset hops + mb.offset) mb.info then 0xFF else 0x00]) leaf 1 =
      .ok (.bool (ldr4_bitOf s.mem (li * tm0.size + ldr4_offset hops + mb.offset) mb.info), nm "BOOL") := by
    rw [htyb]; exact hreply
  have key := ldr4_read_levels_core cfg w sess cidb conn st ⟨s.name, idx0⟩ (hops.map (·.level) ++ [⟨mb.name, []⟩]) info leaf
    (ldr4_locBool s (li * tm0.size + ldr4_offset hops) mb)
    [if ldr4_bitOf s.mem (li * tm0.size + ldr4_offset hops + mb.offset) mb.info then 0xFF else 0x00]
    (.bool (ldr4_bitOf s.mem (li * tm0.size + ldr4_offset hops + mb.offset) mb.info)) (nm "BOOL")
    hw hlogix hl0 hrestlv (by simp) hnum' hsize hget hk hpath' hnd hleaf.instanceId hr' (Nat.le_refl 1) hbts
    hreply' (by simp) (by rw [hrs]; omega) (by simp only [List.length_singleton]; omega)
  exact key

end Pycomm.Lgx.Drv
