/-
  The controller's write services on well-formed requests (helpers for LogixE2EWrite).
-/
import PycommProofs.LE2WBasic
import PycommProofs.LogixBitsProofs
namespace Pycomm.Lgx.E2E
open Pycomm Pycomm.Tgt Pycomm.Path Pycomm.Lgx Pycomm.Lgx.Cl

theorem leAt_mid (A B : Bytes) (w v k : Nat) (hk : A.length = k) (hv : v < 256 ^ w) : leAt (A ++ le w v ++ B) k w = v := by
  unfold leAt
  rw [List.append_assoc, RT.drop_append_len _ _ _ hk, RT.take_append_len _ _ _ (by exact RT.leBytes_length w v)]
  exact RT.leVal_leBytes w v hv

theorem le_length (w v : Nat) : (le w v).length = w := RT.leBytes_length w v

theorem typeBytes_length (p : Project) (ty : ElTy) :
    (typeBytes p ty).length = (match ty with | .struct _ => 4 | _ => 2) := by
  cases ty <;> simp [typeBytes, le_length]

theorem writeTag_plain (st : LState) (loc : Loc) (n sz : Nat) (value : Bytes) (s : Symbol)
    (hty : ∀ b, loc.ty ≠ .boolBit b)
    (hn : 1 ≤ n ∧ n ≤ loc.avail ∧ n < 65536)
    (hs : st.proj.symbolOf loc = some s) (hsz : st.proj.elSize loc.ty = some sz)
    (hlen : value.length = n * sz) (hmem : loc.offset + n * sz ≤ s.mem.length) :
    writeTag st loc (typeBytes st.proj loc.ty ++ le 2 n ++ value) false =
      ({ st with proj := written st.proj loc loc.offset value }, {}) := by
  have htl := typeBytes_length st.proj loc.ty
  generalize hT : typeBytes st.proj loc.ty = T at htl ⊢
  have hd : (T ++ le 2 n ++ value).length = T.length + 2 + value.length := by
    simp only [List.length_append, le_length]
  have h1 : (T ++ le 2 n ++ value).take T.length = T := by
    rw [List.append_assoc, List.take_left']; rfl
  have h2 : leAt (T ++ le 2 n ++ value) T.length 2 = n := leAt_mid T value 2 n _ rfl (by omega)
  have h3 : (T ++ le 2 n ++ value).drop (T.length + 2 + 0) = value := by
    rw [RT.drop_append_len]; simp [le_length]
  unfold writeTag
  simp only [hs, hsz]
  cases hc : loc.ty with
  | boolBit b => exact absurd hc (hty b)
  | atomic c =>
    rw [hc] at htl hT
    replace htl : T.length = 2 := htl
    rw [htl] at h1 h2 h3 hd
    simp only [Bool.false_eq_true, if_false, h1, h2, h3, hd, hT]
    rw [if_neg (by omega), if_neg (by simp), if_neg (by omega), if_neg (by omega), if_neg (by simp [hlen]), if_neg (by simp),
      if_neg (by omega)]
    rfl
  | struct t =>
    rw [hc] at htl hT
    replace htl : T.length = 4 := htl
    rw [htl] at h1 h2 h3 hd
    simp only [Bool.false_eq_true, if_false, h1, h2, h3, hd, hT]
    rw [if_neg (by omega), if_neg (by simp), if_neg (by omega), if_neg (by omega), if_neg (by simp [hlen]), if_neg (by simp),
      if_neg (by omega)]
    rfl

theorem writeTag_frag (st : LState) (loc : Loc) (n sz off : Nat) (seg : Bytes) (s : Symbol)
    (hty : ∀ b, loc.ty ≠ .boolBit b)
    (hn : 1 ≤ n ∧ n ≤ loc.avail ∧ n < 65536)
    (hs : st.proj.symbolOf loc = some s) (hsz : st.proj.elSize loc.ty = some sz)
    (hoff : off < 2 ^ 32) (hne : seg ≠ []) (hfit : off + seg.length ≤ n * sz)
    (hmem : loc.offset + n * sz ≤ s.mem.length) :
    writeTag st loc (typeBytes st.proj loc.ty ++ le 2 n ++ le 4 off ++ seg) true =
      ({ st with proj := written st.proj loc (loc.offset + off) seg }, {}) := by
  have htl := typeBytes_length st.proj loc.ty
  generalize hT : typeBytes st.proj loc.ty = T at htl ⊢
  have hd : (T ++ le 2 n ++ le 4 off ++ seg).length = T.length + 2 + 4 + seg.length := by
    simp only [List.length_append, le_length]
  have h1 : (T ++ le 2 n ++ le 4 off ++ seg).take T.length = T := by
    rw [List.append_assoc, List.append_assoc, List.take_left']; rfl
  have h2 : leAt (T ++ le 2 n ++ le 4 off ++ seg) T.length 2 = n := by
    rw [List.append_assoc (T ++ le 2 n)]; exact leAt_mid T _ 2 n _ rfl (by omega)
  have h4 : leAt (T ++ le 2 n ++ le 4 off ++ seg) (T.length + 2) 4 = off :=
    leAt_mid (T ++ le 2 n) seg 4 off _ (by simp only [List.length_append, le_length]) (by omega)
  have h3 : (T ++ le 2 n ++ le 4 off ++ seg).drop (T.length + 2 + 4) = seg := by
    rw [RT.drop_append_len]; simp only [List.length_append, le_length]
  have hbad : ¬ (True ∧ (off + seg.length > n * sz ∨ seg.isEmpty = true)) := by
    rw [List.isEmpty_iff]
    rintro ⟨_, h | h⟩
    · omega
    · exact hne h
  unfold writeTag
  simp only [hs, hsz]
  cases hc : loc.ty with
  | boolBit b => exact absurd hc (hty b)
  | atomic c =>
    rw [hc] at htl hT
    replace htl : T.length = 2 := htl
    rw [htl] at h1 h2 h3 h4 hd
    simp only [if_true, h1, h2, h3, h4, hd, hT]
    rw [if_neg (by omega), if_neg (by simp), if_neg (by omega), if_neg (by omega), if_neg (by simp), if_neg hbad,
      if_neg (by omega)]
    rfl
  | struct t =>
    rw [hc] at htl hT
    replace htl : T.length = 4 := htl
    rw [htl] at h1 h2 h3 h4 hd
    simp only [if_true, h1, h2, h3, h4, hd, hT]
    rw [if_neg (by omega), if_neg (by simp), if_neg (by omega), if_neg (by omega), if_neg (by simp), if_neg hbad,
      if_neg (by omega)]
    rfl

theorem exchange_write (st : LState) (cap : Nat) (path : Bytes) (segs : List PSeg) (loc : Loc) (n sz : Nat) (value : Bytes)
    (s : Symbol)
    (hp : Denotes path segs) (hr : resolve st.proj segs = .ok loc)
    (hty : ∀ b, loc.ty ≠ .boolBit b)
    (hn : 1 ≤ n ∧ n ≤ loc.avail ∧ n < 65536)
    (hs : st.proj.symbolOf loc = some s) (hsz : st.proj.elSize loc.ty = some sz)
    (hlen : value.length = n * sz) (hmem : loc.offset + n * sz ≤ s.mem.length) :
    exchange st cap (writeMsg path (typeBytes st.proj loc.ty) n value) =
      ({ st with proj := written st.proj loc loc.offset value }, {}) := by
  have h := exchange_4D st cap path (typeBytes st.proj loc.ty ++ le 2 n ++ value) segs loc hp hr
  rw [writeTag_plain st loc n sz value s hty hn hs hsz hlen hmem] at h
  rw [← h]
  simp only [writeMsg, List.append_assoc]

theorem exchange_writeFrag (st : LState) (cap : Nat) (path : Bytes) (segs : List PSeg) (loc : Loc) (n sz off : Nat)
    (seg : Bytes) (s : Symbol)
    (hp : Denotes path segs) (hr : resolve st.proj segs = .ok loc)
    (hty : ∀ b, loc.ty ≠ .boolBit b)
    (hn : 1 ≤ n ∧ n ≤ loc.avail ∧ n < 65536)
    (hs : st.proj.symbolOf loc = some s) (hsz : st.proj.elSize loc.ty = some sz)
    (hoff : off < 2 ^ 32) (hne : seg ≠ []) (hfit : off + seg.length ≤ n * sz)
    (hmem : loc.offset + n * sz ≤ s.mem.length) :
    exchange st cap (writeFragMsg path (typeBytes st.proj loc.ty) n off seg) =
      ({ st with proj := written st.proj loc (loc.offset + off) seg }, {}) := by
  have h := exchange_53 st cap path (typeBytes st.proj loc.ty ++ le 2 n ++ le 4 off ++ seg) segs loc hp hr
  rw [writeTag_frag st loc n sz off seg s hty hn hs hsz hoff hne hfit hmem] at h
  rw [← h]
  simp only [writeFragMsg, List.append_assoc]

theorem ite_some_le {p : Prop} [Decidable p] {a : Nat} {r : Option Nat} {sz : Nat} (ha : a ≤ 8)
    (hr : r = some sz → sz ≤ 8) : (if p then some a else r) = some sz → sz ≤ 8 := by
  intro h
  split at h
  · injection h with h; omega
  · exact hr h

theorem atomicSize_le (c sz : Nat) (h : atomicSize c = some sz) : sz ≤ 8 := by
  unfold atomicSize at h
  revert h
  repeat (refine ite_some_le (by decide) ?_)
  intro h; cases h

theorem rmwTag_ok (st : LState) (loc : Loc) (c sz : Nat) (m : K.Masks) (s : Symbol)
    (hty : loc.ty = .atomic c) (hsz : atomicSize c = some sz) (hint : c ≠ 0xCA ∧ c ≠ 0xCB ∧ c ≠ 0xC1)
    (hs : st.proj.symbolOf loc = some s) (hmem : loc.offset + sz ≤ s.mem.length) :
    rmwTag st loc (le 2 sz ++ K.maskBytes sz m.orM ++ K.maskBytes sz m.andM) =
      ({ st with proj := (written st.proj loc loc.offset
            (le sz (K.rmwResult sz (leVal ((s.mem.drop loc.offset).take sz)) m))) }, {}) := by
  have h8 := atomicSize_le c sz hsz
  have hl1 := K.mask_bytes_size sz m.orM h8
  have hl2 := K.mask_bytes_size sz m.andM h8
  generalize hM1 : K.maskBytes sz m.orM = M1 at hl1 ⊢
  generalize hM2 : K.maskBytes sz m.andM = M2 at hl2 ⊢
  have hd : (le 2 sz ++ M1 ++ M2).length = 2 + 2 * sz := by
    simp only [List.length_append, le_length, hl1, hl2]; omega
  have h0 : leAt (le 2 sz ++ M1 ++ M2) 0 2 = sz := by
    have := leAt_mid [] (M1 ++ M2) 2 sz 0 rfl (by omega)
    simpa [List.append_assoc] using this
  have h1 : leAt (le 2 sz ++ M1 ++ M2) 2 sz = leVal M1 := by
    unfold leAt
    rw [List.append_assoc, RT.drop_append_len _ _ _ (le_length 2 sz), RT.take_append_len _ _ _ hl1]
  have h2 : leAt (le 2 sz ++ M1 ++ M2) (2 + sz) sz = leVal M2 := by
    unfold leAt
    rw [RT.drop_append_len _ _ _ (by simp only [List.length_append, le_length, hl1]), List.take_of_length_le (by omega)]
  unfold rmwTag
  simp only [hty, hs, hsz, h0, h1, h2, hd]
  rw [if_neg (by omega), if_neg (by simp), if_neg (by omega), if_neg (by simp), if_neg (by omega)]
  unfold written K.rmwResult
  rw [le_length, hM1, hM2]

end Pycomm.Lgx.E2E
