/-
  SLCDriver.read / write at the driver level, second topic file, helper layer E (table level): `{n}` reads and writes
  of the files with 4-byte elements (long: DINT, float: REAL), generic in the element codec.
-/
import PycommProofs.SlcDrv2D
namespace Pycomm.Slc.Drv
open Pycomm Pycomm.Tgt Pycomm.Slc

/-- the little-endian 32-bit values of a byte string -/
def sd2_dwords : Bytes → List Nat
  | b0 :: b1 :: b2 :: b3 :: rest => leVal [b0, b1, b2, b3] :: sd2_dwords rest
  | _ => []

/-- the bytes of a list of 32-bit values, low byte first -/
def sd2_dwordBytes (ws : List Nat) : Bytes := ws.flatMap fun w => leBytes 4 w

theorem sd2_dwordBytes_length (ws : List Nat) : (sd2_dwordBytes ws).length = 4 * ws.length := by
  induction ws with
  | nil => rfl
  | cons x xs ih =>
    simp only [sd2_dwordBytes, List.flatMap_cons, List.length_append, List.length_cons] at ih ⊢
    rw [ih]
    simp [leBytes]
    omega

theorem sd2_dwords_dwordBytes (ws : List Nat) (h : ∀ w ∈ ws, w < 4294967296) :
    sd2_dwords (sd2_dwordBytes ws) = ws := by
  induction ws with
  | nil => rfl
  | cons x xs ih =>
    have hx := h x List.mem_cons_self
    have hv : leVal (leBytes 4 x) = x := RT.leVal_leBytes 4 x (by omega)
    obtain ⟨b0, b1, b2, b3, hb⟩ := sd2_leBytes4 x
    have ih' := ih (fun y hy => h y (List.mem_cons_of_mem _ hy))
    simp only [sd2_dwordBytes, List.flatMap_cons] at ih' ⊢
    rw [hb] at hv ⊢
    simp only [List.cons_append, List.nil_append, sd2_dwords, hv, ih']

theorem sd2_dwords_length : ∀ (n : Nat) (bs : Bytes), bs.length = 4 * n → (sd2_dwords bs).length = n
  | 0, bs, h => by
      have : bs = [] := List.length_eq_zero_iff.mp (by omega)
      subst this; rfl
  | n + 1, b0 :: b1 :: b2 :: b3 :: rest, h => by
      simp only [List.length_cons] at h
      simp only [sd2_dwords, List.length_cons, sd2_dwords_length n rest (by omega)]
  | n + 1, [], h => by simp at h
  | n + 1, [_], h => by simp at h; omega
  | n + 1, [_, _], h => by simp at h; omega
  | n + 1, [_, _, _], h => by simp at h; omega

/-- the element loop of `_parse_read_reply` over a string of 4-byte elements -/
theorem sd2_go_dwords (dec : Bytes → Except Exn PyVal) (val : Nat → PyVal)
    (hdec : ∀ b0 b1 b2 b3, dec [b0, b1, b2, b3] = .ok (val (leVal [b0, b1, b2, b3]))) :
    ∀ (n : Nat) (bs : Bytes) (fuel : Nat), bs.length = 4 * n → n < fuel →
      parseReadReply.go 4 dec fuel bs = .ok ((sd2_dwords bs).map val)
  | 0, bs, fuel, h, hf => by
      have : bs = [] := List.length_eq_zero_iff.mp (by omega)
      subst this
      cases fuel with
      | zero => omega
      | succ fuel => simp [parseReadReply.go, sd2_dwords]
  | n + 1, b0 :: b1 :: b2 :: b3 :: rest, fuel, h, hf => by
      simp only [List.length_cons] at h
      cases fuel with
      | zero => omega
      | succ fuel =>
        have ih := sd2_go_dwords dec val hdec n rest fuel (by omega) (by omega)
        simp [parseReadReply.go, hdec, ih, sd2_dwords, Except.map]
  | n + 1, [], _, h, _ => by simp at h
  | n + 1, [_], _, h, _ => by simp at h; omega
  | n + 1, [_, _], _, h, _ => by simp at h; omega
  | n + 1, [_, _, _], _, h, _ => by simp at h; omega

/-- what `_parse_read_reply` makes of n ≥ 2 elements of a long file -/
theorem sd2_reply_dwords_long (a : Addr) (hft : a.fileType = [76]) (haf : a.addressField = 2) (n : Nat) (data : Bytes)
    (hlen : data.length = 4 * n) (hn : 2 ≤ n) :
    parseReadReply a data = .ok (.list ((sd2_dwords data).map fun w => PyVal.int (int32 w))) := by
  have hty : elemTy a.fileType = some (.int .dint) := by rw [hft]; rfl
  have hsz : dataSize a.fileType = 4 := by rw [hft]; decide
  have hdec : ∀ b0 b1 b2 b3 : UInt8, (match decode (.int .dint) [b0, b1, b2, b3] with
      | .ok (v, _) => (Except.ok v : Except Exn PyVal) | .error _ => .error .response)
      = .ok (PyVal.int (int32 (leVal [b0, b1, b2, b3]))) := by
    intro b0 b1 b2 b3
    have hd := decode_int_wire .dint [b0, b1, b2, b3] [] rfl
    simp only [List.append_nil, IntK.signed, IntK.size, true_and] at hd
    have hv : (if 2 ^ (8 * 4 - 1) ≤ leVal [b0, b1, b2, b3]
        then (leVal [b0, b1, b2, b3] : Int) - ((2 ^ (8 * 4) : Nat) : Int) else (leVal [b0, b1, b2, b3] : Int))
        = int32 (leVal [b0, b1, b2, b3]) := by
      unfold int32
      split <;> split <;> first | rfl | omega
    rw [hv] at hd
    rw [hd]
  unfold parseReadReply
  simp only [hty, hsz, haf]
  rw [if_neg (by decide), if_neg (by decide)]
  rw [sd2_go_dwords _ (fun w => PyVal.int (int32 w)) hdec n data _ hlen (by omega)]
  have hl := sd2_dwords_length n data hlen
  match hw : sd2_dwords data, hl with
  | w0 :: w1 :: ws, _ => rfl
  | [], hl => simp at hl; omega
  | [_], hl => simp at hl; omega

/-- … of a float file -/
theorem sd2_reply_dwords_float (a : Addr) (hft : a.fileType = [70]) (haf : a.addressField = 2) (n : Nat) (data : Bytes)
    (hlen : data.length = 4 * n) (hn : 2 ≤ n) :
    parseReadReply a data = .ok (.list ((sd2_dwords data).map fun w => PyVal.float (Flt.widen w))) := by
  have hty : elemTy a.fileType = some .real := by rw [hft]; rfl
  have hsz : dataSize a.fileType = 4 := by rw [hft]; decide
  have hdec : ∀ b0 b1 b2 b3 : UInt8, (match decode .real [b0, b1, b2, b3] with
      | .ok (v, _) => (Except.ok v : Except Exn PyVal) | .error _ => .error .response)
      = .ok (PyVal.float (Flt.widen (leVal [b0, b1, b2, b3]))) := by
    intro b0 b1 b2 b3
    have hd := decode_real_wire [b0, b1, b2, b3] [] rfl
    simp only [List.append_nil] at hd
    rw [hd]
  unfold parseReadReply
  simp only [hty, hsz, haf]
  rw [if_neg (by decide), if_neg (by decide)]
  rw [sd2_go_dwords _ (fun w => PyVal.float (Flt.widen w)) hdec n data _ hlen (by omega)]
  have hl := sd2_dwords_length n data hlen
  match hw : sd2_dwords data, hl with
  | w0 :: w1 :: ws, _ => rfl
  | [], hl => simp at hl; omega
  | [_], hl => simp at hl; omega

/-- the 32-bit values of a slice of the file are the values at the successive offsets -/
theorem sd2_dwords_slice (d : Bytes) : ∀ (n off : Nat), off + 4 * n ≤ d.length →
    sd2_dwords ((d.drop off).take (4 * n)) = (List.range n).map (fun i => dwordAt d (off + 4 * i))
  | 0, off, _ => by simp [sd2_dwords]
  | n + 1, off, h => by
      have e : 4 * (n + 1) = (4 * n + 3) + 1 := by omega
      rw [e, slx_take_drop_cons d off _ (by omega), slx_take_drop_cons d (off + 1) _ (by omega),
        slx_take_drop_cons d (off + 1 + 1) _ (by omega), slx_take_drop_cons d (off + 1 + 1 + 1) _ (by omega)]
      have ih := sd2_dwords_slice d n (off + 4) (by omega)
      rw [show off + 1 + 1 + 1 + 1 = off + 4 by omega]
      simp only [sd2_dwords, ih, List.range_succ_eq_map, List.map_cons, List.map_map]
      congr 1
      apply List.map_congr_left
      intro i _
      simp only [Function.comp]
      congr 1; omega

/-- `{n}` read (2 ≤ n ≤ 63) of a file with 4-byte elements: the request reaches the n elements starting at e -/
theorem sd2_read_count4 (tbl : Table) (a : Addr) (f : SlcFile) (hft : a.fileType = [76] ∨ a.fileType = [70])
    (hn : 2 ≤ a.count ∧ a.count ≤ 63) (hr : InRange a) (hl : Located tbl a f)
    (hin : 4 * a.element + 4 * a.count ≤ f.data.length) :
    readAddr tbl a = .ok ((f.data.drop (4 * a.element)).take (4 * a.count)) := by
  have hsz : dataSize a.fileType = 4 := by rcases hft with h | h <;> rw [h] <;> decide
  have heb : elemBytes (typeCode a.fileType) = 4 := by rcases hft with h | h <;> rw [h] <;> decide
  have hpos : a.posNumber = 0 :=
    hr.pos (by rcases hft with h | h <;> simp [h]) (by rcases hft with h | h <;> simp [h])
  have hoff : byteOffset (typeCode a.fileType) a.element a.posNumber = 4 * a.element := by
    simp only [byteOffset, heb, hpos]; omega
  rw [slx_readAddr_eq tbl a (by rw [hsz]; omega) hr.file hr.elem (by omega), hsz,
    slx_typedRead_ok tbl f _ _ _ _ _ hl.find hl.ftype (by omega) (by rw [hoff]; exact hin), hoff]

/-- `writeable_value` of a list / tuple for `{n}` elements (n ≥ 2) of a file with 4-byte elements: the first n values,
    each encoded by the element codec to the 32-bit value paired with it -/
theorem sd2_writeable_count4 (a : Addr) (v : PyVal) (ty : Ty) (es : List (PyVal × Nat))
    (hv : v = .list (es.map (·.1)) ∨ v = .tuple (es.map (·.1)))
    (hty : elemTy a.fileType = some ty) (hsz : dataSize a.fileType = 4)
    (haf : a.addressField = 2) (hc : 2 ≤ a.count) (hlen : a.count ≤ es.length)
    (henc : ∀ p ∈ es.take a.count, encode ty p.1 = .ok (leBytes 4 p.2)) :
    writeableValue a v = .ok ([0xFF, 0xFF] ++ sd2_dwordBytes ((es.take a.count).map (·.2)), 4) := by
  have hl : v.len? = some es.length := by rcases hv with rfl | rfl <;> simp [PyVal.len?]
  have hs : v.seq? = some (es.map (·.1)) := by rcases hv with rfl | rfl <;> rfl
  have hel : ∀ (l : List (PyVal × Nat)), (∀ p ∈ l, encode ty p.1 = .ok (leBytes 4 p.2)) →
      encodeList (encode ty) (l.map (·.1)) = .ok (sd2_dwordBytes (l.map (·.2))) := by
    intro l
    induction l with
    | nil => intro _; rfl
    | cons p l ih =>
      intro h
      simp only [List.map_cons, encodeList, h p List.mem_cons_self,
        ih (fun q hq => h q (List.mem_cons_of_mem _ hq)), bind, Except.bind, sd2_dwordBytes, List.flatMap_cons]
  have h1 := hel (es.take a.count) henc
  rw [List.map_take] at h1
  unfold writeableValue
  simp only [hty, hsz, haf, hl, hs]
  rw [if_pos (by omega), if_neg (by decide), if_neg (by omega)]
  simp only [h1]

/-- `{n}` write (2 ≤ n ≤ 63) of a list / tuple of at least n values to a file with 4-byte elements: the request
    succeeds, a `{n}` read request of the same address returns the bytes written, every other file is untouched, every
    byte of the file outside the n elements is unchanged and element e + k holds the 32-bit value of the k-th value -/
theorem sd2_write_read_count4 (tbl : Table) (a : Addr) (f : SlcFile) (v : PyVal) (ty : Ty) (es : List (PyVal × Nat))
    (hv : v = .list (es.map (·.1)) ∨ v = .tuple (es.map (·.1)))
    (hft : a.fileType = [76] ∨ a.fileType = [70]) (hty : elemTy a.fileType = some ty)
    (haf : a.addressField = 2) (hn : 2 ≤ a.count ∧ a.count ≤ 63) (hlen : a.count ≤ es.length)
    (henc : ∀ p ∈ es.take a.count, encode ty p.1 = .ok (leBytes 4 p.2) ∧ p.2 < 4294967296)
    (hr : InRange a) (hl : Located tbl a f) (hu : (tbl.filter (fun g => g.num == a.fileNumber)).length ≤ 1)
    (hin : 4 * a.element + 4 * a.count ≤ f.data.length) :
    ∃ tbl', writeAddr tbl a v = .ok tbl' ∧
      (∃ data, readAddr tbl' a = .ok data ∧ data.length = 4 * a.count ∧
        sd2_dwords data = (es.take a.count).map (·.2)) ∧
      tbl'.length = tbl.length ∧
      sd2_Frame tbl tbl' a.fileNumber (4 * a.element) (4 * a.count)
        (fun g => ∀ k, k < a.count → some (dwordAt g.data (4 * a.element + 4 * k)) = (es[k]?).map (·.2)) := by
  have hsz : dataSize a.fileType = 4 := by rcases hft with h | h <;> rw [h] <;> decide
  have heb : elemBytes (typeCode a.fileType) = 4 := by rcases hft with h | h <;> rw [h] <;> decide
  have hpos : a.posNumber = 0 :=
    hr.pos (by rcases hft with h | h <;> simp [h]) (by rcases hft with h | h <;> simp [h])
  have hoff : byteOffset (typeCode a.fileType) a.element a.posNumber = 4 * a.element := by
    simp only [byteOffset, heb, hpos]; omega
  have htl : ((es.take a.count).map (·.2)).length = a.count := by
    simp only [List.length_map, List.length_take]; omega
  have hbl : (sd2_dwordBytes ((es.take a.count).map (·.2))).length = 4 * a.count := by
    rw [sd2_dwordBytes_length, htl]
  have hdw : sd2_dwords (sd2_dwordBytes ((es.take a.count).map (·.2))) = (es.take a.count).map (·.2) := by
    apply sd2_dwords_dwordBytes
    intro w hw
    obtain ⟨p, hp, rfl⟩ := List.mem_map.mp hw
    exact (henc p hp).2
  obtain ⟨tbl', f', hwa, hra, _, _, _, hlenT, hfr⟩ := sd2_write_read_core tbl a f v _ 4
    (sd2_writeable_count4 a v ty es hv hty hsz haf hn.1 hlen (fun p hp => (henc p hp).1)) hsz
    (fun h => by rcases hft with h' | h' <;> rcases h.1 with h'' | h'' <;> rw [h'] at h'' <;> cases h'')
    (by omega) (by omega) (by omega) hbl hr (by omega) hl hu (by rw [hoff]; omega)
  refine ⟨tbl', hwa, ⟨_, hra, hbl, hdw⟩, hlenT, ?_⟩
  rw [hoff] at hfr
  intro i g0 hi
  obtain ⟨g, hg, hnum, hft', hne, hsame⟩ := hfr i g0 hi
  refine ⟨g, hg, hnum, hft', hne, ?_⟩
  intro hnm
  obtain ⟨h1, h2, h3⟩ := hsame hnm
  refine ⟨h1, h2, ?_⟩
  have hgl : 4 * a.element + 4 * a.count ≤ g.data.length := by
    have : g0 = f := slx_unique tbl a.fileNumber f g0 i hu hl.find hi hnm
    rw [h1, this]; exact hin
  have hw := sd2_dwords_slice g.data a.count (4 * a.element) hgl
  rw [h3, hdw] at hw
  intro k hk
  have hk1 := congrArg (fun l => l[k]?) hw
  simp only [List.getElem?_map, List.getElem?_take, hk, if_true, List.getElem?_range hk, Option.map_some] at hk1
  exact hk1.symm

/-! ### long and float files -/

/-- `{n}` read of a long file: the list of the n consecutive 32-bit integers starting at e -/
theorem sd2_read_count_long (tbl : Table) (a : Addr) (f : SlcFile) (hft : a.fileType = [76]) (haf : a.addressField = 2)
    (hn : 2 ≤ a.count ∧ a.count ≤ 63) (hr : InRange a) (hl : Located tbl a f)
    (hin : 4 * a.element + 4 * a.count ≤ f.data.length) :
    ∃ data, readAddr tbl a = .ok data ∧
      parseReadReply a data = .ok (.list ((List.range a.count).map fun i =>
        PyVal.int (int32 (dwordAt f.data (4 * a.element + 4 * i))))) := by
  refine ⟨_, sd2_read_count4 tbl a f (.inl hft) hn hr hl hin, ?_⟩
  have hlen : ((f.data.drop (4 * a.element)).take (4 * a.count)).length = 4 * a.count := by
    simp only [List.length_take, List.length_drop]; omega
  rw [sd2_reply_dwords_long a hft haf a.count _ hlen hn.1, sd2_dwords_slice f.data a.count _ hin, List.map_map]
  rfl

/-- `{n}` read of a float file: the list of the floats the n consecutive binary32 values starting at e widen to -/
theorem sd2_read_count_float (tbl : Table) (a : Addr) (f : SlcFile) (hft : a.fileType = [70]) (haf : a.addressField = 2)
    (hn : 2 ≤ a.count ∧ a.count ≤ 63) (hr : InRange a) (hl : Located tbl a f)
    (hin : 4 * a.element + 4 * a.count ≤ f.data.length) :
    ∃ data, readAddr tbl a = .ok data ∧
      parseReadReply a data = .ok (.list ((List.range a.count).map fun i =>
        PyVal.float (Flt.widen (dwordAt f.data (4 * a.element + 4 * i))))) := by
  refine ⟨_, sd2_read_count4 tbl a f (.inr hft) hn hr hl hin, ?_⟩
  have hlen : ((f.data.drop (4 * a.element)).take (4 * a.count)).length = 4 * a.count := by
    simp only [List.length_take, List.length_drop]; omega
  rw [sd2_reply_dwords_float a hft haf a.count _ hlen hn.1, sd2_dwords_slice f.data a.count _ hin, List.map_map]
  rfl

/-- `{n}` write (2 ≤ n ≤ 63) of a list / tuple of at least n 32-bit integers to a long file, then the `{n}` read -/
theorem sd2_write_read_count_long (tbl : Table) (a : Addr) (f : SlcFile) (v : PyVal) (xs : List Int)
    (hv : v = .list (xs.map PyVal.int) ∨ v = .tuple (xs.map PyVal.int))
    (hft : a.fileType = [76]) (haf : a.addressField = 2) (hn : 2 ≤ a.count ∧ a.count ≤ 63)
    (hlen : a.count ≤ xs.length) (hx : ∀ x ∈ xs.take a.count, -2147483648 ≤ x ∧ x ≤ 2147483647)
    (hr : InRange a) (hl : Located tbl a f) (hu : (tbl.filter (fun g => g.num == a.fileNumber)).length ≤ 1)
    (hin : 4 * a.element + 4 * a.count ≤ f.data.length) :
    ∃ tbl', writeAddr tbl a v = .ok tbl' ∧
      (∃ data, readAddr tbl' a = .ok data ∧
        parseReadReply a data = .ok (.list ((xs.take a.count).map PyVal.int))) ∧
      tbl'.length = tbl.length ∧
      sd2_Frame tbl tbl' a.fileNumber (4 * a.element) (4 * a.count)
        (fun g => ∀ k, k < a.count → int32 (dwordAt g.data (4 * a.element + 4 * k)) = xs.getD k 0) := by
  have hty : elemTy a.fileType = some (.int .dint) := by rw [hft]; rfl
  have hmapv : (xs.map fun x => (PyVal.int x, sd2_dword32 x)).map (·.1) = xs.map PyVal.int := by
    rw [List.map_map]; rfl
  obtain ⟨tbl', hwa, ⟨data, hra, hdl, hdw⟩, hlenT, hfr⟩ := sd2_write_read_count4 tbl a f v (.int .dint)
    (xs.map fun x => (PyVal.int x, sd2_dword32 x)) (by rw [hmapv]; exact hv) (.inl hft) hty haf hn
    (by rw [List.length_map]; exact hlen)
    (by
      intro p hp
      rw [← List.map_take] at hp
      obtain ⟨x, hxm, rfl⟩ := List.mem_map.mp hp
      have hxr := hx x hxm
      refine ⟨?_, sd2_dword32_lt x⟩
      have := encode_int_wire .dint x (by simp [IntK.lo, IntK.signed, IntK.size]; omega)
        (by simp [IntK.hi, IntK.signed, IntK.size]; omega)
      rw [this]
      simp only [IntK.size, sd2_dword32]
      rfl)
    hr hl hu hin
  refine ⟨tbl', hwa, ⟨data, hra, ?_⟩, hlenT, ?_⟩
  · rw [sd2_reply_dwords_long a hft haf a.count data hdl hn.1, hdw, ← List.map_take, List.map_map, List.map_map]
    congr 2
    apply List.map_congr_left
    intro x hxm
    simp only [Function.comp, sd2_int32_dword32 x (hx x hxm)]
  · intro i g0 hi
    obtain ⟨g, hg, hnum, hft', hne, hsame⟩ := hfr i g0 hi
    refine ⟨g, hg, hnum, hft', hne, ?_⟩
    intro hnm
    obtain ⟨h1, h2, h3⟩ := hsame hnm
    refine ⟨h1, h2, ?_⟩
    intro k hk
    have hk3 := h3 k hk
    have hxk : xs[k]? = some (xs.getD k 0) := by
      rw [List.getD_eq_getElem?_getD, List.getElem?_eq_getElem (by omega)]
      rfl
    simp only [List.getElem?_map, hxk, Option.map_some, Option.some.injEq] at hk3
    rw [hk3]
    apply sd2_int32_dword32
    apply hx
    rw [List.mem_take_iff_getElem]
    exact ⟨k, by omega, by rw [List.getD_eq_getElem?_getD, List.getElem?_eq_getElem (by omega)]; rfl⟩

/-- `{n}` write (2 ≤ n ≤ 63) of a list / tuple of at least n floats to a float file, then the `{n}` read; each float
    is paired with the binary32 bits `struct.pack('<f')` rounds it to -/
theorem sd2_write_read_count_float (tbl : Table) (a : Addr) (f : SlcFile) (v : PyVal) (ys : List (Nat × Nat))
    (hv : v = .list (ys.map fun p => PyVal.float p.1) ∨ v = .tuple (ys.map fun p => PyVal.float p.1))
    (hft : a.fileType = [70]) (haf : a.addressField = 2) (hn : 2 ≤ a.count ∧ a.count ≤ 63)
    (hlen : a.count ≤ ys.length) (hy : ∀ p ∈ ys.take a.count, Flt.narrow p.1 = some p.2)
    (hr : InRange a) (hl : Located tbl a f) (hu : (tbl.filter (fun g => g.num == a.fileNumber)).length ≤ 1)
    (hin : 4 * a.element + 4 * a.count ≤ f.data.length) :
    ∃ tbl', writeAddr tbl a v = .ok tbl' ∧
      (∃ data, readAddr tbl' a = .ok data ∧
        parseReadReply a data = .ok (.list ((ys.take a.count).map fun p => PyVal.float (Flt.widen p.2)))) ∧
      tbl'.length = tbl.length ∧
      sd2_Frame tbl tbl' a.fileNumber (4 * a.element) (4 * a.count)
        (fun g => ∀ k, k < a.count → some (dwordAt g.data (4 * a.element + 4 * k)) = (ys[k]?).map (·.2)) := by
  have hty : elemTy a.fileType = some .real := by rw [hft]; rfl
  have hmapv : (ys.map fun p => (PyVal.float p.1, p.2)).map (·.1) = ys.map fun p => PyVal.float p.1 := by
    rw [List.map_map]; rfl
  obtain ⟨tbl', hwa, ⟨data, hra, hdl, hdw⟩, hlenT, hfr⟩ := sd2_write_read_count4 tbl a f v .real
    (ys.map fun p => (PyVal.float p.1, p.2)) (by rw [hmapv]; exact hv) (.inr hft) hty haf hn
    (by rw [List.length_map]; exact hlen)
    (by
      intro q hq
      rw [← List.map_take] at hq
      obtain ⟨p, hpm, rfl⟩ := List.mem_map.mp hq
      exact ⟨encode_real_wire p.1 p.2 (hy p hpm), sd2_narrow_lt p.1 p.2 (hy p hpm)⟩)
    hr hl hu hin
  refine ⟨tbl', hwa, ⟨data, hra, ?_⟩, hlenT, ?_⟩
  · rw [sd2_reply_dwords_float a hft haf a.count data hdl hn.1, hdw, ← List.map_take, List.map_map, List.map_map]
    rfl
  · intro i g0 hi
    obtain ⟨g, hg, hnum, hft', hne, hsame⟩ := hfr i g0 hi
    refine ⟨g, hg, hnum, hft', hne, ?_⟩
    intro hnm
    obtain ⟨h1, h2, h3⟩ := hsame hnm
    refine ⟨h1, h2, ?_⟩
    intro k hk
    have hk3 := h3 k hk
    simp only [List.getElem?_map, Option.map_map] at hk3
    rw [hk3]
    rfl

end Pycomm.Slc.Drv
