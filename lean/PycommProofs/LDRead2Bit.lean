/-
  LogixDriver.read of one bit of an integer scalar tag (`name.b`): the layers composed, and the arithmetic of
  `bool(value & 1 << bit)` on the decoded two's-complement integer.
-/
import PycommProofs.LDRead2Core
import PycommProofs.LDRead2Addr
namespace Pycomm.Lgx.Drv
open Pycomm Pycomm.Tgt Pycomm.Path Pycomm.Reply Pycomm.Encap Pycomm.Lgx Pycomm.Lgx.E2E

/-- bit `b` (below the width) of the two's-complement reading of an unsigned value is bit `b` of the value -/
theorem ldr2_toSigned_bit (w n b : Nat) (hb : b < 8 * w) :
    ((toSigned w n / ((2 ^ b : Nat) : Int)) % 2 == 1) = n.testBit b := by
  have hnat : (((n : Int) / ((2 ^ b : Nat) : Int)) % 2 == 1) = n.testBit b := by
    rw [Nat.testBit_eq_decide_div_mod_eq]
    have : ((n : Int) / ((2 ^ b : Nat) : Int)) % 2 = ((n / 2 ^ b % 2 : Nat) : Int) := by
      rw [Int.natCast_emod, Int.natCast_ediv]; rfl
    rw [this]
    by_cases h : n / 2 ^ b % 2 = 1
    · simp [h]
    · have : n / 2 ^ b % 2 = 0 := by omega
      simp [this]
  unfold toSigned
  split
  · exact hnat
  · rw [← hnat]
    have hpow : (2 ^ (8 * w) : Nat) = 2 ^ b * (2 * 2 ^ (8 * w - b - 1)) := by
      rw [← Nat.pow_succ', ← Nat.pow_add]
      congr 1; omega
    have hne : (((2 ^ b : Nat)) : Int) ≠ 0 := by
      have : 0 < 2 ^ b := Nat.two_pow_pos b
      omega
    have e : (n : Int) - ((2 ^ (8 * w) : Nat) : Int) =
        (n : Int) + ((2 ^ b : Nat) : Int) * (-(2 * ((2 ^ (8 * w - b - 1) : Nat) : Int))) := by
      rw [hpow]; push_cast; rw [Int.mul_neg]; omega
    rw [e, Int.add_mul_ediv_left _ _ hne]
    have e2 : (n : Int) / ((2 ^ b : Nat) : Int) + -(2 * ((2 ^ (8 * w - b - 1) : Nat) : Int)) =
        (n : Int) / ((2 ^ b : Nat) : Int) + 2 * (-((2 ^ (8 * w - b - 1) : Nat) : Int)) := by
      rw [Int.mul_neg]
    rw [e2, Int.add_mul_emod_self_left]

/-- what `bool(value & 1 << b)` yields on the integer decoded from the memory of an integer tag: bit `b` of the
    little-endian memory -/
theorem ldr2_bitOfValue (k : IntK) (mem rest : Bytes) (v : PyVal) (b : Nat)
    (hd : decode (.int k) mem = .ok (v, rest)) (hlen : mem.length = k.size) (hb : b < 8 * k.size) :
    bitOfValue v (b : Int) = some ((leVal mem).testBit b) := by
  have hpos : 0 < k.size := by cases k <;> decide
  have hneg : ¬ ((k.size : Int) < 0) := by omega
  have htake : mem.take k.size = mem := by rw [← hlen]; exact List.take_length
  have hne : mem.isEmpty = false := by
    cases hh : mem with
    | nil => rw [hh] at hlen; simp at hlen; omega
    | cons _ _ => rfl
  have hnl : ¬ (mem.length < k.size) := by omega
  simp only [decode, decodeIntVal, decodeIntNat, streamRead, bind, Except.bind, hneg, if_false, Int.toNat_natCast, htake,
    hne, Bool.false_eq_true, hnl, Except.ok.injEq, Prod.mk.injEq] at hd
  obtain ⟨rfl, _⟩ := hd
  simp only [bitOfValue, PyVal.asIndex, Int.toNat_natCast, Option.some.injEq]
  split
  · exact ldr2_toSigned_bit k.size (leVal mem) b hb
  · rw [Nat.testBit_eq_decide_div_mod_eq]
    have e : ((leVal mem : Int) / ((2 ^ b : Nat) : Int)) % 2 = ((leVal mem / 2 ^ b % 2 : Nat) : Int) := by
      rw [Int.natCast_emod, Int.natCast_ediv]; rfl
    rw [e]
    by_cases h : leVal mem / 2 ^ b % 2 = 1
    · simp [h]
    · have : leVal mem / 2 ^ b % 2 = 0 := by omega
      simp [this]

/-- bit `b` of the memory is bit `b` of the decoded (two's-complement) integer: `⌊iv / 2^b⌋ mod 2` -/
theorem ldr2_int_bit_spec (k : IntK) (mem rest : Bytes) (iv : Int) (b : Nat)
    (hd : decode (.int k) mem = .ok (.int iv, rest)) (hlen : mem.length = k.size) (hb : b < 8 * k.size) :
    (leVal mem).testBit b = ((iv / ((2 ^ b : Nat) : Int)) % 2 == 1) := by
  have h := ldr2_bitOfValue k mem rest (.int iv) b hd hlen hb
  simp only [bitOfValue, PyVal.asIndex, Int.toNat_natCast, Option.some.injEq] at h
  exact h.symm

/-- the driver's table of integer widths agrees with the controller's sizes -/
theorem ldr2_intBits (c sz : Nat) (name : Name) (k : IntK) (hat : atomicOfCode c = some (name, .int k))
    (hsz : atomicSize c = some sz) : intBits name = some (sz * 8) ∧ sz = k.size := by
  obtain ⟨hty, _, _, _, _⟩ := ldr_atomic_table c sz name (.int k) hat rfl hsz
  rcases ldr_atomicTy_codes c (.int k) hty rfl with h | h | h | h | h | h | h | h | h | h | h <;> subst h
  · have e : atomicOfCode 0xC1 = some (nm "BOOL", .bool) := rfl
    rw [e] at hat; cases hat
  · have e : atomicOfCode 0xC2 = some (nm "SINT", .int .sint) := rfl
    have f : atomicSize 0xC2 = some 1 := rfl
    rw [e] at hat; rw [f] at hsz; cases hat; cases hsz; exact ⟨by decide, rfl⟩
  · have e : atomicOfCode 0xC3 = some (nm "INT", .int .int) := rfl
    have f : atomicSize 0xC3 = some 2 := rfl
    rw [e] at hat; rw [f] at hsz; cases hat; cases hsz; exact ⟨by decide, rfl⟩
  · have e : atomicOfCode 0xC4 = some (nm "DINT", .int .dint) := rfl
    have f : atomicSize 0xC4 = some 4 := rfl
    rw [e] at hat; rw [f] at hsz; cases hat; cases hsz; exact ⟨by decide, rfl⟩
  · have e : atomicOfCode 0xC5 = some (nm "LINT", .int .lint) := rfl
    have f : atomicSize 0xC5 = some 8 := rfl
    rw [e] at hat; rw [f] at hsz; cases hat; cases hsz; exact ⟨by decide, rfl⟩
  · have e : atomicOfCode 0xC6 = some (nm "USINT", .int .usint) := rfl
    have f : atomicSize 0xC6 = some 1 := rfl
    rw [e] at hat; rw [f] at hsz; cases hat; cases hsz; exact ⟨by decide, rfl⟩
  · have e : atomicOfCode 0xC7 = some (nm "UINT", .int .uint) := rfl
    have f : atomicSize 0xC7 = some 2 := rfl
    rw [e] at hat; rw [f] at hsz; cases hat; cases hsz; exact ⟨by decide, rfl⟩
  · have e : atomicOfCode 0xC8 = some (nm "UDINT", .int .udint) := rfl
    have f : atomicSize 0xC8 = some 4 := rfl
    rw [e] at hat; rw [f] at hsz; cases hat; cases hsz; exact ⟨by decide, rfl⟩
  · have e : atomicOfCode 0xC9 = some (nm "ULINT", .int .ulint) := rfl
    have f : atomicSize 0xC9 = some 8 := rfl
    rw [e] at hat; rw [f] at hsz; cases hat; cases hsz; exact ⟨by decide, rfl⟩
  · have e : atomicOfCode 0xCA = some (nm "REAL", .real) := rfl
    rw [e] at hat; cases hat
  · have e : atomicOfCode 0xCB = some (nm "LREAL", .lreal) := rfl
    rw [e] at hat; cases hat

/-- (f) the result loop of `read` for an error-free request with a bit number on an integer tag whose response was
    recorded as a Tag with an integer value: a BOOL Tag named as the caller wrote it -/
theorem ldr2_readResult_bit (p : Parsed) (info : TagInfo) (t : LTag) (b : Nat) (bv : Bool)
    (herr : p.error = none) (hinfo : p.info = some info) (hbit : p.bit = some (b : Int))
    (hnd : info.core.dataTypeName ≠ nm "DWORD") (hv : bitOfValue t.value (b : Int) = some bv) (hte : t.error = none) :
    readResult p [((p.requestId : Nat), t)] =
      { tag := p.userTag, value := .bool bv, type := some (nm "BOOL"), error := none } := by
  have htr : t.truthy = true := by
    unfold LTag.truthy
    rw [hte]
    cases hval : t.value <;> simp_all [bitOfValue, PyVal.asIndex]
  have hdw : (info.core.dataTypeName != nm "DWORD") = true := by simpa using hnd
  unfold readResult
  simp only [herr, hinfo, Results.get?, List.find?_cons, beq_self_eq_true, Option.map_some, htr, if_true, hdw, hbit, hv,
    hte]

/-- `read` of bit `b` of a controller-scope integer scalar tag, requested as `name.b` -/
theorem ldr2_read_bit (cfg : Cfg) (w : Cli.World Ext) (sess : Nat) (cidb : Bytes) (conn : Conn)
    (st : LState) (s : Symbol) (info : TagInfo) (c sz : Nat) (name : Name) (k : IntK) (b : Nat)
    (hw : ldr_Healthy w sess cidb conn) (hlogix : w.net.target.ext.logix = some st)
    (hs : s ∈ st.proj.controller)
    (hbytes : ∀ s' ∈ st.proj.controller, ∀ ch ∈ s'.name, ch < 256)
    (huniqN : ∀ s' ∈ st.proj.controller, s'.name = s.name → s' = s)
    (huniqI : ∀ s' ∈ st.proj.controller, s'.inst = s.inst → s' = s)
    (hid : PlainIdent s.name) (hinst : s.inst < 2 ^ 32)
    (hty : elTyOfWord s.symbolType = .atomic c) (hat : atomicOfCode c = some (name, .int k))
    (hsz : atomicSize c = some sz) (hlen : s.mem.length = sz)
    (hget : cfg.tags.get? s.name = some info) (hinfo : ldr_InfoOf info name (.int k) s.inst)
    (hb : b < 8 * sz)
    (hC : s.name.length + 28 ≤ w.drv.connectionSize) (hT : s.name.length + 28 ≤ conn.size) :
    ∃ w' frm, read hookAll cfg w [ldr2_tagStr ⟨s.name, []⟩ (some b) none] =
        (w', .ok [{ tag := ldr2_tagStr ⟨s.name, []⟩ (some b) none, value := .bool ((leVal s.mem).testBit b),
                    type := some (nm "BOOL"), error := none }]) ∧
      w'.drv = w.drv.nextSeq.2 ∧ w'.net.sent = w.net.sent ++ [frm] ∧
      w'.net.target.ext = { w.net.target.ext with logix := some { st with ctr := st.ctr + 1 } } ∧
      ldr_Healthy w' sess cidb { conn with lastSeq := some w.drv.nextSeq.1 } := by
  obtain ⟨haty, hentry, hndw, hpos, hle8⟩ := ldr_atomic_table c sz name (.int k) hat rfl hsz
  obtain ⟨hib, hksz⟩ := ldr2_intBits c sz name k hat hsz
  have hl : ldr2_Level ⟨s.name, []⟩ := ⟨hid, by simp, by simp⟩
  have hrl : renderLevel ⟨s.name, []⟩ = s.name := by simp [renderLevel]
  -- the value the controller holds decodes
  have hdecEx : ∃ v rest, decode (.int k) s.mem = .ok (v, rest) := by
    have hneg : ¬ ((k.size : Int) < 0) := by omega
    have htake : s.mem.take k.size = s.mem := by rw [← hksz, ← hlen]; exact List.take_length
    have hne : s.mem.isEmpty = false := by
      cases hh : s.mem with
      | nil => rw [hh] at hlen; simp at hlen; omega
      | cons _ _ => rfl
    have hnl : ¬ (s.mem.length < k.size) := by omega
    refine ⟨.int (if k.signed then toSigned k.size (leVal s.mem) else (leVal s.mem : Int)), s.mem.drop k.size, ?_⟩
    simp only [decode, decodeIntVal, decodeIntNat, streamRead, bind, Except.bind, hneg, if_false, Int.toNat_natCast, htake,
      hne, Bool.false_eq_true, hnl]
  obtain ⟨v, rest, hdec⟩ := hdecEx
  -- (a) parsing
  have hnd : isDword info = false := by
    have : (name == nm "DWORD") = false := by simpa using hndw
    simp [isDword, hinfo.typeName, this]
  have hbad : lds_bitBad info (some (b : Int)) = false := by
    have hnle : ¬ (((sz * 8 : Nat) : Int) ≤ (b : Int)) := by omega
    simp only [lds_bitBad, hinfo.kind, hinfo.typeName, hib, hnle, decide_false, Bool.or_false]
    rfl
  have hparse := ldr2_parse_unfold cfg.tags false 0 ⟨s.name, []⟩ (some b) none hl (by intro n hc; cases hc)
  simp only [Option.map_some, Int.ofNat_eq_natCast] at hparse
  rw [ldr2_tail_plain cfg.tags false 0 _ _ _ _ ⟨s.name, []⟩ _ info hl hget hnd hbad, hrl] at hparse
  -- (b) the path
  obtain ⟨path, hpath, hpl, hden⟩ := ldr_requestPath cfg s.name info s.inst hid hinfo.instanceId hinst
  have hrs : tagReturnSize info 1 = sz := by
    simp [tagReturnSize, hinfo.struct, hinfo.typeName, hentry]
  have hmem : s.mem ≠ [] := by
    intro h; rw [h, List.length_nil] at hlen; omega
  have hr := ldr_resolve st.proj s c sz cfg.useInstanceIds hid hs hbytes huniqN huniqI hty hsz hmem
  have hbts := ldr_readBytes st.proj s c sz hs huniqI hsz hlen
  have hav := ldr_dimsProduct_pos s.dims
  have hreply := ldr_parseReadReply info c (.int k) name s.mem rest v hinfo.ty hinfo.typeName hndw haty rfl hdec
  obtain ⟨w', frm, hread, hrest⟩ := ldr2_read_single cfg w sess cidb conn st (ldr2_tagStr ⟨s.name, []⟩ (some b) none) _ info
    path _ (ldr_loc s c) c 1 _ _ _ hw hlogix hparse rfl rfl rfl rfl hpath hden
    (by have := hid.2.1; omega) hr rfl ⟨Nat.le_refl 1, hav, by omega⟩ hbts hreply
    (by rw [hrs]; omega) (by omega) (by omega)
  refine ⟨w', frm, ?_, hrest⟩
  rw [hread]
  have hbv := ldr2_bitOfValue k s.mem rest v b hdec (by omega) (by omega)
  have hresult := ldr2_readResult_bit
    { requestId := 0, requestTag := ldr2_tagStr ⟨s.name, []⟩ (some b) none, userTag := ldr2_tagStr ⟨s.name, []⟩ (some b) none,
      plcTag := s.name, bit := some (b : Int), elements := (((none : Option Nat).getD 1 : Nat) : Int), info := some info,
      boolElements := none } info
    { tag := s.name, value := v, type := some name, error := none } b _
    rfl rfl rfl (by rw [hinfo.typeName]; exact hndw) hbv rfl
  dsimp only at hresult ⊢
  rw [hresult]

end Pycomm.Lgx.Drv
