/-
  Program-scoped tags with an index or a member (`Program:P.tag[i]`, `Program:P.udt.member`), layers (a) and (b):
    (b) `ldp_tagRequestPath_symbolic'`, `ldp_requestPath_levels`: the request path of `Program:P` followed by any
        levels is symbolic and denotes `Program:P`, then names and indexes;
    (a) `ldp_parse_level`: `_parse_tag_request` of `Program:P.tag[i,…]`; `ldp_parse_member`: … of `Program:P.udt.member`.
-/
import PycommProofs.LDProg3
namespace Pycomm.Lgx.Drv
open Pycomm Pycomm.Tgt Pycomm.Path Pycomm.Reply Pycomm.EP Pycomm.Lgx Pycomm.Lgx.E2E

/-! ### (b) the request path -/

/-- whenever the first dot-separated part of the tag starts with `Program:`, `tag_request_path` ignores the instance
    id and `use_instance_ids` -/
theorem ldp_tagRequestPath_symbolic' (tag base : Name) (attrs : List Name) (hsplit : PyStr.split 46 tag = base :: attrs)
    (hsw : PyStr.startsWith (Path.nm "Program:") base = true) (iid : Option Nat) (useIds : Bool) :
    tagRequestPath tag iid useIds = tagRequestPath tag none false := by
  unfold tagRequestPath
  rw [hsplit]
  simp only [hsw, Bool.not_true, Bool.and_false, Bool.false_and, Bool.false_eq_true, if_false]

/-- the size bound of the levels -/
def ldp_levelsSize (ls : List TagLevel) : Nat := (ls.map fun l => 2 + l.name.length + 1 + 6 * l.idx.length).sum

/-- (b, path) `tag_request_path` of `Program:P.<levels>` with ANY entry of the tag database and ANY setting of
    `use_instance_ids`: it exists, is short, and the controller's strict parser reads it as `Program:P` followed by the
    names and indexes of the levels -/
theorem ldp_requestPath_levels (cfg : Cfg) (P : Name) (ls : List TagLevel) (info : TagInfo)
    (hP : PlainIdent P) (hPl : P.length ≤ 247) (hw : ∀ l ∈ ls, WfLevel l)
    (hsize : P.length + 11 + ldp_levelsSize ls ≤ 510) :
    ∃ path, requestPathOf cfg (renderTag (⟨ldp_prog P, []⟩ :: ls)) info = .ok path ∧
      path.length ≤ P.length + 12 + ldp_levelsSize ls ∧
      Denotes path (PSeg.symbol ((ldp_prog P).map UInt8.ofNat) :: ls.flatMap levelSegs) := by
  have hw' : ∀ l ∈ (⟨ldp_prog P, []⟩ : TagLevel) :: ls, WfLevel l := by
    intro l hl
    rcases List.mem_cons.1 hl with rfl | hl
    · exact ldp_prog_wf P hP hPl
    · exact hw l hl
  have hsz : (((⟨ldp_prog P, []⟩ : TagLevel) :: ls).map fun l => 2 + l.name.length + 1 + 6 * l.idx.length).sum =
      P.length + 11 + ldp_levelsSize ls := by
    simp only [List.map_cons, List.sum_cons, List.length_nil, ldp_prog_length, ldp_levelsSize]; omega
  have hall := encAll_levels ((⟨ldp_prog P, []⟩ : TagLevel) :: ls) hw'
  rw [hsz] at hall
  obtain ⟨bs, hb, hp⟩ := hall.request hsize
  have hlen := ldr_encEpath_len hall hb
  have hsplit := split_renderTag ((⟨ldp_prog P, []⟩ : TagLevel) :: ls) (by simp) hw'
  have hrl : renderLevel ⟨ldp_prog P, []⟩ = ldp_prog P := by simp [renderLevel]
  have hfind := findTagIndex_render' ⟨ldp_prog P, []⟩ (ldp_prog_wf P hP hPl)
  have hattr := attrSegs_render ls hw
  have hb' : encEpath true ([Seg.dataStr (ldp_prog P)] ++ idxSrc [] ++ ls.flatMap levelSrc) true false = .ok bs := by
    simpa [levelSrc] using hb
  refine ⟨bs, ?_, by omega, ?_⟩
  · unfold requestPathOf
    rw [ldp_tagRequestPath_symbolic' _ (ldp_prog P) (ls.map renderLevel) (by rw [hsplit, List.map_cons, hrl])
      (ldp_prog_startsWith' P)]
    simp only [tagRequestPath, hsplit, List.map_cons, hfind, List.map_nil, indexSegs, hattr, Bool.false_and, if_false,
      Bool.false_eq_true]
    simp only [idxSrc, List.map_nil] at hb'
    rw [hb']
  · simpa [Denotes, levelSegs] using hp

/-! ### (a) parsing -/

/-- the request string `Program:P.tag[i,…]` -/
def ldp_levelStr (P : Name) (l : TagLevel) : Name := ldp_prog P ++ [46] ++ renderLevel l

theorem ldp_levelStr_render (P : Name) (l : TagLevel) : renderTag [⟨ldp_prog P, []⟩, l] = ldp_levelStr P l := by
  simp [renderTag, joinWith, renderLevel, ldp_levelStr]

theorem ldp_levelStr_plain (P t : Name) : ldp_levelStr P ⟨t, []⟩ = ldp_tagStr P t := by
  simp [ldp_levelStr, ldp_tagStr, renderLevel]

theorem ldp_levelStr_not_mem (P : Name) (l : TagLevel) (hP : PlainIdent P) (hl : ldr2_Level l) (c : Nat)
    (hc : c = 123 ∨ c = 125) : c ∉ ldp_levelStr P l := by
  intro hm
  simp only [ldp_levelStr, List.mem_append, List.mem_singleton] at hm
  rcases hm with (hm | hm) | hm
  · exact ldp_prog_not_mem P hP c (by omega) hm
  · omega
  · exact ldr2_level_not_mem l hl c (by omega) hm

theorem ldp_split_level (P : Name) (l : TagLevel) (hP : PlainIdent P) (hl : ldr2_Level l) :
    PyStr.split 46 (ldp_levelStr P l) = [ldp_prog P, renderLevel l] := by
  have e : ldp_levelStr P l = ldp_prog P ++ 46 :: renderLevel l := by simp [ldp_levelStr]
  unfold PyStr.split
  rw [e, splitOn_append_sep 46 _ _ (ldp_prog_not_mem P hP 46 (by omega)),
    splitOn_no_sep 46 _ (ldr2_level_not_mem l hl 46 (by omega))]

/-- `strip_array` of `Program:P.tag[i,…]` is `Program:P.tag` -/
theorem ldp_stripArray_level (P : Name) (l : TagLevel) (hP : PlainIdent P) (hl : ldr2_Level l) :
    stripArray (ldp_levelStr P l) = ldp_tagStr P l.name := by
  have hn91 : (91 : Nat) ∉ ldp_tagStr P l.name := by
    intro hm
    simp only [ldp_tagStr, List.mem_append, List.mem_singleton] at hm
    rcases hm with (hm | hm) | hm
    · exact ldp_prog_not_mem P hP 91 (by omega) hm
    · omega
    · exact ldr_plain_not_mem l.name hl.1 91 (by omega) hm
  unfold stripArray ldp_levelStr renderLevel
  by_cases h0 : l.idx = []
  · rw [if_pos h0]
    have : ldp_prog P ++ [46] ++ l.name = ldp_tagStr P l.name := rfl
    rw [this, find_none 91 _ hn91]
  · rw [if_neg h0]
    have e1 : ldp_prog P ++ [46] ++ (l.name ++ [91] ++ joinWith 44 (l.idx.map decRender) ++ [93]) =
        ldp_tagStr P l.name ++ 91 :: (joinWith 44 (l.idx.map decRender) ++ [93]) := by simp [ldp_tagStr]
    rw [e1, find_append 91 _ _ hn91]
    simp

/-- (a) `_parse_tag_request` of `Program:P.tag[i,…]` when the tag database knows the key `Program:P.tag` as something
    other than a DWORD: the request addresses the whole string, one element, no bit number -/
theorem ldp_parse_level (db : TagDb) (write : Bool) (rid : Nat) (P : Name) (l : TagLevel) (info : TagInfo)
    (hP : PlainIdent P) (hl : ldr2_Level l) (hget : db.get? (ldp_tagStr P l.name) = some info)
    (hnd : isDword info = false) :
    parseTagRequest db write rid (ldp_levelStr P l) =
      { requestId := rid, requestTag := ldp_levelStr P l, userTag := ldp_levelStr P l, plcTag := ldp_levelStr P l,
        bit := none, elements := 1, info := some info, boolElements := none } := by
  have hse : splitElements (ldp_levelStr P l) = .ok (ldp_levelStr P l, 1, true) :=
    ldr2_splitElements_none _ (ldp_levelStr_not_mem P l hP hl 123 (by omega))
  have hscoped : lds_scoped (ldp_prog P) [renderLevel l] = some (ldp_levelStr P l, []) := by
    unfold lds_scoped
    rw [ldp_prog_startsWith P]
    rfl
  have hgi : getTagInfo db (ldp_levelStr P l) [] = .ok (some info) := by
    unfold getTagInfo
    rw [ldp_stripArray_level P l hP hl, hget]
    simp
  rw [lds_parse_unfold, hse]
  simp only [Int.reduceLE, and_self, decide_true, Bool.not_true, Bool.false_eq_true, if_false,
    ldp_split_level P l hP hl, List.find?_cons, ldp_indexPartOk_prog P hP, ldr2_indexPartOk_level l hl, List.find?_nil,
    hscoped, ldr2_bitSplit_none]
  unfold lds_tail
  simp only [hgi, lds_bitBad, hnd, Bool.false_eq_true, if_false]

/-- the request string `Program:P.udt.member` -/
def ldp_memberStr (P t m : Name) : Name := ldp_tagStr P t ++ [46] ++ m

theorem ldp_memberStr_render (P t m : Name) :
    renderTag [⟨ldp_prog P, []⟩, ⟨t, []⟩, ⟨m, []⟩] = ldp_memberStr P t m := by
  simp [renderTag, joinWith, renderLevel, ldp_memberStr, ldp_tagStr]

theorem ldp_split_member (P t m : Name) (hP : PlainIdent P) (ht : PlainIdent t) (hm : PlainIdent m) :
    PyStr.split 46 (ldp_memberStr P t m) = [ldp_prog P, t, m] := by
  have e : ldp_memberStr P t m = ldp_prog P ++ 46 :: (t ++ 46 :: m) := by simp [ldp_memberStr, ldp_tagStr]
  unfold PyStr.split
  rw [e, splitOn_append_sep 46 _ _ (ldp_prog_not_mem P hP 46 (by omega)),
    splitOn_append_sep 46 _ _ (ldr_plain_not_mem t ht 46 (by omega)),
    splitOn_no_sep 46 _ (ldr_plain_not_mem m hm 46 (by omega))]

/-- (a) `_parse_tag_request` of `Program:P.udt.member` where the tag database knows `Program:P.udt` as a structure and
    `member` is an elementary member other than a DWORD whose name is not a number -/
theorem ldp_parse_member (db : TagDb) (write : Bool) (rid : Nat) (P t m : Name) (info minfo : TagInfo)
    (hP : PlainIdent P) (ht : PlainIdent t) (hm : PlainIdent m) (hnum : PyStr.isDigit m = false)
    (hget : db.get? (ldp_tagStr P t) = some info) (hk : info.core.tagType = .struct)
    (hmget : info.members.get? m = some minfo) (hnd : isDword minfo = false) :
    parseTagRequest db write rid (ldp_memberStr P t m) =
      { requestId := rid, requestTag := ldp_memberStr P t m, userTag := ldp_memberStr P t m,
        plcTag := ldp_memberStr P t m, bit := none, elements := 1, info := some minfo, boolElements := none } := by
  have h123 : (123 : Nat) ∉ ldp_memberStr P t m := by
    intro hx
    simp only [ldp_memberStr, List.mem_append, List.mem_singleton] at hx
    rcases hx with (hx | hx) | hx
    · exact ldp_tagStr_not_mem P t hP ht 123 (by omega) hx
    · omega
    · exact ldr_plain_not_mem m hm 123 (by omega) hx
  have hse : splitElements (ldp_memberStr P t m) = .ok (ldp_memberStr P t m, 1, true) :=
    ldr2_splitElements_none _ h123
  have hscoped : lds_scoped (ldp_prog P) [t, m] = some (ldp_tagStr P t, [m]) := by
    unfold lds_scoped
    rw [ldp_prog_startsWith P]
    rfl
  have hbs : lds_bitSplit (ldp_memberStr P t m) (ldp_tagStr P t) [m] = (none, [m], ldp_memberStr P t m) := by
    unfold lds_bitSplit
    simp only [List.getLast?_singleton, hnum, Bool.false_eq_true, if_false]
  have hgi : getTagInfo db (ldp_tagStr P t) [m] = .ok (some minfo) := by
    unfold getTagInfo
    rw [ldp_stripArray P t hP ht, hget]
    simp only [List.isEmpty_cons, Bool.false_eq_true, if_false, hk, recurseAttrs, ldr_stripArray m hm, hmget]
  rw [lds_parse_unfold, hse]
  simp only [Int.reduceLE, and_self, decide_true, Bool.not_true, Bool.false_eq_true, if_false,
    ldp_split_member P t m hP ht hm, List.find?_cons, ldp_indexPartOk_prog P hP, ldr_indexPartOk t ht,
    ldr_indexPartOk m hm, List.find?_nil, hscoped, hbs]
  unfold lds_tail
  simp only [hgi, lds_bitBad, hnd, Bool.false_eq_true, if_false]

end Pycomm.Lgx.Drv
