/-
  C18 at the driver level, second part: `SLCDriver.read(*addresses)` / `SLCDriver.write(*address_values)` (model:
  SlcDriver.lean) through the whole stack for what SlcDriverProofs.lean leaves to correspondence -
  float (F) and long (L) files, `{n}` writes with a list of values, several writes in one call, and the status / input /
  output files from the address TEXT to the value.

  The string (ST) and ASCII (A) files are not part of the model (`parseTag` of Slc.lean has no pattern for them:
  `parseTag (nm "ST9:0") = none`, `parseTag (nm "A10:0") = none`), so nothing is stated about them here.

  Layers (lemmas usable on their own):
    SlcDrv2A  `sd2_full_write_core` (a full-mask write of any even size, index view), `sd2_writeAddr_full`,
              `sd2_writeable_long / _float / _count` (what `writeable_value` builds)
    SlcDrv2B  `sd2_write_read_long / _float / _count` (table level: write, then read), `sd2_narrow_lt`
    SlcDrv2C  the table seen through file numbers (`sd2_file`, `sd2_cell`, `sd2_SameShape`, `sd2_Holds`),
              `sd2_write_view`, `sd2_writeRun`, `sd2_run_disjoint` (non-overlapping full-mask writes one after the other)
    SlcDrv2D  `sd2_write_then_read`, `sd2_writeTag_addr`, `sd2_writeTags_all`, `sd2_writeTags_raises`
    SlcDrv2E  `{n}` reads / writes of the 4-byte-element files: `sd2_read_count_long / _float`,
              `sd2_write_read_count_long / _float` (on the codec-generic `sd2_write_read_count4`)
  (`sd2_writeable_len` of SlcDrv2A: the value `writeable_value` builds for an accepted address is at most 257 bytes.)
-/
import PycommProofs.SlcDrv2E
import PycommProofs.SlcDriverProofs
namespace Pycomm.Slc.Drv
open Pycomm Pycomm.Tgt Pycomm.Slc

/-- `writeable_value` of a 16-bit integer for a word element -/
theorem sd2_writeable_word (a : Addr) (x : Int) (hx : -32768 ≤ x ∧ x ≤ 32767)
    (hty : elemTy a.fileType = some (.int .int)) (hsz : dataSize a.fileType = 2) (haf : a.addressField = 2)
    (hc : a.count = 1) : writeableValue a (.int x) = .ok ([0xFF, 0xFF] ++ leBytes 2 (word16 x), 2) := by
  have henc : encode (.int .int) (.int x) = .ok (leBytes 2 (word16 x)) := by
    have := encode_int_wire .int x (by simp [IntK.lo, IntK.signed, IntK.size]; omega)
      (by simp [IntK.hi, IntK.signed, IntK.size]; omega)
    rw [this]
    simp only [IntK.size, word16]
    rfl
  unfold writeableValue
  simp only [hty, hsz, hc, haf, henc]
  rw [if_neg (by decide), if_neg (by decide)]

/-- a word write is a full-mask write of the table -/
theorem sd2_fullWrite_word (tbl : Table) (a : Addr) (f : SlcFile) (x : Int) (hx : -32768 ≤ x ∧ x ≤ 32767)
    (hft : a.fileType ∈ wordFiles) (haf : a.addressField = 2) (hc : a.count = 1) (hr : InRange a)
    (hp : a.posNumber < 65536) (hl : Located tbl a f)
    (hin : 2 * a.element + 2 * a.posNumber + 2 ≤ f.data.length) :
    sd2_FullWrite tbl a (.int x) (leBytes 2 (word16 x)) ∧ sd2_off a = 2 * a.element + 2 * a.posNumber ∧
      sd2_size a = 2 := by
  obtain ⟨hty, hsz, heb, h84, h67⟩ := slx_wordFiles hft
  have hoff : sd2_off a = 2 * a.element + 2 * a.posNumber := by
    simp only [sd2_off, byteOffset, heb]; omega
  have hsize : sd2_size a = 2 := by simp only [sd2_size, hsz, hc]
  refine ⟨⟨by rw [hsz]; exact sd2_writeable_word a x hx hty hsz haf hc,
    fun h => by rcases h.1 with h' | h' <;> simp [h'] at h84 h67, by omega, by omega, by omega, by rw [hsize]; rfl,
    hr, hp, ⟨f, hl, by rw [hoff, hsize]; exact hin⟩⟩, hoff, hsize⟩

/-- the Tag `_read_tag` makes of the two bytes of a 16-bit integer -/
theorem sd2_readTagOf_word (a : Addr) (x : Int) (hx : -32768 ≤ x ∧ x ≤ 32767)
    (hty : elemTy a.fileType = some (.int .int)) (hsz : dataSize a.fileType = 2) (haf : a.addressField = 2) :
    sdr_readTagOf a (.ok (leBytes 2 (word16 x))) = { tag := a.tag, value := .int x, type := a.fileType, error := none } := by
  simp only [sdr_readTagOf, slx_le2, slx_reply_word a hty hsz haf, slx_le2_val _ (slx_word16_lt x),
    slx_int16_word16 x hx]

/-- `(value & (1 << b)) != 0` on an unsigned 16-bit word is bit b of the word -/
theorem sd2_intBit_nat (w b : Nat) (hw : w < 65536) : intBit (w : Int) b = w.testBit b := by
  unfold intBit
  rw [Nat.testBit_eq_decide_div_mod_eq]
  have : ((w : Int) % ((2 ^ 64 : Nat) : Int)).toNat = w := by omega
  rw [this]

/-- a bit read of a float element (since the library repair): the bit of the element's first word -/
theorem sd2_reply_float_bit (a : Addr) (hft : a.fileType = [70]) (haf : a.addressField = 3) (b0 b1 : UInt8)
    (rest : Bytes) :
    parseReadReply a (b0 :: b1 :: rest) = .ok (.bool ((b0.toNat + 256 * b1.toNat).testBit a.subElement)) := by
  have hty : elemTy a.fileType = some .real := by rw [hft]; rfl
  have h84 : a.fileType ≠ [84] := by rw [hft]; decide
  have h67 : a.fileType ≠ [67] := by rw [hft]; decide
  have hd := decode_int_wire .uint [b0, b1] [] rfl
  have hl : leVal [b0, b1] = b0.toNat + 256 * b1.toNat := by simp [leVal]
  simp only [List.append_nil, IntK.signed, Bool.false_eq_true, false_and, if_false, hl] at hd
  have hlt : b0.toNat + 256 * b1.toNat < 65536 := by
    have := b0.toNat_lt; have := b1.toNat_lt; omega
  unfold parseReadReply
  simp only [hty, haf, h84, h67, or_self, false_and, if_false, if_true]
  rw [if_pos hft]
  simp only [List.take_succ_cons, List.take_zero, hd, sd2_intBit_nat _ _ hlt]

/-- bit read of a float-file address at the table level: bit b of the word at byte offset 4e -/
theorem sd2_read_float_bit (tbl : Table) (a : Addr) (f : SlcFile) (hft : a.fileType = [70]) (haf : a.addressField = 3)
    (hc : a.count = 1) (hr : InRange a) (hl : Located tbl a f) (hin : 4 * a.element + 4 ≤ f.data.length) :
    ∃ data, readAddr tbl a = .ok data ∧
      parseReadReply a data = .ok (.bool (wordBit (wordAt f.data (4 * a.element)) a.subElement)) := by
  have hsz : dataSize a.fileType = 4 := by rw [hft]; decide
  have heb : elemBytes (typeCode a.fileType) = 4 := by rw [hft]; decide
  have hpos : a.posNumber = 0 := hr.pos (by simp [hft]) (by simp [hft])
  have hoff : byteOffset (typeCode a.fileType) a.element a.posNumber = 4 * a.element := by
    simp only [byteOffset, heb, hpos]; omega
  have hrd := slx_readAddr_eq tbl a (by rw [hsz, hc]; decide) hr.file hr.elem (by omega)
  rw [hsz, hc, slx_typedRead_ok tbl f 4 _ _ _ _ hl.find hl.ftype (by decide) (by rw [hoff]; exact hin), hoff,
    sd2_take4_drop f.data _ hin] at hrd
  exact ⟨_, hrd, by rw [sd2_reply_float_bit a hft haf]; rfl⟩

/-- bit write of a float-file address at the table level, then the read: a masked write of bit b of the word at byte
    offset 4e -/
theorem sd2_write_read_float_bit (tbl : Table) (a : Addr) (f : SlcFile) (v : PyVal) (hft : a.fileType = [70])
    (haf : a.addressField = 3) (hc : a.count = 1) (hr : InRange a) (hl : Located tbl a f)
    (hu : (tbl.filter (fun g => g.num == a.fileNumber)).length ≤ 1) (hin : 4 * a.element + 4 ≤ f.data.length) :
    ∃ tbl', writeAddr tbl a v = .ok tbl' ∧
      (∃ data, readAddr tbl' a = .ok data ∧ parseReadReply a data = .ok (.bool v.truthy)) ∧
      tbl'.length = tbl.length ∧
      ∀ (i : Nat) (g0 : SlcFile), tbl[i]? = some g0 → ∃ g, tbl'[i]? = some g ∧ g.num = g0.num ∧ g.ftype = g0.ftype ∧
        (g0.num ≠ a.fileNumber → g = g0) ∧
        (g0.num = a.fileNumber → g.data.length = g0.data.length ∧
          (∀ j, (j < 4 * a.element ∨ 4 * a.element + 2 ≤ j) → g.data[j]? = g0.data[j]?) ∧
          ∀ k, k < 16 → wordBit (wordAt g.data (4 * a.element)) k =
            if k = a.subElement then v.truthy else wordBit (wordAt g0.data (4 * a.element)) k) := by
  have heb : elemBytes (typeCode a.fileType) = 4 := by rw [hft]; decide
  have hpos : a.posNumber = 0 := hr.pos (by simp [hft]) (by simp [hft])
  have hoff : byteOffset (typeCode a.fileType) a.element a.posNumber = 4 * a.element := by
    simp only [byteOffset, heb, hpos]; omega
  have hb : a.subElement < 16 := by have := hr.sub; omega
  have hW := slx_writeAddr_bit tbl a v haf hc hr.sub (fun h => by rcases h.1 with h' | h' <;> rw [hft] at h' <;> cases h')
    (by rw [hft]; rfl) hr.file hr.elem (by omega)
  obtain ⟨tbl', f', hmw, hfind', hty', hlen', hbits, _, hlenT, hfr⟩ :=
    slx_bit_write_core tbl f a.fileNumber (typeCode a.fileType) a.element a.posNumber a.subElement v.truthy
      hl.find hl.ftype hu hb (by rw [hoff]; omega)
  rw [hoff] at hbits hfr
  refine ⟨tbl', by rw [hW, hmw], ?_, hlenT, hfr⟩
  obtain ⟨data, h1, h2⟩ := sd2_read_float_bit tbl' a f' hft haf hc hr ⟨hfind', hty'⟩ (by rw [hlen']; exact hin)
  refine ⟨data, h1, ?_⟩
  rw [h2, hbits a.subElement hb, if_pos rfl]

-- PROPERTY THEOREMS

/-! ### 1. float and long files -/

/-- C18, driver level: `read(address)` of an accepted float-file word address (`F8:e`) located in the data table the
    target holds, on a healthy connected driver, returns exactly one error-free Tag carrying the address text, the file
    type letter and the Python float (binary64 bit pattern) that the binary32 value in the 4 bytes of that element
    widens to; two counter values are drawn, one frame is written, the data table is unchanged, the world healthy. -/
theorem slc_read_float_e2e (w : Cli.World Ext) (sess : Nat) (cidb : Bytes) (conn : Tgt.Conn) (tbl : Table) (t : Name)
    (a : Addr) (f : SlcFile)
    (hH : Lgx.Drv.ldr_Healthy w sess cidb conn) (htbl : w.net.target.ext.slc = some tbl)
    (hvid : w.drv.vid.length = 2) (hvsn : w.drv.vsn.length = 4) (hC : 64 ≤ conn.size)
    (hparse : parseTag t = some a) (hft : a.fileType = [70]) (haf : a.addressField = 2) (hc : a.count = 1)
    (hl : Located tbl a f) (hin : 4 * a.element + 4 ≤ f.data.length) :
    ∃ w' frm, slcRead hookAll w [t] =
        (w', .ok [{ tag := a.tag, value := .float (Flt.widen (dwordAt f.data (4 * a.element))),
                    type := a.fileType, error := none }]) ∧
      w'.drv = w.drv.nextSeq.2.nextSeq.2 ∧ w'.net.sent = w.net.sent ++ [frm] ∧
      w'.net.target.ext = w.net.target.ext ∧
      Lgx.Drv.ldr_Healthy w' sess cidb { conn with lastSeq := some w.drv.nextSeq.2.nextSeq.1 } := by
  have hr := parse_accepts_in_range t a hparse
  have hsz : dataSize a.fileType = 4 := by rw [hft]; decide
  have hpos : a.posNumber = 0 := hr.pos (by simp [hft]) (by simp [hft])
  obtain ⟨data, h1, h2⟩ := read_float_e2e tbl a f hft haf hc hr hl hin
  obtain ⟨w', frm, hread, hrest⟩ := sdr_read_one w sess cidb conn tbl t a hH htbl hvid hvsn hC hparse
    (by rw [hsz, hc]; decide) (by omega)
  refine ⟨w', frm, ?_, hrest⟩
  rw [hread, h1]
  simp only [sdr_readTagOf, h2]

/-- … of an accepted long-file word address (`L9:e`): the Tag carries the two's complement value of the 4 bytes of
    that element. -/
theorem slc_read_long_e2e (w : Cli.World Ext) (sess : Nat) (cidb : Bytes) (conn : Tgt.Conn) (tbl : Table) (t : Name)
    (a : Addr) (f : SlcFile)
    (hH : Lgx.Drv.ldr_Healthy w sess cidb conn) (htbl : w.net.target.ext.slc = some tbl)
    (hvid : w.drv.vid.length = 2) (hvsn : w.drv.vsn.length = 4) (hC : 64 ≤ conn.size)
    (hparse : parseTag t = some a) (hft : a.fileType = [76]) (haf : a.addressField = 2) (hc : a.count = 1)
    (hl : Located tbl a f) (hin : 4 * a.element + 4 ≤ f.data.length) :
    ∃ w' frm, slcRead hookAll w [t] =
        (w', .ok [{ tag := a.tag, value := .int (int32 (dwordAt f.data (4 * a.element))),
                    type := a.fileType, error := none }]) ∧
      w'.drv = w.drv.nextSeq.2.nextSeq.2 ∧ w'.net.sent = w.net.sent ++ [frm] ∧
      w'.net.target.ext = w.net.target.ext ∧
      Lgx.Drv.ldr_Healthy w' sess cidb { conn with lastSeq := some w.drv.nextSeq.2.nextSeq.1 } := by
  have hr := parse_accepts_in_range t a hparse
  have hsz : dataSize a.fileType = 4 := by rw [hft]; decide
  have hpos : a.posNumber = 0 := hr.pos (by simp [hft]) (by simp [hft])
  obtain ⟨data, h1, h2⟩ := read_long_e2e tbl a f hft haf hc hr hl hin
  obtain ⟨w', frm, hread, hrest⟩ := sdr_read_one w sess cidb conn tbl t a hH htbl hvid hvsn hC hparse
    (by rw [hsz, hc]; decide) (by omega)
  refine ⟨w', frm, ?_, hrest⟩
  rw [hread, h1]
  simp only [sdr_readTagOf, h2]

/-- C18, driver level, write then read of a long (`L9:e`): `write((address, x))` of a 32-bit integer returns one
    error-free Tag echoing x and leaves a healthy world whose data table `tbl'` differs from the old one only in the 4
    bytes of that element (every other file identical, every other byte of the file unchanged), which hold x; a
    following `read(address)` returns one error-free Tag with value x.  Four counter values are drawn, two frames
    written. -/
theorem slc_write_then_read_long_e2e (w : Cli.World Ext) (sess : Nat) (cidb : Bytes) (conn : Tgt.Conn) (tbl : Table)
    (t : Name) (a : Addr) (f : SlcFile) (x : Int)
    (hH : Lgx.Drv.ldr_Healthy w sess cidb conn) (htbl : w.net.target.ext.slc = some tbl)
    (hvid : w.drv.vid.length = 2) (hvsn : w.drv.vsn.length = 4) (hC : 500 ≤ conn.size)
    (hparse : parseTag t = some a) (hx : -2147483648 ≤ x ∧ x ≤ 2147483647) (hft : a.fileType = [76])
    (haf : a.addressField = 2) (hc : a.count = 1) (hl : Located tbl a f)
    (hu : (tbl.filter (fun g => g.num == a.fileNumber)).length ≤ 1)
    (hin : 4 * a.element + 4 ≤ f.data.length) :
    ∃ w1 w2 frm1 frm2 tbl',
      slcWrite hookAll w [(t, .int x)] = (w1, .ok [{ tag := a.tag, value := .int x, type := a.fileType, error := none }]) ∧
      w1.net.target.ext = { w.net.target.ext with slc := some tbl' } ∧
      slcRead hookAll w1 [t] = (w2, .ok [{ tag := a.tag, value := .int x, type := a.fileType, error := none }]) ∧
      w2.net.target.ext = { w.net.target.ext with slc := some tbl' } ∧
      w2.net.sent = w.net.sent ++ [frm1, frm2] ∧ w2.drv = w.drv.nextSeq.2.nextSeq.2.nextSeq.2.nextSeq.2 ∧
      Lgx.Drv.ldr_Healthy w2 sess cidb { conn with lastSeq := some w.drv.nextSeq.2.nextSeq.2.nextSeq.2.nextSeq.1 } ∧
      tbl'.length = tbl.length ∧
      ∀ (i : Nat) (g0 : SlcFile), tbl[i]? = some g0 → ∃ g, tbl'[i]? = some g ∧ g.num = g0.num ∧ g.ftype = g0.ftype ∧
        (g0.num ≠ a.fileNumber → g = g0) ∧
        (g0.num = a.fileNumber → g.data.length = g0.data.length ∧
          (∀ j, (j < 4 * a.element ∨ 4 * a.element + 4 ≤ j) → g.data[j]? = g0.data[j]?) ∧
          int32 (dwordAt g.data (4 * a.element)) = x) := by
  have hr := parse_accepts_in_range t a hparse
  have hsz : dataSize a.fileType = 4 := by rw [hft]; decide
  have hpos : a.posNumber = 0 := hr.pos (by simp [hft]) (by simp [hft])
  obtain ⟨tbl', hwa, ⟨data, hra, hdec⟩, hlen, hfr⟩ := sd2_write_read_long tbl a f x hx hft haf hc hr hl hu hin
  obtain ⟨w1, w2, frm1, frm2, h1, h2, h3, h4, h5, h6, h7⟩ := sd2_write_then_read w sess cidb conn tbl tbl' t a (.int x)
    hH htbl hvid hvsn hC hparse (fun b h => by cases h) (fun k h => by cases h) (by omega) (by rw [hsz, hc]; decide) hwa
  refine ⟨w1, w2, frm1, frm2, tbl', h1, h2, ?_, h4, h5, h6, h7, hlen, hfr⟩
  rw [h3, hra]
  simp only [sdr_readTagOf, hdec]

-- STATEMENT CHANGED: "the float written is the float read back" is false of the model (and of `struct.pack('<f')`):
-- `write(("F8:0", 0.1))`, then `read("F8:0")` returns 0.10000000149011612 (binary64 0x3FB99999A0000000), not 0.1
-- (0x3FB999999999999A): the element holds the binary32 rounding 0x3DCCCCCD (example in the non-vacuity section).  The
-- statement is therefore made on the 4 bytes: they are the binary32 pattern `b32` the value rounds to, the read returns
-- what `b32` widens to, and that is the value written exactly when `Flt.widen b32 = b` (the value is representable in
-- binary32).  A finite float beyond the binary32 range has no `b32`: `write(("F8:0", 1e39))` raises RequestError.
/-- C18, driver level, write then read of a float (`F8:e`), at the level of the 4 bytes: `write((address, y))` of a
    Python float y (binary64 bit pattern `b`) that `struct.pack('<f')` rounds to the binary32 bit pattern `b32`
    (`Flt.narrow b = some b32`: every finite value in binary32 range, the infinities, NaNs) returns one error-free Tag
    echoing y; in the data table `tbl'` left behind the 4 bytes of that element are `b32` (little endian), every other
    byte of the file and every other file unchanged; a following `read(address)` returns the float `b32` widens to -
    y itself exactly when y is representable in binary32. -/
theorem slc_write_then_read_float_e2e (w : Cli.World Ext) (sess : Nat) (cidb : Bytes) (conn : Tgt.Conn) (tbl : Table)
    (t : Name) (a : Addr) (f : SlcFile) (b b32 : Nat)
    (hH : Lgx.Drv.ldr_Healthy w sess cidb conn) (htbl : w.net.target.ext.slc = some tbl)
    (hvid : w.drv.vid.length = 2) (hvsn : w.drv.vsn.length = 4) (hC : 500 ≤ conn.size)
    (hparse : parseTag t = some a) (hnar : Flt.narrow b = some b32) (hft : a.fileType = [70])
    (haf : a.addressField = 2) (hc : a.count = 1) (hl : Located tbl a f)
    (hu : (tbl.filter (fun g => g.num == a.fileNumber)).length ≤ 1)
    (hin : 4 * a.element + 4 ≤ f.data.length) :
    ∃ w1 w2 frm1 frm2 tbl',
      slcWrite hookAll w [(t, .float b)] =
        (w1, .ok [{ tag := a.tag, value := .float b, type := a.fileType, error := none }]) ∧
      w1.net.target.ext = { w.net.target.ext with slc := some tbl' } ∧
      slcRead hookAll w1 [t] =
        (w2, .ok [{ tag := a.tag, value := .float (Flt.widen b32), type := a.fileType, error := none }]) ∧
      (Flt.widen b32 = b → slcRead hookAll w1 [t] =
        (w2, .ok [{ tag := a.tag, value := .float b, type := a.fileType, error := none }])) ∧
      w2.net.target.ext = { w.net.target.ext with slc := some tbl' } ∧
      w2.net.sent = w.net.sent ++ [frm1, frm2] ∧ w2.drv = w.drv.nextSeq.2.nextSeq.2.nextSeq.2.nextSeq.2 ∧
      Lgx.Drv.ldr_Healthy w2 sess cidb { conn with lastSeq := some w.drv.nextSeq.2.nextSeq.2.nextSeq.2.nextSeq.1 } ∧
      tbl'.length = tbl.length ∧
      ∀ (i : Nat) (g0 : SlcFile), tbl[i]? = some g0 → ∃ g, tbl'[i]? = some g ∧ g.num = g0.num ∧ g.ftype = g0.ftype ∧
        (g0.num ≠ a.fileNumber → g = g0) ∧
        (g0.num = a.fileNumber → g.data.length = g0.data.length ∧
          (∀ j, (j < 4 * a.element ∨ 4 * a.element + 4 ≤ j) → g.data[j]? = g0.data[j]?) ∧
          dwordAt g.data (4 * a.element) = b32) := by
  have hr := parse_accepts_in_range t a hparse
  have hsz : dataSize a.fileType = 4 := by rw [hft]; decide
  have hpos : a.posNumber = 0 := hr.pos (by simp [hft]) (by simp [hft])
  obtain ⟨tbl', hwa, ⟨data, hra, hdec⟩, hlen, hfr⟩ := sd2_write_read_float tbl a f b b32 hnar hft haf hc hr hl hu hin
  obtain ⟨w1, w2, frm1, frm2, h1, h2, h3, h4, h5, h6, h7⟩ := sd2_write_then_read w sess cidb conn tbl tbl' t a (.float b)
    hH htbl hvid hvsn hC hparse (fun b h => by cases h) (fun k h => by cases h) (by omega) (by rw [hsz, hc]; decide) hwa
  have hrd : slcRead hookAll w1 [t] =
      (w2, .ok [{ tag := a.tag, value := .float (Flt.widen b32), type := a.fileType, error := none }]) := by
    rw [h3, hra]
    simp only [sdr_readTagOf, hdec]
  refine ⟨w1, w2, frm1, frm2, tbl', h1, h2, hrd, ?_, h4, h5, h6, h7, hlen, hfr⟩
  intro hrep
  rw [hrd, hrep]

-- STATEMENT NOTE: the float value theorems require `a.addressField = 2`.  `parse_tag` also accepts the BIT form of a float
-- address, `F8:0/3` (pattern `[LFBN]f:e/b`); a bit write to it masks bit b of the FIRST 16-bit word of the element
-- (`write(("F8:0/3", True))` turns 1.5 = 00 00 C0 3F into 08 00 C0 3F).
-- (history) Before the library repair "fix: a bit read of a float-file address takes the bit of the element's first
-- word" a read of such an address never succeeded: `_parse_read_reply` decoded the 4 bytes as a float and
-- `get_bit(<float>, 3)` raised TypeError, which came back as a falsy Tag with error "Failed parsing tag read reply",
-- while the write to the same address reported success (found by the previous version of `slc_read_float_bit_e2e`,
-- which stated the falsy Tag; confirmed on the real driver).  The repaired driver (and this model) decodes the first
-- word of the reply as UINT and returns its bit b - the bit a write to the address sets; `#guard`s in the non-vacuity section.
/-- C18, driver level: `read(address)` of the bit form of a float address (`F8:e/b`, b ≤ 15): exactly one error-free Tag
    carrying bit b of the 16-bit word at byte offset 4e of the file (the first word of element e); the data table is
    unchanged. -/
theorem slc_read_float_bit_e2e (w : Cli.World Ext) (sess : Nat) (cidb : Bytes) (conn : Tgt.Conn) (tbl : Table) (t : Name)
    (a : Addr) (f : SlcFile)
    (hH : Lgx.Drv.ldr_Healthy w sess cidb conn) (htbl : w.net.target.ext.slc = some tbl)
    (hvid : w.drv.vid.length = 2) (hvsn : w.drv.vsn.length = 4) (hC : 64 ≤ conn.size)
    (hparse : parseTag t = some a) (hft : a.fileType = [70]) (haf : a.addressField = 3) (hc : a.count = 1)
    (hl : Located tbl a f) (hin : 4 * a.element + 4 ≤ f.data.length) :
    ∃ w' frm, slcRead hookAll w [t] =
        (w', .ok [{ tag := a.tag, value := .bool (wordBit (wordAt f.data (4 * a.element)) a.subElement),
                    type := a.fileType, error := none }]) ∧
      w'.drv = w.drv.nextSeq.2.nextSeq.2 ∧ w'.net.sent = w.net.sent ++ [frm] ∧
      w'.net.target.ext = w.net.target.ext ∧
      Lgx.Drv.ldr_Healthy w' sess cidb { conn with lastSeq := some w.drv.nextSeq.2.nextSeq.1 } := by
  have hr := parse_accepts_in_range t a hparse
  have hsz : dataSize a.fileType = 4 := by rw [hft]; decide
  have hpos : a.posNumber = 0 := hr.pos (by simp [hft]) (by simp [hft])
  obtain ⟨data, h1, h2⟩ := sd2_read_float_bit tbl a f hft haf hc hr hl hin
  obtain ⟨w', frm, hread, hrest⟩ := sdr_read_one w sess cidb conn tbl t a hH htbl hvid hvsn hC hparse
    (by rw [hsz, hc]; decide) (by omega)
  refine ⟨w', frm, ?_, hrest⟩
  rw [hread, h1]
  simp only [sdr_readTagOf, h2]

/-- C18, driver level, write then read of the bit form of a float address (`F8:e/b`): `write((address, v))` of any
    value other than `bytes` / `dict` returns one error-free Tag echoing v; in the data table `tbl'` left behind every
    other file is identical, every byte of the file outside the first word of element e is unchanged (the upper word of
    the element included) and, of that word, exactly bit b is `bool(v)` while every other bit keeps its value; a
    following `read(address)` returns `bool(v)`. -/
theorem slc_write_then_read_float_bit_e2e (w : Cli.World Ext) (sess : Nat) (cidb : Bytes) (conn : Tgt.Conn)
    (tbl : Table) (t : Name) (a : Addr) (f : SlcFile) (v : PyVal)
    (hH : Lgx.Drv.ldr_Healthy w sess cidb conn) (htbl : w.net.target.ext.slc = some tbl)
    (hvid : w.drv.vid.length = 2) (hvsn : w.drv.vsn.length = 4) (hC : 500 ≤ conn.size)
    (hparse : parseTag t = some a) (hnb : ∀ b, v ≠ .bytes b) (hnd : ∀ kvs, v ≠ .dict kvs)
    (hft : a.fileType = [70]) (haf : a.addressField = 3) (hc : a.count = 1)
    (hl : Located tbl a f) (hu : (tbl.filter (fun g => g.num == a.fileNumber)).length ≤ 1)
    (hin : 4 * a.element + 4 ≤ f.data.length) :
    ∃ w1 w2 frm1 frm2 tbl',
      slcWrite hookAll w [(t, v)] = (w1, .ok [{ tag := a.tag, value := v, type := a.fileType, error := none }]) ∧
      w1.net.target.ext = { w.net.target.ext with slc := some tbl' } ∧
      slcRead hookAll w1 [t] = (w2, .ok [{ tag := a.tag, value := .bool v.truthy, type := a.fileType, error := none }]) ∧
      w2.net.target.ext = { w.net.target.ext with slc := some tbl' } ∧
      w2.net.sent = w.net.sent ++ [frm1, frm2] ∧ w2.drv = w.drv.nextSeq.2.nextSeq.2.nextSeq.2.nextSeq.2 ∧
      Lgx.Drv.ldr_Healthy w2 sess cidb { conn with lastSeq := some w.drv.nextSeq.2.nextSeq.2.nextSeq.2.nextSeq.1 } ∧
      tbl'.length = tbl.length ∧
      ∀ (i : Nat) (g0 : SlcFile), tbl[i]? = some g0 → ∃ g, tbl'[i]? = some g ∧ g.num = g0.num ∧ g.ftype = g0.ftype ∧
        (g0.num ≠ a.fileNumber → g = g0) ∧
        (g0.num = a.fileNumber → g.data.length = g0.data.length ∧
          (∀ j, (j < 4 * a.element ∨ 4 * a.element + 2 ≤ j) → g.data[j]? = g0.data[j]?) ∧
          ∀ k, k < 16 → wordBit (wordAt g.data (4 * a.element)) k =
            if k = a.subElement then v.truthy else wordBit (wordAt g0.data (4 * a.element)) k) := by
  have hr := parse_accepts_in_range t a hparse
  have hsz : dataSize a.fileType = 4 := by rw [hft]; decide
  have hpos : a.posNumber = 0 := hr.pos (by simp [hft]) (by simp [hft])
  obtain ⟨tbl', hwa, ⟨data, hra, hdec⟩, hlen, hfr⟩ := sd2_write_read_float_bit tbl a f v hft haf hc hr hl hu hin
  obtain ⟨w1, w2, frm1, frm2, h1, h2, h3, h4, h5, h6, h7⟩ := sd2_write_then_read w sess cidb conn tbl tbl' t a v
    hH htbl hvid hvsn hC hparse hnb hnd (by omega) (by rw [hsz, hc]; decide) hwa
  refine ⟨w1, w2, frm1, frm2, tbl', h1, h2, ?_, h4, h5, h6, h7, hlen, hfr⟩
  rw [h3, hra]
  simp only [sdr_readTagOf, hdec]

/-! ### 3. `{n}` writes with a list of values -/

-- STATEMENT NOTE: the Tag a `{n}` write returns echoes the value HANDED IN, not what was written: with a list longer
-- than n only the first n values reach the controller, yet `write(("N7:0{2}", [5, 6, 7]))` returns a truthy Tag whose
-- value is `[5, 6, 7]` (N7:2 keeps its old value 8; concrete run in the non-vacuity section).  Only the first n values
-- are looked at: values behind them may be anything (out of range, not even numbers).
/-- C18, driver level, `{n}` write then read (`N7:e{n}`, `B3:e{n}`, `S:e{n}`, `I:e.s{n}` …, 2 ≤ n ≤ 127):
    `write((address, values))` with a list or tuple of at least n integers, the first n of them 16-bit, returns one
    error-free Tag named like the address without the `{n}` token and echoing the value handed in; in the data table
    `tbl'` left behind elements e … e+n-1 hold the first n values, every other byte of the file and every other file is
    unchanged (a longer list is truncated: nothing beyond element e+n-1 is written); a following `read(address)`
    returns the list of the first n values.  Four counter values are drawn, two frames written. -/
theorem slc_write_count_e2e (w : Cli.World Ext) (sess : Nat) (cidb : Bytes) (conn : Tgt.Conn) (tbl : Table)
    (t : Name) (a : Addr) (f : SlcFile) (v : PyVal) (xs : List Int)
    (hH : Lgx.Drv.ldr_Healthy w sess cidb conn) (htbl : w.net.target.ext.slc = some tbl)
    (hvid : w.drv.vid.length = 2) (hvsn : w.drv.vsn.length = 4) (hC : 500 ≤ conn.size)
    (hparse : parseTag t = some a) (hv : v = .list (xs.map PyVal.int) ∨ v = .tuple (xs.map PyVal.int))
    (hft : a.fileType ∈ wordFiles) (haf : a.addressField = 2) (hn : 2 ≤ a.count ∧ a.count ≤ 127)
    (hlen : a.count ≤ xs.length) (hx : ∀ x ∈ xs.take a.count, -32768 ≤ x ∧ x ≤ 32767)
    (hp : a.posNumber < 65536) (hl : Located tbl a f)
    (hu : (tbl.filter (fun g => g.num == a.fileNumber)).length ≤ 1)
    (hin : 2 * a.element + 2 * a.posNumber + 2 * a.count ≤ f.data.length) :
    ∃ w1 w2 frm1 frm2 tbl',
      slcWrite hookAll w [(t, v)] = (w1, .ok [{ tag := a.tag, value := v, type := a.fileType, error := none }]) ∧
      w1.net.target.ext = { w.net.target.ext with slc := some tbl' } ∧
      slcRead hookAll w1 [t] =
        (w2, .ok [{ tag := a.tag, value := .list ((xs.take a.count).map PyVal.int), type := a.fileType, error := none }]) ∧
      w2.net.target.ext = { w.net.target.ext with slc := some tbl' } ∧
      w2.net.sent = w.net.sent ++ [frm1, frm2] ∧ w2.drv = w.drv.nextSeq.2.nextSeq.2.nextSeq.2.nextSeq.2 ∧
      Lgx.Drv.ldr_Healthy w2 sess cidb { conn with lastSeq := some w.drv.nextSeq.2.nextSeq.2.nextSeq.2.nextSeq.1 } ∧
      tbl'.length = tbl.length ∧
      ∀ (i : Nat) (g0 : SlcFile), tbl[i]? = some g0 → ∃ g, tbl'[i]? = some g ∧ g.num = g0.num ∧ g.ftype = g0.ftype ∧
        (g0.num ≠ a.fileNumber → g = g0) ∧
        (g0.num = a.fileNumber → g.data.length = g0.data.length ∧
          (∀ j, (j < 2 * a.element + 2 * a.posNumber ∨ 2 * a.element + 2 * a.posNumber + 2 * a.count ≤ j) →
            g.data[j]? = g0.data[j]?) ∧
          ∀ k, k < a.count → int16 (wordAt g.data (2 * a.element + 2 * a.posNumber + 2 * k)) = xs.getD k 0) := by
  have hr := parse_accepts_in_range t a hparse
  obtain ⟨_, hsz, _⟩ := slx_wordFiles hft
  obtain ⟨tbl', hwa, ⟨data, hra, hdec⟩, hlenT, hfr⟩ :=
    sd2_write_read_count tbl a f v xs hv hft haf hn hlen hx hr hp hl hu hin
  obtain ⟨w1, w2, frm1, frm2, h1, h2, h3, h4, h5, h6, h7⟩ := sd2_write_then_read w sess cidb conn tbl tbl' t a v
    hH htbl hvid hvsn hC hparse (fun b h => by rcases hv with rfl | rfl <;> cases h)
    (fun k h => by rcases hv with rfl | rfl <;> cases h) hp (by rw [hsz]; omega) hwa
  refine ⟨w1, w2, frm1, frm2, tbl', h1, h2, ?_, h4, h5, h6, h7, hlenT, hfr⟩
  rw [h3, hra]
  simp only [sdr_readTagOf, hdec]

/-- C18, driver level, `{n}` read of a long file (`L9:e{n}`, 2 ≤ n ≤ 63): the Tag carries the list of the n consecutive
    32-bit integers starting at element e, its name is the address without the `{n}` token. -/
theorem slc_read_count_long_e2e (w : Cli.World Ext) (sess : Nat) (cidb : Bytes) (conn : Tgt.Conn) (tbl : Table) (t : Name)
    (a : Addr) (f : SlcFile)
    (hH : Lgx.Drv.ldr_Healthy w sess cidb conn) (htbl : w.net.target.ext.slc = some tbl)
    (hvid : w.drv.vid.length = 2) (hvsn : w.drv.vsn.length = 4) (hC : 64 ≤ conn.size)
    (hparse : parseTag t = some a) (hft : a.fileType = [76]) (haf : a.addressField = 2)
    (hn : 2 ≤ a.count ∧ a.count ≤ 63) (hl : Located tbl a f)
    (hin : 4 * a.element + 4 * a.count ≤ f.data.length) :
    ∃ w' frm, slcRead hookAll w [t] =
        (w', .ok [{ tag := a.tag,
                    value := .list ((List.range a.count).map fun i =>
                      PyVal.int (int32 (dwordAt f.data (4 * a.element + 4 * i)))),
                    type := a.fileType, error := none }]) ∧
      w'.drv = w.drv.nextSeq.2.nextSeq.2 ∧ w'.net.sent = w.net.sent ++ [frm] ∧
      w'.net.target.ext = w.net.target.ext ∧
      Lgx.Drv.ldr_Healthy w' sess cidb { conn with lastSeq := some w.drv.nextSeq.2.nextSeq.1 } := by
  have hr := parse_accepts_in_range t a hparse
  have hsz : dataSize a.fileType = 4 := by rw [hft]; decide
  have hpos : a.posNumber = 0 := hr.pos (by simp [hft]) (by simp [hft])
  obtain ⟨data, h1, h2⟩ := sd2_read_count_long tbl a f hft haf hn hr hl hin
  obtain ⟨w', frm, hread, hrest⟩ := sdr_read_one w sess cidb conn tbl t a hH htbl hvid hvsn hC hparse
    (by rw [hsz]; omega) (by omega)
  refine ⟨w', frm, ?_, hrest⟩
  rw [hread, h1]
  simp only [sdr_readTagOf, h2]

/-- … of a float file (`F8:e{n}`, 2 ≤ n ≤ 63): the list of the floats the n consecutive binary32 values widen to. -/
theorem slc_read_count_float_e2e (w : Cli.World Ext) (sess : Nat) (cidb : Bytes) (conn : Tgt.Conn) (tbl : Table)
    (t : Name) (a : Addr) (f : SlcFile)
    (hH : Lgx.Drv.ldr_Healthy w sess cidb conn) (htbl : w.net.target.ext.slc = some tbl)
    (hvid : w.drv.vid.length = 2) (hvsn : w.drv.vsn.length = 4) (hC : 64 ≤ conn.size)
    (hparse : parseTag t = some a) (hft : a.fileType = [70]) (haf : a.addressField = 2)
    (hn : 2 ≤ a.count ∧ a.count ≤ 63) (hl : Located tbl a f)
    (hin : 4 * a.element + 4 * a.count ≤ f.data.length) :
    ∃ w' frm, slcRead hookAll w [t] =
        (w', .ok [{ tag := a.tag,
                    value := .list ((List.range a.count).map fun i =>
                      PyVal.float (Flt.widen (dwordAt f.data (4 * a.element + 4 * i)))),
                    type := a.fileType, error := none }]) ∧
      w'.drv = w.drv.nextSeq.2.nextSeq.2 ∧ w'.net.sent = w.net.sent ++ [frm] ∧
      w'.net.target.ext = w.net.target.ext ∧
      Lgx.Drv.ldr_Healthy w' sess cidb { conn with lastSeq := some w.drv.nextSeq.2.nextSeq.1 } := by
  have hr := parse_accepts_in_range t a hparse
  have hsz : dataSize a.fileType = 4 := by rw [hft]; decide
  have hpos : a.posNumber = 0 := hr.pos (by simp [hft]) (by simp [hft])
  obtain ⟨data, h1, h2⟩ := sd2_read_count_float tbl a f hft haf hn hr hl hin
  obtain ⟨w', frm, hread, hrest⟩ := sdr_read_one w sess cidb conn tbl t a hH htbl hvid hvsn hC hparse
    (by rw [hsz]; omega) (by omega)
  refine ⟨w', frm, ?_, hrest⟩
  rw [hread, h1]
  simp only [sdr_readTagOf, h2]

/-- C18, driver level, `{n}` write then read of a long file (`L9:e{n}`, 2 ≤ n ≤ 63): as `slc_write_count_e2e`, with
    32-bit integers and 4-byte elements. -/
theorem slc_write_count_long_e2e (w : Cli.World Ext) (sess : Nat) (cidb : Bytes) (conn : Tgt.Conn) (tbl : Table)
    (t : Name) (a : Addr) (f : SlcFile) (v : PyVal) (xs : List Int)
    (hH : Lgx.Drv.ldr_Healthy w sess cidb conn) (htbl : w.net.target.ext.slc = some tbl)
    (hvid : w.drv.vid.length = 2) (hvsn : w.drv.vsn.length = 4) (hC : 500 ≤ conn.size)
    (hparse : parseTag t = some a) (hv : v = .list (xs.map PyVal.int) ∨ v = .tuple (xs.map PyVal.int))
    (hft : a.fileType = [76]) (haf : a.addressField = 2) (hn : 2 ≤ a.count ∧ a.count ≤ 63)
    (hlen : a.count ≤ xs.length) (hx : ∀ x ∈ xs.take a.count, -2147483648 ≤ x ∧ x ≤ 2147483647)
    (hl : Located tbl a f) (hu : (tbl.filter (fun g => g.num == a.fileNumber)).length ≤ 1)
    (hin : 4 * a.element + 4 * a.count ≤ f.data.length) :
    ∃ w1 w2 frm1 frm2 tbl',
      slcWrite hookAll w [(t, v)] = (w1, .ok [{ tag := a.tag, value := v, type := a.fileType, error := none }]) ∧
      w1.net.target.ext = { w.net.target.ext with slc := some tbl' } ∧
      slcRead hookAll w1 [t] =
        (w2, .ok [{ tag := a.tag, value := .list ((xs.take a.count).map PyVal.int), type := a.fileType, error := none }]) ∧
      w2.net.target.ext = { w.net.target.ext with slc := some tbl' } ∧
      w2.net.sent = w.net.sent ++ [frm1, frm2] ∧ w2.drv = w.drv.nextSeq.2.nextSeq.2.nextSeq.2.nextSeq.2 ∧
      Lgx.Drv.ldr_Healthy w2 sess cidb { conn with lastSeq := some w.drv.nextSeq.2.nextSeq.2.nextSeq.2.nextSeq.1 } ∧
      tbl'.length = tbl.length ∧
      ∀ (i : Nat) (g0 : SlcFile), tbl[i]? = some g0 → ∃ g, tbl'[i]? = some g ∧ g.num = g0.num ∧ g.ftype = g0.ftype ∧
        (g0.num ≠ a.fileNumber → g = g0) ∧
        (g0.num = a.fileNumber → g.data.length = g0.data.length ∧
          (∀ j, (j < 4 * a.element ∨ 4 * a.element + 4 * a.count ≤ j) → g.data[j]? = g0.data[j]?) ∧
          ∀ k, k < a.count → int32 (dwordAt g.data (4 * a.element + 4 * k)) = xs.getD k 0) := by
  have hr := parse_accepts_in_range t a hparse
  have hsz : dataSize a.fileType = 4 := by rw [hft]; decide
  have hpos : a.posNumber = 0 := hr.pos (by simp [hft]) (by simp [hft])
  obtain ⟨tbl', hwa, ⟨data, hra, hdec⟩, hlenT, hfr⟩ :=
    sd2_write_read_count_long tbl a f v xs hv hft haf hn hlen hx hr hl hu hin
  obtain ⟨w1, w2, frm1, frm2, h1, h2, h3, h4, h5, h6, h7⟩ := sd2_write_then_read w sess cidb conn tbl tbl' t a v
    hH htbl hvid hvsn hC hparse (fun b h => by rcases hv with rfl | rfl <;> cases h)
    (fun k h => by rcases hv with rfl | rfl <;> cases h) (by omega) (by rw [hsz]; omega) hwa
  refine ⟨w1, w2, frm1, frm2, tbl', h1, h2, ?_, h4, h5, h6, h7, hlenT, hfr⟩
  rw [h3, hra]
  simp only [sdr_readTagOf, hdec]

/-- C18, driver level, `{n}` write then read of a float file (`F8:e{n}`, 2 ≤ n ≤ 63), at the level of the 4 bytes:
    `ys` pairs every float of the value (binary64 bits) with the binary32 bits `struct.pack('<f')` rounds it to (required
    of the first n only); element e+k holds the binary32 bits of the k-th float, a following `read(address)` returns the
    floats they widen to. -/
theorem slc_write_count_float_e2e (w : Cli.World Ext) (sess : Nat) (cidb : Bytes) (conn : Tgt.Conn) (tbl : Table)
    (t : Name) (a : Addr) (f : SlcFile) (v : PyVal) (ys : List (Nat × Nat))
    (hH : Lgx.Drv.ldr_Healthy w sess cidb conn) (htbl : w.net.target.ext.slc = some tbl)
    (hvid : w.drv.vid.length = 2) (hvsn : w.drv.vsn.length = 4) (hC : 500 ≤ conn.size)
    (hparse : parseTag t = some a)
    (hv : v = .list (ys.map fun p => PyVal.float p.1) ∨ v = .tuple (ys.map fun p => PyVal.float p.1))
    (hft : a.fileType = [70]) (haf : a.addressField = 2) (hn : 2 ≤ a.count ∧ a.count ≤ 63)
    (hlen : a.count ≤ ys.length) (hy : ∀ p ∈ ys.take a.count, Flt.narrow p.1 = some p.2)
    (hl : Located tbl a f) (hu : (tbl.filter (fun g => g.num == a.fileNumber)).length ≤ 1)
    (hin : 4 * a.element + 4 * a.count ≤ f.data.length) :
    ∃ w1 w2 frm1 frm2 tbl',
      slcWrite hookAll w [(t, v)] = (w1, .ok [{ tag := a.tag, value := v, type := a.fileType, error := none }]) ∧
      w1.net.target.ext = { w.net.target.ext with slc := some tbl' } ∧
      slcRead hookAll w1 [t] =
        (w2, .ok [{ tag := a.tag, value := .list ((ys.take a.count).map fun p => PyVal.float (Flt.widen p.2)),
                    type := a.fileType, error := none }]) ∧
      w2.net.target.ext = { w.net.target.ext with slc := some tbl' } ∧
      w2.net.sent = w.net.sent ++ [frm1, frm2] ∧ w2.drv = w.drv.nextSeq.2.nextSeq.2.nextSeq.2.nextSeq.2 ∧
      Lgx.Drv.ldr_Healthy w2 sess cidb { conn with lastSeq := some w.drv.nextSeq.2.nextSeq.2.nextSeq.2.nextSeq.1 } ∧
      tbl'.length = tbl.length ∧
      ∀ (i : Nat) (g0 : SlcFile), tbl[i]? = some g0 → ∃ g, tbl'[i]? = some g ∧ g.num = g0.num ∧ g.ftype = g0.ftype ∧
        (g0.num ≠ a.fileNumber → g = g0) ∧
        (g0.num = a.fileNumber → g.data.length = g0.data.length ∧
          (∀ j, (j < 4 * a.element ∨ 4 * a.element + 4 * a.count ≤ j) → g.data[j]? = g0.data[j]?) ∧
          ∀ k, k < a.count → some (dwordAt g.data (4 * a.element + 4 * k)) = (ys[k]?).map (·.2)) := by
  have hr := parse_accepts_in_range t a hparse
  have hsz : dataSize a.fileType = 4 := by rw [hft]; decide
  have hpos : a.posNumber = 0 := hr.pos (by simp [hft]) (by simp [hft])
  obtain ⟨tbl', hwa, ⟨data, hra, hdec⟩, hlenT, hfr⟩ :=
    sd2_write_read_count_float tbl a f v ys hv hft haf hn hlen hy hr hl hu hin
  obtain ⟨w1, w2, frm1, frm2, h1, h2, h3, h4, h5, h6, h7⟩ := sd2_write_then_read w sess cidb conn tbl tbl' t a v
    hH htbl hvid hvsn hC hparse (fun b h => by rcases hv with rfl | rfl <;> cases h)
    (fun k h => by rcases hv with rfl | rfl <;> cases h) (by omega) (by rw [hsz]; omega) hwa
  refine ⟨w1, w2, frm1, frm2, tbl', h1, h2, ?_, h4, h5, h6, h7, hlenT, hfr⟩
  rw [h3, hra]
  simp only [sdr_readTagOf, hdec]

/-- C18, driver level: a `{n}` write (n ≥ 2, word form of any file) with a sequence - list, tuple or str - of fewer
    than n values is refused before anything is sent: `write` raises RequestError; on a connected driver no counter value
    is drawn, the world (data table included) is untouched - whatever follows the pair in the call, for every
    target. -/
theorem slc_write_count_short_raises {σ : Type} (hook : ObjHook σ) (w : Cli.World σ) (t : Name) (a : Addr) (v : PyVal)
    (m : Nat) (rest : List (Name × PyVal)) (hcon : w.drv.targetIsConnected = true)
    (hparse : parseTag t = some a) (haf : a.addressField = 2) (hn : 2 ≤ a.count)
    (hnb : ∀ b, v ≠ .bytes b) (hnd : ∀ kvs, v ≠ .dict kvs) (hlen : v.len? = some m) (hm : m < a.count) :
    slcWrite hook w ((t, v) :: rest) = (w, .error .request) := by
  have hr := parse_accepts_in_range t a hparse
  have hwv : writeValue a v = .error .request := by
    rw [sdr_writeValue a v hnb hnd]
    unfold writeableValue
    cases hty : elemTy a.fileType with
    | none => rfl
    | some ty =>
      simp only
      rw [if_pos (by omega), if_neg (by rw [haf]; decide)]
      cases v with
      | none => cases hlen
      | bool _ => cases hlen
      | int _ => cases hlen
      | float _ => cases hlen
      | bytes b => exact absurd rfl (hnb b)
      | dict k => exact absurd rfl (hnd k)
      | str cs =>
        simp only [PyVal.len?, Option.some.injEq] at hlen
        simp only [PyVal.len?, PyVal.seq?, hlen, hm, if_true]
      | list xs =>
        simp only [PyVal.len?, Option.some.injEq] at hlen
        simp only [PyVal.len?, PyVal.seq?, hlen, hm, if_true]
      | tuple xs =>
        simp only [PyVal.len?, Option.some.injEq] at hlen
        simp only [PyVal.len?, PyVal.seq?, hlen, hm, if_true]
  unfold slcWrite
  rw [sdr_FUEL, sdr_ensureFO_connected hook 7 w hcon]
  simp only [writeTags, writeTag, hparse, hwv]

-- STATEMENT CHANGED: "a value with fewer than n values is refused with RequestError" holds for sequences only.
-- A value that is no sequence at all for a `{n}` address (n ≥ 2) is NOT refused with a library error:
-- `write(("N7:0{2}", 5))` raises TypeError (`len(5)` in `writeable_value` runs outside its try block), where every other
-- unusable value gives RequestError.  Nothing is sent, the world is untouched.
/-- C18, driver level: a `{n}` write (n ≥ 2, word form) with a value that has no length (None, a bool, an int, a
    float) raises TypeError - not a pycomm3 error -; nothing is sent, no counter value drawn, the world untouched. -/
theorem slc_write_count_not_sequence_raises {σ : Type} (hook : ObjHook σ) (w : Cli.World σ) (t : Name) (a : Addr)
    (v : PyVal) (rest : List (Name × PyVal)) (hcon : w.drv.targetIsConnected = true)
    (hparse : parseTag t = some a) (haf : a.addressField = 2) (hn : 2 ≤ a.count) (hlen : v.len? = none) :
    slcWrite hook w ((t, v) :: rest) = (w, .error (.foreign "TypeError")) := by
  have hr := parse_accepts_in_range t a hparse
  have hty : ∃ ty, elemTy a.fileType = some ty := by
    have := hr.ftype
    simp only [List.mem_cons, List.not_mem_nil, or_false] at this
    rcases this with h | h | h | h | h | h | h | h | h <;> rw [h] <;> exact ⟨_, rfl⟩
  obtain ⟨ty, hty⟩ := hty
  have hwv : writeValue a v = .error (.foreign "TypeError") := by
    cases v with
    | bytes b => cases hlen
    | dict k => cases hlen
    | str cs => cases hlen
    | list xs => cases hlen
    | tuple xs => cases hlen
    | none =>
      simp only [writeValue, writeableValue, hty, PyVal.len?]
      rw [if_pos (by omega), if_neg (by rw [haf]; decide)]
    | bool _ =>
      simp only [writeValue, writeableValue, hty, PyVal.len?]
      rw [if_pos (by omega), if_neg (by rw [haf]; decide)]
    | int _ =>
      simp only [writeValue, writeableValue, hty, PyVal.len?]
      rw [if_pos (by omega), if_neg (by rw [haf]; decide)]
    | float _ =>
      simp only [writeValue, writeableValue, hty, PyVal.len?]
      rw [if_pos (by omega), if_neg (by rw [haf]; decide)]
  unfold slcWrite
  rw [sdr_FUEL, sdr_ensureFO_connected hook 7 w hcon]
  simp only [writeTags, writeTag, hparse, hwv]

/-! ### 4. several writes in one call -/

/-- C18, driver level, several writes in one call, the general statement: `write((a1, v1), (a2, v2), …)` for ANY list
    of pairs whose requests can be built (accepted address, value other than `bytes` / `dict` that `writeable_value`
    accepts, byte size ≤ 255) on a healthy connected driver returns one Tag per pair, in call order; the requests are
    served one after the other, each on the data table its predecessors left (`sd2_writeRun`): a pair the table accepts
    gives an error-free Tag echoing its value, a pair the table REFUSES (no such file, wrong type, beyond the end of
    the file) gives a falsy Tag with the PCCC error text and changes nothing - it does not stop the pairs after it.
    Every pair draws exactly two values of the counter (its transaction id, then the sequence count of its packet)
    and writes one frame; the world is healthy again on the same connection. -/
theorem slc_write_many_e2e (w : Cli.World Ext) (sess : Nat) (cidb : Bytes) (conn : Tgt.Conn) (tbl : Table)
    (tavs : List (Name × Addr × PyVal))
    (hH : Lgx.Drv.ldr_Healthy w sess cidb conn) (htbl : w.net.target.ext.slc = some tbl)
    (hvid : w.drv.vid.length = 2) (hvsn : w.drv.vsn.length = 4) (hC : 500 ≤ conn.size)
    (hall : ∀ p ∈ tavs, parseTag p.1 = some p.2.1 ∧ (∀ b, p.2.2 ≠ .bytes b) ∧ (∀ kvs, p.2.2 ≠ .dict kvs) ∧
      p.2.1.posNumber < 65536 ∧
      ∃ val sz, writeableValue p.2.1 p.2.2 = .ok (val, sz) ∧ sz * p.2.1.count ≤ 255) :
    ∃ w' frames conn', slcWrite hookAll w (tavs.map fun p => (p.1, p.2.2)) =
        (w', .ok (sd2_writeRun tbl (tavs.map (·.2))).1) ∧
      w'.net.sent = w.net.sent ++ frames ∧ frames.length = tavs.length ∧
      w'.net.target.ext = { w.net.target.ext with slc := some (sd2_writeRun tbl (tavs.map (·.2))).2 } ∧
      w'.drv = sd2_draws (2 * tavs.length) w.drv ∧
      Lgx.Drv.ldr_Healthy w' sess cidb conn' ∧ conn'.size = conn.size := by
  obtain ⟨w', frames, conn', h1, h2, h3, h4, h5, h6, h7, _⟩ :=
    sd2_writeTags_all sess cidb tavs tbl w conn hH htbl hvid hvsn hC hall
  refine ⟨w', frames, conn', ?_, h2, h3, h4, h5, h6, h7⟩
  unfold slcWrite
  rw [sdr_FUEL, sdr_ensureFO_connected hookAll 7 w hH.connected]
  exact h1

/-- C18, driver level, several writes to pairwise NON-OVERLAPPING locations in one call, then all of them read back
    in one call.  Every pair is a full-mask write the table can serve (`sd2_FullWrite`: word, long, float and `{n}`
    writes to existing locations; `bs` = the bytes `writeable_value` makes of the value), no two locations overlap
    (`sd2_Disjoint`: different files or disjoint byte ranges).  Then `write(…)` returns the error-free Tags echoing the
    values, in order; in the data table `tbl'` left behind EVERY location holds the bytes of its value
    (`sd2_Holds`), every cell outside all the locations is unchanged and the files keep number, type and length; a
    following `read(a1, a2, …)` returns, in order, for each address the Tag `_read_tag` makes of those bytes. -/
theorem slc_write_many_disjoint_e2e (w : Cli.World Ext) (sess : Nat) (cidb : Bytes) (conn : Tgt.Conn) (tbl : Table)
    (items : List (Name × Addr × PyVal × Bytes))
    (hH : Lgx.Drv.ldr_Healthy w sess cidb conn) (htbl : w.net.target.ext.slc = some tbl)
    (hvid : w.drv.vid.length = 2) (hvsn : w.drv.vsn.length = 4) (hC : 500 ≤ conn.size)
    (hall : ∀ p ∈ items, parseTag p.1 = some p.2.1 ∧ (∀ b, p.2.2.1 ≠ .bytes b) ∧ (∀ kvs, p.2.2.1 ≠ .dict kvs) ∧
      sd2_FullWrite tbl p.2.1 p.2.2.1 p.2.2.2)
    (hdis : items.Pairwise fun p q => sd2_Disjoint p.2.1 q.2.1) :
    ∃ w1 w2 frames1 frames2 tbl' conn',
      slcWrite hookAll w (items.map fun p => (p.1, p.2.2.1)) =
        (w1, .ok (items.map fun p => { tag := p.2.1.tag, value := p.2.2.1, type := p.2.1.fileType, error := none })) ∧
      w1.net.target.ext = { w.net.target.ext with slc := some tbl' } ∧
      w1.net.sent = w.net.sent ++ frames1 ∧ frames1.length = items.length ∧
      w1.drv = sd2_draws (2 * items.length) w.drv ∧
      slcRead hookAll w1 (items.map (·.1)) =
        (w2, .ok (items.map fun p => sdr_readTagOf p.2.1 (.ok p.2.2.2))) ∧
      w2.net.target.ext = { w.net.target.ext with slc := some tbl' } ∧
      w2.net.sent = w1.net.sent ++ frames2 ∧ frames2.length = items.length ∧
      Lgx.Drv.ldr_Healthy w2 sess cidb conn' ∧ conn'.size = conn.size ∧
      sd2_SameShape tbl tbl' ∧ (∀ p ∈ items, sd2_Holds tbl' p.2.1 p.2.2.2) ∧
      ∀ k j, (∀ p ∈ items, ¬ (k = p.2.1.fileNumber ∧ sd2_off p.2.1 ≤ j ∧ j < sd2_off p.2.1 + sd2_size p.2.1)) →
        sd2_cell tbl' k j = sd2_cell tbl k j := by
  -- the run at the table level
  obtain ⟨tblF, hrun, hshape, hholds, hframe⟩ := sd2_run_disjoint (items.map (·.2)) tbl
    (by
      intro q hq
      obtain ⟨p, hp, rfl⟩ := List.mem_map.mp hq
      exact (hall p hp).2.2.2)
    (by rw [List.pairwise_map]; exact hdis)
  rw [List.map_map, List.map_map] at hrun
  -- the writes
  obtain ⟨w1, frames1, conn1, hw1, hs1, hl1, he1, hd1, hH1, hz1⟩ := slc_write_many_e2e w sess cidb conn tbl
    (items.map fun p => (p.1, p.2.1, p.2.2.1)) hH htbl hvid hvsn hC
    (by
      intro q hq
      obtain ⟨p, hp, rfl⟩ := List.mem_map.mp hq
      obtain ⟨h1, h2, h3, h4⟩ := hall p hp
      exact ⟨h1, h2, h3, h4.pos, _, _, h4.value, h4.size255⟩)
  simp only [List.map_map, Function.comp_def, List.length_map] at hw1 he1 hl1 hd1
  have hrun' : sd2_writeRun tbl (items.map fun p => (p.2.1, p.2.2.1)) =
      (items.map (fun p => sd2_echo p.2.1 p.2.2.1), tblF) := hrun
  rw [hrun'] at hw1 he1
  -- the reads
  have hv1 := sd2_draws_vid (2 * items.length) w.drv
  obtain ⟨w2, frames2, conn2, hr2, hs2, hl2, he2, hH2, hz2⟩ := slc_read_many_e2e w1 sess cidb conn1 tblF
    (items.map fun p => (p.1, p.2.1)) hH1 (by rw [he1]) (by rw [hd1, hv1.1]; exact hvid) (by rw [hd1, hv1.2]; exact hvsn)
    (by omega)
    (by
      intro q hq
      obtain ⟨p, hp, rfl⟩ := List.mem_map.mp hq
      obtain ⟨h1, _, _, h4⟩ := hall p hp
      exact ⟨h1, h4.size255, h4.pos⟩)
  simp only [List.map_map, Function.comp_def, List.length_map] at hr2 hl2
  refine ⟨w1, w2, frames1, frames2, tblF, conn2, hw1, he1, hs1, hl1, hd1, ?_, by rw [he2, he1], hs2, hl2, hH2,
    by rw [hz2, hz1], hshape, ?_, ?_⟩
  · rw [hr2]
    congr 2
    apply List.map_congr_left
    intro p hp
    obtain ⟨_, _, _, h4⟩ := hall p hp
    rw [sd2_read_holds tblF p.2.1 p.2.2.2 h4.size255 h4.sizePos h4.range h4.pos
      (hholds p.2 (List.mem_map.mpr ⟨p, hp, rfl⟩))]
  · intro p hp
    exact hholds p.2 (List.mem_map.mpr ⟨p, hp, rfl⟩)
  · intro k j hkj
    apply hframe
    intro q hq
    obtain ⟨p, hp, rfl⟩ := List.mem_map.mp hq
    exact hkj p hp

/-- C18, driver level, several WORD writes to pairwise different words in one call (`write(("N7:0", 5), ("N7:2", -1),
    ("S:1", 7), …)`), then all of them read back in one call: the writes return the error-free Tags echoing the 16-bit
    integers, in order, one frame and two counter values each; in the data table `tbl'` left behind every addressed
    word holds its integer, every byte outside the addressed words is unchanged (`sd2_cell`: byte j of file number k),
    the files keep number, type and length; `read(a1, a2, …)` returns the integers, in order. -/
theorem slc_write_many_words_e2e (w : Cli.World Ext) (sess : Nat) (cidb : Bytes) (conn : Tgt.Conn) (tbl : Table)
    (ws : List (Name × Addr × Int))
    (hH : Lgx.Drv.ldr_Healthy w sess cidb conn) (htbl : w.net.target.ext.slc = some tbl)
    (hvid : w.drv.vid.length = 2) (hvsn : w.drv.vsn.length = 4) (hC : 500 ≤ conn.size)
    (hall : ∀ p ∈ ws, parseTag p.1 = some p.2.1 ∧ p.2.1.fileType ∈ wordFiles ∧ p.2.1.addressField = 2 ∧
      p.2.1.count = 1 ∧ p.2.1.posNumber < 65536 ∧ (-32768 ≤ p.2.2 ∧ p.2.2 ≤ 32767) ∧
      ∃ f, Located tbl p.2.1 f ∧ 2 * p.2.1.element + 2 * p.2.1.posNumber + 2 ≤ f.data.length)
    (hdis : ws.Pairwise fun p q => p.2.1.fileNumber ≠ q.2.1.fileNumber ∨
      2 * p.2.1.element + 2 * p.2.1.posNumber ≠ 2 * q.2.1.element + 2 * q.2.1.posNumber) :
    ∃ w1 w2 frames1 frames2 tbl' conn',
      slcWrite hookAll w (ws.map fun p => (p.1, PyVal.int p.2.2)) =
        (w1, .ok (ws.map fun p => { tag := p.2.1.tag, value := .int p.2.2, type := p.2.1.fileType, error := none })) ∧
      w1.net.target.ext = { w.net.target.ext with slc := some tbl' } ∧
      w1.net.sent = w.net.sent ++ frames1 ∧ frames1.length = ws.length ∧
      w1.drv = sd2_draws (2 * ws.length) w.drv ∧
      slcRead hookAll w1 (ws.map (·.1)) =
        (w2, .ok (ws.map fun p => { tag := p.2.1.tag, value := .int p.2.2, type := p.2.1.fileType, error := none })) ∧
      w2.net.target.ext = { w.net.target.ext with slc := some tbl' } ∧
      w2.net.sent = w1.net.sent ++ frames2 ∧ frames2.length = ws.length ∧
      Lgx.Drv.ldr_Healthy w2 sess cidb conn' ∧ conn'.size = conn.size ∧
      sd2_SameShape tbl tbl' ∧
      (∀ p ∈ ws, ∃ f', Located tbl' p.2.1 f' ∧
        int16 (wordAt f'.data (2 * p.2.1.element + 2 * p.2.1.posNumber)) = p.2.2) ∧
      ∀ k j, (∀ p ∈ ws, ¬ (k = p.2.1.fileNumber ∧ 2 * p.2.1.element + 2 * p.2.1.posNumber ≤ j ∧
          j < 2 * p.2.1.element + 2 * p.2.1.posNumber + 2)) → sd2_cell tbl' k j = sd2_cell tbl k j := by
  -- every pair is a full-mask write of two bytes
  have hfw : ∀ p ∈ ws, sd2_FullWrite tbl p.2.1 (.int p.2.2) (leBytes 2 (word16 p.2.2)) ∧
      sd2_off p.2.1 = 2 * p.2.1.element + 2 * p.2.1.posNumber ∧ sd2_size p.2.1 = 2 := by
    intro p hp
    obtain ⟨h1, h2, h3, h4, h5, h6, f, h7, h8⟩ := hall p hp
    exact sd2_fullWrite_word tbl p.2.1 f p.2.2 h6 h2 h3 h4 (parse_accepts_in_range _ _ h1) h5 h7 h8
  obtain ⟨w1, w2, frames1, frames2, tbl', conn', g1, g2, g3, g4, g5, g6, g7, g8, g9, g10, g11, g12, g13, g14⟩ :=
    slc_write_many_disjoint_e2e w sess cidb conn tbl
      (ws.map fun p => (p.1, p.2.1, PyVal.int p.2.2, leBytes 2 (word16 p.2.2))) hH htbl hvid hvsn hC
      (by
        intro q hq
        obtain ⟨p, hp, rfl⟩ := List.mem_map.mp hq
        exact ⟨(hall p hp).1, fun b h => PyVal.noConfusion h, fun k h => PyVal.noConfusion h, (hfw p hp).1⟩)
      (by
        rw [List.pairwise_map]
        apply List.Pairwise.imp_of_mem _ hdis
        intro p q hp hq hpq
        obtain ⟨_, o1, s1⟩ := hfw p hp
        obtain ⟨_, o2, s2⟩ := hfw q hq
        simp only [sd2_Disjoint, o1, o2, s1, s2]
        rcases hpq with h | h
        · exact .inl h
        · right; omega)
  simp only [List.map_map, Function.comp_def, List.length_map] at g1 g4 g5 g6 g9
  refine ⟨w1, w2, frames1, frames2, tbl', conn', g1, g2, g3, g4, g5, ?_, g7, g8, g9, g10, g11, g12, ?_, ?_⟩
  · rw [g6]
    congr 2
    apply List.map_congr_left
    intro p hp
    obtain ⟨h1, h2, h3, h4, h5, h6, _⟩ := hall p hp
    obtain ⟨hty, hsz, _⟩ := slx_wordFiles h2
    exact sd2_readTagOf_word p.2.1 p.2.2 h6 hty hsz h3
  · intro p hp
    obtain ⟨_, o1, s1⟩ := hfw p hp
    obtain ⟨f', hl', hin', hsl⟩ := g13 _ (List.mem_map.mpr ⟨p, hp, rfl⟩)
    simp only [o1, s1] at hin' hsl
    refine ⟨f', hl', ?_⟩
    have hw := slx_words_slice f'.data 1 _ hin'
    rw [hsl, slx_le2] at hw
    simp only [words, List.range_one, List.map_cons, List.map_nil, Nat.mul_zero, Nat.add_zero, List.cons.injEq,
      and_true] at hw
    rw [← hw, slx_le2_val _ (slx_word16_lt _), slx_int16_word16 _ (hall p hp).2.2.2.2.2.1]
  · intro k j hkj
    apply g14
    intro q hq
    obtain ⟨p, hp, rfl⟩ := List.mem_map.mp hq
    obtain ⟨_, o1, s1⟩ := hfw p hp
    simp only [o1, s1]
    exact hkj p hp

-- STATEMENT NOTE: what stops a `write` call.  A pair the CONTROLLER refuses (STS ≠ 0) does not stop it: falsy Tag, the
-- rest is served (`slc_write_many_e2e`).  A pair the DRIVER refuses - rejected address, or a value `writeable_value`
-- cannot use (RequestError; TypeError for a non-sequence `{n}` value) - raises out of `write`: the pairs in front of it
-- HAVE BEEN WRITTEN to the controller, those after it are not, and the caller gets no Tag for any of them.
-- `write(("N7:0", 5), ("N7:1", 70000), ("N7:2", 6))` raises RequestError with N7:0 = 5 already stored and N7:2 untouched
-- (concrete run in the non-vacuity section).
/-- C18, driver level: `write(*good, (t, v), *rest)` where the address of the pair `(t, v)` is rejected by `parse_tag`
    or its value by `writeable_value` (error `e`: RequestError, or TypeError for a non-sequence `{n}` value): the
    exception escapes; the world is exactly the one the call `write(*good)` leaves - the pairs in front HAVE been sent
    and served, nothing is sent and no counter value drawn for `(t, v)` and the pairs after it - and no Tag is
    returned; for every target. -/
theorem slc_write_many_raises_later {σ : Type} (hook : ObjHook σ) (w w1 : Cli.World σ) (good : List (Name × PyVal))
    (tags : List STag) (t : Name) (v : PyVal) (rest : List (Name × PyVal)) (e : Exn)
    (hcon : w.drv.targetIsConnected = true) (hgood : slcWrite hook w good = (w1, .ok tags))
    (hbad : (parseTag t = none ∧ e = .request) ∨ ∃ a, parseTag t = some a ∧ writeValue a v = .error e) :
    slcWrite hook w (good ++ (t, v) :: rest) = (w1, .error e) := by
  unfold slcWrite at hgood ⊢
  rw [sdr_FUEL, sdr_ensureFO_connected hook 7 w hcon] at hgood ⊢
  simp only at hgood ⊢
  apply sd2_writeTags_raises hook good t v rest e w w1 w1 tags hgood
  rcases hbad with ⟨h, rfl⟩ | ⟨a, h1, h2⟩
  · simp only [writeTag, h]
  · simp only [writeTag, h1, h2]

/-! ### 5. status and input / output files, from the address text -/

/-- C18, driver level, status file from the address TEXT: `read("S:e")` / `read("S:e/b")` (either case of the letter,
    e ≤ 255, b ≤ 15) on a healthy connected driver whose target's data table has file 2 of the status type (0x84) with
    element e: exactly one error-free Tag named like the text, type "S", carrying the two's complement value of the 2
    bytes of element e of file 2, or bit b of that word. -/
theorem slc_read_status_text_e2e (w : Cli.World Ext) (sess : Nat) (cidb : Bytes) (conn : Tgt.Conn) (tbl : Table)
    (c e : Nat) (b : Option Nat) (f : SlcFile)
    (hH : Lgx.Drv.ldr_Healthy w sess cidb conn) (htbl : w.net.target.ext.slc = some tbl)
    (hvid : w.drv.vid.length = 2) (hvsn : w.drv.vsn.length = 4) (hC : 64 ≤ conn.size)
    (hc : upperC c = 83) (he : e ≤ 255) (hb : ∀ x, b = some x → x ≤ 15)
    (hfind : tbl.find? (fun g => g.num == 2) = some f) (hty : f.ftype = 0x84) (hin : 2 * e + 2 ≤ f.data.length) :
    ∃ w' frm, slcRead hookAll w [[c] ++ [58] ++ dec e ++ bitTok b] =
        (w', .ok [{ tag := [c] ++ [58] ++ dec e ++ bitTok b,
                    value := (if b.isSome then .bool (wordBit (wordAt f.data (2 * e)) (b.getD 0))
                              else .int (int16 (wordAt f.data (2 * e)))),
                    type := [83], error := none }]) ∧
      w'.drv = w.drv.nextSeq.2.nextSeq.2 ∧ w'.net.sent = w.net.sent ++ [frm] ∧
      w'.net.target.ext = w.net.target.ext ∧
      Lgx.Drv.ldr_Healthy w' sess cidb { conn with lastSeq := some w.drv.nextSeq.2.nextSeq.1 } := by
  have hparse := parse_status c e b none hc he hb
  simp only [cntTok, List.append_nil, Option.getD_none] at hparse
  have htag : ([c] ++ [58] ++ dec e ++ bitTok b ++ if b.isSome = true then [] else []) = [c] ++ [58] ++ dec e ++ bitTok b := by
    split <;> simp
  rw [htag] at hparse
  have hwf : ([83] : Name) ∈ wordFiles := by decide
  have htc : f.ftype = typeCode [83] := by rw [hty]; decide
  cases b with
  | none =>
    obtain ⟨w', frm, h1, h2⟩ := slc_read_word_e2e w sess cidb conn tbl _ _ f hH htbl hvid hvsn hC hparse hwf rfl rfl
      (Nat.zero_lt_succ _) ⟨hfind, htc⟩ (by simpa using hin)
    exact ⟨w', frm, by simpa using h1, h2⟩
  | some x =>
    obtain ⟨w', frm, h1, h2⟩ := slc_read_bit_e2e w sess cidb conn tbl _ _ f hH htbl hvid hvsn hC hparse hwf rfl rfl
      (Nat.zero_lt_succ _) ⟨hfind, htc⟩ (by simpa using hin)
    exact ⟨w', frm, by simpa using h1, h2⟩

/-- C18, driver level, input / output files from the address TEXT: `read("I:e")`, `read("O:e.s")`, `read("I:e.s/b")`,
    `read("I1:e/b")` … (either case of the letter, optional and ignored file-number digits, e ≤ 255, s ≤ 999, b ≤ 15) on
    a healthy connected driver whose target's data table has the output file 0 (type 0x82) / input file 1 (type 0x83)
    with word s of element e: exactly one error-free Tag named like the text, type "O" / "I", carrying the two's
    complement value of the 2 bytes at byte offset 2e + 2s of that file, or bit b of that word. -/
theorem slc_read_io_text_e2e (w : Cli.World Ext) (sess : Nat) (cidb : Bytes) (conn : Tgt.Conn) (tbl : Table)
    (c e : Nat) (df : Name) (s b : Option Nat) (f : SlcFile)
    (hH : Lgx.Drv.ldr_Healthy w sess cidb conn) (htbl : w.net.target.ext.slc = some tbl)
    (hvid : w.drv.vid.length = 2) (hvsn : w.drv.vsn.length = 4) (hC : 64 ≤ conn.size)
    (hc : IsIO c) (hdf : OptDig3 df) (he : e ≤ 255) (hs : ∀ x, s = some x → x ≤ 999) (hb : ∀ x, b = some x → x ≤ 15)
    (hfind : tbl.find? (fun g => g.num == (if upperC c = 79 then 0 else 1)) = some f)
    (hty : f.ftype = (if upperC c = 79 then 0x82 else 0x83))
    (hin : 2 * e + 2 * s.getD 0 + 2 ≤ f.data.length) :
    ∃ w' frm, slcRead hookAll w [[c] ++ df ++ [58] ++ dec e ++ posTok s ++ bitTok b] =
        (w', .ok [{ tag := [c] ++ df ++ [58] ++ dec e ++ posTok s ++ bitTok b,
                    value := (if b.isSome then .bool (wordBit (wordAt f.data (2 * e + 2 * s.getD 0)) (b.getD 0))
                              else .int (int16 (wordAt f.data (2 * e + 2 * s.getD 0)))),
                    type := [upperC c], error := none }]) ∧
      w'.drv = w.drv.nextSeq.2.nextSeq.2 ∧ w'.net.sent = w.net.sent ++ [frm] ∧
      w'.net.target.ext = w.net.target.ext ∧
      Lgx.Drv.ldr_Healthy w' sess cidb { conn with lastSeq := some w.drv.nextSeq.2.nextSeq.1 } := by
  have hparse := parse_io c e df s b none hc hdf he hs hb
  simp only [cntTok, List.append_nil, Option.getD_none] at hparse
  have hsp : s.getD 0 < 65536 := by
    cases s with
    | none => simp
    | some x => have := hs x rfl; simp; omega
  have hftm : [upperC c] ∈ wordFiles := by
    unfold IsIO at hc
    rcases hc with h | h <;> rw [h] <;> decide
  have htc : f.ftype = typeCode [upperC c] := by
    unfold IsIO at hc
    rcases hc with h | h <;> rw [hty, h] <;> decide
  cases b with
  | none =>
    obtain ⟨w', frm, h1, h2⟩ := slc_read_word_e2e w sess cidb conn tbl _ _ f hH htbl hvid hvsn hC hparse hftm rfl rfl
      hsp ⟨hfind, htc⟩ hin
    exact ⟨w', frm, by simpa [bitTok] using h1, h2⟩
  | some x =>
    obtain ⟨w', frm, h1, h2⟩ := slc_read_bit_e2e w sess cidb conn tbl _ _ f hH htbl hvid hvsn hC hparse hftm rfl rfl
      hsp ⟨hfind, htc⟩ hin
    exact ⟨w', frm, by simpa using h1, h2⟩

/-! ### non-vacuity: the concrete world of SlcDriverProofs (`Ex.world`: the example data table N7, T4, S2, I1, F8, L9
    behind a connection obtained by running `open()` and the Forward Open) -/

namespace Ex2
open Ex

private theorem healthy : Lgx.Drv.ldr_Healthy world 4097 [238, 255, 192, 0] conn :=
  ⟨by decide +kernel, by decide +kernel, by decide +kernel, by decide +kernel, by decide +kernel, by decide,
   by decide +kernel, by decide +kernel, by decide, by decide +kernel, by decide +kernel, by decide +kernel⟩

private theorem tbl : world.net.target.ext.slc = some exTable := by decide +kernel
private theorem vid : world.drv.vid.length = 2 := by decide +kernel
private theorem vsn : world.drv.vsn.length = 4 := by decide +kernel

def aF80 : Addr :=
  { fileType := nm "F", fileNumber := 8, element := 0, subElement := 0, addressField := 2, count := 1, tag := nm "F8:0" }
def aF803 : Addr :=
  { fileType := nm "F", fileNumber := 8, element := 0, subElement := 3, addressField := 3, count := 1, tag := nm "F8:0/3" }
def aL90 : Addr :=
  { fileType := nm "L", fileNumber := 9, element := 0, subElement := 0, addressField := 2, count := 1, tag := nm "L9:0" }
def aN70c2 : Addr :=
  { fileType := nm "N", fileNumber := 7, element := 0, subElement := 0, addressField := 2, count := 2, tag := nm "N7:0" }
def aN70 : Addr :=
  { fileType := nm "N", fileNumber := 7, element := 0, subElement := 0, addressField := 2, count := 1, tag := nm "N7:0" }
def aN72 : Addr :=
  { fileType := nm "N", fileNumber := 7, element := 2, subElement := 0, addressField := 2, count := 1, tag := nm "N7:2" }
def aN79 : Addr :=
  { fileType := nm "N", fileNumber := 7, element := 9, subElement := 0, addressField := 2, count := 1, tag := nm "N7:9" }
def aS1 : Addr :=
  { fileType := nm "S", fileNumber := 2, element := 1, subElement := 0, addressField := 2, count := 1, tag := nm "S:1" }
def fF8 : SlcFile := ⟨8, 0x8A, [0, 0, 0xC0, 0x3F]⟩
def fL9 : SlcFile := ⟨9, 0x91, [0xFE, 0xFF, 0xFF, 0xFF]⟩
def fS2 : SlcFile := ⟨2, 0x84, [0x08, 0x00, 0x01, 0x80]⟩
def fI1 : SlcFile := ⟨1, 0x83, [0, 0, 0, 0, 0, 0, 0x80, 0]⟩

-- the string and ASCII files are outside the model
#guard parseTag (nm "ST9:0") == none && parseTag (nm "A10:0") == none

/-- every hypothesis of `slc_read_float_e2e` holds for the concrete world: `read("F8:0")` returns 1.5 -/
example : ∃ w' frm, slcRead hookAll world [nm "F8:0"] =
      (w', .ok [{ tag := nm "F8:0", value := .float 0x3FF8000000000000, type := nm "F", error := none }]) ∧
    w'.drv = world.drv.nextSeq.2.nextSeq.2 ∧ w'.net.sent = world.net.sent ++ [frm] ∧
    w'.net.target.ext = world.net.target.ext ∧
    Lgx.Drv.ldr_Healthy w' 4097 [238, 255, 192, 0] { conn with lastSeq := some world.drv.nextSeq.2.nextSeq.1 } := by
  have h := slc_read_float_e2e world 4097 [238, 255, 192, 0] conn exTable (nm "F8:0") aF80 fF8 healthy tbl vid vsn
    (by decide) (by decide) rfl rfl rfl ⟨by decide, by decide⟩ (by decide)
  have e : Flt.widen (dwordAt fF8.data (4 * aF80.element)) = 0x3FF8000000000000 := by decide +kernel
  rw [e] at h
  exact h

/-- … of `slc_read_long_e2e`: `read("L9:0")` returns -2 -/
example : ∃ w' frm, slcRead hookAll world [nm "L9:0"] =
      (w', .ok [{ tag := nm "L9:0", value := .int (-2), type := nm "L", error := none }]) ∧
    w'.drv = world.drv.nextSeq.2.nextSeq.2 ∧ w'.net.sent = world.net.sent ++ [frm] ∧
    w'.net.target.ext = world.net.target.ext ∧
    Lgx.Drv.ldr_Healthy w' 4097 [238, 255, 192, 0] { conn with lastSeq := some world.drv.nextSeq.2.nextSeq.1 } :=
  slc_read_long_e2e world 4097 [238, 255, 192, 0] conn exTable (nm "L9:0") aL90 fL9 healthy tbl vid vsn
    (by decide) (by decide) rfl rfl rfl ⟨by decide, by decide⟩ (by decide)

/-- … of `slc_write_then_read_long_e2e`: `write(("L9:0", -70000))`, then `read("L9:0")` returns -70000; the 4 bytes hold it -/
example : ∃ w1 w2 tbl',
    slcWrite hookAll world [(nm "L9:0", .int (-70000))] =
      (w1, .ok [{ tag := nm "L9:0", value := .int (-70000), type := nm "L", error := none }]) ∧
    w1.net.target.ext = { world.net.target.ext with slc := some tbl' } ∧
    slcRead hookAll w1 [nm "L9:0"] = (w2, .ok [{ tag := nm "L9:0", value := .int (-70000), type := nm "L", error := none }]) ∧
    ∃ g : SlcFile, tbl'[5]? = some g ∧ int32 (dwordAt g.data 0) = -70000 := by
  obtain ⟨w1, w2, _, _, tbl', h1, h2, h3, _, _, _, _, _, hfr⟩ :=
    slc_write_then_read_long_e2e world 4097 [238, 255, 192, 0] conn exTable (nm "L9:0") aL90 fL9 (-70000) healthy tbl vid
      vsn (by decide) (by decide) (by decide) rfl rfl rfl ⟨by decide, by decide⟩ (by decide) (by decide)
  obtain ⟨g, hg, _, _, _, hsame⟩ := hfr 5 fL9 (by decide)
  exact ⟨w1, w2, tbl', h1, h2, h3, g, hg, (hsame (by decide)).2.2⟩

/-- … of `slc_write_then_read_float_e2e`: `write(("F8:0", 2.5))`, then `read("F8:0")` returns 2.5; the 4 bytes are the
    binary32 pattern 0x40200000 -/
example : ∃ w1 w2 tbl',
    slcWrite hookAll world [(nm "F8:0", .float 0x4004000000000000)] =
      (w1, .ok [{ tag := nm "F8:0", value := .float 0x4004000000000000, type := nm "F", error := none }]) ∧
    w1.net.target.ext = { world.net.target.ext with slc := some tbl' } ∧
    slcRead hookAll w1 [nm "F8:0"] =
      (w2, .ok [{ tag := nm "F8:0", value := .float 0x4004000000000000, type := nm "F", error := none }]) ∧
    ∃ g : SlcFile, tbl'[4]? = some g ∧ dwordAt g.data 0 = 0x40200000 := by
  obtain ⟨w1, w2, _, _, tbl', h1, h2, _, h3, _, _, _, _, _, hfr⟩ :=
    slc_write_then_read_float_e2e world 4097 [238, 255, 192, 0] conn exTable (nm "F8:0") aF80 fF8 0x4004000000000000
      0x40200000 healthy tbl vid vsn (by decide) (by decide) (by decide +kernel) rfl rfl rfl ⟨by decide, by decide⟩
      (by decide) (by decide)
  obtain ⟨g, hg, _, _, _, hsame⟩ := hfr 4 fF8 (by decide)
  exact ⟨w1, w2, tbl', h1, h2, h3 (by decide +kernel), g, hg, (hsame (by decide)).2.2⟩

/-- … of the same theorem for a float that is NOT representable in binary32: `write(("F8:0", 0.1))` stores the binary32
    rounding 0x3DCCCCCD and `read("F8:0")` returns 0.10000000149011612, not 0.1 -/
example : ∃ w1 w2,
    slcWrite hookAll world [(nm "F8:0", .float 0x3FB999999999999A)] =
      (w1, .ok [{ tag := nm "F8:0", value := .float 0x3FB999999999999A, type := nm "F", error := none }]) ∧
    slcRead hookAll w1 [nm "F8:0"] =
      (w2, .ok [{ tag := nm "F8:0", value := .float 0x3FB99999A0000000, type := nm "F", error := none }]) := by
  obtain ⟨w1, w2, _, _, tbl', h1, _, h3, _⟩ :=
    slc_write_then_read_float_e2e world 4097 [238, 255, 192, 0] conn exTable (nm "F8:0") aF80 fF8 0x3FB999999999999A
      0x3DCCCCCD healthy tbl vid vsn (by decide) (by decide) (by decide +kernel) rfl rfl rfl ⟨by decide, by decide⟩
      (by decide) (by decide)
  have e : Flt.widen 0x3DCCCCCD = 0x3FB99999A0000000 := by decide +kernel
  rw [e] at h3
  exact ⟨w1, w2, h1, h3⟩

/-- … of `slc_read_float_bit_e2e`: `read("F8:0/3")` returns False (the first word of 1.5 = 00 00 C0 3F is 0) -/
example : ∃ w' frm, slcRead hookAll world [nm "F8:0/3"] =
      (w', .ok [{ tag := nm "F8:0/3", value := .bool false, type := nm "F", error := none }]) ∧
    w'.drv = world.drv.nextSeq.2.nextSeq.2 ∧ w'.net.sent = world.net.sent ++ [frm] ∧
    w'.net.target.ext = world.net.target.ext ∧
    Lgx.Drv.ldr_Healthy w' 4097 [238, 255, 192, 0] { conn with lastSeq := some world.drv.nextSeq.2.nextSeq.1 } :=
  slc_read_float_bit_e2e world 4097 [238, 255, 192, 0] conn exTable (nm "F8:0/3") aF803 fF8 healthy tbl vid vsn
    (by decide) (by decide) rfl rfl rfl ⟨by decide, by decide⟩ (by decide)

/-- … of `slc_write_then_read_float_bit_e2e`: `write(("F8:0/3", True))`, then `read("F8:0/3")` returns True; the element
    is 08 00 C0 3F: bit 3 of the first word set, the upper word C0 3F untouched -/
example : ∃ (w1 w2 : Cli.World Ext) (tbl' : Table),
    slcWrite hookAll world [(nm "F8:0/3", .bool true)] =
      (w1, .ok [{ tag := nm "F8:0/3", value := .bool true, type := nm "F", error := none }]) ∧
    slcRead hookAll w1 [nm "F8:0/3"] = (w2, .ok [{ tag := nm "F8:0/3", value := .bool true, type := nm "F", error := none }]) ∧
    ∃ g : SlcFile, tbl'[4]? = some g ∧ wordBit (wordAt g.data 0) 3 = true ∧ wordBit (wordAt g.data 0) 2 = false ∧
      g.data[2]? = some 0xC0 ∧ g.data[3]? = some 0x3F := by
  obtain ⟨w1, w2, _, _, tbl', h1, _, h3, _, _, _, _, _, hfr⟩ :=
    slc_write_then_read_float_bit_e2e world 4097 [238, 255, 192, 0] conn exTable (nm "F8:0/3") aF803 fF8 (.bool true)
      healthy tbl vid vsn (by decide) (by decide) (fun b h => by cases h) (fun k h => by cases h) rfl rfl rfl
      ⟨by decide, by decide⟩ (by decide) (by decide)
  obtain ⟨g, hg, _, _, _, hsame⟩ := hfr 4 fF8 (by decide)
  obtain ⟨_, hout, hbits⟩ := hsame (by decide)
  refine ⟨w1, w2, tbl', h1, h3, g, hg, ?_, ?_, ?_, ?_⟩
  · have := hbits 3 (by decide)
    simpa [aF803, PyVal.truthy] using this
  · have := hbits 2 (by decide)
    have e : 4 * aF803.element = 0 := by decide
    rw [e] at this
    rw [this]
    decide
  · rw [hout 2 (by decide)]; rfl
  · rw [hout 3 (by decide)]; rfl
-- the repaired behaviour on the model run: after `write(("F8:0/3", True))` the element is 08 00 C0 3F and
-- `read("F8:0/3", "F8:0/2")` returns True, False with error-free Tags (before the repair: two falsy Tags)
#guard (match (slcWrite hookAll world [(nm "F8:0/3", .bool true)]) with
        | (w1, .ok [t]) => t.error.isNone && (match w1.net.target.ext.slc with
            | some tb => (tb[4]?.map (·.data)) == some [8, 0, 0xC0, 0x3F] | none => false) &&
            (match (slcRead hookAll w1 [nm "F8:0/3", nm "F8:0/2"]).2 with
             | .ok [u, u'] => u.error.isNone && u'.error.isNone &&
                 (match u.value, u'.value with | .bool true, .bool false => true | _, _ => false)
             | _ => false)
        | _ => false)
-- the bits of a long above bit 15 cannot be addressed: `L9:0/16` is rejected, `L9:0/15` is bit 15 of the low word
#guard parseTag (nm "L9:0/16") == none && (parseTag (nm "L9:0/15")).isSome

/-- … of `slc_write_count_e2e`: `write(("N7:0{2}", [5, 6, 7]))` returns a Tag named `N7:0` echoing `[5, 6, 7]`; then
    `read("N7:0{2}")` returns `[5, 6]`; N7:2 (bytes 4, 5 of the file: 8) is not touched -/
example : ∃ w1 w2 tbl',
    slcWrite hookAll world [(nm "N7:0{2}", .list [.int 5, .int 6, .int 7])] =
      (w1, .ok [{ tag := nm "N7:0", value := .list [.int 5, .int 6, .int 7], type := nm "N", error := none }]) ∧
    w1.net.target.ext = { world.net.target.ext with slc := some tbl' } ∧
    slcRead hookAll w1 [nm "N7:0{2}"] =
      (w2, .ok [{ tag := nm "N7:0", value := .list [.int 5, .int 6], type := nm "N", error := none }]) ∧
    ∃ g : SlcFile, tbl'[0]? = some g ∧ g.data[4]? = some 8 ∧ g.data[5]? = some 0 ∧
      int16 (wordAt g.data 0) = 5 ∧ int16 (wordAt g.data 2) = 6 := by
  obtain ⟨w1, w2, _, _, tbl', h1, h2, h3, _, _, _, _, _, hfr⟩ :=
    slc_write_count_e2e world 4097 [238, 255, 192, 0] conn exTable (nm "N7:0{2}") aN70c2 fN7
      (.list [.int 5, .int 6, .int 7]) [5, 6, 7] healthy tbl vid vsn (by decide) (by decide) (.inl rfl) (by decide) rfl
      (by decide) (by decide) (by decide) (by decide) ⟨by decide, by decide⟩ (by decide) (by decide)
  obtain ⟨g, hg, _, _, _, hsame⟩ := hfr 0 fN7 (by decide)
  obtain ⟨_, hout, hval⟩ := hsame (by decide)
  refine ⟨w1, w2, tbl', h1, h2, h3, g, hg, ?_, ?_, hval 0 (by decide), hval 1 (by decide)⟩
  · rw [hout 4 (by decide)]; rfl
  · rw [hout 5 (by decide)]; rfl

/-- … of `slc_write_count_short_raises`: `write(("N7:0{3}", [1, 2]), ("N7:1", 5))` raises RequestError, nothing is sent -/
example : slcWrite hookAll world [(nm "N7:0{3}", .list [.int 1, .int 2]), (nm "N7:1", .int 5)] = (world, .error .request) :=
  slc_write_count_short_raises hookAll world (nm "N7:0{3}")
    { fileType := nm "N", fileNumber := 7, element := 0, subElement := 0, addressField := 2, count := 3, tag := nm "N7:0" }
    _ 2 _ healthy.connected (by decide) rfl (by decide) (fun b h => PyVal.noConfusion h) (fun k h => PyVal.noConfusion h) rfl (by decide)

/-- … of `slc_write_count_not_sequence_raises`: `write(("N7:0{2}", 5))` raises TypeError -/
example : slcWrite hookAll world [(nm "N7:0{2}", .int 5)] = (world, .error (.foreign "TypeError")) :=
  slc_write_count_not_sequence_raises hookAll world (nm "N7:0{2}") aN70c2 _ _ healthy.connected (by decide) rfl
    (by decide) rfl
-- a finite float beyond the binary32 range is refused
#guard (match (slcWrite hookAll world [(nm "F8:0", .float 0x48078287F49C4A1D)]).2 with | .error .request => true | _ => false)
-- the `{n}` form with n = 1 takes a scalar, not a one-element list
#guard (match (slcWrite hookAll world [(nm "N7:0{1}", .list [.int 5])]).2 with | .error .request => true | _ => false)

/-- … of `slc_write_many_e2e`: `write(("N7:0", 5), ("N7:9", 5), ("N7:1", 6))` - the middle address lies beyond the
    3-word file - returns [Tag 5, falsy Tag, Tag 6]: the refused write does not stop the third; three frames, six
    counter values -/
example : ∃ w' frames txt, slcWrite hookAll world [(nm "N7:0", .int 5), (nm "N7:9", .int 5), (nm "N7:1", .int 6)] =
      (w', .ok [{ tag := nm "N7:0", value := .int 5, type := nm "N", error := none },
                { tag := nm "N7:9", value := .none, type := nm "N", error := some txt },
                { tag := nm "N7:1", value := .int 6, type := nm "N", error := none }]) ∧
    Status.lookupNat 0x50 Gen.pcccErrorCode = some txt ∧
    w'.net.sent = world.net.sent ++ frames ∧ frames.length = 3 ∧ w'.drv = sd2_draws 6 world.drv ∧
    (w'.net.target.ext.slc.bind (·[0]?)).map (·.data) = some [5, 0, 6, 0, 8, 0] := by
  obtain ⟨w', frames, _, h1, h2, h3, h4, h5, _⟩ := slc_write_many_e2e world 4097 [238, 255, 192, 0] conn exTable
    [(nm "N7:0", aN70, .int 5), (nm "N7:9", aN79, .int 5), (nm "N7:1", aN71, .int 6)] healthy tbl vid vsn (by decide)
    (by
      intro p hp
      simp only [List.mem_cons, List.not_mem_nil, or_false] at hp
      rcases hp with rfl | rfl | rfl <;>
        exact ⟨by decide, fun b h => PyVal.noConfusion h, fun k h => PyVal.noConfusion h, by decide, _, _, by rfl, by decide⟩)
  refine ⟨w', frames, _, h1, by rfl, h2, h3, h5, ?_⟩
  rw [h4]
  rfl

/-- … of `slc_write_many_words_e2e`: `write(("N7:0", 5), ("N7:2", -1), ("S:1", 7))`, then
    `read("N7:0", "N7:2", "S:1")` returns 5, -1, 7; N7:1 (bytes 2, 3 of file 7) is untouched -/
example : ∃ w1 w2 tbl',
    slcWrite hookAll world [(nm "N7:0", .int 5), (nm "N7:2", .int (-1)), (nm "S:1", .int 7)] =
      (w1, .ok [{ tag := nm "N7:0", value := .int 5, type := nm "N", error := none },
                { tag := nm "N7:2", value := .int (-1), type := nm "N", error := none },
                { tag := nm "S:1", value := .int 7, type := nm "S", error := none }]) ∧
    w1.net.target.ext = { world.net.target.ext with slc := some tbl' } ∧
    slcRead hookAll w1 [nm "N7:0", nm "N7:2", nm "S:1"] =
      (w2, .ok [{ tag := nm "N7:0", value := .int 5, type := nm "N", error := none },
                { tag := nm "N7:2", value := .int (-1), type := nm "N", error := none },
                { tag := nm "S:1", value := .int 7, type := nm "S", error := none }]) ∧
    sd2_cell tbl' 7 2 = some 0xFF ∧ sd2_cell tbl' 7 3 = some 0xFF := by
  obtain ⟨w1, w2, _, _, tbl', _, g1, g2, _, _, _, g6, _, _, _, _, _, _, _, g14⟩ :=
    slc_write_many_words_e2e world 4097 [238, 255, 192, 0] conn exTable
      [(nm "N7:0", aN70, 5), (nm "N7:2", aN72, -1), (nm "S:1", aS1, 7)] healthy tbl vid vsn (by decide)
      (by
        intro p hp
        simp only [List.mem_cons, List.not_mem_nil, or_false] at hp
        rcases hp with rfl | rfl | rfl
        · exact ⟨by decide, by decide, rfl, rfl, by decide, by decide, fN7, ⟨by decide, by decide⟩, by decide⟩
        · exact ⟨by decide, by decide, rfl, rfl, by decide, by decide, fN7, ⟨by decide, by decide⟩, by decide⟩
        · exact ⟨by decide, by decide, rfl, rfl, by decide, by decide, fS2, ⟨by decide, by decide⟩, by decide⟩)
      (by decide)
  refine ⟨w1, w2, tbl', g1, g2, g6, ?_, ?_⟩
  · rw [g14 7 2 (by decide)]; rfl
  · rw [g14 7 3 (by decide)]; rfl

/-- … of `slc_write_many_disjoint_e2e` with mixed kinds: `write(("N7:0{2}", [1, 2]), ("L9:0", 100000), ("N7:2", 3))`,
    then `read("N7:0{2}", "L9:0", "N7:2")` returns [1, 2], 100000, 3 -/
example : ∃ w1 w2,
    slcWrite hookAll world [(nm "N7:0{2}", .list [.int 1, .int 2]), (nm "L9:0", .int 100000), (nm "N7:2", .int 3)] =
      (w1, .ok [{ tag := nm "N7:0", value := .list [.int 1, .int 2], type := nm "N", error := none },
                { tag := nm "L9:0", value := .int 100000, type := nm "L", error := none },
                { tag := nm "N7:2", value := .int 3, type := nm "N", error := none }]) ∧
    slcRead hookAll w1 [nm "N7:0{2}", nm "L9:0", nm "N7:2"] =
      (w2, .ok [{ tag := nm "N7:0", value := .list [.int 1, .int 2], type := nm "N", error := none },
                { tag := nm "L9:0", value := .int 100000, type := nm "L", error := none },
                { tag := nm "N7:2", value := .int 3, type := nm "N", error := none }]) := by
  obtain ⟨w1, w2, _, _, tbl', _, g1, _, _, _, _, g6, _⟩ :=
    slc_write_many_disjoint_e2e world 4097 [238, 255, 192, 0] conn exTable
      [(nm "N7:0{2}", aN70c2, .list [.int 1, .int 2], [1, 0, 2, 0]),
       (nm "L9:0", aL90, .int 100000, [0xA0, 0x86, 0x01, 0x00]),
       (nm "N7:2", aN72, .int 3, [3, 0])] healthy tbl vid vsn (by decide)
      (by
        intro p hp
        simp only [List.mem_cons, List.not_mem_nil, or_false] at hp
        rcases hp with rfl | rfl | rfl
        · exact ⟨by decide, fun b h => PyVal.noConfusion h, fun k h => PyVal.noConfusion h,
            ⟨by rfl, by decide, by decide, by decide, by decide, by decide, parse_accepts_in_range (nm "N7:0{2}") _ (by decide),
             by decide, fN7, ⟨by decide, by decide⟩, by decide⟩⟩
        · exact ⟨by decide, fun b h => PyVal.noConfusion h, fun k h => PyVal.noConfusion h,
            ⟨by rfl, by decide, by decide, by decide, by decide, by decide, parse_accepts_in_range (nm "L9:0") _ (by decide),
             by decide, fL9, ⟨by decide, by decide⟩, by decide⟩⟩
        · exact ⟨by decide, fun b h => PyVal.noConfusion h, fun k h => PyVal.noConfusion h,
            ⟨by rfl, by decide, by decide, by decide, by decide, by decide, parse_accepts_in_range (nm "N7:2") _ (by decide),
             by decide, fN7, ⟨by decide, by decide⟩, by decide⟩⟩)
      (by decide)
  exact ⟨w1, w2, g1, g6⟩

/-- … of `slc_write_many_raises_later`: `write(("N7:0", 5), ("N7:1", 70000), ("N7:2", 6))` raises RequestError (70000
    is no 16-bit integer); the world is the one `write(("N7:0", 5))` leaves: N7:0 = 5 IS stored, N7:2 is not written -/
example : ∃ w1, slcWrite hookAll world [(nm "N7:0", .int 5)] =
      (w1, .ok [{ tag := nm "N7:0", value := .int 5, type := nm "N", error := none }]) ∧
    slcWrite hookAll world [(nm "N7:0", .int 5), (nm "N7:1", .int 70000), (nm "N7:2", .int 6)] = (w1, .error .request) := by
  obtain ⟨w1, _, _, _, tbl', h1, _⟩ :=
    slc_write_then_read_word_e2e world 4097 [238, 255, 192, 0] conn exTable (nm "N7:0") aN70 fN7 5 healthy tbl vid
      vsn (by decide) (by decide) (by decide) (by decide) rfl rfl (by decide) ⟨by decide, by decide⟩ (by decide) (by decide)
  refine ⟨w1, h1, ?_⟩
  exact slc_write_many_raises_later hookAll world w1 [(nm "N7:0", .int 5)] _ (nm "N7:1") (.int 70000)
    [(nm "N7:2", .int 6)] .request healthy.connected h1 (.inr ⟨aN71, by decide, by rfl⟩)
#guard (match (slcWrite hookAll world [(nm "N7:0", .int 5), (nm "N7:1", .int 70000), (nm "N7:2", .int 6)]) with
        | (w1, .error .request) => (match w1.net.target.ext.slc with
            | some tb => (tb[0]?.map (·.data)) == some [5, 0, 0xFF, 0xFF, 8, 0] | none => false)
        | _ => false)

/-- … of `slc_read_status_text_e2e`: `read("S:1")` returns -32767 (0x8001), `read("s:0/3")` returns True -/
example : ∃ w' frm, slcRead hookAll world [nm "S:1"] =
      (w', .ok [{ tag := nm "S:1", value := .int (-32767), type := nm "S", error := none }]) ∧
    w'.drv = world.drv.nextSeq.2.nextSeq.2 ∧ w'.net.sent = world.net.sent ++ [frm] ∧
    w'.net.target.ext = world.net.target.ext ∧
    Lgx.Drv.ldr_Healthy w' 4097 [238, 255, 192, 0] { conn with lastSeq := some world.drv.nextSeq.2.nextSeq.1 } := by
  have h := slc_read_status_text_e2e world 4097 [238, 255, 192, 0] conn exTable 83 1 none fS2 healthy tbl vid vsn
    (by decide) (by decide) (by decide) (by simp) (by decide) (by decide) (by decide)
  have h1 : dec 1 = [49] := by simp [dec, decRevS]
  have e : ([83] ++ [58] ++ dec 1 ++ bitTok none : Name) = nm "S:1" := by rw [h1]; decide
  rw [e] at h
  exact h

example : ∃ w' frm, slcRead hookAll world [nm "s:0/3"] =
      (w', .ok [{ tag := nm "s:0/3", value := .bool true, type := nm "S", error := none }]) ∧
    w'.drv = world.drv.nextSeq.2.nextSeq.2 ∧ w'.net.sent = world.net.sent ++ [frm] ∧
    w'.net.target.ext = world.net.target.ext ∧
    Lgx.Drv.ldr_Healthy w' 4097 [238, 255, 192, 0] { conn with lastSeq := some world.drv.nextSeq.2.nextSeq.1 } := by
  have h := slc_read_status_text_e2e world 4097 [238, 255, 192, 0] conn exTable 115 0 (some 3) fS2 healthy tbl vid vsn
    (by decide) (by decide) (by decide) (by simp) (by decide) (by decide) (by decide)
  have h0 : dec 0 = [48] := by simp [dec, decRevS]
  have h3 : dec 3 = [51] := by simp [dec, decRevS]
  have e : ([115] ++ [58] ++ dec 0 ++ bitTok (some 3) : Name) = nm "s:0/3" := by rw [bitTok, h0, h3]; decide
  rw [e] at h
  exact h

/-- … of `slc_read_io_text_e2e`: `read("I:2.1/7")` returns True (word 3 of file 1 is 0x0080), `read("I:3")` returns 128 -/
example : ∃ w' frm, slcRead hookAll world [nm "I:2.1/7"] =
      (w', .ok [{ tag := nm "I:2.1/7", value := .bool true, type := nm "I", error := none }]) ∧
    w'.drv = world.drv.nextSeq.2.nextSeq.2 ∧ w'.net.sent = world.net.sent ++ [frm] ∧
    w'.net.target.ext = world.net.target.ext ∧
    Lgx.Drv.ldr_Healthy w' 4097 [238, 255, 192, 0] { conn with lastSeq := some world.drv.nextSeq.2.nextSeq.1 } := by
  have h := slc_read_io_text_e2e world 4097 [238, 255, 192, 0] conn exTable 73 2 [] (some 1) (some 7) fI1 healthy tbl vid
    vsn (by decide) (by unfold IsIO; decide) (.inl rfl) (by decide) (by simp) (by simp) (by decide) (by decide) (by decide)
  have h1 : dec 1 = [49] := by simp [dec, decRevS]
  have h2 : dec 2 = [50] := by simp [dec, decRevS]
  have h7 : dec 7 = [55] := by simp [dec, decRevS]
  have e : ([73] ++ [] ++ [58] ++ dec 2 ++ posTok (some 1) ++ bitTok (some 7) : Name) = nm "I:2.1/7" := by
    rw [posTok, bitTok, h1, h2, h7]; decide
  rw [e] at h
  exact h

example : ∃ w' frm, slcRead hookAll world [nm "I:3"] =
      (w', .ok [{ tag := nm "I:3", value := .int 128, type := nm "I", error := none }]) ∧
    w'.drv = world.drv.nextSeq.2.nextSeq.2 ∧ w'.net.sent = world.net.sent ++ [frm] ∧
    w'.net.target.ext = world.net.target.ext ∧
    Lgx.Drv.ldr_Healthy w' 4097 [238, 255, 192, 0] { conn with lastSeq := some world.drv.nextSeq.2.nextSeq.1 } := by
  have h := slc_read_io_text_e2e world 4097 [238, 255, 192, 0] conn exTable 73 3 [] none none fI1 healthy tbl vid
    vsn (by decide) (by unfold IsIO; decide) (.inl rfl) (by decide) (by simp) (by simp) (by decide) (by decide) (by decide)
  have h3 : dec 3 = [51] := by simp [dec, decRevS]
  have e : ([73] ++ [] ++ [58] ++ dec 3 ++ posTok none ++ bitTok none : Name) = nm "I:3" := by
    rw [posTok, bitTok, h3]; decide
  rw [e] at h
  exact h

/-! a second world whose float and long files have three elements: F8 = 1.5, 2.5, -1.0; L9 = -2, 100000, -2^31 -/

def exTable2 : Table :=
  exTable.take 4 ++ [⟨8, 0x8A, [0, 0, 0xC0, 0x3F,  0, 0, 0x20, 0x40,  0, 0, 0x80, 0xBF]⟩,
                     ⟨9, 0x91, [0xFE, 0xFF, 0xFF, 0xFF,  0xA0, 0x86, 0x01, 0x00,  0, 0, 0, 0x80]⟩]
def world20 : Cli.World Ext := { drv := {}, net := { target := { base := base, ext := { slc := some exTable2 } } } }
/-- … after `open()` and the Forward Open: the model is run -/
def world2 : Cli.World Ext :=
  (Cli.ensureForwardOpen hookAll Cli.FUEL (Cli.openDrv hookAll world20 [1, 2, 3, 4, 5, 6, 7, 8]).1).1

#guard world2.drv.targetIsConnected && world2.net.target.base.conns == [conn]

private theorem healthy2 : Lgx.Drv.ldr_Healthy world2 4097 [238, 255, 192, 0] conn :=
  ⟨by decide +kernel, by decide +kernel, by decide +kernel, by decide +kernel, by decide +kernel, by decide,
   by decide +kernel, by decide +kernel, by decide, by decide +kernel, by decide +kernel, by decide +kernel⟩

private theorem tbl2 : world2.net.target.ext.slc = some exTable2 := by decide +kernel
private theorem vid2 : world2.drv.vid.length = 2 := by decide +kernel
private theorem vsn2 : world2.drv.vsn.length = 4 := by decide +kernel

def fF8' : SlcFile := ⟨8, 0x8A, [0, 0, 0xC0, 0x3F,  0, 0, 0x20, 0x40,  0, 0, 0x80, 0xBF]⟩
def fL9' : SlcFile := ⟨9, 0x91, [0xFE, 0xFF, 0xFF, 0xFF,  0xA0, 0x86, 0x01, 0x00,  0, 0, 0, 0x80]⟩
def aL90c3 : Addr :=
  { fileType := nm "L", fileNumber := 9, element := 0, subElement := 0, addressField := 2, count := 3, tag := nm "L9:0" }
def aL91c2 : Addr :=
  { fileType := nm "L", fileNumber := 9, element := 1, subElement := 0, addressField := 2, count := 2, tag := nm "L9:1" }
def aF80c3 : Addr :=
  { fileType := nm "F", fileNumber := 8, element := 0, subElement := 0, addressField := 2, count := 3, tag := nm "F8:0" }
def aF80c2 : Addr :=
  { fileType := nm "F", fileNumber := 8, element := 0, subElement := 0, addressField := 2, count := 2, tag := nm "F8:0" }

/-- every hypothesis of `slc_read_count_long_e2e` holds: `read("L9:0{3}")` returns [-2, 100000, -2147483648] -/
example : ∃ w' frm, slcRead hookAll world2 [nm "L9:0{3}"] =
      (w', .ok [{ tag := nm "L9:0", value := .list [.int (-2), .int 100000, .int (-2147483648)], type := nm "L",
                  error := none }]) ∧
    w'.drv = world2.drv.nextSeq.2.nextSeq.2 ∧ w'.net.sent = world2.net.sent ++ [frm] ∧
    w'.net.target.ext = world2.net.target.ext ∧
    Lgx.Drv.ldr_Healthy w' 4097 [238, 255, 192, 0] { conn with lastSeq := some world2.drv.nextSeq.2.nextSeq.1 } :=
  slc_read_count_long_e2e world2 4097 [238, 255, 192, 0] conn exTable2 (nm "L9:0{3}") aL90c3 fL9' healthy2 tbl2 vid2 vsn2
    (by decide) (by decide) rfl rfl (by decide) ⟨by decide, by decide⟩ (by decide)

/-- … of `slc_read_count_float_e2e`: `read("F8:0{3}")` returns [1.5, 2.5, -1.0] -/
example : ∃ w' frm, slcRead hookAll world2 [nm "F8:0{3}"] =
      (w', .ok [{ tag := nm "F8:0",
                  value := .list [.float 0x3FF8000000000000, .float 0x4004000000000000, .float 0xBFF0000000000000],
                  type := nm "F", error := none }]) ∧
    w'.drv = world2.drv.nextSeq.2.nextSeq.2 ∧ w'.net.sent = world2.net.sent ++ [frm] ∧
    w'.net.target.ext = world2.net.target.ext ∧
    Lgx.Drv.ldr_Healthy w' 4097 [238, 255, 192, 0] { conn with lastSeq := some world2.drv.nextSeq.2.nextSeq.1 } := by
  have h := slc_read_count_float_e2e world2 4097 [238, 255, 192, 0] conn exTable2 (nm "F8:0{3}") aF80c3 fF8' healthy2 tbl2
    vid2 vsn2 (by decide) (by decide) rfl rfl (by decide) ⟨by decide, by decide⟩ (by decide)
  have e : ((List.range aF80c3.count).map fun i =>
      PyVal.float (Flt.widen (dwordAt fF8'.data (4 * aF80c3.element + 4 * i)))) =
      [.float 0x3FF8000000000000, .float 0x4004000000000000, .float 0xBFF0000000000000] := by rfl
  rw [e] at h
  exact h

/-- … of `slc_write_count_long_e2e`: `write(("L9:1{2}", (7, -7)))`, then `read("L9:1{2}")` returns [7, -7]; L9:0 keeps -2 -/
example : ∃ w1 w2 tbl',
    slcWrite hookAll world2 [(nm "L9:1{2}", .tuple [.int 7, .int (-7)])] =
      (w1, .ok [{ tag := nm "L9:1", value := .tuple [.int 7, .int (-7)], type := nm "L", error := none }]) ∧
    w1.net.target.ext = { world2.net.target.ext with slc := some tbl' } ∧
    slcRead hookAll w1 [nm "L9:1{2}"] =
      (w2, .ok [{ tag := nm "L9:1", value := .list [.int 7, .int (-7)], type := nm "L", error := none }]) ∧
    ∃ g : SlcFile, tbl'[5]? = some g ∧ g.data[0]? = some 0xFE ∧ int32 (dwordAt g.data 8) = -7 := by
  obtain ⟨w1, w2, _, _, tbl', h1, h2, h3, _, _, _, _, _, hfr⟩ :=
    slc_write_count_long_e2e world2 4097 [238, 255, 192, 0] conn exTable2 (nm "L9:1{2}") aL91c2 fL9'
      (.tuple [.int 7, .int (-7)]) [7, -7] healthy2 tbl2 vid2 vsn2 (by decide) (by decide) (.inr rfl) rfl rfl (by decide)
      (by decide) (by decide) ⟨by decide, by decide⟩ (by decide) (by decide)
  obtain ⟨g, hg, _, _, _, hsame⟩ := hfr 5 fL9' (by decide)
  obtain ⟨_, hout, hval⟩ := hsame (by decide)
  refine ⟨w1, w2, tbl', h1, h2, h3, g, hg, ?_, hval 1 (by decide)⟩
  rw [hout 0 (by decide)]; rfl

/-- … of `slc_write_count_float_e2e`: `write(("F8:0{2}", [2.5, 0.1]))`, then `read("F8:0{2}")` returns
    [2.5, 0.10000000149011612]: element 1 holds the binary32 rounding 0x3DCCCCCD of 0.1 -/
example : ∃ w1 w2 tbl',
    slcWrite hookAll world2 [(nm "F8:0{2}", .list [.float 0x4004000000000000, .float 0x3FB999999999999A])] =
      (w1, .ok [{ tag := nm "F8:0", value := .list [.float 0x4004000000000000, .float 0x3FB999999999999A],
                  type := nm "F", error := none }]) ∧
    w1.net.target.ext = { world2.net.target.ext with slc := some tbl' } ∧
    slcRead hookAll w1 [nm "F8:0{2}"] =
      (w2, .ok [{ tag := nm "F8:0", value := .list [.float 0x4004000000000000, .float 0x3FB99999A0000000],
                  type := nm "F", error := none }]) ∧
    ∃ g : SlcFile, tbl'[4]? = some g ∧ dwordAt g.data 4 = 0x3DCCCCCD := by
  obtain ⟨w1, w2, _, _, tbl', h1, h2, h3, _, _, _, _, _, hfr⟩ :=
    slc_write_count_float_e2e world2 4097 [238, 255, 192, 0] conn exTable2 (nm "F8:0{2}") aF80c2 fF8'
      (.list [.float 0x4004000000000000, .float 0x3FB999999999999A])
      [(0x4004000000000000, 0x40200000), (0x3FB999999999999A, 0x3DCCCCCD)] healthy2 tbl2 vid2 vsn2 (by decide)
      (by decide) (.inl rfl) rfl rfl (by decide) (by decide) (by decide +kernel) ⟨by decide, by decide⟩ (by decide)
      (by decide)
  obtain ⟨g, hg, _, _, _, hsame⟩ := hfr 4 fF8' (by decide)
  obtain ⟨_, _, hval⟩ := hsame (by decide)
  have e : (([(0x4004000000000000, 0x40200000), (0x3FB999999999999A, 0x3DCCCCCD)] : List (Nat × Nat)).take
      aF80c2.count).map (fun p => PyVal.float (Flt.widen p.2)) =
      [.float 0x4004000000000000, .float 0x3FB99999A0000000] := by rfl
  rw [e] at h3
  refine ⟨w1, w2, tbl', h1, h2, h3, g, hg, ?_⟩
  have := hval 1 (by decide)
  simpa [aF80c2] using this

end Ex2

end Pycomm.Slc.Drv
