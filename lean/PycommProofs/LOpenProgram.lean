/-
  LogixDriver.open(), symbol upload of ANY scope: the page loop of `_get_instance_attribute_list_service(program)`
  for a request path prefix `pfx` that the controller routes to the symbol list of scope `scope`; instantiated for a
  program scope (`Program:X` data segment in front of class 0x6B).
-/
import PycommProofs.LOpenSymbols
namespace Pycomm.Lgx.Opn
open Pycomm Pycomm.Tgt Pycomm.Path Pycomm.Reply Pycomm.Encap Pycomm.Lgx Pycomm.EP Pycomm.Lgx.E2E Pycomm.Lgx.Drv

/-- the symbols of a scope as the symbol-list service selects them -/
def lo_scopeSyms (p : Project) (scope : Option Name) : Option (List Symbol) :=
  match scope with
  | none => some p.controller
  | some prog => (p.programs.find? (·.1 == prog)).map (·.2)

/-- `lo_symbolList` for any scope -/
theorem lo_symbolListS (st : LState) (scope : Option Name) (syms : List Symbol) (wa : Bool) (start cap : Nat)
    (hsyms : lo_scopeSyms st.proj scope = some syms) (hrev : wa = true → 18 ≤ st.rev) :
    ∃ pre left, lo_from syms start = pre ++ left ∧
      (lo_from syms start ≠ [] → pre ≠ []) ∧
      symbolList st scope start
          (le 2 (Up.wantedAttrs wa).length ++ ((Up.wantedAttrs wa).map (le 2)).flatten) cap =
        ({ st with ctr := st.ctr + 1 }, { status := if left.isEmpty then 0 else 6, data := lo_encRecs wa pre }) := by
  obtain ⟨pre, left, e, ht, hne⟩ := lo_takePage (Up.wantedAttrs wa) cap (lo_from syms start)
    (cyc st.proj.pageSchedule st.ctr 1000000) [] 0
  refine ⟨pre, left, e, hne rfl, ?_⟩
  unfold symbolList
  rw [lo_parseAttrList]
  dsimp only
  have hattr : ¬ (((Up.wantedAttrs wa).any fun a => !(([1, 2, 3, 5, 6, 8, 10] : List Nat).contains a)) = true ∨
      ((Up.wantedAttrs wa).contains 10 = true ∧ st.rev < 18)) := by
    cases wa
    · intro h
      rcases h with h | ⟨h, _⟩
      · revert h; decide
      · revert h; decide
    · have := hrev rfl
      intro h
      rcases h with h | ⟨_, h⟩
      · revert h; decide
      · omega
  rw [if_neg hattr]
  unfold lo_scopeSyms at hsyms
  unfold lo_from at ht
  cases scope with
  | none =>
    simp only [Option.some.injEq] at hsyms
    subst hsyms
    dsimp only
    rw [ht]
    simp [lo_encRecs]
  | some prog =>
    dsimp only at hsyms ⊢
    rw [hsyms]
    dsimp only
    rw [ht]
    simp [lo_encRecs]

/-- what a scope's request path must provide: the path bytes exist for every 32-bit continuation instance, are at
    most `L` bytes, denote `pfx ++ [class 0x6B, instance]`, and the controller routes that path to the symbol list of
    `scope` -/
structure lo_ScopePath (program scope : Option Name) (pfx : List PSeg) (L : Nat) : Prop where
  path : ∀ start, start < 2 ^ 32 → ∃ path, symbolListPath program start = .ok path ∧ path.length ≤ L ∧
    Denotes path (pfx ++ [PSeg.logical 0 0x6B, PSeg.logical 4 start])
  route : ∀ (st : LState) (start : Nat) (d : Bytes) (cap : Nat),
    logixService st { service := 0x55, path := pfx ++ [PSeg.logical 0 0x6B, PSeg.logical 4 start], data := d } (some cap) =
      some (symbolList st scope start d (cap - 4))
  logix : ∀ start, ldr2_LogixPath (pfx ++ [PSeg.logical 0 0x6B, PSeg.logical 4 start])

/-- `lo_step` for any scope -/
theorem lo_stepS (program scope : Option Name) (pfx : List PSeg) (L : Nat) (hsp : lo_ScopePath program scope pfx L)
    (w : Cli.World Ext) (sess : Nat) (cidb : Bytes) (conn : Conn) (st : LState) (syms : List Symbol) (wa : Bool)
    (fuel start : Nat) (acc : List Up.Rec)
    (hw : ldr_Healthy w sess cidb conn) (hlogix : w.net.target.ext.logix = some st)
    (hsyms : lo_scopeSyms st.proj scope = some syms)
    (hrev : wa = true → 18 ≤ st.rev) (hwf : ∀ s ∈ syms, Up.WfSymbol s)
    (hstart : start < 2 ^ 32) (hsize : L + 19 ≤ conn.size) (hL : L ≤ 600) :
    ∃ pre left w', lo_from syms start = pre ++ left ∧
      (lo_from syms start ≠ [] → pre ≠ []) ∧
      ldr_Healthy w' sess cidb { conn with lastSeq := some w.drv.nextSeq.1 } ∧ w'.drv = w.drv.nextSeq.2 ∧
      (∃ frm, w'.net.sent = w.net.sent ++ [frm]) ∧
      w'.net.target.ext = { w.net.target.ext with logix := some { st with ctr := st.ctr + 1 } } ∧
      getInstanceAttributeList hookAll program wa (fuel + 1) w start acc =
        match Up.nextInstance (if left.isEmpty then 0 else 6) (pre.map (Up.recOfSymbol wa)) with
        | none => (w', .ok (acc ++ pre.map (Up.recOfSymbol wa)))
        | some next => getInstanceAttributeList hookAll program wa fuel w' next (acc ++ pre.map (Up.recOfSymbol wa)) := by
  obtain ⟨path, hpath, hpl, hden⟩ := hsp.path start hstart
  obtain ⟨pre, left, e, hne, hsl⟩ := lo_symbolListS st scope syms wa start (conn.size - 2 - 4) hsyms hrev
  have hw1 : ldr_Healthy ({ w with drv := w.drv.nextSeq.2 } : Cli.World Ext) sess cidb conn :=
    ldr_Healthy_seq hw _ (by rw [(Cli.lcs_nextSeq w.drv).2])
  have hml := lo_symbolListMsg_length path wa
  have hpm := lo_parseMR_symbolList path wa _ hden
  have hls : logixService st (lo_symbolListReq (pfx ++ [PSeg.logical 0 0x6B, PSeg.logical 4 start]) wa) (some (conn.size - 2)) =
      some ({ st with ctr := st.ctr + 1 }, { status := if left.isEmpty then 0 else 6, data := lo_encRecs wa pre }) := by
    unfold lo_symbolListReq
    rw [hsp.route, hsl]
  have hlp : ldr2_LogixPath (lo_symbolListReq (pfx ++ [PSeg.logical 0 0x6B, PSeg.logical 4 start]) wa).path :=
    hsp.logix start
  obtain ⟨w', frm, hsend, hd, hsent, hext, hh⟩ := ldr2_sendUnit_logix ({ w with drv := w.drv.nextSeq.2 } : Cli.World Ext)
    sess cidb conn st w.drv.nextSeq.1 (symbolListMsg path wa) _ _ hw1 hlogix hpm hlp hls (ldr_nextSeq_lt w.drv)
    (by omega) (by omega)
  have hst : (if left.isEmpty then 0 else 6) = 0 ∨ (if left.isEmpty then 0 else 6) = 6 := by
    split
    · exact Or.inl rfl
    · exact Or.inr rfl
  obtain ⟨hv, hdata, hstatus⟩ := lo_page_reply (if left.isEmpty then 0 else 6) sess conn.toId w.drv.nextSeq.1
    w.drv.nextSeq.2.context (lo_encRecs wa pre) hw1.ctx8 hst
  have hrec : Up.parseRecords wa ((lo_encRecs wa pre).length + 1) (lo_encRecs wa pre) = .ok (pre.map (Up.recOfSymbol wa)) := by
    apply Up.records_roundtrip
    · intro s hs
      apply hwf
      have : s ∈ lo_from syms start := by rw [e]; simp [hs]
      exact (List.mem_filter.1 this).1
    · have := lo_encRecs_length wa pre
      omega
  refine ⟨pre, left, w', e, hne, hh, hd, ⟨frm, hsent⟩, hext, ?_⟩
  unfold Drv.sendUnit at hsend
  dsimp only at hsend
  rw [getInstanceAttributeList, hpath]
  dsimp only
  rw [hsend]
  dsimp only [lo_symbolListReq]
  simp only [hv, hdata, hstatus, Bool.not_true, Bool.false_eq_true, if_false, Option.getD_some, hrec]
  rfl

/-- `lo_upload_from` for any scope -/
theorem lo_upload_fromS (program scope : Option Name) (pfx : List PSeg) (L : Nat) (hsp : lo_ScopePath program scope pfx L)
    (hL : L ≤ 600) (sess : Nat) (cidb : Bytes) (wa : Bool) (syms : List Symbol) :
    ∀ (fuel : Nat) (w : Cli.World Ext) (conn : Conn) (st : LState) (start : Nat) (acc : List Up.Rec),
    ldr_Healthy w sess cidb conn → w.net.target.ext.logix = some st →
    lo_scopeSyms st.proj scope = some syms →
    (wa = true → 18 ≤ st.rev) → (∀ s ∈ syms, Up.WfSymbol s) → lo_Sorted syms →
    start < 2 ^ 32 → L + 19 ≤ conn.size → (lo_from syms start).length < fuel →
    ∃ w' conn' k, getInstanceAttributeList hookAll program wa fuel w start acc =
        (w', .ok (acc ++ (lo_from syms start).map (Up.recOfSymbol wa))) ∧
      ldr_Healthy w' sess cidb conn' ∧ conn'.size = conn.size ∧ lo_SameDrv w.drv w'.drv ∧
      (∃ frms, w'.net.sent = w.net.sent ++ frms) ∧
      w'.net.target.ext = { w.net.target.ext with logix := some { st with ctr := st.ctr + k } } := by
  intro fuel
  induction fuel with
  | zero => intro w conn st start acc _ _ _ _ _ _ _ _ hf; omega
  | succ fuel ih =>
    intro w conn st start acc hw hlogix hsyms hrev hwf hsorted hstart hsize hf
    obtain ⟨pre, left, w1, e, hne, hh1, hd1, ⟨frm, hsent1⟩, hext1, hstep⟩ :=
      lo_stepS program scope pfx L hsp w sess cidb conn st syms wa fuel start acc hw hlogix hsyms hrev hwf hstart hsize hL
    rw [hstep]
    by_cases hl : left = []
    · subst hl
      have hni : Up.nextInstance 0 (pre.map (Up.recOfSymbol wa)) = none := by simp [Up.nextInstance]
      simp only [List.isEmpty_nil, if_true, hni]
      refine ⟨w1, _, 1, ?_, hh1, rfl, ?_, ⟨[frm], hsent1⟩, hext1⟩
      · rw [e, List.append_nil]
      · rw [hd1]; exact lo_SameDrv.nextSeq w.drv
    · have hne' : lo_from syms start ≠ [] := by
        rw [e]; intro h; exact hl (List.append_eq_nil_iff.1 h).2
      have hpre := hne hne'
      obtain ⟨pre', s, rfl⟩ : ∃ pre' s, pre = pre' ++ [s] :=
        ⟨pre.dropLast, pre.getLast hpre, (List.dropLast_concat_getLast hpre).symm⟩
      have hle : left.isEmpty = false := by cases left <;> simp_all
      have hni : Up.nextInstance 6 ((pre' ++ [s]).map (Up.recOfSymbol wa)) = some (s.inst + 1) :=
        (Up.next_instance_after_page pre' s wa).1
      simp only [hle, Bool.false_eq_true, if_false, hni]
      have hnext : lo_from syms (s.inst + 1) = left := lo_from_next _ hsorted start pre' left s e
      have hstart' : s.inst + 1 < 2 ^ 32 := by
        obtain ⟨x, hx⟩ := List.exists_mem_of_ne_nil left hl
        have hxm : x ∈ lo_from syms (s.inst + 1) := by rw [hnext]; exact hx
        have hxc := List.mem_filter.1 hxm
        have h1 := (hwf x hxc.1).1
        have h2 : x.inst ≥ s.inst + 1 := by simpa using hxc.2
        omega
      have hlen : (lo_from syms (s.inst + 1)).length < fuel := by
        rw [hnext]
        rw [e] at hf
        simp only [List.length_append, List.length_cons, List.length_nil] at hf
        omega
      have hlogix1 : w1.net.target.ext.logix = some { st with ctr := st.ctr + 1 } := by rw [hext1]
      obtain ⟨w', conn', k, hres, hh', hcs, hsd, ⟨frms, hsent'⟩, hext'⟩ :=
        ih w1 { conn with lastSeq := some w.drv.nextSeq.1 } { st with ctr := st.ctr + 1 } (s.inst + 1)
          (acc ++ (pre' ++ [s]).map (Up.recOfSymbol wa)) hh1 hlogix1 hsyms hrev hwf hsorted hstart' hsize hlen
      refine ⟨w', conn', 1 + k, ?_, hh', hcs, ?_, ⟨frm :: frms, ?_⟩, ?_⟩
      · rw [hres, hnext, e]
        simp only [List.map_append, List.append_assoc]
      · exact lo_SameDrv.trans (by rw [hd1]; exact lo_SameDrv.nextSeq w.drv) hsd
      · rw [hsent', hsent1, List.append_assoc]; rfl
      · rw [hext', hext1]
        simp only [Nat.add_assoc]

/-! ### the program scope -/

/-- the name the request carries: `Program:` is prepended unless the caller already wrote it (logix_driver.py:466) -/
def lo_programName (p : Name) : Name := if PyStr.startsWith (nm "Program:") p then p else nm "Program:" ++ p

theorem lo_programName_prefix (p : Name) : (lo_programName p).take 8 = nm "Program:" := by
  unfold lo_programName
  split
  · rename_i h
    unfold PyStr.startsWith at h
    have h8 : (nm "Program:").length = 8 := by decide
    rw [h8] at h
    exact eq_of_beq h
  · have h8 : (nm "Program:").length = 8 := by decide
    rw [List.take_append_of_le_length (by omega), ← h8, List.take_length]

/-- the request path of a program scope: the `Program:X` data segment, then class 0x6B and the instance; the
    controller routes it to the symbol list of that program.
    `hlen`, `hascii`: the name fits a symbolic segment and is ASCII (what `DataSegment` can encode). -/
theorem lo_scopePath_program (p : Name) (hp : p ≠ []) (hlen : (lo_programName p).length ≤ 255)
    (hascii : ∀ c ∈ lo_programName p, c < 128) :
    lo_ScopePath (some p) (some (lo_programName p)) [PSeg.symbol ((lo_programName p).map UInt8.ofNat)]
      ((lo_programName p).length + 16) := by
  have hc0 : lookupName (Path.nm "class_id") Gen.logicalTypes = some 0 := by decide
  have hi4 : lookupName (Path.nm "instance_id") Gen.logicalTypes = some 4 := by decide
  have e : (0x6b : UInt8).toNat = 0x6B := by decide
  refine ⟨?_, ?_, ?_⟩
  · intro start hs
    have h := EncAll.cons (enc1_symbol (lo_programName p) hlen hascii)
      (EncAll.cons (enc1_logical_byte _ _ hc0 0x6b) (EncAll.cons (enc1_logical _ _ hi4 start hs) EncAll.nil))
    rw [e] at h
    obtain ⟨bs, hb, hpp⟩ := h.request (by omega)
    refine ⟨bs, ?_, ?_, hpp⟩
    · unfold symbolListPath
      have : p.isEmpty = false := by cases p <;> simp_all
      simp only [this, Bool.false_eq_true, if_false]
      exact hb
    · have := Drv.ldr_encEpath_len h hb
      omega
  · intro st start d cap
    have hprog : isProgramName ((lo_programName p).map UInt8.ofNat) = true := by
      unfold isProgramName
      rw [← List.map_take, lo_programName_prefix]
      decide
    have hback : ((lo_programName p).map UInt8.ofNat).map (·.toNat) = lo_programName p :=
      Up.up_encName_toNat (lo_programName p) (fun c hc => by have := hascii c hc; omega)
    simp only [logixService, single, List.cons_append, List.nil_append, Option.getD_some, hprog, hback]
    simp
  · intro start
    exact Or.inl ⟨_, _, rfl⟩

end Pycomm.Lgx.Opn
