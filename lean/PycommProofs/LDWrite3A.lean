/-
  LogixDriver.write of ONE request that is sent as one plain Write Tag service, for a location of ANY element type
  (elementary, structure, packed BOOL member): the layers composed for whatever the controller does with the request
  (`ldw3_write_single`: the controller's answer is a hypothesis on `Cl.exchange`), and the pieces the structure
  shapes need.

    (b)       `ldw3_encodeValue` (`encode_value` for a non-array `type_class`), `ldw3_packedType_struct`
    (d)       `ldw3_typeBytes_struct`, `ldw3_symbolOf_struct`, `ldw3_symbolOf_member`
    composed  `ldw3_write_single`
-/
import PycommProofs.LogixDriverWrite2
import PycommProofs.LogixDriverRead3
namespace Pycomm.Lgx.Drv
open Pycomm Pycomm.Tgt Pycomm.Path Pycomm.Reply Pycomm.Encap Pycomm.Lgx Pycomm.Lgx.E2E

/-! ### (b) `encode_value`, `_packed_data_type` -/

/-- (b) `encode_value` of a request whose `type_class` is not an array, whose data type is not called DWORD and whose
    value is not a `bytes` object: the request is unchanged, the bytes are the codec's encoding of the value -/
theorem ldw3_encodeValue (p : Drv.Parsed) (info : TagInfo) (t : Ty) (bytes : Bytes)
    (hnb : ∀ b, p.value ≠ .bytes b) (hnd : info.core.dataTypeName ≠ nm "DWORD")
    (hty : info.core.ty = t) (hna : ∀ n t', t ≠ .arr (.fixed n) t')
    (henc : encode t p.value = .ok bytes) : encodeValue p info = (p, some bytes) := by
  have hdw : (info.core.dataTypeName == nm "DWORD") = false := by simpa using hnd
  unfold encodeValue
  split
  · rename_i b hv
    exact absurd hv (hnb b)
  · rw [hty]
    cases t with
    | arr len t' =>
      cases len with
      | fixed n => exact absurd rfl (hna n t')
      | pref k => simp only [hdw, Bool.false_eq_true, false_and, if_false, henc]
      | all => simp only [hdw, Bool.false_eq_true, false_and, if_false, henc]
    | _ => simp only [hdw, Bool.false_eq_true, false_and, if_false, henc]

/-- (b) `_packed_data_type` of a structure tag: the structure marker `A0 02` and the structure handle of the
    `data_type` dict -/
theorem ldw3_packedType_struct (info : TagInfo) (si : StructInfo) (h : info.core.struct = some si) :
    packedTypeOf info = [0xA0, 0x02] ++ le 2 si.handle := by
  unfold packedTypeOf
  rw [h]
  rfl

/-- the controller's type marker of a structure location -/
theorem ldw3_typeBytes_struct (p : Project) (tid : Nat) (tm : Template) (htm : p.template? tid = some tm) :
    typeBytes p (.struct tid) = [0xA0, 0x02] ++ le 2 tm.handle := by
  simp [typeBytes, htm]

/-! ### (d) the symbol of a location -/

theorem ldw3_symbolOf_struct (p : Project) (s : Symbol) (tid : Nat) (hs : s ∈ p.controller)
    (huniqI : ∀ s' ∈ p.controller, s'.inst = s.inst → s' = s) :
    p.symbolOf (ldr3_locStruct s tid) = some s := ldr_find_inst p s hs huniqI

theorem ldw3_symbolOf_member (p : Project) (s : Symbol) (m : MemberDef) (c : Nat) (hs : s ∈ p.controller)
    (huniqI : ∀ s' ∈ p.controller, s'.inst = s.inst → s' = s) :
    p.symbolOf (ldr3_locMember s m c) = some s := ldr_find_inst p s hs huniqI

/-! ### the layers composed -/

/-- `LogixDriver.write` of one `(tag string, value)` pair on a healthy connected driver, when the request is sent as
    one plain Write Tag service for `n` elements and the controller accepts it (status 0, moving to the state `st'`):
    the result is what the result loop of `write` makes of the recorded Tag. Exactly one frame is written, one
    sequence number is drawn, the controller's Logix state afterwards is `st'`, the resulting world is healthy again.

    `p0` is the parsed request, `p1` what `encode_value` hands back with the bytes; `path`/`segs` the request path
    and what it denotes; `loc` where the controller resolves it. Generalises `ldw2_write_single` (elementary
    locations) to any type marker. -/
theorem ldw3_write_single (cfg : Cfg) (w : Cli.World Ext) (sess : Nat) (cidb : Bytes) (conn : Conn)
    (st st' : LState) (tag0 : Name) (v : PyVal) (p0 p1 : Drv.Parsed) (info : TagInfo) (path : Bytes) (segs : List PSeg)
    (loc : Loc) (n : Nat) (bytes : Bytes)
    (hw : ldr_Healthy w sess cidb conn) (hlogix : w.net.target.ext.logix = some st)
    (hparse : parseTagRequest cfg.tags true 0 tag0 = p0)
    (hperr : p0.error = none) (hpinfo : p0.info = some info) (hbw : p0.isBitWrite = false)
    (henc : encodeValue { p0 with value := v } info = (p1, some bytes)) (hrid : p1.requestId = 0) (hrid0 : p0.requestId = 0)
    (hpel : p1.elements = (n : Int)) (hn : n ≤ 65535)
    (hpath : requestPathOf cfg p1.plcTag info = .ok path) (hden : Denotes path segs) (hpl : path.length ≤ 600)
    (hr : resolve st.proj segs = .ok loc)
    (hex : Cl.exchange st (conn.size - 2) (Cl.writeMsg path (packedTypeOf info) n bytes) = (st', {}))
    (hptl : (packedTypeOf info).length ≤ 4) (hb16 : bytes.length ≤ 64000)
    (hC : 2 * bytes.length + path.length + (packedTypeOf info).length + 5 ≤ w.drv.connectionSize)
    (hT : bytes.length + path.length + (packedTypeOf info).length + 5 ≤ conn.size) :
    ∃ w' frm, write hookAll cfg w [(tag0, v)] =
        (w', .ok [writeResult p1 [((0 : Nat), { tag := p1.plcTag, value := .bytes bytes, type := some info.core.dataTypeName,
                                                error := none })]]) ∧
      w'.drv = w.drv.nextSeq.2 ∧ w'.net.sent = w.net.sent ++ [frm] ∧
      w'.net.target.ext = { w.net.target.ext with logix := some st' } ∧
      ldr_Healthy w' sess cidb { conn with lastSeq := some w.drv.nextSeq.1 } := by
  have hparsed : ((parseRequestedTags cfg.tags true ([(tag0, v)].map (·.1))).zip ([(tag0, v)].map (·.2))).map
      (fun x => ({ x.1 with value := x.2 } : Drv.Parsed)) = [{ p0 with value := v }] := by
    show ([parseTagRequest cfg.tags true 0 tag0].zip [v]).map _ = _
    rw [hparse]; rfl
  have hmsg : Cl.writeMsg path (packedTypeOf info) n bytes =
      [0x4D] ++ path ++ (packedTypeOf info ++ le 2 n ++ bytes) := by
    simp only [Cl.writeMsg, List.append_assoc]
  have hml : (Cl.writeMsg path (packedTypeOf info) n bytes).length =
      path.length + (packedTypeOf info).length + 3 + bytes.length := by
    simp only [Cl.writeMsg, List.length_append, List.length_cons, List.length_nil, le_length]; omega
  have hbuild := ldw2_build_single cfg w.drv { p0 with value := v } p1 info path bytes n hperr hpinfo
    (by simpa [Parsed.isBitWrite] using hbw) henc (by rw [hrid]; exact hrid0.symm) hpel hn hpath
    (by rw [hml]; omega)
  have hw1 : ldr_Healthy ({ w with drv := w.drv.nextSeq.2 } : Cli.World Ext) sess cidb conn :=
    ldr_Healthy_seq hw _ (by rw [(Cli.lcs_nextSeq w.drv).2])
  rw [hmsg] at hex
  obtain ⟨w2, frm, hsend, hd2, hsent2, hext2, hh2⟩ := ldw2_sendUnit_tag ({ w with drv := w.drv.nextSeq.2 } : Cli.World Ext)
    sess cidb conn st st' 0x4D path (packedTypeOf info ++ le 2 n ++ bytes) segs loc w.drv.nextSeq.1 hw1 hlogix hden hr
    (Or.inl rfl) hex (ldr_nextSeq_lt w.drv) (by rw [← hmsg, hml]; omega) (by rw [← hmsg, hml]; omega)
  rw [← hmsg] at hsend
  simp only [show (0x4D : UInt8).toNat = 0x4D from rfl] at hsend
  have hresp := ldw_writeTag_ok p1.plcTag (.bytes bytes) info.core.dataTypeName 0x4D sess conn.toId w.drv.nextSeq.1
    w.drv.nextSeq.2.context hw1.ctx8
  have hfo : Cli.ensureForwardOpen hookAll Cli.FUEL w = (w, .ok ()) := ldr_ensureFO_connected hookAll 7 w hw.connected
  refine ⟨w2, frm, ?_, hd2, hsent2, hext2, hh2⟩
  unfold write
  rw [hfo]
  dsimp only
  rw [hparsed, hbuild]
  dsimp only
  unfold sendRequests sendRequest
  dsimp only
  rw [hsend]
  dsimp only
  rw [hresp]
  dsimp only [Except.map]
  unfold sendRequests
  dsimp only [ldw_fanOut_write, List.isEmpty_cons, Bool.false_eq_true, if_false, List.map_cons, List.map_nil,
    Results.set, List.any_nil, List.nil_append]
  simp only [Bool.false_eq_true, if_false, List.map_cons, List.map_nil, hrid]

end Pycomm.Lgx.Drv
