/-
  C01 ("read returns exactly what the controller holds") and C02 ("a write changes exactly the addressed data; a
  following read returns it") as a REFINEMENT over whole call histories: any sequence of `LogixDriver.read` /
  `LogixDriver.write` calls on an opened driver behaves like the same sequence of operations on the controller's memory
  seen as an abstract map (the `Project`): the driver returns exactly the Tags the specification computes from the
  memory, and the controller ends with exactly the specification's memory. The one-call theorems `read_mixed_e2e`
  (LogixDriverReadMix), `write_mixed_e2e` (LogixDriverWriteMix) and the single-request theorems are the steps; the
  history theorem is an induction over the list of calls — there is no bound on its length.

  Layers (lemmas usable on their own):
    LgxRef1  `lgrf_memAt` / `lgrf_atR` / `lgrf_atW` (a request re-based on the current memory), the specification
             (`lgrf_Op`, `lgrf_specRead`, `lgrf_specWrite`, `lgrf_specRun`), the driver run `lgrf_driverRun`, the domain
             (`lgrf_OpOk`, `lgrf_OpsOk`), the invariant `lgrf_Inv`
    LgxRef6  calls with one request: `lgrf_read_single`, `lgrf_write_single`
    LgxRef2  `lgrf_read_step`, `lgrf_write_step`, `lgrf_run_refines`
    LgxRef3  projects of the same shape `lgrf_Same`, `lgrf_symAt_same`, the codec reads every elementary memory
             (`lgrf_decode_total`)
    LgxRef4  stability of the per-request hypotheses (`lgrf_atR_stable`, `lgrf_atW_stable`), `lgrf_same_applyAll`,
             `lgrf_opsOk_of_base`
    LgxRef5  the memory after a history (`lgrf_specRun_proj`, `lgrf_specRun_log`), bytes that stay (`lgrf_Holds`,
             `lgrf_holds_run`, `lgrf_holds_write`), the value read from them (`lgrf_atR_value`)
-/
import PycommProofs.LgxRef5
import PycommProofs.LifecycleLogix
namespace Pycomm.Lgx.Drv
open Pycomm Pycomm.Tgt Pycomm.Path Pycomm.Reply Pycomm.Encap Pycomm.Lgx Pycomm.Lgx.E2E

/-- the call as a call of the lifecycle histories (LifecycleLogix) -/
def lgrf_Op.toLCall (cfg : Cfg) : lgrf_Op → Cli.LCall
  | .read its => .read cfg (its.map fun it => ldmx_Item.request it)
  | .write its => .write cfg (its.map fun x => ldwx_Item.request cfg x)

theorem lgrf_lcallStep (cfg : Cfg) (w : Cli.World Ext) (op : lgrf_Op) :
    (Cli.lcallStep hookAll w (op.toLCall cfg)).1 = (lgrf_call cfg w op).1 := by
  cases op with
  | read its =>
    simp only [lgrf_Op.toLCall, Cli.lcallStep, lgrf_call]
    split <;> rename_i h <;> rw [h]
  | write its =>
    simp only [lgrf_Op.toLCall, Cli.lcallStep, lgrf_call]
    split <;> rename_i h <;> rw [h]

/-- the world of `lgrf_driverRun` is the world of the lifecycle run `lrun` over the same calls -/
theorem lgrf_lrun (cfg : Cfg) (ops : List lgrf_Op) : ∀ w : Cli.World Ext,
    Cli.lrun hookAll w (ops.map (·.toLCall cfg)) = (lgrf_driverRun cfg w ops).1 := by
  induction ops with
  | nil => intro w; rfl
  | cons op ops ih =>
    intro w
    show Cli.lrun hookAll (Cli.lcallStep hookAll w (op.toLCall cfg)).1 (ops.map (·.toLCall cfg)) =
      (lgrf_driverRun cfg (lgrf_call cfg w op).1 ops).1
    rw [lgrf_lcallStep, ih]

theorem lgrf_atW_valW (p : Project) (x : ldwx_Item) : lgrf_valW (lgrf_atW p x) = lgrf_valW x := by cases x <;> rfl

theorem lgrf_locR_error (r : ldmx_Item) (l : Nat × Nat × Ty) (h : lgrf_locR r = some l) : r.out.error = none := by
  cases r <;> first | rfl | cases h

-- PROPERTY THEOREMS

/-! ### the specification, in the words of the property

  The specification state is the controller's `Project`. Its operations are pure and small:
  * `Refine.specRead p its = its.map fun it => (lgrf_atR p it).out` — for every request the Tag named as requested whose
    value is what the codec decodes from the bytes `p` holds at the addressed location (`lgrf_atR p it`: the request
    `it` with the memory of its symbol replaced by the one `p` holds under the symbol's instance id, `lgrf_memAt`, and
    the value fields recomputed by `decode`; names, indexes, types untouched);
  * `Refine.specWrite p its = (ldwx_applyAll p (ldwx_targets its), its.map (·.out))` — the accepted writes
    `(instance id, byte offset, bytes)` spliced in, in request order, each logged once; the caller's values echoed.
  A history is a list of `Refine.Op`; `Refine.specRun` folds the specification over it, `Refine.driverRun` folds the
  driver model (`read` / `write` of PycommModel/Logix/Driver.lean on the request strings) over it. -/

namespace Refine
/-- one call: `read its` / `write its` (`lgrf_Op`) -/
abbrev Op := lgrf_Op
/-- the Tags a read returns on memory `p` (`lgrf_specRead`) -/
abbrev specRead := lgrf_specRead
/-- the memory after a write, and its Tags (`lgrf_specWrite`) -/
abbrev specWrite := lgrf_specWrite
/-- one specification step (`lgrf_specStep`) -/
abbrev specStep := lgrf_specStep
/-- the specification over a history: final memory, Tags of every call (`lgrf_specRun`) -/
abbrev specRun := lgrf_specRun
/-- the driver model over a history: final world, outcome of every call (`lgrf_driverRun`) -/
abbrev driverRun := lgrf_driverRun
/-- the hypotheses on one call against the CURRENT memory (`lgrf_OpOk`): per request those of the single-request theorem
    of its kind (`ldmx_Item.Ok` / `ldwx_ItemOk`) for the request re-based on the memory, and either ≥ 2 requests each
    fitting a multi-service packet alone, or exactly one request of the kinds scalar / element / slice / member path
    within the bound of the single-request path (`lgrf_single1R`, `lgrf_single1W`) -/
abbrev OpOk := lgrf_OpOk
/-- … on a history, following the specification run (`lgrf_OpsOk`): `OpsOk cfg C p [] = True`,
    `OpsOk cfg C p (op :: ops) = (OpOk cfg C p op ∧ OpsOk cfg C (specStep p op).1 ops)` -/
abbrev OpsOk := lgrf_OpsOk
/-- the invariant between two calls (`lgrf_Inv`): healthy connected world for some connection record of registered size
    ≥ `C`, the driver's connection size is `C ≤ 65400`, the controller's project is `p`, its symbol names are byte
    strings -/
abbrev RefInv := lgrf_Inv
end Refine

/-- C01, one step in refinement form: from a world in the invariant `RefInv` with memory `p`, a `read` call in the
    domain returns — without exception — exactly the Tags `specRead p its` and leaves a world in the invariant with the
    SAME memory `p` (same connection size, same tag database, a healthy connection whose record differs only in the
    last sequence count seen); of the controller's Logix state only the schedule counter `ctr` moves (by the number of
    served requests). Re-packaging of `read_mixed_e2e` (≥ 2 requests) and of the single-request theorems (1 request). -/
theorem read_step_refines (cfg : Cfg) (sess : Nat) (cidb : Bytes) (C : Nat) (w : Cli.World Ext) (p : Project)
    (its : List ldmx_Item) (hmicro : cfg.micro800 = false)
    (hinv : Refine.RefInv sess cidb C w p) (hok : Refine.OpOk cfg C p (.read its)) :
    ∃ w', read hookAll cfg w (its.map (·.request)) = (w', .ok (Refine.specRead p its)) ∧
      Refine.RefInv sess cidb C w' p ∧
      (∀ st, w.net.target.ext.logix = some st →
        w'.net.target.ext = { w.net.target.ext with logix := some { st with ctr := st.ctr + (its.map (·.served)).sum } }) :=
  lgrf_read_step cfg sess cidb C w p its hmicro hinv hok

/-- C02, one step in refinement form: from a world in the invariant with memory `p`, a `write` call in the domain
    returns exactly the Tags of `specWrite p its` and leaves a world in the invariant whose memory is the memory of
    `specWrite p its` — `ldwx_applyAll p (ldwx_targets its)`; nothing else of the controller's Logix state changes.
    The invariant is re-established because writes keep the shapes of the symbols (`ldwx_symAfter_shape`: names,
    instance ids, type words, dimensions) — so names stay byte strings and the driver's tag database stays right. -/
theorem write_step_refines (cfg : Cfg) (sess : Nat) (cidb : Bytes) (C : Nat) (w : Cli.World Ext) (p : Project)
    (its : List ldwx_Item) (hmicro : cfg.micro800 = false)
    (hinv : Refine.RefInv sess cidb C w p) (hok : Refine.OpOk cfg C p (.write its)) :
    ∃ w', write hookAll cfg w (its.map (·.request cfg)) = (w', .ok (Refine.specWrite p its).2) ∧
      Refine.RefInv sess cidb C w' (Refine.specWrite p its).1 ∧
      (∀ st, w.net.target.ext.logix = some st →
        w'.net.target.ext = { w.net.target.ext with logix := some { st with proj := (Refine.specWrite p its).1 } }) :=
  lgrf_write_step cfg sess cidb C w p its hmicro hinv hok

/-- the specification's read IS the reference interpretation of the one-call theorems: for requests that satisfy the
    per-request hypotheses `ldmx_Item.Ok` on the memory `p` as given (as `read_mixed_e2e` asks), `specRead p its` is
    `its.map (·.out)` — the Tags `read_mixed_e2e` states; re-basing a request on the project it was stated for changes
    nothing (`lgrf_atR_self`). -/
theorem spec_read_is_reference_interpretation (cfg : Cfg) (p : Project) (its : List ldmx_Item)
    (hok : ∀ it ∈ its, it.Ok cfg { proj := p }) :
    Refine.specRead p its = its.map (·.out) ∧ ∀ it ∈ its, lgrf_atR p it = it :=
  ⟨lgrf_specRead_self cfg p its hok, fun it hit => lgrf_atR_self cfg p it (hok it hit)⟩

/-- the domain is stable, reads: a read request (of any kind but the whole flat structure, `lgrf_StableKind`) that
    satisfies the hypotheses of its single-request theorem on a project `p` satisfies them, re-based, on EVERY project
    `p'` of the same shape (`lgrf_Same`: same structure definitions and program scopes, the same controller-scope
    symbols with memories of the same lengths) — whatever the memories hold: the hypotheses depend on the project only
    through templates and symbol shapes, and an elementary value always decodes (`lgrf_decode_total`). For a whole
    flat structure the new memory must decode to a dict: `lgrf_struct_stable`. -/
theorem read_request_hypotheses_stable (cfg : Cfg) (p p' : Project) (it : ldmx_Item) (hk : lgrf_StableKind it)
    (h : it.Ok cfg { proj := p }) (hs : lgrf_Same p p') : (lgrf_atR p' it).Ok cfg { proj := p' } :=
  lgrf_atR_stable cfg p p' it hk h hs

/-- the domain is stable, writes: a write request of any kind of `ldwx_Item` that satisfies its hypotheses on `p`
    satisfies them, re-based, on every project of the same shape; and a write call in the domain leads to a project of
    the same shape -/
theorem write_request_hypotheses_stable (cfg : Cfg) (C : Nat) (p p' : Project) (x : ldwx_Item) (its : List ldwx_Item)
    (h : ldwx_ItemOk cfg p x) (hs : lgrf_Same p p')
    (hnames : ∀ s' ∈ p.controller, ∀ ch ∈ s'.name, ch < 256) (hok : Refine.OpOk cfg C p (.write its)) :
    ldwx_ItemOk cfg p' (lgrf_atW p' x) ∧ lgrf_Same p (Refine.specWrite p its).1 :=
  ⟨lgrf_atW_stable cfg p p' x h hs, lgrf_same_step cfg C p (.write its) hnames hok⟩

/-- the domain of a whole history from hypotheses on the INITIAL memory only: when every call of the history
    satisfies `lgrf_OpOkBase` — the per-request hypotheses of `ldmx_Item.Ok` / `ldwx_ItemOk` on the initial project
    `p0`, for the requests as given (reads: any kind but the whole flat structure), and the size conditions — the
    history is in the domain `OpsOk` from `p0`: whatever is written in between, every later request still satisfies its
    hypotheses on the memory it meets. -/
theorem history_domain_from_initial_memory (cfg : Cfg) (C : Nat) (p0 : Project) (ops : List Refine.Op)
    (hnames : ∀ s' ∈ p0.controller, ∀ ch ∈ s'.name, ch < 256)
    (hbase : ∀ op ∈ ops, lgrf_OpOkBase cfg C p0 op) : Refine.OpsOk cfg C p0 ops :=
  lgrf_opsOk_of_base cfg C p0 hnames ops hbase p0 (lgrf_same_refl p0)

/-- C01 / C02, REFINEMENT over histories: for ANY list `ops` of `read` / `write` calls (no bound on its length) in the
    domain `OpsOk` — every call satisfies `OpOk` against the memory the specification has reached before it —, started
    in a world in the invariant with memory `p` (a healthy connected driver that is not a Micro800):
    * no call raises; the outcomes of the calls are, call by call, exactly the Tag lists the specification run
      computes from the abstract memory (`(specRun p ops).2`);
    * the final world is in the invariant again, and the controller's project is exactly the specification's final
      memory `(specRun p ops).1`;
    * the final world is the world of the lifecycle run `lrun` (LifecycleLogix) over the same calls.
    By induction over `ops` with `read_step_refines` / `write_step_refines`. -/
theorem logix_history_refines_memory (cfg : Cfg) (sess : Nat) (cidb : Bytes) (C : Nat) (w : Cli.World Ext) (p : Project)
    (ops : List Refine.Op) (hmicro : cfg.micro800 = false)
    (hinv : Refine.RefInv sess cidb C w p) (hok : Refine.OpsOk cfg C p ops) :
    ∃ w', Refine.driverRun cfg w ops = (w', (Refine.specRun p ops).2.map .ok) ∧
      Refine.RefInv sess cidb C w' (Refine.specRun p ops).1 ∧
      Cli.lrun hookAll w (ops.map (·.toLCall cfg)) = w' := by
  obtain ⟨w', h1, h2⟩ := lgrf_run_refines cfg sess cidb C hmicro ops w p hinv hok
  refine ⟨w', h1, h2, ?_⟩
  rw [lgrf_lrun, h1]

/-- C02, in the property's words — "a following read returns it", over a history: a `write` call `a ++ x :: b` that
    contains the request `x` (a scalar tag, an array element or a member path: `lgrf_valW x = some (t, v)`, value `v` of
    codec type `t`) whose location is `L = (inst, off)` (`x.target`), no LATER request `b` of the same call writing to L's
    bytes (earlier ones may: the later write wins); then ANY calls `mid` none of which writes to L's bytes
    (`lgrf_Avoids`: every accepted write addresses another symbol or a byte range that does not meet
    `[off, off + length)`; reads are free); then a `read` call that contains a request `r` of L
    (`lgrf_locR r = some (inst, off, t)`: scalar / element / member path with the same instance id, byte offset and
    codec type): the last call returns, at every position of `r`, an error-free Tag named as requested whose value is
    exactly `v`. (For pairwise disjoint requests `hlater` holds for every request: `lgrf_later_of_disjoint`.) -/
theorem read_after_write_history (cfg : Cfg) (sess : Nat) (cidb : Bytes) (C : Nat) (w : Cli.World Ext) (p : Project)
    (a b : List ldwx_Item) (mid : List Refine.Op) (itsR : List ldmx_Item) (x : ldwx_Item) (r : ldmx_Item)
    (t : Ty) (v : PyVal) (inst off : Nat) (bytes : Bytes) (hmicro : cfg.micro800 = false)
    (hinv : Refine.RefInv sess cidb C w p)
    (hok : Refine.OpsOk cfg C p (.write (a ++ x :: b) :: (mid ++ [.read itsR])))
    (hxv : lgrf_valW x = some (t, v)) (hxt : x.target = some (inst, off, bytes))
    (hlater : ∀ w' ∈ ldwx_targets b, ldwx_Disj (inst, off, bytes) w')
    (hmid : ∀ op ∈ mid, lgrf_Avoids (inst, off, bytes) op)
    (hr : lgrf_locR r = some (inst, off, t)) :
    ∃ (w' : Cli.World Ext) (outs : List (Except Exn (List LTag))) (tags : List LTag),
      Refine.driverRun cfg w (.write (a ++ x :: b) :: (mid ++ [.read itsR])) = (w', outs ++ [.ok tags]) ∧
      tags.length = itsR.length ∧
      ∀ j : Nat, itsR[j]? = some r → ∃ tg : LTag, tags[j]? = some tg ∧ tg.tag = r.out.tag ∧ tg.value = v ∧ tg.error = none := by
  obtain ⟨w', hrun, _, _⟩ := logix_history_refines_memory cfg sess cidb C w p _ hmicro hinv hok
  have hnames := hinv.names
  have hokW : lgrf_OpOk cfg C p (.write (a ++ x :: b)) := hok.1
  have hrest : lgrf_OpsOk cfg C (lgrf_specStep p (.write (a ++ x :: b))).1 (mid ++ [.read itsR]) := hok.2
  obtain ⟨hokMid, _⟩ := (lgrf_opsOk_append cfg C mid [.read itsR] _).1 hrest
  -- the written bytes are in memory after the write call …
  have hsame1 := lgrf_same_step cfg C p (.write (a ++ x :: b)) hnames hokW
  have hnames1 := lgrf_same_names _ _ hsame1 hnames
  have hh1 := lgrf_holds_write_last cfg C p a b x (inst, off, bytes) hnames hokW hxt hlater
  -- … and still after the calls in between
  have hh2 := lgrf_holds_run cfg C (inst, off, bytes) mid _ hnames1 hokMid hmid hh1
  -- the value
  obtain ⟨inst', off', bytes', sz, htg, hcanon, henc, hfw, _, _⟩ := lgrf_valW_target cfg p (lgrf_atW p x) t v
    (by rw [lgrf_atW_valW]; exact hxv) (hokW.1 x (by simp))
  rw [lgrf_atW_target, hxt] at htg
  cases htg
  have hval := lgrf_atR_value (lgrf_specRun (lgrf_specStep p (.write (a ++ x :: b))).1 mid).1 r inst off bytes t v sz hr hh2
    hcanon henc hfw
  -- the outcomes
  have hspec : (lgrf_specRun p (.write (a ++ x :: b) :: (mid ++ [.read itsR]))).2 =
      ((lgrf_specStep p (.write (a ++ x :: b))).2 :: (lgrf_specRun (lgrf_specStep p (.write (a ++ x :: b))).1 mid).2) ++
        [lgrf_specRead (lgrf_specRun (lgrf_specStep p (.write (a ++ x :: b))).1 mid).1 itsR] := by
    show (lgrf_specStep p (.write (a ++ x :: b))).2 ::
      (lgrf_specRun (lgrf_specStep p (.write (a ++ x :: b))).1 (mid ++ [.read itsR])).2 = _
    rw [lgrf_specRun_append]
    rfl
  refine ⟨w', ((lgrf_specStep p (.write (a ++ x :: b))).2 ::
      (lgrf_specRun (lgrf_specStep p (.write (a ++ x :: b))).1 mid).2).map Except.ok,
    lgrf_specRead (lgrf_specRun (lgrf_specStep p (.write (a ++ x :: b))).1 mid).1 itsR, ?_, ?_, ?_⟩
  · rw [hrun]
    show (w', (lgrf_specRun p (.write (a ++ x :: b) :: (mid ++ [.read itsR]))).2.map Except.ok) = _
    rw [hspec, List.map_append]
    rfl
  · unfold lgrf_specRead; rw [List.length_map]
  · intro j hj
    refine ⟨(lgrf_atR (lgrf_specRun (lgrf_specStep p (.write (a ++ x :: b))).1 mid).1 r).out, ?_, lgrf_atR_tag _ r, hval, ?_⟩
    · unfold lgrf_specRead; rw [List.getElem?_map, hj]; rfl
    · rw [lgrf_atR_error]; exact lgrf_locR_error r _ hr

/-- C02 for every kind of request (slices, strings, whole structures too), at the level of bytes: after a `write` call
    `a ++ x :: b` in which no later request meets the bytes of the accepted request `x` (`x.target = some wr`,
    `wr = (inst, off, bytes)`), and any later calls that do not write to those bytes, the controller's memory holds
    exactly `bytes` at `[off, off + length)` of the symbol with instance id `inst` (`lgrf_Holds`). -/
theorem written_bytes_persist (cfg : Cfg) (sess : Nat) (cidb : Bytes) (C : Nat) (w : Cli.World Ext) (p : Project)
    (a b : List ldwx_Item) (x : ldwx_Item) (later : List Refine.Op) (wr : ldwx_Wr) (hmicro : cfg.micro800 = false)
    (hinv : Refine.RefInv sess cidb C w p) (hok : Refine.OpsOk cfg C p (.write (a ++ x :: b) :: later))
    (hx : x.target = some wr) (hb : ∀ w' ∈ ldwx_targets b, ldwx_Disj wr w') (hlater : ∀ op ∈ later, lgrf_Avoids wr op) :
    ∃ w' st', (Refine.driverRun cfg w (.write (a ++ x :: b) :: later)).1 = w' ∧ w'.net.target.ext.logix = some st' ∧
      lgrf_Holds st'.proj wr := by
  obtain ⟨w', hrun, hinv', _⟩ := logix_history_refines_memory cfg sess cidb C w p _ hmicro hinv hok
  have hnames := hinv.names
  have hsame1 := lgrf_same_step cfg C p (.write (a ++ x :: b)) hnames hok.1
  have hh1 := lgrf_holds_write_last cfg C p a b x wr hnames hok.1 hx hb
  have hh2 := lgrf_holds_run cfg C wr later _ (lgrf_same_names _ _ hsame1 hnames) hok.2 hlater hh1
  obtain ⟨st', hst', hp'⟩ := hinv'.logix
  refine ⟨w', st', by rw [hrun], hst', ?_⟩
  rw [hp']
  exact hh2

/-- C01 / C02: reads do not change the memory. After any history in the domain the controller's project is the
    initial project with the accepted writes of the history (`lgrf_writesOf`: the `ldwx_targets` of the write calls, in
    order) applied — the read calls contribute nothing: the history without its reads leads to the same memory —; in
    particular a history of reads only leaves the project exactly as it was. -/
theorem reads_do_not_change_memory (cfg : Cfg) (sess : Nat) (cidb : Bytes) (C : Nat) (w : Cli.World Ext) (p : Project)
    (ops : List Refine.Op) (hmicro : cfg.micro800 = false)
    (hinv : Refine.RefInv sess cidb C w p) (hok : Refine.OpsOk cfg C p ops) :
    ∃ st', (Refine.driverRun cfg w ops).1.net.target.ext.logix = some st' ∧
      st'.proj = ldwx_applyAll p (lgrf_writesOf ops) ∧
      ((∀ op ∈ ops, op.writes = []) → st'.proj = p) := by
  obtain ⟨w', hrun, hinv', _⟩ := logix_history_refines_memory cfg sess cidb C w p ops hmicro hinv hok
  obtain ⟨st', hst', hp'⟩ := hinv'.logix
  have hproj : st'.proj = ldwx_applyAll p (lgrf_writesOf ops) := by rw [hp']; exact lgrf_specRun_proj ops p
  refine ⟨st', by rw [hrun]; exact hst', hproj, ?_⟩
  intro hro
  have : lgrf_writesOf ops = [] := by
    unfold lgrf_writesOf
    rw [List.flatMap_eq_nil_iff]
    exact hro
  rw [hproj, this]
  rfl

/-- C02, exactly once: the controller's write log after any history in the domain is the initial log followed by
    exactly one entry `(instance id, byte offset, length)` per ACCEPTED write request of the history, in call order and,
    inside a call, request order: every accepted write was applied exactly once, a refused request and a read leave no
    entry. -/
theorem write_log_is_the_history (cfg : Cfg) (sess : Nat) (cidb : Bytes) (C : Nat) (w : Cli.World Ext) (p : Project)
    (ops : List Refine.Op) (hmicro : cfg.micro800 = false)
    (hinv : Refine.RefInv sess cidb C w p) (hok : Refine.OpsOk cfg C p ops) :
    ∃ st', (Refine.driverRun cfg w ops).1.net.target.ext.logix = some st' ∧
      st'.proj.writeLog = p.writeLog ++ (lgrf_writesOf ops).map fun wr => (wr.1, wr.2.1, wr.2.2.length) := by
  obtain ⟨w', hrun, hinv', _⟩ := logix_history_refines_memory cfg sess cidb C w p ops hmicro hinv hok
  obtain ⟨st', hst', hp'⟩ := hinv'.logix
  exact ⟨st', by rw [hrun]; exact hst', by rw [hp']; exact lgrf_specRun_log ops p⟩

/-! ### non-vacuity: the project of `ExMix` (LogixDriverWriteMix) — `abc : DINT`, `arr : DINT[4]`, `p1 : Pt`, `s1 : STR8`,
    `o1 : Outer` (nested) —, the world obtained by RUNNING the model (`open()`, Forward Open, 4000-byte connection), and
    a history of SEVEN calls alternating mixed reads and writes, the last two with a single request -/

namespace ExRef
open Ex ExMix

/-- `abc`, `abc.3` -/
def rAbc : ldrn_Scalar := ⟨ExWN.symA, ExWN.xA.info, 0xC4, 4, Drv.nm "DINT", .int .dint, .int 42, []⟩
def rAbc3 : ldmx_Bit := ⟨ExWN.symA, ExWN.xA.info, 0xC4, 4, Drv.nm "DINT", .dint, 3⟩
/-- `arr[2]`, `arr[1]{2}`, `arr[0]{3}`, `arr[9]` -/
def rArr2 : ldmx_El := ⟨ExWN.symArr, ExWN.infoArrN, 0xC4, 4, 4, 2, Drv.nm "DINT", .int .dint, .int (-1), ExWN.symArr.mem.drop 12⟩
def rArr12 : ldmx_Slice :=
  ⟨ExWN.symArr, ExWN.infoArrN, 0xC4, 4, 4, false, 1, 2, Drv.nm "DINT", .int .dint, [.int 2, .int (-1)]⟩
def rArr03 : ldmx_Slice :=
  ⟨ExWN.symArr, ExWN.infoArrN, 0xC4, 4, 4, false, 0, 3, Drv.nm "DINT", .int .dint, [.int 1, .int 2, .int (-1)]⟩
def rOob9 : ldrn_Elem := ⟨ExWN.symArr, ExWN.infoArrN, 0xC4, 4, 4, 9, Drv.nm "DINT", .int .dint⟩
/-- `o1.inn.y` (1.0 initially), `o1.arr[1].x` (103 initially) -/
def rInnY : ldmx_Member :=
  { s := Ex4.symO1, tid0 := 0x211, tm0 := Ex4.tOuter, idx0 := [], li := 0, hops := [hopInn, hopY], info := Ex4.infoO1,
    leaf := Ex4.minfoY, c := 0xCA, sz := 4, name := Drv.nm "REAL", t := .real, v := .float 4607182418800017408,
    rest := Ex4.symO1.mem.drop 12 }
def rArrX : ldmx_Member :=
  { s := Ex4.symO1, tid0 := 0x211, tm0 := Ex4.tOuter, idx0 := [], li := 0, hops := [hopArr1, hopX], info := Ex4.infoO1,
    leaf := Ex4.minfoX, c := 0xC3, sz := 2, name := Drv.nm "INT", t := .int .int, v := .int 103,
    rest := Ex4.symO1.mem.drop 22 }
/-- `s1` -/
def rS1 : ldmx_Str := ⟨Ex3.symS1, 0x202, Ex3.tmplStr, Ex3.infoS1, Ex3.siStr, 8⟩
/-- `("abc", 6)` -/
def xA6 : ldwn_Scalar := { ExWN.xA with v := .int 6, bytes := [6, 0, 0, 0] }

def read1 : List ldmx_Item := [.scalar rAbc, .elem rArr2, .member rInnY, .string rS1]
def read2 : List ldmx_Item := [.scalar rAbc, .elem rArr2, .member rInnY, .string rS1, .slice rArr12, .bit rAbc3]
def read3 : List ldmx_Item := [.slice rArr03, .member rArrX, .scalar rAbc, .oob rOob9]

/-- read 4 tags; write `abc`, `arr[2]`, `o1.inn.y`, `s1`; read them back with a slice and a bit; write `arr[0]{2}`, the
    refused `arr[9]`, the whole `p1`, `o1.arr[1].x`; read a slice, a member, `abc` and the refused `arr[9]`; then ONE
    request per call: write `abc := 6`, read `abc` -/
def hist : List Refine.Op :=
  [.read read1, .write four, .read read2, .write mixed, .read read3, .write [.scalar xA6], .read [.scalar rAbc]]

/-- the outcomes as Tag lists (`none` for an exception) -/
def oks (rs : List (Except Exn (List LTag))) : List (Option (List LTag)) :=
  rs.map fun r => match r with | .ok ts => some ts | .error _ => none
def sameOuts : List (Option (List LTag)) → List (List LTag) → Bool
  | [], [] => true
  | some a :: as, b :: bs => ExM.tagsEq a b && sameOuts as bs
  | _, _ => false
def memOf (w : Cli.World Ext) : Option (List Bytes × List (Nat × Nat × Nat)) :=
  w.net.target.ext.logix.map fun st' => (st'.proj.controller.map (·.mem), st'.proj.writeLog)

-- evaluation checks (interpreter): the driver model against the specification, call by call
#guard sameOuts (oks (Refine.driverRun cfgM (worldM 4000) hist).2) (Refine.specRun projM hist).2
#guard memOf (Refine.driverRun cfgM (worldM 4000) hist).1 ==
  some ((Refine.specRun projM hist).1.controller.map (·.mem), (Refine.specRun projM hist).1.writeLog)
-- … the same on a 60-byte connection (several packets per call)
#guard sameOuts (oks (Refine.driverRun cfgM (worldM 60) hist).2) (Refine.specRun projM hist).2
#guard memOf (Refine.driverRun cfgM (worldM 60) hist).1 ==
  some ((Refine.specRun projM hist).1.controller.map (·.mem), (Refine.specRun projM hist).1.writeLog)
-- the specification's Tags of the seven calls, values only
#guard (Refine.specRun projM hist).2.map (fun ts => ts.map fun t => (t.tag, t.error.isNone)) ==
  [[(Drv.nm "abc", true), (Drv.nm "arr[2]", true), (Drv.nm "o1.inn.y", true), (Drv.nm "s1", true)],
   [(Drv.nm "abc", true), (Drv.nm "arr[2]", true), (Drv.nm "o1.inn.y", true), (Drv.nm "s1", true)],
   [(Drv.nm "abc", true), (Drv.nm "arr[2]", true), (Drv.nm "o1.inn.y", true), (Drv.nm "s1", true), (Drv.nm "arr[1]", true),
    (Drv.nm "abc.3", true)],
   [(Drv.nm "arr[0]", true), (Drv.nm "arr[9]", false), (Drv.nm "p1", true), (Drv.nm "o1.arr[1].x", true)],
   [(Drv.nm "arr[0]", true), (Drv.nm "o1.arr[1].x", true), (Drv.nm "abc", true), (Drv.nm "arr[9]", false)],
   [(Drv.nm "abc", true)], [(Drv.nm "abc", true)]]
#guard ExM.tagsEq ((Refine.specRun projM hist).2.getD 0 [])
  [{ tag := Drv.nm "abc", value := .int 42, type := some (Drv.nm "DINT"), error := none },
   { tag := Drv.nm "arr[2]", value := .int (-1), type := some (Drv.nm "DINT"), error := none },
   { tag := Drv.nm "o1.inn.y", value := .float 4607182418800017408, type := some (Drv.nm "REAL"), error := none },
   { tag := Drv.nm "s1", value := .str [65, 66, 233], type := some (Drv.nm "STR8"), error := none }]
#guard ExM.tagsEq ((Refine.specRun projM hist).2.getD 2 [])
  [{ tag := Drv.nm "abc", value := .int 5, type := some (Drv.nm "DINT"), error := none },
   { tag := Drv.nm "arr[2]", value := .int 77, type := some (Drv.nm "DINT"), error := none },
   { tag := Drv.nm "o1.inn.y", value := .float 4612811918334230528, type := some (Drv.nm "REAL"), error := none },
   { tag := Drv.nm "s1", value := .str [72, 105], type := some (Drv.nm "STR8"), error := none },
   { tag := Drv.nm "arr[1]", value := .list [.int 2, .int 77], type := some (Drv.nm "DINT[2]"), error := none },
   { tag := Drv.nm "abc.3", value := .bool false, type := some (Drv.nm "BOOL"), error := none }]
#guard ExM.tagsEq ((Refine.specRun projM hist).2.getD 4 [])
  [{ tag := Drv.nm "arr[0]", value := .list [.int 11, .int 12, .int 77], type := some (Drv.nm "DINT[3]"), error := none },
   { tag := Drv.nm "o1.arr[1].x", value := .int 7, type := some (Drv.nm "INT"), error := none },
   { tag := Drv.nm "abc", value := .int 5, type := some (Drv.nm "DINT"), error := none },
   { tag := Drv.nm "arr[9]", value := .none, type := none, error := ExM.oobErr }]
#guard ExM.tagsEq ((Refine.specRun projM hist).2.getD 6 [])
  [{ tag := Drv.nm "abc", value := .int 6, type := some (Drv.nm "DINT"), error := none }]
-- the final memory and the write log: the accepted writes of the history, in order
#guard (Refine.specRun projM hist).1.controller.map (·.mem) ==
  [[6, 0, 0, 0], [11, 0, 0, 0, 12, 0, 0, 0, 77, 0, 0, 0, 4, 0, 0, 0], [9, 0, 0, 0, 3, 0, 0, 0],
   [2, 0, 0, 0, 72, 105, 0, 0, 0, 0, 0, 0],
   [100, 0, 0, 0, 101, 0, 0, 0, 0, 0, 32, 64, 102, 0, 0, 0, 0, 0, 0, 64, 7, 0, 0, 0, 0, 0, 64, 64]]
#guard (Refine.specRun projM hist).1.writeLog ==
  [(7, 0, 4), (9, 8, 4), (30, 8, 4), (22, 0, 12), (9, 0, 8), (21, 0, 8), (30, 20, 2), (7, 0, 4)]
#guard lgrf_writesOf hist == ldwx_targets four ++ ldwx_targets mixed ++ [(7, 0, [6, 0, 0, 0])]

private theorem healthyR : ldr_Healthy (worldM 4000) 4097 [238, 255, 192, 0] (connM 4000) :=
  ⟨by decide +kernel, by decide +kernel, by decide +kernel, by decide +kernel, by decide +kernel, by decide,
   by decide +kernel, by decide +kernel, by decide, by decide +kernel, by decide +kernel, by decide +kernel⟩

private theorem mem_ctlR (s' : Symbol) (h : s' ∈ projM.controller) :
    s' = ExWN.symA ∨ s' = ExWN.symArr ∨ s' = Ex3.symP1 ∨ s' = Ex3.symS1 ∨ s' = Ex4.symO1 := by
  simpa [projM] using h

private theorem bytesR (s' : Symbol) (h : s' ∈ projM.controller) : ∀ ch ∈ s'.name, ch < 256 := by
  rcases mem_ctlR s' h with rfl | rfl | rfl | rfl | rfl <;> decide

private theorem uniqNR (s : Symbol) (hs : s ∈ projM.controller) (s' : Symbol) (h : s' ∈ projM.controller)
    (e : s'.name = s.name) : s' = s := by
  rcases mem_ctlR s hs with rfl | rfl | rfl | rfl | rfl <;>
    rcases mem_ctlR s' h with rfl | rfl | rfl | rfl | rfl <;> first | rfl | (exfalso; revert e; decide)

private theorem uniqIR (s : Symbol) (hs : s ∈ projM.controller) (s' : Symbol) (h : s' ∈ projM.controller)
    (e : s'.inst = s.inst) : s' = s := by
  rcases mem_ctlR s hs with rfl | rfl | rfl | rfl | rfl <;>
    rcases mem_ctlR s' h with rfl | rfl | rfl | rfl | rfl <;> first | rfl | (exfalso; revert e; decide)

private theorem hsA : ExWN.symA ∈ projM.controller := by simp [projM]
private theorem hsArr : ExWN.symArr ∈ projM.controller := by simp [projM]
private theorem hsP1 : Ex3.symP1 ∈ projM.controller := by simp [projM]
private theorem hsS1 : Ex3.symS1 ∈ projM.controller := by simp [projM]
private theorem hsO1 : Ex4.symO1 ∈ projM.controller := by simp [projM]

private theorem mem_outer (m' : MemberDef) (h : m' ∈ Ex4.tOuter.members) : m' = Ex4.mA ∨ m' = Ex4.mInn ∨ m' = Ex4.mArr := by
  simpa [Ex4.tOuter, Ex4.mA, Ex4.mInn, Ex4.mArr] using h
private theorem mem_inner (m' : MemberDef) (h : m' ∈ Ex4.tInner.members) : m' = Ex4.mX ∨ m' = Ex4.mY := by
  simpa [Ex4.tInner, Ex4.mX, Ex4.mY] using h
private theorem outer_bytes (m' : MemberDef) (h : m' ∈ Ex4.tOuter.members) : ∀ ch ∈ m'.name, ch < 256 := by
  rcases mem_outer m' h with rfl | rfl | rfl <;> decide
private theorem inner_bytes (m' : MemberDef) (h : m' ∈ Ex4.tInner.members) : ∀ ch ∈ m'.name, ch < 256 := by
  rcases mem_inner m' h with rfl | rfl <;> decide
private theorem outer_uniq (m : MemberDef) (hm : m ∈ Ex4.tOuter.members) (m' : MemberDef) (h : m' ∈ Ex4.tOuter.members)
    (e : m'.name = m.name) : m' = m := by
  rcases mem_outer m hm with rfl | rfl | rfl <;> rcases mem_outer m' h with rfl | rfl | rfl <;>
    first | rfl | (exfalso; revert e; decide)
private theorem inner_uniq (m : MemberDef) (hm : m ∈ Ex4.tInner.members) (m' : MemberDef) (h : m' ∈ Ex4.tInner.members)
    (e : m'.name = m.name) : m' = m := by
  rcases mem_inner m hm with rfl | rfl <;> rcases mem_inner m' h with rfl | rfl <;>
    first | rfl | (exfalso; revert e; decide)

private theorem hokInn : ldr4_HopOk projM 0x211 hopInn :=
  ⟨by rfl, by simp [hopInn, Ex4.tOuter, Ex4.mInn], outer_bytes, outer_uniq Ex4.mInn (by simp [Ex4.tOuter, Ex4.mInn]), by decide,
   by rfl, Or.inl rfl⟩
private theorem hokY : ldr4_HopOk projM 0x210 hopY :=
  ⟨by rfl, by simp [hopY, Ex4.tInner, Ex4.mY], inner_bytes, inner_uniq Ex4.mY (by simp [Ex4.tInner, Ex4.mY]), by decide, by rfl,
   Or.inl rfl⟩
private theorem hokArr1 : ldr4_HopOk projM 0x211 hopArr1 :=
  ⟨by rfl, by simp [hopArr1, Ex4.tOuter, Ex4.mArr], outer_bytes, outer_uniq Ex4.mArr (by simp [Ex4.tOuter, Ex4.mArr]), by decide,
   by rfl, Or.inr ⟨1, rfl, by decide⟩⟩
private theorem hokX : ldr4_HopOk projM 0x210 hopX :=
  ⟨by rfl, by simp [hopX, Ex4.tInner, Ex4.mX], inner_bytes, inner_uniq Ex4.mX (by simp [Ex4.tInner, Ex4.mX]), by decide, by rfl,
   Or.inl rfl⟩

private theorem chainInnY : ldr4_Chain projM (.struct 0x211) [hopInn, hopY] (.atomic 0xCA) :=
  ⟨0x211, rfl, hokInn, 0x210, by decide, hokY, (by show ElTy.atomic 0xCA = elTyOfWord 0xCA; decide)⟩
private theorem chainArrX : ldr4_Chain projM (.struct 0x211) [hopArr1, hopX] (.atomic 0xC3) :=
  ⟨0x211, rfl, hokArr1, 0x210, by decide, hokX, (by show ElTy.atomic 0xC3 = elTyOfWord 0xC3; decide)⟩

private theorem lvInnY : ∀ h ∈ [hopInn, hopY], ldr2_Level h.level := by
  intro h hh
  simp only [List.mem_cons, List.not_mem_nil, or_false] at hh
  rcases hh with rfl | rfl <;> exact ⟨⟨by decide, by decide, by decide⟩, by decide, by decide⟩
private theorem lvArrX : ∀ h ∈ [hopArr1, hopX], ldr2_Level h.level := by
  intro h hh
  simp only [List.mem_cons, List.not_mem_nil, or_false] at hh
  rcases hh with rfl | rfl <;> exact ⟨⟨by decide, by decide, by decide⟩, by decide, by decide⟩
private theorem numInnY : ∀ h, [hopInn, hopY].getLast? = some h → PyStr.isDigit h.m.name = false := by
  intro h hh
  simp only [List.getLast?_cons_cons, List.getLast?_singleton, Option.some.injEq] at hh
  subst hh; decide
private theorem numArrX : ∀ h, [hopArr1, hopX].getLast? = some h → PyStr.isDigit h.m.name = false := by
  intro h hh
  simp only [List.getLast?_cons_cons, List.getLast?_singleton, Option.some.injEq] at hh
  subst hh; decide

private theorem getO1 : cfgM.tags.get? (Drv.nm "o1") = some Ex4.infoO1 := by rfl
private theorem leafY : ldr4_LeafOf Ex4.minfoY (Drv.nm "REAL") .real := ⟨rfl, rfl, Or.inl rfl, rfl, rfl⟩
private theorem leafX : ldr4_LeafOf Ex4.minfoX (Drv.nm "INT") (.int .int) := ⟨rfl, rfl, Or.inl rfl, rfl, rfl⟩
private theorem canon25 : Canon .real (.float 4612811918334230528) :=
  ⟨4612811918334230528, 0x40200000, rfl, by decide, by rfl, by rfl⟩

/-! the per-request hypotheses, all on the INITIAL project -/

private theorem wA : ldwx_ItemOk cfgM projM iA :=
  show ldwn_ScalarOk cfgM projM ExWN.xA from
  ⟨hsA, uniqNR _ hsA, uniqIR _ hsA, ⟨by decide, by decide, by decide⟩, by decide, by decide, rfl, rfl, rfl, rfl,
   by rfl, ⟨rfl, rfl, rfl, rfl, rfl⟩, ⟨5, rfl, by decide, by decide⟩, by rfl⟩
private theorem wA6 : ldwx_ItemOk cfgM projM (.scalar xA6) :=
  show ldwn_ScalarOk cfgM projM xA6 from
  ⟨hsA, uniqNR _ hsA, uniqIR _ hsA, ⟨by decide, by decide, by decide⟩, by decide, by decide, rfl, rfl, rfl, rfl,
   by rfl, ⟨rfl, rfl, rfl, rfl, rfl⟩, ⟨6, rfl, by decide, by decide⟩, by rfl⟩
private theorem wArr2 : ldwx_ItemOk cfgM projM (.elem eArr2) :=
  show ldwx_ElemOk cfgM projM eArr2 from
  ⟨hsArr, uniqNR _ hsArr, uniqIR _ hsArr, ⟨by decide, by decide, by decide⟩, by decide, by decide, rfl, rfl, rfl,
   by decide, by decide, by rfl, ⟨rfl, rfl, rfl, rfl, rfl⟩, ⟨77, rfl, by decide, by decide⟩, by rfl, by decide, by decide⟩
private theorem wInnY : ldwx_ItemOk cfgM projM (.member mInnY) :=
  show ldwx_MemberOk cfgM projM mInnY from
  ⟨hsO1, uniqNR _ hsO1, uniqIR _ hsO1, ⟨⟨by decide, by decide, by decide⟩, by decide, by decide⟩, by decide, by rfl,
   Or.inl ⟨rfl, rfl⟩, by simp [mInnY], chainInnY, lvInnY, numInnY, by decide, rfl, rfl, rfl, by decide, getO1, rfl,
   ⟨Ex4.minfoInn, by rfl, rfl, by rfl⟩, leafY, canon25, by rfl⟩
private theorem wHi : ldwx_ItemOk cfgM projM (.str sHi) :=
  show ldwx_StrOk cfgM projM sHi from
  ⟨hsS1, uniqNR _ hsS1, uniqIR _ hsS1, ⟨by decide, by decide, by decide⟩, by decide, by decide, by rfl, by decide, by decide,
   by decide, by decide, by rfl, ⟨rfl, rfl, rfl, rfl, rfl⟩, by decide, rfl, by decide⟩
private theorem wSl : ldwx_ItemOk cfgM projM (.slice slArr) :=
  show ldwx_SliceOk cfgM projM slArr from
  ⟨hsArr, uniqNR _ hsArr, uniqIR _ hsArr, ⟨by decide, by decide, by decide⟩, by decide, by decide, rfl, rfl, rfl,
   by decide, by decide, by rfl, ⟨rfl, rfl, rfl, rfl, rfl⟩, by decide, by decide, rfl,
   (by
     intro v hv
     simp only [slArr, List.mem_cons, List.not_mem_nil, or_false] at hv
     rcases hv with rfl | rfl
     · exact ⟨11, rfl, by decide, by decide⟩
     · exact ⟨12, rfl, by decide, by decide⟩),
   by rfl, by decide, by decide⟩
private theorem wOob9 : ldwx_ItemOk cfgM projM (.oob (ExWN.oob 9)) :=
  show ldwn_OobOk cfgM projM (ExWN.oob 9) from
  ⟨hsArr, uniqNR _ hsArr, uniqIR _ hsArr, ⟨by decide, by decide, by decide⟩, by decide, by decide, rfl, rfl,
   rfl, by decide, by decide, by rfl, ⟨rfl, rfl, rfl, rfl, rfl⟩, ⟨1, rfl, by decide, by decide⟩, by rfl, by decide, by decide⟩
private theorem wP1 : ldwx_ItemOk cfgM projM (.struct suP1) :=
  show ldwx_StructOk cfgM projM suP1 from
  ⟨hsP1, uniqNR _ hsP1, uniqIR _ hsP1, ⟨by decide, by decide, by decide⟩, by decide, by decide, by rfl, by decide, by decide,
   by rfl, ⟨rfl, rfl, rfl, rfl, rfl⟩, by decide, rfl, by rfl, by decide⟩
private theorem wArrX : ldwx_ItemOk cfgM projM (.member mArrX) :=
  show ldwx_MemberOk cfgM projM mArrX from
  ⟨hsO1, uniqNR _ hsO1, uniqIR _ hsO1, ⟨⟨by decide, by decide, by decide⟩, by decide, by decide⟩, by decide, by rfl,
   Or.inl ⟨rfl, rfl⟩, by simp [mArrX], chainArrX, lvArrX, numArrX, by decide, rfl, rfl, rfl, by decide, getO1, rfl,
   ⟨Ex4.minfoArr, by rfl, rfl, by rfl⟩, leafX, ⟨7, rfl, by decide, by decide⟩, by rfl⟩

private theorem okAbc : ldrn_ScalarOk cfgM stateM rAbc :=
  ⟨hsA, uniqNR _ hsA, uniqIR _ hsA, ⟨by decide, by decide, by decide⟩, by decide, by decide, rfl, rfl, rfl, rfl,
   by rfl, ⟨rfl, rfl, rfl, rfl, rfl⟩, by rfl⟩
private theorem okAbc3 : ldmx_BitOk cfgM stateM rAbc3 :=
  { mem := hsA, uniqN := uniqNR _ hsA, uniqI := uniqIR _ hsA, ident := ⟨by decide, by decide, by decide⟩,
    inst32 := by decide, ty := by decide, atomic := rfl, size := rfl, memLen := rfl, get := by rfl,
    infoOf := ⟨rfl, rfl, rfl, rfl, rfl⟩, bit := by decide }
private theorem okArr2 : ldmx_ElOk cfgM stateM rArr2 :=
  { mem := hsArr, uniqN := uniqNR _ hsArr, uniqI := uniqIR _ hsArr, ident := ⟨by decide, by decide, by decide⟩,
    inst32 := by decide, ty := by decide, atomic := rfl, notBits := rfl, size := rfl, dims := by decide, memLen := by decide,
    get := by rfl, infoOf := ⟨rfl, rfl, rfl, rfl, rfl⟩, inside := by decide, i32 := by decide, dec := by rfl }
private theorem decArr (i : Nat) (vs : List PyVal) (hvs : vs.length ≤ 4)
    (h : ∀ k, k < 4 → k < vs.length →
      ∃ rest, decode (.int .dint) (ExWN.symArr.mem.drop ((i + k) * 4)) = .ok (vs.getD k .none, rest)) :
    ∀ k (hk : k < vs.length), ∃ rest, decode (.int .dint) (ExWN.symArr.mem.drop ((i + k) * 4)) = .ok (vs[k], rest) := by
  intro k hk
  obtain ⟨r, hr⟩ := h k (by omega) hk
  refine ⟨r, ?_⟩
  rw [hr]
  simp [List.getD_eq_getElem?_getD, hk]
private theorem okArr12 : ldmx_SliceOk cfgM stateM rArr12 :=
  { mem := hsArr, uniqN := uniqNR _ hsArr, uniqI := uniqIR _ hsArr, ident := ⟨by decide, by decide, by decide⟩,
    inst32 := by decide, ty := by decide, atomic := rfl, notBits := rfl, size := rfl, dims := by decide, memLen := by decide,
    get := by rfl, infoOf := ⟨rfl, rfl, rfl, rfl, rfl⟩, start0 := (by intro h; cases h), i32 := by decide, n1 := by decide,
    n16 := by decide, inside := by decide, vsLen := rfl,
    dec := decArr 1 _ (by decide) (by
      intro k _ hk
      have : k = 0 ∨ k = 1 := by
        have : k < 2 := hk
        omega
      rcases this with rfl | rfl <;> exact ⟨_, by rfl⟩) }
private theorem okArr03 : ldmx_SliceOk cfgM stateM rArr03 :=
  { mem := hsArr, uniqN := uniqNR _ hsArr, uniqI := uniqIR _ hsArr, ident := ⟨by decide, by decide, by decide⟩,
    inst32 := by decide, ty := by decide, atomic := rfl, notBits := rfl, size := rfl, dims := by decide, memLen := by decide,
    get := by rfl, infoOf := ⟨rfl, rfl, rfl, rfl, rfl⟩, start0 := (by intro h; cases h), i32 := by decide, n1 := by decide,
    n16 := by decide, inside := by decide, vsLen := rfl,
    dec := decArr 0 _ (by decide) (by
      intro k _ hk
      have : k = 0 ∨ k = 1 ∨ k = 2 := by
        have : k < 3 := hk
        omega
      rcases this with rfl | rfl | rfl <;> exact ⟨_, by rfl⟩) }
private theorem okOob9 : ldrn_ElemOob cfgM stateM rOob9 :=
  ⟨hsArr, uniqNR _ hsArr, uniqIR _ hsArr, ⟨by decide, by decide, by decide⟩, by decide, by decide, rfl, rfl, rfl,
   by decide, by decide, by rfl, ⟨rfl, rfl, rfl, rfl, rfl⟩, by decide, by decide⟩
private theorem okInnY : ldmx_MemberOk cfgM stateM rInnY :=
  { mem := hsO1, uniqN := uniqNR _ hsO1, uniqI := uniqIR _ hsO1,
    level0 := ⟨⟨by decide, by decide, by decide⟩, by decide, by decide⟩, ty := by decide, tmpl := by rfl,
    idxOk := Or.inl ⟨rfl, rfl⟩, ne := by simp [rInnY], chain := chainInnY, levels := lvInnY, notNum := numInnY,
    pathSize := by decide, atomic := rfl, notBits := rfl, size := rfl, inside := by decide, get := getO1, kind := by rfl,
    infoPath := ⟨Ex4.minfoInn, by rfl, rfl, by rfl⟩, leafOf := leafY, dec := by rfl }
private theorem okArrX : ldmx_MemberOk cfgM stateM rArrX :=
  { mem := hsO1, uniqN := uniqNR _ hsO1, uniqI := uniqIR _ hsO1,
    level0 := ⟨⟨by decide, by decide, by decide⟩, by decide, by decide⟩, ty := by decide, tmpl := by rfl,
    idxOk := Or.inl ⟨rfl, rfl⟩, ne := by simp [rArrX], chain := chainArrX, levels := lvArrX, notNum := numArrX,
    pathSize := by decide, atomic := rfl, notBits := rfl, size := rfl, inside := by decide, get := getO1, kind := by rfl,
    infoPath := ⟨Ex4.minfoArr, by rfl, rfl, by rfl⟩, leafOf := leafX, dec := by rfl }
private theorem okS1 : ldmx_StrOk cfgM stateM rS1 :=
  { mem := hsS1, uniqN := uniqNR _ hsS1, uniqI := uniqIR _ hsS1, ident := ⟨by decide, by decide, by decide⟩,
    inst32 := by decide, ty := by decide, tmpl := by rfl, memLen := by decide, tmSize := by decide, cap1 := by decide,
    get := by rfl, structOf := ⟨rfl, rfl, rfl, rfl, rfl⟩, notDword := by decide, sizeLe := by decide }

private theorem okR (it : ldmx_Item) (h : it ∈ read2 ++ read3) : lgrf_StableKind it ∧ it.Ok cfgM { proj := projM } := by
  simp only [read2, read3, List.cons_append, List.nil_append, List.mem_cons, List.not_mem_nil, or_false] at h
  rcases h with rfl | rfl | rfl | rfl | rfl | rfl | rfl | rfl | rfl | rfl
  · exact ⟨trivial, okAbc⟩
  · exact ⟨trivial, okArr2⟩
  · exact ⟨trivial, okInnY⟩
  · exact ⟨trivial, okS1⟩
  · exact ⟨trivial, okArr12⟩
  · exact ⟨trivial, okAbc3⟩
  · exact ⟨trivial, okArr03⟩
  · exact ⟨trivial, okArrX⟩
  · exact ⟨trivial, okAbc⟩
  · exact ⟨trivial, okOob9⟩

private theorem fitR (it : ldmx_Item) (h : it ∈ read2 ++ read3) : it.estimate cfgM + K.OVERHEAD ≤ 4000 := by
  simp only [read2, read3, List.cons_append, List.nil_append, List.mem_cons, List.not_mem_nil, or_false] at h
  rcases h with rfl | rfl | rfl | rfl | rfl | rfl | rfl | rfl | rfl | rfl <;> decide +kernel

private theorem okW (x : ldwx_Item) (h : x ∈ four ++ mixed) : ldwx_ItemOk cfgM projM x := by
  simp only [four, mixed, List.cons_append, List.nil_append, List.mem_cons, List.not_mem_nil, or_false] at h
  rcases h with rfl | rfl | rfl | rfl | rfl | rfl | rfl | rfl
  · exact wA
  · exact wArr2
  · exact wInnY
  · exact wHi
  · exact wSl
  · exact wOob9
  · exact wP1
  · exact wArrX

private theorem fitW (x : ldwx_Item) (h : x ∈ four ++ mixed) : x.acct cfgM + K.OVERHEAD ≤ 4000 := by
  simp only [four, mixed, List.cons_append, List.nil_append, List.mem_cons, List.not_mem_nil, or_false] at h
  rcases h with rfl | rfl | rfl | rfl | rfl | rfl | rfl | rfl <;> decide +kernel

private theorem read1_sub (it : ldmx_Item) (h : it ∈ read1) : it ∈ read2 ++ read3 := by
  simp only [read1, List.mem_cons, List.not_mem_nil, or_false] at h
  simp only [read2, read3, List.cons_append, List.nil_append, List.mem_cons, List.not_mem_nil, or_false]
  rcases h with rfl | rfl | rfl | rfl <;> simp

/-- every call of the history satisfies its hypotheses on the INITIAL project -/
private theorem baseHist : ∀ op ∈ hist, lgrf_OpOkBase cfgM 4000 projM op := by
  intro op hop
  simp only [hist, List.mem_cons, List.not_mem_nil, or_false] at hop
  rcases hop with rfl | rfl | rfl | rfl | rfl | rfl | rfl
  · exact ⟨fun it h => okR it (read1_sub it h), Or.inl ⟨by decide, fun it h => fitR it (read1_sub it h)⟩⟩
  · exact ⟨fun x h => okW x (List.mem_append_left _ h), Or.inl ⟨by decide, fun x h => fitW x (List.mem_append_left _ h)⟩⟩
  · exact ⟨fun it h => okR it (List.mem_append_left _ h), Or.inl ⟨by decide, fun it h => fitR it (List.mem_append_left _ h)⟩⟩
  · exact ⟨fun x h => okW x (List.mem_append_right _ h), Or.inl ⟨by decide, fun x h => fitW x (List.mem_append_right _ h)⟩⟩
  · exact ⟨fun it h => okR it (List.mem_append_right _ h), Or.inl ⟨by decide, fun it h => fitR it (List.mem_append_right _ h)⟩⟩
  · refine ⟨?_, Or.inr ⟨_, rfl, show xA6.s.name.length + 2 * xA6.sz + 20 ≤ 4000 from by decide⟩⟩
    intro x h
    simp only [List.mem_cons, List.not_mem_nil, or_false] at h
    subst h
    exact wA6
  · refine ⟨?_, Or.inr ⟨_, rfl, show rAbc.s.name.length + 28 ≤ 4000 from by decide⟩⟩
    intro it h
    simp only [List.mem_cons, List.not_mem_nil, or_false] at h
    subst h
    exact ⟨trivial, okAbc⟩

/-- the world obtained by running the model is in the invariant -/
private theorem invR : Refine.RefInv 4097 [238, 255, 192, 0] 4000 (worldM 4000) projM :=
  ⟨⟨connM 4000, healthyR, by decide⟩, ⟨stateM, by rfl, rfl⟩, by decide +kernel, by decide, bytesR⟩

/-- … of `history_domain_from_initial_memory`: the history of seven calls is in the domain -/
private theorem okHist : Refine.OpsOk cfgM 4000 projM hist :=
  history_domain_from_initial_memory cfgM 4000 projM hist bytesR baseHist

/-- every hypothesis of `logix_history_refines_memory` holds for the concrete world and the history of seven calls:
    the driver's outcomes are the specification's Tags, the final world is in the invariant with the specification's
    final memory -/
example : ∃ w', Refine.driverRun cfgM (worldM 4000) hist = (w', (Refine.specRun projM hist).2.map .ok) ∧
    Refine.RefInv 4097 [238, 255, 192, 0] 4000 w' (Refine.specRun projM hist).1 ∧
    Cli.lrun hookAll (worldM 4000) (hist.map (·.toLCall cfgM)) = w' :=
  logix_history_refines_memory cfgM 4097 [238, 255, 192, 0] 4000 (worldM 4000) projM hist rfl invR okHist

/-- … of `read_step_refines` and `write_step_refines` (the first two calls) -/
example : ∃ w', read hookAll cfgM (worldM 4000) (read1.map (·.request)) = (w', .ok (Refine.specRead projM read1)) ∧
    Refine.RefInv 4097 [238, 255, 192, 0] 4000 w' projM :=
  let ⟨w', h1, h2, _⟩ := read_step_refines cfgM 4097 [238, 255, 192, 0] 4000 (worldM 4000) projM read1 rfl invR okHist.1
  ⟨w', h1, h2⟩
example : ∃ w', write hookAll cfgM (worldM 4000) (four.map (·.request cfgM)) = (w', .ok (Refine.specWrite projM four).2) ∧
    Refine.RefInv 4097 [238, 255, 192, 0] 4000 w' (Refine.specWrite projM four).1 :=
  let ⟨w', h1, h2, _⟩ := write_step_refines cfgM 4097 [238, 255, 192, 0] 4000 (worldM 4000) projM four rfl invR okHist.2.1
  ⟨w', h1, h2⟩

/-- … of `spec_read_is_reference_interpretation`: on the initial memory the specification's Tags of the third call are
    the `out` Tags of its requests -/
example : Refine.specRead projM read2 = read2.map (·.out) :=
  (spec_read_is_reference_interpretation cfgM projM read2 (fun it h => (okR it (List.mem_append_left _ h)).2)).1

/-- … of `read_request_hypotheses_stable` / `write_request_hypotheses_stable`: `o1.inn.y` read / written on the memory
    after the first write call -/
example : (lgrf_atR (Refine.specWrite projM four).1 (.member rInnY)).Ok cfgM { proj := (Refine.specWrite projM four).1 } ∧
    ldwx_ItemOk cfgM (Refine.specWrite projM four).1 (lgrf_atW (Refine.specWrite projM four).1 (.member mInnY)) := by
  have hs := (write_request_hypotheses_stable cfgM 4000 projM projM (.member mInnY) four wInnY (lgrf_same_refl _) bytesR
    okHist.2.1).2
  exact ⟨read_request_hypotheses_stable cfgM projM _ (.member rInnY) trivial okInnY hs,
    (write_request_hypotheses_stable cfgM 4000 projM _ (.member mInnY) four wInnY hs bytesR okHist.2.1).1⟩

/-- the history for `read_after_write_history`: write `abc`, `arr[2] := 77`, `o1.inn.y`, `s1`; then a read, the write of
    `arr[0]{2}` (bytes 0–7 of `arr`: next to, not on, the bytes 8–11 of `arr[2]`), `p1`, `o1.arr[1].x` and the refused
    `arr[9]`, another read, the single write `abc := 6`; then read `abc`, `arr[2]`, … -/
def mid : List Refine.Op := [.read read2, .write mixed, .read read3, .write [.scalar xA6]]

private theorem okRaw : Refine.OpsOk cfgM 4000 projM (.write four :: (mid ++ [.read read2])) := by
  apply history_domain_from_initial_memory cfgM 4000 projM _ bytesR
  intro op hop
  simp only [mid, List.cons_append, List.nil_append, List.mem_cons, List.not_mem_nil, or_false] at hop
  rcases hop with rfl | rfl | rfl | rfl | rfl | rfl
  · exact baseHist _ (by simp [hist])
  · exact baseHist _ (by simp [hist])
  · exact baseHist _ (by simp [hist])
  · exact baseHist _ (by simp [hist])
  · exact baseHist _ (by simp [hist])
  · exact baseHist _ (by simp [hist])

private theorem disjFour : ldwx_Disjoint four := ldwx_disjoint_of_nodup four (by decide)

private theorem avoidMid : ∀ op ∈ mid, lgrf_Avoids (9, 8, [77, 0, 0, 0]) op := by
  intro op hop
  simp only [mid, List.mem_cons, List.not_mem_nil, or_false] at hop
  rcases hop with rfl | rfl | rfl | rfl
  · intro w' hw'; cases hw'
  · intro w' hw'
    have e : (lgrf_Op.write mixed).writes = [(9, 0, [11, 0, 0, 0, 12, 0, 0, 0]), (21, 0, [9, 0, 0, 0, 3, 0, 0, 0]), (30, 20, [7, 0])] := by
      rfl
    rw [e] at hw'
    simp only [List.mem_cons, List.not_mem_nil, or_false] at hw'
    rcases hw' with rfl | rfl | rfl
    · exact Or.inr (Or.inr (by decide))
    · exact Or.inl (by decide)
    · exact Or.inl (by decide)
  · intro w' hw'; cases hw'
  · intro w' hw'
    have e : (lgrf_Op.write [.scalar xA6]).writes = [(7, 0, [6, 0, 0, 0])] := by rfl
    rw [e] at hw'
    simp only [List.mem_cons, List.not_mem_nil, or_false] at hw'
    subst hw'
    exact Or.inl (by decide)

/-- every hypothesis of `read_after_write_history` holds: `arr[2] := 77` is written in the first call; four calls later
    — two of them writes, one into the same array — `read("abc", "arr[2]", …)` returns 77 for `arr[2]` -/
example : ∃ (w' : Cli.World Ext) (outs : List (Except Exn (List LTag))) (tags : List LTag),
    Refine.driverRun cfgM (worldM 4000) (.write four :: (mid ++ [.read read2])) = (w', outs ++ [.ok tags]) ∧
    tags.length = 6 ∧ ∃ tg : LTag, tags[1]? = some tg ∧ tg.tag = (ldmx_Item.elem rArr2).out.tag ∧ tg.value = .int 77 ∧
      tg.error = none := by
  obtain ⟨w', outs, tags, h1, h2, h3⟩ := read_after_write_history cfgM 4097 [238, 255, 192, 0] 4000 (worldM 4000) projM [iA]
    [.member mInnY, .str sHi] mid read2 (.elem eArr2) (.elem rArr2) (.int .dint) (.int 77) 9 8 [77, 0, 0, 0] rfl invR okRaw
    rfl rfl (lgrf_later_of_disjoint [iA] _ (.elem eArr2) _ rfl disjFour) avoidMid rfl
  exact ⟨w', outs, tags, h1, h2, h3 1 rfl⟩
#guard (Refine.specRun projM (.write four :: (mid ++ [.read read2]))).2.getLast?.map (fun ts => ts.map (·.tag)) ==
  some [Drv.nm "abc", Drv.nm "arr[2]", Drv.nm "o1.inn.y", Drv.nm "s1", Drv.nm "arr[1]", Drv.nm "abc.3"]
#guard (ldmx_Item.elem rArr2).out.tag == Drv.nm "arr[2]"

/-- … of `written_bytes_persist`: the string bytes written by `("s1", "Hi")` in the first call are in `s1` after the
    whole rest of the history (which never writes `s1`) -/
example : ∃ w' st', (Refine.driverRun cfgM (worldM 4000) (.write four :: mid)).1 = w' ∧ w'.net.target.ext.logix = some st' ∧
    lgrf_Holds st'.proj (22, 0, [2, 0, 0, 0, 72, 105, 0, 0, 0, 0, 0, 0]) := by
  have hok : Refine.OpsOk cfgM 4000 projM (.write four :: mid) :=
    ((lgrf_opsOk_append cfgM 4000 (.write four :: mid) [.read read2] projM).1 okRaw).1
  refine written_bytes_persist cfgM 4097 [238, 255, 192, 0] 4000 (worldM 4000) projM [iA, .elem eArr2, .member mInnY] []
    (.str sHi) mid _ rfl invR hok rfl (by intro w' hw'; cases hw') ?_
  intro op hop
  simp only [mid, List.mem_cons, List.not_mem_nil, or_false] at hop
  rcases hop with rfl | rfl | rfl | rfl
  · intro w' hw'; cases hw'
  · intro w' hw'
    have e : (lgrf_Op.write mixed).writes = [(9, 0, [11, 0, 0, 0, 12, 0, 0, 0]), (21, 0, [9, 0, 0, 0, 3, 0, 0, 0]), (30, 20, [7, 0])] := by
      rfl
    rw [e] at hw'
    simp only [List.mem_cons, List.not_mem_nil, or_false] at hw'
    rcases hw' with rfl | rfl | rfl <;> exact Or.inl (by decide)
  · intro w' hw'; cases hw'
  · intro w' hw'
    have e : (lgrf_Op.write [.scalar xA6]).writes = [(7, 0, [6, 0, 0, 0])] := by rfl
    rw [e] at hw'
    simp only [List.mem_cons, List.not_mem_nil, or_false] at hw'
    subst hw'
    exact Or.inl (by decide)

/-- … of `reads_do_not_change_memory`: the memory after the seven calls is the initial memory with the nine accepted
    writes applied; after the first call alone (a read) it is the initial project -/
example : ∃ st', (Refine.driverRun cfgM (worldM 4000) hist).1.net.target.ext.logix = some st' ∧
    st'.proj = ldwx_applyAll projM (ldwx_targets four ++ ldwx_targets mixed ++ [(7, 0, [6, 0, 0, 0])]) :=
  let ⟨st', h1, h2, _⟩ := reads_do_not_change_memory cfgM 4097 [238, 255, 192, 0] 4000 (worldM 4000) projM hist rfl invR okHist
  ⟨st', h1, h2⟩
example : ∃ st', (Refine.driverRun cfgM (worldM 4000) [.read read1]).1.net.target.ext.logix = some st' ∧ st'.proj = projM :=
  let ⟨st', h1, _, h3⟩ := reads_do_not_change_memory cfgM 4097 [238, 255, 192, 0] 4000 (worldM 4000) projM [.read read1] rfl invR
    ⟨okHist.1, trivial⟩
  ⟨st', h1, h3 (by intro op hop; simp only [List.mem_cons, List.not_mem_nil, or_false] at hop; subst hop; rfl)⟩

/-- … of `write_log_is_the_history`: eight entries — the refused `arr[9]` and the reads leave none -/
example : ∃ st', (Refine.driverRun cfgM (worldM 4000) hist).1.net.target.ext.logix = some st' ∧
    st'.proj.writeLog = [(7, 0, 4), (9, 8, 4), (30, 8, 4), (22, 0, 12), (9, 0, 8), (21, 0, 8), (30, 20, 2), (7, 0, 4)] :=
  write_log_is_the_history cfgM 4097 [238, 255, 192, 0] 4000 (worldM 4000) projM hist rfl invR okHist

/-! #### the hypotheses: what the model does outside them -/

-- STATEMENT CHANGED: the domain `OpOk` / `OpsOk` asks for the per-request hypotheses (`ldmx_Item.Ok`, `ldwx_ItemOk`) of the
-- request RE-BASED on the current memory (`lgrf_atR p it`, `lgrf_atW p x`), and `specRead p its` is
-- `its.map fun it => (lgrf_atR p it).out`, NOT `its.map (·.out)` with `it.Ok cfg st` for the items as given: an item of
-- `ldmx_Item` / `ldwx_Item` carries the whole `Symbol` it addresses INCLUDING its memory (and, for reads, the decoded
-- value), and its `Ok` says that this very symbol is in the project — so `out` of a fixed item does not read the
-- memory, and after a write to the symbol the item as given no longer satisfies `Ok`: a history over fixed items with
-- `Ok` at every step could not read or write the same tag twice with a write in between. Counterexample: the read
-- request `abc` (carrying `abc = 42`) after the first write call of the history (`abc := 5`):
example : ¬ (ldmx_Item.scalar rAbc).Ok cfgM { proj := (Refine.specWrite projM four).1 } := by
  intro h
  have h' : ldrn_ScalarOk cfgM { proj := (Refine.specWrite projM four).1 } rAbc := h
  have hm : rAbc.s.mem ∈ (Refine.specWrite projM four).1.controller.map (·.mem) := List.mem_map_of_mem h'.mem
  revert hm
  decide +kernel
-- … while the re-based request satisfies it (by stability) and yields the value the memory holds
example : (lgrf_atR (Refine.specWrite projM four).1 (.scalar rAbc)).Ok cfgM { proj := (Refine.specWrite projM four).1 } :=
  read_request_hypotheses_stable cfgM projM _ (.scalar rAbc) trivial okAbc
    (write_request_hypotheses_stable cfgM 4000 projM projM iA four wA (lgrf_same_refl _) bytesR okHist.2.1).2
#guard ExM.tagEq (lgrf_atR (Refine.specWrite projM four).1 (.scalar rAbc)).out
  { tag := Drv.nm "abc", value := .int 5, type := some (Drv.nm "DINT"), error := none }
#guard ExM.tagEq (ldmx_Item.scalar rAbc).out
  { tag := Drv.nm "abc", value := .int 42, type := some (Drv.nm "DINT"), error := none }

-- `hlater` in `read_after_write_history` / `written_bytes_persist`: requests of ONE call are applied in request order, so
-- a LATER request of the same call that meets the bytes wins — `write(("arr[0]{2}", [11, 12]), ("arr[1]", 99))` then
-- `read("arr[0]{2}", "abc")` returns [11, 99]; driver and specification agree on it
#guard ExM.okEq ((Refine.driverRun cfgM (worldM 4000)
    [.write [.slice slArr, .elem { eArr2 with i := 1, v := .int 99, bytes := [99, 0, 0, 0] }],
     .read [.slice { rArr03 with n := 2 }, .scalar rAbc]]).2.getD 1 (.ok []))
  [{ tag := Drv.nm "arr[0]", value := .list [.int 11, .int 99], type := some (Drv.nm "DINT[2]"), error := none },
   { tag := Drv.nm "abc", value := .int 42, type := some (Drv.nm "DINT"), error := none }]
#guard sameOuts (oks (Refine.driverRun cfgM (worldM 4000)
    [.write [.slice slArr, .elem { eArr2 with i := 1, v := .int 99, bytes := [99, 0, 0, 0] }],
     .read [.slice { rArr03 with n := 2 }, .scalar rAbc]]).2)
  (Refine.specRun projM [.write [.slice slArr, .elem { eArr2 with i := 1, v := .int 99, bytes := [99, 0, 0, 0] }],
     .read [.slice { rArr03 with n := 2 }, .scalar rAbc]]).2

-- `lgrf_Avoids` in `read_after_write_history`: a later write to the SAME bytes wins, the read returns the later value
#guard ExM.okEq ((Refine.driverRun cfgM (worldM 4000)
    [.write four, .write [.elem { eArr2 with v := .int 78, bytes := [78, 0, 0, 0] }, .scalar xA6], .read read1]).2.getD 2 (.ok []))
  [{ tag := Drv.nm "abc", value := .int 6, type := some (Drv.nm "DINT"), error := none },
   { tag := Drv.nm "arr[2]", value := .int 78, type := some (Drv.nm "DINT"), error := none },
   { tag := Drv.nm "o1.inn.y", value := .float 4612811918334230528, type := some (Drv.nm "REAL"), error := none },
   { tag := Drv.nm "s1", value := .str [72, 105], type := some (Drv.nm "STR8"), error := none }]
-- a call with ONE request of a kind outside `lgrf_single1R` (a string tag) is outside the domain of the theorems, not of
-- the refinement: the model still agrees with the specification
#guard sameOuts (oks (Refine.driverRun cfgM (worldM 4000) [.write four, .read [.string rS1]]).2)
  (Refine.specRun projM [.write four, .read [.string rS1]]).2

end ExRef

end Pycomm.Lgx.Drv
