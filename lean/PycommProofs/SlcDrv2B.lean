/-
  SLCDriver.read / write at the driver level, second topic file, helper layer B (table level): write, then read, of
  long / float elements and of `{n}` elements - the table-level counterparts of `write_read_word_e2e` (SlcProofsExt).
-/
import PycommProofs.SlcDrv2A
namespace Pycomm.Slc.Drv
open Pycomm Pycomm.Tgt Pycomm.Slc

/-- `struct.pack('<f')` yields 32 bits -/
theorem sd2_narrow_lt (b r : Nat) (h : Flt.narrow b = some r) : r < 4294967296 := by
  unfold Flt.narrow at h
  extract_lets sign e m M eb p s q rr half q' bits at h
  have hs : sign ≤ 1 := by show b / 2 ^ 63 % 2 ≤ 1; omega
  have hm : m / 2 ^ 29 % 2 ^ 22 < 4194304 := by omega
  generalize bits = B at h
  generalize m / 2 ^ 29 % 2 ^ 22 = Y at h hm
  generalize sign = S at h hs
  split at h
  · split at h
    · injection h with h; omega
    · injection h with h; omega
  · split at h
    · injection h with h; omega
    · split at h
      · cases h
      · injection h with h
        omega

/-- the four bytes at an offset, as a slice -/
theorem sd2_take4_drop (d : Bytes) (off : Nat) (h : off + 4 ≤ d.length) :
    (d.drop off).take 4 = [d.getD off 0, d.getD (off + 1) 0, d.getD (off + 2) 0, d.getD (off + 3) 0] := by
  rw [slx_take_drop_cons d off 3 (by omega), slx_take_drop_cons d (off + 1) 2 (by omega),
    slx_take_drop_cons d (off + 2) 1 (by omega), slx_take_drop_cons d (off + 3) 0 (by omega)]
  simp

theorem sd2_dwordAt_slice (d : Bytes) (off : Nat) (h : off + 4 ≤ d.length) :
    dwordAt d off = leVal ((d.drop off).take 4) := by
  rw [sd2_take4_drop d off h]
  rfl

theorem sd2_leBytes4 (w : Nat) : ∃ b0 b1 b2 b3, leBytes 4 w = [b0, b1, b2, b3] := ⟨_, _, _, _, rfl⟩

/-- the shape shared by the element-wise frames below -/
def sd2_Frame (tbl tbl' : Table) (fnum off size : Nat) (P : SlcFile → Prop) : Prop :=
  ∀ (i : Nat) (g0 : SlcFile), tbl[i]? = some g0 → ∃ g, tbl'[i]? = some g ∧ g.num = g0.num ∧ g.ftype = g0.ftype ∧
    (g0.num ≠ fnum → g = g0) ∧
    (g0.num = fnum → g.data.length = g0.data.length ∧
      (∀ j, (j < off ∨ off + size ≤ j) → g.data[j]? = g0.data[j]?) ∧ P g)

/-- a full-mask write of `size` bytes requested for address `a` (sub-element = I/O position): the new table, what a
    read request of `size` bytes for the same address returns, the frame -/
theorem sd2_write_read_core (tbl : Table) (a : Addr) (f : SlcFile) (v : PyVal) (bs : Bytes) (sz : Nat)
    (hwv : writeableValue a v = .ok ([0xFF, 0xFF] ++ bs, sz)) (hds : dataSize a.fileType = sz)
    (hnw : ¬ ((a.fileType = [84] ∨ a.fileType = [67]) ∧ (a.subElement = 1 ∨ a.subElement = 2)))
    (hs : sz * a.count ≤ 255) (h0 : 0 < sz * a.count) (hev : (sz * a.count) % 2 = 0)
    (hbl : bs.length = sz * a.count) (hr : InRange a) (hp : a.posNumber < 65536) (hl : Located tbl a f)
    (hu : (tbl.filter (fun g => g.num == a.fileNumber)).length ≤ 1)
    (hin : byteOffset (typeCode a.fileType) a.element a.posNumber + sz * a.count ≤ f.data.length) :
    ∃ tbl' f', writeAddr tbl a v = .ok tbl' ∧ readAddr tbl' a = .ok bs ∧ Located tbl' a f' ∧
      (tbl'.filter (fun g => g.num == a.fileNumber)).length ≤ 1 ∧ f'.data.length = f.data.length ∧
      tbl'.length = tbl.length ∧
      sd2_Frame tbl tbl' a.fileNumber (byteOffset (typeCode a.fileType) a.element a.posNumber) (sz * a.count)
        (fun g => (g.data.drop (byteOffset (typeCode a.fileType) a.element a.posNumber)).take (sz * a.count) = bs) := by
  obtain ⟨tbl', f', hmw, hfind', hty', hlen', hslice, hrd, hu', hlenT, hfr⟩ :=
    sd2_full_write_core tbl f a.fileNumber (typeCode a.fileType) a.element a.posNumber (sz * a.count) bs hl.find hl.ftype
      hu h0 hev hbl hin
  refine ⟨tbl', f', ?_, ?_, ⟨hfind', hty'⟩, hu', hlen', hlenT, ?_⟩
  · rw [sd2_writeAddr_full tbl a v bs sz hwv hnw hs hr.file hr.elem hp, hmw]
  · rw [slx_readAddr_eq tbl' a (by rw [hds]; exact hs) hr.file hr.elem hp, hds, hrd]
  · intro i g0 hi
    obtain ⟨g, hg, hnum, hft, hne, hsame⟩ := hfr i g0 hi
    refine ⟨g, hg, hnum, hft, hne, ?_⟩
    intro hn
    obtain ⟨hgf, h1, h2⟩ := hsame hn
    exact ⟨h1, h2, by rw [hgf]; exact hslice⟩

/-- long write (`L9:e`) of a 32-bit integer: the request succeeds, a read of the same address returns the integer
    written, every other file is untouched, every other byte of the file is unchanged and the 4 bytes of the element
    hold the integer -/
theorem sd2_write_read_long (tbl : Table) (a : Addr) (f : SlcFile) (x : Int)
    (hx : -2147483648 ≤ x ∧ x ≤ 2147483647) (hft : a.fileType = [76]) (haf : a.addressField = 2) (hc : a.count = 1)
    (hr : InRange a) (hl : Located tbl a f) (hu : (tbl.filter (fun g => g.num == a.fileNumber)).length ≤ 1)
    (hin : 4 * a.element + 4 ≤ f.data.length) :
    ∃ tbl', writeAddr tbl a (.int x) = .ok tbl' ∧
      (∃ data, readAddr tbl' a = .ok data ∧ parseReadReply a data = .ok (.int x)) ∧
      tbl'.length = tbl.length ∧
      sd2_Frame tbl tbl' a.fileNumber (4 * a.element) 4 (fun g => int32 (dwordAt g.data (4 * a.element)) = x) := by
  have hty : elemTy a.fileType = some (.int .dint) := by rw [hft]; rfl
  have hsz : dataSize a.fileType = 4 := by rw [hft]; decide
  have heb : elemBytes (typeCode a.fileType) = 4 := by rw [hft]; decide
  have hpos : a.posNumber = 0 := hr.pos (by simp [hft]) (by simp [hft])
  have hoff : byteOffset (typeCode a.fileType) a.element a.posNumber = 4 * a.element := by
    simp only [byteOffset, heb, hpos]; omega
  obtain ⟨tbl', f', hwa, hra, _, _, _, hlenT, hfr⟩ := sd2_write_read_core tbl a f (.int x) (leBytes 4 (sd2_dword32 x)) 4
    (sd2_writeable_long a x hx hft haf hc) hsz (by simp [hft]) (by omega) (by omega)
    (by omega) (by rw [hc]; exact RT.leBytes_length 4 _) hr (by omega) hl hu (by rw [hoff, hc]; omega)
  have hv : leVal (leBytes 4 (sd2_dword32 x)) = sd2_dword32 x :=
    RT.leVal_leBytes 4 _ (by have := sd2_dword32_lt x; omega)
  refine ⟨tbl', hwa, ⟨_, hra, ?_⟩, hlenT, ?_⟩
  · obtain ⟨b0, b1, b2, b3, hb⟩ := sd2_leBytes4 (sd2_dword32 x)
    rw [hb, slx_reply_dint a hty hsz haf, ← hb, hv, sd2_int32_dword32 x hx]
  · simp only [hoff, hc, Nat.mul_one] at hfr
    intro i g0 hi
    obtain ⟨g, hg, hnum, hft', hne, hsame⟩ := hfr i g0 hi
    refine ⟨g, hg, hnum, hft', hne, ?_⟩
    intro hn
    obtain ⟨h1, h2, h3⟩ := hsame hn
    refine ⟨h1, h2, ?_⟩
    have hgl : 4 * a.element + 4 ≤ g.data.length := by
      have : g0 = f := slx_unique tbl a.fileNumber f g0 i hu hl.find hi hn
      rw [h1, this]; exact hin
    show int32 (dwordAt g.data (4 * a.element)) = x
    rw [sd2_dwordAt_slice g.data _ hgl, h3, hv, sd2_int32_dword32 x hx]

/-- float write (`F8:e`) of a float whose binary32 rounding is `b32`: the request succeeds, the 4 bytes of the element
    hold `b32`, a read of the same address returns the float `b32` widens to; every other file is untouched, every
    other byte of the file unchanged -/
theorem sd2_write_read_float (tbl : Table) (a : Addr) (f : SlcFile) (b b32 : Nat) (hnar : Flt.narrow b = some b32)
    (hft : a.fileType = [70]) (haf : a.addressField = 2) (hc : a.count = 1)
    (hr : InRange a) (hl : Located tbl a f) (hu : (tbl.filter (fun g => g.num == a.fileNumber)).length ≤ 1)
    (hin : 4 * a.element + 4 ≤ f.data.length) :
    ∃ tbl', writeAddr tbl a (.float b) = .ok tbl' ∧
      (∃ data, readAddr tbl' a = .ok data ∧ parseReadReply a data = .ok (.float (Flt.widen b32))) ∧
      tbl'.length = tbl.length ∧
      sd2_Frame tbl tbl' a.fileNumber (4 * a.element) 4 (fun g => dwordAt g.data (4 * a.element) = b32) := by
  have hty : elemTy a.fileType = some .real := by rw [hft]; rfl
  have hsz : dataSize a.fileType = 4 := by rw [hft]; decide
  have heb : elemBytes (typeCode a.fileType) = 4 := by rw [hft]; decide
  have hpos : a.posNumber = 0 := hr.pos (by simp [hft]) (by simp [hft])
  have hoff : byteOffset (typeCode a.fileType) a.element a.posNumber = 4 * a.element := by
    simp only [byteOffset, heb, hpos]; omega
  obtain ⟨tbl', f', hwa, hra, _, _, _, hlenT, hfr⟩ := sd2_write_read_core tbl a f (.float b) (leBytes 4 b32) 4
    (sd2_writeable_float a b b32 hnar hft haf hc) hsz (by simp [hft]) (by omega) (by omega)
    (by omega) (by rw [hc]; exact RT.leBytes_length 4 _) hr (by omega) hl hu (by rw [hoff, hc]; omega)
  have hv : leVal (leBytes 4 b32) = b32 := RT.leVal_leBytes 4 _ (by have := sd2_narrow_lt b b32 hnar; omega)
  refine ⟨tbl', hwa, ⟨_, hra, ?_⟩, hlenT, ?_⟩
  · obtain ⟨b0, b1, b2, b3, hb⟩ := sd2_leBytes4 b32
    rw [hb, slx_reply_real a hty hsz haf, ← hb, hv]
  · simp only [hoff, hc, Nat.mul_one] at hfr
    intro i g0 hi
    obtain ⟨g, hg, hnum, hft', hne, hsame⟩ := hfr i g0 hi
    refine ⟨g, hg, hnum, hft', hne, ?_⟩
    intro hn
    obtain ⟨h1, h2, h3⟩ := hsame hn
    refine ⟨h1, h2, ?_⟩
    have hgl : 4 * a.element + 4 ≤ g.data.length := by
      have : g0 = f := slx_unique tbl a.fileNumber f g0 i hu hl.find hi hn
      rw [h1, this]; exact hin
    show dwordAt g.data (4 * a.element) = b32
    rw [sd2_dwordAt_slice g.data _ hgl, h3, hv]

/-- `{n}` write (2 ≤ n ≤ 127) of a list / tuple of at least n 16-bit integers to a word file: the request succeeds, a
    `{n}` read of the same address returns the first n values, every other file is untouched, every byte of the file
    outside the n elements is unchanged and element e + k holds the k-th value -/
theorem sd2_write_read_count (tbl : Table) (a : Addr) (f : SlcFile) (v : PyVal) (xs : List Int)
    (hv : v = .list (xs.map PyVal.int) ∨ v = .tuple (xs.map PyVal.int))
    (hft : a.fileType ∈ wordFiles) (haf : a.addressField = 2) (hn : 2 ≤ a.count ∧ a.count ≤ 127)
    (hlen : a.count ≤ xs.length) (hx : ∀ x ∈ xs.take a.count, -32768 ≤ x ∧ x ≤ 32767)
    (hr : InRange a) (hp : a.posNumber < 65536) (hl : Located tbl a f)
    (hu : (tbl.filter (fun g => g.num == a.fileNumber)).length ≤ 1)
    (hin : 2 * a.element + 2 * a.posNumber + 2 * a.count ≤ f.data.length) :
    ∃ tbl', writeAddr tbl a v = .ok tbl' ∧
      (∃ data, readAddr tbl' a = .ok data ∧
        parseReadReply a data = .ok (.list ((xs.take a.count).map PyVal.int))) ∧
      tbl'.length = tbl.length ∧
      sd2_Frame tbl tbl' a.fileNumber (2 * a.element + 2 * a.posNumber) (2 * a.count)
        (fun g => ∀ k, k < a.count →
          int16 (wordAt g.data (2 * a.element + 2 * a.posNumber + 2 * k)) = xs.getD k 0) := by
  obtain ⟨hty, hsz, heb, h84, h67⟩ := slx_wordFiles hft
  have hoff : byteOffset (typeCode a.fileType) a.element a.posNumber = 2 * a.element + 2 * a.posNumber := by
    simp only [byteOffset, heb]; omega
  have htl : (xs.take a.count).length = a.count := by simp only [List.length_take]; omega
  have hbl : (sd2_wordBytes (xs.take a.count)).length = 2 * a.count := by rw [sd2_wordBytes_length, htl]
  obtain ⟨tbl', f', hwa, hra, _, _, _, hlenT, hfr⟩ := sd2_write_read_core tbl a f v (sd2_wordBytes (xs.take a.count)) 2
    (sd2_writeable_count a v xs hv hty hsz haf hn.1 hlen hx) hsz
    (fun h => by rcases h.1 with h' | h' <;> simp [h'] at h84 h67) (by omega) (by omega) (by omega) hbl hr hp hl hu
    (by rw [hoff]; omega)
  have hmap : (xs.take a.count).map (fun x => PyVal.int (int16 (word16 x))) = (xs.take a.count).map PyVal.int := by
    apply List.map_congr_left
    intro x hxm
    rw [slx_int16_word16 x (hx x hxm)]
  refine ⟨tbl', hwa, ⟨_, hra, ?_⟩, hlenT, ?_⟩
  · rw [slx_reply_words a hty hsz haf a.count _ hbl hn.1, sd2_words_wordBytes, List.map_map]
    exact congrArg _ (congrArg _ hmap)
  · rw [hoff] at hfr
    intro i g0 hi
    obtain ⟨g, hg, hnum, hft', hne, hsame⟩ := hfr i g0 hi
    refine ⟨g, hg, hnum, hft', hne, ?_⟩
    intro hnm
    obtain ⟨h1, h2, h3⟩ := hsame hnm
    refine ⟨h1, h2, ?_⟩
    have hgl : 2 * a.element + 2 * a.posNumber + 2 * a.count ≤ g.data.length := by
      have : g0 = f := slx_unique tbl a.fileNumber f g0 i hu hl.find hi hnm
      rw [h1, this]; exact hin
    have hw := slx_words_slice g.data a.count (2 * a.element + 2 * a.posNumber) hgl
    rw [h3, sd2_words_wordBytes] at hw
    intro k hk
    have hk1 := congrArg (fun l => l[k]?) hw
    simp only [List.getElem?_map, List.getElem?_take, hk, if_true, List.getElem?_range hk, Option.map_some] at hk1
    have hxk : xs[k]? = some (xs.getD k 0) := by
      rw [List.getD_eq_getElem?_getD, List.getElem?_eq_getElem (by omega)]
      rfl
    rw [hxk] at hk1
    simp only [Option.map_some, Option.some.injEq] at hk1
    rw [← hk1]
    apply slx_int16_word16
    apply hx
    rw [List.mem_take_iff_getElem]
    exact ⟨k, by omega, by rw [List.getD_eq_getElem?_getD, List.getElem?_eq_getElem (by omega)]; rfl⟩

end Pycomm.Slc.Drv
