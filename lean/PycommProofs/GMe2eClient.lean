/-
  C14 end to end, client side: the class/instance/attribute ids `generic_message` accepts and the request path they
  give; `genericMessage` unfolded for an arbitrary fuel (connected, direct UCMM, Unconnected Send); the route of an
  Unconnected Send.
-/
import PycommProofs.GMe2eReply
import PycommProofs.GMe2eTarget
namespace Pycomm.Cli
open Pycomm.Tgt Pycomm.Encap Pycomm.Path Pycomm.Reply Pycomm.EN Pycomm.EP

/-! ### ids and the request path -/

/-- a class / instance / attribute id as `generic_message` takes it, and the number it denotes:
    an int below 2^32, or a little-endian byte string of 1, 2 or 4 bytes -/
inductive gme_Id : LVal → Nat → Prop
  | int (v : Nat) (h : v < 2 ^ 32) : gme_Id (.int v) v
  | bytes (bs : Bytes) (h : bs.length = 1 ∨ bs.length = 2 ∨ bs.length = 4) : gme_Id (.bytes bs) (leVal bs)

/-- the attribute argument: absent (`b''` — the default — or 0) or an id -/
inductive gme_AttrId : LVal → Option Nat → Prop
  | absent : gme_AttrId (.bytes []) none
  | zero : gme_AttrId (.int 0) none
  | some (v : LVal) (n : Nat) (h : gme_Id v n) (ht : v.truthy = true) : gme_AttrId v (some n)

/-- the request path the target's message router must see -/
def gme_wantPath (cls inst : Nat) (attr : Option Nat) : List PSeg :=
  [PSeg.logical 0 cls, PSeg.logical 4 inst] ++ (match attr with | none => [] | some a => [PSeg.logical 16 a])

theorem gme_enc1_id (v : LVal) (n : Nat) (h : gme_Id v n) (ltype : Name) (ty : Nat)
    (hty : lookupName ltype Gen.logicalTypes = some ty) : Enc1 (Seg.logical v ltype) (PSeg.logical ty n) 6 := by
  cases h with
  | int _ hv => exact encLogical_int ltype ty hty _ hv
  | bytes bs hl =>
    obtain ⟨h4, h32⟩ := logicalTypes_wf ltype ty hty
    obtain ⟨hL, hf1, hf2, hf4⟩ := lookupFormat
    rcases hl with hl | hl | hl
    · obtain ⟨a, rfl⟩ : ∃ a, bs = [a] := by
        match bs, hl with
        | [a], _ => exact ⟨a, rfl⟩
      have e : leVal [a] = a.toNat := by simp [leVal]
      rw [e]
      exact encLogical_byte ltype ty hty a
    · obtain ⟨a, b, rfl⟩ : ∃ a b, bs = [a, b] := by
        match bs, hl with
        | [a, b], _ => exact ⟨a, b, rfl⟩
      refine ⟨[UInt8.ofNat (32 ||| ty ||| 1), 0, a, b], ?_, by simp, by simp, by simp, ?_⟩
      · simp [encSeg, encLogical, hty, hf2, hL]
      · intro rest fuel hf
        obtain ⟨k, rfl⟩ : ∃ k, fuel = k + 1 := ⟨fuel - 1, by simp at hf; omega⟩
        obtain ⟨h1, h2, h3⟩ := head_byte ty 1 h4 h32 (by omega)
        exact step_logical16 _ _ _ _ _ h1 h2 h3 (by simp [leVal]) _ _
    · obtain ⟨a, b, c, d, rfl⟩ : ∃ a b c d, bs = [a, b, c, d] := by
        match bs, hl with
        | [a, b, c, d], _ => exact ⟨a, b, c, d, rfl⟩
      refine ⟨[UInt8.ofNat (32 ||| ty ||| 2), 0, a, b, c, d], ?_, by simp, by simp, by simp, ?_⟩
      · simp [encSeg, encLogical, hty, hf4, hL]
      · intro rest fuel hf
        obtain ⟨k, rfl⟩ : ∃ k, fuel = k + 1 := ⟨fuel - 1, by simp at hf; omega⟩
        obtain ⟨h1, h2, h3⟩ := head_byte ty 2 h4 h32 (by omega)
        exact step_logical32 _ _ _ _ _ _ _ h1 h2 h3 (by simp [leVal]; omega) _ _

/-- the length-prefixed request path of an encodable segment list: bounded length, parses back exactly -/
theorem gme_request {segs ps n} (h : EncAll segs ps n) (hn : n ≤ 510) :
    ∃ bs, encEpath true segs true false = .ok bs ∧ bs.length ≤ n + 1 ∧ parseRequestPath bs = some (ps, []) := by
  obtain ⟨bs, hb, hp⟩ := h.request hn
  obtain ⟨path, e, ev, l, g, k⟩ := h
  refine ⟨bs, hb, ?_, hp⟩
  have u := usint_nat (path.length / 2) (by omega)
  have u : usint ((path.length : Int) / 2) = .ok [UInt8.ofNat (path.length / 2)] := by
    rw [← u]; congr 1
  simp [encEpath, e, u] at hb
  subst hb
  simp; omega

/-- class/instance(/attribute) ids give a request path of at most 19 bytes that the target's strict parser reads
    back as exactly those ids -/
theorem gme_requestPath (cls inst attr : LVal) (c i : Nat) (oa : Option Nat)
    (hc : gme_Id cls c) (hi : gme_Id inst i) (ha : gme_AttrId attr oa) :
    ∃ rp, requestPath cls inst attr = .ok rp ∧ rp.length ≤ 19 ∧ parseRequestPath rp = some (gme_wantPath c i oa, []) := by
  have hc0 : lookupName (nm "class_id") Gen.logicalTypes = some 0 := by decide
  have hi4 : lookupName (nm "instance_id") Gen.logicalTypes = some 4 := by decide
  have ha16 : lookupName (nm "attribute_id") Gen.logicalTypes = some 16 := by decide
  have e1 := gme_enc1_id cls c hc _ _ hc0
  have e2 := gme_enc1_id inst i hi _ _ hi4
  cases ha with
  | absent =>
    obtain ⟨bs, h1, h2, h3⟩ := gme_request (EncAll.cons e1 (EncAll.cons e2 EncAll.nil)) (by omega)
    exact ⟨bs, by simpa [requestPath, LVal.truthy] using h1, by omega, by simpa [gme_wantPath] using h3⟩
  | zero =>
    obtain ⟨bs, h1, h2, h3⟩ := gme_request (EncAll.cons e1 (EncAll.cons e2 EncAll.nil)) (by omega)
    exact ⟨bs, by simpa [requestPath, LVal.truthy] using h1, by omega, by simpa [gme_wantPath] using h3⟩
  | some v n h ht =>
    have e3 := gme_enc1_id attr n h _ _ ha16
    obtain ⟨bs, h1, h2, h3⟩ := gme_request (EncAll.cons e1 (EncAll.cons e2 (EncAll.cons e3 EncAll.nil))) (by omega)
    exact ⟨bs, by simpa [requestPath, ht] using h1, by omega, by simpa [gme_wantPath] using h3⟩

/-- the message-router request built from (service, class, instance, attribute, data) is parsed by the target into
    exactly that service code, path and data -/
theorem gme_request_delivered (svc : Nat) (cls inst attr : LVal) (c i : Nat) (oa : Option Nat) (data : Bytes)
    (hs : svc < 256) (hc : gme_Id cls c) (hi : gme_Id inst i) (ha : gme_AttrId attr oa) :
    ∃ rp, requestPath cls inst attr = .ok rp ∧ rp.length ≤ 19 ∧
      parseMR ([UInt8.ofNat svc] ++ rp ++ data) = some { service := svc, path := gme_wantPath c i oa, data := data } := by
  obtain ⟨rp, h1, hl, h2⟩ := gme_requestPath cls inst attr c i oa hc hi ha
  refine ⟨rp, h1, hl, ?_⟩
  have h3 := parseRequestPath_append rp data _ h2
  have hsv : (UInt8.ofNat svc).toNat = svc := by rw [EP.toNat_ofNat]; omega
  simp only [List.cons_append, List.nil_append, parseMR, h3, hsv]

/-! ### `genericMessage` for an arbitrary fuel -/

theorem gme_nextSeq_lt (d : Drv) : d.nextSeq.1 < 65536 := by
  rw [(lcs_nextSeq d).1]
  split <;> omega

/-- the `with_forward_open` decorator on a driver that is connected: nothing happens (any fuel) -/
theorem gme_ensureFO_connected {σ} (hook : ObjHook σ) (fuel : Nat) (w : World σ)
    (h : w.drv.targetIsConnected = true) : ensureForwardOpen hook (fuel + 1) w = (w, .ok ()) := by
  unfold ensureForwardOpen
  simp only [h, if_true]

/-- the tail of `generic_message`: the reply is parsed by the generic response class and wrapped into a Tag -/
def gme_finish {σ} (a : GenArgs) (tr : Transport) (x : World σ × Except Exn (Option Bytes)) : World σ × Except Exn Tag :=
  match x with
  | (w2, .error e) => (w2, .error e)
  | (w2, .ok reply) =>
      match errorCip reply tr (parseGeneric reply tr a.dataType).2.1 (parseGeneric reply tr a.dataType).2.2 with
      | .error e => (w2, .error e)
      | .ok err => (w2, .ok { name := a.name, value := (parseGeneric reply tr a.dataType).1, error := err })

theorem gme_finish_ok {σ} (a : GenArgs) (tr : Transport) (w2 : World σ) (raw : Bytes) (err : Option Err)
    (h : errorCip (some raw) tr (parseGeneric (some raw) tr a.dataType).2.1 (parseGeneric (some raw) tr a.dataType).2.2 = .ok err) :
    gme_finish a tr (w2, .ok (some raw)) =
      (w2, .ok { name := a.name, value := (parseGeneric (some raw) tr a.dataType).1, error := err }) := by
  unfold gme_finish
  dsimp only
  rw [h]

/-- `generic_message(connected=True)` on a connected driver: the decorator does nothing (any fuel), one sequence
    number is drawn, the request is sent as a connected message and the reply is parsed by the generic response class -/
theorem gme_gm_connected {σ} (hook : ObjHook σ) (fuel : Nat) (w : World σ) (a : GenArgs)
    (hc : a.connected = true) (hcon : w.drv.targetIsConnected = true) (path : Bytes)
    (hpath : requestPath a.cls a.inst a.attr = .ok path) :
    genericMessage hook (fuel + 2) w a =
      gme_finish a .connected (sendReq hook { w with drv := w.drv.nextSeq.2 }
          (.sendUnit w.drv.nextSeq.1 ([UInt8.ofNat a.service] ++ path ++ a.data)) false) := by
  rw [genericMessage]
  simp only [hc, if_true]
  rw [gme_ensureFO_connected hook fuel w hcon]
  dsimp only
  rw [hpath]
  dsimp only
  generalize sendReq hook _ _ false = r
  obtain ⟨w2, r⟩ := r
  cases r <;> rfl

/-- the route argument of an unconnected `generic_message`, encoded -/
def gme_route (d : Drv) (r : RoutePath) : R Bytes :=
  match r with
  | .useCfg => encEpath true d.cipPath true true
  | .off => .ok []
  | .bytes b => .ok b
  | .str s =>
      match parseCipRouteStr s false with
      | .ok segs => encEpath true segs true true
      | .error e => .error e
  | .segs s => if s.isEmpty then .ok [] else encEpath true s true true

/-- `generic_message(connected=False, unconnected_send=False)`: the request, followed by the route bytes, goes out as
    it is in a SendRRData (any fuel) -/
theorem gme_gm_direct {σ} (hook : ObjHook σ) (fuel : Nat) (w : World σ) (a : GenArgs)
    (hc : a.connected = false) (hu : a.unconnectedSend = false) (path rp : Bytes)
    (hpath : requestPath a.cls a.inst a.attr = .ok path) (hroute : gme_route w.drv a.route = .ok rp) :
    genericMessage hook (fuel + 1) w a =
      gme_finish a .unconnected (sendReq hook w (.sendRR ([UInt8.ofNat a.service] ++ path ++ a.data ++ rp)) false) := by
  generalize hg : genericMessage hook (fuel + 1) w a = g
  unfold genericMessage at hg
  simp only [hc, Bool.false_eq_true, if_false] at hg
  split at hg
  · next e h1 => rw [hpath] at h1; cases h1
  next reqPath h1 =>
  rw [hpath] at h1; cases h1
  split at hg
  · next e h2 => exact nomatch (h2.symm.trans hroute)
  next rp' h2 =>
  cases Except.ok.inj (h2.symm.trans hroute)
  split at hg
  · next e h3 => rw [hu] at h3; cases h3
  next m h3 =>
  rw [hu] at h3
  cases h3
  subst hg
  generalize sendReq _ _ _ false = r
  obtain ⟨w2, r⟩ := r
  cases r <;> rfl

/-- `generic_message(connected=False, unconnected_send=True)`: the request goes out wrapped in an Unconnected Send to
    the connection manager: embedded length, request, pad byte for an odd length, route (any fuel) -/
theorem gme_gm_ucs {σ} (hook : ObjHook σ) (fuel : Nat) (w : World σ) (a : GenArgs)
    (hc : a.connected = false) (hu : a.unconnectedSend = true) (path rp : Bytes)
    (hpath : requestPath a.cls a.inst a.attr = .ok path) (hroute : gme_route w.drv a.route = .ok rp)
    (hlen : ([UInt8.ofNat a.service] ++ path ++ a.data).length < 65536) :
    genericMessage hook (fuel + 1) w a =
      gme_finish a .unconnected
        (sendReq hook w (.sendRR (ucsWrap ([UInt8.ofNat a.service] ++ path ++ a.data) rp)) false) := by
  have hw : ([0x52] ++ [0x02, 0x20, 0x06, 0x24, 0x01] ++ [0x0a, 0x05] ++
      leBytes 2 ([UInt8.ofNat a.service] ++ path ++ a.data).length ++
      ([UInt8.ofNat a.service] ++ path ++ a.data) ++
      (if ([UInt8.ofNat a.service] ++ path ++ a.data).length % 2 == 1 then [0] else []) ++ rp : Bytes) =
      ucsWrap ([UInt8.ofNat a.service] ++ path ++ a.data) rp := by
    simp [ucsWrap]
  generalize hg : genericMessage hook (fuel + 1) w a = g
  unfold genericMessage at hg
  simp only [hc, Bool.false_eq_true, if_false] at hg
  split at hg
  · next e h1 => rw [hpath] at h1; cases h1
  next reqPath h1 =>
  rw [hpath] at h1; cases h1
  split at hg
  · next e h2 => exact nomatch (h2.symm.trans hroute)
  next rp' h2 =>
  cases Except.ok.inj (h2.symm.trans hroute)
  split at hg
  · next e h3 => rw [hu, ucs_path, lcs_u16_val _ hlen] at h3; cases h3
  next m h3 =>
  rw [hu, ucs_path, lcs_u16_val _ hlen] at h3
  simp only [if_true] at h3
  rw [hw] at h3
  cases h3
  subst hg
  generalize sendReq _ _ _ false = r
  obtain ⟨w2, r⟩ := r
  cases r <;> rfl

/-! ### the route of an Unconnected Send -/

/-- an encodable list of route segments: `EPATH.encode(segments, length=True, pad_length=True)` gives the size in
    words, the reserved byte, and a padded path that the target's strict parser reads back -/
theorem gme_route_enc {segs ps n} (h : EncAll segs ps n) (hn : n ≤ 510) :
    ∃ route, encSegs true segs = .ok route ∧
      encEpath true segs true true = .ok ([UInt8.ofNat (route.length / 2), 0] ++ route) ∧
      route.length % 2 = 0 ∧ route.length ≤ n ∧ parsePadded (route.length + 1) route = some ps := by
  obtain ⟨path, e, ev, l, g, k⟩ := h
  have u := usint_nat (path.length / 2) (by omega)
  have u : usint ((path.length : Int) / 2) = .ok [UInt8.ofNat (path.length / 2)] := by
    rw [← u]; congr 1
  refine ⟨path, e, ?_, ev, l, ?_⟩
  · simp [encEpath, e, u]
  · have kk := k [] (path.length + 1) (by simp)
    obtain ⟨j, hj⟩ : ∃ j, path.length + 1 - ps.length = j + 1 := ⟨path.length - ps.length, by omega⟩
    rw [List.append_nil, hj] at kk
    rw [kk]
    simp [parsePadded]

/-- backplane/port hops (port 1..14, one-byte link address): the route bytes are the port and link bytes of the hops -/
theorem gme_hops_enc (hops : List (Nat × Nat)) (hp : ∀ h ∈ hops, 1 ≤ h.1 ∧ h.1 ≤ 14 ∧ h.2 < 256) :
    EncAll (hops.map fun h => Seg.port (.int h.1) (.int h.2)) (hops.map fun h => PSeg.port h.1 [UInt8.ofNat h.2])
      (2 * hops.length) ∧
    encSegs true (hops.map fun h => Seg.port (.int h.1) (.int h.2)) =
      .ok (hops.flatMap fun h => [UInt8.ofNat h.1, UInt8.ofNat h.2]) := by
  induction hops with
  | nil => exact ⟨EncAll.nil, rfl⟩
  | cons h hops ih =>
    obtain ⟨hp1, hp2, hl⟩ := hp h (by simp)
    obtain ⟨ih1, ih2⟩ := ih (fun x hx => hp x (by simp [hx]))
    have e1 : Enc1 (Seg.port (.int h.1) (.int h.2)) (PSeg.port h.1 [UInt8.ofNat h.2]) 2 :=
      ⟨[UInt8.ofNat h.1, UInt8.ofNat h.2], by simpa [encSeg] using encPort_slot h.1 ⟨hp1, hp2⟩ h.2 hl, by simp,
        segok_port h.1 ⟨hp1, hp2⟩ (UInt8.ofNat h.2)⟩
    refine ⟨?_, ?_⟩
    · have := EncAll.cons e1 ih1
      simp only [List.map_cons, List.length_cons]
      exact this.mono (by omega)
    · have hs : encSeg true (Seg.port (.int h.1) (.int h.2)) = .ok [UInt8.ofNat h.1, UInt8.ofNat h.2] := by
        simpa [encSeg] using encPort_slot h.1 ⟨hp1, hp2⟩ h.2 hl
      simp only [List.map_cons, encSegs, hs, ih2, bind, Except.bind, List.flatMap_cons]

end Pycomm.Cli
