/-
  LogixDriver.read of whole (nested) structures:
    `ldr4_parseReadReply_nested`     `parse_read_reply` of a structure reply for a tag whose `type_class` is a nested
                                     `StructTag`: the value the definition dictates for the tag's memory (`ldr4_held`)
    `ldr4_resolve_structElem`        where the controller resolves `arr[i]` / `arr` for an array of structures
    `ldr4_parseReadReply_structArr`  `parse_read_reply` for `n` elements of an array of (nested) structures
    `ldr4_read_structArr`            `read("arr[i]{n}")` / `read("arr{n}")` / `read("arr[i]")`, the layers composed
-/
import PycommProofs.LDRead4C
import PycommProofs.LDRead4D
import PycommProofs.LDRead2Array
namespace Pycomm.Lgx.Drv
open Pycomm Pycomm.Tgt Pycomm.Path Pycomm.Reply Pycomm.Encap Pycomm.Lgx Pycomm.Lgx.E2E

/-- the names of the visible members of a well-laid-out structure are distinct -/
theorem ldr4_visible_nodup (ms : TMembers) (priv : List Name) (size : Nat) (hok : TagMembersOk size ms 0) :
    ((ms.visible priv).map (·.1)).Nodup :=
  (rtx_okm_nodup size ms 0 hok).sublist (List.Sublist.map _ List.filter_sublist)

/-- (e) `parse_read_reply` of a structure reply carrying the `size` bytes from byte `off` of a memory, for an entry whose
    `type_class` is a nested `StructTag` without packed BOOLs and whose visible attributes are the visible members:
    the dict the definition dictates for the memory from `off` on -/
theorem ldr4_parseReadReply_nested_at (p : Project) (tid : Nat) (info : TagInfo) (si : StructInfo) (d : Nat)
    (ms : TMembers) (priv : List Name) (size : Nat) (mem : Bytes) (off : Nat)
    (hty : info.core.ty = .structTag ms [] priv size) (hname : info.core.dataTypeName = si.name)
    (hsi : info.core.struct = some si) (hnd : si.name ≠ nm "DWORD")
    (hshape : ldr4_Nested (d + 1) (.structTag ms [] priv size)) (hin : off + size ≤ mem.length)
    (hattrs : si.attributes = (ms.visible priv).map (·.1)) :
    parseReadReply (typeBytes p (.struct tid) ++ (mem.drop off).take size) info 1 =
      .ok (ldr4_held (d + 1) (.structTag ms [] priv size) mem off, si.name) := by
  have hshape' := hshape
  simp only [ldr4_Nested] at hshape'
  rcases hshape' with he | ⟨_, _, he, _⟩ | ⟨ms', priv', size', he, hpos, hok, _⟩
  · rcases he with he | ⟨_, he⟩ | he | he <;> cases he
  · cases he
  · cases he
    have hw : fixedWidth (.structTag ms [] priv size) = some size := by simp [fixedWidth, hpos]
    have hdec := ldr4_decode_held (d + 1) _ size hshape hw mem off [] hin
    rw [List.append_nil] at hdec
    have hkeys := ldr4_membersAt_keys (ldr4_held d) priv mem off ms
    have hattr := ldr3_rekey_id (ldr4_membersAt (ldr4_held d) ms priv mem off)
      (by rw [hkeys]; exact ldr4_visible_nodup ms priv size hok)
    rw [hkeys, ← hattrs] at hattr
    exact ldr3_parseReadReply_struct p tid info si ms [] priv size _ [] _ _ hty hname hsi hnd
      (by simpa [ldr4_held] using hdec) hattr

/-- … for the whole memory of a tag -/
theorem ldr4_parseReadReply_nested (p : Project) (tid : Nat) (info : TagInfo) (si : StructInfo) (d : Nat)
    (ms : TMembers) (priv : List Name) (size : Nat) (mem : Bytes)
    (hty : info.core.ty = .structTag ms [] priv size) (hname : info.core.dataTypeName = si.name)
    (hsi : info.core.struct = some si) (hnd : si.name ≠ nm "DWORD")
    (hshape : ldr4_Nested (d + 1) (.structTag ms [] priv size)) (hlen : mem.length = size)
    (hattrs : si.attributes = (ms.visible priv).map (·.1)) :
    parseReadReply (typeBytes p (.struct tid) ++ mem) info 1 = .ok (ldr4_held (d + 1) (.structTag ms [] priv size) mem 0, si.name) := by
  have h := ldr4_parseReadReply_nested_at p tid info si d ms priv size mem 0 hty hname hsi hnd hshape (by omega) hattrs
  have hm : (mem.drop 0).take size = mem := by rw [List.drop_zero, ← hlen, List.take_length]
  rwa [hm] at h

/-! ### arrays of structures -/

/-- the location element `i` of a one-dimensional controller-scope array of structures resolves to -/
def ldr4_locElem (s : Symbol) (tid size i dim : Nat) : Loc :=
  { symInst := s.inst, scope := none, offset := i * size, ty := .struct tid, avail := dim - i }

/-- (d, addressing) both renderings of `arr[i]` (`idx = [i]`) and of `arr` (`idx = []`, element 0) resolve to that
    element of the symbol -/
theorem ldr4_resolve_structElem (p : Project) (s : Symbol) (tid : Nat) (tm : Template) (useIds : Bool)
    (idx : List Nat) (i dim : Nat) (hidx : idx = [i] ∨ (idx = [] ∧ i = 0))
    (hid : PlainIdent s.name) (hs : s ∈ p.controller)
    (hbytes : ∀ s' ∈ p.controller, ∀ ch ∈ s'.name, ch < 256)
    (huniqN : ∀ s' ∈ p.controller, s'.name = s.name → s' = s)
    (huniqI : ∀ s' ∈ p.controller, s'.inst = s.inst → s' = s)
    (hty : elTyOfWord s.symbolType = .struct tid) (htm : p.template? tid = some tm) (hmem : s.mem ≠ [])
    (hdims : s.dims.filter (· != 0) = [dim]) (hi : i < dim) :
    resolve p (ldr_segs s.name s.inst useIds ++ idx.map (PSeg.logical 8)) = .ok (ldr4_locElem s tid tm.size i dim) := by
  have hme : s.mem.isEmpty = false := by
    cases h : s.mem with
    | nil => exact absurd h hmem
    | cons _ _ => rfl
  have hel : p.elSize (.struct tid) = some tm.size := by simp [Project.elSize, htm]
  have hli : linearIndex s.dims [i] = some i := by
    unfold linearIndex
    simp only [hdims, List.length_singleton, ne_eq, not_true_eq_false, if_false, List.zip_cons_cons, List.zip_nil_right,
      List.any_cons, List.any_nil, Bool.or_false, decide_eq_true_eq, List.foldl_cons, List.foldl_nil, Nat.zero_mul,
      Nat.zero_add]
    rw [if_neg (by omega)]
  have hdp : dimsProduct s.dims = dim := by
    unfold dimsProduct; rw [hdims]; simp
  rcases hidx with rfl | ⟨rfl, rfl⟩
  · unfold ldr_segs
    split
    · unfold resolve
      simp only [List.map_cons, List.map_nil, List.cons_append, List.nil_append, Project.findSymbol,
        ldr_find_inst p s hs huniqI, Option.map_some, hme, Bool.false_eq_true, if_false, hty, hel, takeIndices,
        List.cons_ne_nil, hli, hdp, List.length_nil, Nat.zero_add, resolveMembers, ldr4_locElem]
    · unfold resolve
      simp only [List.map_cons, List.map_nil, List.cons_append, List.nil_append, ldr_not_programName s.name hid,
        Bool.false_eq_true, if_false, Project.findSymbol, ldr_find_name p s hs hbytes huniqN, Option.map_some, hme, hty,
        hel, takeIndices, List.cons_ne_nil, hli, hdp, List.length_nil, Nat.zero_add, resolveMembers, ldr4_locElem]
  · unfold ldr_segs
    split
    · unfold resolve
      simp only [List.map_nil, List.append_nil, Project.findSymbol, ldr_find_inst p s hs huniqI, Option.map_some, hme,
        Bool.false_eq_true, if_false, hty, hel, takeIndices, if_true, hdp, List.length_nil, Nat.zero_add, resolveMembers,
        ldr4_locElem, Nat.zero_mul, Nat.sub_zero]
    · unfold resolve
      simp only [List.map_nil, List.append_nil, ldr_not_programName s.name hid, Bool.false_eq_true, if_false,
        Project.findSymbol, ldr_find_name p s hs hbytes huniqN, Option.map_some, hme, hty, hel, takeIndices, if_true, hdp,
        List.length_nil, Nat.zero_add, resolveMembers, ldr4_locElem, Nat.zero_mul, Nat.sub_zero]

theorem ldr4_value_many (vs : List PyVal) (h : 2 ≤ vs.length) : ldr2_value vs = .list vs := by
  match vs, h with
  | _ :: _ :: _, _ => rfl

/-- the `n` structure values from byte `off` on -/
def ldr4_elems (d : Nat) (t : Ty) (size : Nat) (mem : Bytes) (off n : Nat) : List PyVal :=
  (List.range n).map fun k => ldr4_held d t mem (off + k * size)

/-- (e) `parse_read_reply` of a structure reply carrying `n ≥ 1` elements of an array of (nested) structures: the
    elements are decoded one after the other; one element is returned as it is (NOT re-keyed by the visible
    attributes: the dict has every non-hidden member), more as a list; the type string is `T` or `T[n]` -/
theorem ldr4_parseReadReply_structArr (p : Project) (tid : Nat) (info : TagInfo) (name : Name) (d dim : Nat)
    (ms : TMembers) (priv : List Name) (size : Nat) (mem : Bytes) (off n : Nat)
    (hty : info.core.ty = .arr (.fixed dim) (.structTag ms [] priv size)) (hname : info.core.dataTypeName = name)
    (hnd : name ≠ nm "DWORD") (hshape : ldr4_Nested d (.structTag ms [] priv size)) (hpos : 0 < size)
    (hn : 1 ≤ n) (hin : off + n * size ≤ mem.length) :
    parseReadReply (typeBytes p (.struct tid) ++ (mem.drop off).take (n * size)) info n =
      .ok (ldr2_value (ldr4_elems d (.structTag ms [] priv size) size mem off n), ldr2_typeStr name n) := by
  obtain ⟨_, h2⟩ := ldr3_struct_data p tid ((mem.drop off).take (n * size))
  have hw : fixedWidth (.structTag ms [] priv size) = some size := by simp [fixedWidth, hpos]
  have hN := ldr4_decodeN_held d _ size hshape hw mem n off [] (by rw [Nat.mul_comm]; exact hin)
  rw [List.append_nil, Nat.mul_comm] at hN
  have hdw : (name == nm "DWORD") = false := by simpa using hnd
  have hn0 : ¬ (n = 0) := by omega
  have hb : (Ty.structTag ms [] priv size).isBits = none := rfl
  have harr : decode (.arr (.fixed n) (.structTag ms [] priv size)) ((mem.drop off).take (n * size)) =
      .ok (.list (ldr4_elems d (.structTag ms [] priv size) size mem off n), []) := by
    rw [decode]
    simp only [hN, hb, Option.isSome_none, Bool.false_eq_true, if_false, ldr4_elems]
  have hlenE : (ldr4_elems d (.structTag ms [] priv size) size mem off n).length = n := by simp [ldr4_elems]
  unfold parseReadReply
  rw [hty, hname]
  simp only [hn0, if_false, Cl.parseReadReply, h2, if_true, harr, hb, and_true, hdw, Bool.false_eq_true]
  by_cases h1 : n = 1
  · subst h1
    match hv : ldr4_elems d (.structTag ms [] priv size) size mem off 1, hlenE with
    | [x], _ => simp [ldr2_value, ldr2_typeStr]
  · have hgt : n > 1 := by omega
    have hv : ldr2_value (ldr4_elems d (.structTag ms [] priv size) size mem off n) =
        .list (ldr4_elems d (.structTag ms [] priv size) size mem off n) := ldr4_value_many _ (by omega)
    simp [h1, hgt, hv, ldr2_typeStr]

/-- a structure value is never None -/
theorem ldr4_elems_value_ne_none (d : Nat) (ms : TMembers) (priv : List Name) (size : Nat) (mem : Bytes) (off n : Nat)
    (hd : 1 ≤ d) : ldr2_value (ldr4_elems d (.structTag ms [] priv size) size mem off n) ≠ .none := by
  obtain ⟨d', rfl⟩ : ∃ d', d = d' + 1 := ⟨d - 1, by omega⟩
  unfold ldr4_elems
  match n with
  | 0 => simp [ldr2_value]
  | 1 => simp [ldr2_value, ldr4_held]
  | n + 2 =>
    rw [ldr4_value_many _ (by simp)]
    simp

/-- `read` of `n ≥ 1` elements from element `i` of a one-dimensional controller-scope array of (nested) structures,
    requested as `arr[i]` / `arr[i]{n}` (`idx = [i]`) or `arr` / `arr{n}` (`idx = []`, `i = 0`) -/
theorem ldr4_read_structArr (cfg : Cfg) (w : Cli.World Ext) (sess : Nat) (cidb : Bytes) (conn : Conn)
    (st : LState) (s : Symbol) (tid : Nat) (tm : Template) (info : TagInfo) (si : StructInfo) (d dim : Nat)
    (ms : TMembers) (priv : List Name) (idx : List Nat) (i : Nat) (cnt : Option Nat)
    (hidx : idx = [i] ∨ (idx = [] ∧ i = 0))
    (hw : ldr_Healthy w sess cidb conn) (hlogix : w.net.target.ext.logix = some st)
    (hs : s ∈ st.proj.controller)
    (hbytes : ∀ s' ∈ st.proj.controller, ∀ ch ∈ s'.name, ch < 256)
    (huniqN : ∀ s' ∈ st.proj.controller, s'.name = s.name → s' = s)
    (huniqI : ∀ s' ∈ st.proj.controller, s'.inst = s.inst → s' = s)
    (hid : PlainIdent s.name) (hinst : s.inst < 2 ^ 32)
    (hty : elTyOfWord s.symbolType = .struct tid) (htm : st.proj.template? tid = some tm) (hpos : 0 < tm.size)
    (hdims : s.dims.filter (· != 0) = [dim]) (hlen : s.mem.length = dim * tm.size)
    (hget : cfg.tags.get? s.name = some info)
    (hinfo : ldr3_StructOf info si (.arr (.fixed dim) (.structTag ms [] priv tm.size)) s.inst)
    (hsisz : si.size = tm.size) (hnd : si.name ≠ nm "DWORD")
    (hshape : ldr4_Nested (d + 1) (.structTag ms [] priv tm.size))
    (hi32 : i < 2 ^ 32) (hn : 1 ≤ cnt.getD 1) (hn16 : cnt.getD 1 ≤ 65535) (hin : i + cnt.getD 1 ≤ dim)
    (hC : cnt.getD 1 * tm.size + s.name.length + 26 ≤ w.drv.connectionSize)
    (hT : cnt.getD 1 * tm.size + s.name.length + 26 ≤ conn.size) :
    ∃ w' frm, read hookAll cfg w [ldr2_tagStr ⟨s.name, idx⟩ none cnt] =
        (w', .ok [{ tag := renderLevel ⟨s.name, idx⟩,
                    value := ldr2_value (ldr4_elems (d + 1) (.structTag ms [] priv tm.size) tm.size s.mem (i * tm.size) (cnt.getD 1)),
                    type := some (ldr2_typeStr si.name (cnt.getD 1)), error := none }]) ∧
      w'.drv = w.drv.nextSeq.2 ∧ w'.net.sent = w.net.sent ++ [frm] ∧
      w'.net.target.ext = { w.net.target.ext with logix := some { st with ctr := st.ctr + 1 } } ∧
      ldr_Healthy w' sess cidb { conn with lastSeq := some w.drv.nextSeq.1 } := by
  have hl : ldr2_Level ⟨s.name, idx⟩ := by
    refine ⟨hid, ?_, ?_⟩
    · rcases hidx with h | ⟨h, _⟩ <;> rw [h] <;> simp
    · rcases hidx with h | ⟨h, _⟩ <;> rw [h] <;> simp [hi32]
  have hil : idx.length ≤ 1 := by rcases hidx with h | ⟨h, _⟩ <;> rw [h] <;> simp
  -- (a) parsing
  have hnd' : isDword info = false := by simp [isDword, hinfo.kind]
  have hparse := ldr2_parse_unfold cfg.tags false 0 ⟨s.name, idx⟩ none cnt hl
    (by intro n hc; rw [hc] at hn16; simpa using hn16)
  rw [Option.map_none, ldr2_tail_plain cfg.tags false 0 _ _ _ _ ⟨s.name, idx⟩ none info hl hget hnd' rfl] at hparse
  -- (b) the path
  obtain ⟨path, hpath, hpl, hden⟩ := ldr2_requestPath cfg ⟨s.name, idx⟩ info s.inst hl hinfo.instanceId hinst
  have hpl' : path.length ≤ s.name.length + 19 := by
    have : path.length ≤ s.name.length + 13 + 6 * idx.length := hpl
    omega
  have hrs : tagReturnSize info (cnt.getD 1) = tm.size * cnt.getD 1 := by
    simp [tagReturnSize, hinfo.struct, hsisz]
  -- (d) the address
  have hmem : s.mem ≠ [] := by
    intro h
    rw [h, List.length_nil] at hlen
    have : 0 < dim * tm.size := Nat.mul_pos (by omega) hpos
    omega
  have hr := ldr4_resolve_structElem st.proj s tid tm cfg.useInstanceIds idx i dim hidx hid hs hbytes huniqN huniqI hty htm
    hmem hdims (by omega)
  have hel : st.proj.elSize (.struct tid) = some tm.size := by simp [Project.elSize, htm]
  have hle : i * tm.size + cnt.getD 1 * tm.size ≤ s.mem.length := by
    rw [hlen, ← Nat.add_mul]; exact Nat.mul_le_mul_right _ hin
  have hbts := ldr4_readBytes st.proj s (i * tm.size) (.struct tid) (dim - i) tm.size (cnt.getD 1) hs huniqI
    (fun b e => by cases e) hel hle
  -- (e) the reply
  have hreply := ldr4_parseReadReply_structArr st.proj tid info si.name (d + 1) dim ms priv tm.size s.mem (i * tm.size)
    (cnt.getD 1) hinfo.ty hinfo.typeName hnd hshape hpos hn hle
  have hbl : ((s.mem.drop (i * tm.size)).take (cnt.getD 1 * tm.size)).length ≤ cnt.getD 1 * tm.size := by
    rw [List.length_take]; exact Nat.min_le_left _ _
  have htb : (typeBytes st.proj (ElTy.struct tid)).length = 4 := by
    simp [typeBytes, le, RT.leBytes_length]
  obtain ⟨w', frm, hread, hrest⟩ := ldr3_read_single cfg w sess cidb conn st (ldr2_tagStr ⟨s.name, idx⟩ none cnt) _ info path
    _ (ldr4_locElem s tid tm.size i dim) (cnt.getD 1) _ _ _ hw hlogix hparse rfl rfl rfl rfl hpath hden
    (by have := hid.2.1; omega) hr
    ⟨hn, by simp only [ldr4_locElem]; omega, by omega⟩ hbts hreply
    (by rw [hrs, Nat.mul_comm]; omega) (by omega)
    (by show _ + 6 + (typeBytes st.proj (ElTy.struct tid)).length ≤ conn.size; rw [htb]; omega)
  refine ⟨w', frm, ?_, hrest⟩
  rw [hread]
  have hresult := ldr_readResult
    { requestId := 0, requestTag := ldr2_tagStr ⟨s.name, idx⟩ none cnt, userTag := ldr2_tagStr ⟨s.name, idx⟩ none none,
      plcTag := renderLevel ⟨s.name, idx⟩, bit := none, elements := ((cnt.getD 1 : Nat) : Int), info := some info,
      boolElements := none } info
    { tag := renderLevel ⟨s.name, idx⟩,
      value := ldr2_value (ldr4_elems (d + 1) (.structTag ms [] priv tm.size) tm.size s.mem (i * tm.size) (cnt.getD 1)),
      type := some (ldr2_typeStr si.name (cnt.getD 1)), error := none }
    rfl rfl rfl (by rw [hinfo.typeName]; exact hnd)
    (ldr4_elems_value_ne_none (d + 1) ms priv tm.size s.mem (i * tm.size) (cnt.getD 1) (by omega)) rfl
  dsimp only at hresult ⊢
  rw [hresult]

end Pycomm.Lgx.Drv
